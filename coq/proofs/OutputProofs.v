(* C07 proofs: the output model (OutputModel.v) refines the output spec (OutputSpec.v),
   for all record lists, option combinations, matchers, display transformers and action histories. *)
From Coq Require Import Permutation.
From Fzf Require Import Prelude OutputSpec OutputModel.
Open Scope Z_scope.

(* ------------------------------------------------------------------ framing basics *)
Lemma frame_app t a b : frame t (a ++ b) = frame t a ++ frame t b.
Proof. unfold frame. now rewrite map_app, concat_app. Qed.

Lemma frame_nil t : frame t [] = [].
Proof. reflexivity. Qed.

Lemma frame_cons t x l : frame t (x :: l) = (x ++ [t]) ++ frame t l.
Proof. reflexivity. Qed.

Lemma printer_frame p0 out s : printer p0 out s = out ++ frame (terminator p0) [s].
Proof. unfold printer, frame, terminator, NULb, NLb. cbn. rewrite app_nil_r. now destruct p0. Qed.

Lemma fold_printer_frame p0 q : forall out, fold_left (printer p0) q out = out ++ frame (terminator p0) q.
Proof.
  induction q as [|s q IH]; intro out; cbn [fold_left].
  - now rewrite frame_nil, app_nil_r.
  - rewrite IH, printer_frame, <- app_assoc. f_equal. now rewrite <- frame_app.
Qed.

Lemma exit_consts : ExitOk = EXIT_OK /\ ExitNoMatch = EXIT_NOMATCH /\ ExitError = EXIT_ERROR /\ ExitInterrupt = EXIT_INTERRUPT.
Proof. repeat split. Qed.

Lemma nonemptyb_map {A B} (f : A -> B) l : nonemptyb (map f l) = nonemptyb l.
Proof. now destruct l. Qed.

Lemma exit_status_accept body : exit_status EAccept body = if nonemptyb body then EXIT_OK else EXIT_NOMATCH.
Proof. now destruct body. Qed.

(* ================================================================== filter mode *)
Section Filter.
  Variable strip : str -> str.
  Variable rt : str -> str.
  Variable nth_transform : nat -> str -> str.
  Variable matches : item -> bool.
  Variable rank_sort : list item -> list item.
  Variable sortable : bool.

  Notation trans := (trans strip nth_transform).
  Notation as_string := (as_string strip rt).
  Notation build_items := (build_items strip nth_transform).

  (* "record number i with content r matches": the matcher applied to the item fzf builds from it *)
  Definition rec_matches (o : oopts) (i : nat) (r : str) : bool := matches (trans o i r).

  (* valid input: the util.Chars round trip does not alter what is to be printed (true of valid UTF-8) *)
  Definition printable (o : oopts) (r : str) : Prop :=
    rt (shown (o_ansi o) strip r) = shown (o_ansi o) strip r.

  Lemma as_string_trans o i r : printable o r ->
    as_string (o_ansi o) (trans o i r) = shown (o_ansi o) strip r.
  Proof.
    intro Hp. unfold OutputModel.as_string, OutputModel.trans, ansi_processor, shown in *.
    destruct (o_with_nth o); cbn; [reflexivity|exact Hp].
  Qed.

  Lemma matched_items o : forall rs i, Forall (printable o) rs ->
    map (as_string (o_ansi o)) (filter matches (build_items o i rs)) =
    map (shown (o_ansi o) strip) (matched_from (rec_matches o) i rs).
  Proof.
    induction rs as [|r rs IH]; intros i Hv; [reflexivity|].
    inversion Hv as [|? ? Hr Hrs]; subst.
    cbn [OutputModel.build_items filter matched_from]. unfold rec_matches at 1.
    destruct (matches (trans o i r)); cbn [map app].
    - rewrite as_string_trans by assumption. f_equal. now apply IH.
    - now apply IH.
  Qed.

  Lemma print_loop_spec o : forall m out found,
    print_loop strip rt o m out found =
    (out ++ frame (terminator (o_print0 o)) (map (as_string (o_ansi o)) m), found || nonemptyb m).
  Proof.
    induction m as [|it m IH]; intros out found; cbn [print_loop map].
    - now rewrite frame_nil, app_nil_r, orb_false_r.
    - rewrite IH, printer_frame, <- app_assoc, <- frame_app. cbn. now rewrite orb_true_r.
  Qed.

  Lemma stream_loop_spec o : forall rs i out found,
    stream_loop strip rt nth_transform matches o i rs out found =
    (out ++ frame (terminator (o_print0 o)) (map (as_string (o_ansi o)) (filter matches (build_items o i rs))),
     found || nonemptyb (filter matches (build_items o i rs))).
  Proof.
    induction rs as [|r rs IH]; intros i out found; cbn [stream_loop OutputModel.build_items filter].
    - now rewrite frame_nil, app_nil_r, orb_false_r.
    - destruct (matches (trans o i r)).
      + rewrite IH, printer_frame, <- app_assoc, <- frame_app. cbn. now rewrite orb_true_r.
      + apply IH.
  Qed.

  Hypothesis rank_sort_perm : forall l, Permutation (rank_sort l) l.

  (* the order in which the matched items are printed *)
  Definition printed_items (o : oopts) (rs : list str) : list item :=
    if negb (o_sort o) && negb (o_tac o) && negb (o_sync o) then filter matches (build_items o 0 rs)
    else scan matches rank_sort sortable o (build_items o 0 rs).

  Lemma printed_items_perm o rs : Permutation (printed_items o rs) (filter matches (build_items o 0 rs)).
  Proof.
    unfold printed_items, scan.
    destruct (negb (o_sort o) && negb (o_tac o) && negb (o_sync o)); [reflexivity|].
    destruct (o_sort o && sortable); [apply rank_sort_perm|].
    destruct (o_tac o); [symmetry; apply Permutation_rev|reflexivity].
  Qed.

  Lemma printed_items_unsorted o rs : o_sort o && sortable = false ->
    printed_items o rs = if o_tac o then rev (filter matches (build_items o 0 rs)) else filter matches (build_items o 0 rs).
  Proof.
    intro Hs. unfold printed_items, scan. rewrite Hs.
    destruct (o_sort o) eqn:Es, (o_tac o) eqn:Et, (o_sync o) eqn:Ey; cbn; reflexivity.
  Qed.

  Lemma filter_mode_eq o query rs :
    filter_mode strip rt nth_transform matches rank_sort sortable o query rs =
    (frame (terminator (o_print0 o))
           (filter_parts (o_print_query o) query (map (as_string (o_ansi o)) (printed_items o rs))),
     if nonemptyb (printed_items o rs) then ExitOk else ExitNoMatch).
  Proof.
    unfold filter_mode, printed_items, filter_parts.
    set (out0 := if o_print_query o then _ else _).
    assert (H0 : out0 = frame (terminator (o_print0 o)) (opt_part (o_print_query o) query)).
    { unfold out0, opt_part. destruct (o_print_query o); [now rewrite printer_frame|reflexivity]. }
    destruct (negb (o_sort o) && negb (o_tac o) && negb (o_sync o)).
    - rewrite stream_loop_spec. cbn [fst snd]. now rewrite H0, <- frame_app.
    - rewrite print_loop_spec. cbn [fst snd]. now rewrite H0, <- frame_app.
  Qed.

  (* ★ filter_prints_original + framing + exit status of --filter, both paths, any --with-nth transformer *)
  Theorem filter_prints_original_proof : forall o query rs,
    Forall (printable o) rs ->
    exists body,
      filter_mode strip rt nth_transform matches rank_sort sortable o query rs =
        (frame (terminator (o_print0 o)) (filter_parts (o_print_query o) query body), exit_status EAccept body) /\
      Permutation body (map (shown (o_ansi o) strip) (matched_records (rec_matches o) rs)) /\
      (o_sort o && sortable = false ->
       body = unsorted_body (o_ansi o) (o_tac o) strip (rec_matches o) rs).
  Proof.
    intros o query rs Hv.
    exists (map (as_string (o_ansi o)) (printed_items o rs)). split; [|split].
    - rewrite filter_mode_eq. f_equal. rewrite exit_status_accept, nonemptyb_map. reflexivity.
    - unfold matched_records. rewrite <- matched_items by assumption.
      apply Permutation_map, printed_items_perm.
    - intro Hs. unfold unsorted_body, matched_records. rewrite <- matched_items by assumption.
      rewrite printed_items_unsorted by assumption. destruct (o_tac o); [now rewrite map_rev|reflexivity].
  Qed.

  Lemma matched_from_in (m : nat -> str -> bool) : forall rs i r, In r (matched_from m i rs) -> In r rs.
  Proof.
    induction rs as [|x rs IH]; intros i r Hr; [exact Hr|].
    cbn [matched_from] in Hr. apply in_app_or in Hr as [Hr|Hr].
    - destruct (m i x).
      + destruct Hr as [Hr|Hr]; [left; exact Hr|destruct Hr].
      + destruct Hr.
    - right. exact (IH _ _ Hr).
  Qed.

  (* every printed record is an input record, byte for byte *)
  Corollary filter_printed_is_input_proof : forall o rs body,
    Permutation body (map (shown (o_ansi o) strip) (matched_records (rec_matches o) rs)) ->
    forall p, In p body -> exists r, In r rs /\ p = shown (o_ansi o) strip r.
  Proof.
    intros o rs body Hp p Hin.
    apply (Permutation_in _ Hp) in Hin. apply in_map_iff in Hin as [r [Heq Hr]].
    exists r. split; [|now symmetry].
    exact (matched_from_in _ _ _ _ Hr).
  Qed.
End Filter.

(* ================================================================== selection: map + time stamps = chronological list *)
Lemma existsb_rev {A} (f : A -> bool) l : existsb f (rev l) = existsb f l.
Proof.
  induction l as [|x l IH]; [reflexivity|]. cbn. rewrite existsb_app, IH. cbn.
  rewrite orb_false_r. apply orb_comm.
Qed.

Lemma filter_rev' {A} (f : A -> bool) l : filter f (rev l) = rev (filter f l).
Proof.
  induction l as [|x l IH]; [reflexivity|]. cbn. rewrite filter_app, IH. cbn.
  destruct (f x); cbn; [reflexivity|now rewrite app_nil_r].
Qed.

Definition items_of (m : smap) : list item := map (fun e => snd (snd e)) m.
(* the selected items, oldest first *)
Definition sel_items (s : sstate) : list item := rev (items_of (fst s)).

(* representation invariant: newest entry first, time stamps strictly decreasing and below the clock,
   every entry filed under the index of its item *)
Fixpoint desc (m : smap) (bound : nat) : Prop :=
  match m with
  | [] => True
  | (k, (t, it)) :: r => (t < bound)%nat /\ k = it_index it /\ desc r t
  end.
Definition wf (s : sstate) : Prop := desc (fst s) (snd s).

Lemma desc_weaken m : forall b b', desc m b -> (b <= b')%nat -> desc m b'.
Proof. destruct m as [|[k [t it]] r]; cbn; intros b b' H Hle; [exact I|]. destruct H as (H1 & H2 & H3). repeat split; [lia|assumption|assumption]. Qed.

Lemma desc_times m : forall b, desc m b -> Forall (fun x => (fst x < b)%nat) (map snd m).
Proof.
  induction m as [|[k [t it]] r IH]; intros b H; cbn; [constructor|].
  destruct H as (H1 & H2 & H3). constructor; [exact H1|].
  eapply Forall_impl; [|exact (IH _ H3)]. cbn. intros a Ha. lia.
Qed.

Lemma insert_last e l : Forall (fun x => (fst x < fst e)%nat) l -> insert_by_time e l = l ++ [e].
Proof.
  induction l as [|x l IH]; intro H; [reflexivity|].
  inversion H as [|? ? Hx Hl]; subst. cbn [insert_by_time app].
  apply Nat.ltb_lt in Hx. rewrite Hx. now rewrite IH.
Qed.

Lemma sort_desc m : forall b, desc m b -> fold_right insert_by_time [] (map snd m) = rev (map snd m).
Proof.
  induction m as [|[k [t it]] r IH]; intros b H; [reflexivity|].
  destruct H as (H1 & H2 & H3). cbn. rewrite (IH _ H3).
  apply insert_last. apply Forall_rev. exact (desc_times _ _ H3).
Qed.

(* sort.Sort(byTimeOrder) yields the chronological list *)
Lemma sorted_is_chronological s : wf s -> sort_selected (fst s) = sel_items s.
Proof.
  intro H. unfold sort_selected, sel_items, items_of. rewrite (sort_desc _ _ H).
  rewrite <- map_rev, map_map. now rewrite map_rev.
Qed.

Lemma m_find_items m : forall b k, desc m b ->
  (m_find k m = None <-> existsb (fun y => Nat.eqb (it_index y) k) (items_of m) = false).
Proof.
  induction m as [|[k' [t it]] r IH]; intros b k H; cbn; [tauto|].
  destruct H as (H1 & H2 & H3). subst k'. rewrite (Nat.eqb_sym (it_index it) k).
  destruct (Nat.eqb k (it_index it)); cbn; [split; discriminate|]. exact (IH _ _ H3).
Qed.

Lemma m_delete_items m : forall b k, desc m b ->
  desc (m_delete k m) b /\
  items_of (m_delete k m) = filter (fun y => negb (Nat.eqb (it_index y) k)) (items_of m).
Proof.
  induction m as [|[k' [t it]] r IH]; intros b k H; cbn; [split; [exact I|reflexivity]|].
  destruct H as (H1 & H2 & H3). subst k'. rewrite (Nat.eqb_sym (it_index it) k).
  destruct (IH _ k H3) as [Hd He]. unfold items_of in *.
  destruct (Nat.eqb k (it_index it)); cbn.
  - split; [|exact He]. eapply desc_weaken; [exact Hd|lia].
  - split; [repeat split; assumption|]. now rewrite He.
Qed.

Lemma sel_mem_items (x : item) m :
  sel_mem it_index x (rev (items_of m)) = existsb (fun y => Nat.eqb (it_index y) (it_index x)) (items_of m).
Proof. unfold sel_mem. apply existsb_rev. Qed.

Lemma length_sel_items s : length (sel_items s) = length (fst s).
Proof. unfold sel_items, items_of. now rewrite rev_length, map_length. Qed.

(* selectItem refines "append unless the limit is reached or already selected" *)
Lemma select_item_refines multi it s : wf s ->
  wf (fst (select_item multi it s)) /\
  (sel_items (fst (select_item multi it s)), snd (select_item multi it s)) = sel_add it_index multi it (sel_items s).
Proof.
  intro H. unfold select_item, sel_add. rewrite length_sel_items.
  destruct (Nat.leb multi (length (fst s))); [split; [exact H|reflexivity]|].
  unfold sel_items at 2. rewrite sel_mem_items.
  destruct (m_find (it_index it) (fst s)) eqn:Ef.
  - assert (Hm : existsb (fun y => Nat.eqb (it_index y) (it_index it)) (items_of (fst s)) = true).
    { destruct (existsb _ _) eqn:E; [reflexivity|]. apply (m_find_items _ _ _ H) in E. congruence. }
    rewrite Hm. split; [exact H|reflexivity].
  - apply (m_find_items _ _ _ H) in Ef. rewrite Ef. split.
    + unfold wf. cbn. repeat split; [lia|exact H].
    + reflexivity.
Qed.

(* deselectItem refines "remove" *)
Lemma deselect_item_refines it s : wf s ->
  wf (deselect_item it s) /\ sel_items (deselect_item it s) = sel_remove it_index it (sel_items s).
Proof.
  intro H. unfold deselect_item, wf, sel_items, sel_remove. cbn [fst snd].
  destruct (m_delete_items _ _ (it_index it) H) as [Hd He]. split; [exact Hd|].
  now rewrite He, filter_rev'.
Qed.

Lemma toggle_item_refines multi it s : wf s ->
  wf (fst (toggle_item multi it s)) /\
  sel_items (fst (toggle_item multi it s)) = sel_toggle it_index multi it (sel_items s).
Proof.
  intro H. unfold toggle_item, sel_toggle. unfold sel_items at 2. rewrite sel_mem_items.
  destruct (m_find (it_index it) (fst s)) eqn:Ef.
  - assert (Hm : existsb (fun y => Nat.eqb (it_index y) (it_index it)) (items_of (fst s)) = true).
    { destruct (existsb _ _) eqn:E; [reflexivity|]. apply (m_find_items _ _ _ H) in E. congruence. }
    rewrite Hm. cbn [fst]. exact (deselect_item_refines it s H).
  - apply (m_find_items _ _ _ H) in Ef. rewrite Ef.
    destruct (select_item_refines multi it s H) as [Hw He]. split; [exact Hw|].
    now rewrite <- He.
Qed.

Lemma select_all_refines multi : forall its s, wf s ->
  wf (select_all_loop multi its s) /\
  sel_items (select_all_loop multi its s) = sel_add_all it_index multi its (sel_items s).
Proof.
  induction its as [|it its IH]; intros s H; [split; [exact H|reflexivity]|].
  cbn [select_all_loop sel_add_all].
  destruct (select_item_refines multi it s H) as [Hw He].
  destruct (sel_add it_index multi it (sel_items s)) as [sel' ok] eqn:Ea.
  injection He as He1 He2. cbv zeta. rewrite He2.
  destruct ok.
  - rewrite <- He1. exact (IH _ Hw).
  - split; [exact Hw|exact He1].
Qed.

Lemma sel_remove_all_nil (its : list item) : sel_remove_all it_index its [] = [].
Proof. induction its as [|it its IH]; [reflexivity|exact IH]. Qed.

Lemma sel_remove_all_cons (x : item) l sel :
  sel_remove_all it_index (x :: l) sel = sel_remove_all it_index l (sel_remove it_index x sel).
Proof. reflexivity. Qed.

Lemma deselect_all_refines : forall its s, wf s ->
  wf (deselect_all_loop its s) /\
  sel_items (deselect_all_loop its s) = sel_remove_all it_index its (sel_items s).
Proof.
  induction its as [|it its IH]; intros s H; [split; [exact H|reflexivity]|].
  cbn [deselect_all_loop]. rewrite sel_remove_all_cons.
  destruct (fst s) eqn:Es.
  - split; [exact H|].
    assert (E : sel_items s = []) by (unfold sel_items; now rewrite Es).
    rewrite E. change (sel_remove it_index it []) with (@nil item). symmetry. exact (sel_remove_all_nil its).
  - destruct (deselect_item_refines it s H) as [Hw He]. rewrite <- He. exact (IH _ Hw).
Qed.

(* ================================================================== interactive: output, endings, action histories *)
Lemma get_lt {A} (l : list A) : forall n, (n < length l)%nat -> exists x, get l n = Ok x.
Proof.
  induction l as [|a l IH]; intros n H; [cbn in H; lia|].
  destruct n; cbn; [now exists a|]. apply IH. cbn in H. lia.
Qed.

Lemma current_item_total t : exists c, current_item t = Ok c.
Proof.
  unfold current_item.
  destruct ((0 <=? t_cy t) && (0 <? Z.of_nat (length (t_merger t))) && (t_cy t <? Z.of_nat (length (t_merger t)))) eqn:E.
  - apply andb_true_iff in E as [E E3]. apply andb_true_iff in E as [E1 E2].
    apply Z.leb_le in E1. apply Z.ltb_lt in E3.
    destruct (get_lt (t_merger t) (Z.to_nat (t_cy t))) as [x Hx]; [lia|].
    rewrite Hx. cbn. now exists (Some x).
  - now exists None.
Qed.

(* the item under the cursor *)
Definition cur_of (t : term) : option item := match current_item t with Ok c => c | Err _ => None end.

Lemma current_item_cur t : current_item t = Ok (cur_of t).
Proof. unfold cur_of. destruct (current_item_total t) as [c Hc]. now rewrite Hc. Qed.

Lemma cur_of_empty t : length (t_merger t) = 0%nat -> cur_of t = None.
Proof.
  intro H. unfold cur_of, current_item. rewrite H. cbn. now rewrite andb_false_r.
Qed.

Lemma insert_nonempty e l : nonemptyb (insert_by_time e l) = true.
Proof. destruct l as [|x l]; cbn [insert_by_time]; [reflexivity|]. now destruct (Nat.ltb (fst x) (fst e)). Qed.

Section Interactive.
  Variable strip : str -> str.
  Variable rt : str -> str.
  Notation out_transform := (out_transform strip rt).
  Notation output := (output strip rt).
  Notation do_action := (do_action strip rt).
  Notation run_actions := (run_actions strip rt).

  Lemma print_items_spec o : forall its out,
    print_items strip rt o its out =
    match map_res (out_transform o) its with
    | Ok body => Ok (out ++ frame (terminator (to_print0 o)) body)
    | Err e => Err e
    end.
  Proof.
    induction its as [|it its IH]; intro out; cbn [print_items map_res].
    - cbn. now rewrite app_nil_r.
    - destruct (out_transform o it) as [s|e]; cbn [bind]; [|reflexivity].
      rewrite IH. destruct (map_res (out_transform o) its) as [body|e]; cbn [bind]; [|reflexivity].
      now rewrite printer_frame, <- app_assoc, <- frame_app.
  Qed.

  (* the items whose text forms the body of the result: the selection, oldest first, else the current item *)
  Definition result_items (t : term) : list item := result_body (cur_of t) (sel_items (t_sel t)).

  (* ★ framing + selection_order, at the point where Terminal.output runs *)
  Theorem output_framing_proof : forall o t out found, wf (t_sel t) ->
    output o t = Ok (out, found) ->
    exists body,
      map_res (out_transform o) (result_items t) = Ok body /\
      out = frame (terminator (to_print0 o))
                  (accept_parts (to_print_query o) (t_input t) (to_expect o) (t_pressed t) (t_queue t) body) /\
      found = nonemptyb body.
  Proof.
    intros o t out found Hwf H. unfold OutputModel.output in H.
    set (out1 := if to_print_query o then _ else _) in H.
    set (out2 := if to_expect o then _ else _) in H.
    assert (H2 : out2 = frame (terminator (to_print0 o)) (opt_part (to_print_query o) (t_input t) ++ opt_part (to_expect o) (t_pressed t))).
    { unfold out2, out1, opt_part. destruct (to_print_query o), (to_expect o); cbn [app];
        rewrite ?printer_frame; unfold frame; cbn [map concat app]; rewrite ?app_nil_r, <- ?app_assoc; reflexivity. }
    rewrite fold_printer_frame, H2, <- frame_app in H. clear out1 out2 H2.
    unfold accept_parts, result_items. rewrite <- (sorted_is_chronological _ Hwf).
    assert (Hne : forall m, nonemptyb (sort_selected m) = nonemptyb m).
    { intro m. unfold sort_selected. rewrite nonemptyb_map. destruct m as [|e m]; [reflexivity|].
      cbn [map fold_right]. apply insert_nonempty. }
    destruct (fst (t_sel t)) as [|e m] eqn:Es.
    - (* nothing selected: the current item, if any *)
      rewrite current_item_cur in H. cbn [bind] in H. cbn [sort_selected map fold_right result_body].
      destruct (cur_of t) as [it|].
      + rewrite print_items_spec in H. destruct (map_res (out_transform o) [it]) as [body|e] eqn:Eb; cbn [bind] in H; [|discriminate].
        inversion H; subst. exists body. repeat split.
        * now rewrite <- app_assoc, <- !frame_app, <- !app_assoc.
        * cbn [map_res] in Eb. destruct (out_transform o it); cbn [bind] in Eb; [|discriminate]. now inversion Eb.
      + inversion H; subst. exists []. repeat split. now rewrite app_nil_r, app_assoc.
    - rewrite print_items_spec in H.
      assert (Hs : result_body (cur_of t) (sort_selected (e :: m)) = sort_selected (e :: m)).
      { specialize (Hne (e :: m)). destruct (sort_selected (e :: m)); [discriminate|reflexivity]. }
      rewrite Hs.
      destruct (map_res (out_transform o) (sort_selected (e :: m))) as [body|er] eqn:Eb; cbn [bind] in H; [|discriminate].
      inversion H; subst. exists body. repeat split.
      + now rewrite <- !frame_app, <- !app_assoc.
      + specialize (Hne (e :: m)). destruct (sort_selected (e :: m)); [discriminate|].
        cbn [map_res] in Eb. destruct (out_transform o i); cbn [bind] in Eb; [|discriminate].
        destruct (map_res (out_transform o) l); cbn [bind] in Eb; [|discriminate]. now inversion Eb.
  Qed.

  (* ---- how a run ends ---- *)
  Definition acceptable (t : term) : bool := nonemptyb (fst (t_sel t)) || nonemptyb (t_merger t).
  Definition ending_of (t : term) (a : action) : option ending :=
    match a with
    | AAccept | AExpect _ => Some EAccept
    | AAcceptNonEmpty =>
        if acceptable t || (negb (t_reading t) && Nat.eqb (t_count t) 0) then Some EAccept else None
    | AAcceptOrPrintQuery => if acceptable t then Some EAccept else Some EPrintQuery
    | APrintQuery => Some EPrintQuery
    | AAbort => Some EAbort
    | AFatal => Some EError
    | _ => None
    end.
  Definition key_of (t : term) (a : action) : str := match a with AExpect k => k | _ => t_pressed t end.

  Lemma len0_nonemptyb {A} (l : list A) : negb (Nat.eqb (length l) 0) = nonemptyb l.
  Proof. now destruct l. Qed.

  Lemma req_close_spec o t out code : wf (t_sel t) ->
    req_close strip rt o t = Ok (Exited out code) ->
    exists body, map_res (out_transform o) (result_items t) = Ok body /\
      out = stdout_of EAccept (terminator (to_print0 o)) (to_print_query o) (t_input t) (to_expect o) (t_pressed t) (t_queue t) body /\
      code = exit_status EAccept body.
  Proof.
    intros Hwf H. unfold req_close in H.
    destruct (output o t) as [[out' found]|e] eqn:Eo; cbn [bind] in H; [|discriminate].
    destruct (output_framing_proof o t out' found Hwf Eo) as (body & Hb & Ho & Hf).
    exists body. inversion H; subst. repeat split; [exact Hb|].
    rewrite exit_status_accept. reflexivity.
  Qed.

  (* ★ exit_code_table (+ what is on stdout for every ending) *)
  Theorem exit_code_table_proof : forall o t a out code, wf (t_sel t) ->
    do_action o t a = Ok (Exited out code) ->
    exists e, ending_of t a = Some e /\
      match e with
      | EAccept =>
          exists body, map_res (out_transform o) (result_items t) = Ok body /\
            out = stdout_of EAccept (terminator (to_print0 o)) (to_print_query o) (t_input t) (to_expect o)
                            (key_of t a) (t_queue t) body /\
            code = exit_status EAccept body
      | e' =>
          out = stdout_of e' (terminator (to_print0 o)) (to_print_query o) (t_input t) (to_expect o)
                          (key_of t a) (t_queue t) [] /\
          code = exit_status e' []
      end.
  Proof.
    intros o t a out code Hwf H.
    assert (Hpq : forall out code, req_print_query o t = Exited out code ->
              out = frame (terminator (to_print0 o)) [t_input t] /\ code = EXIT_OK).
    { intros out0 code0 E. unfold req_print_query in E. inversion E; subst. now rewrite printer_frame. }
    destruct a; cbn [OutputModel.do_action] in H;
      try (repeat match type of H with
           | context [if ?c then _ else _] => destruct c
           | context [bind ?x _] => destruct x; cbn [bind] in H
           | context [match ?x with Some _ => _ | None => _ end] => destruct x
           end; discriminate).
    - (* accept *) exists EAccept. split; [reflexivity|]. exact (req_close_spec _ _ _ _ Hwf H).
    - (* accept-non-empty *)
      rewrite !len0_nonemptyb in H. unfold ending_of, acceptable.
      destruct (nonemptyb (fst (t_sel t)) || nonemptyb (t_merger t) || (negb (t_reading t) && Nat.eqb (t_count t) 0)); [|discriminate].
      exists EAccept. split; [reflexivity|]. exact (req_close_spec _ _ _ _ Hwf H).
    - (* accept-or-print-query *)
      rewrite !len0_nonemptyb in H. unfold ending_of, acceptable.
      destruct (nonemptyb (fst (t_sel t)) || nonemptyb (t_merger t)).
      + exists EAccept. split; [reflexivity|]. exact (req_close_spec _ _ _ _ Hwf H).
      + exists EPrintQuery. split; [reflexivity|]. assert (E : req_print_query o t = Exited out code) by congruence. exact (Hpq _ _ E).
    - (* print-query *) exists EPrintQuery. split; [reflexivity|]. assert (E : req_print_query o t = Exited out code) by congruence. exact (Hpq _ _ E).
    - (* abort *) exists EAbort. split; [reflexivity|]. inversion H; subst. split; reflexivity.
    - (* fatal *) exists EError. split; [reflexivity|]. inversion H; subst. split; reflexivity.
    - (* expect key *) exists EAccept. split; [reflexivity|].
      set (t' := mkTerm _ _ _ _ _ _ _ _) in H.
      exact (req_close_spec o t' out code Hwf H).
  Qed.

  (* accept-non-empty with nothing to accept is refused: fzf keeps running, nothing is printed *)
  Theorem accept_non_empty_refused_proof : forall o t,
    ending_of t AAcceptNonEmpty = None -> do_action o t AAcceptNonEmpty = Ok (Running t).
  Proof.
    intros o t H. cbn [OutputModel.do_action]. rewrite !len0_nonemptyb.
    unfold ending_of, acceptable in H.
    destruct (nonemptyb (fst (t_sel t)) || nonemptyb (t_merger t) || (negb (t_reading t) && Nat.eqb (t_count t) 0)); [discriminate|reflexivity].
  Qed.
End Interactive.

(* ================================================================== action histories: the selection evolves as the user sees it *)
(* what an action does to the chronological selection list (OutputSpec's sel_* operations), in the state t:
   operands are the item under the cursor and the listed items *)
Definition sel_after_action (o : topts) (t : term) (a : action) (sel : list item) : list item :=
  let limit := to_multi o in
  if Nat.ltb 0 limit then
    match a with
    | AToggle | AToggleDown | AToggleUp =>
        match cur_of t with Some c => sel_toggle it_index limit c sel | None => sel end
    | ASelect => match cur_of t with Some c => fst (sel_add it_index limit c sel) | None => sel end
    | ADeselect => match cur_of t with Some c => sel_remove it_index c sel | None => sel end
    | ASelectAll => sel_add_all it_index limit (t_merger t) sel
    | ADeselectAll => sel_remove_all it_index (t_merger t) sel
    | AToggleAll => sel_toggle_all it_index limit (t_merger t) sel
    | AClearSelection => []
    | _ => sel
    end
  else sel.

Lemma t_sel_vmove t z : t_sel (vmove t z) = t_sel t.
Proof. reflexivity. Qed.
Lemma t_sel_vset t z : t_sel (vset t z) = t_sel t.
Proof. reflexivity. Qed.
Lemma cur_of_with_sel t s : cur_of (with_sel t s) = cur_of t.
Proof. reflexivity. Qed.

Lemma filter_all_true {A} (f : A -> bool) l : (forall y, In y l -> f y = true) -> filter f l = l.
Proof.
  induction l as [|x l IH]; intro H; [reflexivity|]. cbn. rewrite (H x (or_introl eq_refl)).
  f_equal. apply IH. intros y Hy. apply H. now right.
Qed.

Section Histories.
  Variable strip : str -> str.
  Variable rt : str -> str.
  Notation do_action := (do_action strip rt).
  Notation run_actions := (run_actions strip rt).

  Lemma toggle_current_spec o t : wf (t_sel t) ->
    exists t1 ok, toggle_current o t = Ok (t1, ok) /\ wf (t_sel t1) /\
      sel_items (t_sel t1) = match cur_of t with
                             | Some c => sel_toggle it_index (to_multi o) c (sel_items (t_sel t))
                             | None => sel_items (t_sel t)
                             end.
  Proof.
    intro Hwf. unfold toggle_current. rewrite current_item_cur. cbn [bind].
    destruct (cur_of t) as [c|].
    - eexists _, _. split; [reflexivity|]. cbn [t_sel with_sel]. exact (toggle_item_refines _ c _ Hwf).
    - eexists _, _. split; [reflexivity|]. split; [exact Hwf|reflexivity].
  Qed.

  Lemma sel_mem_find (c : item) s : wf s ->
    (m_find (it_index c) (fst s) = None <-> sel_mem it_index c (sel_items s) = false).
  Proof. intro H. unfold sel_items. rewrite sel_mem_items. exact (m_find_items _ _ _ H). Qed.

  (* one action that does not end the program (toggle-all is treated below) *)
  Lemma action_selection_core : forall o t a t', wf (t_sel t) -> a <> AToggleAll ->
    do_action o t a = Ok (Running t') ->
    wf (t_sel t') /\ sel_items (t_sel t') = sel_after_action o t a (sel_items (t_sel t)).
  Proof.
    intros o t a t' Hwf Hna H. unfold sel_after_action.
    assert (Hempty : negb (Nat.eqb (length (t_merger t)) 0) = false -> cur_of t = None).
    { intro E. apply cur_of_empty. destruct (length (t_merger t)); [reflexivity|discriminate]. }
    destruct a; cbn [OutputModel.do_action] in H; try congruence.
    - (* toggle *)
      destruct (Nat.ltb 0 (to_multi o)); cbn [andb] in H; [|inversion H; subst; now split].
      destruct (negb (Nat.eqb (length (t_merger t)) 0)) eqn:En.
      + destruct (toggle_current_spec o t Hwf) as (t1 & ok & E1 & Hw1 & Hs1). rewrite E1 in H. cbn [bind fst] in H.
        inversion H; subst. now split.
      + inversion H; subst. rewrite (Hempty eq_refl). now split.
    - (* select *)
      rewrite current_item_cur in H. cbn [bind] in H.
      destruct (cur_of t) as [c|]; [|inversion H; subst; destruct (Nat.ltb 0 (to_multi o)); now split].
      destruct (Nat.ltb 0 (to_multi o)); [|inversion H; subst; now split].
      destruct (m_find (it_index c) (fst (t_sel t))) eqn:Ef.
      + inversion H; subst. split; [exact Hwf|].
        assert (Hm : sel_mem it_index c (sel_items (t_sel t')) = true).
        { destruct (sel_mem it_index c (sel_items (t_sel t'))) eqn:E; [reflexivity|].
          apply (sel_mem_find c _ Hwf) in E. congruence. }
        unfold sel_add. rewrite Hm. now destruct (Nat.leb _ _).
      + inversion H; subst. cbn [t_sel with_sel].
        destruct (select_item_refines (to_multi o) c _ Hwf) as [Hw He]. split; [exact Hw|].
        now rewrite <- He.
    - (* deselect *)
      rewrite current_item_cur in H. cbn [bind] in H.
      destruct (cur_of t) as [c|]; [|inversion H; subst; destruct (Nat.ltb 0 (to_multi o)); now split].
      destruct (Nat.ltb 0 (to_multi o)); [|inversion H; subst; now split].
      destruct (m_find (it_index c) (fst (t_sel t))) eqn:Ef.
      + inversion H; subst. cbn [t_sel with_sel]. exact (deselect_item_refines c _ Hwf).
      + inversion H; subst. split; [exact Hwf|].
        apply (sel_mem_find c _ Hwf) in Ef. unfold sel_remove.
        symmetry. apply filter_all_true. intros y Hy.
        destruct (Nat.eqb (it_index y) (it_index c)) eqn:E; [|reflexivity].
        exfalso. unfold sel_mem in Ef. assert (existsb (fun y0 => Nat.eqb (it_index y0) (it_index c)) (sel_items (t_sel t')) = true).
        { apply existsb_exists. now exists y. }
        congruence.
    - (* select-all *)
      destruct (Nat.ltb 0 (to_multi o)); inversion H; subst; [|now split].
      cbn [t_sel with_sel]. exact (select_all_refines _ _ _ Hwf).
    - (* deselect-all *)
      destruct (Nat.ltb 0 (to_multi o)); inversion H; subst; [|now split].
      cbn [t_sel with_sel]. exact (deselect_all_refines _ _ Hwf).
    - (* clear-selection *)
      destruct (Nat.ltb 0 (to_multi o)); inversion H; subst; [|now split].
      cbn [t_sel with_sel]. split; [exact I|reflexivity].
    - (* toggle-down *)
      destruct (Nat.ltb 0 (to_multi o)); cbn [andb] in H; [|inversion H; subst; now split].
      destruct (negb (Nat.eqb (length (t_merger t)) 0)) eqn:En.
      + destruct (toggle_current_spec o t Hwf) as (t1 & ok & E1 & Hw1 & Hs1). rewrite E1 in H. cbn [bind fst snd] in H.
        inversion H; subst. destruct ok; rewrite ?t_sel_vmove; now split.
      + inversion H; subst. rewrite (Hempty eq_refl). now split.
    - (* toggle-up *)
      destruct (Nat.ltb 0 (to_multi o)); cbn [andb] in H; [|inversion H; subst; now split].
      destruct (negb (Nat.eqb (length (t_merger t)) 0)) eqn:En.
      + destruct (toggle_current_spec o t Hwf) as (t1 & ok & E1 & Hw1 & Hs1). rewrite E1 in H. cbn [bind fst snd] in H.
        inversion H; subst. destruct ok; rewrite ?t_sel_vmove; now split.
      + inversion H; subst. rewrite (Hempty eq_refl). now split.
    - inversion H; subst. destruct (Nat.ltb 0 (to_multi o)); now split.
    - inversion H; subst. destruct (Nat.ltb 0 (to_multi o)); now split.
    - inversion H; subst. destruct (Nat.ltb 0 (to_multi o)); now split.
    - inversion H; subst. destruct (Nat.ltb 0 (to_multi o)); now split.
    - inversion H; subst. destruct (Nat.ltb 0 (to_multi o)); now split.
    - inversion H; subst. destruct (Nat.ltb 0 (to_multi o)); now split.
    - inversion H; subst. destruct (Nat.ltb 0 (to_multi o)); now split.
    - (* accept ... : these end the program or leave the state alone *)
      unfold req_close in H. destruct (output strip rt o t) as [[? ?]|]; cbn [bind] in H; discriminate.
    - destruct (_ || _ || _) in H.
      + unfold req_close in H. destruct (output strip rt o t) as [[? ?]|]; cbn [bind] in H; discriminate.
      + inversion H; subst. destruct (Nat.ltb 0 (to_multi o)); now split.
    - destruct (_ || _) in H; [|unfold req_print_query in H; discriminate].
      unfold req_close in H. destruct (output strip rt o t) as [[? ?]|]; cbn [bind] in H; discriminate.
    - unfold req_print_query in H; discriminate.
    - unfold req_close in H. destruct (output strip rt o _) as [[? ?]|]; cbn [bind] in H; discriminate.
  Qed.
End Histories.

(* ================================================================== toggle-all *)
Definition inb (j : nat) (l : list nat) : bool := existsb (Nat.eqb j) l.
Lemma inb_true j l : inb j l = true <-> In j l.
Proof.
  unfold inb. rewrite existsb_exists. split.
  - intros [x [Hx E]]. apply Nat.eqb_eq in E. now subst.
  - intro H. exists j. split; [exact H|apply Nat.eqb_refl].
Qed.

Lemma sel_mem_remove_other (x y : item) sel : it_index x <> it_index y ->
  sel_mem it_index x (sel_remove it_index y sel) = sel_mem it_index x sel.
Proof.
  intro Hne. unfold sel_mem, sel_remove. induction sel as [|a sel IH]; [reflexivity|].
  cbn [filter existsb]. destruct (Nat.eqb (it_index a) (it_index y)) eqn:Ey; cbn [negb existsb].
  - rewrite IH. destruct (Nat.eqb (it_index a) (it_index x)) eqn:Ex; [|reflexivity].
    apply Nat.eqb_eq in Ey, Ex. congruence.
  - now rewrite IH.
Qed.

Lemma filter_ext_in' {A} (f g : A -> bool) l : (forall a, In a l -> f a = g a) -> filter f l = filter g l.
Proof.
  induction l as [|x l IH]; intro H; [reflexivity|]. cbn. rewrite (H x (or_introl eq_refl)).
  rewrite IH; [reflexivity|]. intros a Ha. apply H. now right.
Qed.

Lemma sel_items_nil (s : sstate) : fst s = [] -> sel_items s = [].
Proof. destruct s as [m c]. cbn [fst]. intro E. subst m. reflexivity. Qed.

(* first loop: deselects the listed items that are selected, remembers their positions *)
Lemma toggle_all_1_refines : forall its i s prev, wf s -> NoDup (map it_index its) ->
  (forall j, In j prev -> (j < i)%nat) ->
  let r := toggle_all_1 i its s prev in
  wf (fst r) /\
  sel_items (fst r) =
    sel_remove_all it_index (filter (fun x => sel_mem it_index x (sel_items s)) its) (sel_items s) /\
  (forall j, In j prev -> In j (snd r)) /\
  (forall j, In j (snd r) -> In j prev \/ (i <= j)%nat) /\
  (forall p x, nth_error its p = Some x -> inb (i + p) (snd r) = sel_mem it_index x (sel_items s)).
Proof.
  induction its as [|it its IH]; intros i s prev Hwf Hnd Hprev; cbn zeta.
  - cbn [toggle_all_1 fst snd filter]. repeat split; try tauto. intros p x Hp. destruct p; discriminate.
  - cbn [toggle_all_1]. inversion Hnd as [|? ? Hnotin Hnd']; subst.
    destruct (fst s) as [|e m] eqn:Es.
    + (* nothing left selected *)
      cbn [fst snd]. rewrite (sel_items_nil s Es).
      assert (Hf : filter (fun x : item => sel_mem it_index x []) (it :: its) = []).
      { clear. induction (it :: its) as [|a l IHl]; [reflexivity|exact IHl]. }
      rewrite Hf. repeat split; try tauto.
      intros p x Hp. cbn. destruct (inb (i + p) prev) eqn:E; [|reflexivity].
      apply inb_true in E. apply Hprev in E. lia.
    + rewrite <- Es.
      assert (Hother : forall s', sel_items s' = sel_remove it_index it (sel_items s) ->
                 forall x, In x its -> sel_mem it_index x (sel_items s') = sel_mem it_index x (sel_items s)).
      { intros s' E x Hx. rewrite E. apply sel_mem_remove_other. intro Heq. apply Hnotin. rewrite <- Heq. now apply in_map. }
      cbn [filter]. unfold sel_items at 2. rewrite sel_mem_items. fold (sel_items s).
      destruct (m_find (it_index it) (fst s)) as [fnd|] eqn:Ef.
      * (* selected: deselect, remember position i *)
        assert (Hm : existsb (fun y => Nat.eqb (it_index y) (it_index it)) (items_of (fst s)) = true).
        { destruct (existsb _ _) eqn:E; [reflexivity|]. apply (m_find_items _ _ _ Hwf) in E. congruence. }
        rewrite Hm. destruct (deselect_item_refines it s Hwf) as [Hw' He'].
        assert (Hp' : forall j, In j (i :: prev) -> (j < S i)%nat).
        { intros j [<-|Hj]; [lia|]. apply Hprev in Hj. lia. }
        destruct (IH (S i) (deselect_item it s) (i :: prev) Hw' Hnd' Hp') as (C1 & C2 & C3 & C4 & C5).
        split; [exact C1|]. split; [|split; [|split]].
        -- rewrite C2, sel_remove_all_cons, <- He'. f_equal.
           apply filter_ext_in'. intros a Ha. exact (Hother _ He' a Ha).
        -- intros j Hj. apply C3. now right.
        -- intros j Hj. destruct (C4 j Hj) as [[<-|Hj']|Hj']; [right; lia|now left|right; lia].
        -- intros p x Hp. destruct p as [|p]; cbn [nth_error] in Hp.
           ++ inversion Hp; subst x. rewrite Nat.add_0_r. unfold sel_items. rewrite sel_mem_items, Hm.
              apply inb_true. apply C3. now left.
           ++ replace (i + S p)%nat with (S i + p)%nat by lia. rewrite (C5 p x Hp).
              apply (Hother _ He'). eapply nth_error_In, Hp.
      * (* not selected: skip *)
        apply (m_find_items _ _ _ Hwf) in Ef. rewrite Ef.
        assert (Hp' : forall j, In j prev -> (j < S i)%nat).
        { intros j Hj. apply Hprev in Hj. lia. }
        destruct (IH (S i) s prev Hwf Hnd' Hp') as (C1 & C2 & C3 & C4 & C5).
        split; [exact C1|]. split; [exact C2|]. split; [exact C3|]. split.
        -- intros j Hj. destruct (C4 j Hj) as [Hj'|Hj']; [now left|right; lia].
        -- intros p x Hp. destruct p as [|p]; cbn [nth_error] in Hp.
           ++ inversion Hp; subst x. rewrite Nat.add_0_r. unfold sel_items. rewrite sel_mem_items, Ef.
              destruct (inb i (snd (toggle_all_1 (S i) its s prev))) eqn:E; [|reflexivity].
              apply inb_true in E. destruct (C4 _ E) as [Hj|Hj]; [apply Hprev in Hj|]; lia.
           ++ replace (i + S p)%nat with (S i + p)%nat by lia. exact (C5 p x Hp).
Qed.

(* second loop: selects the listed items whose position was not remembered *)
Lemma toggle_all_2_refines multi prev (mem : item -> bool) : forall its i s, wf s ->
  (forall p x, nth_error its p = Some x -> inb (i + p) prev = mem x) ->
  wf (toggle_all_2 multi i its s prev) /\
  sel_items (toggle_all_2 multi i its s prev) =
    sel_add_all it_index multi (filter (fun x => negb (mem x)) its) (sel_items s).
Proof.
  induction its as [|it its IH]; intros i s Hwf Hmask; [split; [exact Hwf|reflexivity]|].
  cbn [toggle_all_2 filter].
  assert (H0 := Hmask 0%nat it eq_refl). rewrite Nat.add_0_r in H0. unfold inb in H0. rewrite H0.
  assert (Hmask' : forall p x, nth_error its p = Some x -> inb (S i + p) prev = mem x).
  { intros p x Hp. replace (S i + p)%nat with (i + S p)%nat by lia. exact (Hmask (S p) x Hp). }
  destruct (mem it); cbn [negb].
  - exact (IH (S i) s Hwf Hmask').
  - cbn [sel_add_all]. destruct (select_item_refines multi it s Hwf) as [Hw He].
    destruct (sel_add it_index multi it (sel_items s)) as [sel' ok] eqn:Ea.
    injection He as He1 He2. cbv zeta. rewrite He2. destruct ok.
    + rewrite <- He1. exact (IH (S i) _ Hw Hmask').
    + split; [exact Hw|exact He1].
Qed.

Lemma toggle_all_refines multi its s : wf s -> NoDup (map it_index its) ->
  let x := toggle_all_1 0 its s [] in
  wf (toggle_all_2 multi 0 its (fst x) (snd x)) /\
  sel_items (toggle_all_2 multi 0 its (fst x) (snd x)) = sel_toggle_all it_index multi its (sel_items s).
Proof.
  intros Hwf Hnd. cbn zeta.
  destruct (toggle_all_1_refines its 0 s [] Hwf Hnd (fun j (H : In j []) => match H with end)) as (C1 & C2 & _ & _ & C5).
  destruct (toggle_all_2_refines multi (snd (toggle_all_1 0 its s [])) (fun x => sel_mem it_index x (sel_items s))
              its 0 _ C1 C5) as [D1 D2].
  split; [exact D1|]. rewrite D2, C2. reflexivity.
Qed.

(* ================================================================== whole histories *)
Lemma action_eq_toggle_all (a : action) : a = AToggleAll \/ a <> AToggleAll.
Proof. destruct a; (now left) || (right; discriminate). Qed.

Definition twf (t : term) : Prop := wf (t_sel t) /\ NoDup (map it_index (t_merger t)).
Definition act_wf (a : action) : Prop :=
  match a with AUpdate _ m _ => NoDup (map it_index m) | _ => True end.

Section Runs.
  Variable strip : str -> str.
  Variable rt : str -> str.
  Notation do_action := (do_action strip rt).
  Notation run_actions := (run_actions strip rt).
  Notation out_transform := (out_transform strip rt).

  Lemma merger_after o t a t' : do_action o t a = Ok (Running t') ->
    t_merger t' = match a with AUpdate _ m _ => m | _ => t_merger t end.
  Proof.
    intro H.
    destruct a; cbn [OutputModel.do_action] in H;
      repeat match type of H with
      | context [toggle_current ?o ?t] =>
          unfold toggle_current in H; rewrite current_item_cur in H; cbn [bind] in H
      | context [current_item ?t] => rewrite current_item_cur in H; cbn [bind] in H
      | context [if ?c then _ else _] => destruct c
      | context [match cur_of ?t with Some _ => _ | None => _ end] => destruct (cur_of t)
      | context [match m_find ?k ?m with Some _ => _ | None => _ end] => destruct (m_find k m)
      | context [req_close strip rt ?o ?t] =>
          unfold req_close in H; destruct (output strip rt o t) as [[? ?]|]; cbn [bind] in H
      | context [req_print_query ?o ?t] => unfold req_print_query in H
      end; cbn [bind fst snd] in H; try discriminate; inversion H; subst; try reflexivity;
      match goal with |- context [if ?c then _ else _] => destruct c end; reflexivity.
  Qed.

  (* ★ selection_order, one step: every action changes the chronological selection exactly as the
     user-level operations of OutputSpec say *)
  Theorem action_selection_proof : forall o t a t', twf t -> act_wf a ->
    do_action o t a = Ok (Running t') ->
    twf t' /\ sel_items (t_sel t') = sel_after_action o t a (sel_items (t_sel t)).
  Proof.
    intros o t a t' [Hwf Hnd] Ha H.
    assert (Hm := merger_after _ _ _ _ H).
    assert (Hnd' : NoDup (map it_index (t_merger t'))).
    { rewrite Hm. destruct a; try exact Hnd. exact Ha. }
    destruct (action_eq_toggle_all a) as [->|Hne].
    - cbn [OutputModel.do_action] in H. unfold sel_after_action.
      destruct (Nat.ltb 0 (to_multi o)); inversion H; subst; [|repeat split; assumption].
      cbn [t_sel with_sel] in *.
      destruct (toggle_all_refines (to_multi o) (t_merger t) (t_sel t) Hwf Hnd) as [D1 D2].
      repeat split; assumption.
    - destruct (action_selection_core strip rt o t a t' Hwf Hne H) as [Hw Hs].
      repeat split; assumption.
  Qed.

  (* the chronological selection along a history *)
  Fixpoint sel_after_run (o : topts) (t : term) (sel : list item) (acts : list action) : list item :=
    match acts with
    | [] => sel
    | a :: r => match do_action o t a with
                | Ok (Running t') => sel_after_run o t' (sel_after_action o t a sel) r
                | _ => sel
                end
    end.

  (* ★ selection_order, all histories *)
  Theorem run_selection_proof : forall o acts t t', twf t -> Forall act_wf acts ->
    run_actions o t acts = Ok (Running t') ->
    twf t' /\ sel_items (t_sel t') = sel_after_run o t (sel_items (t_sel t)) acts.
  Proof.
    induction acts as [|a acts IH]; intros t t' Ht Hacts H; cbn [OutputModel.run_actions] in H.
    - inversion H; subst. split; [exact Ht|reflexivity].
    - inversion Hacts as [|? ? Ha Hr]; subst.
      destruct (do_action o t a) as [[t1|out code]|e] eqn:Ed; cbn [bind] in H; try discriminate.
      destruct (action_selection_proof o t a t1 Ht Ha Ed) as [Ht1 Hs1].
      destruct (IH t1 t' Ht1 Hr H) as [Ht' Hs']. split; [exact Ht'|].
      cbn [sel_after_run]. rewrite Ed, <- Hs1. exact Hs'.
  Qed.

  (* a history that ends the program: some action ended it, in a well-formed state reached by the ones before *)
  Theorem run_ends_proof : forall o acts t out code, twf t -> Forall act_wf acts ->
    run_actions o t acts = Ok (Exited out code) ->
    exists pre a post t1, acts = pre ++ a :: post /\ run_actions o t pre = Ok (Running t1) /\ twf t1 /\
                          do_action o t1 a = Ok (Exited out code).
  Proof.
    induction acts as [|a acts IH]; intros t out code Ht Hacts H; cbn [OutputModel.run_actions] in H; [discriminate|].
    inversion Hacts as [|? ? Ha Hr]; subst.
    destruct (do_action o t a) as [[t1|out1 code1]|e] eqn:Ed; cbn [bind] in H; try discriminate.
    - destruct (action_selection_proof o t a t1 Ht Ha Ed) as [Ht1 _].
      destruct (IH t1 out code Ht1 Hr H) as (pre & b & post & t2 & E & Hrun & Ht2 & Hd).
      exists (a :: pre), b, post, t2. split; [now rewrite E|]. split; [|split; [exact Ht2|exact Hd]].
      cbn [OutputModel.run_actions]. rewrite Ed. cbn [bind]. exact Hrun.
    - inversion H; subst. exists [], a, acts, t. split; [reflexivity|]. split; [reflexivity|]. split; [exact Ht|exact Ed].
  Qed.

  (* -1 / -0: printed without starting the finder only for zero or one match; framed and exit-coded like an accept *)
  Theorem select1_exit0_proof : forall o s1 e0 query merger out code,
    select1_exit0 strip rt o s1 e0 query merger = Ok (Some (out, code)) ->
    (length merger <= 1)%nat /\
    ((e0 = true /\ merger = []) \/ (s1 = true /\ length merger = 1%nat)) /\
    exists body, map_res (out_transform o) merger = Ok body /\
      out = stdout_of EAccept (terminator (to_print0 o)) (to_print_query o) query (to_expect o) [] [] body /\
      code = exit_status EAccept body.
  Proof.
    intros o s1 e0 query merger out code H. unfold select1_exit0 in H.
    destruct ((s1 && Nat.ltb 1 (length merger)) || (e0 && negb s1 && Nat.ltb 0 (length merger))); [discriminate|].
    destruct ((e0 && Nat.eqb (length merger) 0) || (s1 && Nat.eqb (length merger) 1)) eqn:Ec; [|discriminate].
    rewrite print_items_spec in H.
    destruct (map_res (out_transform o) merger) as [body|e] eqn:Eb; cbn [bind] in H; [|discriminate].
    inversion H; subst. clear H.
    assert (Hlen : (e0 = true /\ merger = []) \/ (s1 = true /\ length merger = 1%nat)).
    { apply orb_true_iff in Ec as [Ec|Ec]; apply andb_true_iff in Ec as [E1 E2]; apply Nat.eqb_eq in E2.
      - left. split; [exact E1|]. now destruct merger.
      - right. now split. }
    split; [destruct Hlen as [[_ ->]|[_ ->]]; cbn; lia|]. split; [exact Hlen|].
    exists body. split; [reflexivity|]. split.
    - unfold stdout_of, accept_parts, opt_part.
      destruct (to_print_query o), (to_expect o); rewrite ?printer_frame;
        unfold frame; cbn [map concat app]; rewrite ?app_nil_r; repeat rewrite <- app_assoc; cbn [app]; reflexivity.
    - rewrite exit_status_accept.
      assert (Hb : nonemptyb body = negb (Nat.eqb (length merger) 0)).
      { clear -Eb. destruct merger as [|it m]; cbn in Eb.
        - now inversion Eb.
        - destruct (out_transform o it); cbn [bind] in Eb; [|discriminate].
          destruct (map_res (out_transform o) m); cbn [bind] in Eb; [|discriminate]. now inversion Eb. }
      rewrite Hb. now destruct (Nat.eqb (length merger) 0).
  Qed.

  (* an invalid command line: nothing on stdout, exit status 2 *)
  Theorem parse_error_proof : forall o s1 e0 query merger count acts,
    interactive strip rt false o s1 e0 query merger count acts = Ok (Exited [] EXIT_ERROR).
  Proof. reflexivity. Qed.

  (* the state the finder starts in is well-formed *)
  Lemma initial_twf merger query count : NoDup (map it_index merger) ->
    twf (mkTerm merger 0 ([], O) [] query [] false count).
  Proof. intro H. split; [exact I|exact H]. Qed.
End Runs.

(* ================================================================== --accept-nth N with AWK-style fields *)
Definition nb (c : Z) : bool := negb (is_blank c).

Lemma white_blank r : ((r =? 9) || (r =? 32)) = is_blank r.
Proof. unfold is_blank. apply orb_comm. Qed.

Lemma drop_while_head {A} (p : A -> bool) l x r : drop_while p l = x :: r -> p x = false.
Proof.
  induction l as [|a l IH]; cbn; [discriminate|]. destruct (p a) eqn:E; [exact IH|].
  intro H. inversion H; subst. exact E.
Qed.

Lemma drop_while_length {A} (p : A -> bool) l : (length (drop_while p l) <= length l)%nat.
Proof. induction l as [|a l IH]; cbn; [lia|]. destruct (p a); cbn; lia. Qed.

Lemma awk_end st cur acc : cur <> [] -> awk_loop st cur acc [] = rev acc ++ [rev cur].
Proof. intro H. cbn. destruct cur; [congruence|]. reflexivity. Qed.

(* in a word: consume the rest of the word *)
Lemma awk_black : forall t cur acc,
  awk_loop AwkBlack cur acc t =
  match drop_while nb t with
  | [] => awk_loop AwkBlack (rev (take_while nb t) ++ cur) acc []
  | b :: r' => awk_loop AwkWhite (b :: rev (take_while nb t) ++ cur) acc r'
  end.
Proof.
  induction t as [|x t IH]; intros cur acc; [reflexivity|].
  cbn [awk_loop drop_while take_while]. rewrite white_blank.
  destruct (is_blank x) eqn:E.
  - assert (Hn : nb x = false) by (unfold nb; now rewrite E). rewrite Hn. reflexivity.
  - assert (Hn : nb x = true) by (unfold nb; now rewrite E). rewrite Hn.
    rewrite IH. cbn [rev]. rewrite <- !app_assoc. reflexivity.
Qed.

(* in the blanks after a word: consume them; the next non-blank starts a new token *)
Lemma awk_white : forall t cur acc,
  awk_loop AwkWhite cur acc t =
  match drop_while is_blank t with
  | [] => awk_loop AwkWhite (rev (take_while is_blank t) ++ cur) acc []
  | c :: r' => awk_loop AwkBlack [c] (rev (rev (take_while is_blank t) ++ cur) :: acc) r'
  end.
Proof.
  induction t as [|x t IH]; intros cur acc; [reflexivity|].
  cbn [awk_loop drop_while take_while]. rewrite white_blank.
  destruct (is_blank x) eqn:E.
  - rewrite IH. cbn [rev]. rewrite <- !app_assoc. reflexivity.
  - reflexivity.
Qed.

Lemma awk_main : forall fuel t c acc, (length t < fuel)%nat -> nb c = true ->
  awk_loop AwkBlack [c] acc t = rev acc ++ awk_fields_fuel fuel (c :: t).
Proof.
  induction fuel as [|f IH]; intros t c acc Hlen Hc; [lia|].
  cbn [awk_fields_fuel]. fold nb. cbn [take_while drop_while]. rewrite Hc.
  rewrite awk_black.
  destruct (drop_while nb t) as [|b r'] eqn:Er.
  - (* the record ends inside the word *)
    rewrite awk_end by (destruct (rev (take_while nb t)); discriminate).
    cbn [take_while drop_while]. rewrite rev_app_distr, rev_involutive. cbn [rev app].
    rewrite app_nil_r. destruct f; reflexivity.
  - assert (Hb : is_blank b = true).
    { apply drop_while_head in Er. unfold nb in Er. now destruct (is_blank b). }
    rewrite awk_white. cbn [take_while drop_while]. rewrite Hb.
    assert (Hl : (length (b :: r') <= length t)%nat) by (rewrite <- Er; apply drop_while_length).
    destruct (drop_while is_blank r') as [|c2 r3] eqn:Er2.
    + rewrite awk_end by (destruct (rev (take_while is_blank r')); discriminate).
      rewrite !rev_app_distr, !rev_involutive. cbn [rev app]. rewrite rev_app_distr, rev_involutive. cbn [rev app].
      rewrite <- !app_assoc. cbn [app]. destruct f; reflexivity.
    + assert (Hc2 : nb c2 = true) by (apply drop_while_head in Er2; unfold nb; now rewrite Er2).
      assert (Hl2 : (length (c2 :: r3) <= length r')%nat) by (rewrite <- Er2; apply drop_while_length).
      rewrite (IH r3 c2 _); [|cbn [length] in *; lia|exact Hc2].
      cbn [rev]. rewrite !rev_app_distr, !rev_involutive. cbn [rev app]. rewrite rev_app_distr, rev_involutive. cbn [rev app].
      rewrite <- !app_assoc. cbn [app]. reflexivity.
Qed.

Lemma awk_nil_skip : forall s acc, awk_loop AwkNil [] acc s =
  match drop_while is_blank s with
  | [] => rev acc
  | c :: t => awk_loop AwkBlack [c] acc t
  end.
Proof.
  induction s as [|x s IH]; intro acc; [reflexivity|].
  cbn [awk_loop drop_while]. rewrite white_blank. destruct (is_blank x); [apply IH|reflexivity].
Qed.

(* the tokenizer's state machine computes the AWK fields of the spec *)
Theorem awk_tokenizer_fields_proof : forall s, awk_tokenizer s = awk_fields s.
Proof.
  intro s. unfold awk_tokenizer, awk_fields. rewrite awk_nil_skip.
  destruct (drop_while is_blank s) as [|c t] eqn:E; [reflexivity|].
  assert (Hc : nb c = true) by (apply drop_while_head in E; unfold nb; now rewrite E).
  rewrite (awk_main (length (c :: t)) t c [] (Nat.lt_succ_diag_r _) Hc). reflexivity.
Qed.

Lemma get_nth {A} (l : list A) d : forall n, get l n = Ok (nth n l d) \/ (get l n = Err OutOfRange /\ (length l <= n)%nat).
Proof.
  induction l as [|a l IH]; intro n; [right; destruct n; split; cbn; (reflexivity || lia)|].
  destruct n; cbn; [now left|]. destruct (IH n) as [H|[H1 H2]]; [now left|right; split; [exact H1|lia]].
Qed.

Section AcceptNth.
  Variable strip : str -> str.
  Variable rt : str -> str.

  (* ★ accept_nth_fields (AWK-style, one positive field number): --accept-nth N prints field N of the record's
     output form with trailing white space removed; nothing when there is no such field *)
  Theorem accept_nth_awk_field_proof : forall o it N, to_delim o = DAwk -> 1 <= N ->
    accept_nth strip rt o (NthRanges [new_range N N]) it =
    Ok (trim_right (nth (Z.to_nat (N - 1)) (awk_fields (as_string strip rt (to_ansi o) it)) [])).
  Proof.
    intros o it N Hd HN. unfold accept_nth. rewrite Hd. cbn [tokenize]. rewrite awk_tokenizer_fields_proof.
    set (fields := awk_fields _).
    assert (Hr : new_range N N = mkRange N N).
    { unfold new_range. destruct (N =? 1); cbn [andb negb]; replace (N =? -1) with false by (symmetry; apply Z.eqb_neq; lia); reflexivity. }
    rewrite Hr. unfold apply_nth, join_transform. cbn [map_res]. unfold transform_one. cbn [r_begin r_end].
    rewrite Z.eqb_refl. replace (N =? 0) with false by (symmetry; apply Z.eqb_neq; lia).
    replace (N <? 0) with false by (symmetry; apply Z.ltb_ge; lia).
    replace (1 <=? N) with true by (symmetry; apply Z.leb_le; lia). cbn [andb].
    assert (Hfin : forall x : str,
              (do s <- (do ts <- (do y <- Ok x; do r <- Ok []; Ok (y :: r)); Ok (concat ts)); Ok (strip_last_delimiter DAwk s))
              = Ok (trim_right x)).
    { intros x. cbn [bind concat]. rewrite app_nil_r. reflexivity. }
    destruct (N <=? Z.of_nat (length fields)) eqn:El.
    - apply Z.leb_le in El. destruct (get_nth fields [] (Z.to_nat (N - 1))) as [Hg|[_ Hg]]; [|lia].
      rewrite Hg. apply Hfin.
    - apply Z.leb_gt in El.
      assert (Hlen : (length fields <= Z.to_nat (N - 1))%nat) by (clearbody fields; lia).
      rewrite (nth_overflow _ _ Hlen). apply (Hfin []).
  Qed.
End AcceptNth.

(* ================================================================== the spec's verdict functions mean what they say *)
Lemma strip_prefix_some : forall p s rest, strip_prefix p s = Some rest -> s = p ++ rest.
Proof.
  induction p as [|x p IH]; intros s rest H; cbn in H; [now inversion H|].
  destruct s as [|y s]; [discriminate|]. destruct (x =? y) eqn:E; [|discriminate].
  apply Z.eqb_eq in E. subst y. cbn. f_equal. now apply IH.
Qed.

Lemma dedup_in x l : In x (dedup l) -> In x l.
Proof.
  revert x. induction l as [|a l IH]; intros x H; [exact H|].
  cbn in H. destruct H as [<-|H]; [now left|]. right. apply IH. apply filter_In in H. tauto.
Qed.

Lemma remove_first_perm x l : In x l -> Permutation (x :: remove_first x l) l.
Proof.
  induction l as [|a l IH]; intro H; [destruct H|]. cbn [remove_first].
  destruct (str_eqb x a) eqn:E.
  - apply str_eqb_eq in E. now subst a.
  - destruct H as [->|H]; [assert (E' : str_eqb x x = true) by (now apply str_eqb_eq); congruence|].
    rewrite perm_swap. constructor. now apply IH.
Qed.

(* framed_perm accepts only framings of permutations *)
Theorem framed_perm_sound_proof : forall fuel t remaining s,
  framed_perm fuel t remaining s = true -> exists p, Permutation p remaining /\ s = frame t p.
Proof.
  induction fuel as [|f IH]; intros t remaining s H; [discriminate|].
  cbn [framed_perm] in H. destruct remaining as [|r0 rem0].
  - destruct s; [|discriminate]. exists []. split; [constructor|reflexivity].
  - set (remaining := r0 :: rem0) in *. apply existsb_exists in H as [r [Hr Hc]].
    apply dedup_in in Hr.
    destruct (strip_prefix (r ++ [t]) s) as [rest|] eqn:Ep; [|discriminate].
    apply strip_prefix_some in Ep. destruct (IH _ _ _ Hc) as [p [Hp Hs]].
    exists (r :: p). split.
    + rewrite Hp. now apply remove_first_perm.
    + rewrite frame_cons, Ep, Hs. reflexivity.
Qed.

(* a positive --filter verdict on an observed (stdout, exit status) means: stdout is the framing of
   [query]? ++ body for a permutation body of the matched records in their printed form (exactly the
   unsorted order when not sorted), and the exit status is the documented one *)
Theorem filter_verdict_sound_proof : forall pq p0 ansi tac sorted query strip m rs stdout code,
  filter_verdict pq p0 ansi tac sorted query strip m rs stdout code = (true, true) ->
  exists body,
    stdout = frame (terminator p0) (filter_parts pq query body) /\
    Permutation body (unsorted_body ansi tac strip m rs) /\
    (sorted = false -> body = unsorted_body ansi tac strip m rs) /\
    code = exit_status EAccept body.
Proof.
  intros pq p0 ansi tac sorted query strip m rs stdout code H. unfold filter_verdict in H.
  assert (Ho := f_equal fst H). assert (Hc := f_equal snd H). cbn [fst snd] in Ho, Hc. clear H.
  apply Z.eqb_eq in Hc. destruct sorted.
  - destruct (strip_prefix _ stdout) as [rest|] eqn:Ep; [|discriminate].
    apply strip_prefix_some in Ep. apply framed_perm_sound_proof in Ho as [body [Hp Hs]].
    exists body. split; [|split; [exact Hp|split; [discriminate|]]].
    + unfold filter_parts. now rewrite frame_app, Ep, Hs.
    + rewrite Hc, !exit_status_accept.
      assert (Hn : forall a b : list str, Permutation a b -> nonemptyb a = nonemptyb b).
      { intros a b Hab. destruct a, b; try reflexivity.
        - apply Permutation_nil in Hab. discriminate.
        - symmetry in Hab. apply Permutation_nil in Hab. discriminate. }
      now rewrite (Hn _ _ Hp).
  - apply str_eqb_eq in Ho. exists (unsorted_body ansi tac strip m rs).
    repeat split; [exact Ho|reflexivity|exact Hc].
Qed.

(* ================================================================== totality: no index ever out of range *)
Lemma collect_range_total : forall fuel idx tokens, exists l, collect_range fuel idx tokens = Ok l.
Proof.
  induction fuel as [|f IH]; intros idx tokens; cbn [collect_range]; [now exists []|].
  destruct (IH (idx + 1) tokens) as [rest Hr]. rewrite Hr. cbn [bind].
  destruct ((1 <=? idx) && (idx <=? Z.of_nat (length tokens))) eqn:E; [|now exists rest].
  apply andb_true_iff in E as [E1 E2]. apply Z.leb_le in E1, E2.
  destruct (get_lt tokens (Z.to_nat (idx - 1))) as [x Hx]; [lia|]. rewrite Hx. cbn [bind]. now exists (x :: rest).
Qed.

Lemma transform_one_total tokens r : exists s, transform_one tokens r = Ok s.
Proof.
  unfold transform_one. destruct (r_begin r =? r_end r).
  - destruct (r_begin r =? 0); [now eexists|].
    set (idx := if r_begin r <? 0 then _ else _).
    destruct ((1 <=? idx) && (idx <=? Z.of_nat (length tokens))) eqn:E; [|now eexists].
    apply andb_true_iff in E as [E1 E2]. apply Z.leb_le in E1, E2.
    destruct (get_lt tokens (Z.to_nat (idx - 1))) as [x Hx]; [lia|]. now exists x.
  - match goal with |- context [collect_range ?f ?i tokens] => destruct (collect_range_total f i tokens) as [l Hl]; rewrite Hl end.
    cbn [bind]. now eexists.
Qed.

Lemma map_res_total {A B} (f : A -> res B) l : (forall x, exists y, f x = Ok y) -> exists l', map_res f l = Ok l'.
Proof.
  intro H. induction l as [|x l IH]; cbn [map_res]; [now exists []|].
  destruct (H x) as [y Hy]. destruct IH as [l' Hl]. rewrite Hy, Hl. cbn [bind]. now eexists.
Qed.

Lemma join_transform_total tokens rs : exists s, join_transform tokens rs = Ok s.
Proof.
  unfold join_transform. destruct (map_res_total (transform_one tokens) rs (transform_one_total tokens)) as [l Hl].
  rewrite Hl. cbn [bind]. now eexists.
Qed.

Lemma template_loop_total d tokens index : forall ps acc, exists s, template_loop d tokens index ps acc = Ok s.
Proof.
  induction ps as [|p ps IH]; intro acc; cbn [template_loop]; [now eexists|].
  destruct p as [s| |rs]; try apply IH.
  destruct (join_transform_total tokens rs) as [x Hx]. rewrite Hx. cbn [bind]. apply IH.
Qed.

Section Total.
  Variable strip : str -> str.
  Variable rt : str -> str.

  Lemma out_transform_total o it : exists s, out_transform strip rt o it = Ok s.
  Proof.
    unfold out_transform. destruct (to_accept_nth o) as [f|]; [|now eexists].
    unfold accept_nth. set (tokens := tokenize _ _).
    assert (H : exists s, apply_nth (to_delim o) f tokens (Z.of_nat (it_index it)) = Ok s).
    { destruct f; cbn [apply_nth]; [apply join_transform_total|apply template_loop_total]. }
    destruct H as [s Hs]. rewrite Hs. cbn [bind]. now eexists.
  Qed.

  Lemma print_items_total o its out : exists out', print_items strip rt o its out = Ok out'.
  Proof.
    rewrite print_items_spec.
    destruct (map_res_total (out_transform strip rt o) its (out_transform_total o)) as [l Hl]. rewrite Hl. now eexists.
  Qed.

  Lemma output_total o t : exists r, output strip rt o t = Ok r.
  Proof.
    unfold output. destruct (fst (t_sel t)).
    - rewrite current_item_cur. cbn [bind]. destruct (cur_of t); [|now eexists].
      match goal with |- context [print_items strip rt o ?l ?x] => destruct (print_items_total o l x) as [y Hy]; rewrite Hy end.
      cbn [bind]. now eexists.
    - match goal with |- context [print_items strip rt o ?l ?x] => destruct (print_items_total o l x) as [y Hy]; rewrite Hy end.
      cbn [bind]. now eexists.
  Qed.

  Lemma req_close_total o t : exists out code, req_close strip rt o t = Ok (Exited out code).
  Proof. unfold req_close. destruct (output_total o t) as [[out f] Hr]. rewrite Hr. cbn [bind]. now eexists _, _. Qed.

  Lemma do_action_total o t a : exists r, do_action strip rt o t a = Ok r.
  Proof.
    destruct a; cbn [do_action];
      repeat match goal with
      | |- context [toggle_current ?o ?t] => unfold toggle_current; rewrite current_item_cur; cbn [bind]
      | |- context [current_item ?t] => rewrite current_item_cur; cbn [bind]
      | |- context [if ?c then _ else _] => destruct c
      | |- context [match cur_of ?t with Some _ => _ | None => _ end] => destruct (cur_of t)
      | |- context [match m_find ?k ?m with Some _ => _ | None => _ end] => destruct (m_find k m)
      | |- context [req_close strip rt ?o ?t] => destruct (req_close_total o t) as (? & ? & ->)
      end; cbn [bind]; now eexists.
  Qed.

  Lemma run_actions_total o : forall acts t, exists r, run_actions strip rt o t acts = Ok r.
  Proof.
    induction acts as [|a acts IH]; intro t; cbn [run_actions]; [now eexists|].
    destruct (do_action_total o t a) as [[t'|out code] Hr]; rewrite Hr; cbn [bind]; [apply IH|now eexists].
  Qed.

  (* the model never fails: every slice / index access of the modelled code is in range, for every state,
     option combination, field expression and history *)
  Theorem interactive_total_proof : forall parse_ok o s1 e0 query merger count acts,
    exists r, interactive strip rt parse_ok o s1 e0 query merger count acts = Ok r.
  Proof.
    intros. unfold interactive. destruct (negb parse_ok); [now eexists|].
    unfold select1_exit0. destruct (_ || _); cbn [bind]; [apply run_actions_total|].
    destruct (_ || _); cbn [bind]; [|apply run_actions_total].
    match goal with |- context [print_items strip rt o ?l ?x] => destruct (print_items_total o l x) as [y Hy]; rewrite Hy end.
    cbn [bind]. now eexists.
  Qed.
End Total.
