(* C01's parse theorem without the "no literal TAB" side condition: for EVERY query string, parseTerms computes
   the documented grouping/classification of the pieces Go's three passes produce
   (ReplaceAll("\\ ","\t"), Split(" +"), ReplaceAll("\t"," ")) - a literal TAB in the query simply comes out as a
   blank inside a term, like an escaped blank.  Used by PatternMonotone.v, which must speak about all queries. *)
From Fzf Require Import Prelude AlgoSpec AlgoModel QuerySpec PatternModel PatternProofs.
Open Scope Z_scope.

(* the tokens of the model: non-empty pieces, TABs turned back into blanks *)
Definition mtokens (s : str) : list str := filter nonemptyb (map untab (split_blanks (replace_esc s) [] false)).

Lemma split_blanks_nonnil s : forall cur inrun, split_blanks s cur inrun <> [].
Proof.
  induction s as [|c r IH]; intros cur inrun; cbn [split_blanks]; [discriminate|].
  destruct (c =? 32); [destruct inrun; [apply IH|discriminate]|apply IH].
Qed.

Lemma split_blanks_inner s : forall cur inrun, (cur <> [] \/ inrun = true) -> inner_ok (split_blanks s cur inrun).
Proof.
  induction s as [|c r IH]; intros cur inrun Hc; cbn [split_blanks]; [exact I|].
  destruct (c =? 32).
  - destruct inrun.
    + apply IH. now right.
    + destruct Hc as [Hc|Hc]; [|discriminate].
      cbn [inner_ok]. pose proof (split_blanks_nonnil r [] true) as Hne.
      destruct (split_blanks r [] true) eqn:E; [congruence|].
      split; [now apply rev_nonnil|]. rewrite <- E. apply IH. now right.
  - apply IH. left. discriminate.
Qed.

Lemma split_blanks_top s :
  exists l, inner_ok l /\ (split_blanks s [] false = l \/ split_blanks s [] false = [] :: l).
Proof.
  destruct s as [|c r].
  - exists [[]]. cbn. auto.
  - cbn [split_blanks]. destruct (c =? 32) eqn:E.
    + exists (split_blanks r [] true). split; [apply split_blanks_inner; now right|right; reflexivity].
    + exists (split_blanks r [c] false). split; [apply split_blanks_inner; left; discriminate|left; reflexivity].
Qed.

Lemma untab_nil_iff x : untab x = [] <-> x = [].
Proof. destruct x; cbn; split; intro H; congruence. Qed.

Lemma inner_ok_untab l : inner_ok l -> inner_ok (map untab l).
Proof.
  induction l as [|x r IH]; intro H; [exact I|].
  destruct r as [|y r']; [exact I|]. destruct H as [Hx Hr].
  change (map untab (x :: y :: r')) with (untab x :: map untab (y :: r')).
  change (map untab (y :: r')) with (untab y :: map untab r') at 1.
  cbn [inner_ok]. split; [now rewrite untab_nil_iff|]. exact (IH Hr).
Qed.

Section ParseAll.
Variable co : char_ops.

(* parse_meets_grammar for all strings *)
Theorem parse_terms_all : forall o s,
  parse_terms co o s = Ok (map (map term_of) (groups co (qopts_of o) (mtokens s))).
Proof.
  intros o s. unfold parse_terms, mtokens. rewrite parse_loop_ploop.
  destruct (split_blanks_top (replace_esc s)) as [l [Hok [Hl|Hl]]]; rewrite Hl.
  - rewrite ploop_inner_ok by (now apply inner_ok_untab).
    change (mkSt [] [] false false) with (mkSt [] (map term_of []) false false).
    rewrite ploop_groups; [reflexivity|discriminate].
  - cbn [map untab ploop]. rewrite parse_step_empty. cbn [bind st_sets st_set st_switchSet filter nonemptyb].
    rewrite ploop_inner_ok by (now apply inner_ok_untab).
    change (mkSt [] [] false false) with (mkSt [] (map term_of []) false false).
    rewrite ploop_groups; [reflexivity|discriminate].
Qed.

Theorem build_pattern_ext_all : forall o q, p_extended o = true ->
  build_pattern co o q =
  Ok (mkPat o true (p_normalize o) (trim q) (map (map term_of) (groups co (qopts_of o) (mtokens (trim q))))).
Proof.
  intros o q He. unfold build_pattern. rewrite He. rewrite trim_model_spec. cbn [bind].
  rewrite parse_terms_all. reflexivity.
Qed.

(* no token carries a TAB *)
Lemma untab_no_tab x : no_tab (untab x).
Proof.
  unfold no_tab, untab. apply Forall_forall. intros c Hc. apply in_map_iff in Hc as [d [<- _]].
  destruct (Z.eqb_spec d 9); [discriminate|assumption].
Qed.

Lemma mtokens_no_tab s tok : In tok (mtokens s) -> no_tab tok /\ tok <> [].
Proof.
  unfold mtokens. intro H. apply filter_In in H as [H Hne]. apply in_map_iff in H as [x [<- _]].
  split; [apply untab_no_tab|]. destruct (untab x); [discriminate|discriminate].
Qed.

End ParseAll.
