(* C01: the pattern model (pattern.go) refines the documented query language (QuerySpec), for all
   queries, lines and option combinations.  Stdlib only, no axioms. *)
From Fzf Require Import Prelude AlgoSpec AlgoModel QuerySpec PatternModel.
Open Scope Z_scope.

(* ====================================================================================== *)
(* Part 1: tokens.  ReplaceAll("\\ ","\t") + Split(" +") + ReplaceAll("\t"," ")  =  tokens  *)
(* ====================================================================================== *)

Definition no_tab (s : str) : Prop := Forall (fun c => c <> 9) s.

(* the three passes fused into one scan over the original string *)
Fixpoint split_esc (s : str) (cur : str) (inrun : bool) : list str :=
  match s with
  | [] => [rev cur]
  | c :: r =>
      if c =? 32 then (if inrun then split_esc r [] true else rev cur :: split_esc r [] true)
      else match r with
           | b :: r' => if (c =? 92) && (b =? 32) then split_esc r' (32 :: cur) false else split_esc r (c :: cur) false
           | [] => split_esc r (c :: cur) false
           end
  end.

Lemma untab_rev l : untab (rev l) = rev (untab l).
Proof. unfold untab. now rewrite map_rev. Qed.

Lemma untab_id c : c <> 9 -> (if c =? 9 then 32 else c) = c.
Proof. intro H. destruct (Z.eqb_spec c 9); [contradiction|reflexivity]. Qed.

(* strong induction on the length, because the escape consumes two characters *)
Lemma fuse_split : forall n s cur inrun, (length s <= n)%nat -> no_tab s ->
  map untab (split_blanks (replace_esc s) cur inrun) = split_esc s (untab cur) inrun.
Proof.
  induction n as [|n IH]; intros s cur inrun Hlen Hnt.
  - destruct s; [|cbn in Hlen; lia]. cbn. now rewrite untab_rev.
  - destruct s as [|c r]; [cbn; now rewrite untab_rev|].
    cbn [length] in Hlen. inversion Hnt as [|? ? Hc Hr]; subst.
    cbn [replace_esc split_esc].
    destruct r as [|b r'].
    + cbn [replace_esc]. cbn [split_blanks].
      destruct (c =? 32) eqn:E32.
      * destruct inrun; cbn [map split_blanks]; rewrite ?untab_rev; reflexivity.
      * cbn [split_blanks map]. rewrite untab_rev. cbn [untab map]. now rewrite untab_id.
    + destruct ((c =? 92) && (b =? 32)) eqn:Eesc.
      * apply andb_true_iff in Eesc as [E92 Eb]. apply Z.eqb_eq in E92. subst c.
        change (92 =? 32) with false. cbn iota.
        cbn [split_blanks]. change (9 =? 32) with false. cbn iota.
        inversion Hr; subst.
        rewrite IH; [reflexivity| cbn [length] in Hlen; lia | assumption].
      * cbn [split_blanks].
        destruct (c =? 32) eqn:E32.
        -- destruct inrun.
           ++ rewrite IH; [reflexivity|lia|assumption].
           ++ cbn [map]. rewrite untab_rev. rewrite IH; [reflexivity|lia|assumption].
        -- rewrite IH; [|lia|assumption]. cbn [untab map]. now rewrite untab_id.
Qed.

(* dropping the empty pieces gives the documented tokens *)
Lemma split_esc_tokens : forall n s cur inrun, (length s <= n)%nat -> (inrun = true -> cur = []) ->
  filter nonemptyb (split_esc s cur inrun) = tokens_aux s cur.
Proof.
  induction n as [|n IH]; intros s cur inrun Hlen Hrun.
  - destruct s; [|cbn in Hlen; lia]. cbn. destruct (rev cur); reflexivity.
  - destruct s as [|c r]; [cbn; destruct (rev cur); reflexivity|].
    cbn [length] in Hlen. cbn [split_esc tokens_aux]. unfold chSP, chBS.
    destruct (c =? 32) eqn:E32.
    + destruct inrun.
      * rewrite (Hrun eq_refl). cbn [rev emit]. apply IH; [lia|reflexivity].
      * cbn [filter]. rewrite IH; [|lia|reflexivity]. destruct (rev cur); reflexivity.
    + destruct r as [|b r'].
      * apply IH; [cbn; lia|discriminate].
      * destruct ((c =? 92) && (b =? 32)).
        -- apply IH; [cbn [length] in Hlen; lia|discriminate].
        -- apply IH; [lia|discriminate].
Qed.

(* all pieces but the last are non-empty ... *)
Fixpoint inner_ok (l : list str) : Prop :=
  match l with
  | [] => True
  | x :: r => match r with [] => True | _ => x <> [] /\ inner_ok r end
  end.

Lemma split_esc_nonnil_n : forall n s cur inrun, (length s <= n)%nat -> split_esc s cur inrun <> [].
Proof.
  induction n as [|n IH]; intros s cur inrun Hlen.
  - destruct s; [cbn; discriminate|cbn in Hlen; lia].
  - destruct s as [|c r]; [cbn; discriminate|]. cbn [length] in Hlen.
    cbn [split_esc]. destruct (c =? 32).
    + destruct inrun; [apply IH; lia|discriminate].
    + destruct r as [|b r']; [apply IH; cbn; lia|].
      destruct ((c =? 92) && (b =? 32)); apply IH; cbn [length] in Hlen |- *; lia.
Qed.
Lemma split_esc_nonnil s cur inrun : split_esc s cur inrun <> [].
Proof. apply (split_esc_nonnil_n (length s)). lia. Qed.

Lemma rev_nonnil {A} (l : list A) : l <> [] -> rev l <> [].
Proof. destruct l; [congruence|]. cbn. intros _ H. now apply app_eq_nil in H as [_ H]. Qed.

Lemma split_esc_inner : forall n s cur inrun, (length s <= n)%nat -> (cur <> [] \/ inrun = true) ->
  inner_ok (split_esc s cur inrun).
Proof.
  induction n as [|n IH]; intros s cur inrun Hlen Hc.
  - destruct s; [|cbn in Hlen; lia]. cbn. exact I.
  - destruct s as [|c r]; [cbn; exact I|].
    cbn [length] in Hlen. cbn [split_esc].
    destruct (c =? 32) eqn:E32.
    + destruct inrun.
      * apply IH; [lia|now right].
      * destruct Hc as [Hc|Hc]; [|discriminate].
        cbn [inner_ok]. pose proof (split_esc_nonnil r [] true) as Hne.
        destruct (split_esc r [] true) eqn:E; [congruence|].
        split; [now apply rev_nonnil|]. rewrite <- E. apply IH; [lia|now right].
    + destruct r as [|b r'].
      * apply IH; [cbn; lia|left; discriminate].
      * destruct ((c =? 92) && (b =? 32)); apply IH; try (left; discriminate); cbn [length] in Hlen |- *; lia.
Qed.

(* ... so the list of pieces is the token list with at most one empty piece in front and one at the end *)
Lemma split_esc_top s :
  exists l, inner_ok l /\ filter nonemptyb l = tokens s /\
            (split_esc s [] false = l \/ split_esc s [] false = [] :: l).
Proof.
  destruct s as [|c r].
  - exists [[]]. cbn. auto.
  - cbn [split_esc]. destruct (c =? 32) eqn:E32.
    + exists (split_esc r [] true). split; [apply (split_esc_inner (length r)); [lia|now right]|].
      split; [|right; reflexivity].
      rewrite (split_esc_tokens (length r)); [|lia|reflexivity].
      unfold tokens. cbn [tokens_aux]. unfold chSP. rewrite E32. reflexivity.
    + exists (split_esc (c :: r) [] false). split.
      * cbn [split_esc]. rewrite E32.
        destruct r as [|b r'].
        -- apply (split_esc_inner 0); [cbn; lia|left; discriminate].
        -- destruct ((c =? 92) && (b =? 32)).
           ++ apply (split_esc_inner (length r')); [lia|left; discriminate].
           ++ apply (split_esc_inner (S (length r'))); [cbn; lia|left; discriminate].
      * split; [|left; cbn [split_esc]; rewrite E32; reflexivity].
        apply (split_esc_tokens (S (length r))); [cbn; lia|discriminate].
Qed.

(* ====================================================================================== *)
(* Part 2: one token -> one term; the loop over tokens -> groups                            *)
(* ====================================================================================== *)

Lemma slice_from1_starts c s : starts c s = true -> slice_from1 s = Ok (tl s).
Proof. destruct s; [discriminate|reflexivity]. Qed.

Lemma ends_nonnil c s : ends c s = true -> s <> [].
Proof. destruct s; [discriminate|discriminate]. Qed.

Lemma slice_to_last_nonnil s : s <> [] -> slice_to_last s = Ok (removelast s).
Proof. destruct s; [congruence|reflexivity]. Qed.

Section Parse.
Variable co : char_ops.

Notation classify := (classify co).
Notation groups_aux := (groups_aux co).

Lemma case_sensitive_eq m text : case_sensitive m text (to_lower co text) = case_of co m text.
Proof. destruct m; reflexivity. Qed.

(* the operator stripping of parseTerms computes exactly the classification table *)
Lemma strip_ops_classify (fz : bool) (t0 : str) :
  let inv := starts chBANG t0 in
  let t1 := if inv then tl t0 else t0 in
  let suf := negb (str_eqb t1 [chDOLLAR]) && ends chDOLLAR t1 in
  let t2 := if suf then removelast t1 else t1 in
  let plain := if negb fz || inv then KExact else KFuzzy in
  let flipped := if fz && negb inv then KExact else KFuzzy in
  let kt :=
    if Nat.ltb 2 (length t2) && starts chQUOTE t2 && ends chQUOTE t2 then (KBoundary, removelast (tl t2))
    else if starts chQUOTE t2 then (flipped, tl t2)
    else if starts chCARET t2 then ((if suf then KEqual else KPrefix), tl t2)
    else ((if suf then KSuffix else plain), t2) in
  strip_ops fz (if fz then termFuzzy else termExact) t0 = Ok (ttype_of (fst kt), inv, snd kt).
Proof.
  cbv zeta. unfold strip_ops, has_prefix, has_suffix.
  change (match t0 with x :: _ => x =? 33 | [] => false end) with (starts chBANG t0).
  destruct (starts chBANG t0) eqn:Ebang.
  - rewrite (slice_from1_starts _ _ Ebang). cbn [bind].
    set (t1 := tl t0).
    change (match rev t1 with x :: _ => x =? 36 | [] => false end) with (ends chDOLLAR t1).
    change [36] with [chDOLLAR].
    destruct (negb (str_eqb t1 [chDOLLAR]) && ends chDOLLAR t1) eqn:Esuf.
    + apply andb_true_iff in Esuf as [_ Hends].
      rewrite (slice_to_last_nonnil t1 (ends_nonnil _ _ Hends)). cbn [bind].
      set (t2 := removelast t1).
      change (match t2 with x :: _ => x =? 39 | [] => false end) with (starts chQUOTE t2).
      change (match rev t2 with x :: _ => x =? 39 | [] => false end) with (ends chQUOTE t2).
      change (match t2 with x :: _ => x =? 94 | [] => false end) with (starts chCARET t2).
      destruct (Nat.ltb 2 (length t2) && starts chQUOTE t2 && ends chQUOTE t2) eqn:Eb.
      * apply andb_true_iff in Eb as [Eb _]. apply andb_true_iff in Eb as [Hlen Hq].
        rewrite (slice_from1_starts _ _ Hq). cbn [bind].
        rewrite slice_to_last_nonnil.
        2:{ apply Nat.ltb_lt in Hlen. destruct t2 as [|? [|? ?]]; cbn in Hlen; try lia; discriminate. }
        reflexivity.
      * destruct (starts chQUOTE t2) eqn:Hq.
        -- rewrite (slice_from1_starts _ _ Hq). cbn [bind]. rewrite andb_false_r. destruct fz; reflexivity.
        -- destruct (starts chCARET t2) eqn:Hc.
           ++ rewrite (slice_from1_starts _ _ Hc). reflexivity.
           ++ reflexivity.
    + cbn [bind]. set (t2 := t1).
      change (match t2 with x :: _ => x =? 39 | [] => false end) with (starts chQUOTE t2).
      change (match rev t2 with x :: _ => x =? 39 | [] => false end) with (ends chQUOTE t2).
      change (match t2 with x :: _ => x =? 94 | [] => false end) with (starts chCARET t2).
      destruct (Nat.ltb 2 (length t2) && starts chQUOTE t2 && ends chQUOTE t2) eqn:Eb.
      * apply andb_true_iff in Eb as [Eb _]. apply andb_true_iff in Eb as [Hlen Hq].
        rewrite (slice_from1_starts _ _ Hq). cbn [bind].
        rewrite slice_to_last_nonnil.
        2:{ apply Nat.ltb_lt in Hlen. destruct t2 as [|? [|? ?]]; cbn in Hlen; try lia; discriminate. }
        reflexivity.
      * destruct (starts chQUOTE t2) eqn:Hq.
        -- rewrite (slice_from1_starts _ _ Hq). cbn [bind]. rewrite andb_false_r. destruct fz; reflexivity.
        -- destruct (starts chCARET t2) eqn:Hc.
           ++ rewrite (slice_from1_starts _ _ Hc). reflexivity.
           ++ rewrite orb_true_r. reflexivity.
  - cbn [bind]. set (t1 := t0).
    change (match rev t1 with x :: _ => x =? 36 | [] => false end) with (ends chDOLLAR t1).
    change [36] with [chDOLLAR].
    destruct (negb (str_eqb t1 [chDOLLAR]) && ends chDOLLAR t1) eqn:Esuf.
    + apply andb_true_iff in Esuf as [_ Hends].
      rewrite (slice_to_last_nonnil t1 (ends_nonnil _ _ Hends)). cbn [bind].
      set (t2 := removelast t1).
      change (match t2 with x :: _ => x =? 39 | [] => false end) with (starts chQUOTE t2).
      change (match rev t2 with x :: _ => x =? 39 | [] => false end) with (ends chQUOTE t2).
      change (match t2 with x :: _ => x =? 94 | [] => false end) with (starts chCARET t2).
      destruct (Nat.ltb 2 (length t2) && starts chQUOTE t2 && ends chQUOTE t2) eqn:Eb.
      * apply andb_true_iff in Eb as [Eb _]. apply andb_true_iff in Eb as [Hlen Hq].
        rewrite (slice_from1_starts _ _ Hq). cbn [bind].
        rewrite slice_to_last_nonnil.
        2:{ apply Nat.ltb_lt in Hlen. destruct t2 as [|? [|? ?]]; cbn in Hlen; try lia; discriminate. }
        reflexivity.
      * destruct (starts chQUOTE t2) eqn:Hq.
        -- rewrite (slice_from1_starts _ _ Hq). cbn [bind]. rewrite andb_true_r. destruct fz; reflexivity.
        -- destruct (starts chCARET t2) eqn:Hc.
           ++ rewrite (slice_from1_starts _ _ Hc). reflexivity.
           ++ reflexivity.
    + cbn [bind]. set (t2 := t1).
      change (match t2 with x :: _ => x =? 39 | [] => false end) with (starts chQUOTE t2).
      change (match rev t2 with x :: _ => x =? 39 | [] => false end) with (ends chQUOTE t2).
      change (match t2 with x :: _ => x =? 94 | [] => false end) with (starts chCARET t2).
      destruct (Nat.ltb 2 (length t2) && starts chQUOTE t2 && ends chQUOTE t2) eqn:Eb.
      * apply andb_true_iff in Eb as [Eb _]. apply andb_true_iff in Eb as [Hlen Hq].
        rewrite (slice_from1_starts _ _ Hq). cbn [bind].
        rewrite slice_to_last_nonnil.
        2:{ apply Nat.ltb_lt in Hlen. destruct t2 as [|? [|? ?]]; cbn in Hlen; try lia; discriminate. }
        reflexivity.
      * destruct (starts chQUOTE t2) eqn:Hq.
        -- rewrite (slice_from1_starts _ _ Hq). cbn [bind]. rewrite andb_true_r. destruct fz; reflexivity.
        -- destruct (starts chCARET t2) eqn:Hc.
           ++ rewrite (slice_from1_starts _ _ Hc). destruct fz; reflexivity.
           ++ rewrite orb_false_r. destruct fz; reflexivity.
Qed.


Lemma nonemptyb_map {A B} (f : A -> B) l : nonemptyb (map f l) = nonemptyb l.
Proof. destruct l; reflexivity. Qed.

(* one loop iteration, seen from the spec; (sets, cur, sw, ab) are the loop variables *)
Lemma parse_step_spec o sets cur sw ab tok :
  parse_step co o (mkSt sets (map term_of cur) sw ab) tok =
    if nonemptyb cur && negb ab && is_bar co (qopts_of o) tok then Ok (mkSt sets (map term_of cur) false true)
    else match classify (qopts_of o) tok with
         | None => Ok (mkSt sets (map term_of cur) sw false)
         | Some tm => if sw then Ok (mkSt (sets ++ [map term_of cur]) [term_of tm] true false)
                      else Ok (mkSt sets (map term_of (cur ++ [tm])) true false)
         end.
Proof.
  unfold parse_step. cbn [st_sets st_set st_switchSet st_afterBar].
  rewrite case_sensitive_eq. rewrite nonemptyb_map.
  unfold is_bar. cbn [qopts_of q_case].
  change (to_lower co tok) with (lower_str co tok).
  change [124] with [chBAR].
  destruct (nonemptyb cur && negb ab &&
            str_eqb (if case_of co (p_case o) tok then tok else lower_str co tok) [chBAR]); [reflexivity|].
  rewrite strip_ops_classify. cbn [bind].
  unfold classify. cbn [qopts_of q_case q_fuzzy q_normalize].
  unfold norm_of. change (normalize_runes co) with (norm_str co).
  match goal with |- context [let '(k, t3) := ?X in _] => destruct X as [k t3] end.
  cbn [fst snd]. destruct t3 as [|x t3]; cbn [nonemptyb]; [reflexivity|].
  destruct sw; [reflexivity|]. rewrite map_app. reflexivity.
Qed.

Lemma parse_step_empty o st : parse_step co o st [] = Ok (mkSt (st_sets st) (st_set st) (st_switchSet st) false).
Proof.
  unfold parse_step. cbn [to_lower map].
  destruct (p_case o); cbn; rewrite andb_false_r; destruct (p_fuzzy o); reflexivity.
Qed.

(* the loop on already un-TAB-bed tokens *)
Fixpoint ploop (o : popts) (toks : list str) (st : pstate) : res (list termSet) :=
  match toks with
  | [] => Ok (if nonemptyb (st_set st) then st_sets st ++ [st_set st] else st_sets st)
  | t :: r => do st' <- parse_step co o st t; ploop o r st'
  end.

Lemma parse_loop_ploop o toks st : parse_loop co o toks st = ploop o (map untab toks) st.
Proof.
  revert st. induction toks as [|t r IH]; intro st; [reflexivity|].
  cbn [parse_loop map ploop]. destruct (parse_step co o st (untab t)); [apply IH|reflexivity].
Qed.

(* empty pieces (only in front or at the very end) do not matter *)
Lemma ploop_inner_ok o l : inner_ok l -> forall st, ploop o l st = ploop o (filter nonemptyb l) st.
Proof.
  induction l as [|x r IH]; intros Hok st; [reflexivity|].
  destruct r as [|y r'].
  - destruct x as [|c x]; [|reflexivity].
    cbn [filter nonemptyb ploop]. rewrite parse_step_empty. reflexivity.
  - destruct Hok as [Hx Hr]. destruct x as [|c x]; [congruence|].
    cbn [filter nonemptyb]. cbn [ploop].
    destruct (parse_step co o st (c :: x)); [|reflexivity]. cbn [bind]. apply IH. exact Hr.
Qed.

Lemma emit_app {A} (cur : list A) l (pre : list (list A)) :
  (pre ++ emit cur l) = (if nonemptyb cur then pre ++ [cur] else pre) ++ l.
Proof. destruct cur; cbn; [reflexivity|]. now rewrite <- app_assoc. Qed.

Lemma ploop_groups o : forall toks sets cur sw ab,
  (sw = true -> cur <> []) ->
  ploop o toks (mkSt sets (map term_of cur) sw ab) =
  Ok (sets ++ map (map term_of) (groups_aux (qopts_of o) toks cur (negb sw) ab)).
Proof.
  induction toks as [|t r IH]; intros sets cur sw ab Hsw.
  - cbn [ploop groups_aux st_set st_sets]. rewrite nonemptyb_map.
    destruct cur; cbn; [now rewrite app_nil_r|reflexivity].
  - cbn [ploop groups_aux]. rewrite parse_step_spec.
    destruct (nonemptyb cur && negb ab && is_bar co (qopts_of o) t) eqn:Ebar.
    + cbn [bind]. rewrite IH; [reflexivity|discriminate].
    + destruct (classify (qopts_of o) t) as [tm|].
      * destruct sw; cbn [negb bind].
        -- change [term_of tm] with (map term_of [tm]).
           rewrite IH; [|intros _; discriminate].
           specialize (Hsw eq_refl). destruct cur as [|c0 cur]; [congruence|].
           cbn [emit map]. rewrite <- app_assoc. reflexivity.
        -- rewrite IH; [reflexivity|]. intros _. destruct cur; discriminate.
      * cbn [bind]. rewrite IH; [reflexivity|assumption].
Qed.

(* ★ parse_meets_grammar: for every string without a literal TAB, parseTerms computes the documented grammar *)
Theorem parse_meets_grammar_proof : forall o s, no_tab s ->
  parse_terms co o s = Ok (map (map term_of) (groups co (qopts_of o) (tokens s))).
Proof.
  intros o s Hnt. unfold parse_terms. rewrite parse_loop_ploop.
  rewrite (fuse_split (length s)); [|lia|assumption]. cbn [untab map].
  destruct (split_esc_top s) as [l [Hok [Hfil [Hl|Hl]]]]; rewrite Hl.
  - rewrite ploop_inner_ok by assumption. rewrite Hfil.
    change (mkSt [] [] false false) with (mkSt [] (map term_of []) false false).
    rewrite ploop_groups; [reflexivity|discriminate].
  - cbn [ploop]. rewrite parse_step_empty. cbn [bind st_sets st_set st_switchSet].
    rewrite ploop_inner_ok by assumption. rewrite Hfil.
    change (mkSt [] [] false false) with (mkSt [] (map term_of []) false false).
    rewrite ploop_groups; [reflexivity|discriminate].
Qed.

End Parse.

(* ====================================================================================== *)
(* Part 3: BuildPattern                                                                     *)
(* ====================================================================================== *)

Lemma slice_to_last_rev_cons c r : slice_to_last (rev (c :: r)) = Ok (rev r).
Proof.
  cbn [rev]. rewrite slice_to_last_nonnil.
  - now rewrite removelast_last.
  - intro H. now apply app_eq_nil in H as [_ H].
Qed.

Lemma trim_right_m_spec : forall r fuel, (length r < fuel)%nat ->
  trim_right_m fuel (rev r) = Ok (rev (trim_right_rev r)).
Proof.
  induction r as [|c r IH]; intros fuel Hf; (destruct fuel as [|fuel]; [lia|]).
  - reflexivity.
  - cbn [length] in Hf. cbn [trim_right_m]. rewrite rev_involutive.
    cbn [trim_right_rev]. unfold chSP, chBS.
    destruct (c =? 32) eqn:E32; [|reflexivity].
    destruct r as [|b r'].
    + cbn [andb negb]. rewrite slice_to_last_rev_cons. cbn [bind].
      apply (IH fuel). cbn in *. lia.
    + destruct (b =? 92) eqn:E92; cbn [andb negb]; [reflexivity|].
      rewrite slice_to_last_rev_cons. cbn [bind]. apply IH. lia.
Qed.

Lemma trim_left_length q : (length (trim_left q) <= length q)%nat.
Proof.
  unfold trim_left. induction q as [|c q IH]; [cbn; lia|].
  cbn [drop_while length]. destruct (c =? chSP); cbn [length]; lia.
Qed.

Lemma trim_model_spec q : trim_right_m (S (length q)) (trim_left_m q) = Ok (trim q).
Proof.
  change (trim_left_m q) with (trim_left q). unfold trim.
  rewrite <- (rev_involutive (trim_left q)) at 1.
  apply trim_right_m_spec. rewrite rev_length. pose proof (trim_left_length q). lia.
Qed.

Lemma Forall_drop_while {A} (P : A -> Prop) f l : Forall P l -> Forall P (drop_while f l).
Proof. induction 1 as [|x l Hx Hl IH]; [constructor|]. cbn. destruct (f x); [assumption|now constructor]. Qed.

Lemma Forall_trim_right_rev (P : Z -> Prop) r : Forall P r -> Forall P (trim_right_rev r).
Proof.
  induction 1 as [|c r Hc Hr IH]; [constructor|].
  cbn [trim_right_rev]. destruct (c =? chSP); [|now constructor].
  destruct r as [|b r']; [exact IH|]. destruct (b =? chBS); [now constructor|exact IH].
Qed.

Lemma no_tab_trim q : no_tab q -> no_tab (trim q).
Proof.
  intro H. unfold no_tab, trim. apply Forall_rev. apply Forall_trim_right_rev. apply Forall_rev.
  now apply Forall_drop_while.
Qed.

Section Build.
Variable co : char_ops.

Theorem build_pattern_ext_proof : forall o q, p_extended o = true -> no_tab q ->
  build_pattern co o q =
  Ok (mkPat o true (p_normalize o) (trim q) (map (map term_of) (query_groups co (qopts_of o) q))).
Proof.
  intros o q He Hnt. unfold build_pattern. rewrite He. rewrite trim_model_spec. cbn [bind].
  rewrite parse_meets_grammar_proof by (now apply no_tab_trim). reflexivity.
Qed.

Lemma build_pattern_basic o q : p_extended o = false ->
  build_pattern co o q =
  Ok (mkPat o (case_of co (p_case o) q) (norm_of co (p_normalize o) q)
            (if case_of co (p_case o) q then q else lower_str co q) []).
Proof. intros He. unfold build_pattern. rewrite He. rewrite case_sensitive_eq. reflexivity. Qed.

End Build.

(* ====================================================================================== *)
(* Part 4: terms are well-formed; every term stems from its own token                        *)
(* ====================================================================================== *)

Section Terms.
Variable co : char_ops.

Definition norm_fixed (nm : bool) (pat : str) : Prop := nm = true -> Forall (fun p => co_norm co p = p) pat.
Definition term_wf (t : sterm) : Prop := t_text t <> [] /\ norm_fixed (t_nm t) (t_text t).

Lemma classify_props o tok t : classify co o tok = Some t ->
  t_text t <> [] /\ t_cs t = case_of co (q_case o) tok /\ t_nm t = norm_of co (q_normalize o) tok /\
  (t_nm t = true -> exists t3, t_text t = norm_str co t3).
Proof.
  unfold classify.
  match goal with |- context [let '(k, t3) := ?X in _] => destruct X as [k t3] end.
  destruct t3 as [|x t3]; [discriminate|]. intro H. injection H as <-. cbn [t_text t_cs t_nm].
  split; [|split; [reflexivity|split; [reflexivity|]]].
  - destruct (norm_of co (q_normalize o) tok); discriminate.
  - intros Hnm. rewrite Hnm. exists (x :: t3). reflexivity.
Qed.

Lemma classify_wf o tok t : (forall c, co_norm co (co_norm co c) = co_norm co c) ->
  classify co o tok = Some t -> term_wf t.
Proof.
  intros Hidem H. destruct (classify_props o tok t H) as [Hne [_ [_ Hnm]]].
  split; [assumption|]. intros E. destruct (Hnm E) as [t3 ->].
  unfold norm_str. apply Forall_forall. intros p Hp. apply in_map_iff in Hp as [c [<- _]]. apply Hidem.
Qed.

Lemma In_emit {A} (g cur : list A) l : In g (emit cur l) -> g = cur \/ In g l.
Proof. destruct cur; cbn; [auto|]. intros [H|H]; auto. Qed.

Lemma groups_aux_in o : forall toks cur join bar g t,
  In g (groups_aux co o toks cur join bar) -> In t g ->
  In t cur \/ exists tok, In tok toks /\ classify co o tok = Some t.
Proof.
  induction toks as [|t0 r IH]; intros cur join bar g t Hg Ht.
  - cbn [groups_aux] in Hg. apply In_emit in Hg as [->|[]]. now left.
  - cbn [groups_aux] in Hg.
    destruct (nonemptyb cur && negb bar && is_bar co o t0).
    + destruct (IH _ _ _ _ _ Hg Ht) as [H|[tok [H1 H2]]]; [now left|]. right. exists tok. split; [now right|assumption].
    + destruct (classify co o t0) as [tm|] eqn:Ecl.
      * destruct join.
        -- destruct (IH _ _ _ _ _ Hg Ht) as [H|[tok [H1 H2]]].
           ++ apply in_app_or in H as [H|[<-|[]]]; [now left|]. right. exists t0. split; [now left|assumption].
           ++ right. exists tok. split; [now right|assumption].
        -- apply In_emit in Hg as [->|Hg]; [now left|].
           destruct (IH _ _ _ _ _ Hg Ht) as [[<-|[]]|[tok [H1 H2]]].
           ++ right. exists t0. split; [now left|assumption].
           ++ right. exists tok. split; [now right|assumption].
      * destruct (IH _ _ _ _ _ Hg Ht) as [H|[tok [H1 H2]]]; [now left|]. right. exists tok. split; [now right|assumption].
Qed.

(* ★ every term of the parsed query comes from one token, and its case-sensitivity and accent folding are
   decided by that token alone *)
Theorem term_of_its_token_proof : forall o toks g t, In g (groups co o toks) -> In t g ->
  exists tok, In tok toks /\ classify co o tok = Some t /\
              t_cs t = case_of co (q_case o) tok /\ t_nm t = norm_of co (q_normalize o) tok.
Proof.
  intros o toks g t Hg Ht. destruct (groups_aux_in o toks [] true false g t Hg Ht) as [[]|[tok [H1 H2]]].
  exists tok. destruct (classify_props o tok t H2) as [_ [Hc [Hn _]]]. auto.
Qed.

Lemma groups_wf o toks : (forall c, co_norm co (co_norm co c) = co_norm co c) ->
  Forall (Forall term_wf) (groups co o toks).
Proof.
  intro Hidem. apply Forall_forall. intros g Hg. apply Forall_forall. intros t Ht.
  destruct (term_of_its_token_proof o toks g t Hg Ht) as [tok [_ [Hcl _]]]. eapply classify_wf; eassumption.
Qed.

End Terms.

(* ====================================================================================== *)
(* Part 5: MatchItem decides sat_query, given that each matcher decides its AlgoSpec predicate *)
(* ====================================================================================== *)

(* a matcher run never fails and reports NoMatch exactly when the spec predicate is false *)
Definition matcher_ok (run : res mres) (verdict : bool) : Prop :=
  exists r, run = Ok r /\ (r = NoMatch <-> verdict = false).
(* Go's util.ToChars keeps the byte representation only for pure-ASCII text *)
Definition text_ok (isb : bool) (text : str) : Prop := isb = true -> Forall (fun c => 0 <= c < 128) text.
(* lines are lists of runes (non-negative) *)
Definition line_ok (line : str) : Prop := Forall (fun c => 0 <= c) line.

Lemma text_ok_is_ascii line : line_ok line -> text_ok (is_ascii line) line.
Proof.
  intros Hl Ha. unfold is_ascii in Ha. rewrite forallb_forall in Ha.
  apply Forall_forall. intros c Hc. unfold line_ok in Hl. rewrite Forall_forall in Hl.
  specialize (Hl c Hc). specialize (Ha c Hc). apply Z.ltb_lt in Ha. lia.
Qed.

Lemma subseq_nil co cs nm line : subseq_b co cs nm line [] = true.
Proof. destruct line; reflexivity. Qed.

Lemma exists_upto_const_true f n : (forall i, f i = true) -> exists_upto f n = true.
Proof. intro H. destruct n; cbn; [apply H|]. now rewrite H. Qed.

Lemma substr_nil co cs nm line : substr_b co cs nm line [] = true.
Proof. unfold substr_b. apply exists_upto_const_true. intro i. unfold occurs_at. destruct (skipn i line); reflexivity. Qed.

Section Match.
Variable co : char_ops.
Variable sc : scheme.

(* ---- what is assumed of the matchers of algo.go (proved separately: C02) ---- *)
Hypothesis H_v1 : forall cs nm fwd isb text pat wp, pat <> [] -> text_ok isb text ->
  matcher_ok (fuzzy_v1 co sc cs nm fwd isb text pat wp) (subseq_b co cs nm text pat).
Hypothesis H_v2 : forall cs nm fwd isb text pat wp cap, pat <> [] -> text_ok isb text ->
  matcher_ok (fuzzy_v2 co sc cs nm fwd isb text pat wp cap) (subseq_b co cs nm text pat).
Hypothesis H_exact : forall cs nm fwd isb text pat, pat <> [] -> text_ok isb text ->
  matcher_ok (exact_match co sc cs nm fwd false isb text pat) (substr_b co cs nm text pat).
Hypothesis H_boundary : forall cs nm fwd isb text pat, pat <> [] -> text_ok isb text ->
  matcher_ok (exact_match co sc cs nm fwd true isb text pat) (boundary_substr_b co sc cs nm text pat).
Hypothesis H_prefix : forall cs nm text pat, pat <> [] ->
  matcher_ok (prefix_match co sc cs nm text pat) (is_some (prefix_spec co cs nm text pat)).
Hypothesis H_suffix : forall cs nm text pat, pat <> [] ->
  matcher_ok (suffix_match co sc cs nm text pat) (is_some (suffix_spec co cs nm text pat)).
Hypothesis H_equal : forall cs nm text pat, pat <> [] -> norm_fixed co nm pat ->
  matcher_ok (equal_match co sc cs nm text pat) (is_some (equal_spec co cs nm text pat)).
(* normalising twice is normalising once (the images of the accent table are plain ASCII letters) *)
Hypothesis H_norm_idem : forall c, co_norm co (co_norm co c) = co_norm co c.

Notation sat_term := (sat_term co sc).
Notation sat_groups := (sat_groups co sc).
Notation sat_query := (sat_query co sc).

Lemma run_algo_ok o t line wp : term_wf co t -> line_ok line ->
  matcher_ok (run_algo co sc o (ttype_of (t_kind t)) (t_cs t) (t_nm t) line (t_text t) wp) (sat_term t line).
Proof.
  intros [Hne Hnf] Hl. pose proof (text_ok_is_ascii line Hl) as Hto.
  unfold run_algo, QuerySpec.sat_term. destruct (t_kind t); cbn [ttype_of].
  - destruct (p_v2 o); [apply H_v2|apply H_v1]; assumption.
  - apply H_exact; assumption.
  - apply H_boundary; assumption.
  - apply H_prefix; assumption.
  - apply H_suffix; assumption.
  - apply H_equal; assumption.
Qed.

Definition sat1 (line : str) (t : sterm) : bool := xorb (t_inv t) (sat_term t line).

Lemma match_set_ok o line wp : line_ok line -> forall ts cur ap, Forall (term_wf co) ts ->
  exists cur' ap', match_set co sc o (map term_of ts) line wp cur ap = Ok (cur', ap') /\
                   is_some cur' = is_some cur || existsb (sat1 line) ts.
Proof.
  intros Hl. induction ts as [|t r IH]; intros cur ap Hwf.
  - exists cur, ap. cbn. now rewrite orb_false_r.
  - inversion Hwf as [|? ? Ht Hr]; subst.
    cbn [map match_set]. cbn [term_of tm_typ tm_cs tm_nm tm_text tm_inv].
    destruct (run_algo_ok o t line wp Ht Hl) as [m [Hm Hiff]]. rewrite Hm. cbn [bind].
    cbn [existsb]. unfold sat1 at 1.
    destruct m as [|s e score pos].
    + assert (Hs : sat_term t line = false) by (now apply Hiff). rewrite Hs.
      destruct (t_inv t); cbn [xorb].
      * destruct (IH (Some (O, O, 0)) ap Hr) as [c' [a' [H1 H2]]]. exists c', a'. split; [exact H1|].
        rewrite H2. cbn. now rewrite orb_true_r.
      * destruct (IH cur ap Hr) as [c' [a' [H1 H2]]]. exists c', a'. split; [exact H1|]. now rewrite H2.
    + assert (Hs : sat_term t line = true).
      { destruct (sat_term t line); [reflexivity|]. destruct Hiff as [_ Hiff]. discriminate (Hiff eq_refl). }
      rewrite Hs. destruct (t_inv t); cbn [xorb].
      * destruct (IH cur ap Hr) as [c' [a' [H1 H2]]]. exists c', a'. split; [exact H1|]. now rewrite H2.
      * eexists _, _. split; [reflexivity|]. cbn. now rewrite orb_true_r.
Qed.

Lemma extended_match_ok o line wp : line_ok line -> forall gs offs total ap, Forall (Forall (term_wf co)) gs ->
  exists offs' total' ap',
    extended_match co sc o (map (map term_of) gs) line wp offs total ap = Ok (offs', total', ap') /\
    (length offs' <= length offs + length gs)%nat /\
    ((length offs' = length offs + length gs)%nat <-> sat_groups gs line = true).
Proof.
  intros Hl. induction gs as [|g r IH]; intros offs total ap Hwf.
  - exists offs, total, ap. cbn. split; [reflexivity|]. split; [lia|]. split; [reflexivity|lia].
  - inversion Hwf as [|? ? Hg Hr]; subst.
    cbn [map extended_match].
    destruct (match_set_ok o line wp Hl g None ap Hg) as [cur' [ap' [Hms Hsome]]]. rewrite Hms. cbn [bind].
    cbn [is_some orb] in Hsome.
    unfold QuerySpec.sat_groups. cbn [forallb]. fold (sat1 line). rewrite <- Hsome.
    destruct cur' as [[[s e] score]|]; cbn [is_some andb].
    + destruct (IH (offs ++ [(s, e)]) (total + score) ap' Hr) as [o' [t' [a' [H1 [H2 H3]]]]].
      exists o', t', a'. split; [exact H1|]. rewrite app_length in H2, H3. cbn [length] in *.
      split; [lia|]. rewrite <- H3. split; lia.
    + destruct (IH offs total ap' Hr) as [o' [t' [a' [H1 [H2 H3]]]]].
      exists o', t', a'. split; [exact H1|]. cbn [length]. split; [lia|]. split; [lia|discriminate].
Qed.

Lemma match_item_ext o cs0 nm0 s gs line wp : p_extended o = true -> line_ok line ->
  Forall (Forall (term_wf co)) gs ->
  exists m, match_item co sc (mkPat o cs0 nm0 s (map (map term_of) gs)) line wp = Ok m /\
            is_some m = sat_groups gs line.
Proof.
  intros He Hl Hwf. unfold match_item. cbn [pat_opts pat_sets]. rewrite He.
  destruct (extended_match_ok o line wp Hl gs [] 0 [] Hwf) as [o' [t' [a' [H1 [H2 H3]]]]].
  rewrite H1. cbn [bind]. rewrite map_length. cbn [length] in H2, H3. cbn [Nat.add] in H2, H3.
  destruct (Nat.eqb_spec (length o') (length gs)) as [E|E].
  - eexists. split; [reflexivity|]. cbn [is_some]. symmetry. now apply H3.
  - exists None. split; [reflexivity|]. cbn [is_some].
    destruct (sat_groups gs line); [|reflexivity]. exfalso. apply E. now apply H3.
Qed.

Lemma matcher_ok_is_some run v : matcher_ok run v ->
  exists m, (do r <- run; match r with Match s e score pos => Ok (Some ([(s, e)], score, pos)) | NoMatch => Ok None end)
            = Ok m /\ is_some (A:=mitem) m = v.
Proof.
  intros [r [Hr Hiff]]. rewrite Hr. cbn [bind]. destruct r as [|s e score pos].
  - exists None. split; [reflexivity|]. cbn. symmetry. now apply Hiff.
  - eexists. split; [reflexivity|]. cbn. destruct v; [reflexivity|]. destruct Hiff as [_ H]. discriminate (H eq_refl).
Qed.

Lemma match_item_basic o cs nm text line wp : p_extended o = false -> line_ok line ->
  exists m, match_item co sc (mkPat o cs nm text []) line wp = Ok m /\
            is_some m = if p_fuzzy o then subseq_b co cs nm line text else substr_b co cs nm line text.
Proof.
  intros He Hl. unfold match_item. cbn [pat_opts pat_cs pat_nm pat_text]. rewrite He.
  pose proof (text_ok_is_ascii line Hl) as Hto.
  destruct text as [|p0 text].
  - (* the empty pattern matches everything *)
    rewrite subseq_nil, substr_nil. unfold run_algo.
    destruct (p_fuzzy o); [destruct (p_v2 o)|]; cbn; eexists; (split; [reflexivity|reflexivity]).
  - apply matcher_ok_is_some. unfold run_algo.
    destruct (p_fuzzy o); [destruct (p_v2 o); [apply H_v2|apply H_v1]|apply H_exact]; try assumption; discriminate.
Qed.

Definition domain (o : popts) (q : str) : Prop := p_extended o = true -> no_tab q.

(* ★ match_iff_sat *)
Theorem match_iff_sat_proof : forall o q line wp, domain o q -> line_ok line ->
  exists p m, build_pattern co o q = Ok p /\ match_item co sc p line wp = Ok m /\
              (m <> None <-> sat_query (qopts_of o) q line = true).
Proof.
  intros o q line wp Hd Hl. unfold QuerySpec.sat_query. cbn [qopts_of q_extended].
  destruct (p_extended o) eqn:He.
  - rewrite build_pattern_ext_proof by auto.
    destruct (match_item_ext o true (p_normalize o) (trim q) (query_groups co (qopts_of o) q) line wp He Hl) as [m [H1 H2]].
    { apply groups_wf. exact H_norm_idem. }
    eexists _, m. split; [reflexivity|]. split; [exact H1|].
    rewrite <- H2. destruct m; cbn; split; congruence.
  - rewrite build_pattern_basic by assumption.
    destruct (match_item_basic o (case_of co (p_case o) q) (norm_of co (p_normalize o) q)
                (if case_of co (p_case o) q then q else lower_str co q) line wp He Hl) as [m [H1 H2]].
    eexists _, m. split; [reflexivity|]. split; [exact H1|].
    unfold sat_basic. cbn [qopts_of q_case q_normalize q_fuzzy].
    rewrite <- H2. destruct m; cbn; split; congruence.
Qed.

(* ★ filter_exact: the kept lines are exactly the satisfying lines, in input order *)
Theorem filter_exact_proof : forall o q lines, domain o q -> Forall line_ok lines ->
  exists p, build_pattern co o q = Ok p /\
            filter_model co sc p lines = Ok (filter (sat_query (qopts_of o) q) lines).
Proof.
  intros o q lines Hd Hls.
  destruct (match_iff_sat_proof o q [] false Hd (Forall_nil _)) as [p [_ [Hp _]]].
  exists p. split; [exact Hp|].
  induction Hls as [|l r Hl Hr IH]; [reflexivity|].
  cbn [filter_model filter].
  destruct (match_iff_sat_proof o q l false Hd Hl) as [p' [m [Hp' [Hm Hiff]]]].
  rewrite Hp in Hp'. injection Hp' as <-. rewrite Hm. cbn [bind]. rewrite IH. cbn [bind].
  destruct m as [x|].
  - destruct Hiff as [Hiff _]. rewrite Hiff by discriminate. reflexivity.
  - destruct (sat_query (qopts_of o) q l); [|reflexivity]. destruct Hiff as [_ Hiff]. now specialize (Hiff eq_refl).
Qed.

(* no line is dropped, none is added: membership form *)
Corollary filter_no_drop_no_add_proof : forall o q lines, domain o q -> Forall line_ok lines ->
  exists p kept, build_pattern co o q = Ok p /\ filter_model co sc p lines = Ok kept /\
    forall l, In l kept <-> In l lines /\ sat_query (qopts_of o) q l = true.
Proof.
  intros o q lines Hd Hls. destruct (filter_exact_proof o q lines Hd Hls) as [p [H1 H2]].
  eexists p, _. split; [exact H1|]. split; [exact H2|]. intro l. apply filter_In.
Qed.

End Match.

(* ====================================================================================== *)
(* Part 6: the empty query; trimming is invisible in the token list                          *)
(* ====================================================================================== *)

Lemma trim_all_blank q : Forall (fun c => c = 32) q -> trim q = [].
Proof.
  intro H. unfold trim. replace (trim_left q) with (@nil Z); [reflexivity|].
  unfold trim_left. induction H as [|c r Hc Hr IH]; [reflexivity|]. subst c. cbn. exact IH.
Qed.

(* ★ empty_query_all: a query made of blanks only (the empty query in particular) keeps every line;
   no assumption on the matchers or on the line is needed *)
Theorem empty_query_all_proof : forall co sc o q line wp,
  Forall (fun c => c = 32) q -> (p_extended o = false -> q = []) ->
  exists p m, build_pattern co o q = Ok p /\ match_item co sc p line wp = Ok (Some m).
Proof.
  intros co sc o q line wp Hq Hb. destruct (p_extended o) eqn:He.
  - rewrite build_pattern_ext_proof; [|assumption|].
    2:{ unfold no_tab. eapply Forall_impl; [|exact Hq]. cbn. intros c ->. discriminate. }
    unfold query_groups. rewrite trim_all_blank by assumption.
    eexists _, _. split; [reflexivity|]. unfold match_item. cbn [pat_opts]. rewrite He. cbn. reflexivity.
  - rewrite (Hb eq_refl). rewrite build_pattern_basic by assumption.
    match goal with |- exists p m, Ok ?P = Ok p /\ _ =>
      assert (Hm : exists m, match_item co sc P line wp = Ok (Some m)) end.
    { unfold match_item. cbn [pat_opts]. rewrite He.
      cbn [pat_cs pat_nm pat_text lower_str map]. unfold run_algo.
      destruct (case_of co (p_case o) []), (p_fuzzy o); [destruct (p_v2 o)| |destruct (p_v2 o)|]; cbn; eexists; reflexivity. }
    destruct Hm as [m Hm]. eexists _, m. split; [reflexivity|exact Hm].
Qed.

Lemma tokens_aux_snoc_blank : forall n s cur, (length s <= n)%nat -> ends chBS s = false ->
  tokens_aux (s ++ [chSP]) cur = tokens_aux s cur.
Proof.
  induction n as [|n IH]; intros s cur Hlen He.
  - destruct s; [|cbn in Hlen; lia]. cbn. destruct (rev cur); reflexivity.
  - destruct s as [|c r]; [cbn; destruct (rev cur); reflexivity|].
    cbn [length] in Hlen.
    assert (Hr : r <> [] -> ends chBS r = false).
    { intro Hne. unfold ends in *. cbn [rev] in He. destruct (rev r) eqn:E; [|exact He].
      exfalso. apply Hne. rewrite <- (rev_involutive r), E. reflexivity. }
    cbn [app tokens_aux].
    destruct (c =? chSP) eqn:E32.
    + f_equal. destruct r as [|b r']; [cbn; reflexivity|]. apply IH; [lia|apply Hr; discriminate].
    + destruct r as [|b r'].
      * cbn [app]. unfold ends in He. cbn in He. unfold chBS in *. rewrite He. cbn [andb].
        cbn [tokens_aux]. change (chSP =? chSP) with true. cbn iota. cbn [tokens_aux emit rev]. destruct (rev cur ++ [c]) eqn:E; reflexivity.
      * cbn [app]. destruct ((c =? chBS) && (b =? chSP)) eqn:Eesc.
        -- destruct r' as [|d r'']; [cbn; destruct (rev cur ++ [chSP]); reflexivity|].
           apply IH; [cbn [length] in Hlen |- *; lia|].
           unfold ends in *. cbn [rev] in He |- *.
           destruct (rev r'' ++ [d]) eqn:E; [now apply app_eq_nil in E as [_ E]|]. cbn in He |- *. exact He.
        -- change (b :: r' ++ [chSP]) with ((b :: r') ++ [chSP]). apply IH; [lia|apply Hr; discriminate].
Qed.

Lemma tokens_trim_left q : tokens (trim_left q) = tokens q.
Proof.
  unfold tokens, trim_left. induction q as [|c r IH]; [reflexivity|].
  cbn [drop_while]. destruct (c =? chSP) eqn:E; [|reflexivity].
  rewrite IH. cbn [tokens_aux]. rewrite E. reflexivity.
Qed.

Lemma tokens_trim_right r : tokens (rev (trim_right_rev r)) = tokens (rev r).
Proof.
  induction r as [|c r IH]; [reflexivity|].
  cbn [trim_right_rev]. destruct (c =? chSP) eqn:E32; [|reflexivity].
  apply Z.eqb_eq in E32. subst c.
  destruct r as [|b r'].
  - reflexivity.
  - destruct (b =? chBS) eqn:E92; [reflexivity|].
    rewrite IH. cbn [rev]. unfold tokens.
    symmetry. apply (tokens_aux_snoc_blank (length (rev r' ++ [b]))); [lia|].
    unfold ends. rewrite rev_app_distr. cbn. exact E92.
Qed.

(* ☆ the token list does not see BuildPattern's trimming: sat_query could equally be defined on the raw query *)
Theorem tokens_trim_proof : forall q, tokens (trim q) = tokens q.
Proof.
  intro q. unfold trim. rewrite tokens_trim_right. rewrite rev_involutive. apply tokens_trim_left.
Qed.

(* ====================================================================================== *)
(* Part 7: packaging.  What C01 needs from C02, as one record, and how to obtain it          *)
(* ====================================================================================== *)

Record matchers_decide (co : char_ops) (sc : scheme) : Prop := {
  md_v1 : forall cs nm fwd isb text pat wp, pat <> [] -> text_ok isb text ->
          matcher_ok (fuzzy_v1 co sc cs nm fwd isb text pat wp) (subseq_b co cs nm text pat);
  md_v2 : forall cs nm fwd isb text pat wp cap, pat <> [] -> text_ok isb text ->
          matcher_ok (fuzzy_v2 co sc cs nm fwd isb text pat wp cap) (subseq_b co cs nm text pat);
  md_exact : forall cs nm fwd isb text pat, pat <> [] -> text_ok isb text ->
          matcher_ok (exact_match co sc cs nm fwd false isb text pat) (substr_b co cs nm text pat);
  md_boundary : forall cs nm fwd isb text pat, pat <> [] -> text_ok isb text ->
          matcher_ok (exact_match co sc cs nm fwd true isb text pat) (boundary_substr_b co sc cs nm text pat);
  md_prefix : forall cs nm text pat, pat <> [] ->
          matcher_ok (prefix_match co sc cs nm text pat) (is_some (prefix_spec co cs nm text pat));
  md_suffix : forall cs nm text pat, pat <> [] ->
          matcher_ok (suffix_match co sc cs nm text pat) (is_some (suffix_spec co cs nm text pat));
  md_equal : forall cs nm text pat, pat <> [] -> norm_fixed co nm pat ->
          matcher_ok (equal_match co sc cs nm text pat) (is_some (equal_spec co cs nm text pat));
  md_norm_idem : forall c, co_norm co (co_norm co c) = co_norm co c
}.

(* from the usual triple: total, sound, complete *)
Lemma matcher_ok_intro run v :
  (exists r, run = Ok r) ->
  (forall s e score pos, run = Ok (Match s e score pos) -> v = true) ->
  (run = Ok NoMatch -> v = false) ->
  matcher_ok run v.
Proof.
  intros [r Hr] Hs Hc. exists r. split; [exact Hr|]. destruct r as [|s e score pos].
  - split; [intros _; now apply Hc|reflexivity].
  - split; [discriminate|]. intro Hv. rewrite (Hs _ _ _ _ Hr) in Hv. discriminate.
Qed.

Theorem match_iff_sat_pk : forall co sc, matchers_decide co sc -> forall o q line wp, domain o q -> line_ok line ->
  exists p m, build_pattern co o q = Ok p /\ match_item co sc p line wp = Ok m /\
              (m <> None <-> sat_query co sc (qopts_of o) q line = true).
Proof. intros co sc [H1 H2 H3 H4 H5 H6 H7 H8]. now apply match_iff_sat_proof. Qed.

Theorem filter_exact_pk : forall co sc, matchers_decide co sc -> forall o q lines, domain o q -> Forall line_ok lines ->
  exists p, build_pattern co o q = Ok p /\
            filter_model co sc p lines = Ok (filter (sat_query co sc (qopts_of o) q) lines).
Proof. intros co sc [H1 H2 H3 H4 H5 H6 H7 H8]. now apply filter_exact_proof. Qed.

Theorem filter_no_drop_no_add_pk : forall co sc, matchers_decide co sc -> forall o q lines, domain o q -> Forall line_ok lines ->
  exists p kept, build_pattern co o q = Ok p /\ filter_model co sc p lines = Ok kept /\
    forall l, In l kept <-> In l lines /\ sat_query co sc (qopts_of o) q l = true.
Proof. intros co sc [H1 H2 H3 H4 H5 H6 H7 H8]. now apply filter_no_drop_no_add_proof. Qed.

(* the terms of the Pattern BuildPattern returns, read back through the model *)
Theorem smart_case_per_term_proof : forall co o q p ts t, p_extended o = true -> no_tab q ->
  build_pattern co o q = Ok p -> In ts (pat_sets p) -> In t ts ->
  exists tok, In tok (tokens q) /\
              tm_cs t = case_of co (p_case o) tok /\ tm_nm t = norm_of co (p_normalize o) tok.
Proof.
  intros co o q p ts t He Hnt Hp Hts Ht. rewrite build_pattern_ext_proof in Hp by assumption.
  injection Hp as <-. cbn [pat_sets] in Hts. apply in_map_iff in Hts as [g [<- Hg]].
  apply in_map_iff in Ht as [st [<- Hst]].
  unfold query_groups in Hg. rewrite tokens_trim_proof in Hg.
  destruct (term_of_its_token_proof co (qopts_of o) (tokens q) g st Hg Hst) as [tok [H1 [_ [H2 H3]]]].
  exists tok. split; [exact H1|]. cbn [term_of tm_cs tm_nm]. auto.
Qed.

(* boolean forms of the side conditions, for concrete instances *)
Lemma no_tab_b s : forallb (fun c => negb (c =? 9)) s = true -> no_tab s.
Proof.
  intro H. rewrite forallb_forall in H. apply Forall_forall. intros c Hc Hc9. specialize (H c Hc).
  subst c. discriminate.
Qed.
Lemma line_ok_b l : forallb (fun c => 0 <=? c) l = true -> line_ok l.
Proof.
  intro H. rewrite forallb_forall in H. apply Forall_forall. intros c Hc. specialize (H c Hc). now apply Z.leb_le in H.
Qed.
