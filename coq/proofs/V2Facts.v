(* Interface between the phase-1/2 proofs and the phase-3/4 proofs of FuzzyMatchV2:
   what the scan of the window establishes.  Definitions only. *)
From Fzf Require Import Prelude AlgoSpec AlgoModel.
Open Scope Z_scope.

Section Facts.
Variable co : char_ops.
Variable sc : scheme.

(* the arrays after phase 2, un-reversed *)
Definition p2T (st : p2) := rev (p2_T st).
Definition p2B (st : p2) := rev (p2_B st).
Definition p2H0 (st : p2) := rev (p2_H0 st).
Definition p2C0 (st : p2) := rev (p2_C0 st).
Definition p2F (st : p2) := rev (p2_F st).

(* j-th element with a harmless default, for stating facts only (never used in a model) *)
Definition zn (l : list Z) (j : nat) : Z := nth j l 0.
Definition nn (l : list nat) (j : nat) : nat := nth j l O.

Record p2_ok (cs nm : bool) (w pat : list Z) (st : p2) : Prop := {
  (* T is the folded window; all arrays have the window's length *)
  ok_T : p2T st = map (fun c => snd (fold_v2 co sc cs nm c)) w;
  ok_lenB : length (p2B st) = length w;
  ok_lenH0 : length (p2H0 st) = length w;
  ok_lenC0 : length (p2C0 st) = length w;
  (* B[j] = bonus of window position j (class before position 0 is the scheme's initial class) *)
  ok_B : forall j, (j < length w)%nat ->
         zn (p2B st) j = bonus_for sc (match j with O => s_init sc | S k => fst (fold_v2 co sc cs nm (zn w k)) end)
                                      (fst (fold_v2 co sc cs nm (zn w j)));
  (* F = greedy first occurrences of the pattern characters, strictly increasing, all found *)
  ok_pidx : p2_pidx st = length pat;
  ok_lenF : length (p2F st) = length pat;
  ok_F_hit : forall i, (i < length pat)%nat -> (nn (p2F st) i < length w)%nat /\ zn (p2T st) (nn (p2F st) i) = zn pat i;
  ok_F_inc : forall i, (S i < length pat)%nat -> (nn (p2F st) i < nn (p2F st) (S i))%nat;
  ok_F_first : forall i j, (i < length pat)%nat ->
               ((match i with O => O | S k => S (nn (p2F st) k) end) <= j < nn (p2F st) i)%nat -> zn (p2T st) j <> zn pat i;
  (* lastIdx = last occurrence of the last pattern character at or after F[M-1] *)
  ok_last_ge : (nn (p2F st) (length pat - 1) <= p2_lastIdx st < length w)%nat;
  ok_last_hit : zn (p2T st) (p2_lastIdx st) = last pat 0;
  ok_last_max : forall j, (p2_lastIdx st < j < length w)%nat -> zn (p2T st) j <> last pat 0;
  (* row 0 *)
  ok_C0 : forall j, (j < length w)%nat -> zn (p2C0 st) j = if zn (p2T st) j =? zn pat 0 then 1 else 0;
  ok_H0_match : forall j, (j < length w)%nat -> zn (p2T st) j = zn pat 0 -> zn (p2H0 st) j = scoreMatch + 2 * zn (p2B st) j;
  ok_H0_gap : forall j, (j < length w)%nat -> zn (p2T st) j <> zn pat 0 ->
              zn (p2H0 st) j = Z.max ((match j with O => 0 | S k => zn (p2H0 st) k end) +
                                      (if (match j with O => false | S k => negb (zn (p2T st) k =? zn pat 0) end) then scoreGapExt else scoreGapStart)) 0
}.

End Facts.
