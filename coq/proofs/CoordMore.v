(* C08: never_stale, runs of internal steps, and the regression witnesses for the two repaired rules. *)
From Fzf Require Import Prelude CoordSpec CoordModel CoordFlat CoordProofs.
Open Scope Z_scope.

(* A result for an older request (smaller sequence number, hence older query/revision) never replaces a newer one
   on display: every step leaves the displayed merger's sequence number and major revision non-decreasing. *)
Lemma never_stale_step s l : Inv s -> rle (t_merger s) (t_merger (step s l)).
Proof.
  intro H. destruct (match l with LCoordFin => true | _ => false end) eqn:E.
  - destruct l; try discriminate. unfold step, step_r, coord_sfin.
    pose proof (i_c1 s H) as C. unfold ole in C.
    destruct (e_sfin s); cbn; [exact C | split; lia].
  - rewrite t_merger_step; [split; lia | intro; subst; discriminate].
Qed.

Lemma inv_run_simple q so n sched :
  forallb simple_label sched = true -> Inv (run (init q so n) sched).
Proof.
  unfold run, run_r. generalize (inv_init q so n). generalize (init q so n).
  induction sched as [|l r IH]; cbn; intros s H F; [exact H|].
  apply andb_true_iff in F as [F1 F2]. apply IH; [|exact F2]. now apply inv_simple_step.
Qed.

(* ---- regression witnesses: with the pre-fix rules the statement of coordinator_quiescent is false ---- *)
Definition sched_nth_then_query : list label :=
  [LPush [0; 1; 2]; LPoll; LCoordRead; LUi [PChangeNth 1]; LUi [PSetQuery [98]]; LFin] ++ drain_labels.
Definition sched_sort_toggle_search : list label :=
  [LPush [0; 1; 2]; LFin] ++ drain_labels ++ [LUi [PToggleSort; PToggleSearch]] ++ drain_labels.

Lemma refuted_old_overwrite :
  let s := run_r (mkRules false true) (init [] true 0) sched_nth_then_query in
  quiescent s = true /\ r_nth (t_merger s) = 0 /\ t_nth s = 1.
Proof. vm_compute. repeat split. Qed.

Lemma refuted_old_toggle :
  let s := run_r (mkRules true false) (init [] true 0) sched_sort_toggle_search in
  quiescent s = true /\ r_sort (t_merger s) = true /\ t_sort s = false.
Proof. vm_compute. repeat split. Qed.

Lemma fixed_rules_same_schedules :
  let s1 := run (init [] true 0) sched_nth_then_query in
  let s2 := run (init [] true 0) sched_sort_toggle_search in
  (quiescent s1 = true /\ r_nth (t_merger s1) = 1 /\ t_nth s1 = 1 /\ r_query (t_merger s1) = [98] /\ r_items (t_merger s1) = [0; 1; 2]) /\
  (quiescent s2 = true /\ r_sort (t_merger s2) = false /\ t_sort s2 = false).
Proof. vm_compute. repeat split. Qed.
