(* C08/C13 proofs about the chunk cache model (model/CacheModel.v): where an answer of
   Lookup / Search comes from, and what Add (with and without a generation) may insert. *)
From Fzf Require Import Prelude ChunkStoreModel CacheModel.

Section CacheProofs.
  Variable R : Type.
  Notation cache := (cache R).

  (* key' is what Search tries for `key` at some index: a proper, non-empty prefix or suffix *)
  Definition affix (k' k : str) : Prop :=
    exists j, 1 <= j /\ j < length k /\ (k' = firstn (length k - j) k \/ k' = skipn j k).

  Lemma efind_In (es : list (centry R)) id key l : efind es id key = Some l -> In (id, key, l) es.
  Proof.
    induction es as [|[[i k] l0] r IH]; cbn; [discriminate|].
    destruct (Nat.eqb i id && str_eqb k key)%bool eqn:E.
    - intro H; inversion H; subst. apply andb_true_iff in E as [E1 E2].
      apply Nat.eqb_eq in E1. apply str_eqb_eq in E2. subst. now left.
    - intro H. right. now apply IH.
  Qed.

  Lemma search_from_spec (c : cache) id key n : forall idx l,
    search_from c id key idx n = Some l ->
    exists k' j, In (id, k', l) (c_entries c) /\ idx <= j /\ j < idx + n /\
                 (k' = firstn (length key - j) key \/ k' = skipn j key).
  Proof.
    induction n as [|n IH]; intros idx l H; cbn in H; [discriminate|].
    destruct (cfind c id (firstn (length key - idx) key)) as [l1|] eqn:E1.
    - inversion H; subst. apply efind_In in E1. exists (firstn (length key - idx) key), idx.
      repeat split; auto; lia.
    - destruct (cfind c id (skipn idx key)) as [l2|] eqn:E2.
      + inversion H; subst. apply efind_In in E2. exists (skipn idx key), idx. repeat split; auto; lia.
      + destruct (IH _ _ H) as (k' & j & Hin & H1 & H2 & H3). exists k', j. repeat split; auto; lia.
  Qed.

  Lemma cache_search_spec (c : cache) clen id key l : cache_search c clen id key = Some l ->
    clen = chunk_size /\ exists k', In (id, k', l) (c_entries c) /\ affix k' key.
  Proof.
    unfold cache_search. destruct (negb (nonemptyb key) || negb (is_full clen))%bool eqn:E; [discriminate|].
    intro H. apply orb_false_iff in E as [_ E]. apply negb_false_iff in E. apply Nat.eqb_eq in E.
    split; [exact E|]. destruct (search_from_spec _ _ _ _ _ _ H) as (k' & j & Hin & H1 & H2 & H3).
    exists k'. split; [exact Hin|]. exists j. repeat split; auto; lia.
  Qed.

  Lemma cache_lookup_spec (c : cache) clen id key l : cache_lookup c clen id key = Some l ->
    clen = chunk_size /\ In (id, key, l) (c_entries c).
  Proof.
    unfold cache_lookup. destruct (negb (nonemptyb key) || negb (is_full clen))%bool eqn:E; [discriminate|].
    intro H. apply orb_false_iff in E as [_ E]. apply negb_false_iff in E. apply Nat.eqb_eq in E.
    split; [exact E | now apply efind_In].
  Qed.

  Lemma cache_lookup_empty (c : cache) clen id key : c_entries c = [] -> cache_lookup c clen id key = None.
  Proof. unfold cache_lookup, cfind. intros ->. now destruct (_ || _)%bool. Qed.

  Lemma search_from_empty (c : cache) id key n : c_entries c = [] -> forall idx, search_from c id key idx n = None.
  Proof. intro E. induction n as [|n IH]; intro idx; cbn; [reflexivity|]. unfold cfind. rewrite E. cbn. apply IH. Qed.

  Lemma cache_search_empty (c : cache) clen id key : c_entries c = [] -> cache_search c clen id key = None.
  Proof. unfold cache_search. intro E. destruct (_ || _)%bool; [reflexivity | now apply search_from_empty]. Qed.

  (* what Add can put into the cache: only results for a FULL chunk, at most queryCacheMax of them, and,
     when the caller names a generation, only while that is still the generation of the cache *)
  Lemma cache_add_gen_spec g (c : cache) clen id key l :
    c_gen (cache_add_gen g c clen id key l) = c_gen c /\
    forall e, In e (c_entries (cache_add_gen g c clen id key l)) ->
      In e (c_entries c) \/
      (e = (id, key, l) /\ clen = chunk_size /\ length l <= query_cache_max /\ key <> [] /\
       (g = None \/ g = Some (c_gen c))).
  Proof.
    unfold cache_add_gen.
    destruct (negb (nonemptyb key) || negb (is_full clen) || Nat.ltb query_cache_max (length l))%bool eqn:E.
    - split; auto.
    - apply orb_false_iff in E as [E E3]. apply orb_false_iff in E as [E1 E2].
      apply negb_false_iff in E1, E2. apply Nat.eqb_eq in E2. apply Nat.ltb_ge in E3.
      assert (Hk : key <> []) by (destruct key; [discriminate | discriminate]).
      destruct g as [g'|].
      + destruct (Nat.eqb g' (c_gen c)) eqn:Eg.
        * apply Nat.eqb_eq in Eg. subst. cbn. split; [reflexivity|].
          intros e [<-|He]; [right; repeat split; auto | left; exact He].
        * split; auto.
      + cbn. split; [reflexivity|]. intros e [<-|He]; [right; repeat split; auto | left; exact He].
  Qed.

  (* THEOREM stale_add_ignored (cache level): AddIfCurrent with a generation other than the cache's changes nothing *)
  Theorem stale_add_ignored_cache_proof : forall g (c : cache) clen id key l,
    g <> c_gen c -> cache_add_gen (Some g) c clen id key l = c.
  Proof.
    intros g c clen id key l Hg. unfold cache_add_gen.
    destruct (_ || _ || _)%bool; [reflexivity|].
    destruct (Nat.eqb g (c_gen c)) eqn:E; [apply Nat.eqb_eq in E; contradiction | reflexivity].
  Qed.

  (* THEOREM cache_only_full_chunks (cache half): anything Add inserts belongs to a full chunk *)
  Theorem cache_add_only_full_proof : forall g (c : cache) clen id key l e,
    In e (c_entries (cache_add_gen g c clen id key l)) -> ~ In e (c_entries c) ->
    clen = chunk_size /\ length l <= query_cache_max /\ key <> [].
  Proof.
    intros g c clen id key l e Hin Hnot.
    destruct (proj2 (cache_add_gen_spec g c clen id key l) e Hin) as [H|(_ & H1 & H2 & H3 & _)]; [contradiction | auto].
  Qed.
End CacheProofs.
Arguments affix k' k : clear implicits.
