(* C12 proofs, part 4: whatever the display options, a placeholder works on item_text of the line. *)
From Coq Require Import List ZArith Lia Bool Arith.
From Fzf Require Import Prelude AnsiSpec AnsiModel AnsiProofs ShellSpec PlusSpec ItemViewSpec PlaceholderModel PlaceholderProofs
  PlusListModel PlusListProofs ItemViewModel.
Import ListNotations.
Open Scope Z_scope.

Lemma extract_trimmed : forall s st, (do r <- extract_color s st; Ok (trimmed_of r)) = Ok (strip_spec s).
Proof.
  intros s st. destruct (extract_color_spec s st) as (offs & st' & E & _). rewrite E. reflexivity.
Qed.

Lemma ansi_processor_text : forall ansi col carried data,
  ansi_processor ansi col carried data = Ok (item_text ansi data).
Proof.
  intros ansi col carried data. unfold ansi_processor, item_text.
  destruct ansi; [|reflexivity]. destruct col; apply extract_trimmed.
Qed.

Theorem placeholder_text_is_item_text_proof : forall ansi col carried shown index data it,
  read_item ansi col carried shown index data = Ok it ->
  seen_item (terminal_strip_ansi ansi col) it = Ok (index, item_text ansi data).
Proof.
  intros ansi col carried shown index data it H. unfold read_item in H.
  destruct shown as [d|].
  - inversion H; subst it. unfold seen_item, as_string, terminal_strip_ansi; cbn [r_orig r_index].
    unfold item_text. destruct ansi; [|reflexivity].
    destruct (extract_color_spec data None) as (offs & st' & E & _). rewrite E. reflexivity.
  - rewrite ansi_processor_text in H. cbn in H. inversion H; subst it. reflexivity.
Qed.

Lemma seen_lines : forall ansi col (ls : list rline) rs,
  map_res (read_line ansi col) ls = Ok rs ->
  map_res (seen_item (terminal_strip_ansi ansi col)) rs = Ok (map (fun l => line_item ansi (snd l)) ls).
Proof.
  intros ansi col ls. induction ls as [|l r IH]; intros rs H; cbn in H.
  - inversion H. reflexivity.
  - destruct (read_line ansi col l) as [it|e] eqn:E; cbn in H; [|discriminate].
    destruct (map_res (read_line ansi col) r) as [rr|e] eqn:E2; cbn in H; [|discriminate].
    inversion H; subst rs. cbn [map_res].
    unfold read_line in E. rewrite (placeholder_text_is_item_text_proof _ _ _ _ _ _ _ E). cbn.
    rewrite (IH rr eq_refl). cbn. reflexivity.
Qed.

Theorem view_transparent_proof : forall ansi col p (c : rline) rc (sel : list rline) rsel tmpl temps,
  read_line ansi col c = Ok rc ->
  map_res (read_line ansi col) sel = Ok rsel ->
  view_terminal_expand ansi col p (Some rc) rsel tmpl temps =
    terminal_expand p (Some (line_item ansi (snd c))) (map (fun l => line_item ansi (snd l)) sel) tmpl temps.
Proof.
  intros ansi col p c rc sel rsel tmpl temps Hc Hs. unfold view_terminal_expand.
  unfold read_line in Hc. cbn [seen_opt].
  rewrite (placeholder_text_is_item_text_proof _ _ _ _ _ _ _ Hc). cbn [bind].
  rewrite (seen_lines _ _ _ _ Hs). cbn [bind]. reflexivity.
Qed.

Theorem view_expansion_roundtrip_proof : forall ansi col p (c : rline) rc (sel : list rline) rsel tmpl temps v out files,
  p_fish p = false ->
  read_line ansi col c = Ok rc ->
  map_res (read_line ansi col) sel = Ok rsel ->
  view_terminal_expand ansi col p (Some rc) rsel tmpl temps = Ok (v, (out, files)) ->
  let ci := line_item ansi (snd c) in
  let si := map (fun l => line_item ansi (snd l)) sel in
  v = true /\
  exists outs, replace_structured (with_items p [ci] (plus_items (Some ci) si)) tmpl temps = Ok (outs, files) /\
    out = concat (map render outs) /\
    forall ws, template_words (map seg_of outs) = Some ws -> sh_words out = Some ws.
Proof.
  intros ansi col p c rc sel rsel tmpl temps v out files Hf Hc Hs H ci si.
  rewrite (view_transparent_proof _ _ _ _ _ _ _ _ _ Hc Hs) in H.
  exact (terminal_expansion_roundtrip_proof _ _ _ _ _ _ _ _ Hf H).
Qed.

Theorem braces_is_line_text_proof : forall ansi col p (c : rline) rc (sel : list rline) rsel temps,
  p_fish p = false -> p_force_plus p = false ->
  read_line ansi col c = Ok rc ->
  map_res (read_line ansi col) sel = Ok rsel ->
  exists out, view_terminal_expand ansi col p (Some rc) rsel t_braces temps = Ok (true, (out, [])) /\
    sh_words out = Some [item_text ansi (snd (snd c))].
Proof.
  intros ansi col p c rc sel rsel temps Hf Hp Hc Hs.
  rewrite (view_transparent_proof _ _ _ _ _ _ _ _ _ Hc Hs).
  exact (braces_is_cursor_item_proof p (line_item ansi (snd c)) _ temps Hf Hp).
Qed.

Theorem plus_is_selected_line_texts_proof : forall ansi col p (c : rline) rc (sel : list rline) rsel temps,
  p_fish p = false ->
  read_line ansi col c = Ok rc ->
  map_res (read_line ansi col) sel = Ok rsel ->
  exists out, view_terminal_expand ansi col p (Some rc) rsel t_plus temps = Ok (true, (out, [])) /\
    sh_words out = Some (map snd (plus_items (Some (line_item ansi (snd c))) (map (fun l => line_item ansi (snd l)) sel))).
Proof.
  intros ansi col p c rc sel rsel temps Hf Hc Hs.
  rewrite (view_transparent_proof _ _ _ _ _ _ _ _ _ Hc Hs).
  exact (plus_covers_selection_proof p (line_item ansi (snd c)) _ temps Hf).
Qed.
