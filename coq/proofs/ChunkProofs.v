(* C06 proofs, part 2: ChunkList (model/ChunkModel.v): invariant, count arithmetic, tail trimming,
   header diversion and item numbering, and the whole input path. *)
From Fzf Require Import Prelude RecordSpec ReaderModel ChunkModel ReaderProofs.
Open Scope Z_scope.

Section ChunkProofs.
Context {A : Type}.
Variable size : nat.
Hypothesis Hsize : (1 <= size)%nat.

Notation chunk := (@chunk A).
Notation chunklist := (@chunklist A).

Definition full (c : chunk) : Prop := length c = size.
Definition fits (c : chunk) : Prop := (length c <= size)%nat.

(* no chunk exceeds its array; every chunk except the first and the last is full *)
Definition chunklist_inv (cs : chunklist) : Prop :=
  Forall fits cs /\ Forall full (removelast (tl cs)).

(* ---- small list facts ---- *)
Lemma last_chunk_snoc (init : chunklist) l : last_chunk (init ++ [l]) = Ok l.
Proof.
  unfold last_chunk. destruct (init ++ [l]) eqn:E; [destruct init; discriminate|]. rewrite <- E.
  rewrite app_length. cbn [length]. replace (length init + 1 - 1)%nat with (length init) by lia.
  apply get_new.
Qed.

Lemma set_nth_snoc {B} : forall (init : list B) l v, set_nth (init ++ [l]) (length init) v = Ok (init ++ [v]).
Proof. induction init as [|x init IH]; intros l v; cbn; [reflexivity|]. rewrite IH. reflexivity. Qed.

Lemma set_last_snoc (init : chunklist) l v :
  set_nth (init ++ [l]) (length (init ++ [l]) - 1) v = Ok (init ++ [v]).
Proof.
  rewrite app_length. cbn [length]. replace (length init + 1 - 1)%nat with (length init) by lia.
  apply set_nth_snoc.
Qed.

Lemma snoc_cases {B} (l : list B) : l = [] \/ exists init x, l = init ++ [x].
Proof. destruct l as [|a l]; [left; reflexivity|right]. destruct (@exists_last _ (a :: l)) as (i & x & E); [discriminate|eauto]. Qed.

Lemma full_length_concat (mid : chunklist) : Forall full mid -> length (concat mid) = (size * length mid)%nat.
Proof.
  induction 1 as [|c mid Hc _ IH]; cbn; [lia|]. rewrite app_length, IH. unfold full in Hc. lia.
Qed.

(* the invariant by shapes *)
Lemma inv_nil : chunklist_inv [].
Proof. split; constructor. Qed.

Lemma inv_one c : chunklist_inv [c] <-> fits c.
Proof.
  split.
  - intros [H _]. inversion H; assumption.
  - intro H. split; cbn; repeat constructor; assumption.
Qed.

Lemma inv_many c0 (mid : chunklist) l :
  chunklist_inv (c0 :: mid ++ [l]) <-> fits c0 /\ Forall full mid /\ fits l.
Proof.
  unfold chunklist_inv. cbn [tl]. rewrite removelast_last. split.
  - intros [H1 H2]. inversion H1 as [|? ? Hc0 Hr]; subst. apply Forall_app in Hr as [_ Hl].
    inversion Hl; subst. auto.
  - intros (H0 & Hm & Hl). split; [|exact Hm]. constructor; [exact H0|]. apply Forall_app. split.
    + eapply Forall_impl; [|exact Hm]. unfold full, fits. intros; lia.
    + constructor; [exact Hl|constructor].
Qed.

Lemma inv_shape (cs : chunklist) : chunklist_inv cs ->
  cs = [] \/ (exists c, cs = [c] /\ fits c) \/
  (exists c0 mid l, cs = c0 :: mid ++ [l] /\ fits c0 /\ Forall full mid /\ fits l).
Proof.
  intro H. destruct cs as [|c0 r]; [left; reflexivity|right].
  destruct (snoc_cases r) as [-> | (mid & l & ->)].
  - left. exists c0. split; [reflexivity|]. apply inv_one. exact H.
  - right. exists c0, mid, l. split; [reflexivity|]. apply inv_many. exact H.
Qed.

(* ---- CountItems ---- *)
Theorem count_items_correct_proof : forall cs : chunklist,
  chunklist_inv cs -> count_items size cs = Ok (length (concat cs)).
Proof.
  intros cs H. destruct (inv_shape cs H) as [-> | [(c & -> & _) | (c0 & mid & l & -> & _ & Hm & _)]].
  - reflexivity.
  - cbn. rewrite app_nil_r. reflexivity.
  - unfold count_items. destruct (mid ++ [l]) eqn:E; [destruct mid; discriminate|]. rewrite <- E.
    change (c0 :: mid ++ [l]) with ((c0 :: mid) ++ [l]). rewrite last_chunk_snoc. cbn [bind].
    f_equal. cbn [concat app]. rewrite concat_app. cbn [concat]. rewrite app_nil_r, !app_length.
    rewrite full_length_concat by exact Hm. cbn [length]. rewrite app_length. cbn [length]. lia.
Qed.

(* ---- Push ---- *)
Lemma push_nil a (x : A) : push size [] a x = Ok [if a then [x] else []].
Proof.
  unfold push, last_chunk. cbn [bind length Nat.sub get]. destruct a; [|reflexivity].
  cbn [length]. destruct (Nat.ltb_spec 0 size); [reflexivity|lia].
Qed.

Lemma push_snoc (init : chunklist) l a x : fits l ->
  push size (init ++ [l]) a x =
  Ok (if is_full size l then (init ++ [l]) ++ [if a then [x] else []]
      else init ++ [if a then l ++ [x] else l]).
Proof.
  intro Hl. unfold push. destruct (init ++ [l]) eqn:E; [destruct init; discriminate|]. rewrite <- E. clear E.
  rewrite last_chunk_snoc. cbn [bind]. unfold is_full. destruct (Nat.eqb_spec (length l) size) as [Hf|Hf].
  - rewrite last_chunk_snoc. cbn [bind]. destruct a; [|reflexivity].
    cbn [length]. destruct (Nat.ltb_spec 0 size); [|lia]. rewrite set_last_snoc. reflexivity.
  - rewrite last_chunk_snoc. cbn [bind]. destruct a; [|reflexivity].
    unfold fits in Hl. destruct (Nat.ltb_spec (length l) size); [|lia]. rewrite set_last_snoc. reflexivity.
Qed.

Lemma push_ok (cs : chunklist) a x : chunklist_inv cs ->
  exists cs', push size cs a x = Ok cs' /\ chunklist_inv cs' /\
              concat cs' = concat cs ++ (if a then [x] else []).
Proof.
  intro H.
  assert (Hnew : fits (if a then [x] else [])) by (unfold fits; destruct a; cbn; lia).
  destruct (inv_shape cs H) as [-> | [(c & -> & Hc) | (c0 & mid & l & -> & H0 & Hm & Hl)]].
  - rewrite push_nil. eexists. split; [reflexivity|]. split; [apply inv_one; exact Hnew|].
    cbn. destruct a; reflexivity.
  - change [c] with (([] : chunklist) ++ [c]). rewrite push_snoc by exact Hc. eexists. split; [reflexivity|].
    unfold is_full. destruct (Nat.eqb_spec (length c) size) as [Hf|Hf].
    + split.
      * cbn [app]. change [c; if a then [x] else []] with (c :: [] ++ [if a then [x] else []]).
        apply inv_many. repeat split; auto.
      * cbn. rewrite !app_nil_r. reflexivity.
    + split.
      * cbn [app]. apply inv_one. unfold fits in *. destruct a; [rewrite app_length; cbn; lia|exact Hc].
      * cbn. rewrite !app_nil_r. destruct a; [reflexivity|rewrite app_nil_r; reflexivity].
  - change (c0 :: mid ++ [l]) with ((c0 :: mid) ++ [l]). rewrite push_snoc by exact Hl.
    eexists. split; [reflexivity|].
    unfold is_full. destruct (Nat.eqb_spec (length l) size) as [Hf|Hf].
    + split.
      * cbn [app]. rewrite <- app_assoc. cbn [app].
        change (c0 :: mid ++ [l; if a then [x] else []]) with (c0 :: mid ++ [l] ++ [if a then [x] else []]).
        rewrite app_assoc. apply inv_many. repeat split; auto.
        apply Forall_app. split; [exact Hm|]. constructor; [exact Hf|constructor].
      * rewrite !concat_app. cbn [concat]. rewrite !app_nil_r. reflexivity.
    + split.
      * cbn [app]. apply inv_many. repeat split; auto.
        unfold fits in *. destruct a; [rewrite app_length; cbn; lia|exact Hl].
      * cbn [app concat]. rewrite !concat_app. cbn [concat]. rewrite !app_nil_r.
        destruct a; [rewrite !app_assoc; reflexivity|rewrite app_nil_r; reflexivity].
Qed.

(* ---- Snapshot ---- *)
Definition tot (l : chunklist) : Z := Z.of_nat (length (concat l)).

Lemma tot_cons c (l : chunklist) : tot (c :: l) = Z.of_nat (length c) + tot l.
Proof. unfold tot. cbn [concat]. rewrite app_length. lia. Qed.

Lemma tot_rev (l : chunklist) : tot (rev l) = tot l.
Proof.
  unfold tot. f_equal. induction l as [|c l IH]; [reflexivity|].
  cbn [rev concat]. rewrite concat_app, !app_length, IH. cbn [concat]. rewrite app_nil_r. lia.
Qed.

Lemma num_chunks_nonpos left (r : chunklist) : left <= 0 -> num_chunks left r = O.
Proof. intro H. destruct r; cbn; [reflexivity|]. destruct (Z.ltb_spec 0 left); [lia|reflexivity]. Qed.

Lemma trim_shape : forall (rc : chunklist) left, 0 < left -> left <= tot rc ->
  exists pre c rest, rc = pre ++ c :: rest /\
    tot pre < left /\ left <= tot pre + Z.of_nat (length c) /\
    trim_loop left (firstn (num_chunks left rc) rc)
      = pre ++ [skipn (length c - Z.to_nat (left - tot pre)) c].
Proof.
  induction rc as [|c r IH]; intros left H0 Ht.
  - unfold tot in Ht. cbn in Ht. lia.
  - rewrite tot_cons in Ht. cbn [num_chunks]. destruct (Z.ltb_spec 0 left); [|lia].
    cbn [firstn trim_loop].
    destruct (Z.ltb_spec left (Z.of_nat (length c))) as [Hlt|Hge].
    + exists [], c, r. unfold tot. cbn [concat length app]. rewrite num_chunks_nonpos by lia.
      cbn [firstn]. rewrite Z.sub_0_r. repeat split; try lia.
    + destruct (Z.eq_dec left (Z.of_nat (length c))) as [He|Hne].
      * exists [], c, r. unfold tot. cbn [concat length app]. rewrite num_chunks_nonpos by lia.
        cbn [firstn trim_loop]. rewrite Z.sub_0_r. repeat split; try lia.
        replace (length c - Z.to_nat left)%nat with 0%nat by lia. reflexivity.
      * destruct (IH (left - Z.of_nat (length c))) as (pre & c2 & rest & -> & H1 & H2 & H3); try lia.
        exists (c :: pre), c2, rest. rewrite tot_cons. repeat split; try lia.
        rewrite H3. cbn [app].
        replace (left - (Z.of_nat (length c) + tot pre)) with (left - Z.of_nat (length c) - tot pre) by lia. reflexivity.
Qed.

Lemma inv_suffix (X : chunklist) c (Y : chunklist) :
  chunklist_inv (X ++ c :: Y) -> Forall fits (c :: Y) /\ Forall full (removelast Y).
Proof.
  intros [H1 H2]. apply Forall_app in H1 as [_ H1]. split; [exact H1|].
  destruct X as [|x X]; cbn [app tl] in H2.
  - destruct (snoc_cases Y) as [-> | (i & y & ->)]; [constructor|].
    rewrite removelast_last in *. exact H2.
  - rewrite removelast_app in H2 by discriminate. apply Forall_app in H2 as [_ H2].
    destruct Y as [|y Y]; [constructor|]. cbn [removelast] in H2.
    inversion H2; subst. assumption.
Qed.

Lemma last_n_app_exact {B} (a b : list B) n : length b = n -> last_n n (a ++ b) = b.
Proof.
  intro H. unfold last_n. rewrite app_length, H. replace (length a + n - n)%nat with (length a) by lia.
  rewrite skipn_app, Nat.sub_diag, skipn_all. reflexivity.
Qed.

Lemma keep_tail_all {B} tail (l : list B) : (length l <= tail)%nat -> keep_tail tail l = l.
Proof.
  intro H. unfold keep_tail, last_n. destruct tail; [reflexivity|].
  replace (length l - S tail)%nat with 0%nat by lia. reflexivity.
Qed.

Lemma snapshot_ok (tail : nat) (cs : chunklist) : chunklist_inv cs ->
  exists cs', snapshot size tail cs =
              Ok (cs', cs', length (concat cs'), (0 <? tail)%nat && (tail <? length (concat cs))%nat) /\
    chunklist_inv cs' /\ concat cs' = keep_tail tail (concat cs).
Proof.
  intro H. unfold snapshot. rewrite (count_items_correct_proof cs H). cbn [bind].
  destruct ((0 <? tail)%nat && (tail <? length (concat cs))%nat) eqn:Ec.
  - apply andb_true_iff in Ec as [E1 E2]. apply Nat.ltb_lt in E1, E2.
    rewrite <- firstn_rev.
    destruct (trim_shape (rev cs) (Z.of_nat tail)) as (pre & c & rest & Hrc & H1 & H2 & H3).
    { lia. } { rewrite tot_rev. unfold tot. lia. }
    rewrite H3. set (k := Z.to_nat (Z.of_nat tail - tot pre)) in *.
    set (c' := skipn (length c - k) c).
    assert (Hcs : cs = rev rest ++ c :: rev pre).
    { rewrite <- (rev_involutive cs), Hrc, rev_app_distr. cbn [rev]. rewrite <- app_assoc. reflexivity. }
    assert (Hk : (k <= length c)%nat) by (unfold k; lia).
    assert (Hc' : length c' = k) by (unfold c'; rewrite skipn_length; lia).
    assert (Hcs' : rev (pre ++ [c']) = c' :: rev pre) by (rewrite rev_app_distr; reflexivity).
    rewrite Hcs'.
    assert (Hinv' : chunklist_inv (c' :: rev pre)).
    { rewrite Hcs in H. destruct (inv_suffix _ _ _ H) as [Hf Hm]. split.
      - inversion Hf as [|? ? Hfc Hfr]; subst. constructor; [|exact Hfr]. unfold fits in *. lia.
      - exact Hm. }
    exists (c' :: rev pre). rewrite (count_items_correct_proof _ Hinv'). cbn [bind].
    split; [reflexivity|]. split; [exact Hinv'|].
    unfold keep_tail. destruct tail as [|t]; [lia|].
    rewrite Hcs, concat_app. cbn [concat].
    rewrite <- (firstn_skipn (length c - k) c) at 1. fold c'. rewrite <- !app_assoc.
    rewrite app_assoc. symmetry. apply last_n_app_exact.
    rewrite app_length, Hc'. assert (Hp : tot (rev pre) = tot pre) by apply tot_rev.
    unfold tot in Hp, H1, k. unfold tot. lia.
  - exists cs. rewrite (count_items_correct_proof cs H). cbn [bind]. split; [reflexivity|]. split; [exact H|].
    apply andb_false_iff in Ec as [Ec|Ec]; apply Nat.ltb_ge in Ec.
    + assert (tail = 0)%nat by lia. subst. reflexivity.
    + symmetry. apply keep_tail_all. exact Ec.
Qed.

(* ---- every history of operations ---- *)
Theorem chunklist_inv_preserved_proof : forall (ops : list (@clop A)) (cs : chunklist),
  chunklist_inv cs ->
  exists cs' obs, run_ops size cs ops = Ok (cs', obs) /\ chunklist_inv cs' /\
    Forall (fun o : @clobs A => let '(ret, cnt, _) := o in chunklist_inv ret /\ cnt = length (concat ret)) obs.
Proof.
  induction ops as [|o ops IH]; intros cs H.
  - exists cs, []. cbn. auto.
  - destruct o as [a x|t|]; cbn [run_ops].
    + destruct (push_ok cs a x H) as (cs1 & -> & H1 & _). cbn [bind]. apply IH. exact H1.
    + destruct (snapshot_ok t cs H) as (cs1 & -> & H1 & _). cbn [bind].
      destruct (IH cs1 H1) as (cs2 & obs & -> & H2 & H3). cbn [bind fst snd].
      eexists _, _. split; [reflexivity|]. split; [exact H2|]. constructor; [|exact H3]. auto.
    + apply IH. apply inv_nil.
Qed.

(* ---- reader and snapshot interleavings: with a fixed --tail T, whatever Snapshots happen in between,
        the list always holds a suffix of what was accepted since the last Clear, and a Snapshot returns
        exactly its last T items ---- *)
Fixpoint pushed (acc : list A) (ops : list (@clop A)) : list A :=
  match ops with
  | [] => acc
  | Push a x :: r => pushed (if a then acc ++ [x] else acc) r
  | Snapshot _ :: r => pushed acc r
  | Clear :: r => pushed [] r
  end.

Definition tails_are (T : nat) (ops : list (@clop A)) : Prop :=
  Forall (fun o => match o with Snapshot t => t = T | _ => True end) ops.

(* the list holds P minus a prefix that a Snapshot(T) may drop *)
Definition suffix_ok (T : nat) (P l : list A) : Prop :=
  exists k, l = skipn k P /\ (k = 0 \/ (0 < T /\ k + T <= length P))%nat.

Lemma skipn_skipn' {B} : forall b a (l : list B), skipn a (skipn b l) = skipn (b + a) l.
Proof. induction b as [|b IH]; intros a l; [reflexivity|]. destruct l; [destruct a; reflexivity|]. cbn. apply IH. Qed.

Lemma suffix_ok_keep T (P l : list A) : suffix_ok T P l -> keep_tail T l = keep_tail T P.
Proof.
  intros (k & -> & [-> | [HT Hk]]); [reflexivity|].
  unfold keep_tail. destruct T; [lia|]. unfold last_n. rewrite skipn_length, skipn_skipn'. f_equal. lia.
Qed.

Lemma suffix_ok_push T (P l : list A) x : suffix_ok T P l -> suffix_ok T (P ++ [x]) (l ++ [x]).
Proof.
  intros (k & -> & Hk). exists k. split.
  - rewrite skipn_app. destruct Hk as [-> | [_ Hk]]; [reflexivity|].
    replace (k - length P)%nat with 0%nat by lia. reflexivity.
  - rewrite app_length. cbn [length]. lia.
Qed.

Lemma suffix_ok_snap T (P l : list A) : suffix_ok T P l -> suffix_ok T P (keep_tail T l).
Proof.
  intro H. rewrite (suffix_ok_keep _ _ _ H). unfold keep_tail. destruct T as [|t]; [exists 0%nat; auto|].
  unfold last_n. exists (length P - S t)%nat. split; [reflexivity|]. lia.
Qed.

Lemma interleaved_gen T : forall (ops : list (@clop A)) (cs : chunklist) P,
  tails_are T ops -> chunklist_inv cs -> suffix_ok T P (concat cs) ->
  exists cs' obs, run_ops size cs ops = Ok (cs', obs) /\ chunklist_inv cs' /\
    suffix_ok T (pushed P ops) (concat cs').
Proof.
  induction ops as [|o ops IH]; intros cs P Ht H Hs.
  - exists cs, []. cbn. auto.
  - inversion Ht as [|? ? Ho Ht']; subst. destruct o as [a x|t|]; cbn [run_ops pushed].
    + destruct (push_ok cs a x H) as (cs1 & -> & H1 & Hc). cbn [bind]. apply IH; auto.
      rewrite Hc. destruct a; [apply suffix_ok_push; exact Hs|rewrite app_nil_r; exact Hs].
    + subst t. destruct (snapshot_ok T cs H) as (cs1 & -> & H1 & Hc). cbn [bind].
      destruct (IH cs1 P Ht' H1) as (cs2 & obs & -> & H2 & H3).
      { rewrite Hc. apply suffix_ok_snap. exact Hs. }
      cbn [bind fst snd]. eexists _, _. split; [reflexivity|]. auto.
    + apply IH; auto using inv_nil. exists 0%nat. cbn. auto.
Qed.

Theorem interleaved_snapshots_keep_last_proof : forall T (ops : list (@clop A)),
  tails_are T ops ->
  exists cs obs ret cnt ch, run_ops size [] (ops ++ [Snapshot T]) = Ok (cs, obs) /\
    last obs ([], O, false) = (ret, cnt, ch) /\ obs <> [] /\
    concat ret = keep_tail T (pushed [] ops) /\ cnt = length (concat ret).
Proof.
  intros T ops Ht.
  assert (Hgen : forall (ops : list (@clop A)) (cs : chunklist) P, tails_are T ops -> chunklist_inv cs ->
            suffix_ok T P (concat cs) ->
            exists cs' obs ret cnt ch, run_ops size cs (ops ++ [Snapshot T]) = Ok (cs', obs) /\
              last obs ([], O, false) = (ret, cnt, ch) /\ obs <> [] /\
              concat ret = keep_tail T (pushed P ops) /\ cnt = length (concat ret)).
  { clear ops Ht. induction ops as [|o ops IH]; intros cs P Ht H Hs.
    - cbn [app run_ops pushed]. destruct (snapshot_ok T cs H) as (cs1 & -> & H1 & Hc). cbn [bind fst snd].
      eexists _, _, _, _, _. split; [reflexivity|]. cbn [last]. split; [reflexivity|]. split; [discriminate|].
      split; [|reflexivity]. rewrite Hc. apply suffix_ok_keep. exact Hs.
    - inversion Ht as [|? ? Ho Ht']; subst. destruct o as [a x|t|]; cbn [app run_ops pushed].
      + destruct (push_ok cs a x H) as (cs1 & -> & H1 & Hc). cbn [bind]. apply IH; auto.
        rewrite Hc. destruct a; [apply suffix_ok_push; exact Hs|rewrite app_nil_r; exact Hs].
      + subst t. destruct (snapshot_ok T cs H) as (cs1 & -> & H1 & Hc). cbn [bind].
        destruct (IH cs1 P Ht' H1) as (cs2 & obs & ret & cnt & ch & -> & Hl & Hne & H3).
        { rewrite Hc. apply suffix_ok_snap. exact Hs. }
        cbn [bind fst snd]. eexists _, _, ret, cnt, ch. split; [reflexivity|].
        split; [|split; [discriminate|exact H3]].
        destruct obs; [congruence|]. exact Hl.
      + apply IH; auto using inv_nil. exists 0%nat. cbn. auto. }
  apply Hgen; auto using inv_nil. exists 0%nat. cbn. auto.
Qed.

End ChunkProofs.

(* ---- header diversion and item numbering (the item builder of core.go feeding Push) ---- *)
Lemma ingest_ok size hl : (1 <= size)%nat -> forall recs h idx (cs : @chunklist item),
  chunklist_inv size cs ->
  exists st cs', ingest size hl (mkB h idx) cs recs = Ok (st, cs') /\ chunklist_inv size cs' /\
    b_header st = h ++ firstn (hl - length h) recs /\
    concat cs' = concat cs ++ number_from idx (skipn (hl - length h) recs).
Proof.
  intro Hsize. induction recs as [|r t IH]; intros h idx cs H.
  - exists (mkB h idx), cs. cbn [ingest b_header]. rewrite firstn_nil, skipn_nil. cbn. rewrite !app_nil_r. auto.
  - cbn [ingest]. unfold build. cbn [b_header b_index].
    destruct (Nat.ltb_spec (length h) hl) as [Hlt|Hge].
    + destruct (push_ok size Hsize cs false (O, r) H) as (cs1 & -> & H1 & Hc). cbn [bind].
      destruct (IH (h ++ [r]) idx cs1 H1) as (st & cs' & -> & H2 & Hh & Hcc).
      exists st, cs'. split; [reflexivity|]. split; [exact H2|].
      rewrite app_length in Hh, Hcc. cbn [length] in Hh, Hcc.
      destruct (hl - length h)%nat as [|k] eqn:Ek; [lia|].
      replace (hl - (length h + 1))%nat with k in * by lia.
      cbn [firstn skipn]. split.
      * rewrite Hh, <- app_assoc. reflexivity.
      * rewrite Hcc, Hc, app_nil_r. reflexivity.
    + destruct (push_ok size Hsize cs true (idx, r) H) as (cs1 & -> & H1 & Hc). cbn [bind].
      destruct (IH h (S idx) cs1 H1) as (st & cs' & -> & H2 & Hh & Hcc).
      exists st, cs'. split; [reflexivity|]. split; [exact H2|].
      replace (hl - length h)%nat with 0%nat in * by lia. cbn [firstn skipn number_from] in *. split.
      * exact Hh.
      * rewrite Hcc, Hc, <- app_assoc. reflexivity.
Qed.

Theorem header_lines_proof : forall size hl recs, (1 <= size)%nat ->
  exists st cs, ingest size hl (mkB [] O) [] recs = Ok (st, cs) /\ chunklist_inv size cs /\
    b_header st = header_of hl recs /\ concat cs = items_of hl recs.
Proof.
  intros size hl recs Hsize.
  destruct (ingest_ok size hl Hsize recs [] O [] (inv_nil size)) as (st & cs & H1 & H2 & H3 & H4).
  exists st, cs. cbn [length app concat] in *. rewrite Nat.sub_0_r in *. auto.
Qed.

(* ---- the whole input path ---- *)
Theorem pipeline_correct_proof : forall bufsz slabsz size read0 hl tail s cuts,
  (1 <= bufsz)%nat -> (1 <= slabsz)%nat -> (1 <= size)%nat -> cuts_ok cuts ->
  pipeline bufsz slabsz size read0 hl tail s cuts =
  Ok (header_of hl (split_records (delim_of read0) s), searchable read0 hl tail s).
Proof.
  intros bufsz slabsz size read0 hl tail s cuts Hb Hs Hsize Hc. unfold pipeline.
  rewrite feed_chunking_invariant_proof by assumption. cbn [bind].
  destruct (header_lines_proof size hl (split_records (delim_of read0) s) Hsize) as (st & cs & -> & Hi & Hh & Hcc).
  cbn [bind fst snd].
  destruct (snapshot_ok size Hsize tail cs Hi) as (cs' & -> & _ & Hk). cbn [bind].
  rewrite Hh, Hk, Hcc. reflexivity.
Qed.
