(* FuzzyMatchV2 phase 3 (matrix fill): invariant of the filled rows, totality of p3_row / p3_rows
   (no out-of-range access, no read of a scratch cell that was not written in this call). *)
From Fzf Require Import Prelude AlgoSpec AlgoModel V2Facts V2MatrixBase.
Open Scope Z_scope.

(* What phases 3-4 need to know about the arrays left by phase 2. *)
Record v2ctx (T B : list Z) (F : list nat) (pat : list Z) (M : nat) (width f0 lastIdx : Z) : Prop := {
  cx_lenF : length F = M;
  cx_lenP : length pat = M;
  cx_M : (2 <= M)%nat;
  cx_f0 : f0 = Z.of_nat (nn F 0);
  cx_Finc : forall i, (S i < M)%nat -> (nn F i < nn F (S i))%nat;
  cx_Flast : Z.of_nat (nn F (M - 1)) <= lastIdx;
  cx_lastT : lastIdx < Z.of_nat (length T);
  cx_lenB : length B = length T;
  cx_width : width = lastIdx - f0 + 1;
  cx_B0 : forall j, (j < length B)%nat -> 0 <= zn B j;
  cx_Fhit : forall i, (i < M)%nat -> zn T (nn F i) = zn pat i
}.

(* flat index of row i, column j *)
Definition cellz (width f0 : Z) (i : nat) (j : Z) : Z := Z.of_nat i * width + (j - f0).

Section Fill.
Variables (T B : list Z) (F : list nat) (pat : list Z) (M : nat) (width f0 lastIdx : Z).
Hypothesis Hctx : v2ctx T B F pat M width f0 lastIdx.

Notation Fz i := (Z.of_nat (nn F i)).
Notation cellz := (cellz width f0).

(* ---------- arithmetic of the layout ---------- *)

Lemma F_mono : forall i k, (i < k)%nat -> (k < M)%nat -> (nn F i < nn F k)%nat.
Proof.
  intros i k Hik. induction Hik as [|k Hik IH]; intros Hk.
  - now apply (cx_Finc _ _ _ _ _ _ _ _ Hctx).
  - pose proof (cx_Finc _ _ _ _ _ _ _ _ Hctx k Hk). specialize (IH ltac:(lia)). lia.
Qed.

Lemma F_ge_f0 i : (i < M)%nat -> f0 <= Fz i.
Proof.
  intros Hi. rewrite (cx_f0 _ _ _ _ _ _ _ _ Hctx). destruct i as [|i]; [lia|].
  pose proof (F_mono O (S i) ltac:(lia) Hi). lia.
Qed.

Lemma F_gt_f0 i : (1 <= i)%nat -> (i < M)%nat -> f0 < Fz i.
Proof.
  intros H1 Hi. rewrite (cx_f0 _ _ _ _ _ _ _ _ Hctx).
  pose proof (F_mono O i ltac:(lia) Hi). lia.
Qed.

Lemma F_le_last i : (i < M)%nat -> Fz i <= lastIdx.
Proof.
  intros Hi. pose proof (cx_Flast _ _ _ _ _ _ _ _ Hctx) as HL. pose proof (cx_M _ _ _ _ _ _ _ _ Hctx).
  destruct (Nat.eq_dec i (M - 1)) as [->|Hne]; [exact HL|].
  pose proof (F_mono i (M - 1) ltac:(lia) ltac:(lia)). lia.
Qed.

Lemma F_nonneg i : 0 <= Fz i.
Proof. lia. Qed.

Lemma width_pos : 1 <= width.
Proof.
  rewrite (cx_width _ _ _ _ _ _ _ _ Hctx). pose proof (cx_M _ _ _ _ _ _ _ _ Hctx).
  pose proof (F_le_last O ltac:(lia)). pose proof (cx_f0 _ _ _ _ _ _ _ _ Hctx). lia.
Qed.

Lemma row_S i : Z.of_nat (S i) * width = Z.of_nat i * width + width.
Proof. rewrite Nat2Z.inj_succ. lia. Qed.

Lemma row_mono i k : (i <= k)%nat -> Z.of_nat i * width <= Z.of_nat k * width.
Proof. intros H. pose proof width_pos. apply Z.mul_le_mono_nonneg_r; lia. Qed.

Lemma cellz_S i j : cellz (S i) j = cellz i j + width.
Proof. unfold V2MatrixFill.cellz. rewrite row_S. lia. Qed.

Lemma cellz_pred i j : (1 <= i)%nat -> cellz (i - 1) j = cellz i j - width.
Proof. intros H. destruct i as [|i]; [lia|]. rewrite cellz_S. replace (S i - 1)%nat with i by lia. lia. Qed.

Lemma cellz_shift i j d : cellz i (j + d) = cellz i j + d.
Proof. unfold V2MatrixFill.cellz. lia. Qed.

Lemma cellz_bound i j : (i < M)%nat -> f0 <= j <= lastIdx -> 0 <= cellz i j < width * Z.of_nat M.
Proof.
  intros Hi Hj. unfold V2MatrixFill.cellz. pose proof width_pos as Hw.
  pose proof (cx_width _ _ _ _ _ _ _ _ Hctx) as HW.
  pose proof (row_mono (S i) M ltac:(lia)) as H1. rewrite row_S in H1.
  assert (0 <= Z.of_nat i * width) by (apply Z.mul_nonneg_nonneg; lia).
  lia.
Qed.

(* end of row i = start of row i+1 *)
Lemma cellz_row_end i : cellz i (lastIdx + 1) = Z.of_nat (S i) * width.
Proof. unfold V2MatrixFill.cellz. rewrite row_S. rewrite (cx_width _ _ _ _ _ _ _ _ Hctx). lia. Qed.

Lemma cellz_inj_col i j j' : cellz i j = cellz i j' -> j = j'.
Proof. unfold V2MatrixFill.cellz. lia. Qed.

(* ---------- the invariant ---------- *)

(* columns F[i] .. c-1 of row i are filled correctly; hf / cf are the cell views of H and C *)
Record prow_ok (hf cf : Z -> option Z) (i : nat) (c : Z) : Prop := {
  pr_left0 : (1 <= i)%nat -> hf (cellz i (Fz i - 1)) = Some 0;
  pr_H : forall j, Fz i <= j < c -> exists v, hf (cellz i j) = Some v /\ 0 <= v;
  pr_C : forall j, Fz i <= j < c -> exists x, cf (cellz i j) = Some x /\ 0 <= x <= j + 1;
  pr_gap : forall j v u, Fz i < j < c -> zn T (Z.to_nat j) <> zn pat i ->
           hf (cellz i j) = Some v -> hf (cellz i (j - 1)) = Some u ->
           exists g, (g = scoreGapExt \/ g = scoreGapStart) /\ v = Z.max (u + g) 0;
  pr_match : forall j v d, (1 <= i)%nat -> Fz i <= j < c -> zn T (Z.to_nat j) = zn pat i ->
           hf (cellz i j) = Some v -> hf (cellz (i - 1) (j - 1)) = Some d -> d + scoreMatch <= v;
  pr_first : forall v, Fz i < c -> hf (cellz i (Fz i)) = Some v -> scoreMatch <= v
}.

Definition rows_ok (hf cf : Z -> option Z) (k : nat) : Prop :=
  forall i, (i <= k)%nat -> prow_ok hf cf i (lastIdx + 1).

Definition mlen (m : mat) : Prop := Z.of_nat (length m) = width * Z.of_nat M.

Lemma prow_frame hf cf hf' cf' i c : Fz i <= c ->
  (forall z, z < cellz i c -> hf' z = hf z) -> (forall z, z < cellz i c -> cf' z = cf z) ->
  prow_ok hf cf i c -> prow_ok hf' cf' i c.
Proof.
  intros Hc Hh Hcf P. pose proof width_pos as Hw.
  assert (Hlt : forall j, j < c -> cellz i j < cellz i c) by (intros j Hj; unfold V2MatrixFill.cellz; lia).
  assert (Hlt' : forall j, (1 <= i)%nat -> j < c + 1 -> cellz (i - 1) (j - 1) < cellz i c)
    by (intros j Hi Hj; rewrite cellz_pred by exact Hi; unfold V2MatrixFill.cellz; lia).
  constructor.
  - intros Hi. rewrite Hh by (apply Hlt; lia). now apply (pr_left0 _ _ _ _ P).
  - intros j Hj. rewrite Hh by (apply Hlt; lia). now apply (pr_H _ _ _ _ P).
  - intros j Hj. rewrite Hcf by (apply Hlt; lia). now apply (pr_C _ _ _ _ P).
  - intros j v u Hj Hne. rewrite !Hh by (apply Hlt; lia). now apply (pr_gap _ _ _ _ P).
  - intros j v d Hi Hj He. rewrite Hh by (apply Hlt; lia). rewrite (Hh (cellz (i - 1) (j - 1))) by (apply Hlt'; [exact Hi|lia]).
    now apply (pr_match _ _ _ _ P).
  - intros v Hlt2. rewrite Hh by (apply Hlt; lia). now apply (pr_first _ _ _ _ P).
Qed.

Lemma rows_frame hf cf hf' cf' k : (k < M)%nat ->
  (forall z, z < Z.of_nat (S k) * width -> hf' z = hf z) -> (forall z, z < Z.of_nat (S k) * width -> cf' z = cf z) ->
  rows_ok hf cf k -> rows_ok hf' cf' k.
Proof.
  intros Hk Hh Hc R i Hi. specialize (R i Hi).
  assert (cellz i (lastIdx + 1) <= Z.of_nat (S k) * width) by (rewrite cellz_row_end; apply row_mono; lia).
  pose proof (F_le_last i ltac:(lia)).
  eapply prow_frame; [lia| | |exact R]; intros z Hz; [apply Hh|apply Hc]; lia.
Qed.

Lemma prow_extend hf cf i c v x : Fz i <= c ->
  prow_ok hf cf i c ->
  hf (cellz i c) = Some v -> 0 <= v -> cf (cellz i c) = Some x -> 0 <= x <= c + 1 ->
  (Fz i < c -> zn T (Z.to_nat c) <> zn pat i -> forall u, hf (cellz i (c - 1)) = Some u ->
     exists g, (g = scoreGapExt \/ g = scoreGapStart) /\ v = Z.max (u + g) 0) ->
  ((1 <= i)%nat -> zn T (Z.to_nat c) = zn pat i -> forall d, hf (cellz (i - 1) (c - 1)) = Some d -> d + scoreMatch <= v) ->
  (c = Fz i -> scoreMatch <= v) ->
  prow_ok hf cf i (c + 1).
Proof.
  intros Hc P Hv Hv0 Hx Hx0 Hgap Hmatch Hfirst. constructor.
  - apply (pr_left0 _ _ _ _ P).
  - intros j Hj. destruct (Z.eq_dec j c) as [->|Hne]; [eauto|]. apply (pr_H _ _ _ _ P). lia.
  - intros j Hj. destruct (Z.eq_dec j c) as [->|Hne]; [eauto|]. apply (pr_C _ _ _ _ P). lia.
  - intros j v' u Hj Hne Hv' Hu. destruct (Z.eq_dec j c) as [->|Hne'].
    + rewrite Hv in Hv'. inversion Hv'; subst v'. apply Hgap; [lia|exact Hne|exact Hu].
    + apply (pr_gap _ _ _ _ P j v' u); try assumption. lia.
  - intros j v' d Hi Hj He Hv' Hd. destruct (Z.eq_dec j c) as [->|Hne'].
    + rewrite Hv in Hv'. inversion Hv'; subst v'. now apply Hmatch.
    + apply (pr_match _ _ _ _ P j v' d); try assumption. lia.
  - intros v' Hlt Hv'. destruct (Z.eq_dec c (Fz i)) as [E|Hne'].
    + rewrite <- E in Hv'. rewrite Hv in Hv'. inversion Hv'; subst v'. now apply Hfirst.
    + apply (pr_first _ _ _ _ P v'); [lia|exact Hv'].
Qed.

(* ---------- tracking of the best cell of the last row ---------- *)

Definition best_upto (fwd : bool) (hf : Z -> option Z) (i : nat) (c : Z) (ms mp : Z) : Prop :=
  Fz i <= mp < c /\ hf (cellz i mp) = Some ms /\
  forall j v, Fz i <= j < c -> hf (cellz i j) = Some v ->
              v <= ms /\ (if fwd then j < mp -> v < ms else mp < j -> v < ms).

Definition track (fwd : bool) (hf : Z -> option Z) (i : nat) (c : Z) (ms mp : Z) : Prop :=
  (c = Fz i /\ ms <= 0) \/ best_upto fwd hf i c ms mp.

(* ---------- one cell ---------- *)

Definition cell_r (H C : mat) (row j0 col pchar ch s2 : Z) : res (Z * Z) :=
  if pchar =? ch then
    do hdiag <- mget H (row + j0 - 1 - width);
    do cdiag <- mget C (row + j0 - 1 - width);
    do b0 <- zget B col;
    let s1 := hdiag + scoreMatch in
    let cn := cdiag + 1 in
    do bc <- (if 1 <? cn then
                do fb <- zget B (col - cn + 1);
                if (bonusBoundary <=? b0) && (fb <? b0) then Ok (b0, 1)
                else Ok (Z.max b0 (Z.max bonusConsecutive fb), cn)
              else Ok (b0, cn));
    if s1 + fst bc <? s2 then Ok (s1 + b0, 0) else Ok (s1 + fst bc, snd bc)
  else Ok (0, 0).

Lemma p3_row_S fwd lastrow H C row pchar n' col inGap maxScore maxPos :
  p3_row fwd lastrow T B H C row width f0 pchar (S n') col inGap maxScore maxPos =
  (let j0 := col - f0 in
   do hleft <- mget H (row + j0 - 1);
   let s2 := hleft + (if inGap then scoreGapExt else scoreGapStart) in
   do ch <- zget T col;
   do r <- cell_r H C row j0 col pchar ch s2;
   let s1 := fst r in
   do C' <- mset C (row + j0) (snd r);
   let score := Z.max (Z.max s1 s2) 0 in
   let better := lastrow && (if fwd then maxScore <? score else maxScore <=? score) in
   do H' <- mset H (row + j0) score;
   p3_row fwd lastrow T B H' C' row width f0 pchar n' (col + 1) (s1 <? s2)
          (if better then score else maxScore) (if better then col else maxPos)).
Proof. reflexivity. Qed.

Lemma cell_r_nomatch H C row j0 col pchar ch s2 : pchar <> ch -> cell_r H C row j0 col pchar ch s2 = Ok (0, 0).
Proof. intros Hne. unfold cell_r. destruct (Z.eqb_spec pchar ch); [contradiction|reflexivity]. Qed.

Lemma cell_r_match H C row j0 col pchar ch s2 hd cd :
  pchar = ch ->
  mc H (row + j0 - 1 - width) = Some hd -> mc C (row + j0 - 1 - width) = Some cd ->
  0 <= cd <= col -> 0 <= col < Z.of_nat (length B) ->
  exists r, cell_r H C row j0 col pchar ch s2 = Ok r /\ hd + scoreMatch <= fst r /\ 0 <= snd r <= col + 1.
Proof.
  intros He Hh Hc Hcd Hcol. unfold cell_r. subst ch. rewrite Z.eqb_refl.
  rewrite (mget_mc _ _ _ Hh), (mget_mc _ _ _ Hc). cbn [bind].
  rewrite (zget_zn B col) by lia. cbn [bind].
  assert (Hb0 : 0 <= zn B (Z.to_nat col)) by (apply (cx_B0 _ _ _ _ _ _ _ _ Hctx); lia).
  set (b0 := zn B (Z.to_nat col)) in *.
  destruct (Z.ltb_spec 1 (cd + 1)) as [H1|H1].
  - rewrite (zget_zn B (col - (cd + 1) + 1)) by lia. cbn [bind].
    set (fb := zn B (Z.to_nat (col - (cd + 1) + 1))).
    destruct ((bonusBoundary <=? b0) && (fb <? b0)); cbn [bind fst snd].
    + destruct (hd + scoreMatch + b0 <? s2); eexists; (split; [reflexivity|]); cbn [fst snd]; lia.
    + destruct (hd + scoreMatch + Z.max b0 (Z.max bonusConsecutive fb) <? s2); eexists; (split; [reflexivity|]); cbn [fst snd]; lia.
  - cbn [bind fst snd].
    destruct (hd + scoreMatch + b0 <? s2); eexists; (split; [reflexivity|]); cbn [fst snd]; lia.
Qed.

(* ---------- one row ---------- *)

Section Row.
Variable fwd : bool.
Variable i : nat.
Hypothesis Hi1 : (1 <= i)%nat.
Hypothesis HiM : (i < M)%nat.

Definition row_inv (H C : mat) (col : Z) : Prop :=
  mlen H /\ mlen C /\ rows_ok (mc H) (mc C) (i - 1) /\ prow_ok (mc H) (mc C) i col /\ Fz i <= col <= lastIdx + 1.

Lemma p3_row_ok lastrow : forall n H C col inGap ms mp,
  row_inv H C col -> col + Z.of_nat n = lastIdx + 1 ->
  exists H' C' ms' mp',
    p3_row fwd lastrow T B H C (Z.of_nat i * width) width f0 (zn pat i) n col inGap ms mp = Ok (H', C', ms', mp') /\
    row_inv H' C' (lastIdx + 1) /\
    (lastrow = false -> ms' = ms /\ mp' = mp) /\
    (lastrow = true -> track fwd (mc H) i col ms mp -> best_upto fwd (mc H') i (lastIdx + 1) ms' mp').
Proof.
  induction n as [|n IH]; intros H C col inGap ms mp Hinv Hn.
  - exists H, C, ms, mp. replace col with (lastIdx + 1) in * by lia.
    split; [reflexivity|]. split; [exact Hinv|]. split; [auto|].
    intros _ [[E _]|Hb]; [|exact Hb]. pose proof (F_le_last i HiM). lia.
  - destruct Hinv as (HlH & HlC & Hrows & Hrow & Hcol).
    pose proof width_pos as Hw.
    pose proof (F_ge_f0 i HiM) as HF0. pose proof (F_gt_f0 i Hi1 HiM) as HF0'.
    pose proof (cx_lastT _ _ _ _ _ _ _ _ Hctx) as HlastT.
    pose proof (cx_lenB _ _ _ _ _ _ _ _ Hctx) as HlenB.
    assert (Hcol' : col <= lastIdx) by lia.
    rewrite p3_row_S. cbv zeta.
    (* hleft *)
    assert (Hleft : exists hl, mc H (cellz i (col - 1)) = Some hl /\ 0 <= hl /\ (col = Fz i -> hl = 0)).
    { destruct (Z.eq_dec col (Fz i)) as [E|E].
      - exists 0. rewrite E. split; [now apply (pr_left0 _ _ _ _ Hrow)|]. split; [lia|auto].
      - destruct (pr_H _ _ _ _ Hrow (col - 1)) as (v & Hv & Hv0); [lia|]. exists v. split; [exact Hv|]. split; [exact Hv0|]. intros; contradiction. }
    destruct Hleft as (hl & Hhl & Hhl0 & Hhl1).
    replace (Z.of_nat i * width + (col - f0) - 1) with (cellz i (col - 1)) by (unfold V2MatrixFill.cellz; lia).
    rewrite (mget_mc _ _ _ Hhl). cbn [bind].
    rewrite (zget_zn T col) by lia. cbn [bind].
    set (g := if inGap then scoreGapExt else scoreGapStart).
    assert (Hg : g = scoreGapExt \/ g = scoreGapStart) by (unfold g; destruct inGap; auto).
    set (s2 := hl + g).
    (* the candidate *)
    assert (Hr : exists r, cell_r H C (Z.of_nat i * width) (col - f0) col (zn pat i) (zn T (Z.to_nat col)) s2 = Ok r /\
                 0 <= snd r <= col + 1 /\
                 (zn T (Z.to_nat col) <> zn pat i -> r = (0, 0)) /\
                 (zn T (Z.to_nat col) = zn pat i -> exists d, mc H (cellz (i - 1) (col - 1)) = Some d /\ 0 <= d /\ d + scoreMatch <= fst r)).
    { destruct (Z.eq_dec (zn pat i) (zn T (Z.to_nat col))) as [E|E].
      - assert (Hprev : prow_ok (mc H) (mc C) (i - 1) (lastIdx + 1)) by (apply Hrows; lia).
        pose proof (F_mono (i - 1) i ltac:(lia) HiM) as HFm.
        destruct (pr_H _ _ _ _ Hprev (col - 1)) as (d & Hd & Hd0); [lia|].
        destruct (pr_C _ _ _ _ Hprev (col - 1)) as (cd & Hcd & Hcd0); [lia|].
        assert (Hix : Z.of_nat i * width + (col - f0) - 1 - width = cellz (i - 1) (col - 1))
          by (rewrite cellz_pred by exact Hi1; unfold V2MatrixFill.cellz; lia).
        destruct (cell_r_match H C (Z.of_nat i * width) (col - f0) col (zn pat i) (zn T (Z.to_nat col)) s2 d cd E)
          as (r & Er & Hr1 & Hr2); [rewrite Hix; exact Hd|rewrite Hix; exact Hcd|lia|lia|].
        exists r. split; [exact Er|]. split; [exact Hr2|]. split; [intros Hne; congruence|].
        intros _. exists d. auto.
      - exists (0, 0). split; [now apply cell_r_nomatch|]. cbn [fst snd]. split; [lia|]. split; [auto|].
        intros E'. congruence. }
    destruct Hr as (r & Er & Hr2 & Hrn & Hrm). rewrite Er. cbn [bind].
    replace (Z.of_nat i * width + (col - f0)) with (cellz i col) by (unfold V2MatrixFill.cellz; lia).
    pose proof (cellz_bound i col HiM ltac:(lia)) as Hcb.
    destruct (mset_spec C (cellz i col) (snd r)) as (C' & EC & LC & CC); [unfold mlen in HlC; lia|].
    rewrite EC. cbn [bind].
    set (score := Z.max (Z.max (fst r) s2) 0).
    destruct (mset_spec H (cellz i col) score) as (H' & EH & LH & CH); [unfold mlen in HlH; lia|].
    rewrite EH. cbn [bind].
    (* invariant for the next column *)
    assert (HfrH : forall z, z < cellz i col -> mc H' z = mc H z)
      by (intros z Hz; rewrite CH; destruct (Z.eqb_spec z (cellz i col)); [lia|reflexivity]).
    assert (HfrC : forall z, z < cellz i col -> mc C' z = mc C z)
      by (intros z Hz; rewrite CC; destruct (Z.eqb_spec z (cellz i col)); [lia|reflexivity]).
    assert (HnewH : mc H' (cellz i col) = Some score) by (rewrite CH, Z.eqb_refl; reflexivity).
    assert (HnewC : mc C' (cellz i col) = Some (snd r)) by (rewrite CC, Z.eqb_refl; reflexivity).
    assert (Hrow0 : prow_ok (mc H') (mc C') i col) by (eapply prow_frame; [lia|exact HfrH|exact HfrC|exact Hrow]).
    assert (Hhl' : mc H' (cellz i (col - 1)) = Some hl)
      by (rewrite HfrH; [exact Hhl|unfold V2MatrixFill.cellz; lia]).
    assert (Hinv' : row_inv H' C' (col + 1)).
    { split; [unfold mlen in *; lia|]. split; [unfold mlen in *; lia|]. split.
      - eapply rows_frame; [lia| | |exact Hrows]; intros z Hz; [apply HfrH|apply HfrC];
          replace (S (i - 1)) with i in Hz by lia; unfold V2MatrixFill.cellz; lia.
      - split; [|lia].
        eapply prow_extend; [lia|exact Hrow0|exact HnewH|unfold score; lia|exact HnewC|exact Hr2| | |].
        + intros Hlt Hne u Hu. rewrite Hhl' in Hu. inversion Hu; subst u.
          exists g. split; [exact Hg|]. unfold score. rewrite (Hrn Hne). cbn [fst]. fold s2.
          unfold s2. lia.
        + intros _ He d Hd. destruct (Hrm He) as (d' & Hd' & Hd0 & Hd1).
          rewrite HfrH in Hd by (rewrite cellz_pred by exact Hi1; unfold V2MatrixFill.cellz; lia).
          rewrite Hd' in Hd. inversion Hd; subst d'. unfold score. lia.
        + intros E. assert (He : zn T (Z.to_nat col) = zn pat i).
          { rewrite E, Nat2Z.id. apply (cx_Fhit _ _ _ _ _ _ _ _ Hctx). exact HiM. }
          destruct (Hrm He) as (d' & Hd' & Hd0 & Hd1). unfold score. lia. }
    set (better := lastrow && (if fwd then ms <? score else ms <=? score)).
    destruct (IH H' C' (col + 1) (fst r <? s2) (if better then score else ms) (if better then col else mp) Hinv' ltac:(lia))
      as (H2 & C2 & ms2 & mp2 & E2 & Hinv2 & Hkeep & Htrack).
    exists H2, C2, ms2, mp2. split; [exact E2|]. split; [exact Hinv2|]. split.
    + intros Hl. destruct (Hkeep Hl) as [-> ->]. unfold better. rewrite Hl. cbn [andb]. auto.
    + intros Hl Htr. apply (Htrack Hl). right.
      unfold better. rewrite Hl. cbn [andb].
      (* first cell of the row is >= 16 *)
      assert (Hfirst16 : col = Fz i -> scoreMatch <= score).
      { intros E. apply (pr_first _ _ _ _ (proj1 (proj2 (proj2 (proj2 Hinv')))) score); [lia|]. rewrite <- E. exact HnewH. }
      destruct Htr as [[Ec Hms]|(Hmp & Hmsv & Hall)].
      * assert (Hb : (if fwd then ms <? score else ms <=? score) = true).
        { specialize (Hfirst16 Ec). unfold scoreMatch in Hfirst16. destruct fwd; [apply Z.ltb_lt|apply Z.leb_le]; lia. }
        rewrite Hb. split; [lia|]. split; [exact HnewH|].
        intros j v Hj Hv. assert (j = col) by lia. subst j. rewrite HnewH in Hv. inversion Hv; subst v.
        split; [lia|]. destruct fwd; intros; lia.
      * assert (Hmsv' : mc H' (cellz i mp) = Some ms) by (rewrite HfrH; [exact Hmsv|unfold V2MatrixFill.cellz; lia]).
        assert (Hall' : forall j v, Fz i <= j < col -> mc H' (cellz i j) = Some v ->
                                    v <= ms /\ (if fwd then j < mp -> v < ms else mp < j -> v < ms)).
        { intros j v Hj Hv. rewrite HfrH in Hv by (unfold V2MatrixFill.cellz; lia). now apply Hall. }
        destruct fwd.
        -- destruct (Z.ltb_spec ms score) as [Hb|Hb].
           ++ split; [lia|]. split; [exact HnewH|]. intros j v Hj Hv.
              destruct (Z.eq_dec j col) as [->|Hne].
              ** rewrite HnewH in Hv. inversion Hv; subst v. split; [lia|intros; lia].
              ** destruct (Hall' j v ltac:(lia) Hv) as [A _]. split; [lia|intros; lia].
           ++ split; [lia|]. split; [exact Hmsv'|]. intros j v Hj Hv.
              destruct (Z.eq_dec j col) as [->|Hne].
              ** rewrite HnewH in Hv. inversion Hv; subst v. split; [lia|intros; lia].
              ** apply Hall'; [lia|exact Hv].
        -- destruct (Z.leb_spec ms score) as [Hb|Hb].
           ++ split; [lia|]. split; [exact HnewH|]. intros j v Hj Hv.
              destruct (Z.eq_dec j col) as [->|Hne].
              ** rewrite HnewH in Hv. inversion Hv; subst v. split; [lia|intros; lia].
              ** destruct (Hall' j v ltac:(lia) Hv) as [A _]. split; [lia|intros; lia].
           ++ split; [lia|]. split; [exact Hmsv'|]. intros j v Hj Hv.
              destruct (Z.eq_dec j col) as [->|Hne].
              ** rewrite HnewH in Hv. inversion Hv; subst v. split; [lia|intros; lia].
              ** apply Hall'; [lia|exact Hv].
Qed.

End Row.

(* ---------- all rows ---------- *)

Lemma skipn_all' {A} (l : list A) n : (length l <= n)%nat -> skipn n l = [].
Proof. intros H. apply skipn_all2. exact H. Qed.

Lemma p3_rows_ok fwd : forall k pidx H C ms mp,
  (pidx + k = M)%nat -> (1 <= pidx)%nat ->
  mlen H -> mlen C -> rows_ok (mc H) (mc C) (pidx - 1) ->
  exists H' C' ms' mp',
    p3_rows fwd T B H C width f0 lastIdx M (skipn pidx F) (skipn pidx pat) pidx ms mp = Ok (H', C', ms', mp') /\
    mlen H' /\ mlen C' /\ rows_ok (mc H') (mc C') (M - 1) /\
    ((pidx < M)%nat -> ms <= 0 -> best_upto fwd (mc H') (M - 1) (lastIdx + 1) ms' mp').
Proof.
  pose proof (cx_lenF _ _ _ _ _ _ _ _ Hctx) as HlenF. pose proof (cx_lenP _ _ _ _ _ _ _ _ Hctx) as HlenP.
  induction k as [|k IH]; intros pidx H C ms mp Hk Hp HlH HlC Hrows.
  - rewrite (skipn_all' F) by lia. exists H, C, ms, mp. split; [reflexivity|].
    replace (M - 1)%nat with (pidx - 1)%nat by lia.
    split; [exact HlH|]. split; [exact HlC|]. split; [exact Hrows|]. intros; lia.
  - assert (HpM : (pidx < M)%nat) by lia.
    rewrite (skipn_nth_cons F pidx O) by lia. rewrite (skipn_nth_cons pat pidx 0) by lia.
    cbn [p3_rows]. fold (nn F pidx). fold (zn pat pidx).
    pose proof (F_gt_f0 pidx Hp HpM) as HF0. pose proof (F_le_last pidx HpM) as HFl. pose proof width_pos as Hw.
    replace (Z.of_nat pidx * width + Fz pidx - f0 - 1) with (cellz pidx (Fz pidx - 1)) by (unfold V2MatrixFill.cellz; lia).
    pose proof (cellz_bound pidx (Fz pidx - 1) HpM ltac:(lia)) as Hcb.
    destruct (mset_spec H (cellz pidx (Fz pidx - 1)) 0) as (H1 & E1 & L1 & C1); [unfold mlen in HlH; lia|].
    rewrite E1. cbn [bind].
    assert (Hfr : forall z, z < Z.of_nat pidx * width -> mc H1 z = mc H z).
    { intros z Hz. rewrite C1. destruct (Z.eqb_spec z (cellz pidx (Fz pidx - 1))) as [E|E]; [|reflexivity].
      unfold V2MatrixFill.cellz in E. lia. }
    assert (Hinv : row_inv pidx H1 C (Fz pidx)).
    { split; [unfold mlen in *; lia|]. split; [exact HlC|]. split.
      - eapply rows_frame; [lia| | |exact Hrows]; intros z Hz; replace (S (pidx - 1)) with pidx in Hz by lia; auto.
      - split; [|lia]. constructor; try (intros; lia).
        intros _. rewrite C1, Z.eqb_refl. reflexivity. }
    assert (Hn : Fz pidx + Z.of_nat (Z.to_nat (lastIdx + 1 - Fz pidx)) = lastIdx + 1) by lia.
    destruct (p3_row_ok fwd pidx Hp HpM (Nat.eqb pidx (M - 1)) (Z.to_nat (lastIdx + 1 - Fz pidx)) H1 C (Fz pidx) false ms mp Hinv Hn)
      as (H2 & C2 & ms2 & mp2 & E2 & Hinv2 & Hkeep & Htrack).
    rewrite E2. cbn [bind].
    destruct Hinv2 as (HlH2 & HlC2 & Hrows2 & Hrow2 & _).
    assert (Hrows2' : rows_ok (mc H2) (mc C2) (S pidx - 1)).
    { intros i' Hi'. destruct (Nat.eq_dec i' pidx) as [->|Hne]; [exact Hrow2|]. apply Hrows2. lia. }
    destruct (Nat.eqb_spec pidx (M - 1)) as [Elast|Elast].
    + (* last row *)
      assert (k = O) by lia. subst k.
      rewrite (skipn_all' F (S pidx)) by lia.
      exists H2, C2, ms2, mp2. split; [reflexivity|]. split; [exact HlH2|]. split; [exact HlC2|]. split.
      * replace (M - 1)%nat with (S pidx - 1)%nat by lia. exact Hrows2'.
      * intros _ Hms. rewrite <- Elast. apply Htrack; [reflexivity|]. left. split; [reflexivity|exact Hms].
    + destruct (Hkeep eq_refl) as [-> ->].
      destruct (IH (S pidx) H2 C2 ms mp ltac:(lia) ltac:(lia) HlH2 HlC2 Hrows2') as (H3 & C3 & ms3 & mp3 & E3 & R1 & R2 & R3 & R4).
      exists H3, C3, ms3, mp3. split; [exact E3|]. split; [exact R1|]. split; [exact R2|]. split; [exact R3|].
      intros _ Hms. apply R4; [lia|exact Hms].
Qed.

End Fill.
