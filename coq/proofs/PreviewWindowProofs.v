(* C20 proofs for the window machine: the rows of the window are the view of the last result, for every stream of
   results in which a result either carries a version the window has not drawn yet, or extends the output drawn under
   the same version.  The blank result of a state without a line is of the first kind exactly because the previewer
   advances its version for every request it takes. *)
From Fzf Require Import Prelude PreviewSpec PreviewWindowSpec PreviewWindowModel.
Open Scope Z_scope.

Lemma view_nil : forall {A} o h, view (@nil A) o h = blank_rows h.
Proof.
  intros A o h. unfold view, blank_rows. apply map_ext. intro i.
  destruct (o + i)%nat; reflexivity.
Qed.

Lemma redraw_top_view : forall ls o h, redraw_top ls o (view ls o h) = view ls o h.
Proof.
  intros ls o h. destruct h as [|k]; [reflexivity|].
  unfold view. simpl. rewrite Nat.add_0_r. reflexivity.
Qed.

Lemma view_app : forall {A} (ls ext : list A) o h, (o + h <= length ls)%nat -> view (ls ++ ext) o h = view ls o h.
Proof.
  intros A ls ext o h Hle. unfold view. apply map_ext_in. intros i Hi.
  apply in_seq in Hi. apply nth_error_app1. lia.
Qed.

(* what the window has drawn is what the render loop holds, and the memo says so *)
Definition winv (h : nat) (s : wstate) : Prop :=
  w_rows s = view (w_lines s) (Z.to_nat (w_off s)) h /\
  m_ver s = w_ver s /\ m_off s = w_off s /\ m_num s = length (w_lines s) /\
  (m_filled s = true -> Z.of_nat h <= zlen (w_lines s) - w_off s) /\
  (w_lines s <> [] -> 0 <= w_off s).

(* a result the previewer may hand over in state s: a version not drawn yet (its first result carries the requested
   offset), or more output of the command whose (non-empty) output is drawn *)
Definition wf_next (s : wstate) (r : presult) : Prop :=
  (pr_ver r <> w_ver s /\ 0 <= pr_off r) \/
  (pr_ver r = w_ver s /\ w_lines s <> [] /\ exists ext, pr_lines r = w_lines s ++ ext).

Fixpoint wf_stream (h : nat) (optf : bool) (rs : list presult) (s : wstate) : Prop :=
  match rs with
  | [] => True
  | r :: rest => wf_next s r /\ wf_stream h optf rest (on_display h optf s r)
  end.

Lemma winv_init : forall h, winv h (winit h).
Proof.
  intro h. unfold winv, winit; simpl. repeat split.
  - symmetry. apply view_nil.
  - intro H; discriminate H.
  - intro H; exfalso; apply H; reflexivity.
Qed.

Lemma constrain_nonneg : forall v n, 1 <= n -> 0 <= constrain v 0 (n - 1).
Proof.
  intros v n Hn. unfold constrain.
  destruct (v <? 0) eqn:E1; [lia|]. destruct (v >? n - 1) eqn:E2; [lia|].
  apply Z.ltb_ge in E1. exact E1.
Qed.

Lemma d_off_nonneg : forall h optf s r,
  winv h s -> wf_next s r -> pr_lines r <> [] -> 0 <= d_off h optf s r.
Proof.
  intros h optf s r Hinv Hwf Hne.
  destruct Hinv as (_ & _ & _ & _ & _ & Hoff).
  assert (Hn : 1 <= zlen (pr_lines r)).
  { unfold zlen. destruct (pr_lines r); [exfalso; apply Hne; reflexivity | simpl length; lia]. }
  unfold d_off.
  destruct Hwf as [[Hver Hpo] | (Hver & Hls & _)].
  - assert (Hf : d_fresh s r = true).
    { unfold d_fresh. apply Bool.negb_true_iff. apply Nat.eqb_neq. intro E; apply Hver; symmetry; exact E. }
    unfold d_foll. rewrite Hf.
    destruct optf; simpl.
    + lia.
    + apply Z.leb_le in Hpo. rewrite Hpo. apply constrain_nonneg. exact Hn.
  - assert (Hf : d_fresh s r = false).
    { unfold d_fresh. apply Bool.negb_false_iff. apply Nat.eqb_eq. symmetry; exact Hver. }
    unfold d_foll. rewrite Hf. simpl.
    specialize (Hoff Hls).
    destruct (w_follow s).
    + lia.
    + destruct (0 <=? pr_off r) eqn:E; [apply constrain_nonneg; exact Hn | exact Hoff].
Qed.

Lemma winv_step : forall h optf s r, winv h s -> wf_next s r -> winv h (on_display h optf s r).
Proof.
  intros h optf s r Hinv Hwf.
  pose proof (d_off_nonneg h optf s r Hinv Hwf) as Hnn.
  destruct (d_unchanged h optf s r) eqn:U.
  - (* only the first row is redrawn *)
    pose proof U as U0. unfold d_unchanged in U0.
    apply andb_prop in U0. destruct U0 as [U0 Uoff]. apply andb_prop in U0. destruct U0 as [Ufn Uver].
    apply Nat.eqb_eq in Uver. apply Z.eqb_eq in Uoff.
    destruct Hinv as (Hrows & Hmv & Hmo & Hmn & Hfill & Hoff).
    destruct Hwf as [[Hver _] | (Hver & Hls & ext & Hext)].
    { exfalso. apply Hver. rewrite Uver. exact Hmv. }
    specialize (Hoff Hls).
    assert (Hsame : view (pr_lines r) (Z.to_nat (w_off s)) h = view (w_lines s) (Z.to_nat (w_off s)) h).
    { rewrite Hext. apply Bool.orb_prop in Ufn. destruct Ufn as [Uf | Un].
      - apply view_app. specialize (Hfill Uf). unfold zlen in Hfill.
        apply Nat2Z.inj_le. rewrite Nat2Z.inj_add. rewrite Z2Nat.id by exact Hoff. lia.
      - apply Nat.eqb_eq in Un. rewrite Hext, Hmn, app_length in Un.
        destruct ext as [|e ext']; [rewrite app_nil_r; reflexivity | simpl in Un; lia]. }
    unfold winv, on_display. rewrite U. simpl. rewrite Uoff, Hmo.
    split; [|split; [|split; [|split; [|split]]]]; try reflexivity.
    + rewrite Hrows, <- Hsame. apply redraw_top_view.
    + intro Hf. specialize (Hfill Hf). rewrite Hext. unfold zlen in *. rewrite app_length. lia.
    + intros _. exact Hoff.
  - unfold winv, on_display. rewrite U. simpl.
    split; [|split; [|split; [|split; [|split]]]]; try reflexivity.
    + intro Hf. apply andb_prop in Hf. destruct Hf as [_ Hf]. apply Z.leb_le in Hf. lia.
    + exact Hnn.
Qed.

Theorem window_shows_last_result_proof : forall h optf rs s,
  winv h s -> wf_stream h optf rs s -> winv h (wrun h optf rs s).
Proof.
  intros h optf rs. induction rs as [|r rest IH]; intros s Hinv Hwf; simpl.
  - exact Hinv.
  - simpl in Hwf. destruct Hwf as [Hn Hrest]. apply IH; [apply winv_step; assumption | exact Hrest].
Qed.

(* a result with a version the window has not drawn is drawn in full, whatever was there before (no invariant needed) *)
Theorem fresh_result_drawn_proof : forall h optf s r,
  pr_ver r <> m_ver s ->
  w_rows (on_display h optf s r) = view (pr_lines r) (Z.to_nat (w_off (on_display h optf s r))) h.
Proof.
  intros h optf s r Hver. unfold on_display. simpl.
  assert (U : d_unchanged h optf s r = false).
  { unfold d_unchanged. apply Nat.eqb_neq in Hver. rewrite Hver. rewrite Bool.andb_false_r. reflexivity. }
  rewrite U. reflexivity.
Qed.

(* the state without a line: the previewer that advances its version for every request blanks the window *)
Theorem blank_result_blanks_window_proof : forall h optf s pver,
  (m_ver s <= pver)%nat ->
  w_rows (on_display h optf s (blank_result true pver)) = blank_rows h.
Proof.
  intros h optf s pver Hle.
  rewrite fresh_result_drawn_proof; [apply view_nil | simpl; lia].
Qed.

(* Refuted witness: the previewer that advances its version only when it starts a command.  A window of 2 rows that
   follows the output, a command that printed 3 lines (the window is full and stands at offset 1), then the state
   without a line: the blank result carries the version that is on the screen, printPreview finds nothing changed and
   redraws the first row only: the second row keeps the last line of the superseded command. *)
Theorem blank_result_reused_version_refuted_proof :
  exists h optf rs,
    let s := wrun h optf rs (winit h) in
    wf_stream h optf rs (winit h) /\
    w_rows (on_display h optf s (blank_result true (w_ver s))) = blank_rows h /\
    w_rows (on_display h optf s (blank_result false (w_ver s))) <> blank_rows h.
Proof.
  exists 2%nat, true, [mkPR 1 [[1]; [2]; [3]] 0]. simpl.
  split; [split; [left; split; [discriminate | first [lia | apply Z.le_refl | (intro H; discriminate H)]] | exact I] |].
  split; [reflexivity | vm_compute; discriminate].
Qed.
