(* C06 proofs, part 1: Reader.feed (model/ReaderModel.v) refines split_records for every stream,
   every cut list of the domain and all buffer sizes >= 1. *)
From Fzf Require Import Prelude RecordSpec ReaderModel.
Open Scope Z_scope.

(* ------------------------------------------------------------------ *)
(* spec lemmas                                                          *)

Lemma unrev_rev (l : str) : unrev l = rev l.
Proof. unfold unrev. rewrite rev_append_rev. apply app_nil_r. Qed.

(* the records of a stream when `l` (oldest first) was already read into the current record *)
Definition G (d : Z) (l : str) (s : str) : list str := split_acc d (rev l) s.

Lemma G_nil d l : G d l [] = match l with [] => [] | _ => [l] end.
Proof.
  unfold G. cbn. destruct l as [|x l]; [reflexivity|].
  destruct (rev (x :: l)) eqn:E.
  - apply (f_equal (@length Z)) in E. rewrite rev_length in E. discriminate.
  - rewrite <- E, unrev_rev, rev_involutive. reflexivity.
Qed.

Lemma split_acc_nodelim d : forall a cur b,
  index_byte a d = None -> split_acc d cur (a ++ b) = split_acc d (rev a ++ cur) b.
Proof.
  induction a as [|c a IH]; intros cur b H; [reflexivity|].
  cbn in H. destruct (c =? d) eqn:E; [discriminate|].
  destruct (index_byte a d) eqn:E2; [discriminate|].
  cbn [app split_acc]. rewrite E. rewrite IH by reflexivity.
  cbn [rev]. rewrite <- app_assoc. reflexivity.
Qed.

Lemma G_nodelim d l a b : index_byte a d = None -> G d l (a ++ b) = G d (l ++ a) b.
Proof. intro H. unfold G. rewrite split_acc_nodelim by exact H. rewrite rev_app_distr. reflexivity. Qed.

Lemma index_byte_some d : forall a i, index_byte a d = Some i ->
  a = firstn i a ++ d :: skipn (S i) a /\ index_byte (firstn i a) d = None /\ (i < length a)%nat.
Proof.
  induction a as [|c a IH]; intros i H; [discriminate|].
  cbn in H. destruct (c =? d) eqn:E.
  - injection H as <-. apply Z.eqb_eq in E. subst c. cbn. repeat split; lia.
  - destruct (index_byte a d) as [j|] eqn:E2; [|discriminate]. injection H as <-.
    destruct (IH j eq_refl) as (H1 & H2 & H3).
    cbn [firstn skipn app index_byte length]. rewrite E, H2. repeat split; [|lia].
    f_equal. exact H1.
Qed.

Lemma G_delim d l p b : index_byte p d = None -> G d l (p ++ d :: b) = (l ++ p) :: G d [] b.
Proof.
  intro H. unfold G. rewrite split_acc_nodelim by exact H.
  cbn [split_acc]. rewrite Z.eqb_refl. rewrite unrev_rev, rev_app_distr, !rev_involutive. reflexivity.
Qed.

(* split_records is THE reading of a stream: terminated records followed by an unterminated tail *)
Lemma delim_free_index d r : delim_free d r -> index_byte r d = None.
Proof.
  induction 1 as [|c r Hc _ IH]; [reflexivity|].
  cbn. apply Z.eqb_neq in Hc. rewrite Hc, IH. reflexivity.
Qed.

Lemma split_records_join_proof d : forall rs tl,
  Forall (delim_free d) rs -> delim_free d tl ->
  split_records d (terminated d rs ++ tl) = rs ++ match tl with [] => [] | _ => [tl] end.
Proof.
  unfold split_records. change (split_acc d []) with (G d []).
  induction rs as [|r rs IH]; intros tl Hrs Htl.
  - cbn [terminated map concat app]. rewrite <- (app_nil_r tl) at 1.
    rewrite G_nodelim by (apply delim_free_index; exact Htl). apply G_nil.
  - inversion Hrs as [|? ? Hr Hrs']; subst.
    unfold terminated. cbn [map concat]. rewrite <- !app_assoc. cbn [app].
    rewrite G_delim by (apply delim_free_index; exact Hr).
    cbn [app]. f_equal. apply IH; assumption.
Qed.

(* ------------------------------------------------------------------ *)
(* list / memory lemmas                                                 *)

Lemma get_app_l {A} : forall (m e : list A) k b, get m k = Ok b -> get (m ++ e) k = Ok b.
Proof. induction m as [|x m IH]; intros e k b H; destruct k; cbn in *; try discriminate; auto. Qed.

Lemma get_lt {A} : forall (m : list A) k b, get m k = Ok b -> (k < length m)%nat.
Proof.
  induction m as [|x m IH]; intros k b H; destruct k; cbn in *; try discriminate; try lia.
  apply IH in H. lia.
Qed.

Lemma get_new {A} : forall (m : list A) b, get (m ++ [b]) (length m) = Ok b.
Proof. induction m as [|x m IH]; intro b; cbn; auto. Qed.

Lemma set_nth_ok {A} : forall (m : list A) k b b', get m k = Ok b ->
  exists m', set_nth m k b' = Ok m' /\ get m' k = Ok b' /\
             (forall j, j <> k -> get m' j = get m j) /\ length m' = length m.
Proof.
  induction m as [|x m IH]; intros k b b' H; destruct k; cbn in H; try discriminate.
  - exists (b' :: m). cbn. repeat split. intros [|j] Hj; [congruence|reflexivity].
  - destruct (IH k b b' H) as (m' & H1 & H2 & H3 & H4).
    exists (x :: m'). cbn. rewrite H1. cbn. repeat split; auto.
    intros [|j] Hj; [reflexivity|]. cbn. apply H3. congruence.
Qed.

Lemma drop_exact_app {A} : forall (pre t : list A), drop_exact (length pre) (pre ++ t) = Ok t.
Proof. induction pre as [|x pre IH]; intro t; cbn; auto. Qed.

Lemma take_exact_app {A} : forall (v post : list A), take_exact (length v) (v ++ post) = Ok v.
Proof. induction v as [|x v IH]; intro post; cbn; [reflexivity|]. rewrite IH. reflexivity. Qed.

Lemma overwrite_app {A} : forall (data old post : list A), length old = length data ->
  overwrite data (old ++ post) = Ok (data ++ post).
Proof.
  induction data as [|x data IH]; intros old post H; destruct old; cbn in *; try discriminate.
  - destruct post; reflexivity.
  - rewrite IH by lia. reflexivity.
Qed.

Lemma write_off_app {A} : forall (pre old post data : list A), length old = length data ->
  write_off (length pre) data (pre ++ old ++ post) = Ok (pre ++ data ++ post).
Proof.
  induction pre as [|x pre IH]; intros old post data H; cbn.
  - destruct (old ++ post) eqn:E; rewrite <- E; apply overwrite_app; exact H.
  - rewrite IH by exact H. reflexivity.
Qed.

Lemma app_prefix {A} : forall (a b c e : list A), a ++ b = c ++ e -> (length a <= length c)%nat ->
  exists w, c = a ++ w /\ b = w ++ e.
Proof.
  induction a as [|x a IH]; intros b c e H L.
  - exists c. cbn in *. auto.
  - destruct c as [|y c]; cbn in *; [lia|]. injection H as -> H.
    destruct (IH b c e H ltac:(lia)) as (w & -> & ->). exists w. auto.
Qed.

Lemma firstn_skipn_len {A} : forall n (l : list A), firstn n l ++ skipn (length (firstn n l)) l = l.
Proof. induction n; destruct l; cbn; auto. f_equal. apply IHn. Qed.

(* what a slice holds: the buffer decomposes around it *)
Definition holds (m : mem) (sl : slice) (v : str) : Prop :=
  exists b pre post, get m (sl_buf sl) = Ok b /\ b = pre ++ v ++ post /\
                     length pre = sl_off sl /\ length v = sl_len sl.

Lemma holds_deref m sl v : holds m sl v -> deref m sl = Ok v.
Proof.
  intros (b & pre & post & Hg & -> & Hp & Hv). unfold deref. rewrite Hg. cbn.
  rewrite <- Hp, drop_exact_app. cbn. rewrite <- Hv. apply take_exact_app.
Qed.

Lemma holds_ext m e sl v : holds m sl v -> holds (m ++ e) sl v.
Proof. intros (b & pre & post & Hg & H). exists b, pre, post. split; [apply get_app_l; exact Hg|exact H]. Qed.

Lemma holds_lt m sl v : holds m sl v -> (sl_buf sl < length m)%nat.
Proof. intros (b & pre & post & Hg & _). eapply get_lt; eauto. Qed.

Lemma holds_new m b : holds (m ++ [b]) (mkSlice (length m) 0 (length b)) b.
Proof. exists b, [], []. cbn. rewrite get_new, app_nil_r. auto. Qed.

Lemma Forall2_holds_ext m e items vs :
  Forall2 (holds m) items vs -> Forall2 (holds (m ++ e)) items vs.
Proof. induction 1; constructor; auto using holds_ext. Qed.

Lemma holds_deref_all m : forall items vs, Forall2 (holds m) items vs -> deref_all m items = Ok vs.
Proof.
  induction 1 as [|sl v items vs H _ IH]; [reflexivity|].
  cbn. rewrite (holds_deref _ _ _ H). cbn. rewrite IH. reflexivity.
Qed.

(* items of buffer id end at or before lim *)
Definition before (id lim : nat) (items : list slice) : Prop :=
  Forall (fun sl => sl_buf sl = id -> (sl_off sl + sl_len sl <= lim)%nat) items.

Lemma before_mono id lim lim' items : (lim <= lim')%nat -> before id lim items -> before id lim' items.
Proof. intros L H. eapply Forall_impl; [|exact H]. cbn. intros sl Hs E. specialize (Hs E). lia. Qed.

Lemma before_fresh m items vs lim : Forall2 (holds m) items vs -> before (length m) lim items.
Proof.
  induction 1 as [|sl v items vs H _ IH]; constructor; [|exact IH].
  intro E. apply holds_lt in H. lia.
Qed.

(* a read into the slab: buffer id = written ++ old ++ post, data replaces old *)
Lemma write_at_ok (m : mem) id (written old post data : str) items vs :
  get m id = Ok (written ++ old ++ post) -> length old = length data ->
  Forall2 (holds m) items vs -> before id (length written) items ->
  exists m', write_at m id (length written) data = Ok m' /\
    get m' id = Ok (written ++ data ++ post) /\ length m' = length m /\
    Forall2 (holds m') items vs /\
    holds m' (mkSlice id (length written) (length data)) data.
Proof.
  intros Hg Hl Hit Hb.
  destruct (set_nth_ok m id _ (written ++ data ++ post) Hg) as (m' & H1 & H2 & H3 & H4).
  exists m'. unfold write_at. rewrite Hg. cbn. rewrite write_off_app by exact Hl. cbn.
  repeat split; auto.
  - clear H1. induction Hit as [|sl v items vs Hh Hit IH]; constructor.
    + inversion Hb as [|? ? Hsl _]; subst.
      destruct Hh as (b & pre & q & Hgb & -> & Hp & Hv).
      destruct (Nat.eq_dec (sl_buf sl) id) as [E|E].
      * rewrite E in Hgb. rewrite Hg in Hgb. injection Hgb as Hgb.
        specialize (Hsl E).
        assert (Hgb' : (pre ++ v) ++ q = written ++ (old ++ post)) by (rewrite <- app_assoc; auto).
        destruct (app_prefix _ _ _ _ Hgb') as (w & Hw & _); [rewrite app_length; lia|].
        exists (written ++ data ++ post), pre, (w ++ data ++ post).
        rewrite E. repeat split; auto. rewrite Hw, <- !app_assoc. reflexivity.
      * exists (pre ++ v ++ q), pre, q. rewrite H3 by exact E. auto.
    + apply IH. inversion Hb; assumption.
  - exists (written ++ data ++ post), written, post. cbn. auto.
Qed.

(* ------------------------------------------------------------------ *)
(* the inner loop                                                       *)

Lemma emit_ok m l items sl p vs :
  holds m sl p -> Forall2 (holds m) items vs ->
  exists st1 e sl', emit (mkF m l items) sl = Ok st1 /\ f_mem st1 = m ++ e /\ f_left st1 = [] /\
    f_items st1 = sl' :: items /\ holds (f_mem st1) sl' (l ++ p) /\
    (sl' = sl \/ sl_buf sl' = length m).
Proof.
  intros Hh Hit. unfold emit. cbn [f_left f_mem f_items]. destruct l as [|x l].
  - exists (mkF m [] (sl :: items)), [], sl. cbn. rewrite app_nil_r. auto 10.
  - rewrite (holds_deref _ _ _ Hh). cbn [bind alloc].
    eexists _, [(x :: l) ++ p], _. cbn [f_mem f_left f_items].
    repeat split; [apply holds_new|right; reflexivity].
Qed.

Lemma scan_buf_ok d id : forall fuel off data st vs,
  (length data < fuel)%nat ->
  holds (f_mem st) (mkSlice id off (length data)) data ->
  Forall2 (holds (f_mem st)) (f_items st) vs ->
  before id off (f_items st) ->
  exists st' vs' e,
    scan_buf fuel d false id off data st = Ok st' /\
    f_mem st' = f_mem st ++ e /\
    Forall2 (holds (f_mem st')) (f_items st') vs' /\
    before id (off + length data) (f_items st') /\
    (forall rest, rev vs ++ G d (f_left st) (data ++ rest) = rev vs' ++ G d (f_left st') rest).
Proof.
  induction fuel as [|fuel IH]; intros off data st vs Hf Hh Hit Hb; [lia|].
  destruct st as [m l items]. cbn [f_mem f_left f_items] in *.
  destruct data as [|c0 data0].
  - exists (mkF m l items), vs, []. cbn [scan_buf f_mem f_left f_items]. rewrite app_nil_r.
    repeat split; auto. eapply before_mono; [|exact Hb]. lia.
  - cbn [scan_buf andb]. set (data := c0 :: data0) in *.
    destruct (index_byte data d) as [i|] eqn:Ei.
    + destruct (index_byte_some d data i Ei) as (Hsplit & Hnd & Hi).
      set (p := firstn i data) in *. set (data2 := skipn (S i) data) in *.
      assert (Hlp : length p = i) by (unfold p; rewrite firstn_length; lia).
      assert (Hlen : length data = (i + 1 + length data2)%nat).
      { rewrite Hsplit at 1. rewrite app_length. cbn [length]. lia. }
      destruct Hh as (b & pre & post & Hg & Hb_eq & Hpre & _). cbn [sl_buf sl_off sl_len] in *.
      assert (Hp : holds m (mkSlice id off i) p).
      { exists b, pre, (d :: data2 ++ post). cbn [sl_buf sl_off sl_len]. repeat split; auto.
        rewrite Hb_eq, Hsplit. rewrite <- !app_assoc. reflexivity. }
      destruct (emit_ok m l items _ p vs Hp Hit) as (st1 & e1 & sl' & He & Hm1 & Hl1 & Hi1 & Hh1 & Hsl').
      cbn [bind]. rewrite He. cbn [bind].
      destruct st1 as [m1 l1 items1]. cbn [f_mem f_left f_items] in *. subst m1 l1 items1.
      destruct (IH (S i + off)%nat data2 (mkF (m ++ e1) [] (sl' :: items)) ((l ++ p) :: vs))
        as (st' & vs' & e2 & Hrun & Hm' & Hit' & Hb' & Hval).
      * lia.
      * cbn [f_mem]. apply holds_ext. exists b, (pre ++ p ++ [d]), post.
        cbn [sl_buf sl_off sl_len]. repeat split; auto.
        -- rewrite Hb_eq, Hsplit. rewrite <- !app_assoc. reflexivity.
        -- rewrite !app_length. cbn [length]. lia.
      * cbn [f_mem f_items]. constructor; [exact Hh1|]. apply Forall2_holds_ext. exact Hit.
      * cbn [f_items]. constructor.
        -- intro E. destruct Hsl' as [-> | Hnew].
           ++ cbn [sl_off sl_len]. lia.
           ++ apply get_lt in Hg. lia.
        -- eapply before_mono; [|exact Hb]. lia.
      * exists st', vs', (e1 ++ e2). cbn [f_mem f_left] in *.
        repeat split; auto.
        -- rewrite Hm', app_assoc. reflexivity.
        -- replace (off + length data)%nat with (S i + off + length data2)%nat by lia. exact Hb'.
        -- intro rest. rewrite <- Hval. rewrite Hsplit at 1. rewrite <- app_assoc. cbn [app].
           rewrite G_delim by exact Hnd. cbn [rev]. rewrite <- app_assoc. reflexivity.
    + exists (mkF m (l ++ data) items), vs, []. cbn [f_mem f_left f_items]. rewrite app_nil_r.
      repeat split; auto.
      * eapply before_mono; [|exact Hb]. lia.
      * intro rest. rewrite G_nodelim by exact Ei. reflexivity.
Qed.

(* ------------------------------------------------------------------ *)
(* the outer loop                                                       *)

Lemma read_retry_nil slablen bufsz cuts : forall tries, read_retry tries slablen bufsz [] cuts = ([], cuts).
Proof. destruct tries; reflexivity. Qed.

Lemma read_retry_ok slablen bufsz : (1 <= slablen)%nat -> (1 <= bufsz)%nat ->
  forall tries run rest cuts, rest <> [] ->
  (tries + run = read_tries)%nat -> (run < read_tries)%nat ->
  zrun_ok read_tries run cuts = true ->
  exists chunk cuts' n, read_retry tries slablen bufsz rest cuts = (chunk, cuts') /\
    chunk <> [] /\ chunk = firstn n rest /\ (n <= slablen)%nat /\ (n <= bufsz)%nat /\
    zrun_ok read_tries 0 cuts' = true.
Proof.
  intros Hs Hbz. induction tries as [|t IH]; intros run rest cuts Hne Ht Hr Hz; [lia|].
  destruct rest as [|r0 rest0]; [congruence|].
  cbn [read_retry]. destruct cuts as [|c cuts].
  - destruct (Nat.min slablen bufsz) as [|k] eqn:Ek; [lia|].
    cbn [firstn]. exists (r0 :: firstn k rest0), [], (S k).
    repeat split; try lia; try discriminate.
  - destruct (Nat.min (Nat.min c slablen) bufsz) as [|k] eqn:Ek.
    + assert (c = 0)%nat by lia. subst c. cbn [firstn].
      cbn [zrun_ok] in Hz. cbn [Nat.eqb] in Hz. apply andb_true_iff in Hz as [Hz1 Hz2].
      apply Nat.ltb_lt in Hz1.
      destruct (IH (S run) (r0 :: rest0) cuts) as (chunk & cuts' & n & H); try assumption; try lia.
      exists chunk, cuts', n. exact H.
    + cbn [firstn]. exists (r0 :: firstn k rest0), cuts, (S k).
      assert (c <> 0)%nat by lia.
      cbn [zrun_ok] in Hz. destruct (Nat.eqb_spec c 0); [congruence|].
      repeat split; try lia; try discriminate. exact Hz.
Qed.

Lemma feed_loop_ok bufsz slabsz d : (1 <= bufsz)%nat -> (1 <= slabsz)%nat ->
  forall fuel rest cuts slab st vs (written unwritten : str),
  (length rest < fuel)%nat ->
  zrun_ok read_tries 0 cuts = true ->
  get (f_mem st) (sl_buf slab) = Ok (written ++ unwritten) ->
  length written = sl_off slab -> length unwritten = sl_len slab -> (1 <= sl_len slab)%nat ->
  Forall2 (holds (f_mem st)) (f_items st) vs ->
  before (sl_buf slab) (sl_off slab) (f_items st) ->
  exists st' vs', feed_loop fuel bufsz slabsz d false rest cuts slab st = Ok st' /\
    Forall2 (holds (f_mem st')) (f_items st') vs' /\
    rev vs ++ G d (f_left st) rest = rev vs' ++ G d (f_left st') [].
Proof.
  intros Hbz Hsz.
  induction fuel as [|fuel IH]; intros rest cuts slab st vs written unwritten Hf Hz Hg Hw Hu Hl Hit Hb; [lia|].
  cbn [feed_loop]. destruct rest as [|r0 rest0] eqn:Erest.
  - rewrite read_retry_nil. cbv beta iota zeta. exists st, vs. auto.
  - rewrite <- Erest in *. assert (Hne : rest <> []) by (rewrite Erest; discriminate). clear Erest r0 rest0.
    destruct (read_retry_ok (sl_len slab) bufsz Hl Hbz read_tries 0%nat rest cuts Hne)
      as (chunk & cuts' & n & Hrr & Hcne & Hchunk & Hn1 & Hn2 & Hz'); try assumption; try (unfold read_tries; lia).
    rewrite Hrr. destruct chunk as [|c0 ch0]; [congruence|]. cbv beta iota zeta.
    set (chunk := c0 :: ch0) in *.
    assert (Hcl : (1 <= length chunk <= sl_len slab)%nat).
    { split; [unfold chunk; cbn; lia|]. rewrite Hchunk, firstn_length. lia. }
    assert (Hrest : rest = chunk ++ skipn (length chunk) rest).
    { rewrite Hchunk. symmetry. apply firstn_skipn_len. }
    destruct slab as [sid soff slen]. cbn [sl_buf sl_off sl_len] in *. subst soff.
    set (old := firstn (length chunk) unwritten). set (post := skipn (length chunk) unwritten).
    assert (Hun : unwritten = old ++ post) by (symmetry; apply firstn_skipn).
    assert (Hold : length old = length chunk) by (unfold old; rewrite firstn_length; lia).
    assert (Hpost : length post = (slen - length chunk)%nat) by (unfold post; rewrite skipn_length; lia).
    rewrite Hun in Hg.
    destruct (write_at_ok (f_mem st) sid written old post chunk (f_items st) vs Hg Hold Hit Hb)
      as (m' & Hwr & Hg' & Hlm & Hit' & Hbuf).
    rewrite Hwr. cbn [bind]. rewrite (holds_deref _ _ _ Hbuf). cbn [bind sl_buf sl_off].
    destruct (scan_buf_ok d sid (S (length chunk)) (length written) chunk
                (mkF m' (f_left st) (f_items st)) vs) as (st1 & vs1 & e & Hrun & Hm1 & Hit1 & Hb1 & Hval);
      cbn [f_mem f_items]; auto.
    rewrite Hrun. cbn [bind]. cbn [f_mem f_left f_items] in *.
    specialize (Hval (skipn (length chunk) rest)). rewrite <- Hrest in Hval. rewrite Hval.
    assert (Hf' : (length (skipn (length chunk) rest) < fuel)%nat).
    { rewrite skipn_length. destruct rest; [congruence|]. cbn [length] in *. lia. }
    destruct (slen - length chunk =? 0)%nat eqn:Ez.
    + unfold alloc. cbv beta iota zeta.
      apply (IH _ cuts' (mkSlice (length (f_mem st1)) 0 slabsz)
                (mkF (f_mem st1 ++ [repeat 0 slabsz]) (f_left st1) (f_items st1)) vs1 [] (repeat 0 slabsz));
        cbn [f_mem f_left f_items sl_buf sl_off sl_len]; auto.
      * apply get_new.
      * apply repeat_length.
      * apply Forall2_holds_ext. exact Hit1.
      * eapply before_fresh. exact Hit1.
    + apply Nat.eqb_neq in Ez.
      apply (IH _ cuts' (mkSlice sid (length chunk + length written) (slen - length chunk)) st1 vs1
                (written ++ chunk) post);
        cbn [sl_buf sl_off sl_len]; auto; try lia.
      * rewrite Hm1. apply get_app_l. rewrite <- app_assoc. exact Hg'.
      * rewrite app_length. lia.
      * rewrite Nat.add_comm. exact Hb1.
Qed.

(* ------------------------------------------------------------------ *)
(* feed                                                                 *)

Lemma Forall2_rev' {A B} (R : A -> B -> Prop) : forall l l', Forall2 R l l' -> Forall2 R (rev l) (rev l').
Proof. induction 1; cbn; [constructor|]. apply Forall2_app; [assumption|]. constructor; [assumption|constructor]. Qed.

Definition cuts_ok (cuts : list nat) : Prop := zrun_ok read_tries 0 cuts = true.

Theorem feed_chunking_invariant_proof : forall bufsz slabsz d s cuts,
  (1 <= bufsz)%nat -> (1 <= slabsz)%nat -> cuts_ok cuts ->
  feed_records bufsz slabsz d false s cuts = Ok (split_records d s).
Proof.
  intros bufsz slabsz d s cuts Hbz Hsz Hz. unfold feed_records, feed.
  pose proof (feed_loop_ok bufsz slabsz d Hbz Hsz (S (length s)) s cuts (mkSlice 0 0 slabsz)
              (mkF [repeat 0 slabsz] [] []) [] [] (repeat 0 slabsz)) as H.
  cbn [f_mem f_left f_items sl_buf sl_off sl_len] in H.
  specialize (H ltac:(lia) Hz eq_refl eq_refl (repeat_length _ _) Hsz (Forall2_nil _) (Forall_nil _)).
  destruct H as (st & vs & Hrun & Hit & Hval).
  - rewrite Hrun. cbn [bind]. cbn [f_left rev app] in Hval.
    change (G d [] s) with (split_records d s) in Hval. rewrite Hval, G_nil.
    destruct st as [m l items]. cbn [f_mem f_left f_items] in *.
    destruct l as [|x l].
    + cbn [bind fst snd]. rewrite rev_append_rev, !app_nil_r.
      apply holds_deref_all. apply Forall2_rev'. exact Hit.
    + unfold alloc. cbv beta iota zeta. cbn [bind fst snd]. rewrite rev_append_rev, app_nil_r.
      apply holds_deref_all. cbn [rev]. apply Forall2_app.
      * apply Forall2_rev'. apply Forall2_holds_ext. exact Hit.
      * constructor; [apply holds_new|constructor].
Qed.
