(* Closes C01's interface [matchers_decide] completely: every matcher decides its AlgoSpec predicate.
   Side conditions are facts about Go's unicode tables / the scheme that GeneratedCheck verifies for the real code:
   normalizeRune is the identity below U+00C0 and idempotent, bonuses >= bonusBoundary, classes non-negative. *)
From Fzf Require Import Prelude AlgoSpec AlgoModel QuerySpec PatternModel PatternProofs PatternInst.
From Fzf Require Import AlgoBasics PrefilterProofs V1Proofs V2Glue V2Final.
Open Scope Z_scope.

Section Final.
Variable co : char_ops.
Variable sc : scheme.
Hypothesis Hnorm : forall c, c < 192 -> co_norm co c = c.
Hypothesis Hidem : forall c, co_norm co (co_norm co c) = co_norm co c.
Hypothesis Hbw : bonusBoundary <= s_bw sc.
Hypothesis Hbd : bonusBoundary <= s_bd sc.
Hypothesis Hcl : forall c, 0 <= co_class co c.

Lemma nonneg : 0 <= s_bw sc /\ 0 <= s_bd sc.
Proof. unfold bonusBoundary in *. lia. Qed.

Lemma inst_v1 : forall cs nm fwd isb text pat wp, pat <> [] -> text_ok isb text ->
  matcher_ok (fuzzy_v1 co sc cs nm fwd isb text pat wp) (subseq_b co cs nm text pat).
Proof.
  intros cs nm fwd isb text pat wp Hne Hto. apply matcher_ok_intro.
  - apply v1_total_proof.
  - intros s e score pos H. destruct (v1_sound_proof co sc _ _ _ _ _ _ _ _ _ _ _ H Hne) as [_ [G _]]. exact G.
  - intro H. exact (v1_complete_proof co sc cs nm fwd isb text pat wp Hto Hnorm H).
Qed.

Lemma inst_v2 : forall cs nm fwd isb text pat wp cap, pat <> [] -> text_ok isb text ->
  matcher_ok (fuzzy_v2 co sc cs nm fwd isb text pat wp cap) (subseq_b co cs nm text pat).
Proof.
  intros cs nm fwd isb text pat wp cap Hne Hto. apply matcher_ok_intro.
  - exact (v2_total_final co sc cs nm fwd isb text pat wp cap nonneg Hto Hnorm).
  - intros s e score pos H. exact (v2_match_subseq_closed co sc cs nm fwd isb text pat wp cap s e score pos Hnorm H Hne).
  - intro H. exact (v2_complete_closed co sc cs nm fwd isb text pat wp cap Hto Hnorm H).
Qed.

Theorem matchers_decide_closed : matchers_decide co sc.
Proof.
  apply (matchers_decide_inst co sc); auto using inst_v1, inst_v2.
  intros c Hc. apply Hnorm. lia.
Qed.

End Final.
Print Assumptions matchers_decide_closed.
