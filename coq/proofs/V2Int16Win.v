(* C03, FuzzyMatchV2: value ranges of the matrix fill (phase 3), on the PURE list version of V2DpWin.v.

   Go stores H, C, B and every temporary of the inner loop in int16.  With bonuses in [0, bmax]
   (bmax = 10 for fzf's three schemes), scoreMatch = 16, gap penalties -3 / -1:

     row i (0-based; row 0 = H0 of phase 2)   H cells in [0, hb bmax i],  hb bmax i = 16*(i+1) + bmax*(i+2)
                                              C cells in [0, i+1]
     every temporary of a cell of row i       in [-3, hb bmax i]

   so for a pattern of M characters everything is in [-3, 16*M + bmax*(M+1)].
   [wstep_trace] / [win_rows_trace] list EVERY value the loop body computes (a superset of what the
   Go code computes on a given path: values of branches not taken are listed too). *)
From Fzf Require Import Prelude AlgoSpec AlgoModel V2Facts V2DpWin.
Open Scope Z_scope.

(* ---------- the bounds ---------- *)

Definition hb (bmax : Z) (i : nat) : Z := scoreMatch * (Z.of_nat i + 1) + bmax * (Z.of_nat i + 2).
Definition cb (i : nat) : Z := Z.of_nat i + 1.

Lemma hb_S bmax i : hb bmax (S i) = hb bmax i + scoreMatch + bmax.
Proof. unfold hb, scoreMatch. rewrite Nat2Z.inj_succ. ring. Qed.

Lemma hb_0 bmax : hb bmax 0 = scoreMatch + 2 * bmax.
Proof. unfold hb, scoreMatch. cbn [Z.of_nat]. ring. Qed.

Lemma hb_nonneg bmax i : 0 <= bmax -> 0 <= hb bmax i.
Proof.
  intros Hb. induction i as [|i IH]; [rewrite hb_0; unfold scoreMatch; lia|].
  rewrite hb_S. unfold scoreMatch. lia.
Qed.

Lemma hb_mono bmax i k : 0 <= bmax -> (i <= k)%nat -> hb bmax i <= hb bmax k.
Proof.
  intros Hb Hik. induction Hik as [|k Hik IH]; [lia|].
  rewrite hb_S. unfold scoreMatch. lia.
Qed.

(* the closed form for the last row of an M-character pattern *)
Lemma hb_last bmax M : (1 <= M)%nat -> hb bmax (M - 1) = 16 * Z.of_nat M + bmax * (Z.of_nat M + 1).
Proof.
  intros HM. unfold hb, scoreMatch. replace (Z.of_nat (M - 1)) with (Z.of_nat M - 1) by lia. ring.
Qed.

Lemma cb_le_hb bmax i : 0 <= bmax -> cb i <= hb bmax i.
Proof.
  intros Hb. induction i as [|i IH]; [rewrite hb_0; unfold cb, scoreMatch; cbn [Z.of_nat]; lia|].
  rewrite hb_S. unfold cb, scoreMatch in *. lia.
Qed.

Definition bonus_bd (bmax : Z) (B : list Z) : Prop := Forall (fun b => 0 <= b <= bmax) B.

Lemma zn_bd bmax B k : 0 <= bmax -> bonus_bd bmax B -> 0 <= zn B k <= bmax.
Proof.
  intros Hb HB. unfold zn. destruct (Nat.lt_ge_cases k (length B)) as [Hk|Hk].
  - unfold bonus_bd in HB. rewrite Forall_forall in HB. apply HB. apply nth_In. exact Hk.
  - rewrite nth_overflow by exact Hk. lia.
Qed.

Definition cell_bd (bmax : Z) (i : nat) (c : wcell) : Prop :=
  0 <= w_h c <= hb bmax i /\ 0 <= w_c c <= cb i.
Definition row_bd (bmax : Z) (i : nat) (r : list wcell) : Prop := Forall (cell_bd bmax i) r.

Lemma cell_bd_dflt bmax i : 0 <= bmax -> cell_bd bmax i wdflt.
Proof.
  intros Hb. pose proof (hb_nonneg bmax i Hb). unfold cell_bd, wdflt, cb. cbn [w_h w_c]. lia.
Qed.

Lemma cell_bd_mono bmax i k c : 0 <= bmax -> (i <= k)%nat -> cell_bd bmax i c -> cell_bd bmax k c.
Proof.
  intros Hb Hik [H1 H2]. pose proof (hb_mono bmax i k Hb Hik). unfold cell_bd, cb in *. lia.
Qed.

Lemma row_bd_mono bmax i k r : 0 <= bmax -> (i <= k)%nat -> row_bd bmax i r -> row_bd bmax k r.
Proof.
  intros Hb Hik Hr. unfold row_bd in *. eapply Forall_impl; [|exact Hr].
  intros c Hc. eapply cell_bd_mono; eauto.
Qed.

Lemma row_bd_nth bmax i r k : 0 <= bmax -> row_bd bmax i r -> cell_bd bmax i (nth k r wdflt).
Proof.
  intros Hb Hr. destruct (Nat.lt_ge_cases k (length r)) as [Hk|Hk].
  - unfold row_bd in Hr. rewrite Forall_forall in Hr. apply Hr, nth_In, Hk.
  - rewrite nth_overflow by exact Hk. apply cell_bd_dflt, Hb.
Qed.

(* ---------- one cell: every value the loop body computes ---------- *)

(* Go names:  s2 | s1 = Hdiag+scoreMatch | consecutive = Cdiag+1 | b = Bsub[off] | fb |
   Max16(bonusConsecutive, fb) | Max16(b, ..) | s1+b (the comparison) | s1+Bsub[off] | final s1 |
   final consecutive | Max16(s1, s2) | score.   When pchar <> char: s1 = 0, consecutive = 0. *)
Definition wstep_trace (pchar : Z) (T B : list Z) (col : nat) (d : wcell) (hleft : Z) (inGap : bool) : list Z :=
  let s2 := hleft + (if inGap then scoreGapExt else scoreGapStart) in
  if pchar =? zn T col then
    let b0 := zn B col in
    let s1 := w_h d + scoreMatch in
    let cn := w_c d + 1 in
    let fb := zn B (Z.to_nat (Z.of_nat col - cn + 1)) in
    let bc := if 1 <? cn then
                if (bonusBoundary <=? b0) && (fb <? b0) then (b0, 1)
                else (Z.max b0 (Z.max bonusConsecutive fb), cn)
              else (b0, cn) in
    let r := if s1 + fst bc <? s2 then (s1 + b0, 0) else (s1 + fst bc, snd bc) in
    [s2; s1; cn; b0; fb; Z.max bonusConsecutive fb; Z.max b0 (Z.max bonusConsecutive fb); fst bc; snd bc;
     s1 + fst bc; s1 + b0; fst r; snd r; Z.max (fst r) s2; Z.max (Z.max (fst r) s2) 0]
  else [s2; 0; Z.max 0 s2; Z.max (Z.max 0 s2) 0].

(* the trace really contains what [wstep] stores *)
Lemma wstep_trace_covers pchar T B col d hleft inGap :
  In (w_h (wstep pchar T B col d hleft inGap)) (wstep_trace pchar T B col d hleft inGap) /\
  In (w_c (wstep pchar T B col d hleft inGap)) (wstep_trace pchar T B col d hleft inGap).
Proof.
  unfold wstep, wstep_trace. cbv zeta. cbn [w_h w_c].
  destruct (pchar =? zn T col).
  - split.
    + do 14 right. left. reflexivity.
    + do 12 right. left. reflexivity.
  - cbn [fst snd]. split.
    + do 3 right. left. reflexivity.
    + right. left. reflexivity.
Qed.

(* item (b): one cell of row i+1 from a bounded diagonal cell of row i and a bounded left value *)
Lemma wstep_bounded bmax i pchar T B col d hleft inGap :
  bonusConsecutive <= bmax -> bonus_bd bmax B ->
  cell_bd bmax i d -> 0 <= hleft <= hb bmax (S i) ->
  cell_bd bmax (S i) (wstep pchar T B col d hleft inGap) /\
  Forall (fun v => -3 <= v <= hb bmax (S i)) (wstep_trace pchar T B col d hleft inGap).
Proof.
  intros Hc HB [Hh Hcc] Hl.
  assert (Hb0 : 0 <= bmax) by (unfold bonusConsecutive in Hc; lia).
  pose proof (zn_bd bmax B col Hb0 HB) as Hb.
  pose proof (zn_bd bmax B (Z.to_nat (Z.of_nat col - (w_c d + 1) + 1)) Hb0 HB) as Hf.
  pose proof (hb_nonneg bmax i Hb0) as Hn.
  pose proof (cb_le_hb bmax i Hb0) as Hcb.
  unfold cell_bd, wstep, wstep_trace. cbv zeta. cbn [w_h w_c].
  rewrite hb_S in Hl |- *. unfold cb in *. rewrite Nat2Z.inj_succ.
  set (b0 := zn B col) in *.
  set (fb := zn B (Z.to_nat (Z.of_nat col - (w_c d + 1) + 1))) in *.
  set (X := hb bmax i) in *.
  unfold scoreMatch, scoreGapExt, scoreGapStart, bonusConsecutive, bonusBoundary in *.
  destruct (pchar =? zn T col).
  - destruct (1 <? w_c d + 1) eqn:E1.
    + destruct ((8 <=? b0) && (fb <? b0)) eqn:E2; cbn [fst snd].
      * destruct (w_h d + 16 + b0 <? _) eqn:E3; cbn [fst snd]; destruct inGap;
          (split; [lia|repeat constructor; lia]).
      * destruct (w_h d + 16 + Z.max b0 (Z.max 4 fb) <? _) eqn:E3; cbn [fst snd]; destruct inGap;
          (split; [lia|repeat constructor; lia]).
    + cbn [fst snd].
      destruct (w_h d + 16 + b0 <? _) eqn:E3; cbn [fst snd]; destruct inGap;
        (split; [lia|repeat constructor; lia]).
  - cbn [fst snd]. destruct inGap; (split; [lia|repeat constructor; lia]).
Qed.

(* item 2, with the bounds written out *)
Theorem wstep_intermediates_bounded_proof : forall bmax i pchar T B col d hleft inGap,
  4 <= bmax -> Forall (fun b => 0 <= b <= bmax) B ->
  0 <= w_h d <= hb bmax i -> 0 <= w_c d <= Z.of_nat i + 1 -> 0 <= hleft <= hb bmax (S i) ->
  let c := wstep pchar T B col d hleft inGap in
  let tr := wstep_trace pchar T B col d hleft inGap in
  0 <= w_h c <= hb bmax (S i) /\ 0 <= w_c c <= Z.of_nat i + 2 /\
  Forall (fun v => -3 <= v <= hb bmax (S i)) tr /\ In (w_h c) tr /\ In (w_c c) tr.
Proof.
  intros bmax i pchar T B col d hleft inGap H4 HB Hh Hc Hl c tr.
  destruct (wstep_bounded bmax i pchar T B col d hleft inGap H4 HB (conj Hh Hc) Hl) as [[A1 A2] A3].
  destruct (wstep_trace_covers pchar T B col d hleft inGap) as [A4 A5].
  unfold cb in A2. rewrite Nat2Z.inj_succ in A2. subst c tr.
  split; [exact A1|]. split; [lia|]. split; [exact A3|]. split; assumption.
Qed.

(* ---------- one row ---------- *)

Fixpoint win_row_go_trace (pchar : Z) (T B : list Z) (fprev : nat) (prow : list wcell)
         (n : nat) (col : nat) (hleft : Z) (inGap : bool) : list Z :=
  match n with
  | O => []
  | S n' =>
      let d := nth (col - 1 - fprev) prow wdflt in
      let c := wstep pchar T B col d hleft inGap in
      wstep_trace pchar T B col d hleft inGap ++ win_row_go_trace pchar T B fprev prow n' (S col) (w_h c) (w_g c)
  end.

Definition win_row_trace (pchar : Z) (T B : list Z) (fprev : nat) (prow : list wcell) (f lastIdx : nat) : list Z :=
  win_row_go_trace pchar T B fprev prow (lastIdx + 1 - f) f 0 false.

Lemma win_row_go_bounded bmax i pchar T B fprev prow :
  bonusConsecutive <= bmax -> bonus_bd bmax B -> row_bd bmax i prow ->
  forall n col hleft inGap, 0 <= hleft <= hb bmax (S i) ->
  row_bd bmax (S i) (win_row_go pchar T B fprev prow n col hleft inGap) /\
  Forall (fun v => -3 <= v <= hb bmax (S i)) (win_row_go_trace pchar T B fprev prow n col hleft inGap).
Proof.
  intros Hc HB Hp.
  assert (Hb0 : 0 <= bmax) by (unfold bonusConsecutive in Hc; lia).
  induction n as [|n IH]; intros col hleft inGap Hl; cbn [win_row_go win_row_go_trace].
  - split; constructor.
  - set (d := nth (col - 1 - fprev) prow wdflt).
    destruct (wstep_bounded bmax i pchar T B col d hleft inGap Hc HB (row_bd_nth bmax i prow _ Hb0 Hp) Hl) as [Hcell Htr].
    destruct (IH (S col) (w_h (wstep pchar T B col d hleft inGap)) (w_g (wstep pchar T B col d hleft inGap))
                 (proj1 Hcell)) as [Hrow Htr'].
    split; [constructor; assumption|].
    apply Forall_app. split; assumption.
Qed.

Lemma win_row_bounded bmax i pchar T B fprev prow f lastIdx :
  bonusConsecutive <= bmax -> bonus_bd bmax B -> row_bd bmax i prow ->
  row_bd bmax (S i) (win_row pchar T B fprev prow f lastIdx) /\
  Forall (fun v => -3 <= v <= hb bmax (S i)) (win_row_trace pchar T B fprev prow f lastIdx).
Proof.
  intros Hc HB Hp. unfold win_row, win_row_trace.
  apply (win_row_go_bounded bmax i pchar T B fprev prow Hc HB Hp).
  assert (Hb0 : 0 <= bmax) by (unfold bonusConsecutive in Hc; lia).
  pose proof (hb_nonneg bmax (S i) Hb0). lia.
Qed.

(* ---------- all rows ---------- *)

Fixpoint win_rows_trace (T B : list Z) (lastIdx : nat) (fprev : nat) (prow : list wcell)
         (Fsub : list nat) (Psub : list Z) : list Z :=
  match Fsub, Psub with
  | f :: Fsub', pchar :: Psub' =>
      let r := win_row pchar T B fprev prow f lastIdx in
      win_row_trace pchar T B fprev prow f lastIdx ++ win_rows_trace T B lastIdx f r Fsub' Psub'
  | _, _ => []
  end.

Definition win_matrix_trace (T B H0 C0 : list Z) (F : list nat) (pat : list Z) (lastIdx : nat) : list Z :=
  match F with
  | [] => []
  | f0 :: Fs => win_rows_trace T B lastIdx f0 (win_row0 H0 C0 f0 lastIdx) Fs (tl pat)
  end.

(* rows i+1, i+2, ... : row k of the result obeys the bound of row i+1+k; the temporaries obey the bound
   of the last row *)
Lemma win_rows_bounded_gen bmax T B lastIdx :
  bonusConsecutive <= bmax -> bonus_bd bmax B ->
  forall Fsub Psub fprev prow i, row_bd bmax i prow ->
  (forall k r, nth_error (win_rows T B lastIdx fprev prow Fsub Psub) k = Some r -> row_bd bmax (S i + k) r) /\
  Forall (fun v => -3 <= v <= hb bmax (i + length Fsub)) (win_rows_trace T B lastIdx fprev prow Fsub Psub).
Proof.
  intros Hc HB.
  assert (Hb0 : 0 <= bmax) by (unfold bonusConsecutive in Hc; lia).
  induction Fsub as [|f Fsub IH]; intros Psub fprev prow i Hp.
  - cbn [win_rows win_rows_trace]. split; [intros [|k] r E; discriminate|constructor].
  - destruct Psub as [|pchar Psub].
    { cbn [win_rows win_rows_trace]. split; [intros [|k] r E; discriminate|constructor]. }
    cbn [win_rows win_rows_trace length].
    destruct (win_row_bounded bmax i pchar T B fprev prow f lastIdx Hc HB Hp) as [Hr Ht].
    destruct (IH Psub f (win_row pchar T B fprev prow f lastIdx) (S i) Hr) as [IH1 IH2].
    split.
    + intros [|k] r E; cbn [nth_error] in E.
      * inversion E; subst. rewrite Nat.add_0_r. exact Hr.
      * replace (S i + S k)%nat with (S (S i) + k)%nat by lia. apply IH1. exact E.
    + apply Forall_app. split.
      * eapply Forall_impl; [|exact Ht]. cbn beta. intros v Hv.
        pose proof (hb_mono bmax (S i) (i + S (length Fsub)) Hb0 ltac:(lia)). lia.
      * replace (i + S (length Fsub))%nat with (S i + length Fsub)%nat by lia. exact IH2.
Qed.

Lemma win_rows_length T B lastIdx : forall Fsub Psub fprev prow,
  (length (win_rows T B lastIdx fprev prow Fsub Psub) <= length Fsub)%nat.
Proof.
  induction Fsub as [|f Fsub IH]; intros Psub fprev prow; [cbn; lia|].
  destruct Psub as [|p Psub]; cbn [win_rows length]; [lia|].
  specialize (IH Psub f (win_row p T B fprev prow f lastIdx)). lia.
Qed.

(* row 0 *)
Definition row0_bd (bmax : Z) (H0 C0 : list Z) : Prop :=
  Forall (fun h => 0 <= h <= scoreMatch + 2 * bmax) H0 /\ Forall (fun c => 0 <= c <= 1) C0.

Lemma win_row0_bounded bmax H0 C0 f0 lastIdx : 0 <= bmax -> row0_bd bmax H0 C0 ->
  row_bd bmax 0 (win_row0 H0 C0 f0 lastIdx).
Proof.
  intros Hb [HH HC]. unfold row_bd, win_row0. apply Forall_forall. intros c Hc.
  apply in_map_iff in Hc as (col & <- & _).
  unfold cell_bd. cbn [w_h w_c]. rewrite hb_0. unfold cb. cbn [Z.of_nat].
  split.
  - unfold zn. destruct (Nat.lt_ge_cases col (length H0)) as [Hk|Hk].
    + rewrite Forall_forall in HH. apply HH, nth_In, Hk.
    + rewrite nth_overflow by exact Hk. unfold scoreMatch. lia.
  - unfold zn. destruct (Nat.lt_ge_cases col (length C0)) as [Hk|Hk].
    + rewrite Forall_forall in HC. specialize (HC _ (nth_In C0 0 Hk)). cbn beta in HC. lia.
    + rewrite nth_overflow by exact Hk. lia.
Qed.

(* the running maximum *)
Lemma win_best_bounded fwd lo hi : forall row col ms mp,
  lo <= ms <= hi -> Forall (fun c => lo <= w_h c <= hi) row ->
  lo <= fst (win_best fwd row col ms mp) <= hi.
Proof.
  induction row as [|c row IH]; intros col ms mp Hms Hrow; cbn [win_best]; [exact Hms|].
  inversion Hrow as [|? ? Hc Hrow']; subst.
  apply IH; [|exact Hrow'].
  destruct (if fwd then ms <? w_h c else ms <=? w_h c); assumption.
Qed.

Lemma last_Forall {A} (P : A -> Prop) (l : list A) d : P d -> Forall P l -> P (last l d).
Proof.
  intros Hd. induction l as [|a l IH]; intros Hl; cbn [last]; [exact Hd|].
  inversion Hl as [|? ? Ha Hl']; subst. destruct l as [|b l]; [exact Ha|]. apply IH. exact Hl'.
Qed.

(* ---------- item 1: the whole matrix, its temporaries, the result ---------- *)

Theorem win_rows_bounded_proof : forall bmax T B H0 C0 F pat lastIdx fwd,
  bonusConsecutive <= bmax -> bonus_bd bmax B -> row0_bd bmax H0 C0 ->
  let M := length F in
  let rows := win_matrix T B H0 C0 F pat lastIdx in
  (* (a) row i of the matrix: H in [0, 16(i+1) + bmax(i+2)], C in [0, i+1] *)
  (forall i r, nth_error rows i = Some r ->
     Forall (fun c => 0 <= w_h c <= 16 * (Z.of_nat i + 1) + bmax * (Z.of_nat i + 2) /\
                      0 <= w_c c <= Z.of_nat i + 1) r) /\
  (* hence every cell of every row obeys the bound of the last row *)
  Forall (Forall (fun c => 0 <= w_h c <= 16 * Z.of_nat M + bmax * (Z.of_nat M + 1) /\
                           0 <= w_c c <= Z.of_nat M)) rows /\
  (* (b) every temporary of rows 1 .. M-1 *)
  Forall (fun v => -3 <= v <= 16 * Z.of_nat M + bmax * (Z.of_nat M + 1)) (win_matrix_trace T B H0 C0 F pat lastIdx) /\
  (* the running maximum / final score *)
  0 <= fst (win_result fwd T B H0 C0 F pat lastIdx) <= 16 * Z.of_nat M + bmax * (Z.of_nat M + 1).
Proof.
  intros bmax T B H0 C0 F pat lastIdx fwd Hc HB H0b M rows.
  assert (Hb0 : 0 <= bmax) by (unfold bonusConsecutive in Hc; lia).
  destruct F as [|f0 Fs].
  { subst M rows. cbn [win_matrix win_matrix_trace length].
    split; [intros [|i] r E; discriminate|]. split; [constructor|]. split; [constructor|].
    unfold win_result. cbn [win_matrix last win_best fst Z.of_nat]. lia. }
  pose proof (win_row0_bounded bmax H0 C0 f0 lastIdx Hb0 H0b) as Hr0.
  destruct (win_rows_bounded_gen bmax T B lastIdx Hc HB Fs (tl pat) f0 (win_row0 H0 C0 f0 lastIdx) O Hr0) as [Hrows Htr].
  assert (HM : M = S (length Fs)) by reflexivity.
  assert (Elast : 16 * Z.of_nat M + bmax * (Z.of_nat M + 1) = hb bmax (M - 1)) by (rewrite hb_last by lia; reflexivity).
  assert (Hrow_i : forall i r, nth_error rows i = Some r -> row_bd bmax i r).
  { intros [|i] r E; subst rows; cbn [win_matrix nth_error] in E.
    - inversion E; subst. exact Hr0.
    - apply (Hrows i r E). }
  assert (Hlen : (length rows <= M)%nat).
  { subst rows. cbn [win_matrix length]. pose proof (win_rows_length T B lastIdx Fs (tl pat) f0 (win_row0 H0 C0 f0 lastIdx)). lia. }
  assert (Hall : Forall (row_bd bmax (M - 1)) rows).
  { apply Forall_forall. intros r Hr. apply In_nth_error in Hr as (i & Ei).
    assert (i < length rows)%nat by (apply nth_error_Some; congruence).
    apply (row_bd_mono bmax i (M - 1) r Hb0 ltac:(lia)). apply Hrow_i. exact Ei. }
  split; [|split; [|split]].
  - intros i r E. specialize (Hrow_i i r E). unfold row_bd in Hrow_i.
    eapply Forall_impl; [|exact Hrow_i]. unfold cell_bd, hb, cb, scoreMatch. tauto.
  - eapply Forall_impl; [|exact Hall]. intros r Hr. unfold row_bd in Hr.
    eapply Forall_impl; [|exact Hr]. intros c [A1 A2]. rewrite Elast. unfold cb in A2. split; [exact A1|lia].
  - rewrite Elast. unfold win_matrix_trace. replace (M - 1)%nat with (0 + length Fs)%nat by lia. exact Htr.
  - rewrite Elast. unfold win_result. fold rows.
    apply win_best_bounded; [pose proof (hb_nonneg bmax (M - 1) Hb0); lia|].
    assert (Hl : row_bd bmax (M - 1) (last rows [])) by (apply last_Forall; [constructor|exact Hall]).
    unfold row_bd in Hl. eapply Forall_impl; [|exact Hl]. intros c [A _]. exact A.
Qed.

Print Assumptions wstep_intermediates_bounded_proof.
Print Assumptions win_rows_bounded_proof.
