(* C03, phase 3 of FuzzyMatchV2 as a PURE list computation ("window DP").

   [win_row] / [win_rows] restate [p3_row] / [p3_rows] of model/AlgoModel.v without the flat
   scratch memory: row i is the list of cells of window columns F[i] .. lastIdx, computed from
   row i-1 (which covers F[i-1] .. lastIdx).  Correspondence with the model, for the refinement
   proof (flat memory -> lists):

     p3_row  ... row width f0 pchar n col inGap ms mp          win_row_go pchar T B fprev prow n col hleft inGap
     ---------------------------------------------------       -------------------------------------------------
     mget H (row + (col-f0) - 1)            (hleft)            the [hleft] argument (0 for the first cell of a row:
                                                               p3_rows writes Hleft[0] = 0 before calling p3_row;
                                                               afterwards the H value of the previous cell)
     mget H (row + (col-f0) - 1 - width)    (hdiag)            w_h (nth (col - 1 - fprev) prow wdflt)
     mget C (row + (col-f0) - 1 - width)    (cdiag)            w_c (nth (col - 1 - fprev) prow wdflt)
     zget T col, zget B col, zget B (col - cn + 1)             zn T col, zn B col, zn B (Z.to_nat (col - cn + 1))
     mset C (row + (col-f0)) (snd r)                           w_c of the produced cell
     mset H (row + (col-f0)) score                             w_h of the produced cell
     next inGap = (s1 <? s2)                                   w_g of the produced cell (threaded as [inGap])
     maxScore / maxPos (only when lastrow)                     [win_best] over the last row, from (0, 0)

   i.e. cell k of [win_row .. f lastIdx] is the (H, C) pair the model stores at flat index
   pidx*width + (f + k - f0).  Row 0 is H0/C0 restricted to F[0] .. lastIdx ([put_row] of the segments).
   For M >= 2 phase 2 leaves p2_maxScore = 0 and p2_maxPos = 0 (m1 = false), which is where
   [win_best] starts. *)
From Fzf Require Import Prelude AlgoSpec AlgoModel V2Facts.
Open Scope Z_scope.

Record wcell := mkW { w_h : Z; w_c : Z; w_g : bool }.
Definition wdflt := mkW 0 0 false.

(* one cell: exactly the arithmetic of the body of p3_row *)
Definition wstep (pchar : Z) (T B : list Z) (col : nat) (d : wcell) (hleft : Z) (inGap : bool) : wcell :=
  let s2 := hleft + (if inGap then scoreGapExt else scoreGapStart) in
  let r := if pchar =? zn T col then
             let b0 := zn B col in
             let s1 := w_h d + scoreMatch in
             let cn := w_c d + 1 in
             let bc := if 1 <? cn then
                         let fb := zn B (Z.to_nat (Z.of_nat col - cn + 1)) in
                         if (bonusBoundary <=? b0) && (fb <? b0) then (b0, 1)
                         else (Z.max b0 (Z.max bonusConsecutive fb), cn)
                       else (b0, cn) in
             if s1 + fst bc <? s2 then (s1 + b0, 0) else (s1 + fst bc, snd bc)
           else (0, 0) in
  let s1 := fst r in
  mkW (Z.max (Z.max s1 s2) 0) (snd r) (s1 <? s2).

(* columns col, col+1, ... (n of them); [prow] is the previous row, whose first cell is column [fprev] *)
Fixpoint win_row_go (pchar : Z) (T B : list Z) (fprev : nat) (prow : list wcell)
         (n : nat) (col : nat) (hleft : Z) (inGap : bool) : list wcell :=
  match n with
  | O => []
  | S n' =>
      let d := nth (col - 1 - fprev) prow wdflt in
      let c := wstep pchar T B col d hleft inGap in
      c :: win_row_go pchar T B fprev prow n' (S col) (w_h c) (w_g c)
  end.

(* row for pattern character [pchar], columns f .. lastIdx; Hleft[0] = 0, inGap = false *)
Definition win_row (pchar : Z) (T B : list Z) (fprev : nat) (prow : list wcell) (f lastIdx : nat) : list wcell :=
  win_row_go pchar T B fprev prow (lastIdx + 1 - f) f 0 false.

(* row 0: H0 / C0 of phase 2, columns f0 .. lastIdx (the gap flag of a row-0 cell is never read) *)
Definition win_row0 (H0 C0 : list Z) (f0 lastIdx : nat) : list wcell :=
  map (fun col => mkW (zn H0 col) (zn C0 col) false) (seq f0 (lastIdx + 1 - f0)).

(* rows 1 .. M-1, like p3_rows: Fsub = F[1:], Psub = pattern[1:] *)
Fixpoint win_rows (T B : list Z) (lastIdx : nat) (fprev : nat) (prow : list wcell)
         (Fsub : list nat) (Psub : list Z) : list (list wcell) :=
  match Fsub, Psub with
  | f :: Fsub', pchar :: Psub' =>
      let r := win_row pchar T B fprev prow f lastIdx in
      r :: win_rows T B lastIdx f r Fsub' Psub'
  | _, _ => []
  end.

(* all M rows *)
Definition win_matrix (T B H0 C0 : list Z) (F : list nat) (pat : list Z) (lastIdx : nat) : list (list wcell) :=
  match F with
  | [] => []
  | f0 :: Fs => let r0 := win_row0 H0 C0 f0 lastIdx in r0 :: win_rows T B lastIdx f0 r0 Fs (tl pat)
  end.

(* running maximum over the last row: the [better] logic of p3_row *)
Fixpoint win_best (fwd : bool) (row : list wcell) (col : nat) (maxScore : Z) (maxPos : nat) : Z * nat :=
  match row with
  | [] => (maxScore, maxPos)
  | c :: r =>
      let score := w_h c in
      let better := if fwd then maxScore <? score else maxScore <=? score in
      win_best fwd r (S col) (if better then score else maxScore) (if better then col else maxPos)
  end.

(* (maxScore, maxPos) of FuzzyMatchV2 for M >= 2, window-relative *)
Definition win_result (fwd : bool) (T B H0 C0 : list Z) (F : list nat) (pat : list Z) (lastIdx : nat) : Z * nat :=
  win_best fwd (last (win_matrix T B H0 C0 F pat lastIdx) []) (last F O) 0 O.
