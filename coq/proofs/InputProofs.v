(* C06 proofs, part 3: filter-mode paths and interactive reload sessions (model/InputModel.v). *)
From Fzf Require Import Prelude RecordSpec ReaderModel ChunkModel InputModel ReaderProofs ChunkProofs.
Open Scope Z_scope.

(* ---- list facts about header diversion and numbering over a stream delivered in pieces ---- *)
Lemma number_from_app : forall (a b : list str) k,
  number_from k (a ++ b) = number_from k a ++ number_from (k + length a) b.
Proof.
  induction a as [|x a IH]; intros b k; cbn [app number_from length].
  - rewrite Nat.add_0_r. reflexivity.
  - rewrite IH. f_equal. f_equal. f_equal. lia.
Qed.

Lemma number_from_length : forall (a : list str) k, length (number_from k a) = length a.
Proof. induction a as [|x a IH]; intro k; cbn; [reflexivity|]. rewrite IH. reflexivity. Qed.

Lemma header_app hl (done b : list str) :
  firstn hl done ++ firstn (hl - length (firstn hl done)) b = firstn hl (done ++ b).
Proof.
  rewrite firstn_app.
  replace (hl - length (firstn hl done))%nat with (hl - length done)%nat by (rewrite firstn_length; lia).
  reflexivity.
Qed.

Lemma items_app hl (done b : list str) :
  items_of hl (done ++ b) =
  items_of hl done ++ number_from (length (skipn hl done)) (skipn (hl - length (firstn hl done)) b).
Proof.
  unfold items_of. rewrite skipn_app, number_from_app. cbn [Nat.add].
  replace (hl - length (firstn hl done))%nat with (hl - length done)%nat by (rewrite firstn_length; lia).
  reflexivity.
Qed.

(* ---- (a) filter mode ---- *)
Lemma build_all_ok hl : forall recs h idx,
  build_all hl (mkB h idx) recs =
  (mkB (h ++ firstn (hl - length h) recs) (idx + length (skipn (hl - length h) recs)),
   number_from idx (skipn (hl - length h) recs)).
Proof.
  induction recs as [|r t IH]; intros h idx.
  - cbn [build_all]. rewrite firstn_nil, skipn_nil, app_nil_r. cbn. rewrite Nat.add_0_r. reflexivity.
  - cbn [build_all]. unfold build. cbn [b_header b_index].
    destruct (Nat.ltb_spec (length h) hl) as [Hlt|Hge].
    + rewrite IH. rewrite app_length. cbn [length].
      destruct (hl - length h)%nat as [|k] eqn:Ek; [lia|].
      replace (hl - (length h + 1))%nat with k by lia.
      cbn [firstn skipn]. rewrite <- app_assoc. reflexivity.
    + rewrite IH. replace (hl - length h)%nat with 0%nat by lia.
      cbn [firstn skipn number_from length]. rewrite !app_nil_r. f_equal. f_equal. lia.
Qed.

Theorem filter_mode_paths_proof : forall bufsz slabsz size o s cuts,
  (1 <= bufsz)%nat -> (1 <= slabsz)%nat -> (1 <= size)%nat -> cuts_ok cuts ->
  filter_run bufsz slabsz size o s cuts =
  Ok (header_of (f_hl o) (split_records (delim_of (f_read0 o)) s),
      filter_listing (f_read0 o) (f_tac o) (f_hl o) (f_tail o) s).
Proof.
  intros bufsz slabsz size o s cuts Hb Hs Hsize Hc. unfold filter_run, filter_run_with.
  destruct (streaming_filter o) eqn:Es.
  - unfold streaming_filter in Es. apply andb_true_iff in Es. destruct Es as [Eo Et]. apply Nat.eqb_eq in Et.
    rewrite feed_chunking_invariant_proof by assumption. cbn [bind].
    rewrite build_all_ok. cbn [length app b_header]. rewrite Nat.sub_0_r.
    rewrite Et. unfold filter_listing, searchable, keep_tail, items_of, header_of.
    unfold streaming_rule_old in Eo. destruct (f_tac o); [|reflexivity].
    destruct (f_sort o); cbn in Eo; discriminate.
  - rewrite pipeline_correct_proof by assumption. cbn [bind fst snd]. reflexivity.
Qed.

(* ---- (b) interactive sessions ---- *)
(* the builder state after ingest is the one build_all computes (ingest_ok does not expose the running index) *)
Lemma ingest_state size hl : forall recs st (cs : @chunklist item) st' cs',
  ingest size hl st cs recs = Ok (st', cs') -> st' = fst (build_all hl st recs).
Proof.
  induction recs as [|r t IH]; intros st cs st' cs' H.
  - cbn in H. inversion H. reflexivity.
  - cbn [ingest build_all] in *. destruct (build hl st r) as [st1 it] eqn:Eb.
    destruct (match it with Some x => push size cs true x | None => push size cs false (O, r) end) as [cs1|e] eqn:Ep;
      cbn [bind] in H; [|discriminate].
    apply IH in H. destruct (build_all hl st1 t) as [st2 its]. exact H.
Qed.

Lemma suffix_ok_app {B} T : forall (b P l : list B), suffix_ok T P l -> suffix_ok T (P ++ b) (l ++ b).
Proof.
  intros b P l (k & -> & Hk). exists k. split.
  - rewrite skipn_app. destruct Hk as [-> | [_ Hk]]; [reflexivity|].
    replace (k - length P)%nat with 0%nat by lia. reflexivity.
  - rewrite app_length. lia.
Qed.

Section Session.
Variable size hl tail : nat.
Hypothesis Hsize : (1 <= size)%nat.

(* after the records `done` of the current stream have reached the builder *)
Definition cinv (done : list str) (st : cstate) : Prop :=
  chunklist_inv size (c_cs st) /\
  c_b st = mkB (firstn hl done) (length (skipn hl done)) /\
  suffix_ok tail (items_of hl done) (concat (c_cs st)).

Lemma ingest_cinv done st b : cinv done st ->
  exists bst cs', ingest size hl (c_b st) (c_cs st) b = Ok (bst, cs') /\
    cinv (done ++ b) (mkC bst cs' (c_snap st) (c_keep st)).
Proof.
  intros (Hi & Hb & Hs). destruct st as [bs cs snap keep]. cbn [c_b c_cs c_snap c_keep] in *. subst bs.
  destruct (ingest_ok size hl Hsize b (firstn hl done) (length (skipn hl done)) cs Hi)
    as (bst & cs' & Hing & Hi' & _ & Hc').
  exists bst, cs'. split; [exact Hing|]. unfold cinv. cbn [c_b c_cs].
  split; [exact Hi'|]. split.
  - rewrite (ingest_state _ _ _ _ _ _ _ Hing), build_all_ok. cbn [fst]. f_equal.
    + apply header_app.
    + rewrite skipn_app, app_length.
      replace (hl - length (firstn hl done))%nat with (hl - length done)%nat by (rewrite firstn_length; lia).
      reflexivity.
  - rewrite Hc', items_app. apply suffix_ok_app. exact Hs.
Qed.

Lemma read_new_cinv done st : cinv done st -> c_keep st = false ->
  exists st', on_read_new size tail st = Ok st' /\ cinv done st' /\ c_keep st' = false /\
    c_snap st' = keep_tail tail (items_of hl done).
Proof.
  intros (Hi & Hb & Hs) Hk. unfold on_read_new. rewrite Hk.
  destruct (snapshot_ok size Hsize tail (c_cs st) Hi) as (cs' & -> & Hi' & Hc'). cbn [bind].
  eexists. split; [reflexivity|]. unfold cinv. cbn [c_b c_cs c_snap c_keep].
  split; [|split; [reflexivity|]].
  - split; [exact Hi'|]. split; [exact Hb|]. rewrite Hc'. apply (suffix_ok_snap size Hsize). exact Hs.
  - rewrite Hc'. apply (suffix_ok_keep size Hsize). exact Hs.
Qed.

Lemma read_new_keep done st : cinv done st -> c_keep st = true ->
  on_read_new size tail st = Ok st.
Proof. intros _ Hk. unfold on_read_new. rewrite Hk. reflexivity. Qed.

(* whatever the batches and whether or not the old snapshot is kept meanwhile: after EvtReadFin the list on
   display is the last `tail` items of the whole stream *)
Lemma run_batches_ok : forall news recs done st, cinv done st ->
  exists st', run_batches size hl tail st recs news = Ok st' /\
    c_snap st' = keep_tail tail (items_of hl (done ++ recs)).
Proof.
  induction news as [|k news IH]; intros recs done st H; cbn [run_batches].
  - destruct (ingest_cinv done st recs H) as (bst & cs' & -> & H'). cbn [bind fst snd].
    unfold on_read_fin. cbn [c_b c_cs c_snap].
    assert (H'' : cinv (done ++ recs) (mkC bst cs' (c_snap st) false)).
    { destruct H' as (A1 & A2 & A3). split; [exact A1|]. split; [exact A2|exact A3]. }
    destruct (read_new_cinv _ _ H'' eq_refl) as (st' & -> & _ & _ & Hv).
    exists st'. auto.
  - destruct (ingest_cinv done st (firstn k recs) H) as (bst & cs' & -> & H'). cbn [bind fst snd].
    destruct (c_keep st) eqn:Ek.
    + rewrite (read_new_keep _ _ H' eq_refl). cbn [bind].
      destruct (IH (skipn k recs) _ _ H') as (st' & -> & Hv).
      exists st'. split; [reflexivity|]. rewrite Hv, <- app_assoc, firstn_skipn. reflexivity.
    + destruct (read_new_cinv _ _ H' eq_refl) as (st1 & -> & H1 & _ & _). cbn [bind].
      destruct (IH (skipn k recs) _ _ H1) as (st' & -> & Hv).
      exists st'. split; [reflexivity|]. rewrite Hv, <- app_assoc, firstn_skipn. reflexivity.
Qed.

Lemma restart_cinv st sync : cinv [] (restart st sync).
Proof.
  unfold cinv, restart. cbn [c_b c_cs]. split; [apply inv_nil|]. rewrite firstn_nil, skipn_nil.
  split; [reflexivity|]. exists 0%nat. unfold items_of. rewrite skipn_nil. cbn. auto.
Qed.

End Session.

Theorem reload_session_numbering_proof : forall bufsz slabsz size read0 hl tail (ls : list load) st,
  (1 <= bufsz)%nat -> (1 <= slabsz)%nat -> (1 <= size)%nat ->
  Forall (fun l => cuts_ok (l_cuts l)) ls ->
  run_session bufsz slabsz size read0 hl tail st ls =
  Ok (session_views read0 hl tail (map l_stream ls)).
Proof.
  intros bufsz slabsz size read0 hl tail ls st Hb Hs Hsize. revert st.
  induction ls as [|l ls IH]; intros st Hc; [reflexivity|].
  inversion Hc as [|? ? Hl Hc']; subst. cbn [run_session map session_views]. unfold run_load.
  rewrite feed_chunking_invariant_proof by assumption. cbn [bind].
  destruct (run_batches_ok size hl tail Hsize (l_news l) (split_records (delim_of read0) (l_stream l)) []
              (restart st (l_sync l)) (restart_cinv size hl tail st (l_sync l))) as (st' & -> & Hv).
  cbn [bind]. rewrite (IH st' Hc'). cbn [bind]. rewrite Hv. reflexivity.
Qed.
