(* C13 / C08 proofs about model/MatcherModel.v.

   Standing assumptions, all explicit (Section hypotheses, generalised in every theorem):
   - `content id`: the items of a FULL chunk with that identity (ChunkStoreProofs.full_never_mutated:
     a full cell is never written again, ids are never reused) - a request may carry a full chunk
     only with these items (`chunk_ok`);
   - `monotone`: a query whose cache key has the cached query's key as a proper prefix/suffix matches a
     subset of what the cached query matches (same cache generation) - C08's term_monotone;
   - `key_determines`: two cacheable patterns of one generation with the same cache key match alike. *)
From Fzf Require Import Prelude SearchSpec ChunkStoreModel CacheModel MatcherModel ChunkStoreProofs CacheProofs.
From Coq Require Import Permutation.
Open Scope Z_scope.

Section ListFacts2.
  Context {A B : Type}.
  Lemma Forall2_get (R : A -> B -> Prop) l1 l2 i w : Forall2 R l1 l2 -> get l2 i = Ok w ->
    exists a, get l1 i = Ok a /\ R a w.
  Proof.
    intro H; revert i; induction H as [|a b l1 l2 Hab H IH]; intros [|i] Hg; cbn in *; try discriminate.
    - inversion Hg; subst. eauto.
    - eauto.
  Qed.
  Lemma Forall2_set (R : A -> B -> Prop) l1 l2 i a w' l2' : Forall2 R l1 l2 -> get l1 i = Ok a -> R a w' ->
    set_nth l2 i w' = Ok l2' -> Forall2 R l1 l2'.
  Proof.
    intro H; revert i l2'; induction H as [|a0 b l1 l2 Hab H IH]; intros [|i] l2' Hg Hr Hs; cbn in *; try discriminate.
    - inversion Hg; inversion Hs; subst. now constructor.
    - bind_inv Hs. inversion Hs; subst. constructor; eauto.
  Qed.
End ListFacts2.

Section MP.
  Context {item pat : Type}.
  Variable E : penv item pat.
  Variable content : nat -> list item.
  Local Notation matchf := (e_matchf E).
  Local Notation ckey := (e_ckey E).
  Local Notation pkey := (e_pkey E).
  Local Notation pgen := (e_pgen E).
  Local Notation pcacheable := (e_cacheable E).
  Local Notation result := (@result item).
  Local Notation chunk := (@chunk item).
  Local Notation ccache := (@ccache item).

  Definition sub_query (p' p : pat) : Prop :=
    pgen p' = pgen p /\ pcacheable p = true /\ affix (ckey p) (ckey p').
  Definition monotone : Prop :=
    forall p' p x, sub_query p' p -> matchf p' x <> None -> matchf p x <> None.
  Definition key_determines : Prop :=
    forall p1 p2 x, pgen p1 = pgen p2 -> pcacheable p1 = true -> pcacheable p2 = true ->
                    ckey p1 = ckey p2 -> matchf p1 x = matchf p2 x.
  Definition rules_are_fixed : Prop := e_rules E = rules_fixed.

  Definition chunk_ok (ch : chunk) : Prop := length (snd ch) = chunk_size -> snd ch = content (fst ch).

  (* every entry of the chunk cache is the uncached answer of a cacheable pattern OF THE CURRENT GENERATION
     on a full chunk *)
  Definition cache_inv (c : ccache) : Prop :=
    forall id k l, In (id, k, l) (c_entries c) ->
      length (content id) = chunk_size /\
      exists p, pgen p = c_gen c /\ pcacheable p = true /\ ckey p = k /\ l = match_items E p (content id).

  Lemma cache_inv_new : cache_inv cache_new.
  Proof. intros id k l []. Qed.
  Lemma cache_inv_invalidate c : cache_inv (cache_invalidate c).
  Proof. intros id k l []. Qed.
  Lemma cache_inv_clear c : cache_inv (cache_clear c).
  Proof. intros id k l []. Qed.
  Lemma cache_inv_retire c ids : cache_inv c -> cache_inv (cache_retire c ids).
  Proof. intros H id k l Hin. cbn in Hin. apply filter_In in Hin as [Hin _]. now apply H. Qed.

  Lemma matches_of_ext (p1 p2 : pat) xs : (forall x, matchf p1 x = matchf p2 x) ->
    matches_of matchf p1 xs = matches_of matchf p2 xs.
  Proof. intro H. induction xs as [|x r IH]; cbn; [reflexivity|]. rewrite H, IH. reflexivity. Qed.

  Lemma matches_of_narrow (p' p : pat) xs : (forall x, matchf p' x <> None -> matchf p x <> None) ->
    matches_of matchf p' (map fst (matches_of matchf p xs)) = matches_of matchf p' xs.
  Proof.
    intro H. induction xs as [|x r IH]; cbn; [reflexivity|].
    destruct (matchf p x) as [k|] eqn:Ep; cbn.
    - rewrite IH. reflexivity.
    - destruct (matchf p' x) as [k'|] eqn:Ep'; [|exact IH].
      exfalso. apply (H x); [rewrite Ep'; discriminate | exact Ep].
  Qed.

  (* THEOREM narrowing_sound *)
  Theorem narrowing_sound_proof : forall (c : ccache) (p' : pat) id xs space,
    monotone -> cache_inv c -> pgen p' = c_gen c -> chunk_ok (id, xs) ->
    cache_search c (length xs) id (ckey p') = Some space ->
    match_items E p' (map fst space) = match_items E p' xs.
  Proof.
    intros c p' id xs space Hmono Hinv Hgen Hok Hs.
    destruct (cache_search_spec _ _ _ _ _ _ Hs) as (Hfull & k' & Hin & Haff).
    destruct (Hinv _ _ _ Hin) as (_ & p & Hg & Hc & Hk & ->).
    pose proof (Hok Hfull) as Hx. cbn in Hx. rewrite <- Hx. unfold match_items. apply matches_of_narrow.
    intros x. apply Hmono. repeat split; [congruence | exact Hc | now rewrite Hk].
  Qed.

  Lemma lookup_sound (c : ccache) (p' : pat) id xs l :
    key_determines -> cache_inv c -> pgen p' = c_gen c -> pcacheable p' = true -> chunk_ok (id, xs) ->
    cache_lookup c (length xs) id (ckey p') = Some l -> l = match_items E p' xs.
  Proof.
    intros Hkd Hinv Hgen Hc' Hok Hl.
    destruct (cache_lookup_spec _ _ _ _ _ _ Hl) as (Hfull & Hin).
    destruct (Hinv _ _ _ Hin) as (_ & p & Hg & Hc & Hk & ->).
    pose proof (Hok Hfull) as Hx. cbn in Hx. rewrite <- Hx. unfold match_items. apply matches_of_ext.
    intro x. apply Hkd; congruence.
  Qed.

  Definition gen_ok (p : pat) (c : ccache) : Prop := pgen p = c_gen c \/ c_entries c = [].

  (* Pattern.Match through the cache = matching the whole chunk; the cache invariant survives *)
  Lemma pattern_match_sound (c : ccache) (p : pat) (ch : chunk) :
    rules_are_fixed -> monotone -> key_determines -> cache_inv c -> gen_ok p c -> chunk_ok ch ->
    fst (pattern_match E c p ch) = match_items E p (snd ch) /\
    cache_inv (snd (pattern_match E c p ch)) /\ gen_ok p (snd (pattern_match E c p ch)) /\
    c_gen (snd (pattern_match E c p ch)) = c_gen c.
  Proof.
    intros Hrl Hmono Hkd Hinv Hgen Hok. destruct ch as [id xs]. unfold pattern_match. rewrite Hrl. cbn [rule_gen rules_fixed snd].
    destruct (Nat.eq_dec (pgen p) (c_gen c)) as [Hg|Hg].
    - (* the pattern is of the cache's generation *)
      destruct (pcacheable p) eqn:Hc.
      + destruct (cache_lookup c (length xs) id (ckey p)) as [l|] eqn:Hl.
        * cbn. split; [eapply lookup_sound; eauto|]. split; [exact Hinv | split; [exact Hgen | reflexivity]].
        * assert (Hms : match cache_search c (length xs) id (ckey p) with
                        | Some space => match_items E p (map fst space) | None => match_items E p xs end
                        = match_items E p xs).
          { destruct (cache_search c (length xs) id (ckey p)) as [sp|] eqn:Hs; [|reflexivity].
            eapply narrowing_sound_proof; eauto. }
          cbn [fst snd].
          replace (match cache_search c (length xs) id (ckey p) with
                   | Some space => match_items E p (map fst space) | None => match_items E p xs end)
            with (match_items E p xs)
            by (symmetry; destruct (cache_search c (length xs) id (ckey p)); exact Hms).
          split; [reflexivity|].
          destruct (cache_add_gen_spec _ (Some (pgen p)) c (length xs) id (ckey p) (match_items E p xs)) as [Hgen' Hent].
          unfold cache_add_rule. split; [|split; [left; congruence | exact Hgen']].
          intros id' k' l' Hin. destruct (Hent _ Hin) as [Hold|(Heq & Hfull & _)].
          -- rewrite Hgen'. now apply Hinv.
          -- inversion Heq; subst. specialize (Hok Hfull). cbn in Hok. subst xs.
             split; [exact Hfull|]. exists p. rewrite Hgen'. auto.
      + cbn [fst snd].
        split; [|split; [exact Hinv | split; [exact Hgen | reflexivity]]].
        destruct (cache_search c (length xs) id (ckey p)) as [sp|] eqn:Hs; [|reflexivity].
        eapply narrowing_sound_proof; eauto.
    - (* a stale pattern: by gen_ok the cache is empty, nothing is found and nothing is added *)
      destruct Hgen as [Hgen|Hempty]; [contradiction|].
      rewrite (cache_lookup_empty _ c _ _ _ Hempty), (cache_search_empty _ c _ _ _ Hempty).
      assert (Hadd : cache_add_rule true (pgen p) c (length xs) id (ckey p) (match_items E p xs) = c)
        by (apply stale_add_ignored_cache_proof; exact Hg).
      destruct (pcacheable p); cbn [fst snd]; rewrite ?Hadd; (split; [reflexivity | split; [exact Hinv | split; [right; exact Hempty | reflexivity]]]).
  Qed.

  (* THEOREM stale_add_ignored: a pattern built before the last Invalidate leaves the cache exactly as it is *)
  Theorem stale_add_ignored_proof : forall (c : ccache) (p : pat) (ch : chunk),
    rules_are_fixed -> pgen p <> c_gen c -> snd (pattern_match E c p ch) = c.
  Proof.
    intros c p [id xs] Hrl Hg. unfold pattern_match. rewrite Hrl. cbn [rule_gen rules_fixed].
    destruct (pcacheable p); [|destruct (cache_search _ _ _ _); reflexivity].
    destruct (cache_lookup c (length xs) id (ckey p)); [reflexivity|].
    cbn [snd]. unfold cache_add_rule. now apply stale_add_ignored_cache_proof.
  Qed.

  (* ---------- sliceChunks ---------- *)
  Lemma slice_go_SS {A} per k (l : list A) :
    slice_go per (S (S k)) l = firstn per l :: slice_go per (S k) (skipn per l).
  Proof. reflexivity. Qed.

  Lemma slice_go_concat {A} per k (l : list A) : (1 <= k)%nat -> concat (slice_go per k l) = l.
  Proof.
    revert l; induction k as [|k IH]; intros l Hk; [lia|].
    destruct k as [|k']; [cbn; now rewrite app_nil_r|].
    rewrite slice_go_SS. cbn [concat]. rewrite IH by lia. apply firstn_skipn.
  Qed.

  Lemma slice_concat {A} (l : list A) : concat (slice_chunks E l) = l.
  Proof.
    unfold slice_chunks. destruct (Nat.eqb (length l / e_parts E) 0) eqn:Ep.
    - destruct l as [|a l]; [reflexivity|]. apply slice_go_concat. cbn. lia.
    - apply slice_go_concat. apply Nat.eqb_neq in Ep.
      destruct (e_parts E); [cbn in Ep; congruence | lia].
  Qed.

  Lemma slice_go_map {A B} (f : A -> B) per k : forall l, slice_go per k (map f l) = map (map f) (slice_go per k l).
  Proof.
    induction k as [|k IH]; intro l; [reflexivity|].
    destruct k as [|k']; [reflexivity|].
    rewrite !slice_go_SS. cbn [map]. rewrite firstn_map, skipn_map, IH. reflexivity.
  Qed.

  Lemma slice_map {A B} (f : A -> B) (l : list A) : slice_chunks E (map f l) = map (map f) (slice_chunks E l).
  Proof. unfold slice_chunks. rewrite map_length. destruct (Nat.eqb _ 0); apply slice_go_map. Qed.

  Lemma slice_In {A} (l : list A) part x : In part (slice_chunks E l) -> In x part -> In x l.
  Proof.
    intros Hp Hx. rewrite <- (slice_concat l). apply in_concat. eauto.
  Qed.

  (* ---------- scan as a transition system ---------- *)
  Section Scan.
    Variable p : pat.
    Variable sorted : bool.
    Hypothesis Hrl : rules_are_fixed.
    Hypothesis Hmono : monotone.
    Hypothesis Hkd : key_determines.

    Definition spec_part (part : list chunk) : list (list result) :=
      map (fun ch => match_items E p (snd ch)) part.

    Definition winv (part : list chunk) (w : @worker item) : Prop :=
      match w_st w with
      | WRun => w_acc w ++ spec_part (w_todo w) = spec_part part /\ Forall chunk_ok (w_todo w)
      | WDone out => out = finish E sorted (spec_part part)
      | WAbort => True
      end.

    Definition phase_ok (parts : list (list chunk)) (st : @sstate item pat) : Prop :=
      match s_phase st with
      | PRet (Some outs) => outs = map (fun part => finish E sorted (spec_part part)) parts
      | PRet None => box_has_reset (s_box st) = true
      | PCancel => box_has_reset (s_box st) = true
      | _ => True
      end.

    Definition sinv (parts : list (list chunk)) (st : @sstate item pat) : Prop :=
      cache_inv (s_cache st) /\ gen_ok p (s_cache st) /\ Forall2 winv parts (s_ws st) /\ phase_ok parts st.

    Lemma all_done_spec parts ws outs : Forall2 winv parts ws -> all_done ws = Some outs ->
      outs = map (fun part => finish E sorted (spec_part part)) parts.
    Proof.
      intro H; revert outs; induction H as [|part w parts ws Hw H IH]; intros outs Hd; cbn in Hd.
      - now inversion Hd.
      - unfold winv in Hw. destruct (w_st w) as [|out|]; try discriminate.
        fold (all_done ws) in Hd. destruct (all_done ws) as [l|]; [|discriminate].
        inversion Hd; subst. cbn. f_equal. now apply IH.
    Qed.

    Lemma mk_sinv parts c ws tot sent recv canc bx ph :
      cache_inv c -> gen_ok p c -> Forall2 winv parts ws -> phase_ok parts (mkS c ws tot sent recv canc bx ph) ->
      sinv parts (mkS c ws tot sent recv canc bx ph).
    Proof. intros; split; [|split; [|split]]; assumption. Qed.

    Lemma work_inv parts st i : sinv parts st -> sinv parts (work E p sorted st i).
    Proof.
      intros H. pose proof H as (Hc & Hg & Hws & Hph). unfold work.
      destruct (get (s_ws st) i) as [w|] eqn:Hgw; [|exact H].
      destruct (Forall2_get _ _ _ _ _ Hws Hgw) as (part & Hgp & Hw).
      destruct (w_st w) eqn:Hst; try exact H.
      unfold winv in Hw. rewrite Hst in Hw. destruct Hw as [Hacc Hok].
      destruct (w_todo w) as [|ch rest] eqn:Htodo.
      - destruct (set_nth (s_ws st) i _) as [ws'|] eqn:Hs; [|exact H].
        apply mk_sinv; auto.
        eapply Forall2_set; eauto. unfold winv. cbn [w_st].
        cbn in Hacc. rewrite app_nil_r in Hacc. now rewrite Hacc.
      - inversion Hok as [|? ? Hch Hrest]; subst.
        destruct (pattern_match_sound (s_cache st) p ch Hrl Hmono Hkd Hc Hg Hch) as (Hms & Hc' & Hg' & _).
        destruct (pattern_match E (s_cache st) p ch) as [ms c'] eqn:Hpm. cbn [fst snd] in *. subst ms.
        destruct (s_cancelled st).
        + destruct (set_nth (s_ws st) i _) as [ws'|] eqn:Hs; [|exact H].
          apply mk_sinv; auto.
          eapply Forall2_set; eauto. unfold winv. cbn [w_st]. exact I.
        + destruct (set_nth (s_ws st) i _) as [ws'|] eqn:Hs; [|exact H].
          apply mk_sinv; auto.
          eapply Forall2_set; eauto. unfold winv.
          cbn [spec_part map] in Hacc.
          destruct rest as [|ch2 rest2]; cbn [w_st w_acc w_todo].
          * cbn in Hacc. now rewrite Hacc.
          * split; [|exact Hrest]. rewrite <- app_assoc. exact Hacc.
    Qed.

    Lemma box_post_has_reset (b : @box item pat) cancel r : box_has_reset b = true -> box_has_reset (box_post b cancel r) = true.
    Proof. unfold box_post, box_has_reset. destruct cancel; cbn; auto. Qed.

    Lemma sstep_inv parts st l : sinv parts st -> sinv parts (sstep E p sorted st l).
    Proof.
      intro H. pose proof H as (Hc & Hg & Hws & Hph). destruct l as [i| | | |cancel r|]; cbn [sstep].
      - now apply work_inv.
      - unfold phase_ok in Hph.
        destruct (s_phase st) eqn:Hp; try exact H.
        destruct (Nat.ltb (s_recv st) (s_sent st)); [|exact H].
        destruct (Nat.eqb (S (s_recv st)) (s_total st)); [apply mk_sinv; auto; exact I|].
        destruct (box_has_reset (s_box st)) eqn:Hb; apply mk_sinv; auto; unfold phase_ok; cbn; auto.
      - unfold phase_ok in Hph.
        destruct (s_phase st) eqn:Hp; try exact H.
        destruct (all_done (s_ws st)) as [outs|] eqn:Hd; [|exact H].
        apply mk_sinv; auto. unfold phase_ok. cbn. eapply all_done_spec; eauto.
      - unfold phase_ok in Hph.
        destruct (s_phase st) eqn:Hp; try exact H.
        destruct (none_running (s_ws st)); [|exact H].
        apply mk_sinv; auto.
      - apply mk_sinv; auto.
        unfold phase_ok in *. cbn [s_phase s_box]. destruct (s_phase st) as [| | |[outs|]]; auto using box_post_has_reset.
      - apply mk_sinv; auto; [apply cache_inv_invalidate | right; reflexivity].
    Qed.

    Lemma srun_inv parts sched : forall st, sinv parts st -> sinv parts (srun E p sorted st sched).
    Proof. unfold srun. induction sched as [|l r IH]; intros st H; cbn; [exact H | apply IH, sstep_inv, H]. Qed.

    Lemma sinit_inv (c : ccache) (b : @box item pat) chunks : cache_inv c -> gen_ok p c -> Forall chunk_ok chunks ->
      sinv (slice_chunks E chunks) (sinit E c b chunks).
    Proof.
      intros Hc Hg Hok. split; [exact Hc|]. split; [exact Hg|]. split; [|exact I].
      cbn [sinit s_ws].
      assert (H : forall parts, (forall part, In part parts -> Forall chunk_ok part) ->
                  Forall2 winv parts (map (fun cs => mkW cs [] WRun) parts)).
      { induction parts as [|part r IH]; intro Hp; cbn; constructor.
        - unfold winv. cbn. split; [reflexivity | apply Hp; now left].
        - apply IH. intros; apply Hp; now right. }
      apply H. intros part Hin. rewrite Forall_forall in *. intros x Hx. apply Hok. eapply slice_In; eauto.
    Qed.

    Lemma spec_lists chunks :
      map (fun part => finish E sorted (spec_part part)) (slice_chunks E chunks) = lists_spec E p sorted (map snd chunks).
    Proof.
      unfold lists_spec. rewrite slice_map, map_map. apply map_ext. intro part.
      unfold spec_part. now rewrite map_map.
    Qed.

    (* THEOREM scan_all_or_nothing *)
    Theorem scan_all_or_nothing_proof : forall (c : ccache) (b : @box item pat) chunks sched,
      cache_inv c -> gen_ok p c -> Forall chunk_ok chunks ->
      let st := srun E p sorted (sinit E c b chunks) sched in
      cache_inv (s_cache st) /\ gen_ok p (s_cache st) /\
      match s_phase st with
      | PRet (Some outs) => outs = lists_spec E p sorted (map snd chunks)
      | PRet None => box_has_reset (s_box st) = true
      | _ => True
      end.
    Proof.
      intros c b chunks sched Hc Hg Hok st.
      destruct (srun_inv _ sched _ (sinit_inv c b chunks Hc Hg Hok)) as (Hc' & Hg' & _ & Hph).
      fold st in Hc', Hg', Hph. split; [exact Hc'|]. split; [exact Hg'|].
      unfold phase_ok in Hph. destruct (s_phase st) as [| | |[outs|]]; auto.
      rewrite Hph. apply spec_lists.
    Qed.

    (* nothing is scanned (cached / empty / pass merger): the schedule can only post and invalidate *)
    Lemma sidle_inv (c : ccache) (b : @box item pat) sched : cache_inv c -> gen_ok p c ->
      let st := srun E p sorted (sidle c b) sched in cache_inv (s_cache st) /\ gen_ok p (s_cache st).
    Proof.
      intros Hc Hg st.
      assert (H : sinv [] (sidle c b)) by (split; [exact Hc|]; split; [exact Hg|]; split; [constructor | reflexivity]).
      destruct (srun_inv _ sched _ H) as (Hc' & Hg' & _). auto.
    Qed.
  End Scan.

  (* ---------- Matcher.Loop ---------- *)
  Section Loop.
    Hypothesis Hrl : rules_are_fixed.
    Hypothesis Hmono : monotone.
    Hypothesis Hkd : key_determines.
    Local Notation request := (@request item pat).
    Local Notation merger := (@merger item).
    Local Notation lstate := (@lstate item pat).
    Local Notation mstate := (@mstate item).

    (* a published merger is FRESH for a request: it is the uncached sequential scan of that very request *)
    Definition fresh (r : request) (m : merger) : Prop := m = set_final (scan_spec E r) (r_final r).

    (* what the coordinator guarantees about the requests it sends (core.go): within one revision the input only
       grows, so equal counts mean equal contents; one query string denotes one pattern *)
    Definition coherent (pubs : list (request * merger)) (req : request) : Prop :=
      forall r' m', In (r', m') pubs -> r_rev r' = r_rev req -> req_count r' = req_count req ->
        pkey (r_pat r') = pkey (r_pat req) ->
        r_pat r' = r_pat req /\ map snd (r_chunks r') = map snd (r_chunks req).

    Definition req_ok (st : lstate) (req : request) : Prop :=
      Forall chunk_ok (r_chunks req) /\ coherent (l_pubs st) req /\
      (l_glast st <= pgen (r_pat req))%nat /\ (pgen (r_pat req) <= c_gen (m_cache (l_m st)))%nat.

    Definition mcache_ok (ms : mstate) (pubs : list (request * merger)) : Prop :=
      forall k m, In (k, m) (m_mcache ms) ->
        exists r, In (r, m) pubs /\ pkey (r_pat r) = k /\ r_rev r = m_rev ms /\ r_sort r = m_sort ms /\
                  req_count r = m_prev ms.

    Definition linv (st : lstate) : Prop :=
      cache_inv (m_cache (l_m st)) /\
      (c_entries (m_cache (l_m st)) = [] \/ l_glast st = c_gen (m_cache (l_m st))) /\
      mcache_ok (l_m st) (l_pubs st) /\
      (forall r m, In (r, m) (l_pubs st) -> fresh r m).

    Lemma rev_eqb_eq (a b : revision) : rev_eqb a b = true -> a = b.
    Proof.
      destruct a as [a1 a2], b as [b1 b2]. unfold rev_eqb. cbn. intro H.
      apply andb_true_iff in H as [H1 H2]. apply Z.eqb_eq in H1, H2. now subst.
    Qed.

    Lemma mc_find_In (mc : list (str * merger)) k m : mc_find mc k = Some m -> In (k, m) mc.
    Proof.
      induction mc as [|[k' m'] r IH]; cbn; [discriminate|].
      destruct (str_eqb k' k) eqn:Ek.
      - intro H; inversion H; subst. apply str_eqb_eq in Ek. subst. now left.
      - intro H. right. now apply IH.
    Qed.

    Lemma set_final_twice (m : merger) f g : set_final (set_final m f) g = set_final m g.
    Proof. reflexivity. Qed.

    Lemma scan_spec_eq (r1 r2 : request) : r_pat r1 = r_pat r2 -> map snd (r_chunks r1) = map snd (r_chunks r2) ->
      r_sort r1 = r_sort r2 -> r_rev r1 = r_rev r2 -> scan_spec E r1 = scan_spec E r2.
    Proof. intros H1 H2 H3 H4. unfold scan_spec. now rewrite H1, H2, H3, H4. Qed.

    Lemma scan_spec_cons (req : request) ch0 chs : r_chunks req = ch0 :: chs ->
      scan_spec E req =
      if e_empty E (r_pat req) then mkMerger (MPass (map snd (r_chunks req))) (e_tac E) false (r_rev req)
      else mkMerger (MLists (lists_spec E (r_pat req) (r_sort req && e_sortable E (r_pat req))%bool (map snd (r_chunks req)))
                            (r_sort req && e_sortable E (r_pat req))%bool) (e_tac E) false (r_rev req).
    Proof. intro H. unfold scan_spec. rewrite H. reflexivity. Qed.

    Lemma loop_body_spec (ms ms' : mstate) (b0 b' : @box item pat) (req : request) sched pub (pubs : list (request * merger)) :
      loop_body E ms b0 req sched = Ok (ms', b', pub) ->
      cache_inv (m_cache ms) -> gen_ok (r_pat req) (m_cache ms) -> Forall chunk_ok (r_chunks req) ->
      mcache_ok ms pubs -> (forall r m, In (r, m) pubs -> fresh r m) -> coherent pubs req ->
      cache_inv (m_cache ms') /\ gen_ok (r_pat req) (m_cache ms') /\
      (forall m, pub = Some m -> fresh req m) /\
      mcache_ok ms' (match pub with Some m => (req, m) :: pubs | None => pubs end).
    Proof.
      intros Hb Hc Hg Hok Hmc Hfr Hco. unfold loop_body in Hb.
      destruct (Nat.eqb (e_parts E) 0); [discriminate|].
      set (p := r_pat req) in *.
      set (count := req_count req) in *.
      set (t := mc_decide E ms req) in *.
      (* what the cache bookkeeping decides *)
      assert (Ht : snd t = count /\
                   (forall k m, In (k, m) (snd (fst t)) -> exists r, In (r, m) pubs /\ pkey (r_pat r) = k /\
                        r_rev r = r_rev req /\ r_sort r = r_sort req /\ req_count r = count) /\
                   (forall m, fst (fst t) = Some m -> set_final (scan_spec E req) (r_final req) = m)).
      { subst t. unfold mc_decide. rewrite Hrl. cbn [rule_prev rules_fixed]. fold p count.
        destruct (negb (Bool.eqb (r_sort req) (m_sort ms)) || negb (rev_eqb (r_rev req) (m_rev ms)))%bool eqn:Ecl;
          [cbn; repeat split; [intros k m [] | discriminate]|].
        apply orb_false_iff in Ecl as [E1 E2]. apply negb_false_iff in E1, E2.
        apply eqb_prop in E1. apply rev_eqb_eq in E2.
        destruct (Nat.eqb count (m_prev ms)) eqn:Ecnt; [|cbn; repeat split; [intros k m [] | discriminate]].
        apply Nat.eqb_eq in Ecnt. cbn [fst snd]. split; [reflexivity|]. split.
        - intros k m Hin. destruct (Hmc k m Hin) as (r & Hr1 & Hr2 & Hr3 & Hr4 & Hr5).
          exists r. repeat split; auto; congruence.
        - intros m Hm. destruct (mc_find (m_mcache ms) (pkey p)) as [m0|] eqn:Hf; [|discriminate].
          destruct (Bool.eqb (mg_final m0) (r_final req)) eqn:Efin; [|discriminate].
          inversion Hm; subst m0. apply eqb_prop in Efin.
          apply mc_find_In in Hf. destruct (Hmc _ _ Hf) as (r & Hr1 & Hr2 & Hr3 & Hr4 & Hr5).
          destruct (Hco r m Hr1) as [Hp Hch]; [congruence | unfold count in *; congruence | exact Hr2 |].
          pose proof (Hfr _ _ Hr1) as Hfresh. unfold fresh in Hfresh.
          assert (Hfin : r_final r = r_final req) by (rewrite <- Efin, Hfresh; reflexivity).
          rewrite Hfresh, Hfin. f_equal. apply scan_spec_eq; auto; congruence. }
      destruct t as [[hit mc1] prev1]. cbn [fst snd] in Ht. destruct Ht as (-> & Hmc1 & Hhit).
      (* the common tail: publishing merger m0 with cache c *)
      assert (Hpub : forall (c : ccache) (b : @box item pat) (m0 : merger),
                cache_inv c -> gen_ok p c -> set_final m0 (r_final req) = set_final (scan_spec E req) (r_final req) ->
                (let m' := set_final m0 (r_final req) in
                 Ok (mkM (r_sort req) (r_rev req) (if merger_cacheable m0 then (pkey p, m') :: mc1 else mc1) count c, b, Some m'))
                = Ok (ms', b', pub) ->
                cache_inv (m_cache ms') /\ gen_ok p (m_cache ms') /\
                (forall m, pub = Some m -> fresh req m) /\
                mcache_ok ms' (match pub with Some m => (req, m) :: pubs | None => pubs end)).
      { intros c b m0 Hc0 Hg0 Hm0 Heq. cbn in Heq. inversion Heq; subst ms' b' pub. clear Heq. cbn [m_cache].
        split; [exact Hc0|]. split; [exact Hg0|]. split.
        - intros m Hm. inversion Hm; subst. exact Hm0.
        - intros k m Hin. cbn [m_mcache m_rev m_sort m_prev] in *.
          assert (Hold : In (k, m) mc1 -> exists r, In (r, m) ((req, set_final m0 (r_final req)) :: pubs) /\
                    pkey (r_pat r) = k /\ r_rev r = r_rev req /\ r_sort r = r_sort req /\ req_count r = count).
          { intro Hi. destruct (Hmc1 _ _ Hi) as (r & H1 & H2). exists r. split; [now right | exact H2]. }
          destruct (merger_cacheable m0); [|now apply Hold].
          destruct Hin as [Hin|Hin]; [|now apply Hold].
          inversion Hin; subst. exists req. repeat split; auto. now left. }
      destruct hit as [m|].
      - (* mergerCache hit: nothing is scanned *)
        pose proof (sidle_inv p false Hrl Hmono Hkd (m_cache ms) b0 sched Hc Hg) as [Hc1 Hg1].
        refine (Hpub _ _ _ Hc1 Hg1 _ Hb).
        rewrite <- (Hhit m eq_refl). reflexivity.
      - destruct (r_chunks req) as [|ch0 chs] eqn:Hchunks.
        + pose proof (sidle_inv p false Hrl Hmono Hkd (m_cache ms) b0 sched Hc Hg) as [Hc1 Hg1].
          refine (Hpub _ _ (mkMerger (MLists [] false) false false (r_rev req)) Hc1 Hg1 _ Hb).
          unfold scan_spec. rewrite Hchunks. reflexivity.
        + destruct (e_empty E p) eqn:Hemp.
          * pose proof (sidle_inv p false Hrl Hmono Hkd (m_cache ms) b0 sched Hc Hg) as [Hc1 Hg1].
            refine (Hpub _ _ (mkMerger (MPass (map snd (ch0 :: chs))) (e_tac E) false (r_rev req)) Hc1 Hg1 _ Hb).
            rewrite (scan_spec_cons _ _ _ Hchunks). fold p. rewrite Hemp, Hchunks. reflexivity.
          * set (sorted := (r_sort req && e_sortable E p)%bool) in *.
            destruct (scan_all_or_nothing_proof p sorted Hrl Hmono Hkd (m_cache ms) b0 (ch0 :: chs) sched Hc Hg Hok)
              as (Hc1 & Hg1 & Hph).
            destruct (s_phase (srun E p sorted (sinit E (m_cache ms) b0 (ch0 :: chs)) sched)) as [| | |[outs|]];
              try discriminate.
            -- refine (Hpub _ _ (mkMerger (MLists outs sorted) (e_tac E) false (r_rev req)) Hc1 Hg1 _ Hb).
               rewrite (scan_spec_cons _ _ _ Hchunks). fold p. rewrite Hemp. fold sorted. rewrite Hph, Hchunks. reflexivity.
            -- inversion Hb; subst ms' b' pub. cbn [m_cache].
               split; [exact Hc1|]. split; [exact Hg1|]. split; [discriminate|].
               intros k m Hin. cbn [m_mcache m_rev m_sort m_prev] in *. now apply Hmc1.
    Qed.

    (* what is assumed of an event when it happens: the request an iteration takes is well-formed, coherent with
       what was published before, and its pattern is not older than anything served so far nor newer than the cache *)
    Definition ev_ok (st : lstate) (e : @event item pat) : Prop :=
      match e with
      | EIter pick sched => forall req, box_take E (l_box st) pick = Some req -> req_ok st req
      | _ => True
      end.

    Fixpoint hist_ok (st : lstate) (es : list (@event item pat)) : Prop :=
      match es with
      | [] => True
      | e :: r => ev_ok st e /\ forall st', lstep E st e = Ok st' -> hist_ok st' r
      end.

    Lemma linv_init sort rev : linv (linit sort rev).
    Proof.
      split; [apply cache_inv_new|]. split; [now left|]. split; [intros k m []|intros r m []].
    Qed.

    Lemma lstep_inv st e st' : linv st -> ev_ok st e -> lstep E st e = Ok st' -> linv st'.
    Proof.
      intros (Hc & Hgl & Hmc & Hfr) Hev H. destruct e as [cancel r| |pick sched]; cbn [lstep] in H.
      - inversion H; subst. split; [exact Hc|]. split; [exact Hgl|]. split; assumption.
      - inversion H; subst. split; [apply cache_inv_invalidate|]. split; [now left|]. split; assumption.
      - destruct (box_take E (l_box st) pick) as [req|] eqn:Ht.
        2:{ inversion H; subst. split; [exact Hc|]. split; [exact Hgl|]. split; assumption. }
        destruct (Hev req Ht) as (Hok & Hco & Hlo & Hhi).
        bind_inv H. destruct a as [[ms b] pub]. inversion H; subst; clear H.
        assert (Hg : gen_ok (r_pat req) (m_cache (l_m st))).
        { destruct Hgl as [He|He]; [now right | left; lia]. }
        destruct (loop_body_spec _ _ _ _ _ _ _ _ Hget Hc Hg Hok Hmc Hfr Hco) as (Hc' & Hg' & Hpf & Hmc').
        split; [exact Hc'|]. cbn [l_m l_box l_pubs l_glast]. split; [|split; [exact Hmc'|]].
        + rewrite Nat.max_r by exact Hlo. destruct Hg' as [Hg'|Hg']; [now right | now left].
        + intros r m Hin. destruct pub as [m0|]; [|now apply Hfr].
          destruct Hin as [Hin|Hin]; [inversion Hin; subst; now apply Hpf | now apply Hfr].
    Qed.

    (* THEOREM loop_fresh / publish_matches_request *)
    Theorem loop_fresh_proof : forall es st st', linv st -> hist_ok st es -> lrun E st es = Ok st' ->
      linv st' /\ forall r m, In (r, m) (l_pubs st') -> m = set_final (scan_spec E r) (r_final r).
    Proof.
      induction es as [|e es IH]; intros st st' Hi Hh H; cbn in H.
      - inversion H; subst. split; [exact Hi | apply Hi].
      - bind_inv H. destruct Hh as [He Hh]. eapply IH; [eapply lstep_inv; eauto | now apply Hh | exact H].
    Qed.

    (* ---------- the mailbox: the newest request is the one that is served ---------- *)
    Definition box_inv (b : @box item pat) (lastp : option request) : Prop :=
      (forall n r, b_retry b = Some (n, r) -> n <= b_seq b)%nat /\
      (forall n r, b_reset b = Some (n, r) -> n <= b_seq b)%nat /\
      (forall n1 r1 n2 r2, b_retry b = Some (n1, r1) -> b_reset b = Some (n2, r2) -> n1 <> n2) /\
      (box_is_empty b = false -> exists r, lastp = Some r /\
          (b_retry b = Some (b_seq b, r) \/ b_reset b = Some (b_seq b, r))).

    Lemma box_inv_post b lastp cancel r : box_inv b lastp -> box_inv (box_post b cancel r) (Some r).
    Proof.
      intros (H1 & H2 & H3 & H4). unfold box_post, box_inv. destruct cancel; cbn.
      - split; [intros n q Hq; apply H1 in Hq; lia|]. split; [intros n q Hq; inversion Hq; lia|].
        split; [intros n1 r1 n2 r2 Hq1 Hq2; inversion Hq2; subst; apply H1 in Hq1; lia|].
        intros _. exists r. split; [reflexivity | now right].
      - split; [intros n q Hq; inversion Hq; lia|]. split; [intros n q Hq; apply H2 in Hq; lia|].
        split; [intros n1 r1 n2 r2 Hq1 Hq2; inversion Hq1; subst; apply H2 in Hq2; lia|].
        intros _. exists r. split; [reflexivity | now left].
    Qed.

    Lemma box_inv_clear b lastp : box_inv b lastp -> box_inv (box_clear b) lastp.
    Proof. intros _. unfold box_clear, box_inv. cbn. repeat split; try discriminate. Qed.

    Lemma box_take_newest b lastp pick req : box_inv b lastp -> box_take E b pick = Some req -> lastp = Some req.
    Proof.
      intros (H1 & H2 & H3 & H4). unfold box_take. rewrite Hrl. cbn [rule_seq rules_fixed].
      unfold box_is_empty in H4.
      destruct (b_retry b) as [[n1 r1]|] eqn:E1; destruct (b_reset b) as [[n2 r2]|] eqn:E2; intro H; inversion H; subst; clear H.
      - destruct (H4 eq_refl) as (r & -> & [Hr|Hr]); inversion Hr; subst.
        + specialize (H2 _ _ eq_refl). specialize (H3 _ _ _ _ eq_refl eq_refl).
          destruct (Nat.ltb (b_seq b) n2) eqn:El; [apply Nat.ltb_lt in El; lia | reflexivity].
        + specialize (H1 _ _ eq_refl). specialize (H3 _ _ _ _ eq_refl eq_refl).
          destruct (Nat.ltb n1 (b_seq b)) eqn:El; [reflexivity | apply Nat.ltb_ge in El; lia].
      - destruct (H4 eq_refl) as (r & -> & [Hr|Hr]); inversion Hr; subst. reflexivity.
      - destruct (H4 eq_refl) as (r & -> & [Hr|Hr]); inversion Hr; subst. reflexivity.
    Qed.

    Lemma box_take_some_nonempty b pick req : box_take E b pick = Some req -> box_is_empty b = false.
    Proof. unfold box_take, box_is_empty. destruct (b_retry b) as [[? ?]|], (b_reset b) as [[? ?]|]; intro H; try reflexivity; discriminate. Qed.

    Definition sched_last (acc : option request) (sched : list (@label item pat)) : option request :=
      fold_left (fun a l => match l with LPost _ r => Some r | _ => a end) sched acc.

    Lemma work_box p sorted st i : s_box (work E p sorted st i) = s_box st /\ s_phase (work E p sorted st i) = s_phase st.
    Proof.
      unfold work. destruct (get (s_ws st) i) as [w|]; [|auto]. destruct (w_st w); auto.
      destruct (w_todo w) as [|ch rest].
      - destruct (set_nth _ _ _); auto.
      - destruct (pattern_match E (s_cache st) p ch) as [ms c']. destruct (s_cancelled st); destruct (set_nth _ _ _); auto.
    Qed.

    Definition cancel_inv (st : @sstate item pat) : Prop :=
      match s_phase st with
      | PCancel => box_has_reset (s_box st) = true
      | PRet None => box_has_reset (s_box st) = true
      | _ => True
      end.

    Lemma sstep_box p sorted st l lastp : box_inv (s_box st) lastp -> cancel_inv st ->
      let st' := sstep E p sorted st l in
      box_inv (s_box st') (match l with LPost _ r => Some r | _ => lastp end) /\ cancel_inv st' /\
      (box_is_empty (s_box st') = true -> box_is_empty (s_box st) = true /\ match l with LPost _ _ => False | _ => True end).
    Proof.
      intros Hb Hc. destruct l as [i| | | |cancel r|]; cbn [sstep].
      - destruct (work_box p sorted st i) as [Eb Ep]. unfold cancel_inv. rewrite Eb, Ep. auto.
      - unfold cancel_inv in *. destruct (s_phase st) eqn:Hp; try (rewrite ?Hp; auto; fail).
        destruct (Nat.ltb (s_recv st) (s_sent st)); [|rewrite Hp; auto].
        destruct (Nat.eqb (S (s_recv st)) (s_total st)); cbn; auto.
        destruct (box_has_reset (s_box st)) eqn:Hr; cbn; auto.
      - unfold cancel_inv in *. destruct (s_phase st) eqn:Hp; try (rewrite ?Hp; auto; fail).
        destruct (all_done (s_ws st)); cbn; rewrite ?Hp; auto.
      - unfold cancel_inv in *. destruct (s_phase st) eqn:Hp; try (rewrite ?Hp; auto; fail).
        destruct (none_running (s_ws st)); cbn; rewrite ?Hp; auto.
      - cbn [s_box s_phase]. split; [now apply (box_inv_post _ lastp)|]. split.
        + unfold cancel_inv in *. cbn [s_phase s_box]. destruct (s_phase st) as [| | |[outs|]]; auto using box_post_has_reset.
        + unfold box_post, box_is_empty. destruct cancel; cbn; [destruct (b_retry (s_box st)) | ]; discriminate.
      - unfold cancel_inv. cbn. auto.
    Qed.

    Lemma srun_box p sorted sched : forall st lastp, box_inv (s_box st) lastp -> cancel_inv st ->
      let st' := srun E p sorted st sched in
      box_inv (s_box st') (sched_last lastp sched) /\ cancel_inv st' /\
      (box_is_empty (s_box st') = true -> sched_last lastp sched = lastp /\ box_is_empty (s_box st) = true).
    Proof.
      unfold srun, sched_last. induction sched as [|l r IH]; intros st lastp Hb Hc; cbn [fold_left].
      - auto.
      - destruct (sstep_box p sorted st l lastp Hb Hc) as (Hb1 & Hc1 & He1).
        destruct (IH _ _ Hb1 Hc1) as (Hb2 & Hc2 & He2).
        split; [exact Hb2|]. split; [exact Hc2|]. intro Hemp.
        destruct (He2 Hemp) as [Hl Hemp1]. destruct (He1 Hemp1) as [Hemp0 Hnp].
        split; [|exact Hemp0]. rewrite Hl. destruct l; try reflexivity. contradiction.
    Qed.

    (* the mailbox and the publication of one iteration *)
    Lemma loop_body_box ms b0 req sched ms' b' pub lastp :
      loop_body E ms b0 req sched = Ok (ms', b', pub) -> box_inv b0 lastp -> box_is_empty b0 = true ->
      box_inv b' (sched_last lastp sched) /\
      (box_is_empty b' = true -> sched_last lastp sched = lastp /\ pub <> None).
    Proof.
      intros Hb Hbi Hemp. unfold loop_body in Hb.
      destruct (Nat.eqb (e_parts E) 0); [discriminate|].
      assert (Hidle : cancel_inv (sidle (m_cache ms) b0)) by exact I.
      destruct (mc_decide E ms req) as [[hit mc1] prev1].
      assert (Hcase : forall p sorted, box_inv (s_box (srun E p sorted (sidle (m_cache ms) b0) sched)) (sched_last lastp sched) /\
                (box_is_empty (s_box (srun E p sorted (sidle (m_cache ms) b0) sched)) = true -> sched_last lastp sched = lastp)).
      { intros p sorted. destruct (srun_box p sorted sched (sidle (m_cache ms) b0) lastp Hbi Hidle) as (H1 & _ & H3).
        split; [exact H1|]. intro He. now destruct (H3 He). }
      destruct hit as [m|].
      - cbn in Hb. inversion Hb; subst. destruct (Hcase (r_pat req) false) as [H1 H2].
        split; [exact H1|]. intro He. split; [now apply H2 | discriminate].
      - destruct (r_chunks req) as [|ch0 chs].
        + cbn in Hb. inversion Hb; subst. destruct (Hcase (r_pat req) false) as [H1 H2].
          split; [exact H1|]. intro He. split; [now apply H2 | discriminate].
        + destruct (e_empty E (r_pat req)).
          * cbn in Hb. inversion Hb; subst. destruct (Hcase (r_pat req) false) as [H1 H2].
            split; [exact H1|]. intro He. split; [now apply H2 | discriminate].
          * set (sorted := (r_sort req && e_sortable E (r_pat req))%bool) in *.
            assert (Hinit : cancel_inv (sinit E (m_cache ms) b0 (ch0 :: chs))) by exact I.
            destruct (srun_box (r_pat req) sorted sched (sinit E (m_cache ms) b0 (ch0 :: chs)) lastp Hbi Hinit) as (H1 & H2 & H3).
            unfold cancel_inv in H2.
            destruct (s_phase (srun E (r_pat req) sorted (sinit E (m_cache ms) b0 (ch0 :: chs)) sched)) as [| | |[outs|]];
              try discriminate.
            -- cbn in Hb. inversion Hb; subst. split; [exact H1|]. intro He. split; [now destruct (H3 He) | discriminate].
            -- inversion Hb; subst. split; [exact H1|]. intro He. exfalso.
               unfold box_has_reset in H2. unfold box_is_empty in He.
               destruct (b_reset _); [destruct (b_retry _); discriminate | discriminate].
    Qed.

    (* the last request posted so far (posts inside a schedule happen only if that iteration runs) *)
    Fixpoint posted (st : lstate) (es : list (@event item pat)) (acc : option request) : option request :=
      match es with
      | [] => acc
      | e :: r =>
          match lstep E st e with
          | Ok st' =>
              posted st' r (match e with
                            | EPost _ q => Some q
                            | EInvalidate => acc
                            | EIter pick sched =>
                                match box_take E (l_box st) pick with Some _ => sched_last acc sched | None => acc end
                            end)
          | Err _ => acc
          end
      end.

    Definition served (st : lstate) (lastp : option request) : Prop :=
      box_inv (l_box st) lastp /\
      (box_is_empty (l_box st) = true ->
       match lastp with None => True | Some r => exists m rest, l_pubs st = (r, m) :: rest end).

    Lemma lstep_served st e st' lastp : served st lastp -> lstep E st e = Ok st' ->
      served st' (match e with
                  | EPost _ q => Some q
                  | EInvalidate => lastp
                  | EIter pick sched => match box_take E (l_box st) pick with Some _ => sched_last lastp sched | None => lastp end
                  end).
    Proof.
      intros [Hb Hs] H. destruct e as [cancel r| |pick sched]; cbn [lstep] in H.
      - inversion H; subst. split; cbn [l_box l_pubs]; [now apply (box_inv_post _ lastp)|].
        intro He. exfalso. unfold box_post, box_is_empty in He. destruct cancel; cbn in He; [destruct (b_retry (l_box st))|]; discriminate.
      - inversion H; subst. split; assumption.
      - destruct (box_take E (l_box st) pick) as [req|] eqn:Ht; [|inversion H; subst; split; assumption].
        bind_inv H. destruct a as [[ms b] pub]. inversion H; subst; clear H. cbn [l_box l_pubs].
        pose proof (box_take_newest _ _ _ _ Hb Ht) as Hlast.
        destruct (loop_body_box _ _ _ _ _ _ _ lastp Hget (box_inv_clear _ _ Hb) eq_refl) as [Hb' He'].
        split; [exact Hb'|]. intro Hemp. destruct (He' Hemp) as [Hl Hp]. rewrite Hl, Hlast.
        destruct pub as [m|]; [exists m, (l_pubs st); reflexivity | contradiction].
    Qed.

    (* THEOREM last_request_wins *)
    Theorem last_request_wins_proof : forall es sort rev st r,
      lrun E (linit sort rev) es = Ok st -> box_is_empty (l_box st) = true ->
      posted (linit sort rev) es None = Some r -> exists m rest, l_pubs st = (r, m) :: rest.
    Proof.
      intros es sort rev st r Hrun Hemp Hpost.
      assert (G : forall es' st0 lastp, served st0 lastp -> lrun E st0 es' = Ok st -> served st (posted st0 es' lastp)).
      { induction es' as [|e es' IH]; intros st0 lastp Hs H; cbn in H.
        - inversion H; subst. exact Hs.
        - bind_inv H. cbn [posted]. rewrite Hget. eapply IH; [eapply lstep_served; eauto | exact H]. }
      assert (H0 : served (linit sort rev) None).
      { split; [|auto]. unfold linit, box_empty, box_inv. cbn. repeat split; try discriminate. }
      destruct (G es _ _ H0 Hrun) as [_ Hs]. rewrite Hpost in Hs. now apply Hs.
    Qed.
  End Loop.

  (* ---------- what a fresh merger shows: the sequential oracle ---------- *)
  Section View.
    Local Notation idx := (e_idx E).
    Local Notation request := (@request item pat).

    Lemma matches_of_app (p : pat) a b : matches_of matchf p (a ++ b) = matches_of matchf p a ++ matches_of matchf p b.
    Proof. induction a as [|x a IH]; cbn; [reflexivity|]. destruct (matchf p x); cbn; now rewrite IH. Qed.

    Lemma matches_of_concat (p : pat) xss : concat (map (match_items E p) xss) = matches_of matchf p (concat xss).
    Proof. induction xss as [|xs r IH]; cbn; [reflexivity|]. unfold match_items at 1. now rewrite matches_of_app, IH. Qed.

    Lemma concat_parts {X Y} (f : X -> list Y) (L : list (list X)) :
      concat (map (fun part => concat (map f part)) L) = concat (map f (concat L)).
    Proof. induction L as [|a L IH]; cbn; [reflexivity|]. now rewrite map_app, concat_app, IH. Qed.

    Lemma rank_insert_perm tac x l : Permutation (rank_insert idx tac x l) (x :: l).
    Proof.
      induction l as [|y l IH]; cbn; [apply Permutation_refl|].
      destruct (rank_before idx tac x y); [apply Permutation_refl|].
      eapply Permutation_trans; [apply perm_skip, IH | apply perm_swap].
    Qed.

    Lemma rank_sort_perm tac l : Permutation (rank_sort idx tac l) l.
    Proof.
      induction l as [|x l IH]; cbn; [constructor|].
      eapply Permutation_trans; [apply rank_insert_perm | now apply perm_skip].
    Qed.

    Lemma concat_parts_sorted {X} (f : X -> list result) tac (L : list (list X)) :
      Permutation (concat (map (fun part => rank_sort idx tac (concat (map f part))) L)) (concat (map f (concat L))).
    Proof.
      induction L as [|a L IH]; cbn; [constructor|].
      rewrite map_app, concat_app. apply Permutation_app; [apply rank_sort_perm | exact IH].
    Qed.

    (* the items a request is about *)
    Definition snapshot_items (r : request) : list item := concat (map snd (r_chunks r)).

    (* everything a fresh merger holds is exactly what the sequential filter of its own snapshot yields *)
    Theorem fresh_contents_proof : forall (r : request) f,
      match mg_body (set_final (scan_spec E r) f) with
      | MPass xss => e_empty E (r_pat r) = true /\ concat xss = snapshot_items r
      | MLists lists sorted =>
          (r_chunks r = [] \/ e_empty E (r_pat r) = false) /\
          (r_chunks r <> [] -> sorted = (r_sort r && e_sortable E (r_pat r))%bool) /\
          Permutation (concat lists) (matches_of matchf (r_pat r) (snapshot_items r)) /\
          (sorted = false -> concat lists = matches_of matchf (r_pat r) (snapshot_items r))
      end.
    Proof.
      intros r f. unfold scan_spec, snapshot_items.
      destruct (map snd (r_chunks r)) as [|xs xss] eqn:Hm.
      - cbn. assert (r_chunks r = []) by (destruct (r_chunks r); [reflexivity | discriminate]).
        repeat split; auto. congruence.
      - assert (Hne : r_chunks r <> []) by (intro H0; rewrite H0 in Hm; discriminate).
        destruct (e_empty E (r_pat r)) eqn:He; cbn [set_final mg_body].
        + split; reflexivity.
        + split; [now right|]. split; [reflexivity|].
          unfold lists_spec, finish.           destruct (r_sort r && e_sortable E (r_pat r))%bool.
          * split; [|discriminate].
            eapply Permutation_trans; [apply concat_parts_sorted|].
            rewrite slice_concat, matches_of_concat. apply Permutation_refl.
          * rewrite concat_parts, slice_concat, matches_of_concat. split; [apply Permutation_refl | reflexivity].
    Qed.

    (* THEOREM publish_matches_request, display order: when nothing is ranked (no sort, or a query without
       positive terms, or the empty query) the merger shows exactly what the oracle prescribes *)
    Theorem fresh_view_unsorted_proof : forall (r : request) f,
      (r_sort r && e_sortable E (r_pat r))%bool = false \/ e_empty E (r_pat r) = true \/ r_chunks r = [] ->
      merger_view E (set_final (scan_spec E r) f) =
      oracle idx matchf (e_empty E) (e_sortable E) (r_sort r) (e_tac E) (r_pat r) (snapshot_items r).
    Proof.
      intros r f H. unfold scan_spec, snapshot_items, oracle, merger_view.
      destruct (map snd (r_chunks r)) as [|xs xss] eqn:Hm.
      - cbn. destruct (e_empty E (r_pat r)); [now destruct (e_tac E)|].
        cbn. destruct (r_sort r && e_sortable E (r_pat r))%bool; [reflexivity | now destruct (e_tac E)].
      - destruct (e_empty E (r_pat r)) eqn:He; cbn [set_final mg_body mg_tac]; [reflexivity|].
        destruct H as [H|[H|H]]; [|discriminate | rewrite H in Hm; discriminate].
        rewrite H. unfold lists_spec, finish.         rewrite concat_parts, slice_concat, matches_of_concat. reflexivity.
    Qed.
  End View.
End MP.
