(* C05, last sentence: "filtering any sub-list of the input yields the full result restricted to that sub-list,
   in the same relative order" - proved on the C04 spec/model (RankSpec / RankModel / MergerModel).

   Setting.  [full] is a list of lines; its items are the lines numbered 0..n-1 in input order.  A sub-list is
   given by positions: [keep : Z -> bool] says which positions of [full] are kept (any predicate, so duplicate
   lines are no problem); the kept lines, in input order, are re-numbered 0..k-1.  Whether a line matches and its
   four sort keys are a function of the LINE only ([info : L -> option points]; this is purity, C05's other
   theorems).  Then, for every tac flag, sort flag, query kind (empty / only negated terms / sortable), every
   chunking of the two inputs (any chunk lists of the documented shape) and all partition counts k, k' >= 1:
   the result on the sub-list, with its item numbers translated back to positions of [full], is the result on
   [full] with the positions that are not kept deleted - same elements, same relative order.

   Why: the only index-dependent part of the order is the final index tiebreak, and re-numbering by a strictly
   increasing map preserves rank_lt (rank_lt_reindex_mono); deleting elements of a sorted list keeps it sorted;
   the sorted permutation is unique (RankProofs.isort_unique). *)
From Coq Require Import Permutation Sorted.
From Fzf Require Import Prelude RankSpec RankModel MergerModel RankProofs MergerProofs.
Open Scope Z_scope.

(* ------------------------------------------------------------------------------------------- *)
(* generic list facts                                                                           *)
(* ------------------------------------------------------------------------------------------- *)
Lemma filter_rev' {A} (p : A -> bool) (l : list A) : filter p (rev l) = rev (filter p l).
Proof.
  induction l as [|x t IH]; cbn; [reflexivity|]. rewrite filter_app, IH. cbn.
  destruct (p x); cbn; [reflexivity|now rewrite app_nil_r].
Qed.

Lemma Permutation_filter' {A} (p : A -> bool) (l l' : list A) :
  Permutation l l' -> Permutation (filter p l) (filter p l').
Proof.
  induction 1 as [|x l l' P IH|x y l|l l' l'' P1 IH1 P2 IH2]; cbn.
  - constructor.
  - destruct (p x); [now constructor|exact IH].
  - destruct (p x), (p y); try reflexivity. apply perm_swap.
  - now transitivity (filter p l').
Qed.

Lemma sorted_filter {A} (R : A -> A -> Prop) (p : A -> bool) (l : list A) :
  StronglySorted R l -> StronglySorted R (filter p l).
Proof.
  induction 1 as [|x l S IH F]; cbn; [constructor|]. destruct (p x); [|exact IH].
  constructor; [exact IH|]. apply Forall_forall. intros y Hy. apply filter_In in Hy as [Hy _].
  rewrite Forall_forall in F. now apply F.
Qed.

Lemma map_filter_comm {A B} (f : A -> B) (p : B -> bool) (l : list A) :
  map f (filter (fun a => p (f a)) l) = filter p (map f l).
Proof. induction l as [|x t IH]; cbn; [reflexivity|]. destruct (p (f x)); cbn; now rewrite IH. Qed.

Section OrderFacts.
Context {A : Type}.
Variable ltb : A -> A -> bool.
Hypothesis ST : strict_total ltb.

(* deleting elements commutes with sorting *)
Lemma isort_filter (p : A -> bool) (l : list A) : filter p (isort ltb l) = isort ltb (filter p l).
Proof.
  apply isort_unique; [exact ST| |].
  - apply sorted_filter, isort_sorted, ST.
  - apply Permutation_filter', isort_perm.
Qed.

(* a map that preserves the order on the elements of the list commutes with sorting *)
Lemma isort_map_mono (f : A -> A) (l : list A) :
  (forall a b, In a l -> In b l -> ltb (f a) (f b) = ltb a b) ->
  map f (isort ltb l) = isort ltb (map f l).
Proof.
  intro Hf. apply isort_unique; [exact ST| |].
  - assert (Hin : forall a, In a (isort ltb l) -> In a l)
      by (intros a Ha; eapply Permutation_in; [apply isort_perm|exact Ha]).
    pose proof (isort_sorted ltb ST l) as S. revert Hin. induction S as [|x s S IH F]; intro Hin; cbn; [constructor|].
    constructor; [apply IH; intros a Ha; apply Hin; now right|].
    apply Forall_forall. intros y Hy. apply in_map_iff in Hy as (z & <- & Hz).
    rewrite Forall_forall in F. unfold le. rewrite Hf; [now apply F|apply Hin; now right|apply Hin; now left].
  - apply Permutation_map, isort_perm.
Qed.
End OrderFacts.

(* ------------------------------------------------------------------------------------------- *)
(* re-numbering items by a strictly increasing map preserves the rank order                      *)
(* ------------------------------------------------------------------------------------------- *)
Lemma rank_lt_reindex_mono tac (rho : Z -> Z) ia ka ib kb :
  (ia < ib -> rho ia < rho ib) -> (ib < ia -> rho ib < rho ia) ->
  rank_ltb tac (mkRItem (rho ia) ka) (mkRItem (rho ib) kb) = rank_ltb tac (mkRItem ia ka) (mkRItem ib kb).
Proof.
  intros H1 H2. destruct (Z.eq_dec ia ib) as [->|Hne]; [unfold rank_ltb; cbn [ri_key ri_index]; now rewrite !Z.ltb_irrefl|].
  unfold rank_ltb. cbn [ri_key ri_index]. f_equal. f_equal.
  destruct tac.
  - destruct (Z.ltb_spec (rho ib) (rho ia)), (Z.ltb_spec ib ia); try reflexivity; lia.
  - destruct (Z.ltb_spec (rho ia) (rho ib)), (Z.ltb_spec ia ib); try reflexivity; lia.
Qed.

(* the spec-level statements: restriction and monotone re-numbering commute with [ranked] *)
Lemma ranked_filter_commute tac (p : ritem -> bool) (l : list ritem) :
  filter p (ranked tac l) = ranked tac (filter p l).
Proof. apply isort_filter, rank_lt_strict_total_proof. Qed.

Definition reindex_item (rho : Z -> Z) (a : ritem) : ritem := mkRItem (rho (ri_index a)) (ri_key a).

Lemma ranked_reindex_commute tac (rho : Z -> Z) (l : list ritem) :
  (forall a b, In a l -> In b l -> ri_index a < ri_index b -> rho (ri_index a) < rho (ri_index b)) ->
  map (reindex_item rho) (ranked tac l) = ranked tac (map (reindex_item rho) l).
Proof.
  intro Hm. apply isort_map_mono; [apply rank_lt_strict_total_proof|].
  intros [ia ka] [ib kb] Ha Hb. unfold reindex_item. cbn [ri_index ri_key].
  apply rank_lt_reindex_mono; [apply (Hm _ _ Ha Hb)|apply (Hm _ _ Hb Ha)].
Qed.

(* the same on model results *)
Definition reidx (rho : Z -> Z) (r : result) : result := mkResult (rho (r_index r)) (r_points r).

Lemma res_ltb_reidx tac rho a b :
  (r_index a < r_index b -> rho (r_index a) < rho (r_index b)) ->
  (r_index b < r_index a -> rho (r_index b) < rho (r_index a)) ->
  res_ltb tac (reidx rho a) (reidx rho b) = res_ltb tac a b.
Proof. intros H1 H2. unfold res_ltb, view, reidx. cbn [r_index r_points]. now apply rank_lt_reindex_mono. Qed.

(* ------------------------------------------------------------------------------------------- *)
(* numbering, sub-lists by positions                                                             *)
(* ------------------------------------------------------------------------------------------- *)
Section Sublist.
Variable L : Type.                       (* a line *)
Variable info : L -> option points.      (* matched? and the four sort keys: a function of the line only *)

Definition item := (Z * L)%type.         (* (item index, line) *)

Fixpoint number_from (i : Z) (ls : list L) : list item :=
  match ls with
  | [] => []
  | l :: r => (i, l) :: number_from (i + 1) r
  end.
Definition number (ls : list L) : list item := number_from 0 ls.   (* items of an input: lines numbered 0.. *)

Definition s_mk (it : item) : result := mkResult (fst it) (0, 0, 0, 0).             (* Result{item: &it} *)
Definition s_mt (it : item) : option result :=                                      (* Pattern.MatchItem *)
  match info (snd it) with Some p => Some (mkResult (fst it) p) | None => None end.

(* the kept (position, line) pairs, the sub-list of lines, and the positions they came from *)
Definition selected (keep : Z -> bool) (full : list L) : list item := filter (fun it => keep (fst it)) (number full).
Definition sub_lines (keep : Z -> bool) (full : list L) : list L := map snd (selected keep full).
Definition positions (keep : Z -> bool) (full : list L) : list Z := map fst (selected keep full).

(* item number in the sub-list -> position in the full list *)
Definition pos_of (ps : list Z) (j : Z) : Z := nth (Z.to_nat j) ps 0.

Lemma number_from_bounds i ls it : In it (number_from i ls) -> i <= fst it < i + zlen ls.
Proof.
  revert i; induction ls as [|l r IH]; intros i H; cbn in H; [contradiction|]. unfold zlen in *. cbn [length].
  destruct H as [<-|H]; [cbn; lia|]. apply IH in H. lia.
Qed.

Lemma number_from_sorted i ls : StronglySorted Z.lt (map fst (number_from i ls)).
Proof.
  revert i; induction ls as [|l r IH]; intro i; cbn; [constructor|]. constructor; [apply IH|].
  apply Forall_forall. intros x Hx. apply in_map_iff in Hx as (it & <- & Hit). apply number_from_bounds in Hit. lia.
Qed.

Lemma positions_sorted keep full : StronglySorted Z.lt (positions keep full).
Proof.
  unfold positions, selected. rewrite (map_filter_comm fst keep). apply sorted_filter, number_from_sorted.
Qed.

Lemma nth_sorted_mono (ps : list Z) : StronglySorted Z.lt ps ->
  forall i j, (i < j < length ps)%nat -> nth i ps 0 < nth j ps 0.
Proof.
  induction 1 as [|x ps S IH F]; intros i j Hij; cbn in Hij; [lia|].
  destruct j as [|j]; [lia|]. destruct i as [|i]; cbn.
  - rewrite Forall_forall in F. apply F, nth_In. lia.
  - apply IH. lia.
Qed.

Lemma pos_of_mono ps i j : StronglySorted Z.lt ps -> 0 <= i -> i < j -> j < zlen ps -> pos_of ps i < pos_of ps j.
Proof. intros S Hi Hij Hj. unfold pos_of. apply nth_sorted_mono; [exact S|]. unfold zlen in Hj. lia. Qed.

(* re-numbering the items of the sub-list by pos_of gives back the selected (position, line) pairs *)
Lemma renumber_selected : forall (sel : list item) (pre : list Z),
  map (fun it : item => (pos_of (pre ++ map fst sel) (fst it), snd it)) (number_from (zlen pre) (map snd sel)) = sel.
Proof.
  induction sel as [|[p l] sel IH]; intro pre; cbn; [reflexivity|]. f_equal.
  - unfold pos_of, zlen. rewrite Nat2Z.id. now rewrite nth_middle.
  - specialize (IH (pre ++ [p])). rewrite <- app_assoc in IH. cbn in IH.
    replace (zlen (pre ++ [p])) with (zlen pre + 1) in IH by (unfold zlen; rewrite app_length; cbn; lia).
    exact IH.
Qed.

Section Fixed.
Variable keep : Z -> bool.
Variable full : list L.
Notation sel := (selected keep full).
Notation sub := (sub_lines keep full).
Notation ps := (positions keep full).
Notation rho := (pos_of (positions keep full)).

Definition re_item (it : item) : item := (rho (fst it), snd it).
Definition keepr (r : result) : bool := keep (r_index r).

Lemma renumber_sub : map re_item (number sub) = sel.
Proof. exact (renumber_selected sel []). Qed.

Lemma sub_length : zlen sub = zlen ps.
Proof. unfold sub_lines, positions, zlen. now rewrite !map_length. Qed.

(* Result{item} and MatchItem commute with re-numbering and with restriction *)
Lemma mk_reitem l : map (reidx rho) (map s_mk l) = map s_mk (map re_item l).
Proof. rewrite !map_map. apply map_ext. intros [j x]. reflexivity. Qed.

Lemma mk_filter l : map s_mk (filter (fun it => keep (fst it)) l) = filter keepr (map s_mk l).
Proof. exact (map_filter_comm s_mk keepr l). Qed.

Lemma match_reitem l : map (reidx rho) (match_chunk item result s_mt l) = match_chunk item result s_mt (map re_item l).
Proof.
  induction l as [|[j x] t IH]; [reflexivity|]. cbn [map match_chunk]. unfold s_mt, re_item. cbn [fst snd].
  destruct (info x); cbn [map]; [f_equal|]; exact IH.
Qed.

Lemma match_filter l :
  match_chunk item result s_mt (filter (fun it => keep (fst it)) l) = filter keepr (match_chunk item result s_mt l).
Proof.
  induction l as [|[j x] t IH]; [reflexivity|]. cbn [filter fst]. destruct (keep j) eqn:Ek; cbn [match_chunk];
    unfold s_mt; cbn [fst snd]; destruct (info x); cbn [filter]; unfold keepr; cbn [r_index]; rewrite ?Ek;
    [f_equal| | |]; exact IH.
Qed.

Lemma match_index l r : In r (match_chunk item result s_mt l) -> exists it, In it l /\ r_index r = fst it.
Proof.
  induction l as [|[j x] t IH]; [intros []|]. cbn [match_chunk]. unfold s_mt at 1. cbn [fst snd]. destruct (info x); cbn [In].
  - intros [<-|H]; [exists (j, x); split; [now left|reflexivity]|].
    destruct (IH H) as (it & Hit & E). exists it. split; [now right|exact E].
  - intro H. destruct (IH H) as (it & Hit & E). exists it. split; [now right|exact E].
Qed.

(* the three kinds of result list *)
Lemma restrict_pass : map (reidx rho) (map s_mk (number sub)) = filter keepr (map s_mk (number full)).
Proof. rewrite mk_reitem, renumber_sub. apply mk_filter. Qed.

Lemma restrict_matches :
  map (reidx rho) (match_chunk item result s_mt (number sub)) = filter keepr (match_chunk item result s_mt (number full)).
Proof. rewrite match_reitem, renumber_sub. apply match_filter. Qed.

Lemma restrict_sorted tac :
  map (reidx rho) (isort (res_ltb tac) (match_chunk item result s_mt (number sub)))
  = filter keepr (isort (res_ltb tac) (match_chunk item result s_mt (number full))).
Proof.
  rewrite (isort_filter _ (res_ltb_strict_total tac)), <- restrict_matches.
  apply (isort_map_mono _ (res_ltb_strict_total tac)).
  assert (Hdom : forall a, In a (match_chunk item result s_mt (number sub)) -> 0 <= r_index a < zlen ps).
  { intros a Ha. destruct (match_index _ _ Ha) as (it & Hit & ->). apply number_from_bounds in Hit.
    rewrite sub_length in Hit. lia. }
  intros a b Ha Hb. apply Hdom in Ha, Hb.
  apply res_ltb_reidx; intro Hlt; apply pos_of_mono; try apply positions_sorted; lia.
Qed.

Lemma restrict_input_order tac (s f : list result) :
  map (reidx rho) s = filter keepr f -> map (reidx rho) (input_order tac s) = filter keepr (input_order tac f).
Proof. intro H. unfold input_order. destruct tac; [|exact H]. now rewrite map_rev, filter_rev', H. Qed.

(* what filter mode prints for the sub-list, re-numbered, is what it prints for the full list, restricted *)
Lemma restrict_expected tac sorted pat_empty chunks_sub chunks_full :
  concat chunks_sub = number sub -> concat chunks_full = number full ->
  map (reidx rho) (expected_output item result s_mk (res_ltb tac) s_mt tac sorted pat_empty chunks_sub)
  = filter keepr (expected_output item result s_mk (res_ltb tac) s_mt tac sorted pat_empty chunks_full).
Proof.
  intros Hs Hf. unfold expected_output. rewrite Hs, Hf. destruct pat_empty.
  - apply restrict_input_order, restrict_pass.
  - destruct sorted; [apply restrict_sorted|apply restrict_input_order, restrict_matches].
Qed.

End Fixed.

(* ------------------------------------------------------------------------------------------- *)
(* the theorem                                                                                   *)
(* ------------------------------------------------------------------------------------------- *)
Theorem sublist_restriction_proof :
  forall (keep : Z -> bool) (full : list L)
         (chunk_size : Z) (chunks_full chunks_sub : list (list item))
         (k k' : Z) (m_sort tac pat_empty pat_sortable : bool),
  1 <= k -> 1 <= k' -> 0 < chunk_size ->
  chunks_wf item chunk_size chunks_full -> concat chunks_full = number full ->
  chunks_wf item chunk_size chunks_sub -> concat chunks_sub = number (sub_lines keep full) ->
  exists out_full out_sub,
    filter_output item result s_mk (cless tac) chunk_size s_mt k' m_sort tac pat_empty pat_sortable chunks_full = Ok out_full /\
    filter_output item result s_mk (cless tac) chunk_size s_mt k m_sort tac pat_empty pat_sortable chunks_sub = Ok out_sub /\
    (* item numbers of the sub-list run translated to positions of the full list
       = positions printed by the full run, with the positions that are not kept deleted *)
    map (fun r => pos_of (positions keep full) (r_index r)) out_sub = filter keep (map r_index out_full).
Proof.
  intros keep full cs cf csub k k' m_sort tac pe psb Hk Hk' Hcs Hwf Hcf Hwfs Hcsub.
  rewrite (filter_output_correct_proof item result s_mk (cless tac) cs (res_ltb tac)
             (res_ltb_strict_total tac) (compare_ranks_less_sound tac) s_mt k' m_sort tac pe psb cf Hk' Hcs Hwf).
  rewrite (filter_output_correct_proof item result s_mk (cless tac) cs (res_ltb tac)
             (res_ltb_strict_total tac) (compare_ranks_less_sound tac) s_mt k m_sort tac pe psb csub Hk Hcs Hwfs).
  eexists. eexists. split; [reflexivity|]. split; [reflexivity|].
  pose proof (restrict_expected keep full tac (m_sort && psb) pe csub cf Hcsub Hcf) as H.
  apply (f_equal (map r_index)) in H. rewrite map_map in H. cbn [reidx r_index] in H.
  rewrite H. apply (map_filter_comm r_index keep).
Qed.

End Sublist.

Print Assumptions sublist_restriction_proof.

(* ---- corollaries in the spec's vocabulary ---- *)

(* the kept lines really are the lines at the kept positions, in input order *)
Lemma selected_spec {L} keep (full : list L) :
  selected L keep full = filter (fun it => keep (fst it)) (number L full) /\
  StronglySorted Z.lt (positions L keep full) /\
  length (sub_lines L keep full) = length (positions L keep full).
Proof.
  split; [reflexivity|]. split; [apply positions_sorted|]. unfold sub_lines, positions. now rewrite !map_length.
Qed.

(* ---- non-vacuity: six lines with duplicates, positions 0, 2, 3, 5 kept ---- *)
Definition ex_info (l : Z) : option points :=
  if l =? 9 then None else Some (0, 0, l mod 3, 65535 - l / 3).   (* line 9 does not match; ties between equal lines *)
Definition ex_full : list Z := [7; 4; 7; 9; 1; 4].
Definition ex_keep (i : Z) : bool := negb ((i =? 1) || (i =? 4)).

Example sublist_nonvacuous :
  sub_lines Z ex_keep ex_full = [7; 7; 9; 4] /\ positions Z ex_keep ex_full = [0; 2; 3; 5] /\
  let cf := [[(0, 7); (1, 4)]; [(2, 7); (3, 9)]; [(4, 1); (5, 4)]] in
  let csub := [[(0, 7)]; [(1, 7); (2, 9)]; [(3, 4)]] in
  chunks_wf (item Z) 2 cf /\ concat cf = number Z ex_full /\
  chunks_wf (item Z) 2 csub /\ concat csub = number Z (sub_lines Z ex_keep ex_full) /\
  (* sorted, not tac: full run prints positions 0 2 1 5 4; sub run prints items 0 1 3 = positions 0 2 5 *)
  (do o <- filter_output (item Z) result (s_mk Z) (cless false) 2 (s_mt Z ex_info) 3 true false false true cf;
   Ok (map r_index o)) = Ok [0; 2; 1; 5; 4] /\
  (do o <- filter_output (item Z) result (s_mk Z) (cless false) 2 (s_mt Z ex_info) 1 true false false true csub;
   Ok (map r_index o)) = Ok [0; 1; 3] /\
  (* sorted, tac: ties the other way round *)
  (do o <- filter_output (item Z) result (s_mk Z) (cless true) 2 (s_mt Z ex_info) 2 true true false true cf;
   Ok (map r_index o)) = Ok [2; 0; 5; 1; 4] /\
  (do o <- filter_output (item Z) result (s_mk Z) (cless true) 2 (s_mt Z ex_info) 2 true true false true csub;
   Ok (map r_index o)) = Ok [1; 0; 3].
Proof. vm_compute. repeat split; try reflexivity; discriminate. Qed.
