(* Tactics shared by the invariant-preservation proofs of C08 (no statements here). *)
From Fzf Require Import Prelude CoordSpec CoordModel CoordFlat CoordProofs.
Open Scope Z_scope.

Ltac unf := unfold eff_sort, eff_nth, pend_deny, newest, obound, ole, cur_ok, effq, rle, is_some in *.
Ltac gsplit := repeat match goal with
  | |- context[if ?b then _ else _] => destruct b eqn:?
  | |- context[match ?b with Some _ => _ | None => _ end] => destruct b eqn:?
  end.
Ltac spec_all := repeat match goal with
  | H : forall r, ?e = Some r -> _, H2 : ?e = Some ?x |- _ => specialize (H x H2)
  | H : forall r, Some ?x = Some r -> _ |- _ => specialize (H x eq_refl)
  | H : forall r, None = Some r -> _ |- _ => clear H
  end.
Ltac vsubst := repeat match goal with
  | H : ?x = None |- _ => is_var x; subst x
  | H : ?x = Some _ |- _ => is_var x; subst x
  | H : ?x = false |- _ => is_var x; subst x
  | H : ?x = true |- _ => is_var x; subst x
  | H : Some _ = Some _ |- _ => injection H as H
  end.
Ltac arith := unfold compat, rev_eqb, major, bump_major, bump_minor in *; simpl in *;
  repeat match goal with
  | H : Nat.eqb _ _ = true |- _ => apply Nat.eqb_eq in H
  | H : Nat.eqb _ _ = false |- _ => apply Nat.eqb_neq in H
  | H : andb _ _ = true |- _ => apply andb_true_iff in H; destruct H
  end.
Ltac cheap := solve [ assumption | discriminate | reflexivity | exact I | congruence ].
Ltac mid := solve [ tauto | lia | intuition (try discriminate; try congruence; try lia) ].
Ltac fresh_tac := solve [ eexists; split; [reflexivity|]; simpl; intuition (try discriminate; try congruence) ].
Ltac fin1 := simpl in *; rewrite ?app_nil_r in *; spec_all; first [ cheap | mid | fresh_tac | idtac ].
Ltac fin2 := rewrite ?Bool.andb_false_r, ?Bool.andb_true_r, ?Bool.orb_false_r, ?Bool.orb_true_r in *; vsubst; fin1.
Ltac goal1 := unf; simpl; intros; gsplit; first [ cheap | fin2 ].
Ltac fin3 := fin2; arith; fin1.
