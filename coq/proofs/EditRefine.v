(* C09 proofs, second part: the selection actions and the arrival of a new result list refine the
   spec's step function sstep_list on the abstraction sabs (what a redraw shows of a model state). *)
From Fzf Require Import Prelude EditSpec EditModel EditProofs.
Open Scope Z_scope.

(* the actions that (may) change the selection *)
Definition is_selection_action (a : act) : bool :=
  match a with
  | AToggle | AToggleIn | AToggleOut | ASelect | ADeselect | ASelectAll | ADeselectAll | AToggleAll | AClearSelection => true
  | _ => false
  end.

(* the list cursor is where a redraw (constrain) leaves it: inside the list, 0 when the list is empty *)
Definition cur_shown (s : st) : Prop := 0 <= s_cy s <= Z.max 0 (count s - 1).

Lemma get_nth_error {A} (l : list A) : forall n x, get l n = Ok x -> nth_error l n = Some x.
Proof. induction l as [|y l IH]; intros n x H; destruct n; cbn in *; try discriminate; [now inversion H|auto]. Qed.

Lemma filter_id {A} (f : A -> bool) l : (forall x, In x l -> f x = true) -> filter f l = l.
Proof.
  induction l as [|x l IH]; intro H; cbn; [reflexivity|]. rewrite (H x (or_introl eq_refl)). f_equal.
  apply IH. intros y Hy. apply H. now right.
Qed.
Lemma filter_filter {A} (f g : A -> bool) l : filter f (filter g l) = filter (fun x => g x && f x) l.
Proof. induction l as [|x l IH]; cbn; [reflexivity|]. destruct (g x); cbn; [destruct (f x)|]; now rewrite IH. Qed.
Lemma filter_ext_in' {A} (f g : A -> bool) l : (forall x, In x l -> f x = g x) -> filter f l = filter g l.
Proof.
  induction l as [|x l IH]; intro H; cbn; [reflexivity|]. rewrite (H x (or_introl eq_refl)).
  rewrite IH; [reflexivity|]. intros y Hy. apply H. now right.
Qed.

Lemma sel_mem_false_iff i sel : sel_mem i sel = false <-> (forall x, In x sel -> idx x <> i).
Proof.
  unfold sel_mem. induction sel as [|y l IH]; cbn; [tauto|]. rewrite orb_false_iff, IH, Z.eqb_neq. split.
  - intros [H1 H2] x [<-|Hx]; auto.
  - intro H. split; [apply H; now left|]. intros x Hx. apply H. now right.
Qed.
Lemma sel_mem_true_iff i sel : sel_mem i sel = true <-> exists x, In x sel /\ idx x = i.
Proof.
  unfold sel_mem. rewrite existsb_exists. split; intros (x & Hx & E); exists x; (split; [exact Hx|]); now apply Z.eqb_eq.
Qed.
Lemma sel_mem_cons i it r : sel_mem i (it :: r) = (idx it =? i) || sel_mem i r.
Proof. reflexivity. Qed.

Lemma sel_remove_absent i sel : sel_mem i sel = false -> sel_remove i sel = sel.
Proof.
  intro M. unfold sel_remove. apply filter_id. intros x Hx. rewrite sel_mem_false_iff in M.
  apply negb_true_iff, Z.eqb_neq. now apply M.
Qed.

Lemma sel_remove_all_nil sel : sel_remove_all [] sel = sel.
Proof. unfold sel_remove_all. now apply filter_id. Qed.
Lemma sel_remove_all_cons it r sel : sel_remove_all (it :: r) sel = sel_remove_all r (deselect_item it sel).
Proof.
  unfold sel_remove_all, deselect_item. rewrite filter_filter. apply filter_ext_in'. intros x _.
  rewrite sel_mem_cons, negb_orb, (Z.eqb_sym (idx it)). reflexivity.
Qed.
Lemma sel_remove_all_cons_absent it r sel : sel_mem (idx it) sel = false -> sel_remove_all (it :: r) sel = sel_remove_all r sel.
Proof. intro M. rewrite sel_remove_all_cons. change (deselect_item it sel) with (sel_remove (idx it) sel). now rewrite sel_remove_absent. Qed.

(* deselect-all is the spec's "remove the lines of the result list" *)
Lemma deselect_all_loop_spec rs : forall sel, deselect_all_loop rs sel = sel_remove_all rs sel.
Proof.
  induction rs as [|it r IH]; intro sel; cbn [deselect_all_loop]; [now rewrite sel_remove_all_nil|].
  destruct sel as [|x sel]; [reflexivity|]. now rewrite IH, sel_remove_all_cons.
Qed.

Section Refine.
  Variable c : cfg.

  (* ---------------------------------------------------------------- toggle-all *)
  (* first loop: the selected result lines are unselected, their positions recorded *)
  Lemma toggle_all_first_spec rs : forall i sel, NoDup (map idx rs) ->
    snd (toggle_all_first rs i sel) = sel_remove_all rs sel /\
    (forall j, (j < i)%nat -> existsb (Nat.eqb j) (fst (toggle_all_first rs i sel)) = false) /\
    (forall k it, nth_error rs k = Some it ->
       existsb (Nat.eqb (i + k)) (fst (toggle_all_first rs i sel)) = sel_mem (idx it) sel).
  Proof.
    induction rs as [|it r IH]; intros i sel ND; cbn [toggle_all_first].
    - cbn [fst snd]. rewrite sel_remove_all_nil. split; [reflexivity|]. split; [reflexivity|].
      intros k x H. destruct k; discriminate H.
    - cbn [map] in ND. inversion ND as [|? ? NI ND']; subst.
      destruct sel as [|x0 sel0].
      + cbn [fst snd]. split; [reflexivity|]. split; [reflexivity|]. intros; reflexivity.
      + set (sel := x0 :: sel0) in *. clearbody sel.
        destruct (sel_mem (idx it) sel) eqn:M.
        * destruct (IH (S i) (deselect_item it sel) ND') as (A1 & A2 & A3).
          destruct (toggle_all_first r (S i) (deselect_item it sel)) as [ps sel'] eqn:T. cbn [fst snd] in *.
          split; [now rewrite sel_remove_all_cons|]. split.
          -- intros j Hj. cbn [existsb]. rewrite A2 by lia. rewrite orb_false_r. apply Nat.eqb_neq. lia.
          -- intros k y Hk. cbn [existsb]. destruct k as [|k].
             ++ cbn in Hk. inversion Hk; subst y. rewrite Nat.add_0_r, Nat.eqb_refl, M. reflexivity.
             ++ cbn [nth_error] in Hk.
                replace (Nat.eqb (i + S k) i) with false by (symmetry; apply Nat.eqb_neq; lia). cbn [orb].
                replace (i + S k)%nat with (S i + k)%nat by lia. rewrite (A3 k y Hk), sel_mem_deselect.
                assert (D : idx y =? idx it = false).
                { apply Z.eqb_neq. intro E. apply NI. rewrite <- E. apply in_map. eapply nth_error_In; eauto. }
                rewrite D. apply andb_true_r.
        * destruct (IH (S i) sel ND') as (A1 & A2 & A3).
          split; [now rewrite sel_remove_all_cons_absent|]. split.
          -- intros j Hj. apply A2. lia.
          -- intros k y Hk. destruct k as [|k].
             ++ cbn in Hk. inversion Hk; subst y. rewrite Nat.add_0_r, M. apply A2. lia.
             ++ cbn [nth_error] in Hk. replace (i + S k)%nat with (S i + k)%nat by lia. now apply A3.
  Qed.

  (* second loop: the result lines that were not selected are added in order, up to the limit *)
  Lemma toggle_all_second_spec rs sel0 prev : forall i acc,
    (forall k it, nth_error rs k = Some it -> existsb (Nat.eqb (i + k)) prev = sel_mem (idx it) sel0) ->
    toggle_all_second c rs i prev acc =
    sel_add_all (c_multi c) (filter (fun it => negb (sel_mem (idx it) sel0)) rs) acc.
  Proof.
    induction rs as [|it r IH]; intros i acc P; cbn [toggle_all_second filter]; [reflexivity|].
    assert (P' : forall k y, nth_error r k = Some y -> existsb (Nat.eqb (S i + k)) prev = sel_mem (idx y) sel0).
    { intros k y Hk. replace (S i + k)%nat with (i + S k)%nat by lia. now apply P. }
    pose proof (P O it eq_refl) as P0. rewrite Nat.add_0_r in P0. rewrite P0.
    destruct (sel_mem (idx it) sel0); cbn [negb].
    - now apply IH.
    - cbn [sel_add_all]. rewrite select_item_spec. destruct (sel_add (c_multi c) it acc) as [[] acc']; [now apply IH|reflexivity].
  Qed.

  Lemma toggle_all_spec rs sel : NoDup (map idx rs) ->
    (let '(prev, sel') := toggle_all_first rs O sel in toggle_all_second c rs O prev sel') =
    sel_toggle_all (c_multi c) rs sel.
  Proof.
    intro ND. destruct (toggle_all_first_spec rs O sel ND) as (A1 & _ & A3).
    destruct (toggle_all_first rs 0 sel) as [prev sel']. cbn [fst snd] in *. subst sel'.
    unfold sel_toggle_all. apply toggle_all_second_spec. exact A3.
  Qed.

  (* ---------------------------------------------------------------- the current line *)
  Lemma cur_cases s : cur_in s ->
    (count s = 0 /\ current_item s = Ok None /\ ss_current (sabs s) = None) \/
    (0 < count s /\ exists it, current_item s = Ok (Some it) /\ ss_current (sabs s) = Some it).
  Proof.
    intros [Z0|R].
    - left. split; [exact Z0|]. unfold current_item, ss_current, ss_count. cbn [sabs ss_pos ss_res]. fold (count s).
      rewrite Z0. rewrite clamp_pos_0. cbn. rewrite andb_false_r. split; reflexivity.
    - right. split; [lia|]. unfold current_item, ss_current, ss_count. cbn [sabs ss_pos ss_res]. fold (count s).
      rewrite (clamp_pos_in _ _ R).
      replace (0 <=? s_cy s) with true by (symmetry; apply Z.leb_le; lia).
      replace (0 <? count s) with true by (symmetry; apply Z.ltb_lt; lia).
      replace (s_cy s <? count s) with true by (symmetry; apply Z.ltb_lt; lia). cbn [andb].
      destruct (get_total (s_res s) (Z.to_nat (s_cy s))) as [it G]; [unfold count in R; lia|].
      exists it. rewrite G. cbn [bind]. split; [reflexivity|]. now apply get_nth_error.
  Qed.

  (* ---------------------------------------------------------------- every selection action but toggle-in / toggle-out *)
  Theorem selection_refines_spec_strong : forall s a s',
    is_selection_action a = true -> a <> AToggleIn -> a <> AToggleOut -> cur_in s -> NoDup (map idx (s_res s)) ->
    do_list c s a = Ok s' ->
    ss_sel (sstep_list (sp_of c) (sabs s) a) = s_sel s' /\
    ss_pos (sstep_list (sp_of c) (sabs s) a) = clamp_pos (count s') (s_cy s') /\
    ss_res (sstep_list (sp_of c) (sabs s) a) = s_res s' /\ s_res s' = s_res s /\ s_cy s' = s_cy s.
  Proof.
    intros s a s' SA NI NO I ND H.
    assert (M0 : (0 <? sp_multi (sp_of c)) = multi_on c) by reflexivity.
    destruct a; try discriminate SA; try congruence; cbn [do_list] in H; cbn [sstep_list]; rewrite ?M0.
    - (* toggle *)
      unfold stoggle. rewrite M0.
      destruct (cur_cases s I) as [(Z0 & C & SC) | (P & it & C & SC)]; rewrite SC.
      + rewrite Z0 in H. change (0 <? 0) with false in H. rewrite andb_false_r in H. inv_ok. cbn. auto.
      + replace (0 <? count s) with true in H by (symmetry; apply Z.ltb_lt; lia). rewrite andb_true_r in H.
        destruct (multi_on c); [|inv_ok; cbn; auto].
        unfold toggle_current in H. rewrite C in H. cbn [bind] in H. rewrite toggle_item_spec in H.
        cbn [sp_of sp_multi sabs ss_sel].
        destruct (sel_toggle (c_multi c) it (s_sel s)) as [ok sel]. inv_ok. cbn. auto.
    - (* select *)
      destruct (cur_cases s I) as [(Z0 & C & SC) | (P & it & C & SC)]; rewrite SC; rewrite C in H; cbn [bind] in H; inv_ok.
      + cbn. auto.
      + destruct (multi_on c); [|cbn; auto]. cbn [andb sp_of sp_multi sabs ss_sel].
        destruct (sel_mem (idx it) (s_sel s)) eqn:Mm; cbn [negb].
        * unfold sel_add. rewrite Mm. destruct (c_multi c <=? Z.of_nat (length (s_sel s))); cbn; auto.
        * rewrite select_item_spec. cbn. auto.
    - (* deselect *)
      destruct (cur_cases s I) as [(Z0 & C & SC) | (P & it & C & SC)]; rewrite SC; rewrite C in H; cbn [bind] in H; inv_ok.
      + cbn. auto.
      + destruct (multi_on c); [|cbn; auto]. cbn [andb sabs ss_sel].
        destruct (sel_mem (idx it) (s_sel s)) eqn:Mm.
        * cbn. auto.
        * rewrite (sel_remove_absent _ _ Mm). cbn. auto.
    - (* select-all *)
      inv_ok. destruct (multi_on c); cbn; auto. rewrite select_all_loop_spec. auto.
    - (* deselect-all *)
      inv_ok. destruct (multi_on c); cbn; auto. rewrite deselect_all_loop_spec. auto.
    - (* toggle-all *)
      inv_ok. destruct (multi_on c); [|cbn; auto].
      pose proof (toggle_all_spec (s_res s) (s_sel s) ND) as T.
      destruct (toggle_all_first (s_res s) 0 (s_sel s)) as [prev sel']. cbn. rewrite T. auto.
    - (* clear-selection *)
      inv_ok. destruct (multi_on c); cbn; auto.
  Qed.

  Theorem selection_refines_spec_proof : forall s a s',
    is_selection_action a = true -> a <> AToggleIn -> a <> AToggleOut -> cur_in s -> NoDup (map idx (s_res s)) ->
    do_list c s a = Ok s' ->
    map idx (ss_sel (sstep_list (sp_of c) (sabs s) a)) = map idx (s_sel s') /\
    ss_pos (sstep_list (sp_of c) (sabs s) a) = clamp_pos (count s') (s_cy s').
  Proof.
    intros s a s' SA NI NO I ND H.
    destruct (selection_refines_spec_strong s a s' SA NI NO I ND H) as (E1 & E2 & _). now rewrite E1.
  Qed.

  (* ---------------------------------------------------------------- a new result list *)
  Lemma cur_shown_in s : cur_shown s -> cur_in s.
  Proof. unfold cur_shown, cur_in. intro H. destruct (Z.eq_dec (count s) 0); [now left|right]. unfold count in *. lia. Qed.

  Lemma cur_shown_clamp s : cur_shown s <-> clamp_pos (count s) (s_cy s) = s_cy s.
  Proof. unfold cur_shown, clamp_pos, clampz. assert (0 <= count s) by (unfold count; lia). split; intro; zcases; lia. Qed.

  (* a redraw establishes cur_shown *)
  Lemma constrain_cur_shown s s' : 1 <= c_maxitems c -> constrain c s = Ok s' -> cur_shown s'.
  Proof.
    intros M H. apply constrain_cy in H as (Cy & R & _); [|exact M].
    unfold cur_shown. assert (Cs : count s' = count s) by (unfold count; now rewrite R). rewrite Cs, Cy.
    apply constrain_z_range. lia.
  Qed.
End Refine.

Theorem update_refines_spec_proof : forall is_alnum c s rs reload s',
  c_track c = false -> cur_shown s ->
  do_action is_alnum c s (AUpdate rs reload) = Ok s' ->
  sabs s' = sstep_list (sp_of c) (sabs s) (AUpdate rs reload).
Proof.
  intros is_alnum c s rs reload s' T Sh H.
  unfold EditModel.do_action in H. cbn [is_edit do_list is_action] in H. rewrite andb_false_r in H.
  unfold update_list in H. rewrite T, andb_false_r in H. cbn [bind] in H.
  change (0 <=? -1) with false in H. cbv iota in H. inv_ok.
  apply cur_shown_clamp in Sh.
  cbn [sstep_list]. unfold sabs, zabs, count. cbn [s_input s_cx s_yanked s_res s_cy s_sel ss_zip ss_pos ss_sel].
  fold (count s). rewrite Sh. reflexivity.
Qed.

(* the hypothesis cur_shown of update_refines_spec cannot be dropped, and cur_in is not enough: between two
   redraws UpdateList leaves t.cy alone, so a cursor beyond the end of a short (here: empty) list comes back
   when a longer list arrives, whereas the spec clamps at every step *)
Lemma update_needs_redraw_proof :
  exists c s rs, c_track c = false /\ cur_in s /\
    exists s', do_action (fun _ => true) c s (AUpdate rs false) = Ok s' /\
               sabs s' <> sstep_list (sp_of c) (sabs s) (AUpdate rs false).
Proof.
  exists (mkCfg 0 false true false false 5 0 false), (mkSt [] 0 [] [] 1 0 []), [(0, [97]); (1, [98]); (2, [99])].
  split; [reflexivity|]. split; [left; reflexivity|]. eexists. split; [reflexivity|]. vm_compute. discriminate.
Qed.
