From Fzf Require Import Prelude SearchStrSpec SearchStrModel.
Open Scope Z_scope.

Lemma tq_run_input : forall h s, tq_input (tq_run s h) = line_after (tq_input s) h.
Proof.
  induction h as [|a h IH]; intros s; [reflexivity|].
  unfold tq_run, line_after in *. cbn [fold_left]. rewrite IH. destruct a; reflexivity.
Qed.

Lemma tq_run_over : forall h s,
  tq_over (tq_run s h) =
  match search_str (tq_input s) h with
  | Some y => Some y
  | None => if unchanged (tq_input s) h then tq_over s else None
  end.
Proof.
  induction h as [|a h IH]; intros s; [reflexivity|].
  unfold tq_run in *. cbn [fold_left]. rewrite IH. destruct a as [x|n]; cbn.
  - destruct (search_str (tq_input s) h); [reflexivity|].
    destruct (unchanged (tq_input s) h); reflexivity.
  - destruct (search_str n h); [reflexivity|].
    destruct (str_eqb (tq_input s) n); destruct (unchanged n h); reflexivity.
Qed.

(* the model computes the spec's query in effect, for all histories *)
Theorem input_is_query_in_effect_proof : forall t0 h,
  tq_Input (tq_run (mkTq t0 None) h) = query_in_effect t0 h.
Proof.
  intros t0 h. unfold tq_Input, query_in_effect.
  rewrite tq_run_over, tq_run_input. cbn.
  destruct (search_str t0 h); [reflexivity|]. destruct (unchanged t0 h); reflexivity.
Qed.

Lemma search_str_app_edit : forall h t n,
  line_after t h <> n -> search_str t (h ++ [QEdit n]) = None.
Proof.
  assert (U : forall (h : list qact) (t n : str), line_after t h <> n -> unchanged t (h ++ [QEdit n]) = false).
  { induction h as [|a h IH]; intros t n H; cbn in *.
    - destruct (str_eqb t n) eqn:E; [apply str_eqb_eq in E; contradiction|reflexivity].
    - destruct a as [x|m]; cbn in *.
      + apply IH. exact H.
      + rewrite (IH m n H). apply andb_false_r. }
  induction h as [|a h IH]; intros t n H; [reflexivity|].
  destruct a as [x|m]; cbn in *.
  - rewrite (IH t n H). rewrite (U h t n H). reflexivity.
  - apply IH. exact H.
Qed.

(* the most recent query is never left with an older search string: after an action that changes the text of
   the query line to n, the query in effect is n - whatever came before, whatever the lengths *)
Theorem changed_query_in_effect_proof : forall t0 h n,
  line_after t0 h <> n -> query_in_effect t0 (h ++ [QEdit n]) = n.
Proof.
  intros t0 h n H. unfold query_in_effect. rewrite (search_str_app_edit h t0 n H).
  unfold line_after. rewrite fold_left_app. reflexivity.
Qed.

(* a search action is in force at once, and an action that leaves the text of the line as it is keeps it *)
Theorem search_in_effect_proof : forall t0 h x, query_in_effect t0 (h ++ [QSearch x]) = x.
Proof.
  intros t0 h x. unfold query_in_effect.
  assert (S : forall (l : list qact) (t : str), search_str t (l ++ [QSearch x]) = Some x).
  { induction l as [|a l IH]; intros t; cbn; [reflexivity|]. destruct a; rewrite IH; reflexivity. }
  rewrite S. reflexivity.
Qed.

Theorem same_text_keeps_proof : forall t0 h,
  query_in_effect t0 (h ++ [QEdit (line_after t0 h)]) = query_in_effect t0 h.
Proof.
  intros t0 h. rewrite <- !input_is_query_in_effect_proof.
  unfold tq_run. rewrite fold_left_app. cbn. unfold tq_Input. cbn.
  fold (tq_run (mkTq t0 None) h). rewrite tq_run_input. cbn.
  assert (E : str_eqb (line_after t0 h) (line_after t0 h) = true) by (apply str_eqb_eq; reflexivity).
  rewrite E. destruct (tq_over (tq_run (mkTq t0 None) h)); reflexivity.
Qed.
