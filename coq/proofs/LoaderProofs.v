(* C13 proofs for the loading side with several pushers (spec/LoaderSpec.v, model/LoaderModel.v).
   1. the numbering vocabulary: numbering_gaps decides `numbered`; a suffix of a numbered list is numbered
   2. ONE reader: every snapshot is a suffix of (without --tail: exactly) the numbered lines read so far
   3. the model with several pushers, for EVERY schedule, is the chunk-store run of that one reader on the lines in
      commit order (through ChunkStoreRefine: what its list and its snapshots dereference to)
   4. the builder outside the lock: witnesses (duplicate indexes; items out of index order) *)
From Fzf Require Import Prelude SearchSpec LoaderSpec ChunkStoreModel LoaderModel ChunkStoreProofs ChunkStoreRefine.
Open Scope Z_scope.

(* ---------- 1. numbering ---------- *)
Lemma zseq_length a n : length (zseq a n) = n.
Proof. revert a; induction n as [|n IH]; intro a; cbn; [reflexivity | now rewrite IH]. Qed.

Lemma zseq_snoc a n : zseq a (S n) = zseq a n ++ [a + Z.of_nat n].
Proof.
  revert a; induction n as [|n IH]; intro a.
  - cbn. now rewrite Z.add_0_r.
  - change (zseq a (S (S n))) with (a :: zseq (a + 1) (S n)). rewrite IH. cbn [zseq app]. do 3 f_equal. lia.
Qed.

Lemma zseq_In a n x : In x (zseq a n) -> a <= x < a + Z.of_nat n.
Proof.
  revert a; induction n as [|n IH]; intros a H; [destruct H|].
  destruct H as [<-|H]; [lia|]. apply IH in H. lia.
Qed.

Lemma zseq_NoDup a n : NoDup (zseq a n).
Proof.
  revert a; induction n as [|n IH]; intro a; cbn; constructor; [|apply IH].
  intro H. apply zseq_In in H. lia.
Qed.

Lemma zseq_split a n p q : zseq a n = p ++ q -> q = zseq (a + Z.of_nat (length p)) (length q).
Proof.
  revert a n; induction p as [|x p IH]; intros a n H.
  - cbn in *. subst q. rewrite zseq_length, Z.add_0_r. reflexivity.
  - destruct n as [|n]; [discriminate|]. cbn in H. inversion H as [[Hx Hr]]. apply IH in Hr. rewrite Hr at 1.
    f_equal. cbn [length]. lia.
Qed.

Lemma gaps_from_none pos prev l : gaps_from pos prev l = [] <-> l = zseq (prev + 1) (length l).
Proof.
  revert pos prev; induction l as [|x r IH]; intros pos prev; cbn [gaps_from length zseq]; [tauto|].
  destruct (Z.eqb_spec x (prev + 1)) as [->|Hne].
  - cbn [app]. rewrite IH. split; intro H; [now rewrite <- H | injection H as H1; exact H1].
  - split; [discriminate | intro H; inversion H; contradiction].
Qed.

(* THEOREM numbering_gaps_none: the check evaluated on the running program means what it says *)
Theorem numbering_gaps_none_proof : forall l, numbering_gaps l = [] <-> numbered l.
Proof.
  intros [|a r]; cbn [numbering_gaps numbered]; [tauto|]. rewrite gaps_from_none. cbn [length zseq].
  split; intro H; [now rewrite <- H | injection H as H1; exact H1].
Qed.

Lemma numbered_NoDup l : numbered l -> NoDup l.
Proof. destruct l as [|a r]; intro H; [constructor|]. unfold numbered in H. rewrite H. apply zseq_NoDup. Qed.

Lemma zseq_numbered a l : l = zseq a (length l) -> numbered l.
Proof.
  destruct l as [|b r]; intro H; [exact I|]. cbn [length zseq] in H. injection H as Hb Hr. subst b.
  unfold numbered. cbn [length zseq]. f_equal. exact Hr.
Qed.

Section Numbering.
  Context {D : Type}.

  Lemma number_from_fst a (ds : list D) : map fst (number_from a ds) = zseq a (length ds).
  Proof.
    unfold number_from. revert a; induction ds as [|d r IH]; intro a; cbn; [reflexivity | now rewrite IH].
  Qed.

  Lemma number_from_snoc a (ds : list D) d :
    number_from a (ds ++ [d]) = number_from a ds ++ [(a + Z.of_nat (length ds), d)].
  Proof.
    unfold number_from. revert a; induction ds as [|x r IH]; intro a.
    - cbn. now rewrite Z.add_0_r.
    - cbn [app length zseq combine]. rewrite IH. cbn [app]. do 4 f_equal. lia.
  Qed.

  Lemma number_from_nth a (ds : list D) i d : In (i, d) (number_from a ds) ->
    a <= i /\ nth_error ds (Z.to_nat (i - a)) = Some d.
  Proof.
    unfold number_from. revert a; induction ds as [|x r IH]; intros a H; [destruct H|].
    cbn in H. destruct H as [H|H].
    - inversion H; subst. split; [lia|]. now rewrite Z.sub_diag.
    - apply IH in H. destruct H as [H1 H2]. split; [lia|].
      replace (Z.to_nat (i - a)) with (S (Z.to_nat (i - (a + 1)))) by lia. exact H2.
  Qed.

  (* THEOREM suffix_numbered: whatever part of the numbered lines a list holds, provided it is what is left after
     dropping items from the FRONT, its indexes number its positions, no index occurs twice, and the item with index i
     is the i-th line *)
  Theorem suffix_numbered_proof : forall a (X : list D) pre l, number_from a X = pre ++ l ->
    numbered (map fst l) /\ NoDup (map fst l) /\
    forall i d, In (i, d) l -> a <= i /\ nth_error X (Z.to_nat (i - a)) = Some d.
  Proof.
    intros a X pre l H.
    assert (Hn : numbered (map fst l)).
    { pose proof (f_equal (map fst) H) as H1. rewrite number_from_fst, map_app in H1.
      apply zseq_split in H1. eapply zseq_numbered; eauto. }
    split; [exact Hn|]. split; [now apply numbered_NoDup|].
    intros i d Hin. apply number_from_nth. rewrite H. apply in_or_app. now right.
  Qed.
End Numbering.

(* ---------- 2. one reader ---------- *)
Section Reader.
  Context {D : Type}.
  Variable h : nat.
  Notation N done := (number_from 0 (skipn h done)).

  Lemma trim_suffix (t : nat) (cur : list (Z * D)) : exists front, cur = front ++ trim t cur.
  Proof.
    unfold trim. destruct (Nat.ltb 0 t && Nat.ltb t (length cur))%bool; [|now exists []].
    exists (firstn (length cur - t) cur). unfold last_n. now rewrite firstn_skipn.
  Qed.

  Lemma trim_0 (cur : list (Z * D)) : trim 0 cur = cur.
  Proof. reflexivity. Qed.

  Definition rinv (done : list D) (nh : nat) (next : Z) (cur : list (Z * D)) : Prop :=
    nh = Nat.min h (length done) /\ next = Z.of_nat (length (skipn h done)) /\ exists pre, N done = pre ++ cur.

  Lemma rinv_line done nh next cur d : rinv done nh next cur ->
    if Nat.ltb nh h then rinv (done ++ [d]) (S nh) next cur
    else rinv (done ++ [d]) nh (next + 1) (cur ++ [(next, d)]).
  Proof.
    intros (Hnh & Hnx & pre & Hpre). destruct (Nat.ltb_spec nh h) as [Hlt|Hge].
    - assert (Hl : (length done < h)%nat) by lia.
      unfold rinv. rewrite app_length. cbn [length].
      assert (E1 : skipn h (done ++ [d]) = []) by (apply skipn_all2; rewrite app_length; cbn; lia).
      assert (E2 : skipn h done = []) by (apply skipn_all2; lia).
      rewrite E1. rewrite E2 in Hnx, Hpre. split; [lia|]. split; [exact Hnx|]. exists pre. exact Hpre.
    - assert (Hl : (h <= length done)%nat) by lia.
      unfold rinv. rewrite app_length. cbn [length].
      assert (E1 : skipn h (done ++ [d]) = skipn h done ++ [d]).
      { rewrite skipn_app. replace (h - length done)%nat with 0%nat by lia. reflexivity. }
      rewrite E1, app_length. cbn [length]. split; [lia|]. split; [lia|].
      exists pre. rewrite number_from_snoc, Hpre, Z.add_0_l, <- Hnx. now rewrite app_assoc.
  Qed.

  Lemma rinv_trim done nh next cur t : rinv done nh next cur -> rinv done nh next (trim t cur).
  Proof.
    intros (Hnh & Hnx & pre & Hpre). split; [exact Hnh|]. split; [exact Hnx|].
    destruct (trim_suffix t cur) as [front Hf]. exists (pre ++ front). rewrite <- app_assoc, <- Hf. exact Hpre.
  Qed.

  Lemma reader_general (tr : list (sop D)) : forall done nh next cur, rinv done nh next cur ->
    Forall2 (fun l dn => exists pre, N dn = pre ++ l) (live cur (reader_lops h nh next tr)) (snap_prefixes done tr) /\
    rinv (done ++ lines_of tr) (Nat.min h (length (done ++ lines_of tr)))
         (Z.of_nat (length (skipn h (done ++ lines_of tr)))) (live_end cur (reader_lops h nh next tr)).
  Proof.
    induction tr as [|o r IH]; intros done nh next cur Hinv.
    - cbn. split; [constructor|]. rewrite app_nil_r. destruct Hinv as (-> & -> & Hp). split; [reflexivity|]. split; [reflexivity | exact Hp].
    - destruct o as [d|t].
      + pose proof (rinv_line _ _ _ _ d Hinv) as Hl. cbn [reader_lops snap_prefixes lines_of].
        replace (done ++ d :: lines_of r) with ((done ++ [d]) ++ lines_of r) by (now rewrite <- app_assoc).
        destruct (Nat.ltb nh h); cbn [live live_end]; now apply IH.
      + cbn [reader_lops snap_prefixes lines_of live live_end].
        pose proof (rinv_trim _ _ _ _ t Hinv) as Ht. destruct (IH _ _ _ _ Ht) as [IH1 IH2].
        split; [|exact IH2]. constructor; [|exact IH1]. now destruct Ht as (_ & _ & Hp).
  Qed.

  Lemma rinv_init : rinv [] 0 0 [].
  Proof. split; [now rewrite Nat.min_0_r|]. rewrite skipn_nil. split; [reflexivity|]. now exists []. Qed.

  (* THEOREM reader_snapshots_are_suffixes *)
  Theorem reader_suffixes_proof : forall tr : list (sop D),
    Forall2 (fun l dn => exists pre, N dn = pre ++ l) (live [] (reader_lops h 0 0 tr)) (snap_prefixes [] tr) /\
    exists pre, N (lines_of tr) = pre ++ live_end [] (reader_lops h 0 0 tr).
  Proof.
    intro tr. destruct (reader_general tr _ _ _ _ rinv_init) as [H1 H2]. split; [exact H1|].
    cbn [app] in H2. now destruct H2 as (_ & _ & Hp).
  Qed.

  (* without --tail nothing is ever dropped: a snapshot IS the numbered lines read so far - the frozen prefix *)
  Definition no_tail (tr : list (sop D)) : Prop :=
    Forall (fun o => match o with SSnap t => t = 0%nat | SLine _ => True end) tr.

  Lemma reader_exact_general (tr : list (sop D)) : no_tail tr -> forall done nh next,
    nh = Nat.min h (length done) -> next = Z.of_nat (length (skipn h done)) ->
    live (N done) (reader_lops h nh next tr) = map (fun dn => N dn) (snap_prefixes done tr) /\
    live_end (N done) (reader_lops h nh next tr) = N (done ++ lines_of tr).
  Proof.
    induction 1 as [|o r Ho Hr IH]; intros done nh next Hnh Hnx.
    - cbn. now rewrite app_nil_r.
    - destruct o as [d|t].
      + assert (Hinv : rinv done nh next (N done)) by (split; [exact Hnh|]; split; [exact Hnx | now exists []]).
        pose proof (rinv_line _ _ _ _ d Hinv) as Hl. cbn [reader_lops snap_prefixes lines_of].
        replace (done ++ d :: lines_of r) with ((done ++ [d]) ++ lines_of r) by (now rewrite <- app_assoc).
        destruct (Nat.ltb_spec nh h) as [Hlt|Hge]; cbn [live live_end]; destruct Hl as (Hn1 & Hn2 & _).
        * assert (E : N (done ++ [d]) = N done).
          { rewrite !skipn_all2; [reflexivity | lia | rewrite app_length; cbn; lia]. }
          rewrite <- E. now apply IH.
        * assert (E : N (done ++ [d]) = N done ++ [(next, d)]).
          { rewrite skipn_app. replace (h - length done)%nat with 0%nat by lia. cbn [skipn].
            rewrite number_from_snoc, Z.add_0_l, <- Hnx. reflexivity. }
          rewrite <- E. now apply IH.
      + subst t. cbn [reader_lops snap_prefixes lines_of live live_end map]. rewrite trim_0.
        destruct (IH done nh next Hnh Hnx) as [I1 I2]. now rewrite I1, I2.
  Qed.

  Theorem reader_exact_proof : forall tr : list (sop D), no_tail tr ->
    live [] (reader_lops h 0 0 tr) = map (fun dn => N dn) (snap_prefixes [] tr) /\
    live_end [] (reader_lops h 0 0 tr) = N (lines_of tr).
  Proof.
    intros tr Hnt.
    assert (E : N (@nil D) = []) by (now rewrite skipn_nil).
    rewrite <- E. apply (reader_exact_general tr Hnt [] 0%nat 0); [now rewrite Nat.min_0_r | now rewrite skipn_nil].
  Qed.
End Reader.

(* ---------- 3. several pushers ---------- *)
Section Pushers.
  Context {D : Type}.
  Notation itemT := (Z * D)%type.
  Variable h : nat.

  Definition cop_of (o : lop itemT) : cop itemT :=
    match o with LPush x => CPush x | LReject => CReject | LClear => CClear | LSnap t => CSnap t end.

  Lemma lop_cop (ops : list (lop itemT)) : map lop_of (map cop_of ops) = ops.
  Proof. induction ops as [|o r IH]; [reflexivity|]. cbn. rewrite IH. now destruct o. Qed.

  (* every run of the model, whoever pushes when, is the chunk-store run of the ONE reader on the lines in commit order *)
  Lemma ld_run_as_crun (sched : list llabel) : forall (st st' : lstate D),
    (length (b_header (ls_b st)) <= h)%nat ->
    ld_run h st sched = Ok st' ->
    let tr := linearise (ls_q st) sched in
    let nh := length (b_header (ls_b st)) in
    crun (ls_cl st, ls_snaps st) (map cop_of (reader_lops h nh (b_next (ls_b st)) tr)) = Ok (ls_cl st', ls_snaps st') /\
    b_header (ls_b st') = b_header (ls_b st) ++ firstn (h - nh) (lines_of tr) /\
    b_next (ls_b st') = b_next (ls_b st) + Z.of_nat (length (skipn (h - nh) (lines_of tr))).
  Proof.
    induction sched as [|l r IH]; intros st st' Hh H; cbn [ld_run] in H.
    - inversion H; subst. cbn. rewrite firstn_nil, skipn_nil, app_nil_r. cbn. split; [reflexivity|]. split; [reflexivity | lia].
    - bind_inv H. rename a into st1. destruct l as [p|t]; cbn [ld_step] in Hget; cbn [linearise].
      + destruct (nth_error (ls_q st) p) as [[|d rest]|] eqn:Hq.
        * inversion Hget; subst st1. now apply IH.
        * unfold build in Hget.
          destruct (Nat.ltb_spec (length (b_header (ls_b st))) h) as [Hlt|Hge].
          -- bind_inv Hget. inversion Hget; subst st1. clear Hget. destruct a as [cl1 sn1]. cbn [fst snd] in *.
             assert (Hh1 : (length (b_header (ls_b (mkLd cl1 sn1 (mkB (b_header (ls_b st) ++ [d]) (b_next (ls_b st))) (set_at (ls_q st) p rest)))) <= h)%nat).
             { cbn. rewrite app_length. cbn. lia. }
             destruct (IH _ _ Hh1 H) as (I1 & I2 & I3). cbn [ls_cl ls_snaps ls_b ls_q b_header b_next] in I1, I2, I3.
             rewrite app_length in I1, I2, I3. cbn [length] in I1, I2, I3.
             cbn [reader_lops lines_of].
             destruct (Nat.ltb_spec (length (b_header (ls_b st))) h) as [_|Hc]; [|lia].
             replace (length (b_header (ls_b st)) + 1)%nat with (S (length (b_header (ls_b st)))) in I1 by lia.
             cbn [map cop_of crun]. rewrite Hget0. cbn [bind]. split; [exact I1|].
             replace (h - length (b_header (ls_b st)))%nat with (S (h - (length (b_header (ls_b st)) + 1)))%nat by lia.
             cbn [firstn skipn]. split; [now rewrite I2, <- app_assoc | exact I3].
          -- bind_inv Hget. inversion Hget; subst st1. clear Hget. destruct a as [cl1 sn1]. cbn [fst snd] in *.
             assert (Hh1 : (length (b_header (ls_b (mkLd cl1 sn1 (mkB (b_header (ls_b st)) (b_next (ls_b st) + 1)) (set_at (ls_q st) p rest)))) <= h)%nat)
               by (cbn; lia).
             destruct (IH _ _ Hh1 H) as (I1 & I2 & I3). cbn [ls_cl ls_snaps ls_b ls_q b_header b_next] in I1, I2, I3.
             cbn [reader_lops lines_of].
             destruct (Nat.ltb_spec (length (b_header (ls_b st))) h) as [Hc|_]; [lia|].
             cbn [map cop_of crun]. rewrite Hget0. cbn [bind]. split; [exact I1|].
             replace (h - length (b_header (ls_b st)))%nat with 0%nat in * by lia.
             cbn [firstn skipn length] in *. split; [exact I2 | lia].
        * inversion Hget; subst st1. now apply IH.
      + bind_inv Hget. inversion Hget; subst st1. clear Hget. destruct a as [cl1 sn1]. cbn [fst snd] in *.
        assert (Hh1 : (length (b_header (ls_b (mkLd cl1 sn1 (ls_b st) (ls_q st)))) <= h)%nat) by (cbn; lia).
        destruct (IH _ _ Hh1 H) as (I1 & I2 & I3). cbn [ls_cl ls_snaps ls_b ls_q] in I1, I2, I3.
        cbn [reader_lops lines_of map cop_of crun]. rewrite Hget0. cbn [bind]. auto.
  Qed.

  (* THEOREM pushers_linearisable *)
  Theorem pushers_linearisable_proof : forall (qs : list (list D)) (sched : list llabel) (st : lstate D),
    ld_run h (ld_init qs) sched = Ok st ->
    let tr := linearise qs sched in
    map (fun r => contents_of (cl_store (ls_cl st)) (sn_ids r)) (rev (ls_snaps st)) = live [] (reader_lops h 0 0 tr) /\
    contents (ls_cl st) = live_end [] (reader_lops h 0 0 tr) /\
    b_header (ls_b st) = firstn h (lines_of tr) /\
    b_next (ls_b st) = Z.of_nat (length (skipn h (lines_of tr))).
  Proof.
    intros qs sched st H tr.
    destruct (ld_run_as_crun sched (ld_init qs) st) as (H1 & H2 & H3); [cbn; lia | exact H|].
    cbn [ld_init ls_cl ls_snaps ls_b ls_q b_init b_header b_next length] in H1, H2, H3.
    rewrite Nat.sub_0_r in H2, H3. fold tr in H1, H2, H3.
    destruct (chunklist_refines_live_proof _ _ _ _ H1) as [R1 R2]. rewrite lop_cop in R1, R2.
    split; [exact R1|]. split; [exact R2|]. split; [exact H2 | exact H3].
  Qed.
End Pushers.

(* ---------- 4. the builder outside the lock ---------- *)
(* two pushers, one line each (lines 10 and 20).  Both read the counter before either writes it: both items get index 0
   and the counter ends at 1 although two items were added. *)
Example unlocked_builder_duplicates_proof :
  exists st, ub_run (ub_init [[10]; [20]]) [UbRead 0; UbRead 1; UbWrite 0; UbWrite 1; UbAppend 0; UbAppend 1] = Ok st /\
    contents (us_cl st) = [(0, 10); (0, 20)] /\ us_next st = 1 /\
    numbering_gaps (map fst (contents (us_cl st))) = [1] /\ ~ NoDup (map fst (contents (us_cl st))).
Proof.
  eexists. split; [vm_compute; reflexivity|]. split; [vm_compute; reflexivity|]. split; [vm_compute; reflexivity|].
  split; [vm_compute; reflexivity|]. vm_compute. intro H. inversion H as [|? ? Hn _]. apply Hn. now left.
Qed.

(* even with an atomic counter (read and write not interleaved), appending in lock-acquisition order puts the item
   with index 1 before the item with index 0: position and index disagree *)
Example unlocked_builder_misorders_proof :
  exists st, ub_run (ub_init [[10]; [20]]) [UbRead 0; UbWrite 0; UbRead 1; UbWrite 1; UbAppend 1; UbAppend 0] = Ok st /\
    contents (us_cl st) = [(1, 20); (0, 10)] /\ numbering_gaps (map fst (contents (us_cl st))) = [1].
Proof. eexists. split; [vm_compute; reflexivity|]. split; vm_compute; reflexivity. Qed.

(* the same two pushers through the real Push (one atomic step each), in either order *)
Example locked_builder_numbers_proof :
  exists st1 st2, ld_run 0 (ld_init [[10]; [20]]) [LdPush 0; LdPush 1] = Ok st1 /\
                  ld_run 0 (ld_init [[10]; [20]]) [LdPush 1; LdSnap 0; LdPush 0] = Ok st2 /\
    contents (ls_cl st1) = [(0, 10); (1, 20)] /\ contents (ls_cl st2) = [(0, 20); (1, 10)] /\
    map (fun r => contents_of (cl_store (ls_cl st2)) (sn_ids r)) (ls_snaps st2) = [[(0, 20)]].
Proof.
  do 2 eexists. split; [vm_compute; reflexivity|]. split; [vm_compute; reflexivity|]. split; [vm_compute; reflexivity|].
  split; vm_compute; reflexivity.
Qed.
