(* FuzzyMatchV2, phases 1-2: vocabulary and list-level lemmas used by V2ScanPhase2 / V2ScanProofs.
   - folding of phase 2 (fold_v2) agrees with the spec's fold / class_of
   - plain-list subsequence test and its relation to subseq_b; window monotonicity
   - the arrays computed by the scan as plain list recursions (Bl, H0l, C0l, Fl, lastl) and their
     index-wise characterisations *)
From Fzf Require Import Prelude AlgoSpec AlgoModel V2Facts.
Open Scope Z_scope.

(* ---------- result monad ---------- *)

Lemma bind_ok {A B} (r : res A) (f : A -> res B) v :
  bind r f = Ok v -> exists a, r = Ok a /\ f a = Ok v.
Proof. destruct r as [a|e]; cbn; intros H; [eauto|discriminate]. Qed.

(* ---------- generic list facts ---------- *)

Lemma map_nth_lt (f : Z -> Z) (l : list Z) k : (k < length l)%nat -> nth k (map f l) 0 = f (nth k l 0).
Proof.
  intros H. rewrite (nth_indep (map f l) 0 (f 0)) by (rewrite map_length; exact H). apply map_nth.
Qed.

Lemma nth_app_len {A} (l m : list A) x d : nth (length l) (l ++ x :: m) d = x.
Proof. rewrite app_nth2 by lia. rewrite Nat.sub_diag. reflexivity. Qed.

Lemma nth_firstn_lt {A} (l : list A) k j d : (j < k)%nat -> nth j (firstn k l) d = nth j l d.
Proof.
  revert k j; induction l as [|a l IH]; intros [|k] [|j] H; cbn; try lia; try reflexivity.
  apply IH. lia.
Qed.

Lemma nth_skipn_add {A} (l : list A) lo j d : nth j (skipn lo l) d = nth (lo + j) l d.
Proof.
  revert l; induction lo as [|lo IH]; intros l; [reflexivity|].
  destruct l as [|a l]; cbn [skipn Nat.add nth]; [destruct j; reflexivity|apply IH].
Qed.

Lemma window_nth {A} (text : list A) lo k j d : (j < k)%nat ->
  nth j (firstn k (skipn lo text)) d = nth (lo + j) text d.
Proof. intros H. rewrite nth_firstn_lt by exact H. apply nth_skipn_add. Qed.

Lemma window_length {A} (text : list A) lo hi : (lo <= hi <= length text)%nat ->
  length (firstn (hi - lo) (skipn lo text)) = (hi - lo)%nat.
Proof. intros H. rewrite firstn_length, skipn_length. lia. Qed.

Lemma window_split {A} (text : list A) lo k :
  text = firstn lo text ++ firstn k (skipn lo text) ++ skipn k (skipn lo text).
Proof. rewrite firstn_skipn. symmetry. apply firstn_skipn. Qed.

(* ---------- plain subsequence test ---------- *)

Fixpoint subseq_plain (T pat : list Z) {struct T} : bool :=
  match pat with
  | [] => true
  | p :: pat' =>
      match T with
      | [] => false
      | c :: T' => if c =? p then subseq_plain T' pat' else subseq_plain T' pat
      end
  end.

Lemma subseq_plain_nil T : subseq_plain T [] = true.
Proof. destruct T; reflexivity. Qed.

Lemma subseq_plain_tail T : forall pat p, subseq_plain T (p :: pat) = true -> subseq_plain T pat = true.
Proof.
  induction T as [|c T IH]; intros pat p H; [discriminate|].
  destruct pat as [|q pat]; [reflexivity|].
  cbn [subseq_plain] in H |- *.
  destruct (c =? p).
  - destruct (c =? q); [eapply IH; exact H|exact H].
  - apply IH in H. destruct (c =? q); [eapply IH; exact H|exact H].
Qed.

Lemma subseq_plain_cons c T pat : subseq_plain T pat = true -> subseq_plain (c :: T) pat = true.
Proof.
  intros H. destruct pat as [|p pat]; [reflexivity|]. cbn [subseq_plain].
  destruct (c =? p); [eapply subseq_plain_tail; exact H|exact H].
Qed.

Lemma subseq_plain_app_l a T pat : subseq_plain T pat = true -> subseq_plain (a ++ T) pat = true.
Proof. intros H. induction a as [|c a IH]; [exact H|]. cbn [app]. apply subseq_plain_cons, IH. Qed.

Lemma subseq_plain_app_r T : forall b pat, subseq_plain T pat = true -> subseq_plain (T ++ b) pat = true.
Proof.
  induction T as [|c T IH]; intros b pat H.
  - destruct pat; [apply subseq_plain_nil|discriminate].
  - destruct pat as [|p pat]; [reflexivity|]. cbn [app subseq_plain] in H |- *.
    destruct (c =? p); apply IH; exact H.
Qed.

Lemma subseq_plain_window a T b pat : subseq_plain T pat = true -> subseq_plain (a ++ T ++ b) pat = true.
Proof. intros H. apply subseq_plain_app_l, subseq_plain_app_r, H. Qed.

Lemma subseq_plain_length T : forall pat, subseq_plain T pat = true -> (length pat <= length T)%nat.
Proof.
  induction T as [|c T IH]; intros [|p pat] H; cbn [length]; try lia; [discriminate|].
  cbn [subseq_plain] in H. destruct (c =? p); apply IH in H; cbn [length] in H; lia.
Qed.

Lemma subseq_plain_single T p : subseq_plain T [p] = true <-> In p T.
Proof.
  induction T as [|c T IH]; cbn [subseq_plain In].
  - split; [discriminate|tauto].
  - destruct (Z.eqb_spec c p) as [E|E].
    + rewrite subseq_plain_nil. tauto.
    + rewrite IH. split; [tauto|intros [H|H]; [contradiction|exact H]].
Qed.

Section Basics.
Variable co : char_ops.
Variable sc : scheme.

Lemma foldm_eq_fold cs nm c : foldm co cs nm c = fold co cs nm c.
Proof. reflexivity. Qed.

Lemma subseq_b_plain cs nm text : forall pat,
  subseq_b co cs nm text pat = subseq_plain (map (fold co cs nm) text) pat.
Proof.
  induction text as [|c text IH]; intros [|p pat]; try reflexivity.
  cbn [subseq_b map subseq_plain]. destruct (fold co cs nm c =? p); apply IH.
Qed.

(* a subsequence of a window of the text is a subsequence of the text *)
Lemma subseq_b_window cs nm text pat lo k :
  subseq_b co cs nm (firstn k (skipn lo text)) pat = true -> subseq_b co cs nm text pat = true.
Proof.
  rewrite !subseq_b_plain. intros H.
  rewrite (window_split text lo k) at 1. rewrite !map_app. apply subseq_plain_window, H.
Qed.

Lemma subseq_b_length cs nm text pat : subseq_b co cs nm text pat = true -> (length pat <= length text)%nat.
Proof. rewrite subseq_b_plain. intros H. apply subseq_plain_length in H. rewrite map_length in H. exact H. Qed.

(* ---------- phase 2 folding = spec folding ---------- *)

Lemma ascii_class_upper c : (ascii_class sc c =? cUpper) = ((65 <=? c) && (c <=? 90)).
Proof.
  unfold ascii_class.
  destruct (Z.leb_spec 97 c), (Z.leb_spec c 122), (Z.leb_spec 65 c), (Z.leb_spec c 90); cbn [andb];
    try lia; try reflexivity;
    (destruct ((48 <=? c) && (c <=? 57)); [reflexivity|]; destruct (ascii_white c); [reflexivity|];
     destruct (mem c (s_delims sc)); reflexivity).
Qed.

Lemma fold_v2_fst cs nm c : fst (fold_v2 co sc cs nm c) = class_of co sc c.
Proof. unfold fold_v2, class_of. destruct (c <=? 127); reflexivity. Qed.

Lemma fold_v2_snd cs nm c : (forall c, c < 192 -> co_norm co c = c) ->
  snd (fold_v2 co sc cs nm c) = fold co cs nm c.
Proof.
  intros Hn. unfold fold_v2, fold, lower1.
  destruct (Z.leb_spec c 127) as [Hc|Hc]; cbn [snd].
  - rewrite ascii_class_upper. destruct cs; cbn [negb andb].
    + destruct nm; [rewrite Hn by lia|]; reflexivity.
    + destruct (Z.leb_spec 65 c), (Z.leb_spec c 90); cbn [andb];
        try (destruct (Z.ltb_spec 127 c); [lia|]);
        (destruct nm; [rewrite Hn by lia|]; reflexivity).
  - destruct cs; cbn [negb]; [reflexivity|].
    destruct (Z.leb_spec 65 c), (Z.leb_spec c 90); cbn [andb]; try lia;
      (destruct (Z.ltb_spec 127 c); [reflexivity|lia]).
Qed.

Lemma map_fold_v2_snd cs nm w : (forall c, c < 192 -> co_norm co c = c) ->
  map (fun c => snd (fold_v2 co sc cs nm c)) w = map (fold co cs nm) w.
Proof. intros Hn. apply map_ext. intros c. apply fold_v2_snd, Hn. Qed.

(* ---------- bonus values ---------- *)

Definition scheme_nonneg : Prop := 0 <= s_bw sc /\ 0 <= s_bd sc.

Lemma bonus_for_nonneg a b : scheme_nonneg -> 0 <= bonus_for sc a b.
Proof.
  intros [H1 H2]. unfold bonus_for, bonusBoundary, bonusCamel, bonusNonWord.
  repeat match goal with |- context [if ?x then _ else _] => destruct x end; lia.
Qed.

Lemma bonus_for_le a b m : s_bw sc <= m -> s_bd sc <= m -> 8 <= m -> bonus_for sc a b <= m.
Proof.
  intros H1 H2 H3. unfold bonus_for, bonusBoundary, bonusCamel, bonusNonWord.
  repeat match goal with |- context [if ?x then _ else _] => destruct x end; lia.
Qed.

(* ---------- the arrays of the scan as list recursions ---------- *)

Section Arrays.
Variables cs nm : bool.
Notation f2 := (fun c => snd (fold_v2 co sc cs nm c)).
Notation cl := (fun c => fst (fold_v2 co sc cs nm c)).

Fixpoint Bl (pc : Z) (w : list Z) : list Z :=
  match w with
  | [] => []
  | c :: w' => bonus_for sc pc (cl c) :: Bl (cl c) w'
  end.

Fixpoint H0l (p0 ph pc : Z) (ig : bool) (w : list Z) : list Z :=
  match w with
  | [] => []
  | c :: w' =>
      if f2 c =? p0 then (scoreMatch + bonus_for sc pc (cl c) * 2) :: H0l p0 (scoreMatch + bonus_for sc pc (cl c) * 2) (cl c) false w'
      else Z.max (ph + (if ig then scoreGapExt else scoreGapStart)) 0
           :: H0l p0 (Z.max (ph + (if ig then scoreGapExt else scoreGapStart)) 0) (cl c) true w'
  end.

Definition C0l (p0 : Z) (T : list Z) : list Z := map (fun c => if c =? p0 then 1 else 0) T.

(* greedy first occurrences of [rest] in [T], as absolute offsets starting at [off] *)
Fixpoint Fl (off : nat) (rest T : list Z) : list nat :=
  match T with
  | [] => []
  | c :: T' =>
      match rest with
      | [] => []
      | p :: r => if c =? p then off :: Fl (S off) r T' else Fl (S off) rest T'
      end
  end.

(* lastIdx: offset of the last "hit" *)
Fixpoint lastl (off : nat) (rest : list Z) (plast : Z) (T : list Z) (cur : nat) : nat :=
  match T with
  | [] => cur
  | c :: T' =>
      match rest with
      | p :: r => if c =? p then lastl (S off) r plast T' off else lastl (S off) rest plast T' cur
      | [] => if c =? plast then lastl (S off) [] plast T' off else lastl (S off) [] plast T' cur
      end
  end.

Lemma Bl_length w : forall pc, length (Bl pc w) = length w.
Proof. induction w as [|c w IH]; intros pc; cbn [Bl length]; [reflexivity|]. now rewrite IH. Qed.

Lemma Bl_nth w : forall pc j, (j < length w)%nat ->
  nth j (Bl pc w) 0 = bonus_for sc (match j with O => pc | S k => cl (nth k w 0) end) (cl (nth j w 0)).
Proof.
  induction w as [|c w IH]; intros pc j H; cbn [length] in H; [lia|].
  destruct j as [|j]; [reflexivity|].
  cbn [Bl nth]. rewrite IH by lia. destruct j; reflexivity.
Qed.

Lemma H0l_length p0 w : forall ph pc ig, length (H0l p0 ph pc ig w) = length w.
Proof.
  induction w as [|c w IH]; intros ph pc ig; cbn [H0l length]; [reflexivity|].
  destruct (f2 c =? p0); cbn [length]; now rewrite IH.
Qed.

Lemma H0l_nth_match p0 w : forall ph pc ig j, (j < length w)%nat -> f2 (nth j w 0) = p0 ->
  nth j (H0l p0 ph pc ig w) 0 = scoreMatch + 2 * nth j (Bl pc w) 0.
Proof.
  induction w as [|c w IH]; intros ph pc ig j H Hm; cbn [length] in H; [lia|].
  destruct j as [|j].
  - cbn [nth] in Hm. cbn [H0l Bl nth]. apply Z.eqb_eq in Hm. rewrite Hm. cbn [nth]. lia.
  - cbn [nth] in Hm. cbn [H0l Bl]. destruct (f2 c =? p0); cbn [nth]; apply IH; try lia; exact Hm.
Qed.

Lemma H0l_nth_gap p0 w : forall ph pc ig j, (j < length w)%nat -> f2 (nth j w 0) <> p0 ->
  nth j (H0l p0 ph pc ig w) 0 =
  Z.max ((match j with O => ph | S k => nth k (H0l p0 ph pc ig w) 0 end) +
         (if (match j with O => ig | S k => negb (f2 (nth k w 0) =? p0) end) then scoreGapExt else scoreGapStart)) 0.
Proof.
  induction w as [|c w IH]; intros ph pc ig j H Hm; cbn [length] in H; [lia|].
  destruct j as [|j].
  - cbn [nth] in Hm. cbn [H0l]. apply Z.eqb_neq in Hm. rewrite Hm. reflexivity.
  - cbn [nth] in Hm. cbn [H0l]. destruct (f2 c =? p0) eqn:E; cbn [nth];
      (rewrite IH by (try lia; exact Hm)); destruct j; cbn [nth]; rewrite ?E; reflexivity.
Qed.

Lemma C0l_nth p0 T j : (j < length T)%nat -> nth j (C0l p0 T) 0 = if nth j T 0 =? p0 then 1 else 0.
Proof. intros H. unfold C0l. apply (map_nth_lt (fun c => if c =? p0 then 1 else 0)), H. Qed.

(* ----- F ----- *)

Lemma Fl_nil_rest off T : Fl off [] T = [].
Proof. destruct T; reflexivity. Qed.

Lemma Fl_length_le T : forall off rest, (length (Fl off rest T) <= length rest)%nat.
Proof.
  induction T as [|c T IH]; intros off rest; cbn [Fl length]; [lia|].
  destruct rest as [|p r]; cbn [length]; [lia|].
  destruct (c =? p); cbn [length]; [specialize (IH (S off) r)|specialize (IH (S off) (p :: r)); cbn [length] in IH]; lia.
Qed.

Lemma Fl_all_iff T : forall off rest, length (Fl off rest T) = length rest <-> subseq_plain T rest = true.
Proof.
  induction T as [|c T IH]; intros off rest.
  - destruct rest; cbn; split; intros H; try reflexivity; discriminate.
  - destruct rest as [|p r]; [cbn; tauto|].
    cbn [Fl subseq_plain]. destruct (c =? p).
    + cbn [length]. rewrite <- (IH (S off) r). lia.
    + apply IH.
Qed.

(* all facts about F in terms of the whole folded window W = done ++ T *)
Lemma Fl_props T : forall done rest i,
  let W := done ++ T in let F := Fl (length done) rest T in
  (i < length F)%nat ->
  (length done <= nth i F O < length W)%nat /\
  nth (nth i F O) W 0 = nth i rest 0 /\
  (forall j, ((match i with O => length done | S k => S (nth k F O) end) <= j < nth i F O)%nat -> nth j W 0 <> nth i rest 0) /\
  ((S i < length F)%nat -> (nth i F O < nth (S i) F O)%nat).
Proof.
  induction T as [|c T IH]; intros done rest i W F Hi; subst W F; [cbn in Hi; lia|].
  destruct rest as [|p r]; [cbn in Hi; lia|].
  assert (EW : done ++ c :: T = (done ++ [c]) ++ T) by (rewrite <- app_assoc; reflexivity).
  assert (EL : length (done ++ [c]) = S (length done)) by (rewrite app_length; cbn; lia).
  cbn [Fl] in Hi |- *. destruct (Z.eqb_spec c p) as [E|E].
  - destruct i as [|i].
    + cbn [nth]. rewrite nth_app_len, app_length. cbn [length]. repeat split; try lia.
      intros Hlt. cbn [length] in Hlt.
      specialize (IH (done ++ [c]) r O). cbn zeta in IH. rewrite EL in IH.
      destruct (IH ltac:(lia)) as [Hr _]. lia.
    + cbn [length] in Hi. cbn [nth].
      specialize (IH (done ++ [c]) r i). cbn zeta in IH. rewrite EL, <- EW in IH.
      destruct (IH ltac:(lia)) as (Hr & Hh & Hf & Hinc).
      repeat split; try lia; try exact Hh.
      * intros j Hj. apply Hf. destruct i; cbn [nth] in Hj |- *; lia.
      * cbn [length]. intros Hlt. apply Hinc. lia.
  - specialize (IH (done ++ [c]) (p :: r) i). cbn zeta in IH. rewrite EL, <- EW in IH.
    destruct (IH Hi) as (Hr & Hh & Hf & Hinc).
    repeat split; try lia; try exact Hh; try exact Hinc.
    intros j Hj. destruct i as [|i].
    + destruct (Nat.eq_dec j (length done)) as [->|Hne].
      * rewrite nth_app_len. cbn [nth]. exact E.
      * apply Hf. lia.
    + apply Hf. exact Hj.
Qed.

(* ----- lastIdx ----- *)

Lemma lastl_done T : forall done plast cur,
  let W := done ++ T in let L := lastl (length done) [] plast T cur in
  (L = cur /\ forall j, (length done <= j < length W)%nat -> nth j W 0 <> plast) \/
  ((length done <= L < length W)%nat /\ nth L W 0 = plast /\ forall j, (L < j < length W)%nat -> nth j W 0 <> plast).
Proof.
  induction T as [|c T IH]; intros done plast cur W L; subst W L.
  - left. cbn [lastl]. split; [reflexivity|]. intros j Hj. rewrite app_nil_r in Hj. lia.
  - assert (EW : done ++ c :: T = (done ++ [c]) ++ T) by (rewrite <- app_assoc; reflexivity).
    assert (EL : length (done ++ [c]) = S (length done)) by (rewrite app_length; cbn; lia).
    assert (ELW : length (done ++ c :: T) = S (length done + length T)) by (rewrite app_length; cbn; lia).
    cbn [lastl]. destruct (Z.eqb_spec c plast) as [E|E].
    + specialize (IH (done ++ [c]) plast (length done)). cbn zeta in IH. rewrite EL, <- EW in IH.
      right. destruct IH as [[HL Hno]|(Hr & Hh & Hno)].
      * rewrite HL. split; [lia|]. split; [rewrite nth_app_len; exact E|].
        intros j Hj. apply Hno. lia.
      * split; [lia|]. split; [exact Hh|exact Hno].
    + specialize (IH (done ++ [c]) plast cur). cbn zeta in IH. rewrite EL, <- EW in IH.
      destruct IH as [[HL Hno]|(Hr & Hh & Hno)].
      * left. split; [exact HL|]. intros j Hj.
        destruct (Nat.eq_dec j (length done)) as [->|Hne]; [rewrite nth_app_len; exact E|apply Hno; lia].
      * right. split; [lia|]. split; [exact Hh|exact Hno].
Qed.

Lemma lastl_props T : forall done rest cur,
  let W := done ++ T in let F := Fl (length done) rest T in
  let L := lastl (length done) rest (last rest 0) T cur in
  rest <> [] -> length F = length rest ->
  (nth (length rest - 1) F O <= L < length W)%nat /\ nth L W 0 = last rest 0 /\
  forall j, (L < j < length W)%nat -> nth j W 0 <> last rest 0.
Proof.
  induction T as [|c T IH]; intros done rest cur W F L Hne Hlen; subst W F L.
  - destruct rest; [contradiction|discriminate].
  - destruct rest as [|p r]; [contradiction|].
    assert (EW : done ++ c :: T = (done ++ [c]) ++ T) by (rewrite <- app_assoc; reflexivity).
    assert (EL : length (done ++ [c]) = S (length done)) by (rewrite app_length; cbn; lia).
    assert (ELW : length (done ++ c :: T) = S (length done + length T)) by (rewrite app_length; cbn; lia).
    cbn [Fl lastl] in Hlen |- *. destruct (Z.eqb_spec c p) as [E|E].
    + destruct r as [|q r].
      * cbn [last length Nat.sub nth].
        pose proof (lastl_done T (done ++ [c]) p (length done)) as HD. cbn zeta in HD. rewrite EL, <- EW in HD.
        destruct HD as [[HL Hno]|(Hr & Hh & Hno)].
        -- rewrite HL. split; [lia|]. split; [rewrite nth_app_len; exact E|].
           intros j Hj. apply Hno. lia.
        -- split; [lia|]. split; [exact Hh|exact Hno].
      * cbn [length] in Hlen.
        specialize (IH (done ++ [c]) (q :: r) (length done)). cbn zeta in IH. rewrite EL, <- EW in IH.
        destruct (IH ltac:(discriminate) ltac:(cbn [length]; lia)) as (Hr & Hh & Hno).
        change (last (p :: q :: r) 0) with (last (q :: r) 0).
        cbn [length] in Hr |- *. replace (S (S (length r)) - 1)%nat with (S (length r - 0)) by lia.
        cbn [nth]. replace (length r - 0)%nat with (S (length r) - 1)%nat by lia.
        split; [exact Hr|]. split; [exact Hh|exact Hno].
    + specialize (IH (done ++ [c]) (p :: r) cur). cbn zeta in IH. rewrite EL, <- EW in IH.
      exact (IH Hne Hlen).
Qed.

End Arrays.
End Basics.
