(* C17 proofs, part 2: option parsing — totality (error => exit status 2, never a crash),
   last occurrence wins, and layering (file, environment, command line == one vector). *)
From Coq Require Import String.
From Fzf Require Import Prelude Val BindSpec BindModel BindProofs OptionSpec OptionModel.
Open Scope Z_scope.

(* ------------------------------------------------------------------ facts about the table (by computation) *)

Definition dash_or_plus (a : str) : bool := starts_with DASH a || starts_with PLUS a.

Lemma table_dash : forallb (fun e => dash_or_plus (fst e)) opt_table = true.
Proof. vm_compute. reflexivity. Qed.

Lemma table_no_eq : forallb (fun e => negb (existsb (fun x => x =? 61) (fst e))) opt_table = true.
Proof. vm_compute. reflexivity. Qed.

Lemma assoc_in {A} k (m : list (str * A)) v : assoc_str k m = Some v -> In (k, v) m.
Proof.
  induction m as [|[k' v'] r IH]; cbn; [discriminate|].
  destruct (str_eqb k k') eqn:E.
  - intro H; inversion H; subst. apply str_eqb_eq in E. subst. now left.
  - intro H. right. auto.
Qed.

Lemma table_key_dash name k : assoc_str name opt_table = Some k -> dash_or_plus name = true.
Proof.
  intro H. apply assoc_in in H.
  pose proof table_dash as T. rewrite forallb_forall in T. exact (T _ H).
Qed.

Lemma table_key_no_eq name k : assoc_str name opt_table = Some k -> existsb (fun x => x =? 61) name = false.
Proof.
  intro H. apply assoc_in in H.
  pose proof table_no_eq as T. rewrite forallb_forall in T. specialize (T _ H). cbn in T.
  now apply negb_true_iff in T.
Qed.

Opaque opt_table.

(* ------------------------------------------------------------------ setf / setfs *)

Lemma fv_setf f v c g : fv (setf f v c) g = if Nat.eqb g f then v else fv c g.
Proof. reflexivity. Qed.

Lemma kmap_setfs ws c : kmap (setfs ws c) = kmap c /\ expect (setfs ws c) = expect c.
Proof. revert c; induction ws as [|[f v] r IH]; intro c; cbn; [auto|]. destruct (IH (setf f v c)) as [A B]. now rewrite A, B. Qed.

Lemma setfs_other ws c g : ~ In g (map fst ws) -> fv (setfs ws c) g = fv c g.
Proof.
  revert c; induction ws as [|[f v] r IH]; intros c H; cbn; [reflexivity|].
  rewrite IH by (intro X; apply H; now right).
  rewrite fv_setf. destruct (Nat.eqb g f) eqn:E; [|reflexivity].
  apply Nat.eqb_eq in E. subst. exfalso. apply H. now left.
Qed.

Lemma combine_fst_incl {A B} (l : list A) (m : list B) x : In x (map fst (combine l m)) -> In x l.
Proof.
  revert m; induction l as [|a l IH]; intros [|y m] H; cbn in *; try contradiction.
  destruct H as [H|H]; [now left|right; eauto].
Qed.

Arguments setfs : simpl never.
Arguments setf : simpl never.

(* ------------------------------------------------------------------ one step *)

Lemma next_string_n v rest s n : next_string v rest = Some (s, n) -> (n <= length rest)%nat.
Proof.
  unfold next_string. destruct v; [intro H; inversion H; lia|].
  destruct rest; [discriminate|]. intro H; inversion H; cbn; lia.
Qed.

Lemma take_dirs_len e l : (length (take_dirs e l) <= length l)%nat.
Proof. induction l as [|a r IH]; cbn; [lia|]. destruct (isdir e a); cbn; lia. Qed.

Ltac inv H := inversion H; subst; clear H.

Lemma exec_n e pos k v c rest c' n : exec e pos k v c rest = Ok (Good (c', n)) -> (n <= length rest)%nat.
Proof.
  destruct k; cbn; intro H.
  - inv H. lia.
  - destruct (next_string v rest) as [[s m]|] eqn:E; [|discriminate].
    destruct (run_parser p s); inv H. eapply next_string_n; eauto.
  - destruct v as [x|].
    + destruct (atoi x); inv H. lia.
    + destruct rest as [|a r]; [inv H; lia|].
      destruct (match a with [] => false | ch :: _ => is_digit ch end).
      * destruct (atoi a); inv H. cbn; lia.
      * inv H. lia.
  - destruct v as [x|].
    + destruct (parse_listen x); inv H. lia.
    + destruct rest as [|a r]; [inv H; lia|].
      destruct (starts_with DASH a || starts_with PLUS a); [inv H; lia|].
      destruct (parse_listen a); inv H. cbn; lia.
  - destruct v as [x|].
    + inv H. apply take_dirs_len.
    + pose proof (take_dirs_len e rest) as L. destruct (take_dirs e rest) eqn:E; [discriminate|]. inv H. exact L.
  - destruct (next_string v rest) as [[s m]|] eqn:E; [|discriminate].
    destruct (histok e s); inv H. eapply next_string_n; eauto.
  - destruct (next_string v rest) as [[s m]|] eqn:E; [|discriminate].
    destruct (atoi s) as [z|]; [|discriminate]. destruct (z <? 1); inv H. eapply next_string_n; eauto.
  - destruct (next_string v rest) as [[s m]|] eqn:E; [|discriminate].
    destruct (parse_key_chords s); inv H. eapply next_string_n; eauto.
  - inv H. lia.
  - destruct (next_string v rest) as [[s m]|] eqn:E; [|discriminate].
    destruct (parse_keymap (kmap c) s) as [[m'|x]|]; inv H. eapply next_string_n; eauto.
  - destruct v as [x|].
    + destruct (parse_tmux x); inv H. lia.
    + destruct rest as [|a r]; [inv H; lia|].
      destruct (starts_with DASH a || starts_with PLUS a); [inv H; lia|].
      destruct (parse_tmux a); inv H. cbn; lia.
Qed.

Lemma step_good e pos c a rest c' n :
  step e pos c a rest = Ok (Good (c', n)) ->
  exists k v, resolve a = Some (k, v) /\ exec e pos k v c rest = Ok (Good (c', n)).
Proof.
  unfold step. destruct (resolve a) as [[k v]|]; [|discriminate].
  destruct (exec e pos k v c rest) as [[[c2 m]|x]|] eqn:E; cbn; try discriminate.
  intro H. exists k, v. split; [reflexivity|].
  destruct (consumes_val k); [inv H; exact E|]. destruct v; [discriminate|]. inv H. exact E.
Qed.

Lemma step_n e pos c a rest c' n : step e pos c a rest = Ok (Good (c', n)) -> (n <= length rest)%nat.
Proof. intro H. apply step_good in H as (k & v & _ & H). eapply exec_n; eauto. Qed.

(* an argument that cannot be taken for the (optional) value of the option before it *)
Definition safe_head (e : env) (ys : list str) : Prop :=
  match ys with [] => True | y :: _ => dash_or_plus y = true /\ isdir e y = false end.

Lemma take_dirs_app e rest ys : safe_head e ys -> take_dirs e (rest ++ ys) = take_dirs e rest.
Proof.
  intro S. induction rest as [|a r IH]; cbn.
  - destruct ys as [|y ys]; [reflexivity|]. cbn. destruct S as [_ S]. now rewrite S.
  - destruct (isdir e a); [now rewrite IH|reflexivity].
Qed.

Lemma dash_not_digit y : dash_or_plus y = true -> match y with [] => false | ch :: _ => is_digit ch end = false.
Proof.
  destruct y as [|ch r]; [reflexivity|]. unfold dash_or_plus, starts_with, is_digit, DASH, PLUS.
  intro H. apply orb_true_iff in H as [H|H]; apply Z.eqb_eq in H; subst; reflexivity.
Qed.

Lemma exec_app e pos k v c rest ys c' n :
  safe_head e ys -> exec e pos k v c rest = Ok (Good (c', n)) -> exec e pos k v c (rest ++ ys) = Ok (Good (c', n)).
Proof.
  intros S H.
  assert (NS : forall s m, next_string v rest = Some (s, m) -> next_string v (rest ++ ys) = Some (s, m)).
  { unfold next_string. destruct v; [auto|]. destruct rest; [discriminate|auto]. }
  destruct k; cbn in *; try exact H.
  - destruct (next_string v rest) as [[s m]|] eqn:E; [|discriminate]. now rewrite (NS _ _ eq_refl).
  - destruct v as [x|]; [exact H|].
    destruct rest as [|a r]; [|exact H]. cbn.
    destruct ys as [|y ys]; [exact H|]. destruct S as [S _]. now rewrite (dash_not_digit _ S).
  - destruct v as [x|]; [exact H|].
    destruct rest as [|a r]; [|exact H]. cbn.
    destruct ys as [|y ys]; [exact H|]. destruct S as [S _]. unfold dash_or_plus in S. now rewrite S.
  - rewrite (take_dirs_app _ _ _ S). exact H.
  - destruct (next_string v rest) as [[s m]|] eqn:E; [|discriminate]. now rewrite (NS _ _ eq_refl).
  - destruct (next_string v rest) as [[s m]|] eqn:E; [|discriminate]. now rewrite (NS _ _ eq_refl).
  - destruct (next_string v rest) as [[s m]|] eqn:E; [|discriminate]. now rewrite (NS _ _ eq_refl).
  - destruct (next_string v rest) as [[s m]|] eqn:E; [|discriminate]. now rewrite (NS _ _ eq_refl).
  - destruct v as [x|]; [exact H|].
    destruct rest as [|a r]; [|exact H]. cbn.
    destruct ys as [|y ys]; [exact H|]. destruct S as [S _]. unfold dash_or_plus in S. now rewrite S.
Qed.

Lemma step_app e pos c a rest ys c' n :
  safe_head e ys -> step e pos c a rest = Ok (Good (c', n)) -> step e pos c a (rest ++ ys) = Ok (Good (c', n)).
Proof.
  intros S H. pose proof H as H0. apply step_good in H as (k & v & R & X).
  unfold step in *. rewrite R in *. rewrite (exec_app _ _ _ _ _ _ _ _ _ S X). rewrite X in H0. exact H0.
Qed.

(* ------------------------------------------------------------------ the loop composes *)

Lemma go_app e ys : safe_head e ys -> forall xs c pos k c1,
  (k <= length xs)%nat -> go e c pos k xs = Ok (Good c1) -> go e c pos k (xs ++ ys) = go e c1 (pos + length xs) 0 ys.
Proof.
  intro S. induction xs as [|a r IH]; intros c pos k c1 Hk H.
  - cbn in *. assert (k = 0%nat) by lia. subst. inv H. now rewrite Nat.add_0_r.
  - cbn [app length go] in *. rewrite <- Nat.add_succ_comm. destruct k as [|k].
    + destruct (step e pos c a r) as [[[c2 n]|x]|] eqn:E; cbn in H; try discriminate.
      rewrite (step_app _ _ _ _ _ _ _ _ S E). cbn. apply IH; [eapply step_n; eauto|exact H].
    + apply IH; [cbn in Hk; lia|exact H].
Qed.

(* ------------------------------------------------------------------ untouched fields *)

Lemma stamp_req_other p pos c g : ~ In g (match p with PHeight => [F_HEIGHTIDX] | _ => [] end) -> fv (stamp_req p pos c) g = fv c g.
Proof.
  destruct p; cbn; intro NI; try reflexivity.
  rewrite fv_setf. destruct (Nat.eqb g F_HEIGHTIDX) eqn:E; [|reflexivity].
  apply Nat.eqb_eq in E. subst. exfalso. apply NI. now left.
Qed.

Lemma exec_untouched e pos k v c rest c' n g :
  exec e pos k v c rest = Ok (Good (c', n)) -> ~ In g (kind_writes k) -> fv c' g = fv c g.
Proof.
  destruct k; cbn; intros H NI.
  - inv H. now apply setfs_other.
  - destruct (next_string v rest) as [[s m]|]; [|discriminate].
    destruct (run_parser p s); inv H.
    rewrite stamp_req_other by (intro X; apply NI; apply in_or_app; now right).
    apply setfs_other. intro X. apply NI. apply in_or_app. left. eapply combine_fst_incl; eauto.
  - assert (G : forall z, fv (setf f (VI z) c) g = fv c g).
    { intro z. rewrite fv_setf. destruct (Nat.eqb g f) eqn:E; [|reflexivity]. apply Nat.eqb_eq in E. subst. exfalso. apply NI. now left. }
    destruct v as [x|].
    + destruct (atoi x); inv H. apply G.
    + destruct rest as [|a r]; [inv H; apply G|].
      destruct (match a with [] => false | ch :: _ => is_digit ch end).
      * destruct (atoi a); inv H. apply G.
      * inv H. apply G.
  - assert (G : forall x y, fv (setfs [(F_LISTEN, x); (F_UNSAFE, y)] c) g = fv c g).
    { intros. apply setfs_other. exact NI. }
    destruct v as [x|].
    + destruct (parse_listen x); inv H. apply G.
    + destruct rest as [|a r]; [inv H; apply G|].
      destruct (starts_with DASH a || starts_with PLUS a); [inv H; apply G|].
      destruct (parse_listen a); inv H. apply G.
  - assert (G : forall x, fv (setf f x c) g = fv c g).
    { intro z. rewrite fv_setf. destruct (Nat.eqb g f) eqn:E; [|reflexivity]. apply Nat.eqb_eq in E. subst. exfalso. apply NI. now left. }
    destruct v as [x|].
    + inv H. apply G.
    + destruct (take_dirs e rest); [discriminate|]. inv H. apply G.
  - destruct (next_string v rest) as [[s m]|]; [|discriminate].
    destruct (histok e s); inv H. apply setfs_other. exact NI.
  - destruct (next_string v rest) as [[s m]|]; [|discriminate].
    destruct (atoi s) as [z|]; [|discriminate]. destruct (z <? 1); inv H.
    apply setfs_other. destruct (history_set c); cbn; intro X; apply NI; cbn; tauto.
  - destruct (next_string v rest) as [[s m]|]; [|discriminate].
    destruct (parse_key_chords s); inv H. reflexivity.
  - inv H. reflexivity.
  - destruct (next_string v rest) as [[s m]|]; [|discriminate].
    destruct (parse_keymap (kmap c) s) as [[m'|x]|]; inv H. reflexivity.
  - assert (G : forall t, fv (setfs (tmux_ws t pos) c) g = fv c g).
    { intros. apply setfs_other. exact NI. }
    destruct v as [x|].
    + destruct (parse_tmux x); inv H. apply G.
    + destruct rest as [|a r]; [inv H; apply G|].
      destruct (starts_with DASH a || starts_with PLUS a); [inv H; apply G|].
      destruct (parse_tmux a); inv H. apply G.
Qed.

Lemma step_untouched e pos c a rest c' n g :
  step e pos c a rest = Ok (Good (c', n)) -> ~ In g (writes a) -> fv c' g = fv c g.
Proof.
  intros H NI. apply step_good in H as (k & v & R & X).
  unfold writes in NI. rewrite R in NI. eapply exec_untouched; eauto.
Qed.

Lemma go_untouched e g : forall zs c pos k cz,
  (forall a, In a zs -> ~ In g (writes a)) -> go e c pos k zs = Ok (Good cz) -> fv cz g = fv c g.
Proof.
  induction zs as [|a r IH]; intros c pos k cz NI H; cbn in H.
  - inv H. reflexivity.
  - destruct k as [|k].
    + destruct (step e pos c a r) as [[[c2 n]|x]|] eqn:E; cbn in H; try discriminate.
      rewrite (IH _ _ _ _ (fun b Hb => NI b (or_intror Hb)) H).
      eapply step_untouched; eauto. apply NI. now left.
    + eapply IH; eauto. intros b Hb. apply NI. now right.
Qed.

(* ------------------------------------------------------------------ last occurrence wins *)

Lemma break_eq_none s : existsb (fun x => x =? 61) s = false -> forall cur, break_eq cur s = (rev cur ++ s, None).
Proof.
  induction s as [|c r IH]; intros H cur; cbn in *.
  - now rewrite app_nil_r.
  - apply orb_false_iff in H as [H1 H2]. rewrite H1.
    rewrite (IH H2). cbn. now rewrite <- app_assoc.
Qed.

Lemma resolve_table name k : assoc_str name opt_table = Some k -> resolve name = Some (k, None).
Proof.
  intro H. unfold resolve, split_arg.
  destruct (has_prefix [DASH; DASH] name).
  - rewrite (break_eq_none _ (table_key_no_eq _ _ H)). cbn. now rewrite H.
  - now rewrite H.
Qed.

(* the position stamp of --height is kept apart from the fields its value decides *)
Definition req_no_stamp (k : okind) : bool :=
  match k with KReq fs _ => negb (existsb (Nat.eqb F_HEIGHTIDX) fs) | _ => true end.
Transparent opt_table.
Lemma table_req_no_stamp : forallb (fun e => req_no_stamp (snd e)) opt_table = true.
Proof. vm_compute. reflexivity. Qed.
Opaque opt_table.

Lemma req_fields_not_stamp name fs p f : assoc_str name opt_table = Some (KReq fs p) -> In f fs -> f <> F_HEIGHTIDX.
Proof.
  intros H Hf ->. apply assoc_in in H.
  pose proof table_req_no_stamp as T. rewrite forallb_forall in T. specialize (T _ H). cbn in T.
  apply negb_true_iff in T. rewrite <- not_true_iff_false in T. apply T.
  apply existsb_exists. exists F_HEIGHTIDX. split; [exact Hf|reflexivity].
Qed.

Theorem last_wins_proof : forall e c p0 xs name fs p v vals zs c1 cz,
  assoc_str name opt_table = Some (KReq fs p) ->
  run_parser p v = Some vals ->
  go e c p0 0 xs = Ok (Good c1) ->
  isdir e name = false ->
  (forall a f, In a zs -> In f fs -> ~ In f (writes a)) ->
  go e c p0 0 (xs ++ name :: v :: zs) = Ok (Good cz) ->
  forall f, In f fs -> fv cz f = fv (setfs (combine fs vals) c1) f.
Proof.
  intros e c p0 xs name fs p v vals zs c1 cz HT HP HX HD HZ HG f Hf.
  assert (S : safe_head e (name :: v :: zs)) by (cbn; split; [eapply table_key_dash; eauto|exact HD]).
  rewrite (go_app e _ S xs c p0 0%nat c1 ltac:(lia) HX) in HG.
  cbn [go] in HG. unfold step in HG. rewrite (resolve_table _ _ HT) in HG.
  cbn in HG. rewrite HP in HG. cbn in HG.
  erewrite go_untouched; [|intros a Ha; exact (HZ a f Ha Hf)|exact HG].
  apply stamp_req_other. pose proof (req_fields_not_stamp _ _ _ _ HT Hf) as NE.
  destruct p; cbn; try tauto. intros [X|[]]. now apply NE.
Qed.

(* ------------------------------------------------------------------ layering *)

(* fields that are NOT preserved by layering: History.maxSize and the local historyMax
   (parseOptions re-initialises historyMax from opts.History at the start of every vector) *)
Definition excl (f : field) : bool := Nat.eqb f F_HISTMAX || Nat.eqb f F_HMAXLOCAL.

Definition agree (c c' : cfg) : Prop :=
  (forall f, excl f = false -> fv c f = fv c' f) /\ kmap c = kmap c' /\ expect c = expect c'.

Lemma agree_refl c : agree c c.
Proof. repeat split. Qed.

Lemma setfs_cons f v r c : setfs ((f, v) :: r) c = setfs r (setf f v c).
Proof. reflexivity. Qed.

Lemma agree_setf f v v' c c' : (v = v' \/ excl f = true) -> agree c c' -> agree (setf f v c) (setf f v' c').
Proof.
  intros Hv (A & B & C). repeat split; try assumption.
  intros g Hg. rewrite !fv_setf. destruct (Nat.eqb g f) eqn:E; [|auto].
  apply Nat.eqb_eq in E. subst. destruct Hv as [->|X]; [reflexivity|congruence].
Qed.

Lemma agree_setf_l f v c c' : excl f = true -> agree c c' -> agree (setf f v c) c'.
Proof.
  intros X (A & B & C). repeat split; try assumption.
  intros g Hg. rewrite fv_setf. destruct (Nat.eqb g f) eqn:E; [|auto].
  apply Nat.eqb_eq in E. subst. congruence.
Qed.

Lemma agree_setfs ws : forall c c', agree c c' -> agree (setfs ws c) (setfs ws c').
Proof.
  induction ws as [|[f v] r IH]; intros c c' H; [exact H|].
  rewrite !setfs_cons. apply IH. apply agree_setf; auto.
Qed.

Lemma history_set_agree c c' : agree c c' -> history_set c = history_set c'.
Proof. intros (A & _). unfold history_set. now rewrite (A F_HISTORY eq_refl). Qed.

Lemma agree_stamp_req p pos c c' : agree c c' -> agree (stamp_req p pos c) (stamp_req p pos c').
Proof. intro H. destruct p; cbn; try exact H. apply agree_setf; auto. Qed.

Lemma exec_sim e pos k v c c' rest c1 n :
  agree c c' -> exec e pos k v c rest = Ok (Good (c1, n)) ->
  exists c1', exec e pos k v c' rest = Ok (Good (c1', n)) /\ agree c1 c1'.
Proof.
  intros AG H. pose proof AG as (A & B & C).
  destruct k; cbn in *.
  - inv H. eexists; split; [reflexivity|]. now apply agree_setfs.
  - destruct (next_string v rest) as [[s m]|]; [|discriminate].
    destruct (run_parser p s); inv H. eexists; split; [reflexivity|]. apply agree_stamp_req. now apply agree_setfs.
  - destruct v as [x|].
    + destruct (atoi x); inv H. eexists; split; [reflexivity|]. apply agree_setf; auto.
    + destruct rest as [|a r]; [inv H; eexists; split; [reflexivity|]; apply agree_setf; auto|].
      destruct (match a with [] => false | ch :: _ => is_digit ch end).
      * destruct (atoi a); inv H. eexists; split; [reflexivity|]. apply agree_setf; auto.
      * inv H. eexists; split; [reflexivity|]. apply agree_setf; auto.
  - destruct v as [x|].
    + destruct (parse_listen x); inv H. eexists; split; [reflexivity|]. now apply agree_setfs.
    + destruct rest as [|a r]; [inv H; eexists; split; [reflexivity|]; now apply agree_setfs|].
      destruct (starts_with DASH a || starts_with PLUS a); [inv H; eexists; split; [reflexivity|]; now apply agree_setfs|].
      destruct (parse_listen a); inv H. eexists; split; [reflexivity|]. now apply agree_setfs.
  - destruct v as [x|].
    + inv H. eexists; split; [reflexivity|]. apply agree_setf; auto.
    + destruct (take_dirs e rest); [discriminate|]. inv H. eexists; split; [reflexivity|]. apply agree_setf; auto.
  - destruct (next_string v rest) as [[s m]|]; [|discriminate].
    destruct (histok e s); inv H. eexists; split; [reflexivity|].
    rewrite !setfs_cons. apply agree_setf; [right; reflexivity|]. apply agree_setf; auto.
  - destruct (next_string v rest) as [[s m]|]; [|discriminate].
    destruct (atoi s) as [z|]; [|discriminate]. destruct (z <? 1); inv H.
    rewrite <- (history_set_agree _ _ AG). eexists; split; [reflexivity|]. now apply agree_setfs.
  - destruct (next_string v rest) as [[s m]|]; [|discriminate].
    destruct (parse_key_chords s); inv H. eexists; split; [reflexivity|].
    repeat split; cbn; auto. now rewrite C.
  - inv H. eexists; split; [reflexivity|]. repeat split; cbn; auto.
  - destruct (next_string v rest) as [[s m]|]; [|discriminate]. rewrite <- B.
    destruct (parse_keymap (kmap c) s) as [[m'|x]|]; inv H. eexists; split; [reflexivity|].
    repeat split; cbn; auto.
  - destruct v as [x|].
    + destruct (parse_tmux x); inv H. eexists; split; [reflexivity|]. now apply agree_setfs.
    + destruct rest as [|a r]; [inv H; eexists; split; [reflexivity|]; now apply agree_setfs|].
      destruct (starts_with DASH a || starts_with PLUS a); [inv H; eexists; split; [reflexivity|]; now apply agree_setfs|].
      destruct (parse_tmux a); inv H. eexists; split; [reflexivity|]. now apply agree_setfs.
Qed.

Lemma step_sim e pos c c' a rest c1 n :
  agree c c' -> step e pos c a rest = Ok (Good (c1, n)) ->
  exists c1', step e pos c' a rest = Ok (Good (c1', n)) /\ agree c1 c1'.
Proof.
  intros AG H. pose proof H as H0. apply step_good in H as (k & v & R & X).
  destruct (exec_sim _ _ _ _ _ _ _ _ _ AG X) as (c1' & X' & AG').
  exists c1'. split; [|exact AG'].
  unfold step in *. rewrite R in *. rewrite X'. rewrite X in H0. cbn in *.
  destruct (consumes_val k); [reflexivity|]. destruct v; [discriminate|reflexivity].
Qed.

Lemma go_sim e : forall args c c' pos k c1,
  agree c c' -> go e c pos k args = Ok (Good c1) -> exists c1', go e c' pos k args = Ok (Good c1') /\ agree c1 c1'.
Proof.
  induction args as [|a r IH]; intros c c' pos k c1 AG H; cbn in *.
  - inv H. eauto.
  - destruct k as [|k]; [|eauto].
    destruct (step e pos c a r) as [[[c2 n]|x]|] eqn:E; cbn in H; try discriminate.
    destruct (step_sim _ _ _ _ _ _ _ _ AG E) as (c2' & E' & AG2). rewrite E'. cbn. eauto.
Qed.

Lemma end_validate_sim c c' : agree c c' -> end_validate c = Good c -> end_validate c' = Good c'.
Proof.
  intros (A & _) H. unfold end_validate in *.
  rewrite <- (A F_HEADERLINES eq_refl), <- (A F_HSCROLLOFF eq_refl), <- (A F_SCROLLOFF eq_refl), <- (A F_TABSTOP eq_refl).
  destruct (as_z (fv c F_HEADERLINES) <? 0); [discriminate|].
  destruct (as_z (fv c F_HSCROLLOFF) <? 0); [discriminate|].
  destruct (as_z (fv c F_SCROLLOFF) <? 0); [discriminate|].
  destruct (as_z (fv c F_TABSTOP) <? 1); [discriminate|reflexivity].
Qed.

Lemma end_validate_id c c2 : end_validate c = Good c2 -> c2 = c.
Proof.
  unfold end_validate. repeat match goal with |- context [if ?b then _ else _] => destruct b end; intro H; inv H; reflexivity.
Qed.

Lemma agree_layer_init_l c c' : agree c c' -> agree (layer_init c) c'.
Proof. intro H. unfold layer_init. apply agree_setf_l; [reflexivity|exact H]. Qed.

Lemma agree_sym c c' : agree c c' -> agree c' c.
Proof. intros (A & B & C). repeat split; auto. intros f Hf. symmetry. auto. Qed.

Lemma agree_trans c1 c2 c3 : agree c1 c2 -> agree c2 c3 -> agree c1 c3.
Proof. intros (A & B & C) (A' & B' & C'). repeat split; try congruence. intros f Hf. rewrite A by exact Hf. auto. Qed.

Lemma safe_head_concat e ls : Forall (safe_head e) ls -> safe_head e (concat ls).
Proof.
  induction 1 as [|l r Hl _ IH]; cbn; [exact I|].
  destruct l as [|y l]; cbn; [exact IH|exact Hl].
Qed.

(* all layers succeed one after the other  ==>  the single concatenated vector succeeds
   (from any state that agrees) and ends in a configuration that agrees *)
Lemma layers_as_one e : forall ls start c c' cf,
  Forall (safe_head e) ls -> agree c c' -> parse_layers e start c ls = Ok (Good cf) ->
  exists cf', go e c' start 0 (concat ls) = Ok (Good cf') /\ agree cf cf'
              /\ (ls <> [] -> end_validate cf' = Good cf').
Proof.
  induction ls as [|l r IH]; intros start c c' cf SH AG H.
  - cbn in *. inv H. exists c'. split; [reflexivity|split; [exact AG|congruence]].
  - cbn [parse_layers] in H. unfold parse_layer in H.
    destruct (go e (layer_init c) start 0 l) as [[c2|x]|] eqn:G; cbn in H; try discriminate.
    destruct (end_validate c2) as [c2v|x] eqn:EV; cbn in H; try discriminate.
    pose proof (end_validate_id _ _ EV) as ->.
    inversion SH as [|? ? Hl Hr]; subst.
    destruct (go_sim e l _ c' _ _ _ (agree_layer_init_l _ _ AG) G) as (c2' & G' & AG2).
    destruct (IH (start + length l)%nat c2 c2' cf Hr AG2 H) as (cf' & GR & AGF & EVF).
    exists cf'. split; [|split; [exact AGF|]].
    + cbn [concat]. rewrite (go_app e _ (safe_head_concat _ _ Hr) l c' start 0%nat c2' ltac:(lia) G'). exact GR.
    + intros _. destruct r as [|l2 r2].
      * cbn in H, GR. inv H. inv GR. eapply end_validate_sim; eauto.
      * apply EVF. discriminate.
Qed.

Lemma concat_filter_nonempty (ls : list (list str)) : concat (filter nonemptyb ls) = concat ls.
Proof. induction ls as [|[|a l] r IH]; cbn; [reflexivity|exact IH|now rewrite IH]. Qed.

Lemma finalize_agree e c c' : agree c c' -> agree (finalize e c) (finalize e c').
Proof.
  intro AG. pose proof AG as (A & B & C). unfold finalize, reload_on_start.
  rewrite <- (A F_SCHEME eq_refl), <- (A F_CRITERIA eq_refl), <- B.
  destruct (fv c F_SCHEME) as [z|[|x l]]; try exact AG.
  destruct (fv c F_CRITERIA) as [z|[|x l]].
  - apply agree_setf; auto.
  - now apply agree_setfs.
  - apply agree_setf; auto.
Qed.

Theorem layering_proof : forall e file envw argv cfg,
  Forall (safe_head e) [file; envw; argv] ->
  parse_all e file envw argv = Ok (Good cfg) ->
  exists cfg', parse_all e [] [] (file ++ envw ++ argv) = Ok (Good cfg') /\ agree cfg cfg'.
Proof.
  intros e file envw argv cfg SH H. unfold parse_all in *.
  destruct (parse_layers e 0 default_cfg (filter nonemptyb [file; envw] ++ [argv])) as [[c|x]|] eqn:P; cbn in H; try discriminate.
  inv H.
  assert (SH' : Forall (safe_head e) (filter nonemptyb [file; envw] ++ [argv])).
  { inversion SH as [|? ? S1 SH1]; subst. inversion SH1 as [|? ? S2 SH2]; subst.
    apply Forall_app. split; [|exact SH2].
    cbn. destruct (nonemptyb file), (nonemptyb envw); repeat constructor; auto. }
  destruct (layers_as_one e _ 0%nat default_cfg (layer_init default_cfg) c SH' (agree_sym _ _ (agree_layer_init_l _ _ (agree_refl _))) P)
    as (cf' & G & AG & EV).
  rewrite concat_app, concat_filter_nonempty in G. cbn [concat] in G. rewrite !app_nil_r in G.
  cbn [filter nonemptyb app parse_layers]. unfold parse_layer.
  rewrite app_assoc.
  rewrite G. cbn. rewrite EV by (destruct (filter nonemptyb [file; envw]); discriminate). cbn.
  eexists; split; [reflexivity|]. now apply finalize_agree.
Qed.

(* the exception is real: a history size given in the environment is forgotten when the
   history file is named on the command line *)
Definition env0 : env := mkEnv (fun _ => false) (fun _ => true) false.
Definition w_hs : str := Eval vm_compute in b "--history-size=5".
Definition w_h : str := Eval vm_compute in b "--history".
Definition w_p : str := Eval vm_compute in b "h".

Transparent opt_table.
Lemma layering_history_size_refuted_proof :
  exists c c', parse_all env0 [] [w_hs] [w_h; w_p] = Ok (Good c) /\
               parse_all env0 [] [] [w_hs; w_h; w_p] = Ok (Good c') /\
               fv c F_HISTMAX = VI 1000 /\ fv c' F_HISTMAX = VI 5.
Proof. eexists; eexists. vm_compute. repeat split. Qed.
Opaque opt_table.

(* ------------------------------------------------------------------ totality: a configuration, or exit status 2 *)

Lemma exec_total e pos k v c rest : exists o, exec e pos k v c rest = Ok o.
Proof.
  destruct k; cbn; eauto.
  - destruct (next_string v rest) as [[s m]|]; eauto. destruct (run_parser p s); eauto.
  - destruct v as [x|]; [destruct (atoi x); eauto|].
    destruct rest as [|a r]; eauto.
    destruct (match a with [] => false | ch :: _ => is_digit ch end); eauto. destruct (atoi a); eauto.
  - destruct v as [x|]; [destruct (parse_listen x); eauto|].
    destruct rest as [|a r]; eauto.
    destruct (starts_with DASH a || starts_with PLUS a); eauto. destruct (parse_listen a); eauto.
  - destruct v as [x|]; eauto. destruct (take_dirs e rest); eauto.
  - destruct (next_string v rest) as [[s m]|]; eauto. destruct (histok e s); eauto.
  - destruct (next_string v rest) as [[s m]|]; eauto. destruct (atoi s) as [z|]; eauto. destruct (z <? 1); eauto.
  - destruct (next_string v rest) as [[s m]|]; eauto. destruct (parse_key_chords s); eauto.
  - destruct (next_string v rest) as [[s m]|]; eauto.
    destruct (parse_keymap_total (kmap c) s) as ([m'|x] & ->); cbn; eauto.
  - destruct v as [x|]; [destruct (parse_tmux x); eauto|].
    destruct rest as [|a r]; eauto.
    destruct (starts_with DASH a || starts_with PLUS a); eauto. destruct (parse_tmux a); eauto.
Qed.

Lemma step_total e pos c a rest : exists o, step e pos c a rest = Ok o.
Proof.
  unfold step. destruct (resolve a) as [[k v]|]; eauto.
  destruct (exec_total e pos k v c rest) as ([[c' n]|x] & ->); cbn; eauto.
  destruct (consumes_val k); eauto. destruct v; eauto.
Qed.

Lemma go_total e : forall args c pos k, exists o, go e c pos k args = Ok o.
Proof.
  induction args as [|a r IH]; intros c pos k; cbn; eauto.
  destruct k; eauto. destruct (step_total e pos c a r) as ([[c' n]|x] & ->); cbn; eauto.
Qed.

Lemma parse_layers_total e : forall ls start c, exists o, parse_layers e start c ls = Ok o.
Proof.
  induction ls as [|l r IH]; intros start c; cbn; eauto. unfold parse_layer.
  destruct (go_total e l (layer_init c) start 0%nat) as ([c'|x] & ->); cbn; eauto.
  destruct (end_validate c'); cbn; eauto.
Qed.

Theorem error_is_exit2_proof : forall e file envw argv,
  (exists c, cli e file envw argv = Ok (Config c)) \/
  (exists code, cli e file envw argv = Ok (ExitWith 2 code)).
Proof.
  intros. unfold cli, parse_all.
  destruct (parse_layers_total e (filter nonemptyb [file; envw] ++ [argv]) 0%nat default_cfg) as ([c|x] & ->); cbn; eauto.
Qed.
