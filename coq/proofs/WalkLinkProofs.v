(* C19 proofs, second part: the finite unfolding of directory worlds with link cycles (spec/WalkLinkSpec.v). *)
From Fzf Require Import Prelude WalkSpec WalkModel WalkProofs WalkLinkSpec.
Open Scope nat_scope.

(* ---- all_some / map ---- *)
Lemma all_some_map_Forall2 {A B} (F : A -> option B) l t :
  all_some (map F l) = Some t -> Forall2 (fun e x => F e = Some x) l t.
Proof.
  revert t. induction l as [|e l IH]; intros t H; cbn in H.
  - injection H as <-. constructor.
  - destruct (F e) as [x|] eqn:He; [|discriminate].
    destruct (all_some (map F l)) as [t'|] eqn:Hl; [|discriminate].
    injection H as <-. constructor; [exact He|]. apply IH. reflexivity.
Qed.

Lemma Forall2_all_some_map {A B} (F : A -> option B) l t :
  Forall2 (fun e x => F e = Some x) l t -> all_some (map F l) = Some t.
Proof.
  intros H. induction H as [|e x l t He _ IH]; cbn; [reflexivity|].
  rewrite He, IH. reflexivity.
Qed.

(* ---- the result does not depend on the fuel ---- *)
Lemma unfold_ent_mono (b1 b2 : list nat -> list gent -> option (list entry)) g path e x :
  (forall p l t, b1 p l = Some t -> b2 p l = Some t) ->
  unfold_ent b1 g path e = Some x -> unfold_ent b2 g path e = Some x.
Proof.
  intros Hb H. destruct e as [nm|nm id|nm|nm id]; cbn in *; try exact H.
  - destruct (b1 (id :: path) (content g id)) as [t|] eqn:E; [|discriminate].
    rewrite (Hb _ _ _ E). exact H.
  - destruct (on_path id path); [exact H|].
    destruct (b1 (id :: path) (content g id)) as [t|] eqn:E; [|discriminate].
    rewrite (Hb _ _ _ E). exact H.
Qed.

Lemma unfold_step f g path l t :
  unfold f g path l = Some t -> unfold (S f) g path l = Some t.
Proof.
  revert path l t. induction f as [|f IH]; intros path l t H; [discriminate|].
  change (all_some (map (unfold_ent (unfold f g) g path) l) = Some t) in H.
  change (all_some (map (unfold_ent (unfold (S f) g) g path) l) = Some t).
  apply all_some_map_Forall2 in H. apply Forall2_all_some_map.
  induction H as [|e x l' t' He _ IH']; constructor; [|exact IH'].
  apply (unfold_ent_mono (unfold f g) (unfold (S f) g)); [|exact He].
  intros p l0 t0. apply IH.
Qed.

Theorem unfold_fuel_irrelevant_proof : forall f f' g path l t,
  f <= f' -> unfold f g path l = Some t -> unfold f' g path l = Some t.
Proof.
  intros f f' g path l t Hle H. induction Hle as [|m _ IH]; [exact H|].
  apply unfold_step. exact IH.
Qed.

(* ---- a link that leads back is a leaf, listed once ---- *)
Theorem cycle_link_is_leaf_proof : forall below g path nm id,
  on_path id path = true -> unfold_ent below g path (GSymDir nm id) = Some (SymDir nm []).
Proof. intros below g path nm id H. cbn. rewrite H. reflexivity. Qed.

Theorem cycle_link_listed_once_proof : forall o ig d nm,
  list_entry o ig d (SymDir nm []) =
    if o_follow o then
      if pruned o ig (child d nm) nm then [] else emit (o_file o) (with_sep (child d nm))
    else emit (o_file o) (child d nm).
Proof.
  intros o ig d nm. cbn. destruct (o_follow o); [|reflexivity].
  destruct (pruned o ig (child d nm) nm); [reflexivity|]. apply app_nil_r.
Qed.

(* ---- however the links are laid out, the unfolding nests at most as many followed links as there are
        directories the path has not gone through yet ---- *)
Lemma on_path_cons id x path : on_path id (x :: path) = Nat.eqb id x || on_path id path.
Proof. reflexivity. Qed.

Lemma fresh_cons_le_list (D : list nat) x path :
  length (filter (fun id => negb (on_path id (x :: path))) D) <= length (filter (fun id => negb (on_path id path)) D).
Proof.
  induction D as [|a D IH]; cbn [filter]; [apply Nat.le_refl|].
  rewrite on_path_cons. destruct (on_path a path); cbn [negb].
  - rewrite orb_true_r. cbn [negb]. exact IH.
  - rewrite orb_false_r. destruct (Nat.eqb a x); cbn [negb length]; lia.
Qed.

Lemma fresh_cons_lt_list (D : list nat) x path :
  In x D -> on_path x path = false ->
  S (length (filter (fun id => negb (on_path id (x :: path))) D)) <= length (filter (fun id => negb (on_path id path)) D).
Proof.
  intros Hin Hx. induction D as [|a D IH]; [destruct Hin|].
  cbn [filter]. rewrite on_path_cons.
  destruct (Nat.eqb a x) eqn:E.
  - apply Nat.eqb_eq in E. subst a. rewrite Hx. cbn [orb negb length].
    pose proof (fresh_cons_le_list D x path). lia.
  - destruct Hin as [->|Hin]; [rewrite Nat.eqb_refl in E; discriminate|].
    specialize (IH Hin). cbn [orb]. destruct (on_path a path); cbn [negb length]; lia.
Qed.

Lemma fresh_cons_le g x path : fresh_dirs g (x :: path) <= fresh_dirs g path.
Proof. apply fresh_cons_le_list. Qed.

Lemma content_nonempty_in g id : content g id <> [] -> In id (map fst g).
Proof.
  induction g as [|[i l] g IH]; cbn; [intros H; now destruct H|].
  destruct (Nat.eqb i id) eqn:E; intros H.
  - left. now apply Nat.eqb_eq.
  - right. now apply IH.
Qed.

Lemma list_max_le_all (f : entry -> nat) l n :
  Forall (fun e => f e <= n) l -> list_max (map f l) <= n.
Proof.
  intros H. apply list_max_le. apply Forall_map. exact H.
Qed.

Theorem link_depth_bounded_proof : forall f g path l t,
  unfold f g path l = Some t -> Forall (fun e => link_depth e <= fresh_dirs g path) t.
Proof.
  induction f as [|f IH]; intros g path l t H; [discriminate|].
  change (all_some (map (unfold_ent (unfold f g) g path) l) = Some t) in H.
  apply all_some_map_Forall2 in H.
  induction H as [|e x l' t' He _ IH']; constructor; [|exact IH'].
  destruct e as [nm|nm id|nm|nm id]; cbn in He.
  - injection He as <-. cbn. lia.
  - destruct (unfold f g (id :: path) (content g id)) as [ch|] eqn:E; [|discriminate].
    injection He as <-. cbn [link_depth].
    apply list_max_le_all. apply IH in E.
    eapply Forall_impl; [|exact E]. cbn. intros a Ha.
    pose proof (fresh_cons_le g id path). lia.
  - injection He as <-. cbn. lia.
  - destruct (on_path id path) eqn:Hp.
    + injection He as <-. cbn. lia.
    + destruct (unfold f g (id :: path) (content g id)) as [tg|] eqn:E; [|discriminate].
      injection He as <-. cbn [link_depth]. destruct tg as [|a tg]; [lia|].
      assert (Hne : content g id <> []).
      { intro Hc. rewrite Hc in E. destruct f; [discriminate|]. cbn in E. discriminate. }
      apply content_nonempty_in in Hne.
      pose proof (fresh_cons_lt_list (map fst g) id path Hne Hp) as Hlt.
      apply IH in E.
      assert (list_max (map link_depth (a :: tg)) <= fresh_dirs g (id :: path)).
      { apply list_max_le_all. exact E. }
      unfold fresh_dirs in *. lia.
Qed.

Lemma filter_len_le {A} (p : A -> bool) l : length (filter p l) <= length l.
Proof. induction l as [|a l IH]; cbn; [lia|]. destruct (p a); cbn; lia. Qed.

Theorem link_depth_le_dirs_proof : forall f g path l t,
  unfold f g path l = Some t -> Forall (fun e => link_depth e <= length g) t.
Proof.
  intros f g path l t H. apply link_depth_bounded_proof in H.
  eapply Forall_impl; [|exact H]. cbn. intros a Ha.
  assert (fresh_dirs g path <= length g).
  { unfold fresh_dirs. etransitivity; [apply filter_len_le|]. rewrite map_length. apply Nat.le_refl. }
  lia.
Qed.

(* ---- the unfolding of a world with legal names is a legal tree: everything proved about trees applies ---- *)
Lemma content_ok g id : gworld_ok g -> Forall (fun e => name_ok (gname e)) (content g id).
Proof.
  intros H. induction H as [|[i l] g Hl _ IH]; cbn; [constructor|].
  destruct (Nat.eqb i id); [exact Hl|exact IH].
Qed.

Theorem unfold_entries_ok_proof : forall f g path l t,
  gworld_ok g -> Forall (fun e => name_ok (gname e)) l ->
  unfold f g path l = Some t -> entries_ok t.
Proof.
  induction f as [|f IH]; intros g path l t Hg Hl H; [discriminate|].
  change (all_some (map (unfold_ent (unfold f g) g path) l) = Some t) in H.
  apply all_some_map_Forall2 in H. unfold entries_ok.
  induction H as [|e x l' t' He _ IH']; constructor.
  - apply Forall_inv in Hl.
    destruct e as [nm|nm id|nm|nm id]; cbn in He, Hl.
    + injection He as <-. now constructor.
    + destruct (unfold f g (id :: path) (content g id)) as [ch|] eqn:E; [|discriminate].
      injection He as <-. constructor; [exact Hl|].
      apply (IH g (id :: path) (content g id) ch Hg (content_ok g id Hg) E).
    + injection He as <-. now constructor.
    + destruct (on_path id path).
      * injection He as <-. constructor; [exact Hl|constructor].
      * destruct (unfold f g (id :: path) (content g id)) as [tg|] eqn:E; [|discriminate].
        injection He as <-. constructor; [exact Hl|].
        apply (IH g (id :: path) (content g id) tg Hg (content_ok g id Hg) E).
  - apply IH'. now apply Forall_inv_tail in Hl.
Qed.

(* the walker model on a cyclic world = the spec's listing of its finite unfolding, for every option set *)
Theorem walk_eq_listing_cyclic_proof : forall o ig f g path root id t,
  gworld_ok g -> root_ok root ->
  unfold f g path (content g id) = Some t ->
  read_files o ig [(root, t)] = Ok (listing_roots o ig [(root, t)]).
Proof.
  intros o ig f g path root id t Hg Hr H. apply walk_eq_listing_proof.
  constructor; [|constructor]. split; [exact Hr|].
  apply (unfold_entries_ok_proof f g path (content g id) t Hg (content_ok g id Hg) H).
Qed.
