(* FuzzyMatchV2 after phase 2 (matrix fill + back-trace): totality (no out-of-range access, no read of
   scratch memory that was not written in this call) and soundness of the returned positions.
   Assumes the phase-2 interface [p2_ok] of V2Facts.v. *)
From Fzf Require Import Prelude AlgoSpec AlgoModel V2Facts V2MatrixBase V2MatrixFill V2MatrixTrace.
Open Scope Z_scope.

(* ---------- the tail of fuzzy_v2 ---------- *)

(* phase 3 only: the filled matrices with the best cell of the last row *)
Definition v2_fill (fwd : bool) (pat : list Z) (st : p2) : res (mat * mat * Z * Z) :=
  let M := length pat in
  let T := p2T st in let B := p2B st in
  let H0 := p2H0 st in let C0 := p2C0 st in
  let F := p2F st in
  do f0n <- get F O;
  let f0 := Z.of_nat f0n in
  let lastIdx := Z.of_nat (p2_lastIdx st) in
  let width := lastIdx - f0 + 1 in
  if width <=? 0 then Err OutOfRange else
  let cells := Z.to_nat (width * Z.of_nat M) in
  let blank : mat := repeat None cells in
  let seg (l : list Z) := firstn (Z.to_nat width) (skipn f0n l) in
  if Nat.ltb (length H0) (Z.to_nat (lastIdx + 1)) then Err OutOfRange else
  do H <- put_row blank 0 (seg H0);
  do C <- put_row blank 0 (seg C0);
  p3_rows fwd T B H C width f0 lastIdx M (tl F) (tl pat) 1 (p2_maxScore st) (Z.of_nat (p2_maxPos st)).

(* exactly the [else] branch of fuzzy_v2 after the [M = 1] test *)
Definition v2_after_phase2 (fwd withPos : bool) (minIdx : nat) (pat : list Z) (st : p2) : res mres :=
  let M := length pat in
  let T := rev (p2_T st) in let B := rev (p2_B st) in
  let H0 := rev (p2_H0 st) in let C0 := rev (p2_C0 st) in
  let F := rev (p2_F st) in
  do f0n <- get F O;
  let f0 := Z.of_nat f0n in
  let lastIdx := Z.of_nat (p2_lastIdx st) in
  let width := lastIdx - f0 + 1 in
  if width <=? 0 then Err OutOfRange else
  let cells := Z.to_nat (width * Z.of_nat M) in
  let blank : mat := repeat None cells in
  let seg (l : list Z) := firstn (Z.to_nat width) (skipn f0n l) in
  if Nat.ltb (length H0) (Z.to_nat (lastIdx + 1)) then Err OutOfRange else
  do H <- put_row blank 0 (seg H0);
  do C <- put_row blank 0 (seg C0);
  do r <- p3_rows fwd T B H C width f0 lastIdx M (tl F) (tl pat) 1 (p2_maxScore st) (Z.of_nat (p2_maxPos st));
  let '(H, C, maxScore, maxPos) := r in
  if maxPos <? 0 then Err OutOfRange else
  if withPos then
    do pj <- p4 (S (Z.to_nat maxPos)) H C F width f0 M minIdx (M - 1) maxPos true [];
    Ok (Match (Z.to_nat (Z.of_nat minIdx + snd pj)) (minIdx + Z.to_nat maxPos + 1) maxScore (Some (rev (fst pj))))
  else
    Ok (Match (minIdx + nn F O) (minIdx + Z.to_nat maxPos + 1) maxScore None).

Lemma foldm_eq_fold co cs nm c : foldm co cs nm c = fold co cs nm c.
Proof. reflexivity. Qed.

Lemma fuzzy_v2_unfold co sc cs nm fwd is_bytes text pat withPos slabCap :
  fuzzy_v2 co sc cs nm fwd is_bytes text pat withPos slabCap =
  let M := length pat in
  match pat with
  | [] => Ok (Match O O 0 (if withPos then Some [] else None))
  | p0 :: _ =>
    let N := length text in
    if Nat.ltb N M then Ok NoMatch else
    if (match slabCap with Some cap => cap <? Z.of_nat N * Z.of_nat M | None => false end)
    then fuzzy_v1 co sc cs nm fwd is_bytes text pat withPos else
    do afi <- ascii_fuzzy_index is_bytes text pat cs;
    match afi with
    | None => Ok NoMatch
    | Some (minIdx, maxIdx) =>
      if Nat.ltb maxIdx minIdx || Nat.ltb N maxIdx then Err OutOfRange else
      let w := firstn (maxIdx - minIdx) (skipn minIdx text) in
      let st := phase2 co sc cs nm fwd (Nat.eqb M 1) w O p0 pat (last pat 0) 0 (s_init sc) false
                       (mkP2 [] [] [] [] [] O O 0 O) in
      if negb (Nat.eqb (p2_pidx st) M) then Ok NoMatch else
      if Nat.eqb M 1 then
        let r := (minIdx + p2_maxPos st)%nat in
        Ok (Match r (S r) (p2_maxScore st) (if withPos then Some [r] else None))
      else v2_after_phase2 fwd withPos minIdx pat st
    end
  end.
Proof.
  unfold fuzzy_v2, v2_after_phase2. cbv zeta.
  destruct pat as [|p0 pat']; [reflexivity|].
  destruct (Nat.ltb _ _); [reflexivity|].
  destruct (match slabCap with Some cap => _ | None => false end); [reflexivity|].
  destruct (ascii_fuzzy_index is_bytes text (p0 :: pat') cs) as [[[minIdx maxIdx]|]|e]; cbn [bind]; try reflexivity.
  destruct (_ || _); [reflexivity|].
  destruct (negb _); [reflexivity|].
  destruct (Nat.eqb _ 1); [reflexivity|].
  destruct (get (rev (p2_F _)) 0) as [f0n|e] eqn:E; cbn [bind]; [|reflexivity].
  assert (Ef : f0n = nn (rev (p2_F (phase2 co sc cs nm fwd false
             (firstn (maxIdx - minIdx) (skipn minIdx text)) 0 p0 (p0 :: pat') (last (p0 :: pat') 0) 0 (s_init sc) false
             (mkP2 [] [] [] [] [] O O 0 O)))) O).
  { unfold nn. destruct (rev (p2_F _)) as [|a l]; cbn in E; [discriminate|]. now inversion E. }
  rewrite <- Ef. reflexivity.
Qed.

(* when M <> 1 phase 2 leaves maxScore / maxPos untouched *)
Lemma phase2_not_m1_max co sc cs nm fwd : forall w off p0 rest plast prevH0 prevClass inGap st,
  let st' := phase2 co sc cs nm fwd false w off p0 rest plast prevH0 prevClass inGap st in
  p2_maxScore st' = p2_maxScore st /\ p2_maxPos st' = p2_maxPos st.
Proof.
  induction w as [|c0 w IH]; intros off p0 rest plast prevH0 prevClass inGap st; cbn [phase2]; [auto|].
  destruct (fold_v2 co sc cs nm c0) as [class c]. cbv zeta.
  destruct (c =? p0); cbn [andb]; cbv iota.
  - match goal with |- context [phase2 co sc cs nm fwd false w ?a ?b ?c ?d ?e ?f ?g ?st1] =>
      destruct (IH a b c d e f g st1) as [A1 A2] end.
    cbv zeta in A1, A2. rewrite A1, A2. cbn. auto.
  - match goal with |- context [phase2 co sc cs nm fwd false w ?a ?b ?c ?d ?e ?f ?g ?st1] =>
      destruct (IH a b c d e f g st1) as [A1 A2] end.
    cbv zeta in A1, A2. rewrite A1, A2. cbn. auto.
Qed.

(* ---------- small facts ---------- *)

Lemma bonus_for_nonneg sc p c : 0 <= s_bw sc -> 0 <= s_bd sc -> 0 <= bonus_for sc p c.
Proof.
  intros H1 H2. unfold bonus_for, bonusBoundary, bonusCamel, bonusNonWord.
  repeat match goal with |- context [if ?b then _ else _] => destruct b end; lia.
Qed.

Lemma nth_firstn' {A} (l : list A) n k d : (k < n)%nat -> nth k (firstn n l) d = nth k l d.
Proof.
  revert n k; induction l as [|a l IH]; intros [|n] [|k] H; cbn; try lia; try reflexivity.
  apply IH. lia.
Qed.

Lemma nth_skipn' {A} (l : list A) s k d : nth k (skipn s l) d = nth (s + k) l d.
Proof.
  revert l; induction s as [|s IH]; intros l; [reflexivity|].
  destruct l as [|a l]; cbn [skipn Nat.add nth]; [now destruct k|]. apply IH.
Qed.

(* the ASCII fast path of phase 2 folds like the documented fold, provided normalisation is the identity on ASCII *)
Lemma fold_v2_fold co sc cs nm c : (nm = true -> forall x, x <= 127 -> co_norm co x = x) ->
  snd (fold_v2 co sc cs nm c) = fold co cs nm c.
Proof.
  intros Hn. unfold fold_v2, fold, lower1.
  destruct (Z.leb_spec c 127) as [Hc|Hc].
  - cbn [snd]. destruct (Z.ltb_spec 127 c) as [A|_]; [lia|].
    assert (Hup : (ascii_class sc c =? cUpper) = ((65 <=? c) && (c <=? 90))).
    { unfold ascii_class.
      destruct (Z.leb_spec 97 c); destruct (Z.leb_spec c 122); destruct (Z.leb_spec 65 c); destruct (Z.leb_spec c 90);
        cbn [andb]; try reflexivity; try lia;
        destruct ((48 <=? c) && (c <=? 57)); try reflexivity;
        destruct (ascii_white c); try reflexivity; destruct (mem c (s_delims sc)); reflexivity. }
    rewrite Hup.
    destruct (Z.leb_spec 65 c); destruct (Z.leb_spec c 90); cbn [andb]; destruct cs; cbn [negb andb];
      destruct nm; try reflexivity; symmetry; apply Hn; try reflexivity; lia.
  - destruct (Z.ltb_spec 127 c) as [_|A]; [|lia].
    destruct (Z.leb_spec 65 c); destruct (Z.leb_spec c 90); cbn [andb snd]; try lia; destruct cs; reflexivity.
Qed.

Lemma nth_error_firstn' {A} (l : list A) n i : (i < n)%nat -> nth_error (firstn n l) i = nth_error l i.
Proof.
  revert n i; induction l as [|a l IH]; intros [|n] [|i] H; cbn; try lia; try reflexivity.
  apply IH. lia.
Qed.

Lemma nth_error_skipn' {A} (l : list A) m i : nth_error (skipn m l) i = nth_error l (m + i).
Proof.
  revert l; induction m as [|m IH]; intros l; [reflexivity|].
  destruct l as [|a l]; cbn [skipn Nat.add nth_error]; [now destruct i|]. apply IH.
Qed.

(* a witness inside a window is a witness in the whole text, shifted *)
Lemma nth_error_window {A} (text : list A) n m i c :
  nth_error (firstn n (skipn m text)) i = Some c -> nth_error text (m + i) = Some c.
Proof.
  intros H. assert (Hi : (i < n)%nat).
  { destruct (Nat.lt_ge_cases i n) as [A0|A0]; [exact A0|].
    assert (nth_error (firstn n (skipn m text)) i = None); [|congruence].
    apply nth_error_None. rewrite firstn_length. lia. }
  rewrite nth_error_firstn' in H by exact Hi. rewrite nth_error_skipn' in H. exact H.
Qed.

Lemma witness_from_window co cs nm text n m : forall pat lo cols,
  witness_from co cs nm (firstn n (skipn m text)) lo pat cols = true ->
  witness_from co cs nm text (m + lo) pat (map (fun c => (c + m)%nat) cols) = true.
Proof.
  induction pat as [|p pat IH]; intros lo [|c cols] H; cbn in *; try discriminate; [reflexivity|].
  apply andb_true_iff in H as [H1 H2].
  destruct (nth_error (firstn n (skipn m text)) c) as [x|] eqn:E; [|discriminate].
  apply nth_error_window in E. replace (c + m)%nat with (m + c)%nat by lia. rewrite E.
  apply andb_true_iff in H2 as [H2 H3]. rewrite H2. cbn [andb].
  apply Nat.leb_le in H1. replace (m + lo <=? m + c)%nat with true by (symmetry; apply Nat.leb_le; lia).
  cbn [andb]. replace (S (m + c)) with (m + S c)%nat by lia. apply IH. exact H3.
Qed.

(* ---------- from p2_ok to the context of the matrix proofs ---------- *)

Section After.
Variable co : char_ops.
Variable sc : scheme.
Variables (cs nm : bool) (w pat : list Z) (st : p2).
Hypothesis Hbw : 0 <= s_bw sc.
Hypothesis Hbd : 0 <= s_bd sc.
Hypothesis Hok : p2_ok co sc cs nm w pat st.
Hypothesis HM : (2 <= length pat)%nat.

Let M := length pat.
Let T := p2T st.
Let B := p2B st.
Let F := p2F st.
Let f0 := Z.of_nat (nn F O).
Let lastIdx := Z.of_nat (p2_lastIdx st).
Let width := lastIdx - f0 + 1.

Lemma lenT : length T = length w.
Proof. unfold T. rewrite (ok_T _ _ _ _ _ _ _ Hok). apply map_length. Qed.

Lemma after_ctx : v2ctx T B F pat M width f0 lastIdx.
Proof.
  pose proof (ok_last_ge _ _ _ _ _ _ _ Hok) as HL.
  constructor.
  - apply (ok_lenF _ _ _ _ _ _ _ Hok).
  - reflexivity.
  - exact HM.
  - reflexivity.
  - apply (ok_F_inc _ _ _ _ _ _ _ Hok).
  - unfold lastIdx, F, M. lia.
  - rewrite lenT. unfold lastIdx. lia.
  - unfold B. rewrite (ok_lenB _ _ _ _ _ _ _ Hok). symmetry. apply lenT.
  - reflexivity.
  - intros j Hj. unfold B in *. rewrite (ok_lenB _ _ _ _ _ _ _ Hok) in Hj.
    rewrite (ok_B _ _ _ _ _ _ _ Hok j Hj). now apply bonus_for_nonneg.
  - intros i Hi. apply (ok_F_hit _ _ _ _ _ _ _ Hok i Hi).
Qed.

Let Hctx := after_ctx.

Lemma H0_nonneg j : (j < length w)%nat -> 0 <= zn (p2H0 st) j.
Proof.
  intros Hj. destruct (Z.eq_dec (zn (p2T st) j) (zn pat 0)) as [E|E].
  - rewrite (ok_H0_match _ _ _ _ _ _ _ Hok j Hj E).
    assert (0 <= zn (p2B st) j) by (rewrite (ok_B _ _ _ _ _ _ _ Hok j Hj); now apply bonus_for_nonneg).
    unfold scoreMatch. lia.
  - rewrite (ok_H0_gap _ _ _ _ _ _ _ Hok j Hj E). lia.
Qed.

(* row 0 as copied from H0 / C0 satisfies the row invariant *)
Lemma row0_ok (hf cf : Z -> option Z) :
  (forall z, 0 <= z < width -> hf z = Some (zn (p2H0 st) (nn F O + Z.to_nat z))) ->
  (forall z, 0 <= z < width -> cf z = Some (zn (p2C0 st) (nn F O + Z.to_nat z))) ->
  rows_ok T F pat width f0 lastIdx hf cf O.
Proof.
  intros Hh Hc i Hi. assert (i = O) by lia. subst i.
  pose proof (ok_last_ge _ _ _ _ _ _ _ Hok) as HL.
  assert (Hcell : forall j, cellz width f0 O j = j - f0) by (intros; unfold cellz; lia).
  assert (Hnat : forall j, f0 <= j -> (nn F O + Z.to_nat (j - f0))%nat = Z.to_nat j) by (intros; unfold f0 in *; lia).
  assert (HlastW : lastIdx < Z.of_nat (length w)) by (unfold lastIdx; lia).
  constructor.
  - intros; lia.
  - intros j Hj. fold f0 in Hj. rewrite Hcell, Hh by (unfold width; lia). rewrite Hnat by lia.
    eexists; split; [reflexivity|]. apply H0_nonneg. lia.
  - intros j Hj. fold f0 in Hj. rewrite Hcell, Hc by (unfold width; lia). rewrite Hnat by lia.
    eexists; split; [reflexivity|]. rewrite (ok_C0 _ _ _ _ _ _ _ Hok) by lia.
    destruct (_ =? _); lia.
  - intros j v u Hj Hne. fold f0 in Hj. rewrite !Hcell, !Hh by (unfold width; lia). rewrite !Hnat by lia.
    intros Hv Hu. inversion Hv; subst v. inversion Hu; subst u. clear Hv Hu.
    assert (Ej : Z.to_nat j = S (Z.to_nat (j - 1))) by lia.
    rewrite Ej in *.
    rewrite (ok_H0_gap _ _ _ _ _ _ _ Hok (S (Z.to_nat (j - 1))) ltac:(lia) Hne).
    eexists; split; [|reflexivity]. destruct (negb _); auto.
  - intros; lia.
  - intros v _. fold f0. pose proof (width_pos _ _ _ _ _ _ _ _ Hctx) as Hw. rewrite Hcell, Hh by lia.
    replace (Z.to_nat (f0 - f0)) with O by lia. rewrite Nat.add_0_r. intros Hv; inversion Hv; subst v.
    destruct (ok_F_hit _ _ _ _ _ _ _ Hok O ltac:(lia)) as [A1 A2].
    unfold F. rewrite (ok_H0_match _ _ _ _ _ _ _ Hok _ A1 A2).
    assert (0 <= zn (p2B st) (nn (p2F st) O)) by (rewrite (ok_B _ _ _ _ _ _ _ Hok _ A1); now apply bonus_for_nonneg).
    lia.
Qed.

Hypothesis Hms : p2_maxScore st <= 0.

Lemma v2_fill_ok fwd :
  exists H C ms mp,
    v2_fill fwd pat st = Ok (H, C, ms, mp) /\
    mlen M width H /\ mlen M width C /\
    rows_ok T F pat width f0 lastIdx (mc H) (mc C) (M - 1) /\
    best_upto F width f0 fwd (mc H) (M - 1) (lastIdx + 1) ms mp.
Proof.
  pose proof (ok_last_ge _ _ _ _ _ _ _ Hok) as HL.
  pose proof (width_pos _ _ _ _ _ _ _ _ Hctx) as Hw.
  unfold v2_fill. cbv zeta.
  rewrite (get_nth (p2F st) O O) by (rewrite (ok_lenF _ _ _ _ _ _ _ Hok); lia). cbn [bind].
  fold (nn (p2F st) O). fold F. fold f0. fold lastIdx. fold width. fold M. fold T. fold B.
  destruct (Z.leb_spec width 0) as [A|_]; [lia|].
  destruct (Nat.ltb_spec (length (p2H0 st)) (Z.to_nat (lastIdx + 1))) as [A|_];
    [rewrite (ok_lenH0 _ _ _ _ _ _ _ Hok) in A; unfold lastIdx in A; lia|].
  assert (Hcells : Z.of_nat (Z.to_nat (width * Z.of_nat M)) = width * Z.of_nat M).
  { apply Z2Nat.id. apply Z.mul_nonneg_nonneg; lia. }
  assert (HwM : width <= width * Z.of_nat M).
  { replace width with (width * 1) at 1 by lia. apply Z.mul_le_mono_nonneg_l; unfold M; lia. }
  assert (Hseg : forall l : list Z, length l = length w -> length (firstn (Z.to_nat width) (skipn (nn F O) l)) = Z.to_nat width).
  { intros l Hl. rewrite firstn_length, skipn_length, Hl. unfold width, f0, lastIdx in *. lia. }
  assert (Hsegn : forall (l : list Z) z, 0 <= z < width ->
            zn (firstn (Z.to_nat width) (skipn (nn F O) l)) (Z.to_nat z) = zn l (nn F O + Z.to_nat z)).
  { intros l z Hz. unfold zn. rewrite nth_firstn' by lia. apply nth_skipn'. }
  destruct (put_row_spec (firstn (Z.to_nat width) (skipn (nn F O) (p2H0 st))) (repeat None (Z.to_nat (width * Z.of_nat M))) 0)
    as (H & EH & LH & CH); [lia|rewrite Hseg, repeat_length by apply (ok_lenH0 _ _ _ _ _ _ _ Hok); lia|].
  rewrite EH. cbn [bind].
  destruct (put_row_spec (firstn (Z.to_nat width) (skipn (nn F O) (p2C0 st))) (repeat None (Z.to_nat (width * Z.of_nat M))) 0)
    as (C & EC & LC & CC); [lia|rewrite Hseg, repeat_length by apply (ok_lenC0 _ _ _ _ _ _ _ Hok); lia|].
  rewrite EC. cbn [bind].
  rewrite repeat_length in LH, LC.
  assert (Hrow0 : rows_ok T F pat width f0 lastIdx (mc H) (mc C) (1 - 1)).
  { apply row0_ok; intros z Hz.
    - rewrite CH, Hseg by apply (ok_lenH0 _ _ _ _ _ _ _ Hok).
      destruct (Z.leb_spec 0 z); [|lia]. destruct (Z.ltb_spec z (0 + Z.of_nat (Z.to_nat width))); [|lia].
      cbn [andb]. replace (z - 0) with z by lia. now rewrite Hsegn.
    - rewrite CC, Hseg by apply (ok_lenC0 _ _ _ _ _ _ _ Hok).
      destruct (Z.leb_spec 0 z); [|lia]. destruct (Z.ltb_spec z (0 + Z.of_nat (Z.to_nat width))); [|lia].
      cbn [andb]. replace (z - 0) with z by lia. now rewrite Hsegn. }
  change (tl F) with (skipn 1 F). change (tl pat) with (skipn 1 pat).
  destruct (p3_rows_ok T B F pat M width f0 lastIdx Hctx fwd (M - 1) 1%nat H C (p2_maxScore st) (Z.of_nat (p2_maxPos st)))
    as (H' & C' & ms & mp & E & R1 & R2 & R3 & R4); try (unfold M; lia); try (unfold mlen; lia); [exact Hrow0|].
  exists H', C', ms, mp. split; [exact E|]. split; [exact R1|]. split; [exact R2|]. split; [exact R3|].
  apply R4; [unfold M; lia|exact Hms].
Qed.

Lemma after_fill fwd withPos minIdx :
  v2_after_phase2 fwd withPos minIdx pat st =
  do r <- v2_fill fwd pat st;
  let '(H, C, maxScore, maxPos) := r in
  if maxPos <? 0 then Err OutOfRange else
  if withPos then
    do pj <- p4 (S (Z.to_nat maxPos)) H C F width f0 M minIdx (M - 1) maxPos true [];
    Ok (Match (Z.to_nat (Z.of_nat minIdx + snd pj)) (minIdx + Z.to_nat maxPos + 1) maxScore (Some (rev (fst pj))))
  else
    Ok (Match (minIdx + nn F O) (minIdx + Z.to_nat maxPos + 1) maxScore None).
Proof.
  unfold v2_after_phase2, v2_fill. cbv zeta.
  change (rev (p2_F st)) with (p2F st). change (rev (p2_T st)) with (p2T st). change (rev (p2_B st)) with (p2B st).
  change (rev (p2_H0 st)) with (p2H0 st). change (rev (p2_C0 st)) with (p2C0 st).
  rewrite (get_nth (p2F st) O O) by (rewrite (ok_lenF _ _ _ _ _ _ _ Hok); lia). cbn [bind].
  fold (nn (p2F st) O). fold F. fold f0. fold lastIdx. fold width. fold M.
  destruct (width <=? 0); [reflexivity|].
  destruct (Nat.ltb _ _); [reflexivity|].
  destruct (put_row _ 0 _) as [H|e]; cbn [bind]; [|reflexivity].
  destruct (put_row _ 0 _) as [C|e]; cbn [bind]; [|reflexivity].
  reflexivity.
Qed.

(* the trace on the filled matrix *)
Lemma v2_trace_ok fwd minIdx H C ms mp :
  mlen M width H -> mlen M width C ->
  rows_ok T F pat width f0 lastIdx (mc H) (mc C) (M - 1) ->
  best_upto F width f0 fwd (mc H) (M - 1) (lastIdx + 1) ms mp ->
  exists rest j',
    p4 (S (Z.to_nat mp)) H C F width f0 M minIdx (M - 1) mp true [] =
      Ok (map (fun c => (c + minIdx)%nat) (Z.to_nat j' :: rest), j') /\
    f0 <= j' /\ cols_ok T pat M mp O j' (Z.to_nat j' :: rest).
Proof.
  intros HlH HlC Hrows (Hmp & _ & _).
  change (@nil nat) with (map (fun c => (c + minIdx)%nat) []).
  apply (p4_ok T B F pat M width f0 lastIdx Hctx H C minIdx mp HlC Hrows); try lia; try (unfold M in *; lia).
  cbn [cols_ok]. unfold M in *. lia.
Qed.

End After.

(* ---------- cols_ok gives a witness ---------- *)

Lemma cols_ok_witness co sc cs nm w pat hi :
  (nm = true -> forall x, x <= 127 -> co_norm co x = x) ->
  hi < Z.of_nat (length w) ->
  forall cols i lo, 0 <= lo ->
    cols_ok (map (fun c => snd (fold_v2 co sc cs nm c)) w) pat (length pat) hi i lo cols ->
    witness_from co cs nm w (Z.to_nat lo) (skipn i pat) cols = true.
Proof.
  intros Hn Hhi. induction cols as [|c r IH]; intros i lo Hlo Hc.
  - cbn in Hc. subst i. rewrite skipn_all. reflexivity.
  - pose proof (cols_ok_length _ _ _ _ _ _ _ Hc) as HL. cbn [length] in HL.
    destruct Hc as (A1 & A2 & A3 & A4).
    rewrite (skipn_nth_cons pat i 0) by lia. cbn [witness_from].
    replace (Z.to_nat lo <=? c)%nat with true by (symmetry; apply Nat.leb_le; lia). cbn [andb].
    destruct (nth_error w c) as [x|] eqn:E; [|apply nth_error_None in E; lia].
    assert (Ex : zn (map (fun c => snd (fold_v2 co sc cs nm c)) w) c = snd (fold_v2 co sc cs nm x)).
    { unfold zn. apply nth_error_nth. exact (map_nth_error (fun c => snd (fold_v2 co sc cs nm c)) c w E). }
    rewrite Ex, fold_v2_fold in A3 by exact Hn. fold (zn pat i). rewrite A3, Z.eqb_refl. cbn [andb].
    specialize (IH (S i) (Z.of_nat c + 1) ltac:(lia) A4).
    replace (Z.to_nat (Z.of_nat c + 1)) with (S c) in IH by lia. exact IH.
Qed.

(* ---------- property-level theorems ---------- *)

(* 3a. After a successful phase 2 the rest of FuzzyMatchV2 returns a Match: no index out of range,
   no read of a scratch cell not written in this call (those are Err in the model). *)
Theorem v2_matrix_total_proof : forall co sc cs nm fwd withPos minIdx w pat st,
  0 <= s_bw sc -> 0 <= s_bd sc ->
  p2_ok co sc cs nm w pat st -> (2 <= length pat)%nat -> p2_maxScore st <= 0 ->
  exists s e score pos,
    v2_after_phase2 fwd withPos minIdx pat st = Ok (Match s e score pos) /\
    (minIdx + nn (p2F st) O <= s)%nat /\ (s < e)%nat /\ (e <= minIdx + length w)%nat /\
    (withPos = false -> pos = None /\ s = (minIdx + nn (p2F st) O)%nat) /\
    (withPos = true -> exists ps, pos = Some ps).
Proof.
  intros co sc cs nm fwd withPos minIdx w pat st Hbw Hbd Hok HM Hms.
  destruct (v2_fill_ok co sc cs nm w pat st Hbw Hbd Hok HM Hms fwd) as (H & C & ms & mp & E & HlH & HlC & Hrows & Hbest).
  rewrite (after_fill co sc cs nm w pat st Hok HM). rewrite E. cbn [bind]. cbv iota beta.
  pose proof Hbest as (Hmp & _ & _).
  pose proof (ok_last_ge _ _ _ _ _ _ _ Hok) as HL.
  pose proof (after_ctx co sc cs nm w pat st Hbw Hbd Hok HM) as Hctx.
  pose proof (F_ge_f0 _ _ _ _ _ _ _ _ Hctx (length pat - 1)%nat ltac:(lia)) as HF0.
  destruct (Z.ltb_spec mp 0) as [A|_]; [lia|].
  destruct withPos.
  - destruct (v2_trace_ok co sc cs nm w pat st Hbw Hbd Hok HM fwd minIdx H C ms mp HlH HlC Hrows Hbest)
      as (rest & j' & Ep & Hj' & Hcols).
    rewrite Ep. cbn [bind fst snd].
    cbn [cols_ok] in Hcols. destruct Hcols as (_ & Hjm & _).
    eexists _, _, _, _. split; [reflexivity|].
    split; [lia|]. split; [lia|]. split; [lia|]. split; [intros; discriminate|intros _; eauto].
  - eexists _, _, _, _. split; [reflexivity|].
    split; [lia|]. split; [lia|]. split; [lia|]. split; [intros _; split; reflexivity|intros; discriminate].
Qed.

(* 3b. Soundness of the positions: [rev ps] (ascending) is a witness that the pattern is a subsequence
   of the folded window, all positions lie in [s, e), s is the first position. *)
Theorem v2_positions_sound_proof : forall co sc cs nm fwd minIdx w pat st,
  0 <= s_bw sc -> 0 <= s_bd sc ->
  (nm = true -> forall x, x <= 127 -> co_norm co x = x) ->
  p2_ok co sc cs nm w pat st -> (2 <= length pat)%nat -> p2_maxScore st <= 0 ->
  exists s e score ps cols,
    v2_after_phase2 fwd true minIdx pat st = Ok (Match s e score (Some ps)) /\
    rev ps = map (fun c => (c + minIdx)%nat) cols /\
    witness co cs nm w pat cols = true /\
    length ps = length pat /\
    (forall k, (S k < length pat)%nat -> (nth k (rev ps) O < nth (S k) (rev ps) O)%nat) /\
    (forall p, In p ps -> (s <= p < e)%nat /\ (minIdx + nn (p2F st) O <= p)%nat) /\
    hd_error (rev ps) = Some s /\
    (e <= minIdx + length w)%nat.
Proof.
  intros co sc cs nm fwd minIdx w pat st Hbw Hbd Hn Hok HM Hms.
  destruct (v2_fill_ok co sc cs nm w pat st Hbw Hbd Hok HM Hms fwd) as (H & C & ms & mp & E & HlH & HlC & Hrows & Hbest).
  rewrite (after_fill co sc cs nm w pat st Hok HM). rewrite E. cbn [bind]. cbv iota beta.
  pose proof Hbest as (Hmp & _ & _).
  pose proof (ok_last_ge _ _ _ _ _ _ _ Hok) as HL.
  pose proof (after_ctx co sc cs nm w pat st Hbw Hbd Hok HM) as Hctx.
  pose proof (F_ge_f0 _ _ _ _ _ _ _ _ Hctx (length pat - 1)%nat ltac:(lia)) as HF0.
  destruct (Z.ltb_spec mp 0) as [A|_]; [lia|].
  destruct (v2_trace_ok co sc cs nm w pat st Hbw Hbd Hok HM fwd minIdx H C ms mp HlH HlC Hrows Hbest)
    as (rest & j' & Ep & Hj' & Hcols).
  rewrite Ep. cbn [bind fst snd].
  set (cols := Z.to_nat j' :: rest) in *.
  pose proof (cols_ok_length _ _ _ _ _ _ _ Hcols) as Hlen. cbn [Nat.add] in Hlen.
  pose proof (cols_ok_nth _ _ _ _ _ _ _ Hcols) as Hnth.
  exists (Z.to_nat (Z.of_nat minIdx + j')), (minIdx + Z.to_nat mp + 1)%nat, ms,
         (rev (map (fun c => (c + minIdx)%nat) cols)), cols.
  split; [reflexivity|]. rewrite rev_involutive. split; [reflexivity|]. split.
  { unfold witness. change O with (Z.to_nat 0). change pat with (skipn O pat).
    apply (cols_ok_witness co sc cs nm w pat mp Hn); [unfold p2_lastIdx in *; lia|lia|].
    rewrite <- (ok_T _ _ _ _ _ _ _ Hok). eapply cols_ok_lo; [|exact Hcols]. lia. }
  split; [rewrite rev_length, map_length; exact Hlen|]. split.
  { intros k Hk.
    rewrite (nth_indep _ O (O + minIdx)%nat) by (rewrite map_length; lia).
    rewrite (nth_indep _ O (O + minIdx)%nat (n := S k)) by (rewrite map_length; lia).
    rewrite !(map_nth (fun c => (c + minIdx)%nat)).
    destruct (Hnth k ltac:(lia)) as (_ & _ & A). specialize (A ltac:(lia)). lia. }
  split.
  { intros p Hp. apply in_rev in Hp. apply in_map_iff in Hp as (c & <- & Hc).
    destruct (In_nth _ _ O Hc) as (k & Hk & <-).
    destruct (Hnth k Hk) as (A & _ & _). lia. }
  split; [cbn [cols map hd_error]; f_equal; lia|]. lia.
Qed.

(* the same, read in the whole line: the window is text[minIdx : minIdx+n] *)
Theorem v2_positions_sound_text_proof : forall co sc cs nm fwd minIdx n text pat st,
  0 <= s_bw sc -> 0 <= s_bd sc ->
  (nm = true -> forall x, x <= 127 -> co_norm co x = x) ->
  p2_ok co sc cs nm (firstn n (skipn minIdx text)) pat st -> (2 <= length pat)%nat -> p2_maxScore st <= 0 ->
  exists s e score ps,
    v2_after_phase2 fwd true minIdx pat st = Ok (Match s e score (Some ps)) /\
    witness co cs nm text pat (rev ps) = true /\
    (forall p, In p ps -> (s <= p < e)%nat) /\ hd_error (rev ps) = Some s /\ (e <= length text)%nat.
Proof.
  intros co sc cs nm fwd minIdx n text pat st Hbw Hbd Hn Hok HM Hms.
  destruct (v2_positions_sound_proof co sc cs nm fwd minIdx _ pat st Hbw Hbd Hn Hok HM Hms)
    as (s & e & score & ps & cols & E & Hrev & Hwit & _ & _ & Hin & Hhd & He).
  exists s, e, score, ps. split; [exact E|]. split.
  - rewrite Hrev. unfold witness in *. apply (witness_from_window co cs nm text n minIdx) in Hwit.
    rewrite Nat.add_0_r in Hwit.
    destruct pat as [|p pat']; [cbn in HM; lia|]. destruct cols as [|c cols']; [discriminate|].
    cbn [witness_from map] in *. apply andb_true_iff in Hwit as [_ Hw2]. exact Hw2.
  - split; [intros p Hp; apply (Hin p Hp)|]. split; [exact Hhd|].
    pose proof (ok_last_ge _ _ _ _ _ _ _ Hok) as HL.
    rewrite firstn_length, skipn_length in He, HL. lia.
Qed.

(* 4. maxScore is the maximum of the last matrix row (first maximum when scanning forward, last one
   otherwise), and the end offset is its column + 1. *)
Theorem v2_maxscore_proof : forall co sc cs nm fwd withPos minIdx w pat st,
  0 <= s_bw sc -> 0 <= s_bd sc ->
  p2_ok co sc cs nm w pat st -> (2 <= length pat)%nat -> p2_maxScore st <= 0 ->
  let M := length pat in let F := p2F st in
  let f0 := Z.of_nat (nn F O) in let lastIdx := Z.of_nat (p2_lastIdx st) in let width := lastIdx - f0 + 1 in
  exists H C score mp s e pos,
    v2_fill fwd pat st = Ok (H, C, score, mp) /\
    v2_after_phase2 fwd withPos minIdx pat st = Ok (Match s e score pos) /\
    Z.of_nat e = Z.of_nat minIdx + mp + 1 /\
    Z.of_nat (nn F (M - 1)) <= mp <= lastIdx /\
    mc H (cellz width f0 (M - 1) mp) = Some score /\
    (forall j v, Z.of_nat (nn F (M - 1)) <= j <= lastIdx -> mc H (cellz width f0 (M - 1) j) = Some v ->
       v <= score /\ (if fwd then j < mp -> v < score else mp < j -> v < score)) /\
    rows_ok (p2T st) F pat width f0 lastIdx (mc H) (mc C) (M - 1).
Proof.
  intros co sc cs nm fwd withPos minIdx w pat st Hbw Hbd Hok HM Hms. cbv zeta.
  destruct (v2_fill_ok co sc cs nm w pat st Hbw Hbd Hok HM Hms fwd) as (H & C & ms & mp & E & HlH & HlC & Hrows & Hbest).
  pose proof Hbest as (Hmp & Hcell & Hall).
  destruct (v2_matrix_total_proof co sc cs nm fwd withPos minIdx w pat st Hbw Hbd Hok HM Hms)
    as (s & e & score & pos & Ea & _).
  pose proof Ea as Ea'.
  rewrite (after_fill co sc cs nm w pat st Hok HM), E in Ea'. cbn [bind] in Ea'. cbv iota beta in Ea'.
  destruct (Z.ltb_spec mp 0) as [A|_]; [lia|].
  assert (Hes : score = ms /\ e = (minIdx + Z.to_nat mp + 1)%nat).
  { destruct withPos.
    - destruct (p4 _ _ _ _ _ _ _ _ _ _ _ _) as [pj|err]; cbn [bind] in Ea'; [|discriminate]. inversion Ea'. auto.
    - inversion Ea'. auto. }
  destruct Hes as [-> ->].
  exists H, C, ms, mp, s, (minIdx + Z.to_nat mp + 1)%nat, pos.
  split; [exact E|]. split; [exact Ea|]. split; [lia|]. split; [lia|]. split; [exact Hcell|].
  split; [|exact Hrows]. intros j v Hj Hv. apply Hall; [lia|exact Hv].
Qed.

Print Assumptions v2_matrix_total_proof.
Print Assumptions v2_positions_sound_proof.
Print Assumptions v2_positions_sound_text_proof.
Print Assumptions v2_maxscore_proof.
Print Assumptions fuzzy_v2_unfold.
Print Assumptions phase2_not_m1_max.

(* ---------- phase-level statements (abstract context [v2ctx]) ---------- *)

(* 1. Phase 3 never fails and establishes the matrix invariant [rows_ok (M-1)]; with an initial
   maxScore <= 0 the returned (maxScore, maxPos) is the best cell of the last row. *)
Theorem p3_total_proof : forall T B F pat M width f0 lastIdx fwd H C ms mp,
  v2ctx T B F pat M width f0 lastIdx ->
  mlen M width H -> mlen M width C ->
  rows_ok T F pat width f0 lastIdx (mc H) (mc C) O ->
  exists H' C' ms' mp',
    p3_rows fwd T B H C width f0 lastIdx M (tl F) (tl pat) 1 ms mp = Ok (H', C', ms', mp') /\
    mlen M width H' /\ mlen M width C' /\
    rows_ok T F pat width f0 lastIdx (mc H') (mc C') (M - 1) /\
    (ms <= 0 -> best_upto F width f0 fwd (mc H') (M - 1) (lastIdx + 1) ms' mp').
Proof.
  intros T B F pat M width f0 lastIdx fwd H C ms mp Hctx HlH HlC Hrows.
  pose proof (cx_M _ _ _ _ _ _ _ _ Hctx) as HM.
  change (tl F) with (skipn 1 F). change (tl pat) with (skipn 1 pat).
  destruct (p3_rows_ok T B F pat M width f0 lastIdx Hctx fwd (M - 1) 1%nat H C ms mp ltac:(lia) ltac:(lia) HlH HlC Hrows)
    as (H' & C' & ms' & mp' & E & R1 & R2 & R3 & R4).
  exists H', C', ms', mp'. repeat (split; [assumption|]). intros Hms. apply R4; [lia|exact Hms].
Qed.
Print Assumptions p3_total_proof.

(* 2. Phase 4 on a matrix satisfying the invariant: never fails (fuel S maxPos suffices), ends at row 0,
   and the columns it takes (ascending; the model conses) are matching cells, one per pattern character. *)
Theorem p4_total_sound_proof : forall T B F pat M width f0 lastIdx H C minIdx maxPos,
  v2ctx T B F pat M width f0 lastIdx ->
  mlen M width C ->
  rows_ok T F pat width f0 lastIdx (mc H) (mc C) (M - 1) ->
  Z.of_nat (nn F (M - 1)) <= maxPos <= lastIdx ->
  exists cols j,
    p4 (S (Z.to_nat maxPos)) H C F width f0 M minIdx (M - 1) maxPos true [] =
      Ok (map (fun c => (c + minIdx)%nat) cols, j) /\
    f0 <= j /\ hd_error cols = Some (Z.to_nat j) /\
    length cols = M /\
    (forall k, (k < M)%nat -> j <= Z.of_nat (nth k cols O) <= maxPos /\ zn T (nth k cols O) = zn pat k /\
                              ((S k < M)%nat -> (nth k cols O < nth (S k) cols O)%nat)).
Proof.
  intros T B F pat M width f0 lastIdx H C minIdx maxPos Hctx HlC Hrows Hmp.
  pose proof (cx_M _ _ _ _ _ _ _ _ Hctx) as HM.
  pose proof (F_ge_f0 _ _ _ _ _ _ _ _ Hctx (M - 1)%nat ltac:(lia)) as HF0.
  pose proof (F_nonneg F (M - 1)) as HFn.
  destruct (p4_ok T B F pat M width f0 lastIdx Hctx H C minIdx maxPos HlC Hrows Hmp
              (S (Z.to_nat maxPos)) (M - 1)%nat maxPos true [] ltac:(lia) ltac:(lia) ltac:(lia) ltac:(lia))
    as (rest & j' & E & Hj & Hcols).
  { cbn [cols_ok]. lia. }
  exists (Z.to_nat j' :: rest), j'. split; [exact E|]. split; [exact Hj|]. split; [reflexivity|].
  pose proof (cols_ok_length _ _ _ _ _ _ _ Hcols) as Hlen. cbn [Nat.add] in Hlen.
  split; [exact Hlen|]. intros k Hk.
  destruct (cols_ok_nth _ _ _ _ _ _ _ Hcols k ltac:(lia)) as (A1 & A2 & A3).
  split; [exact A1|]. split; [exact A2|]. intros Hk'. apply A3. lia.
Qed.
Print Assumptions p4_total_sound_proof.

(* ---------- glue: fuzzy_v2 itself, for patterns of length >= 2 ---------- *)

(* When the pre-checks pass and phase 2 found every pattern character, fuzzy_v2 IS the tail studied
   above, run on a phase-2 state whose maxScore is still 0. *)
Theorem fuzzy_v2_M2_proof : forall co sc cs nm fwd is_bytes text p0 pat' withPos slabCap minIdx maxIdx,
  let pat := p0 :: pat' in
  let M := length pat in
  let N := length text in
  (2 <= M)%nat -> (M <= N)%nat ->
  (match slabCap with Some cap => cap <? Z.of_nat N * Z.of_nat M | None => false end) = false ->
  ascii_fuzzy_index is_bytes text pat cs = Ok (Some (minIdx, maxIdx)) ->
  (minIdx <= maxIdx <= N)%nat ->
  let w := firstn (maxIdx - minIdx) (skipn minIdx text) in
  let st := phase2 co sc cs nm fwd false w O p0 pat (last pat 0) 0 (s_init sc) false (mkP2 [] [] [] [] [] O O 0 O) in
  p2_pidx st = M ->
  fuzzy_v2 co sc cs nm fwd is_bytes text pat withPos slabCap = v2_after_phase2 fwd withPos minIdx pat st /\
  p2_maxScore st <= 0.
Proof.
  intros co sc cs nm fwd is_bytes text p0 pat' withPos slabCap minIdx maxIdx pat M N HM HN Hslab Hafi Hr w st Hp.
  subst st w M N pat.
  split.
  - rewrite fuzzy_v2_unfold. cbv zeta.
    destruct (Nat.ltb_spec (length text) (length (p0 :: pat'))) as [A|_]; [lia|]. rewrite Hslab, Hafi. cbn [bind].
    destruct (Nat.ltb_spec maxIdx minIdx) as [A|_]; [lia|]. destruct (Nat.ltb_spec (length text) maxIdx) as [A|_]; [lia|]. cbn [orb].
    assert (E1 : Nat.eqb (length (p0 :: pat')) 1 = false) by (apply Nat.eqb_neq; lia). rewrite E1.
    rewrite Hp, Nat.eqb_refl. reflexivity.
  - destruct (phase2_not_m1_max co sc cs nm fwd (firstn (maxIdx - minIdx) (skipn minIdx text)) O p0 (p0 :: pat')
               (last (p0 :: pat') 0) 0 (s_init sc) false (mkP2 [] [] [] [] [] O O 0 O)) as [A _].
    cbv zeta in A. rewrite A. cbn. lia.
Qed.
Print Assumptions fuzzy_v2_M2_proof.

(* ---------- non-vacuity ---------- *)

Definition ex_co := mkOps (fun c => c) (fun _ => cNonWord) (fun c => c) (fun _ => false).
Definition ex_w : list Z := [97; 120; 98; 98; 99].     (* "axbbc" *)
Definition ex_pat : list Z := [97; 98; 99].            (* "abc" *)
Definition ex_st : p2 :=
  phase2 ex_co scheme_default true false true false ex_w O 97 ex_pat 99 0 cWhite false (mkP2 [] [] [] [] [] O O 0 O).

Ltac ex_case := vm_compute; intros; first [reflexivity | discriminate | lia | (split; [lia|reflexivity]) | congruence].
Ltac ex_bounded j Hj :=
  do 5 (destruct j as [|j]; [first [ (exfalso; vm_compute in Hj; lia) | ex_case ]|]);
  exfalso; vm_compute in Hj; lia.

Example ex_p2_ok : p2_ok ex_co scheme_default true false ex_w ex_pat ex_st.
Proof.
  constructor.
  - vm_compute. reflexivity.
  - vm_compute. reflexivity.
  - vm_compute. reflexivity.
  - vm_compute. reflexivity.
  - intros j Hj. ex_bounded j Hj.
  - vm_compute. reflexivity.
  - vm_compute. reflexivity.
  - intros i Hi. ex_bounded i Hi.
  - intros i Hi. ex_bounded i Hi.
  - intros i j Hi Hj.
    do 3 (destruct i as [|i]; [ex_bounded j Hj|]). exfalso; vm_compute in Hi; lia.
  - vm_compute. lia.
  - vm_compute. reflexivity.
  - intros j Hj. ex_bounded j Hj.
  - intros j Hj. ex_bounded j Hj.
  - intros j Hj. ex_bounded j Hj.
  - intros j Hj. ex_bounded j Hj.
Qed.

Example ex_hyps : 0 <= s_bw scheme_default /\ 0 <= s_bd scheme_default /\ (2 <= length ex_pat)%nat /\ p2_maxScore ex_st <= 0.
Proof. vm_compute. repeat split; try discriminate; lia. Qed.

(* "axbbc" / "abc", window starting at offset 3 of the line: positions 7, 5, 3 (descending like the Go code) *)
Example ex_after_pos : v2_after_phase2 true true 3 ex_pat ex_st = Ok (Match 3 8 68 (Some [7; 5; 3]%nat)).
Proof. vm_compute. reflexivity. Qed.

Example ex_after_nopos : v2_after_phase2 true false 3 ex_pat ex_st = Ok (Match 3 8 68 None).
Proof. vm_compute. reflexivity. Qed.

Example ex_fill_max : exists H C, v2_fill true ex_pat ex_st = Ok (H, C, 68, 4).
Proof. eexists _, _. vm_compute. reflexivity. Qed.

(* the whole function on the same input *)
Example ex_fuzzy_v2 :
  fuzzy_v2 ex_co scheme_default true false true true ex_w ex_pat true None = Ok (Match 0 5 68 (Some [4; 2; 0]%nat)).
Proof. vm_compute. reflexivity. Qed.
