(* C17 proofs, part 4: parseMarkerMultiLine — never an index out of range, accepted exactly for the documented
   widths, and nothing visible of the value is lost or reordered. *)
From Fzf Require Import Prelude Val BindModel MarkerSpec MarkerModel.
Open Scope Z_scope.

Lemma widths_app x y : widths (x ++ y) = (widths x + widths y)%nat.
Proof. unfold widths. induction x as [|c x IH]; cbn; [reflexivity|]. rewrite IH. lia. Qed.

Lemma widths_zero l : widths l = 0%nat -> Forall (fun c => snd c = 0%nat) l.
Proof.
  induction l as [|c l IH]; intro H; constructor; cbn in H.
  - lia.
  - apply IH. unfold widths. lia.
Qed.

(* the loop on a three-element result with idx < 3: no access out of range; what has been read stays in order;
   the loop stops early only when the three elements already fill the whole width *)
Lemma mm_loop_ok unit : forall parts expected idx a b c,
  (idx < 3)%nat -> (idx = 0%nat -> b = [] /\ c = []) -> (idx = 1%nat -> c = []) ->
  Z.of_nat (widths (a ++ b ++ c)) >= Z.of_nat idx * unit + (unit - expected) ->
  exists a' b' c' dropped,
    mm_loop parts unit expected idx [a; b; c] = Ok [a'; b'; c'] /\
    (a' ++ b' ++ c') ++ dropped = (a ++ b ++ c) ++ parts /\
    (dropped = [] \/ Z.of_nat (widths (a' ++ b' ++ c')) >= 3 * unit).
Proof.
  induction parts as [|p r IH]; intros expected idx a b c L E0 E1 W.
  - exists a, b, c, []. cbn. split; [reflexivity|]. split; [reflexivity|now left].
  - destruct p as [pt pw].
    assert (WP : forall x y z, Z.of_nat (widths (x ++ y ++ z)) = Z.of_nat (widths x) + Z.of_nat (widths y) + Z.of_nat (widths z))
      by (intros; rewrite !widths_app; lia).
    assert (W1 : widths [(pt, pw)] = pw) by (cbn; lia).
    rewrite WP in W.
    destruct idx as [|[|[|idx]]]; [| | |lia].
    + destruct (E0 eq_refl) as [-> ->]. cbn [mm_loop get set_nth bind snd].
      destruct (expected - Z.of_nat pw <=? 0) eqn:C; cbn [Nat.eqb].
      * apply Z.leb_le in C.
        destruct (IH unit 1%nat (a ++ [(pt, pw)]) [] []) as (a' & b' & c' & d & H1 & H2 & H3); try lia; try tauto.
        { rewrite WP, widths_app, W1. cbn [widths fold_right] in *. lia. }
        exists a', b', c', d. split; [exact H1|]. split; [|exact H3]. rewrite H2. cbn. now rewrite !app_nil_r, <- app_assoc.
      * apply Z.leb_gt in C.
        destruct (IH (expected - Z.of_nat pw) 0%nat (a ++ [(pt, pw)]) [] []) as (a' & b' & c' & d & H1 & H2 & H3); try lia; try tauto.
        { rewrite WP, widths_app, W1. cbn [widths fold_right] in *. lia. }
        exists a', b', c', d. split; [exact H1|]. split; [|exact H3]. rewrite H2. cbn. now rewrite !app_nil_r, <- app_assoc.
    + rewrite (E1 eq_refl) in *. cbn [mm_loop get set_nth bind snd].
      destruct (expected - Z.of_nat pw <=? 0) eqn:C; cbn [Nat.eqb].
      * apply Z.leb_le in C.
        destruct (IH unit 2%nat a (b ++ [(pt, pw)]) []) as (a' & b' & c' & d & H1 & H2 & H3); try lia; try tauto.
        { rewrite WP, widths_app, W1. cbn [widths fold_right] in *. lia. }
        exists a', b', c', d. split; [exact H1|]. split; [|exact H3]. rewrite H2. cbn. now rewrite !app_nil_r, <- !app_assoc.
      * apply Z.leb_gt in C.
        destruct (IH (expected - Z.of_nat pw) 1%nat a (b ++ [(pt, pw)]) []) as (a' & b' & c' & d & H1 & H2 & H3); try lia; try tauto.
        { rewrite WP, widths_app, W1. cbn [widths fold_right] in *. lia. }
        exists a', b', c', d. split; [exact H1|]. split; [|exact H3]. rewrite H2. cbn. now rewrite !app_nil_r, <- !app_assoc.
    + change (Z.of_nat 2) with 2 in W. cbn [mm_loop get set_nth bind snd].
      destruct (expected - Z.of_nat pw <=? 0) eqn:C; cbn [Nat.eqb].
      * apply Z.leb_le in C. exists a, b, (c ++ [(pt, pw)]), r. split; [reflexivity|]. split.
        { now rewrite <- !app_assoc. }
        right. rewrite WP, widths_app, W1. lia.
      * apply Z.leb_gt in C.
        destruct (IH (expected - Z.of_nat pw) 2%nat a b (c ++ [(pt, pw)])) as (a' & b' & c' & d & H1 & H2 & H3); try lia; try discriminate.
        { rewrite WP, widths_app, W1. lia. }
        exists a', b', c', d. split; [exact H1|]. split; [|exact H3]. rewrite H2. now rewrite <- !app_assoc.
Qed.

Lemma third_exact t : (Nat.eqb t 3 || Nat.eqb t 6) = true -> 3 * Z.of_nat (t / 3) = Z.of_nat t.
Proof. intro H. apply orb_true_iff in H as [H|H]; apply Nat.eqb_eq in H; subst; reflexivity. Qed.

(* every value: a reading or a user error, never a crash *)
Theorem marker_total_proof : forall cs, exists o, marker_multi cs = Ok o.
Proof.
  intros [|c0 cs]; [eexists; reflexivity|]. unfold marker_multi.
  destruct (Nat.eqb (widths (c0 :: cs)) 3 || Nat.eqb (widths (c0 :: cs)) 6); cbn [negb]; [|eauto].
  generalize (third_exact (widths (c0 :: cs))). set (u := Z.of_nat (widths (c0 :: cs) / 3)) in *. intro TE.
  destruct (mm_loop_ok u (c0 :: cs) u 0%nat [] [] [])
    as (a' & b' & c' & d & H1 & _); try lia; try tauto.
  rewrite H1. cbn. eauto.
Qed.

(* accepted exactly when the width is the documented one *)
Theorem marker_accept_proof : forall cs,
  (marker_width_ok cs = true -> exists parts, marker_multi cs = Ok (Good parts)) /\
  (marker_width_ok cs = false -> marker_multi cs = Ok (Bad E_MARKER_WIDTH)).
Proof.
  intros [|c0 cs]; [split; [eexists; reflexivity|discriminate]|].
  unfold marker_width_ok, marker_multi. split; intro H; rewrite H; cbn [negb]; [|reflexivity].
  generalize (third_exact (widths (c0 :: cs))). set (u := Z.of_nat (widths (c0 :: cs) / 3)) in *. intro TE.
  destruct (mm_loop_ok u (c0 :: cs) u 0%nat [] [] [])
    as (a' & b' & c' & d & H1 & _); try lia; try tauto.
  rewrite H1. cbn. eauto.
Qed.

(* an accepted value is cut into three elements in order; what is left over cannot be seen *)
Theorem marker_reading_proof : forall cs parts, marker_multi cs = Ok (Good parts) -> marker_reading cs parts.
Proof.
  intros [|c0 cs] parts H.
  - cbn in H. inversion H; subst. split; [reflexivity|]. exists []. split; [reflexivity|constructor].
  - unfold marker_multi in H.
    destruct (Nat.eqb (widths (c0 :: cs)) 3 || Nat.eqb (widths (c0 :: cs)) 6) eqn:WOK; cbn [negb] in H; [|discriminate].
    generalize (third_exact (widths (c0 :: cs))). set (u := Z.of_nat (widths (c0 :: cs) / 3)) in *. intro TE.
  destruct (mm_loop_ok u (c0 :: cs) u 0%nat [] [] [])
      as (a' & b' & c' & d & H1 & H2 & H3); try lia; try tauto.
      rewrite H1 in H. cbn in H. inversion H; subst. clear H.
    split; [reflexivity|]. exists d. cbn [concat]. rewrite app_nil_r. cbn [app] in H2. split; [exact H2|].
    destruct H3 as [->|H3]; [constructor|].
    apply widths_zero. specialize (TE WOK).
    assert (E : widths ((a' ++ b' ++ c') ++ d) = widths (c0 :: cs)) by now rewrite H2.
    rewrite widths_app in E. lia.
Qed.

(* ------------------------------------------------------------------ the documented shape *)

Definition zero_width (l : list cluster) : Prop := Forall (fun c => snd c = 0%nat) l.

Definition put (idx : nat) (x : list cluster) (r : list (list cluster)) : list (list cluster) :=
  match r, idx with
  | [a; b; c], 0%nat => [a ++ x; b; c]
  | [a; b; c], 1%nat => [a; b ++ x; c]
  | [a; b; c], 2%nat => [a; b; c ++ x]
  | _, _ => r
  end.

(* clusters without width join the element being filled *)
Lemma mm_zeros u : forall zs rest expected idx a b c,
  zero_width zs -> 0 < expected -> (idx < 3)%nat ->
  mm_loop (zs ++ rest) u expected idx [a; b; c] = mm_loop rest u expected idx (put idx zs [a; b; c]).
Proof.
  induction zs as [|[zt zw] zs IH]; intros rest expected idx a b c Z E L.
  - destruct idx as [|[|[|idx]]]; [| | |lia]; cbn [app put]; now rewrite app_nil_r.
  - inversion Z as [|? ? Z1 Z2]; subst. cbn [snd] in Z1. subst zw.
    assert (C : (expected - Z.of_nat 0 <=? 0) = false) by (apply Z.leb_gt; lia).
    destruct idx as [|[|[|idx]]]; [| | |lia]; cbn [app mm_loop get set_nth bind snd]; rewrite C; cbn [Nat.eqb];
      replace (expected - Z.of_nat 0) with expected by lia; rewrite (IH _ _ _ _ _ _ Z2 E L); cbn [put];
      now rewrite <- app_assoc.
Qed.

(* a visible cluster as wide as one element completes the element *)
Lemma mm_visible u vt vw rest idx a b c :
  Z.of_nat vw = u -> 0 < u -> (idx < 3)%nat ->
  mm_loop ((vt, vw) :: rest) u u idx [a; b; c] =
  if Nat.eqb (S idx) 3 then Ok (put idx [(vt, vw)] [a; b; c]) else mm_loop rest u u (S idx) (put idx [(vt, vw)] [a; b; c]).
Proof.
  intros W U L. assert (C : (u - Z.of_nat vw <=? 0) = true) by (apply Z.leb_le; lia).
  destruct idx as [|[|[|idx]]]; [| | |lia]; cbn [mm_loop get set_nth bind snd]; rewrite C; reflexivity.
Qed.

Lemma widths_zeros l : zero_width l -> widths l = 0%nat.
Proof. induction 1 as [|c l H _ IH]; [reflexivity|]. unfold widths in *. cbn. rewrite H, IH. reflexivity. Qed.

(* "3 elements for top, middle, and bottom": a value with exactly three visible clusters, each u = 1 or 2 columns wide
   (the default ╻┃╹ is the case u = 1 without decoration), is read as those three elements; zero-width clusters in
   front of a visible one go with it, those after the third are left out *)
Theorem marker_three_elements_proof : forall u z0 z1 z2 z3 v0 v1 v2,
  (u = 1 \/ u = 2)%nat -> zero_width z0 -> zero_width z1 -> zero_width z2 -> zero_width z3 ->
  snd v0 = u -> snd v1 = u -> snd v2 = u ->
  marker_multi (z0 ++ v0 :: z1 ++ v1 :: z2 ++ v2 :: z3) = Ok (Good [z0 ++ [v0]; z1 ++ [v1]; z2 ++ [v2]]).
Proof.
  intros u z0 z1 z2 z3 [v0t v0w] [v1t v1w] [v2t v2w] U Z0 Z1 Z2 Z3 W0 W1 W2. cbn [snd] in *. subst v0w v1w v2w.
  assert (TW : widths (z0 ++ (v0t, u) :: z1 ++ (v1t, u) :: z2 ++ (v2t, u) :: z3) = (3 * u)%nat).
  { rewrite widths_app, (widths_zeros _ Z0). change ((v0t, u) :: z1 ++ (v1t, u) :: z2 ++ (v2t, u) :: z3)
      with ([(v0t, u)] ++ z1 ++ [(v1t, u)] ++ z2 ++ [(v2t, u)] ++ z3).
    rewrite !widths_app, (widths_zeros _ Z1), (widths_zeros _ Z2), (widths_zeros _ Z3). cbn. lia. }
  unfold marker_multi.
  destruct (z0 ++ (v0t, u) :: z1 ++ (v1t, u) :: z2 ++ (v2t, u) :: z3) as [|c0 cs] eqn:E.
  { destruct z0; discriminate. }
  cbv beta iota zeta. rewrite TW, <- E.
  assert (UU : Z.of_nat (3 * u / 3) = Z.of_nat u /\ negb (Nat.eqb (3 * u) 3 || Nat.eqb (3 * u) 6) = false)
    by (destruct U; subst; split; reflexivity).
  destruct UU as [U1 U2]. rewrite U1, U2.
  assert (UP : 0 < Z.of_nat u) by (destruct U; subst; reflexivity).
  rewrite (mm_zeros _ z0) by (auto; lia). cbn [put app].
  rewrite mm_visible by (auto; lia). cbn [Nat.eqb put].
  rewrite (mm_zeros _ z1) by (auto; lia). cbn [put app].
  rewrite mm_visible by (auto; lia). cbn [Nat.eqb put].
  rewrite (mm_zeros _ z2) by (auto; lia). cbn [put app].
  rewrite mm_visible by (auto; lia). cbn [Nat.eqb put bind].
  reflexivity.
Qed.
