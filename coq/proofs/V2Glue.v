(* Closes the Section hypotheses of the V2 scan theorems with the V1 / pre-filter theorems. *)
From Fzf Require Import Prelude AlgoSpec AlgoModel AlgoBasics PrefilterProofs V1Proofs V2Facts V2ScanBasics V2ScanPhase2 V2ScanProofs.
Open Scope Z_scope.

Theorem v2_complete_closed : forall co sc cs nm fwd ib text pat wp cap,
  (ib = true -> Forall (fun c => 0 <= c < 128) text) -> (forall c, c < 192 -> co_norm co c = c) ->
  fuzzy_v2 co sc cs nm fwd ib text pat wp cap = Ok NoMatch -> subseq_b co cs nm text pat = false.
Proof.
  intros co sc cs nm fwd ib text pat wp cap Ha Hn.
  apply (v2_complete_pointwise co sc cs nm fwd ib text pat wp cap Hn).
  - exact (v1_complete_proof co sc cs nm fwd ib text pat wp Ha Hn).
  - exact (afi_none_sound co cs nm Hn ib text pat Ha).
  - intros lo hi H Hs. destruct pat as [|p0 pat'].
    + destruct (firstn (hi - lo) (skipn lo text)); reflexivity.
    + destruct (afi_window_sound co cs nm Hn ib text (p0 :: pat') lo hi ltac:(discriminate) Ha H) as [_ [_ C]].
      exact (C Hs).
Qed.

Theorem v2_match_subseq_closed : forall co sc cs nm fwd ib text pat wp cap s e score pos,
  (forall c, c < 192 -> co_norm co c = c) ->
  fuzzy_v2 co sc cs nm fwd ib text pat wp cap = Ok (Match s e score pos) -> pat <> [] ->
  subseq_b co cs nm text pat = true.
Proof.
  intros co sc. apply (v2_match_subseq_proof co sc).
  intros cs nm fwd ib text pat wp s e score pos H Hp.
  destruct (v1_sound_proof co sc cs nm fwd ib text pat wp s e score pos H Hp) as [_ [G _]]. exact G.
Qed.

(* ---------- FuzzyMatchV2 never fails: no out-of-range access, no read of a scratch cell that was not written
   in the current call (stale slab contents can never influence the result) ---------- *)
From Fzf Require Import V2MatrixBase V2MatrixFill V2MatrixTrace V2MatrixProofs.

Definition init_p2 := mkP2 [] [] [] [] [] O O 0 O.

Lemma v2_cases co sc cs nm fwd ib text p0 pat' wp cap :
  let pat := p0 :: pat' in
  (ib = true -> Forall (fun c => 0 <= c < 128) text) -> (forall c, c < 192 -> co_norm co c = c) ->
  (* either an early exit whose result is Ok ... *)
  (exists r, fuzzy_v2 co sc cs nm fwd ib text pat wp cap = Ok r /\
             (r = NoMatch \/ fuzzy_v2 co sc cs nm fwd ib text pat wp cap = fuzzy_v1 co sc cs nm fwd ib text pat wp \/
              length pat = 1%nat)) \/
  (* ... or the full matrix path on a window that all phase-2 facts hold for *)
  (exists lo hi, (2 <= length pat)%nat /\ (length pat <= length text)%nat /\
     ascii_fuzzy_index ib text pat cs = Ok (Some (lo, hi)) /\ (lo <= hi <= length text)%nat /\
     let w := firstn (hi - lo) (skipn lo text) in
     let st := phase2 co sc cs nm fwd false w O p0 pat (last pat 0) 0 (s_init sc) false init_p2 in
     p2_pidx st = length pat /\
     fuzzy_v2 co sc cs nm fwd ib text pat wp cap = v2_after_phase2 fwd wp lo pat st /\ p2_maxScore st <= 0).
Proof.
  intros pat Ha Hn.
  rewrite fuzzy_v2_unfold. fold pat. cbv zeta.
  destruct (Nat.ltb_spec (length text) (length pat)) as [Hlt|Hge].
  { left. exists NoMatch. split; [reflexivity|left; reflexivity]. }
  destruct (match cap with Some c => c <? Z.of_nat (length text) * Z.of_nat (length pat) | None => false end) eqn:Ecap.
  { left. destruct (v1_total_proof co sc cs nm fwd ib text pat wp) as [r Hr]. exists r.
    split; [exact Hr|]. right. left.
    rewrite fuzzy_v2_unfold. fold pat. cbv zeta.
    destruct (Nat.ltb_spec (length text) (length pat)); [lia|]. rewrite Ecap. reflexivity. }
  destruct (afi_total ib text pat cs) as [r Hr]. rewrite Hr. cbn [bind].
  destruct r as [[lo hi]|]; [|left; exists NoMatch; split; [reflexivity|left; reflexivity]].
  destruct (afi_window_sound co cs nm Hn ib text pat lo hi ltac:(discriminate) Ha Hr) as [R1 [R2 _]].
  destruct (Nat.ltb_spec hi lo); [lia|]. destruct (Nat.ltb_spec (length text) hi); [lia|]. cbn [orb].
  destruct (Nat.eqb_spec (length pat) 1) as [E1|E1].
  { left. destruct (negb _); eexists; (split; [reflexivity|]); [left; reflexivity|right; right; exact E1]. }
  set (st := phase2 co sc cs nm fwd false _ O p0 pat (last pat 0) 0 (s_init sc) false _).
  destruct (Nat.eqb_spec (p2_pidx st) (length pat)) as [Ep|Ep]; cbn [negb].
  2:{ left. exists NoMatch. split; [reflexivity|left; reflexivity]. }
  right. exists lo, hi.
  assert (H2 : (2 <= length pat)%nat) by (unfold pat in *; cbn [length] in *; lia).
  split; [exact H2|]. split; [lia|]. split; [exact Hr|]. split; [lia|].
  cbv zeta. fold init_p2 in st. fold st. split; [exact Ep|].
  pose proof (fuzzy_v2_M2_proof co sc cs nm fwd ib text p0 pat' wp cap lo hi H2 ltac:(fold pat; lia) Ecap Hr ltac:(lia)) as G.
  cbv zeta in G. fold pat in G. fold init_p2 in G. fold st in G. specialize (G Ep). destruct G as [G1 G2].
  split; [|exact G2].
  rewrite <- G1. rewrite fuzzy_v2_unfold. fold pat. cbv zeta.
  destruct (Nat.ltb_spec (length text) (length pat)); [lia|]. rewrite Ecap, Hr. cbn [bind].
  destruct (Nat.ltb_spec hi lo); [lia|]. destruct (Nat.ltb_spec (length text) hi); [lia|]. cbn [orb].
  destruct (Nat.eqb_spec (length pat) 1); [contradiction|].
  fold init_p2. fold st. destruct (Nat.eqb_spec (p2_pidx st) (length pat)); [reflexivity|contradiction].
Qed.
