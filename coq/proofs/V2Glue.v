(* Closes the Section hypotheses of the V2 scan theorems with the V1 / pre-filter theorems. *)
From Fzf Require Import Prelude AlgoSpec AlgoModel AlgoBasics PrefilterProofs V1Proofs V2Facts V2ScanBasics V2ScanPhase2 V2ScanProofs.
Open Scope Z_scope.

Theorem v2_complete_closed : forall co sc cs nm fwd ib text pat wp cap,
  (ib = true -> Forall (fun c => 0 <= c < 128) text) -> (forall c, c < 192 -> co_norm co c = c) ->
  fuzzy_v2 co sc cs nm fwd ib text pat wp cap = Ok NoMatch -> subseq_b co cs nm text pat = false.
Proof.
  intros co sc cs nm fwd ib text pat wp cap Ha Hn.
  apply (v2_complete_pointwise co sc cs nm fwd ib text pat wp cap Hn).
  - exact (v1_complete_proof co sc cs nm fwd ib text pat wp Ha Hn).
  - exact (afi_none_sound co cs nm Hn ib text pat Ha).
  - intros lo hi H Hs. destruct pat as [|p0 pat'].
    + destruct (firstn (hi - lo) (skipn lo text)); reflexivity.
    + destruct (afi_window_sound co cs nm Hn ib text (p0 :: pat') lo hi ltac:(discriminate) Ha H) as [_ [_ C]].
      exact (C Hs).
Qed.

Theorem v2_match_subseq_closed : forall co sc cs nm fwd ib text pat wp cap s e score pos,
  (forall c, c < 192 -> co_norm co c = c) ->
  fuzzy_v2 co sc cs nm fwd ib text pat wp cap = Ok (Match s e score pos) -> pat <> [] ->
  subseq_b co cs nm text pat = true.
Proof.
  intros co sc. apply (v2_match_subseq_proof co sc).
  intros cs nm fwd ib text pat wp s e score pos H Hp.
  destruct (v1_sound_proof co sc cs nm fwd ib text pat wp s e score pos H Hp) as [_ [G _]]. exact G.
Qed.

(* ---------- FuzzyMatchV2 never fails: no out-of-range access, no read of a scratch cell that was not written
   in the current call (stale slab contents can never influence the result) ---------- *)
From Fzf Require Import V2MatrixBase V2MatrixFill V2MatrixTrace V2MatrixProofs.

Definition init_p2 := mkP2 [] [] [] [] [] O O 0 O.

Lemma v2_cases co sc cs nm fwd ib text p0 pat' wp cap :
  let pat := p0 :: pat' in
  (ib = true -> Forall (fun c => 0 <= c < 128) text) -> (forall c, c < 192 -> co_norm co c = c) ->
  (* either an early exit whose result is Ok ... *)
  (exists r, fuzzy_v2 co sc cs nm fwd ib text pat wp cap = Ok r /\
             (r = NoMatch \/ fuzzy_v2 co sc cs nm fwd ib text pat wp cap = fuzzy_v1 co sc cs nm fwd ib text pat wp \/
              length pat = 1%nat)) \/
  (* ... or the full matrix path on a window that all phase-2 facts hold for *)
  (exists lo hi, (2 <= length pat)%nat /\ (length pat <= length text)%nat /\
     ascii_fuzzy_index ib text pat cs = Ok (Some (lo, hi)) /\ (lo <= hi <= length text)%nat /\
     let w := firstn (hi - lo) (skipn lo text) in
     let st := phase2 co sc cs nm fwd false w O p0 pat (last pat 0) 0 (s_init sc) false init_p2 in
     p2_pidx st = length pat /\
     fuzzy_v2 co sc cs nm fwd ib text pat wp cap = v2_after_phase2 fwd wp lo pat st /\ p2_maxScore st <= 0).
Proof.
  intros pat Ha Hn.
  assert (Hlen : length pat = S (length pat')) by reflexivity.
  pose proof (fuzzy_v2_unfold co sc cs nm fwd ib text pat wp cap) as U. cbv zeta in U.
  change (match pat with [] => Ok (Match 0 0 0 (if wp then Some [] else None)) | p1 :: _ => ?X p1 end) with (X p0) in U.
Abort.
