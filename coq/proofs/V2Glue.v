(* Closes the Section hypotheses of the V2 scan theorems with the V1 / pre-filter theorems. *)
From Fzf Require Import Prelude AlgoSpec AlgoModel AlgoBasics PrefilterProofs V1Proofs V2Facts V2ScanBasics V2ScanPhase2 V2ScanProofs.
Open Scope Z_scope.

Theorem v2_complete_closed : forall co sc cs nm fwd ib text pat wp cap,
  (ib = true -> Forall (fun c => 0 <= c < 128) text) -> (forall c, c < 192 -> co_norm co c = c) ->
  fuzzy_v2 co sc cs nm fwd ib text pat wp cap = Ok NoMatch -> subseq_b co cs nm text pat = false.
Proof.
  intros co sc cs nm fwd ib text pat wp cap Ha Hn.
  apply (v2_complete_pointwise co sc cs nm fwd ib text pat wp cap Hn).
  - exact (v1_complete_proof co sc cs nm fwd ib text pat wp Ha Hn).
  - exact (afi_none_sound co cs nm Hn ib text pat Ha).
  - intros lo hi H Hs. destruct pat as [|p0 pat'].
    + destruct (firstn (hi - lo) (skipn lo text)); reflexivity.
    + destruct (afi_window_sound co cs nm Hn ib text (p0 :: pat') lo hi ltac:(discriminate) Ha H) as [_ [_ C]].
      exact (C Hs).
Qed.

Theorem v2_match_subseq_closed : forall co sc cs nm fwd ib text pat wp cap s e score pos,
  (forall c, c < 192 -> co_norm co c = c) ->
  fuzzy_v2 co sc cs nm fwd ib text pat wp cap = Ok (Match s e score pos) -> pat <> [] ->
  subseq_b co cs nm text pat = true.
Proof.
  intros co sc. apply (v2_match_subseq_proof co sc).
  intros cs nm fwd ib text pat wp s e score pos H Hp.
  destruct (v1_sound_proof co sc cs nm fwd ib text pat wp s e score pos H Hp) as [_ [G _]]. exact G.
Qed.

(* FuzzyMatchV2 never fails (no out-of-range access, no read of a scratch cell that was not written in the
   current call), for all inputs: [v2_total_final] in V2Final.v, built on the case analysis [v2_shape] there. *)
