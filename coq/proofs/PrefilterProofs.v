(* asciiFuzzyIndex (the ASCII prefilter of the fuzzy/exact matchers): it never fails, a negative
   answer is sound, and the window it returns keeps every match.  The byte-level comparison it uses
   is [Qb cs c p]: c = p, or (case-insensitive, p a lower-case letter) c = p - 32. *)
From Fzf Require Import Prelude AlgoSpec AlgoModel AlgoBasics.
Open Scope nat_scope.

Definition lowerable (cs : bool) (b : Z) : bool := (negb cs && (97 <=? b)%Z && (b <=? 122)%Z).
Definition Qb (cs : bool) (c p : Z) : bool := (c =? p)%Z || (lowerable cs p && (c =? p - 32)%Z).

Fixpoint find_first (f : Z -> bool) (l : list Z) : option nat :=
  match l with
  | [] => None
  | c :: r => if f c then Some 0 else option_map S (find_first f r)
  end.

Lemma index_byte_ff l b : index_byte l b = find_first (fun c => (c =? b)%Z) l.
Proof. induction l as [|c l IH]; cbn; [reflexivity|]. rewrite IH. destruct (c =? b)%Z; [reflexivity|]. now destruct (find_first _ l). Qed.

Lemma find_first_ext f g l : (forall c, f c = g c) -> find_first f l = find_first g l.
Proof. intros H. induction l as [|c l IH]; cbn; [reflexivity|]. now rewrite H, IH. Qed.

Lemma find_first_or f g l :
  find_first (fun c => f c || g c) l =
  match find_first f l with
  | Some i => match find_first g (firstn i l) with Some u => Some u | None => Some i end
  | None => find_first g l
  end.
Proof.
  induction l as [|c l IH]; cbn; [reflexivity|].
  destruct (f c) eqn:Ef; cbn; [reflexivity|].
  destruct (find_first f l) as [i|] eqn:E; cbn.
  - destruct (g c); [reflexivity|]. rewrite IH. now destruct (find_first g (firstn i l)).
  - destruct (g c); [reflexivity|]. now rewrite IH.
Qed.

Lemma find_first_some f l i : find_first f l = Some i ->
  exists a c b, l = a ++ c :: b /\ length a = i /\ Forall (fun x => f x = false) a /\ f c = true.
Proof.
  revert i; induction l as [|c l IH]; intros i H; cbn in H; [discriminate|].
  destruct (f c) eqn:Ef.
  - inversion H; subst. exists [], c, l. repeat split; auto.
  - destruct (find_first f l) as [j|] eqn:E; cbn in H; [|discriminate]. inversion H; subst.
    destruct (IH _ eq_refl) as (a & c' & b & -> & Hl & Ha & Hc).
    exists (c :: a), c', b. cbn. repeat split; auto.
Qed.

Lemma find_first_none f l : find_first f l = None -> Forall (fun x => f x = false) l.
Proof.
  induction l as [|c l IH]; cbn; intros H; [constructor|].
  destruct (f c) eqn:Ef; [discriminate|]. destruct (find_first f l); [discriminate|]. constructor; auto.
Qed.

(* ---------- trySkip ---------- *)

Lemma try_skip_spec text cs b from : from <= length text ->
  try_skip text cs b from = Ok (option_map (Nat.add from) (find_first (fun c => Qb cs c b) (skipn from text))).
Proof.
  intros Hf. unfold try_skip. assert (Hlt : Nat.ltb (length text) from = false) by (apply Nat.ltb_ge; lia).
  rewrite Hlt. set (arr := skipn from text). rewrite index_byte_ff.
  fold (lowerable cs b).
  destruct (lowerable cs b) eqn:El.
  - assert (HR : find_first (fun c => Qb cs c b) arr = find_first (fun c => (c =? b)%Z || (c =? b - 32)%Z) arr).
    { apply find_first_ext. intros c. unfold Qb. now rewrite El. }
    rewrite HR, find_first_or.
    destruct (find_first (fun c => (c =? b)%Z) arr) as [[|i]|] eqn:E.
    + cbn. now rewrite Nat.add_0_r.
    + rewrite index_byte_ff. destruct (find_first (fun c => (c =? b - 32)%Z) (firstn (S i) arr)); reflexivity.
    + rewrite index_byte_ff. destruct (find_first (fun c => (c =? b - 32)%Z) arr); reflexivity.
  - assert (HR : find_first (fun c => Qb cs c b) arr = find_first (fun c => (c =? b)%Z) arr).
    { apply find_first_ext. intros c. unfold Qb. rewrite El. apply orb_false_r. }
    rewrite HR.
    destruct (find_first (fun c => (c =? b)%Z) arr) as [[|i]|] eqn:E; cbn; try reflexivity.
    now rewrite Nat.add_0_r.
Qed.

(* ---------- the pattern loop ---------- *)

Lemma gend_find (M : Z -> Z -> bool) t p pat :
  gend M t (p :: pat) =
  match find_first (fun c => M c p) t with
  | None => None
  | Some j => option_map (Nat.add (S j)) (gend M (skipn (S j) t) pat)
  end.
Proof.
  induction t as [|c t IH]; [reflexivity|]. cbn [gend find_first].
  destruct (M c p) eqn:Em.
  - cbn [skipn]. now destruct (gend M t pat).
  - rewrite IH. destruct (find_first (fun c0 => M c0 p) t) as [j|]; cbn [option_map]; [|reflexivity].
    change (skipn (S (S j)) (c :: t)) with (skipn (S j) t). now destruct (gend M (skipn (S j) t) pat).
Qed.

Definition first_idx_spec (cs : bool) (text : list Z) (idx : nat) (first : bool) (pat : list Z) (fI : nat) : nat :=
  match pat with
  | [] => fI
  | p :: _ =>
      if first then
        match find_first (fun c => Qb cs c p) (skipn idx text) with
        | Some j => if Nat.ltb 0 (idx + j) then idx + j - 1 else fI
        | None => fI
        end
      else fI
  end.

Lemma afi_loop_spec text cs : forall pat first idx fI lI b, idx <= length text ->
  afi_loop text cs pat first idx fI lI b =
  Ok (match gend (Qb cs) (skipn idx text) pat with
      | None => None
      | Some k => Some (first_idx_spec cs text idx first pat fI,
                        match pat with [] => lI | _ => idx + k - 1 end,
                        last pat b)
      end).
Proof.
  induction pat as [|p pat IH]; intros first idx fI lI b Hidx.
  - cbn [afi_loop]. rewrite gend_nil_r. reflexivity.
  - cbn [afi_loop]. rewrite try_skip_spec by assumption. rewrite gend_find. unfold first_idx_spec.
    destruct (find_first (fun c => Qb cs c p) (skipn idx text)) as [j|] eqn:E; cbn [option_map bind]; [|reflexivity].
    destruct (find_first_some _ _ _ E) as (a & c & r & Hs & Hl & _).
    assert (Hj : S (idx + j) <= length text).
    { apply (f_equal (@length _)) in Hs. rewrite skipn_length, app_length in Hs. cbn in Hs. lia. }
    rewrite IH by assumption.
    rewrite skipn_add. replace (S j + idx) with (S (idx + j)) by lia.
    rewrite last_cons_default.
    destruct (gend (Qb cs) (skipn (S (idx + j)) text) pat) as [k|] eqn:Eg; cbn [option_map]; [|reflexivity].
    do 3 f_equal.
    + f_equal.
      * unfold first_idx_spec. destruct pat; destruct first; cbn [andb]; try reflexivity.
      * destruct pat as [|q pat]; [|lia]. rewrite gend_nil_r in Eg. inversion Eg; subst. lia.
Qed.

(* ---------- the final backward scan ---------- *)

Definition hit (b bu c : Z) : bool := (c =? b)%Z || (c =? bu)%Z.

Lemma last_occ_spec b bu : forall scope off best,
  (last_occ scope b bu off best = best /\ Forall (fun c => hit b bu c = false) (skipn (1 - off) scope)) \/
  (exists j c, last_occ scope b bu off best = Some (off + j) /\ 0 < off + j /\
               nth_error scope j = Some c /\ hit b bu c = true /\
               Forall (fun c => hit b bu c = false) (skipn (S j) scope)).
Proof.
  induction scope as [|c r IH]; intros off best.
  - left. split; [reflexivity|]. destruct (1 - off); constructor.
  - cbn [last_occ]. fold (hit b bu c).
    destruct (IH (S off) (if Nat.ltb 0 off && hit b bu c then Some off else best)) as [[H1 H2]|(j & c' & H1 & H2 & H3 & H4 & H5)].
    + cbn [skipn Nat.sub] in H2. destruct (Nat.ltb 0 off && hit b bu c) eqn:E.
      * right. apply andb_true_iff in E as [E1 E2]. apply Nat.ltb_lt in E1.
        exists 0, c. rewrite H1, Nat.add_0_r. repeat split; auto.
      * left. split; [assumption|]. destruct off as [|off]; [exact H2|].
        cbn in E. cbn [Nat.sub skipn]. constructor; assumption.
    + right. exists (S j), c'. rewrite H1. repeat split; auto; try lia. f_equal. lia.
Qed.

Lemma hit_Qb cs b c : hit b (if lowerable cs b then (b - 32)%Z else b) c = Qb cs c b.
Proof. unfold hit, Qb. destruct (lowerable cs b); cbn; [reflexivity|]. destruct (c =? b)%Z; reflexivity. Qed.

(* generic: the character at the greedy end matches the last pattern character *)
Lemma gend_last_char (M : Z -> Z -> bool) t pat e : pat <> [] -> gend M t pat = Some e ->
  exists c, nth_error t (e - 1) = Some c /\ M c (last pat 0%Z) = true.
Proof.
  revert pat e; induction t as [|c t IH]; intros [|p pat] e Hne H; cbn in H; try congruence.
  destruct (M c p) eqn:Em.
  - destruct (gend M t pat) as [k|] eqn:E; cbn in H; [|discriminate]. inversion H; subst e.
    destruct pat as [|q pat].
    + rewrite gend_nil_r in E. inversion E; subst. exists c. cbn. auto.
    + assert (Hq : q :: pat <> []) by discriminate.
      destruct (IH _ _ Hq E) as (c' & Hn & Hm). pose proof (gend_pos _ _ _ _ Hq E).
      exists c'. rewrite last_cons_default, (last_default_irrel _ p 0%Z) by assumption. split; [|assumption].
      replace (S k - 1) with (S (k - 1)) by lia. exact Hn.
  - destruct (gend M t (p :: pat)) as [k|] eqn:E; cbn in H; [|discriminate]. inversion H; subst e.
    destruct (IH _ _ Hne E) as (c' & Hn & Hm). pose proof (gend_pos _ _ _ _ Hne E).
    exists c'. split; [|assumption]. replace (S k - 1) with (S (k - 1)) by lia. exact Hn.
Qed.

(* ---------- asciiFuzzyIndex ---------- *)

(* B1. it never fails (no hypothesis needed: every index it uses is in range) *)
Theorem afi_total is_bytes text pat cs : exists r, ascii_fuzzy_index is_bytes text pat cs = Ok r.
Proof.
  unfold ascii_fuzzy_index. destruct (negb is_bytes); [eauto|]. destruct (negb (is_ascii pat)); [eauto|].
  rewrite afi_loop_spec by lia. cbn [bind].
  destruct (gend (Qb cs) (skipn 0 text) pat) as [k|]; [|eauto].
  destruct (last_occ _ _ _ _ _); eauto.
Qed.

(* exact description of a positive answer on a byte string.  e = 1 + the end of the greedy byte-level
   match; [lo] = predecessor of the first position matching pat[0]; [hi] = 1 + the last position,
   at or after the greedy end, matching the last pattern character. *)
Theorem afi_some_spec text pat cs lo hi : pat <> [] ->
  ascii_fuzzy_index true text pat cs = Ok (Some (lo, hi)) ->
  exists e i0,
    gend (Qb cs) text pat = Some e /\
    find_first (fun c => Qb cs c (hd 0%Z pat)) text = Some i0 /\ lo = pred i0 /\ i0 < e /\
    e <= hi /\ hi <= length text /\
    (exists c, nth_error text (hi - 1) = Some c /\ Qb cs c (last pat 0%Z) = true) /\
    Forall (fun c => Qb cs c (last pat 0%Z) = false) (skipn hi text).
Proof.
  intros Hne H. unfold ascii_fuzzy_index in H. cbn [negb] in H.
  destruct (negb (is_ascii pat)); [discriminate|].
  rewrite afi_loop_spec in H by lia. cbn [bind skipn] in H.
  destruct (gend (Qb cs) text pat) as [e|] eqn:Eg; [|discriminate].
  destruct pat as [|p pat]; [congruence|].
  pose proof (gend_pos _ _ _ _ Hne Eg) as He1.
  destruct (gend_some _ _ _ _ Eg) as (Hele & _ & _).
  destruct (gend_last_char _ _ _ _ Hne Eg) as (ce & Hce & Hme).
  pose proof Eg as Eg'. rewrite gend_find in Eg'.
  unfold first_idx_spec in H. cbn [skipn Nat.add] in H.
  destruct (find_first (fun c => Qb cs c p) text) as [i0|] eqn:Ef; [|discriminate].
  assert (Hi0 : i0 < e).
  { destruct (gend (Qb cs) (skipn (S i0) text) pat); cbn in Eg'; [|discriminate]. inversion Eg'. lia. }
  assert (Hlo : (if Nat.ltb 0 i0 then i0 - 1 else 0) = pred i0) by (destruct i0; cbn; lia).
  rewrite Hlo in H. clear Hlo.
  set (b := last (p :: pat) 0%Z) in *.
  fold (lowerable cs b) in H.
  set (bu := if lowerable cs b then (b - 32)%Z else b) in *.
  assert (HQ : forall c, hit b bu c = Qb cs c b) by (intros c; apply hit_Qb).
  exists e, i0. cbn [hd]. split; [reflexivity|]. split; [exact Ef|].
  destruct (last_occ_spec b bu (skipn (e - 1) text) 0 None) as [[H1 H2]|(j & c & H1 & H2 & H3 & H4 & H5)].
  - rewrite H1 in H. inversion H; subst lo hi. repeat split; try lia.
    + exists ce. replace (e - 1 + 1 - 1) with (e - 1) by lia. auto.
    + cbn [Nat.sub] in H2. rewrite skipn_add in H2. replace (e - 1 + 1) with (1 + (e - 1)) by lia.
      eapply Forall_impl; [|exact H2]. cbn. intros a Ha. now rewrite <- HQ.
  - rewrite H1 in H. inversion H; subst lo hi. cbn [Nat.add] in *.
    assert (Hj : e - 1 + j < length text).
    { assert (Hjj : j < length (skipn (e - 1) text)) by (apply nth_error_Some; congruence).
      rewrite skipn_length in Hjj. lia. }
    repeat split; try lia.
    + exists c. rewrite <- HQ. split; [|assumption].
      replace (e - 1 + j + 1 - 1) with (e - 1 + j) by lia.
      rewrite <- H3. rewrite <- (firstn_skipn (e - 1) text) at 1.
      rewrite nth_error_app2; rewrite firstn_length; [f_equal; lia|lia].
    + rewrite skipn_add in H5. replace (e - 1 + j + 1) with (S j + (e - 1)) by lia.
      eapply Forall_impl; [|exact H5]. cbn. intros a Ha. now rewrite <- HQ.
Qed.

(* the two strong forms asked for, as corollaries *)
Corollary afi_lo_spec text pat cs lo hi : pat <> [] ->
  ascii_fuzzy_index true text pat cs = Ok (Some (lo, hi)) ->
  exists a c r, text = a ++ c :: r /\ Forall (fun x => Qb cs x (hd 0%Z pat) = false) a /\
                Qb cs c (hd 0%Z pat) = true /\ lo = pred (length a).
Proof.
  intros Hne H. destruct (afi_some_spec _ _ _ _ _ Hne H) as (e & i0 & _ & Hf & Hlo & _).
  destruct (find_first_some _ _ _ Hf) as (a & c & r & Ht & Hl & Ha & Hc).
  exists a, c, r. subst i0. auto.
Qed.

Corollary afi_hi_spec text pat cs lo hi : pat <> [] ->
  ascii_fuzzy_index true text pat cs = Ok (Some (lo, hi)) ->
  exists e, gend (Qb cs) text pat = Some e /\ e <= hi <= length text /\
    (exists c, nth_error text (hi - 1) = Some c /\ Qb cs c (last pat 0%Z) = true) /\
    Forall (fun c => Qb cs c (last pat 0%Z) = false) (skipn hi text).
Proof.
  intros Hne H. destruct (afi_some_spec _ _ _ _ _ Hne H) as (e & i0 & He & _ & _ & _ & H1 & H2 & H3 & H4).
  exists e. repeat split; auto.
Qed.

(* ---------- relation with the folding comparison ---------- *)

Section WithOps.
Variable co : char_ops.
Variables cs nm : bool.
Hypothesis H_norm_ascii : forall c, (c < 192)%Z -> co_norm co c = c.

Lemma fold_ascii c : (0 <= c < 128)%Z ->
  fold co cs nm c = c \/ (cs = false /\ (65 <= c <= 90)%Z /\ fold co cs nm c = (c + 32)%Z).
Proof.
  intros Hc. unfold fold, lower1. destruct cs.
  - left. destruct nm; [apply H_norm_ascii; lia|reflexivity].
  - destruct ((65 <=? c)%Z && (c <=? 90)%Z) eqn:E.
    + right. apply andb_true_iff in E as [E1 E2]. apply Z.leb_le in E1, E2.
      repeat split; try lia. destruct nm; [apply H_norm_ascii; lia|reflexivity].
    + left. assert (E2 : (127 <? c)%Z = false) by (apply Z.ltb_ge; lia). rewrite E2.
      destruct nm; [apply H_norm_ascii; lia|reflexivity].
Qed.

Lemma fold_lt_128 c : (0 <= c < 128)%Z -> (fold co cs nm c < 128)%Z.
Proof. intros Hc. destruct (fold_ascii c Hc) as [H|(_ & H1 & H2)]; lia. Qed.

(* on an ASCII byte, a folding match is a byte-level match *)
Lemma Mf_imp_Qb c p : (0 <= c < 128)%Z -> Mf co cs nm c p = true -> Qb cs c p = true.
Proof.
  intros Hc H. unfold Mf in H. apply Z.eqb_eq in H. unfold Qb.
  destruct (fold_ascii c Hc) as [E|(Ecs & Hr & E)]; rewrite E in H.
  - subst p. now rewrite Z.eqb_refl.
  - subst p. unfold lowerable. rewrite Ecs. cbn [negb andb].
    assert (E1 : (97 <=? c + 32)%Z = true) by (apply Z.leb_le; lia).
    assert (E2 : (c + 32 <=? 122)%Z = true) by (apply Z.leb_le; lia).
    assert (E3 : (c =? c + 32 - 32)%Z = true) by (apply Z.eqb_eq; lia).
    rewrite E1, E2, E3. apply orb_true_r.
Qed.

(* conversely, when the pattern is in normal form (no upper-case ASCII letter if case-insensitive) *)
Lemma Qb_imp_Mf c p : (0 <= c < 128)%Z -> (cs = false -> ~ (65 <= p <= 90)%Z) ->
  Qb cs c p = true -> Mf co cs nm c p = true.
Proof.
  intros Hc Hp H. unfold Mf. apply Z.eqb_eq. unfold Qb in H. apply orb_true_iff in H as [H|H].
  - apply Z.eqb_eq in H. subst p. destruct (fold_ascii c Hc) as [E|(Ecs & Hr & E)]; [assumption|].
    exfalso. apply (Hp Ecs). lia.
  - apply andb_true_iff in H as [H1 H2]. apply Z.eqb_eq in H2. unfold lowerable in H1.
    apply andb_true_iff in H1 as [H1 H3]. apply andb_true_iff in H1 as [H0 H1].
    apply Z.leb_le in H1, H3. apply negb_true_iff in H0.
    destruct (fold_ascii c Hc) as [E|(Ecs & Hr & E)]; [|lia].
    exfalso. unfold fold, lower1 in E.
    assert (Eu : ((65 <=? c)%Z && (c <=? 90)%Z) = true).
    { apply andb_true_iff. split; apply Z.leb_le; lia. }
    rewrite H0, Eu in E. destruct nm; [rewrite H_norm_ascii in E by lia|]; lia.
Qed.

Definition ascii_text (text : list Z) : Prop := Forall (fun c => (0 <= c < 128)%Z) text.

Lemma Sub_In (M : Z -> Z -> bool) t pat p : Sub M t pat -> In p pat -> exists c, In c t /\ M c p = true.
Proof.
  induction 1 as [|c t pat H IH|c q t pat Hm H IH]; intros Hin.
  - destruct Hin.
  - destruct (IH Hin) as (c' & H1 & H2). exists c'. cbn; auto.
  - destruct Hin as [->|Hin].
    + exists c. cbn; auto.
    + destruct (IH Hin) as (c' & H1 & H2). exists c'. cbn; auto.
Qed.

(* B2. a negative answer is sound *)
Theorem afi_none_sound is_bytes text pat :
  (is_bytes = true -> ascii_text text) ->
  ascii_fuzzy_index is_bytes text pat cs = Ok None ->
  subseq_b co cs nm text pat = false.
Proof.
  intros Hascii H. unfold ascii_fuzzy_index in H.
  destruct is_bytes; cbn [negb] in H; [|discriminate]. specialize (Hascii eq_refl).
  rewrite subseq_b_gsub.
  destruct (gsub (Mf co cs nm) text pat) eqn:Es; [exfalso|reflexivity].
  apply gsub_Sub in Es.
  destruct (is_ascii pat) eqn:Ea; cbn [negb] in H.
  - rewrite afi_loop_spec in H by lia. cbn [bind skipn] in H.
    destruct (gend (Qb cs) text pat) as [k|] eqn:Eg.
    + destruct (last_occ _ _ _ _ _); discriminate.
    + apply gend_none in Eg.
      assert (Hq : Sub (Qb cs) text pat).
      { eapply Sub_impl; [|exact Es]. intros c p Hin Hm. apply Mf_imp_Qb; [|assumption].
        unfold ascii_text in Hascii. rewrite Forall_forall in Hascii. auto. }
      apply gsub_Sub in Hq. congruence.
  - (* a non-ASCII pattern character cannot be produced by folding an ASCII byte *)
    unfold is_ascii in Ea.
    assert (Hex : exists p, In p pat /\ (128 <= p)%Z).
    { clear -Ea. induction pat as [|p pat IH]; cbn in Ea; [discriminate|].
      destruct (p <? 128)%Z eqn:E.
      - destruct (IH Ea) as (q & H1 & H2). exists q. cbn; auto.
      - exists p. apply Z.ltb_ge in E. cbn; auto. }
    destruct Hex as (p & Hin & Hp).
    destruct (Sub_In _ _ _ _ Es Hin) as (c & Hc & Hm).
    unfold ascii_text in Hascii. rewrite Forall_forall in Hascii. specialize (Hascii _ Hc).
    unfold Mf in Hm. apply Z.eqb_eq in Hm. pose proof (fold_lt_128 c Hascii). lia.
Qed.

(* B3. the window keeps a match if there is one *)
Theorem afi_window_sound is_bytes text pat lo hi : pat <> [] ->
  (is_bytes = true -> ascii_text text) ->
  ascii_fuzzy_index is_bytes text pat cs = Ok (Some (lo, hi)) ->
  lo <= hi /\ hi <= length text /\
  (subseq_b co cs nm text pat = true ->
   subseq_b co cs nm (firstn (hi - lo) (skipn lo text)) pat = true).
Proof.
  intros Hne Hascii H. destruct is_bytes.
  - specialize (Hascii eq_refl). unfold ascii_text in Hascii.
    destruct (afi_some_spec _ _ _ _ _ Hne H) as (e & i0 & He & Hf & Hlo & Hi0 & Hehi & Hhi & _ & Hafter).
    split; [lia|]. split; [assumption|].
    rewrite !subseq_b_gsub. rewrite !gsub_Sub. intros Hs.
    destruct (find_first_some _ _ _ Hf) as (a & c & r & Ht & Hl & Ha & Hc).
    assert (Hdec : text = firstn lo text ++ firstn (hi - lo) (skipn lo text) ++ skipn hi text).
    { rewrite <- (firstn_skipn lo text) at 1. f_equal.
      rewrite <- (firstn_skipn (hi - lo) (skipn lo text)) at 1. f_equal.
      rewrite skipn_add. f_equal. lia. }
    rewrite Hdec in Hs. destruct pat as [|p pat]; [congruence|]. cbn [hd] in *.
    apply Sub_strip_prefix in Hs.
    + apply Sub_strip_suffix in Hs; [assumption|discriminate|].
      rewrite Forall_forall in *. intros x Hx.
      destruct (Mf co cs nm x (last (p :: pat) 0%Z)) eqn:Em; [|reflexivity].
      apply Mf_imp_Qb in Em; [|apply Hascii; eapply In_skipn'; eauto].
      rewrite (Hafter x Hx) in Em. discriminate.
    + rewrite Forall_forall in *. intros x Hx.
      destruct (Mf co cs nm x p) eqn:Em; [|reflexivity].
      assert (Hxa : In x a).
      { rewrite Ht in Hx. rewrite firstn_app in Hx. replace (lo - length a) with 0 in Hx by lia.
        cbn [firstn] in Hx. rewrite app_nil_r in Hx. eapply In_firstn'; eauto. }
      apply Mf_imp_Qb in Em; [|apply Hascii; rewrite Ht; apply in_or_app; auto].
      rewrite (Ha x Hxa) in Em. discriminate.
  - unfold ascii_fuzzy_index in H. cbn in H. inversion H; subst lo hi.
    split; [lia|]. split; [lia|]. rewrite Nat.sub_0_r. cbn [skipn]. now rewrite firstn_all.
Qed.

(* the strong forms in terms of the folding comparison, for a pattern in normal form
   (no upper-case ASCII letter when matching case-insensitively, as fzf's pattern builder ensures) *)
Definition pat_norm (pat : list Z) : Prop := Forall (fun p => cs = false -> ~ (65 <= p <= 90)%Z) pat.

Lemma Mf_eq_Qb c p : (0 <= c < 128)%Z -> (cs = false -> ~ (65 <= p <= 90)%Z) -> Mf co cs nm c p = Qb cs c p.
Proof.
  intros Hc Hp. apply eq_true_iff_eq. split; [now apply Mf_imp_Qb|now apply Qb_imp_Mf].
Qed.

Theorem afi_lo_spec_fold text pat lo hi : pat <> [] -> ascii_text text -> pat_norm pat ->
  ascii_fuzzy_index true text pat cs = Ok (Some (lo, hi)) ->
  exists a c r, text = a ++ c :: r /\ Forall (fun x => fold co cs nm x <> hd 0%Z pat) a /\
                fold co cs nm c = hd 0%Z pat /\ lo = pred (length a).
Proof.
  intros Hne Ha Hp H. destruct (afi_lo_spec _ _ _ _ _ Hne H) as (a & c & r & Ht & Hna & Hc & Hlo).
  assert (Hp0 : cs = false -> ~ (65 <= hd 0%Z pat <= 90)%Z).
  { destruct pat as [|p pat]; [congruence|]. inversion Hp; subst. assumption. }
  unfold ascii_text in Ha. rewrite Forall_forall in Ha.
  exists a, c, r. split; [assumption|]. split; [|split; [|assumption]].
  - rewrite Forall_forall in *. intros x Hx E. apply Z.eqb_eq in E. fold (Mf co cs nm x (hd 0%Z pat)) in E.
    rewrite Mf_eq_Qb in E; [|apply Ha; rewrite Ht; apply in_or_app; auto|assumption].
    rewrite (Hna x Hx) in E. discriminate.
  - apply Z.eqb_eq. fold (Mf co cs nm c (hd 0%Z pat)).
    rewrite Mf_eq_Qb; [assumption| |assumption]. apply Ha. rewrite Ht. apply in_or_app. right. cbn; auto.
Qed.

Theorem afi_hi_spec_fold text pat lo hi : pat <> [] -> ascii_text text -> pat_norm pat ->
  ascii_fuzzy_index true text pat cs = Ok (Some (lo, hi)) ->
  exists e, gend (Mf co cs nm) text pat = Some e /\ e <= hi <= length text /\
    (exists c, nth_error text (hi - 1) = Some c /\ fold co cs nm c = last pat 0%Z) /\
    Forall (fun c => fold co cs nm c <> last pat 0%Z) (skipn hi text).
Proof.
  intros Hne Ha Hp H. destruct (afi_hi_spec _ _ _ _ _ Hne H) as (e & He & Hb & (c & Hn & Hc) & Hafter).
  unfold ascii_text in Ha. unfold pat_norm in Hp. rewrite Forall_forall in Ha, Hp.
  assert (Hpl : cs = false -> ~ (65 <= last pat 0%Z <= 90)%Z) by (apply Hp; now apply last_In).
  exists e. split; [|split; [assumption|split]].
  - rewrite <- He. apply gend_ext. intros x p Hx Hpin. apply Mf_eq_Qb; auto.
  - exists c. split; [assumption|]. apply Z.eqb_eq. fold (Mf co cs nm c (last pat 0%Z)).
    rewrite Mf_eq_Qb; auto. apply Ha. eapply nth_error_In; eauto.
  - rewrite Forall_forall in *. intros x Hx E. apply Z.eqb_eq in E. fold (Mf co cs nm x (last pat 0%Z)) in E.
    rewrite Mf_eq_Qb in E; auto; [|apply Ha; eapply In_skipn'; eauto].
    rewrite (Hafter x Hx) in E. discriminate.
Qed.

End WithOps.

(* the hypothesis [pat <> []] of afi_window_sound is necessary: for an empty pattern the function
   answers (0, 1) even on the empty string (its callers never pass an empty pattern) *)
Example afi_empty_pattern : ascii_fuzzy_index true [] [] false = Ok (Some (0, 1)).
Proof. reflexivity. Qed.

(* non-vacuity: "a_B" inside "xa-_-b.Bq": window starts one before the first 'a' and ends after the last 'B'/'b' *)
Example afi_example :
  ascii_fuzzy_index true [120;97;45;95;45;98;46;66;113]%Z [97;95;98]%Z false = Ok (Some (0, 8)) /\
  ascii_text [120;97;45;95;45;98;46;66;113]%Z.
Proof. split; [vm_compute; reflexivity|]. unfold ascii_text. repeat constructor; lia. Qed.

Print Assumptions afi_total.
Print Assumptions afi_some_spec.
Print Assumptions afi_none_sound.
Print Assumptions afi_window_sound.
Print Assumptions afi_lo_spec_fold.
Print Assumptions afi_hi_spec_fold.
