(* Theorems about the rank order (RankSpec) and about RankModel: the two compareRanks variants agree
   (pack64_lex), compareRanks decides the spec order, the spec order is a strict total order, sorted
   permutations are unique (so insertion sort, merge sort and the model of sort.Sort all yield `ranked`). *)
From Coq Require Import Permutation Sorted.
From Fzf Require Import Prelude RankSpec RankModel.
Open Scope Z_scope.

(* ------------------------------------------------------------------------------------------- *)
(* generic: strict total orders given as a boolean function                                     *)
(* ------------------------------------------------------------------------------------------- *)
Section Order.
Context {A : Type}.
Variable ltb : A -> A -> bool.

Definition strict_total : Prop :=
  (forall a, ltb a a = false) /\
  (forall a b c, ltb a b = true -> ltb b c = true -> ltb a c = true) /\
  (forall a b, a = b \/ ltb a b = true \/ ltb b a = true).

Hypothesis ST : strict_total.

(* "a is not after b" *)
Definition le (a b : A) : Prop := ltb b a = false.

Lemma le_refl a : le a a.
Proof. destruct ST as (Hi & _ & _). apply Hi. Qed.

Lemma lt_asym a b : ltb a b = true -> ltb b a = false.
Proof.
  destruct ST as (Hi & Ht & _). intro H.
  destruct (ltb b a) eqn:E; [|reflexivity].
  rewrite <- (Hi a). symmetry. now apply Ht with b.
Qed.

Lemma lt_le a b : ltb a b = true -> le a b.
Proof. apply lt_asym. Qed.

Lemma le_total a b : le a b \/ le b a.
Proof.
  destruct ST as (Hi & _ & Htot). destruct (Htot a b) as [->|[H|H]].
  - left. apply Hi.
  - left. now apply lt_asym.
  - right. now apply lt_asym.
Qed.

Lemma le_antisym a b : le a b -> le b a -> a = b.
Proof.
  unfold le. destruct ST as (_ & _ & Htot). intros H1 H2.
  destruct (Htot a b) as [->|[H|H]]; congruence.
Qed.

Lemma le_trans a b c : le a b -> le b c -> le a c.
Proof.
  unfold le. destruct ST as (Hi & Ht & Htot). intros H1 H2.
  destruct (ltb c a) eqn:E; [|reflexivity].
  destruct (Htot a b) as [->|[H|H]].
  - congruence.
  - rewrite <- H2. symmetry. now apply Ht with a.
  - congruence.
Qed.

Lemma Forall_le_trans a b l : le a b -> Forall (le b) l -> Forall (le a) l.
Proof. intros Hab H. eapply Forall_impl; [|exact H]. intros c Hc. now apply le_trans with b. Qed.

(* ---- uniqueness of the sorted permutation ---- *)
Lemma sorted_perm_unique : forall l1 l2,
  StronglySorted le l1 -> StronglySorted le l2 -> Permutation l1 l2 -> l1 = l2.
Proof.
  induction l1 as [|x l1 IH]; intros l2 S1 S2 P.
  - apply Permutation_nil in P. now subst.
  - destruct l2 as [|y l2].
    + apply Permutation_sym, Permutation_nil in P. discriminate.
    + apply StronglySorted_inv in S1 as [S1 F1]. apply StronglySorted_inv in S2 as [S2 F2].
      assert (Hxy : x = y).
      { assert (Ix : In x (y :: l2)) by (eapply Permutation_in; [exact P|now left]).
        assert (Iy : In y (x :: l1)) by (eapply Permutation_in; [apply Permutation_sym; exact P|now left]).
        destruct Ix as [->|Ix]; [reflexivity|]. destruct Iy as [->|Iy]; [reflexivity|].
        rewrite Forall_forall in F1, F2. apply le_antisym; auto. }
      subst y. f_equal. apply IH; auto. now apply Permutation_cons_inv with x.
Qed.

(* ---- insertion sort (the spec's definition) ---- *)
Lemma insert_perm x l : Permutation (insert ltb x l) (x :: l).
Proof.
  induction l as [|y t IH]; cbn; [reflexivity|].
  destruct (ltb y x); [|reflexivity].
  rewrite IH. apply perm_swap.
Qed.

Lemma insert_sorted x l : StronglySorted le l -> StronglySorted le (insert ltb x l).
Proof.
  induction l as [|y t IH]; cbn; intro S.
  - constructor; constructor.
  - apply StronglySorted_inv in S as [S F]. destruct (ltb y x) eqn:E.
    + constructor; [now apply IH|].
      eapply Permutation_Forall; [apply Permutation_sym, insert_perm|].
      constructor; [now apply lt_le|exact F].
    + constructor; [now constructor|]. constructor; [exact E|].
      apply Forall_le_trans with y; [exact E|exact F].
Qed.

Lemma isort_perm l : Permutation (isort ltb l) l.
Proof. induction l as [|x t IH]; cbn; [reflexivity|]. rewrite insert_perm. now constructor. Qed.

Lemma isort_sorted l : StronglySorted le (isort ltb l).
Proof. induction l as [|x t IH]; cbn; [constructor|now apply insert_sorted]. Qed.

Lemma isort_unique l l' : StronglySorted le l' -> Permutation l' l -> l' = isort ltb l.
Proof.
  intros S P. apply sorted_perm_unique; [exact S|apply isort_sorted|].
  rewrite P. apply Permutation_sym, isort_perm.
Qed.

Lemma isort_perm_eq l l' : Permutation l l' -> isort ltb l = isort ltb l'.
Proof. intro P. apply isort_unique; [apply isort_sorted|]. rewrite isort_perm. exact P. Qed.

(* ---- merge sort (the accelerated variant used by the harness) ---- *)
Lemma merge_perm : forall l1 l2, Permutation (merge ltb l1 l2) (l1 ++ l2).
Proof.
  induction l1 as [|x t1 IH1]; intro l2; [reflexivity|].
  induction l2 as [|y t2 IH2].
  - cbn. now rewrite app_nil_r.
  - cbn. destruct (ltb y x).
    + change (Permutation (y :: merge ltb (x :: t1) t2) (x :: t1 ++ y :: t2)).
      rewrite IH2. cbn. rewrite <- Permutation_middle. apply perm_swap.
    + constructor. apply IH1.
Qed.

Lemma merge_sorted : forall l1 l2,
  StronglySorted le l1 -> StronglySorted le l2 -> StronglySorted le (merge ltb l1 l2).
Proof.
  induction l1 as [|x t1 IH1]; intros l2 S1 S2; [exact S2|].
  induction l2 as [|y t2 IH2]; [exact S1|].
  pose proof S1 as S1'. pose proof S2 as S2'.
  apply StronglySorted_inv in S1 as [S1 F1]. apply StronglySorted_inv in S2 as [S2 F2].
  cbn. destruct (ltb y x) eqn:E.
  - change (StronglySorted le (y :: merge ltb (x :: t1) t2)).
    constructor; [now apply IH2|].
    eapply Permutation_Forall; [apply Permutation_sym, merge_perm|].
    apply Forall_app. split; [|exact F2].
    constructor; [now apply lt_le|]. apply Forall_le_trans with x; [now apply lt_le|exact F1].
  - constructor; [now apply IH1|].
    eapply Permutation_Forall; [apply Permutation_sym, merge_perm|].
    apply Forall_app. split; [exact F1|].
    constructor; [exact E|]. apply Forall_le_trans with y; [exact E|exact F2].
Qed.

Lemma merge_pairs_perm : forall ls, Permutation (concat (merge_pairs ltb ls)) (concat ls).
Proof.
  fix IH 1. intros [|a [|b r]]; [reflexivity|reflexivity|].
  cbn. rewrite merge_perm, (IH r). now rewrite app_assoc.
Qed.

Lemma merge_pairs_sorted : forall ls,
  Forall (StronglySorted le) ls -> Forall (StronglySorted le) (merge_pairs ltb ls).
Proof.
  fix IH 1. intros [|a [|b r]] F; [exact F|exact F|].
  cbn. inversion F as [|? ? Sa F']; subst. inversion F' as [|? ? Sb F'']; subst.
  constructor; [now apply merge_sorted|now apply IH].
Qed.

Lemma merge_pairs_length : forall ls, (2 <= length ls -> length (merge_pairs ltb ls) < length ls)%nat
                                      /\ (length (merge_pairs ltb ls) <= length ls)%nat.
Proof.
  fix IH 1. intros [|a [|b r]]; cbn; [lia|lia|].
  destruct (IH r) as [_ H]. lia.
Qed.

Lemma merge_all_spec : forall fuel ls, (length ls <= S fuel)%nat -> Forall (StronglySorted le) ls ->
  StronglySorted le (merge_all ltb fuel ls) /\ Permutation (merge_all ltb fuel ls) (concat ls).
Proof.
  induction fuel as [|f IH]; intros ls Hl F.
  - destruct ls as [|a [|b r]]; cbn in *; [split; [constructor|reflexivity]| |lia].
    inversion F; subst. split; [assumption|now rewrite app_nil_r].
  - destruct ls as [|a [|b r]]; [split; [constructor|reflexivity]| |].
    + cbn. inversion F; subst. split; [assumption|now rewrite app_nil_r].
    + change (merge_all ltb (S f) (a :: b :: r)) with (merge_all ltb f (merge_pairs ltb (a :: b :: r))).
      destruct (merge_pairs_length (a :: b :: r)) as [Hlt _].
      destruct (IH (merge_pairs ltb (a :: b :: r))) as [S P].
      * cbn [length] in *. lia.
      * now apply merge_pairs_sorted.
      * split; [exact S|]. rewrite P. apply merge_pairs_perm.
Qed.

Lemma concat_singletons (l : list A) : concat (map (fun x => [x]) l) = l.
Proof. induction l as [|x t IH]; cbn; [reflexivity|now rewrite IH]. Qed.

Theorem msort_eq_isort_proof l : msort ltb l = isort ltb l.
Proof.
  unfold msort. destruct (merge_all_spec (length l) (map (fun x => [x]) l)) as [S P].
  - rewrite map_length. lia.
  - apply Forall_forall. intros s Hs. apply in_map_iff in Hs as (x & <- & _). constructor; constructor.
  - apply isort_unique; [exact S|]. rewrite P, concat_singletons. reflexivity.
Qed.

(* ---- the model of sort.Sort: insertion sort driven by Less = compareRanks ---- *)
Variable less : A -> A -> bool.
Definition less_sound : Prop :=
  (forall a b, less a b = true -> le a b) /\ (forall a b, less a b = false -> le b a).
Hypothesis LS : less_sound.

Lemma sort_insert_perm x l : Permutation (sort_insert less x l) (x :: l).
Proof.
  induction l as [|y t IH]; cbn; [reflexivity|].
  destruct (less x y); [reflexivity|]. rewrite IH. apply perm_swap.
Qed.

Lemma sort_insert_sorted x l : StronglySorted le l -> StronglySorted le (sort_insert less x l).
Proof.
  destruct LS as [L1 L2].
  induction l as [|y t IH]; cbn; intro S.
  - constructor; constructor.
  - apply StronglySorted_inv in S as [S F]. destruct (less x y) eqn:E.
    + constructor; [now constructor|]. constructor; [now apply L1|].
      apply Forall_le_trans with y; [now apply L1|exact F].
    + constructor; [now apply IH|].
      eapply Permutation_Forall; [apply Permutation_sym, sort_insert_perm|].
      constructor; [now apply L2|exact F].
Qed.

Lemma sort_results_perm l : Permutation (sort_results less l) l.
Proof. induction l as [|x t IH]; cbn; [reflexivity|]. rewrite sort_insert_perm. now constructor. Qed.

Lemma sort_results_sorted l : StronglySorted le (sort_results less l).
Proof. induction l as [|x t IH]; cbn; [constructor|now apply sort_insert_sorted]. Qed.

Theorem sort_results_eq_isort l : sort_results less l = isort ltb l.
Proof. apply isort_unique; [apply sort_results_sorted|apply sort_results_perm]. Qed.

End Order.

(* ------------------------------------------------------------------------------------------- *)
(* the rank order is a strict total order                                                       *)
(* ------------------------------------------------------------------------------------------- *)

Lemma lex_ltb_irrefl : forall a, lex_ltb a a = false.
Proof. induction a as [|x a IH]; cbn; [reflexivity|]. rewrite Z.ltb_irrefl, Z.eqb_refl, IH. reflexivity. Qed.

Lemma lex_ltb_trans : forall a b c, lex_ltb a b = true -> lex_ltb b c = true -> lex_ltb a c = true.
Proof.
  induction a as [|x a IH]; intros [|y b] [|z c]; cbn; try discriminate; try reflexivity.
  intros H1 H2.
  apply orb_true_iff in H1. apply orb_true_iff in H2. apply orb_true_iff.
  destruct H1 as [H1|H1]; destruct H2 as [H2|H2].
  - left. apply Z.ltb_lt in H1, H2. apply Z.ltb_lt. lia.
  - apply andb_true_iff in H2 as [H2 _]. apply Z.eqb_eq in H2. subst. now left.
  - apply andb_true_iff in H1 as [H1 _]. apply Z.eqb_eq in H1. subst. now left.
  - apply andb_true_iff in H1 as [H1 H1']. apply andb_true_iff in H2 as [H2 H2'].
    apply Z.eqb_eq in H1, H2. subst. right. rewrite Z.eqb_refl. cbn. now apply IH with b.
Qed.

Lemma lex_ltb_total : forall a b, a = b \/ lex_ltb a b = true \/ lex_ltb b a = true.
Proof.
  induction a as [|x a IH]; intros [|y b]; cbn; auto.
  destruct (Z.lt_trichotomy x y) as [H|[H|H]].
  - right. left. apply orb_true_iff. left. now apply Z.ltb_lt.
  - subst y. rewrite Z.ltb_irrefl, Z.eqb_refl. cbn. destruct (IH b) as [->|[H|H]]; auto.
  - right. right. apply orb_true_iff. left. now apply Z.ltb_lt.
Qed.

Lemma str_eqb_refl a : str_eqb a a = true.
Proof. now apply str_eqb_eq. Qed.

Lemma rank_ltb_cases tac a b :
  rank_ltb tac a b = true <->
  lex_ltb (ri_key a) (ri_key b) = true \/
  (ri_key a = ri_key b /\ (if tac then ri_index b < ri_index a else ri_index a < ri_index b)).
Proof.
  unfold rank_ltb. rewrite orb_true_iff, andb_true_iff, str_eqb_eq.
  destruct tac; rewrite Z.ltb_lt; tauto.
Qed.

Theorem rank_lt_strict_total_proof tac : strict_total (rank_ltb tac).
Proof.
  split; [|split].
  - intro a. unfold rank_ltb. rewrite lex_ltb_irrefl, str_eqb_refl. cbn. destruct tac; apply Z.ltb_irrefl.
  - intros a b c H1 H2. apply rank_ltb_cases in H1, H2. apply rank_ltb_cases.
    destruct H1 as [H1|[E1 H1]]; destruct H2 as [H2|[E2 H2]].
    + left. now apply lex_ltb_trans with (ri_key b).
    + left. now rewrite <- E2.
    + left. now rewrite E1.
    + right. split; [congruence|]. destruct tac; lia.
  - intros [ia ka] [ib kb]. destruct (lex_ltb_total ka kb) as [E|[H|H]].
    + subst kb. destruct (Z.lt_trichotomy ia ib) as [H|[H|H]].
      * right. destruct tac; [right|left]; apply rank_ltb_cases; right; cbn; auto.
      * left. now subst.
      * right. destruct tac; [left|right]; apply rank_ltb_cases; right; cbn; auto.
    + right. left. apply rank_ltb_cases. now left.
    + right. right. apply rank_ltb_cases. now left.
Qed.

(* with distinct item indexes exactly one of a < b, b < a holds *)
Corollary rank_lt_distinct_proof tac a b : ri_index a <> ri_index b ->
  rank_ltb tac a b = negb (rank_ltb tac b a).
Proof.
  intro Hd. destruct (rank_lt_strict_total_proof tac) as (Hi & Ht & Htot).
  destruct (Htot a b) as [E|[H|H]].
  - subst. contradiction.
  - rewrite H. rewrite (lt_asym _ (rank_lt_strict_total_proof tac) _ _ H). reflexivity.
  - rewrite H. rewrite (lt_asym _ (rank_lt_strict_total_proof tac) _ _ H). reflexivity.
Qed.

(* ------------------------------------------------------------------------------------------- *)
(* compareRanks: both build variants, and their relation to the spec order                      *)
(* ------------------------------------------------------------------------------------------- *)

Definition u16 (z : Z) : Prop := 0 <= z < 65536.
Definition wf_points (p : points) : Prop :=
  let '(p0, p1, p2, p3) := p in u16 p0 /\ u16 p1 /\ u16 p2 /\ u16 p3.

(* the spec's view of a model result: most significant key first *)
Definition key_of_points (p : points) : list Z := let '(p0, p1, p2, p3) := p in [p3; p2; p1; p0].
Definition view (r : result) : ritem := mkRItem (r_index r) (key_of_points (r_points r)).

(* four uint16 packed little-endian into 64 bits compare as integers exactly like the keys compare
   lexicographically from points[3] down to points[0] *)
Theorem pack64_lex_proof : forall p q, wf_points p -> wf_points q ->
  (pack64 p <? pack64 q) = lex_ltb (key_of_points p) (key_of_points q) /\
  (pack64 p = pack64 q <-> p = q).
Proof.
  intros [[[p0 p1] p2] p3] [[[q0 q1] q2] q3] (P0 & P1 & P2 & P3) (Q0 & Q1 & Q2 & Q3).
  unfold u16 in *. cbn [pack64 key_of_points lex_ltb]. split.
  - destruct (Z.ltb_spec p3 q3); cbn [orb andb]; [apply Z.ltb_lt; lia|].
    destruct (Z.eqb_spec p3 q3); cbn [orb andb]; [subst|apply Z.ltb_ge; lia].
    destruct (Z.ltb_spec p2 q2); cbn [orb andb]; [apply Z.ltb_lt; lia|].
    destruct (Z.eqb_spec p2 q2); cbn [orb andb]; [subst|apply Z.ltb_ge; lia].
    destruct (Z.ltb_spec p1 q1); cbn [orb andb]; [apply Z.ltb_lt; lia|].
    destruct (Z.eqb_spec p1 q1); cbn [orb andb]; [subst|apply Z.ltb_ge; lia].
    destruct (Z.ltb_spec p0 q0); cbn [orb andb]; [apply Z.ltb_lt; lia|].
    destruct (Z.eqb_spec p0 q0); cbn [orb andb]; apply Z.ltb_ge; lia.
  - split; intro H.
    + assert (p3 = q3) by lia. subst. assert (p2 = q2) by lia. subst.
      assert (p1 = q1) by lia. subst. assert (p0 = q0) by lia. now subst.
    + now inversion H.
Qed.

Theorem compare_variants_agree_proof : forall a b tac, wf_points (r_points a) -> wf_points (r_points b) ->
  compare_ranks_x86 a b tac = compare_ranks a b tac.
Proof.
  intros [ia [[[p0 p1] p2] p3]] [ib [[[q0 q1] q2] q3]] tac (P0 & P1 & P2 & P3) (Q0 & Q1 & Q2 & Q3).
  unfold u16 in *. unfold compare_ranks_x86, compare_ranks. cbn [r_points r_index pack64].
  repeat match goal with
         | |- context [?x <? ?y] => destruct (Z.ltb_spec x y)
         | |- context [?x >? ?y] => rewrite (Z.gtb_ltb x y); destruct (Z.ltb_spec y x)
         end; try reflexivity; try lia.
Qed.

(* compareRanks (generic loop) decides the spec order on the spec's view, except that on one and the same
   item it answers "not tac" where the strict order says false *)
Lemma compare_ranks_spec a b tac :
  compare_ranks a b tac =
  lex_ltb (ri_key (view a)) (ri_key (view b))
  || (str_eqb (ri_key (view a)) (ri_key (view b)) && xorb (r_index a <=? r_index b) tac).
Proof.
  destruct a as [ia [[[p0 p1] p2] p3]], b as [ib [[[q0 q1] q2] q3]].
  unfold compare_ranks, view. cbn [r_points r_index ri_key key_of_points lex_ltb str_eqb].
  repeat match goal with
         | |- context [?x >? ?y] => rewrite (Z.gtb_ltb x y)
         end.
  destruct (Z.ltb_spec p3 q3); [reflexivity|]. destruct (Z.ltb_spec q3 p3).
  { cbn. destruct (Z.eqb_spec p3 q3); [lia|reflexivity]. }
  assert (p3 = q3) by lia. subst. rewrite Z.eqb_refl. cbn.
  destruct (Z.ltb_spec p2 q2); [reflexivity|]. destruct (Z.ltb_spec q2 p2).
  { cbn. destruct (Z.eqb_spec p2 q2); [lia|reflexivity]. }
  assert (p2 = q2) by lia. subst. rewrite Z.eqb_refl. cbn.
  destruct (Z.ltb_spec p1 q1); [reflexivity|]. destruct (Z.ltb_spec q1 p1).
  { cbn. destruct (Z.eqb_spec p1 q1); [lia|reflexivity]. }
  assert (p1 = q1) by lia. subst. rewrite Z.eqb_refl. cbn.
  destruct (Z.ltb_spec p0 q0); [reflexivity|]. destruct (Z.ltb_spec q0 p0).
  { cbn. destruct (Z.eqb_spec p0 q0); [lia|reflexivity]. }
  assert (p0 = q0) by lia. subst. rewrite Z.eqb_refl. cbn. reflexivity.
Qed.

Theorem compare_ranks_is_rank_lt_proof a b tac : r_index a <> r_index b ->
  compare_ranks a b tac = rank_ltb tac (view a) (view b).
Proof.
  intro Hd. rewrite compare_ranks_spec. unfold rank_ltb. f_equal. f_equal.
  cbn [view ri_index]. destruct tac; cbn.
  - destruct (Z.leb_spec (r_index a) (r_index b)), (Z.ltb_spec (r_index b) (r_index a)); cbn; try reflexivity; lia.
  - destruct (Z.leb_spec (r_index a) (r_index b)), (Z.ltb_spec (r_index a) (r_index b)); cbn; try reflexivity; lia.
Qed.

Lemma view_inj a b : view a = view b -> a = b.
Proof.
  destruct a as [ia [[[p0 p1] p2] p3]], b as [ib [[[q0 q1] q2] q3]]. unfold view. cbn. intro H. now inversion H.
Qed.

(* the order on model results pulled back along [view] *)
Definition res_ltb (tac : bool) (a b : result) : bool := rank_ltb tac (view a) (view b).

Lemma res_ltb_strict_total tac : strict_total (res_ltb tac).
Proof.
  destruct (rank_lt_strict_total_proof tac) as (Hi & Ht & Htot). unfold res_ltb. split; [|split].
  - intro a. apply Hi.
  - intros a b c. apply Ht.
  - intros a b. destruct (Htot (view a) (view b)) as [E|H]; [left; now apply view_inj|right; exact H].
Qed.

(* Less = compareRanks is sound for the pulled-back order (no distinctness needed: on one and the same item
   either answer is harmless) *)
Lemma compare_ranks_less_sound tac :
  less_sound (res_ltb tac) (fun a b => compare_ranks a b tac).
Proof.
  destruct (rank_lt_strict_total_proof tac) as (Hi & Ht & Htot).
  split; intros a b H; unfold le, res_ltb.
  - destruct (Z.eq_dec (r_index a) (r_index b)) as [E|E].
    + (* same index: keys decide, or the very same item *)
      rewrite compare_ranks_spec in H. unfold rank_ltb.
      apply orb_true_iff in H as [H|H].
      * destruct (lex_ltb (ri_key (view b)) (ri_key (view a))) eqn:E2.
        { pose proof (lex_ltb_trans _ _ _ H E2) as T. now rewrite lex_ltb_irrefl in T. }
        cbn [orb]. destruct (str_eqb (ri_key (view b)) (ri_key (view a))) eqn:E3; [|reflexivity].
        apply str_eqb_eq in E3. rewrite E3, lex_ltb_irrefl in H. discriminate.
      * apply andb_true_iff in H as [H _]. apply str_eqb_eq in H. rewrite H, lex_ltb_irrefl, str_eqb_refl.
        cbn [view ri_index]. rewrite E. cbn. destruct tac; apply Z.ltb_irrefl.
    + rewrite compare_ranks_is_rank_lt_proof in H by exact E.
      now apply (lt_asym _ (rank_lt_strict_total_proof tac)).
  - destruct (Z.eq_dec (r_index a) (r_index b)) as [E|E].
    + rewrite compare_ranks_spec in H. apply orb_false_iff in H as [H1 H2]. unfold rank_ltb.
      rewrite H1. cbn [orb]. destruct (str_eqb (ri_key (view a)) (ri_key (view b))); [|reflexivity].
      cbn [view ri_index]. rewrite E. cbn. destruct tac; apply Z.ltb_irrefl.
    + now rewrite compare_ranks_is_rank_lt_proof in H by exact E.
Qed.

(* insertion sort commutes with an injective-enough view *)
Lemma isort_map {A B} (f : A -> B) (ltb : B -> B -> bool) (l : list A) :
  map f (isort (fun a b => ltb (f a) (f b)) l) = isort ltb (map f l).
Proof.
  induction l as [|x t IH]; cbn; [reflexivity|]. rewrite <- IH.
  generalize (isort (fun a b => ltb (f a) (f b)) t). intro s.
  induction s as [|y s IHs]; cbn; [reflexivity|].
  destruct (ltb (f y) (f x)); cbn; [now rewrite IHs|reflexivity].
Qed.

(* sort.Sort(ByRelevance/ByRelevanceTac) as modelled yields the spec's ranked list *)
Theorem sort_results_is_ranked_proof tac (l : list result) :
  map view (sort_results (fun a b => compare_ranks a b tac) l) = ranked tac (map view l).
Proof.
  rewrite (sort_results_eq_isort (res_ltb tac) (res_ltb_strict_total tac) _ (compare_ranks_less_sound tac)).
  unfold ranked, res_ltb. apply isort_map.
Qed.

Theorem ranked_fast_eq_proof tac l : ranked_fast tac l = ranked tac l.
Proof. apply msort_eq_isort_proof, rank_lt_strict_total_proof. Qed.

(* ranked is THE sorted permutation *)
Theorem ranked_characterised_proof tac l l' :
  l' = ranked tac l <-> (StronglySorted (le (rank_ltb tac)) l' /\ Permutation l' l).
Proof.
  split.
  - intros ->. split; [apply isort_sorted, rank_lt_strict_total_proof|apply isort_perm].
  - intros [S P]. apply isort_unique; auto. apply rank_lt_strict_total_proof.
Qed.
