(* C11 proofs, second part: fields shown out of context (--with-nth).
   - the pieces of a stream, coloured one after the other, are the stream coloured as a whole (piece_chars_concat)
   - restore_params re-creates a state FROM THE RESET STATE, is in the documented SGR domain, and does not
     re-create it from an arbitrary state (nothing in it switches an attribute off)
   - ansiState.ToString (model) prints exactly ESC [ restore_params m, so that "ESC[m" followed by it is read back
     by interpretCode (model) as the state it was printed from. *)
From Fzf Require Import Prelude AnsiSpec AnsiModel AnsiProofs AnsiNthSpec AnsiNthModel.
Open Scope Z_scope.

(* ---------- pieces ---------- *)
Lemma term_chars_app : forall a b s, term_chars (a ++ b) s = term_chars a s ++ term_chars b (term_state a s).
Proof.
  induction a as [|i a IH]; intros b s; [reflexivity|].
  destruct i; cbn [app term_chars term_state]; rewrite IH; try reflexivity.
  now rewrite app_assoc.
Qed.

Theorem piece_chars_concat_proof : forall pcs s, concat (piece_chars pcs s) = term_chars (concat pcs) s.
Proof.
  induction pcs as [|p r IH]; intro s; [reflexivity|].
  cbn [piece_chars concat]. now rewrite term_chars_app, IH.
Qed.

Lemma piece_chars_length : forall pcs s, length (piece_chars pcs s) = length pcs.
Proof. induction pcs as [|p r IH]; intro s; [reflexivity|]. cbn [piece_chars length]. now rewrite IH. Qed.

Lemma map_nth_seq {A} (d : A) : forall l : list A, map (fun k => nth k l d) (seq 0 (length l)) = l.
Proof.
  intro l. apply nth_ext with (d := d) (d' := d).
  - now rewrite map_length, seq_length.
  - intros n Hn. rewrite map_length, seq_length in Hn.
    rewrite (nth_indep _ d (nth 0 l d)) by now rewrite map_length, seq_length.
    rewrite (map_nth (fun k => nth k l d) (seq 0 (length l)) 0%nat n).
    now rewrite seq_nth by exact Hn.
Qed.

(* every piece shown, in order: the whole stream *)
Theorem shown_all_proof : forall pcs s, shown_chars (seq 0 (length pcs)) pcs s = term_chars (concat pcs) s.
Proof.
  intros pcs s. unfold shown_chars. rewrite <- (piece_chars_length pcs s), map_nth_seq.
  apply piece_chars_concat_proof.
Qed.

(* a piece shown alone has the colours it has in the whole stream: the characters of piece k are coloured from the
   state the pieces before it leave behind *)
Theorem shown_one_proof : forall pre p post s,
  shown_chars [length pre] (pre ++ p :: post) s = term_chars p (term_state (concat pre) s).
Proof.
  intros pre p post s. unfold shown_chars. cbn [map concat]. rewrite app_nil_r.
  revert s. induction pre as [|q pre IH]; intro s; [reflexivity|].
  cbn [app length piece_chars nth concat]. rewrite IH.
  f_equal. clear. revert s. induction q as [|i q IHq]; intro s; [reflexivity|].
  destruct i; cbn [app term_state]; apply IHq.
Qed.

(* ---------- restore_params on the reference interpreter ---------- *)
Definition simple (p : Z) : Prop := (p =? 38) = false /\ (p =? 48) = false /\ 0 <= p.

Lemma sp_nil fuel s : sgr_params fuel [] s = s.
Proof. destruct fuel; reflexivity. Qed.
Lemma wf_nil fuel : sgr_wf_aux fuel [] = true.
Proof. destruct fuel; reflexivity. Qed.

Lemma sp_simple_app : forall ps qs fuel s, Forall simple ps ->
  sgr_params (length ps + fuel) (ps ++ qs) s = sgr_params fuel qs (fold_left (fun s p => sgr_one p s) ps s).
Proof.
  induction ps as [|p ps IH]; intros qs fuel s H; [reflexivity|].
  inversion H as [|? ? (E1 & E2 & _) Hr]; subst.
  cbn [length app Nat.add fold_left]. rewrite sp_simple by assumption. now apply IH.
Qed.

Lemma wf_simple_app : forall ps qs fuel, Forall simple ps ->
  sgr_wf_aux (length ps + fuel) (ps ++ qs) = sgr_wf_aux fuel qs.
Proof.
  induction ps as [|p ps IH]; intros qs fuel H; [reflexivity|].
  inversion H as [|? ? (E1 & E2 & E3) Hr]; subst.
  cbn [length app Nat.add sgr_wf_aux]. rewrite E1, E2. cbn [orb].
  apply Z.leb_le in E3. rewrite E3. cbn [andb]. now apply IH.
Qed.

Lemma byte_rng n : byte_val n = true -> 0 <= n <= 255.
Proof. unfold byte_val, in_rng. intro H. apply andb_true_iff in H as [H1 H2]. apply Z.leb_le in H1, H2. lia. Qed.

Definition set_col (base : Z) (s : sgr) (c : colour) : sgr := if base =? 30 then with_fg s c else with_bg s c.

Lemma one_simple p : simple p -> Forall simple [p]. Proof. intro H. now constructor. Qed.

Lemma one_fg n s : 0 <= n < 8 -> sgr_one (30 + n) s = with_fg s (CIdx n).
Proof.
  intro H. assert (C : n = 0 \/ n = 1 \/ n = 2 \/ n = 3 \/ n = 4 \/ n = 5 \/ n = 6 \/ n = 7) by lia.
  repeat (destruct C as [C|C]; [subst n; reflexivity|]). subst n; reflexivity.
Qed.
Lemma one_bg n s : 0 <= n < 8 -> sgr_one (40 + n) s = with_bg s (CIdx n).
Proof.
  intro H. assert (C : n = 0 \/ n = 1 \/ n = 2 \/ n = 3 \/ n = 4 \/ n = 5 \/ n = 6 \/ n = 7) by lia.
  repeat (destruct C as [C|C]; [subst n; reflexivity|]). subst n; reflexivity.
Qed.
Lemma one_fgb n s : 8 <= n < 16 -> sgr_one (30 + 60 + (n - 8)) s = with_fg s (CIdx n).
Proof.
  intro H. assert (C : n = 8 \/ n = 9 \/ n = 10 \/ n = 11 \/ n = 12 \/ n = 13 \/ n = 14 \/ n = 15) by lia.
  repeat (destruct C as [C|C]; [subst n; reflexivity|]). subst n; reflexivity.
Qed.
Lemma one_bgb n s : 8 <= n < 16 -> sgr_one (40 + 60 + (n - 8)) s = with_bg s (CIdx n).
Proof.
  intro H. assert (C : n = 8 \/ n = 9 \/ n = 10 \/ n = 11 \/ n = 12 \/ n = 13 \/ n = 14 \/ n = 15) by lia.
  repeat (destruct C as [C|C]; [subst n; reflexivity|]). subst n; reflexivity.
Qed.

(* one colour: consumed whatever fuel is left *)
Lemma sp_colour base c r fuel s : base = 30 \/ base = 40 -> colour_ok c = true ->
  exists fuel', (fuel <= fuel')%nat /\
    sgr_params (length (colour_params base c) + fuel) (colour_params base c ++ r) s = sgr_params fuel' r (set_col base s c) /\
    sgr_wf_aux (length (colour_params base c) + fuel) (colour_params base c ++ r) = sgr_wf_aux fuel' r.
Proof.
  intros Hb Hc.
  assert (S1 : forall p, simple p -> exists fuel', (fuel <= fuel')%nat /\
            sgr_params (length [p] + fuel) ([p] ++ r) s = sgr_params fuel' r (sgr_one p s) /\
            sgr_wf_aux (length [p] + fuel) ([p] ++ r) = sgr_wf_aux fuel' r).
  { intros p Hp. exists fuel. split; [lia|]. split.
    - now rewrite (sp_simple_app [p] r fuel s (one_simple p Hp)).
    - now rewrite (wf_simple_app [p] r fuel (one_simple p Hp)). }
  destruct c as [|n|cr cg cb]; cbn [colour_params colour_ok] in *.
  - (* default *)
    destruct Hb; subst base.
    + destruct (S1 (30 + 9)) as (f & ? & E1 & E2); [repeat split; (reflexivity || lia)|].
      exists f. split; [assumption|]. split; [rewrite E1; reflexivity|exact E2].
    + destruct (S1 (40 + 9)) as (f & ? & E1 & E2); [repeat split; (reflexivity || lia)|].
      exists f. split; [assumption|]. split; [rewrite E1; reflexivity|exact E2].
  - apply byte_rng in Hc.
    destruct (n <? 8) eqn:L8; [|destruct (n <? 16) eqn:L16].
    + apply Z.ltb_lt in L8.
      destruct Hb; subst base.
      * destruct (S1 (30 + n)) as (f & ? & E1 & E2).
        { repeat split; try lia; apply Z.eqb_neq; lia. }
        exists f. split; [assumption|]. split; [|exact E2]. rewrite E1, one_fg by lia. reflexivity.
      * destruct (S1 (40 + n)) as (f & ? & E1 & E2).
        { repeat split; try lia; apply Z.eqb_neq; lia. }
        exists f. split; [assumption|]. split; [|exact E2]. rewrite E1, one_bg by lia. reflexivity.
    + apply Z.ltb_ge in L8. apply Z.ltb_lt in L16.
      destruct Hb; subst base.
      * destruct (S1 (30 + 60 + (n - 8))) as (f & ? & E1 & E2).
        { repeat split; try lia; apply Z.eqb_neq; lia. }
        exists f. split; [assumption|]. split; [|exact E2]. rewrite E1, one_fgb by lia. reflexivity.
      * destruct (S1 (40 + 60 + (n - 8))) as (f & ? & E1 & E2).
        { repeat split; try lia; apply Z.eqb_neq; lia. }
        exists f. split; [assumption|]. split; [|exact E2]. rewrite E1, one_bgb by lia. reflexivity.
    + (* 38/48 ; 5 ; n *)
      exists (2 + fuel)%nat. split; [lia|].
      assert (Bv : byte_val n = true) by (unfold byte_val, in_rng; apply andb_true_iff; split; apply Z.leb_le; lia).
      destruct Hb; subst base; cbn [Z.add Pos.add Pos.succ length app Nat.add].
      * split; [apply sp_idx38|]. cbn [sgr_wf_aux Z.eqb Pos.eqb orb]. now rewrite Bv.
      * split; [apply sp_idx48|]. cbn [sgr_wf_aux Z.eqb Pos.eqb orb]. now rewrite Bv.
  - (* 38/48 ; 2 ; r ; g ; b *)
    exists (4 + fuel)%nat. split; [lia|].
    destruct Hb; subst base; cbn [Z.add Pos.add Pos.succ length app Nat.add].
    + split; [apply sp_rgb38|]. cbn [sgr_wf_aux Z.eqb Pos.eqb orb]. now rewrite Hc.
    + split; [apply sp_rgb48|]. cbn [sgr_wf_aux Z.eqb Pos.eqb orb]. now rewrite Hc.
Qed.

Lemma attr_params_simple a : Forall simple (attr_params a).
Proof. destruct a as [[] [] [] [] [] [] []]; cbn; repeat constructor; (reflexivity || lia). Qed.

Lemma attr_params_fold a :
  fold_left (fun s p => sgr_one p s) (attr_params a) sgr_reset = mkSgr CDefault CDefault a.
Proof. destruct a as [[] [] [] [] [] [] []]; reflexivity. Qed.

Lemma restore_run s fuel0 : sgr_ok s = true -> (length (restore_params s) <= fuel0)%nat ->
  sgr_params fuel0 (restore_params s) sgr_reset = s /\ sgr_wf_aux fuel0 (restore_params s) = true.
Proof.
  intros Hok Hf. unfold sgr_ok in Hok. apply andb_true_iff in Hok as [Hfg Hbg].
  unfold restore_params in *. rewrite !app_length in Hf.
  set (A := attr_params (s_at s)) in *. set (F := colour_params 30 (s_fg s)) in *. set (B := colour_params 40 (s_bg s)) in *.
  replace fuel0 with (length A + (length F + (length B + (fuel0 - length A - length F - length B))))%nat by lia.
  set (extra := (fuel0 - length A - length F - length B)%nat).
  rewrite sp_simple_app, wf_simple_app by apply attr_params_simple.
  destruct (sp_colour 30 (s_fg s) B (length B + extra) (fold_left (fun s p => sgr_one p s) A sgr_reset) (or_introl eq_refl) Hfg)
    as (f1 & L1 & E1 & W1).
  fold F in E1, W1. rewrite E1, W1.
  destruct (sp_colour 40 (s_bg s) [] (f1 - length B) (set_col 30 (fold_left (fun s p => sgr_one p s) A sgr_reset) (s_fg s))
              (or_intror eq_refl) Hbg) as (f2 & L2 & E2 & W2).
  fold B in E2, W2. rewrite app_nil_r in E2, W2.
  replace (length B + (f1 - length B))%nat with f1 in E2, W2 by lia.
  rewrite E2, W2, sp_nil, wf_nil. split; [|reflexivity].
  unfold A. rewrite attr_params_fold. destruct s as [fg0 bg0 at0]. reflexivity.
Qed.

Lemma restore_params_nonempty s : restore_params s <> [].
Proof.
  unfold restore_params. intro H. apply app_eq_nil in H as [_ H]. apply app_eq_nil in H as [_ H].
  destruct (s_bg s) as [|n|]; cbn in H; try discriminate.
  destruct (n <? 8); [discriminate|]. destruct (n <? 16); discriminate.
Qed.

(* "ESC[m" then "ESC[" restore_params "m": whatever the state was, the result is s; and the parameters are in the
   documented domain (so that sgr_eq applies to the implementation's reading of them) *)
Theorem restore_from_reset_proof : forall s s0, sgr_ok s = true ->
  sgr_wf (restore_params s) = true /\ sgr_apply (restore_params s) (sgr_apply [] s0) = s.
Proof.
  intros s s0 Hok. destruct (restore_run s (length (restore_params s)) Hok (le_n _)) as [R W].
  split; [exact W|]. unfold sgr_apply at 1.
  destruct (restore_params s) eqn:E; [now apply restore_params_nonempty in E|]. exact R.
Qed.

(* without the reset in front it does not: attributes that are on stay on *)
Theorem restore_needs_reset_proof : exists s s0, sgr_ok s = true /\ sgr_apply (restore_params s) s0 <> s.
Proof.
  exists (mkSgr (CIdx 1) CDefault no_attrs), (mkSgr (CIdx 1) CDefault (mkAttrs true false false true false false false)).
  split; [reflexivity|]. vm_compute. discriminate.
Qed.

(* ---------- ansiState.ToString prints restore_params ---------- *)
Definition itoa_good (n : Z) : bool :=
  all_digits (itoa n) && (dec_val (itoa n) =? n) && (dec_val (itoa n) <? 2147483648).
Lemma itoa_good_all : forallb itoa_good (map Z.of_nat (seq 0 256)) = true.
Proof. vm_compute. reflexivity. Qed.

Lemma itoa_ok n : 0 <= n <= 255 -> param_ok (itoa n) /\ dec_val (itoa n) = n.
Proof.
  intro H. pose proof itoa_good_all as G. rewrite forallb_forall in G.
  assert (I : In n (map Z.of_nat (seq 0 256))).
  { replace n with (Z.of_nat (Z.to_nat n)) by lia. apply in_map, in_seq. lia. }
  apply G in I. unfold itoa_good in I. apply andb_true_iff in I as [I I3]. apply andb_true_iff in I as [I1 I2].
  apply Z.eqb_eq in I2. apply Z.ltb_lt in I3. repeat split; assumption.
Qed.

Definition semi (dss : list str) : str := concat (map (fun d => d ++ [59]) dss).
Lemma semi_app a b : semi (a ++ b) = semi a ++ semi b.
Proof. unfold semi. now rewrite map_app, concat_app. Qed.

Lemma semi_join : forall dss, dss <> [] -> semi dss = concat_map_sep 59 dss ++ [59].
Proof.
  induction dss as [|d r IH]; intro H; [congruence|].
  destruct r as [|d2 r].
  - cbn. now rewrite app_nil_r.
  - change (semi (d :: d2 :: r)) with ((d ++ [59]) ++ semi (d2 :: r)).
    rewrite IH by discriminate. cbn [concat_map_sep]. rewrite <- !app_assoc. reflexivity.
Qed.

Lemma trim_suffix_59 x : trim_suffix (x ++ [59]) [59] = x.
Proof.
  unfold trim_suffix, has_suffix. rewrite app_length. cbn [length].
  replace (length x + 1 - 1)%nat with (length x) by lia.
  replace (Nat.leb 1 (length x + 1)) with true by (symmetry; apply Nat.leb_le; lia).
  rewrite skipn_app, skipn_all, Nat.sub_diag. cbn [app skipn str_eqb andb Z.eqb Pos.eqb].
  rewrite firstn_app, firstn_all, Nat.sub_diag. cbn [firstn]. apply app_nil_r.
Qed.

Lemma attrs_semi a :
  let z := enc_attrs a in
  (if has_attr z A_BOLD || has_attr z A_BOLDFORCE then [49; 59] else []) ++
  (if has_attr z A_DIM then [50; 59] else []) ++ (if has_attr z A_ITALIC then [51; 59] else []) ++
  (if has_attr z A_UNDERLINE then [52; 59] else []) ++ (if has_attr z A_BLINK then [53; 59] else []) ++
  (if has_attr z A_REVERSE then [55; 59] else []) ++ (if has_attr z A_STRIKE then [57; 59] else [])
  = semi (map itoa (attr_params a)).
Proof. destruct a as [[] [] [] [] [] [] []]; vm_compute; reflexivity. Qed.

Lemma rgb_parts r g b : 0 <= r <= 255 -> 0 <= g <= 255 -> 0 <= b <= 255 ->
  let col := 16777216 + r * 65536 + g * 256 + b in
  Z.land (Z.shiftr col 16) 255 = r /\ Z.land (Z.shiftr col 8) 255 = g /\ Z.land col 255 = b.
Proof.
  intros Hr Hg Hb col. change 255 with (Z.ones 8). rewrite !Z.land_ones by lia. rewrite !Z.shiftr_div_pow2 by lia.
  change (2 ^ 16) with 65536. change (2 ^ 8) with 256.
  assert (D16 : col / 65536 = 256 + r) by (symmetry; apply (Z.div_unique col 65536 (256 + r) (g * 256 + b)); unfold col; lia).
  assert (D8 : col / 256 = 65536 + r * 256 + g) by (symmetry; apply (Z.div_unique col 256 (65536 + r * 256 + g) b); unfold col; lia).
  rewrite D16, D8. repeat split.
  - symmetry. apply (Z.mod_unique (256 + r) 256 1 r); lia.
  - symmetry. apply (Z.mod_unique (65536 + r * 256 + g) 256 (256 + r) g); lia.
  - symmetry. apply (Z.mod_unique col 256 (65536 + r * 256 + g) b); unfold col; lia.
Qed.

Lemma colour_semi base c : base = 30 \/ base = 40 -> colour_ok c = true ->
  to_ansi_string (enc_colour c) base = semi (map itoa (colour_params base c)).
Proof.
  intros Hb Hc. destruct c as [|n|cr cg cb]; cbn [colour_ok enc_colour colour_params] in *.
  - destruct Hb; subst base; vm_compute; reflexivity.
  - apply byte_rng in Hc. unfold to_ansi_string.
    replace (n =? -1) with false by (symmetry; apply Z.eqb_neq; lia).
    destruct (n <? 8) eqn:L8; [|destruct (n <? 16) eqn:L16].
    + unfold semi. cbn [map concat]. now rewrite app_nil_r.
    + unfold semi. cbn [map concat]. rewrite app_nil_r. f_equal. f_equal. lia.
    + apply Z.ltb_ge in L16. replace (n <? 256) with true by (symmetry; apply Z.ltb_lt; lia).
      unfold semi. cbn [map concat]. change (itoa 5) with [53]. rewrite app_nil_r, <- !app_assoc. reflexivity.
  - apply andb_true_iff in Hc as [Hc Hb3]. apply andb_true_iff in Hc as [Hr Hg].
    apply byte_rng in Hr, Hg, Hb3.
    destruct (rgb_parts cr cg cb Hr Hg Hb3) as (P1 & P2 & P3).
    unfold to_ansi_string. set (col := 16777216 + cr * 65536 + cg * 256 + cb) in *.
    replace (col =? -1) with false by (symmetry; apply Z.eqb_neq; unfold col; lia).
    replace (col <? 8) with false by (symmetry; apply Z.ltb_ge; unfold col; lia).
    replace (col <? 16) with false by (symmetry; apply Z.ltb_ge; unfold col; lia).
    replace (col <? 256) with false by (symmetry; apply Z.ltb_ge; unfold col; lia).
    replace (16777216 <=? col) with true by (symmetry; apply Z.leb_le; unfold col; lia).
    rewrite P1, P2, P3. unfold semi. cbn [map concat]. change (itoa 2) with [50].
    rewrite app_nil_r, <- !app_assoc. reflexivity.
Qed.

Lemma attr_params_rng a : Forall (fun p => 0 <= p <= 255) (attr_params a).
Proof. destruct a as [[] [] [] [] [] [] []]; cbn; repeat constructor; lia. Qed.
Lemma colour_params_rng base c : base = 30 \/ base = 40 -> colour_ok c = true ->
  Forall (fun p => 0 <= p <= 255) (colour_params base c).
Proof.
  intros Hb Hc. destruct c as [|n|cr cg cb]; cbn [colour_ok colour_params] in *.
  - destruct Hb; subst; repeat constructor; lia.
  - apply byte_rng in Hc. destruct (n <? 8) eqn:L8; [|destruct (n <? 16) eqn:L16].
    + apply Z.ltb_lt in L8. destruct Hb; subst; repeat constructor; lia.
    + apply Z.ltb_lt in L16. destruct Hb; subst; repeat constructor; lia.
    + destruct Hb; subst; repeat constructor; lia.
  - apply andb_true_iff in Hc as [Hc Hb3]. apply andb_true_iff in Hc as [Hr Hg].
    apply byte_rng in Hr, Hg, Hb3. destruct Hb; subst; repeat constructor; lia.
Qed.

Lemma itoa_list ps : Forall (fun p => 0 <= p <= 255) ps ->
  Forall param_ok (map itoa ps) /\ map dec_val (map itoa ps) = ps.
Proof.
  induction 1 as [|p ps Hp _ [IH1 IH2]]; [split; [constructor|reflexivity]|].
  destruct (itoa_ok p Hp) as [O1 O2]. split; [now constructor|]. cbn [map]. now rewrite O2, IH2.
Qed.

(* the string ToString builds is ESC [ p1 ; ... ; pn m with p1..pn = restore_params *)
Theorem to_string_is_restore_proof : forall a l, sgr_ok a = true -> colored (enc_state a l None) = true ->
  exists dss, state_to_string (enc_state a l None) = render_sgr dss /\
              Forall param_ok dss /\ map dec_val dss = restore_params a.
Proof.
  intros a l Hok Hcol. exists (map itoa (restore_params a)).
  pose proof Hok as Hok'. unfold sgr_ok in Hok'. apply andb_true_iff in Hok' as [Hfg Hbg].
  assert (R : Forall (fun p => 0 <= p <= 255) (restore_params a)).
  { unfold restore_params. apply Forall_app. split; [apply attr_params_rng|].
    apply Forall_app. split; apply colour_params_rng; auto. }
  destruct (itoa_list _ R) as [P1 P2]. split; [|split; assumption].
  unfold state_to_string. rewrite Hcol. cbn [negb].
  change (attr (enc_state a l None)) with (enc_attrs (s_at a)).
  change (fg (enc_state a l None)) with (enc_colour (s_fg a)).
  change (bg (enc_state a l None)) with (enc_colour (s_bg a)).
  change (aurl (enc_state a l None)) with (@None url). cbv beta iota zeta.
  pose proof (attrs_semi (s_at a)) as HA. cbv zeta in HA.
  rewrite <- ?app_assoc in HA.
  rewrite <- ?app_assoc.
  rewrite (colour_semi 30 (s_fg a) (or_introl eq_refl) Hfg), (colour_semi 40 (s_bg a) (or_intror eq_refl) Hbg).
  match goal with |- ESC :: 91 :: trim_suffix ?x _ ++ _ = _ =>
    replace x with (semi (map itoa (restore_params a))) end.
  - rewrite semi_join, trim_suffix_59; [reflexivity|].
    intro E. apply map_eq_nil in E. now apply restore_params_nonempty in E.
  - unfold restore_params. rewrite !map_app, !semi_app, <- HA, <- ?app_assoc. reflexivity.
Qed.

(* "ESC[m" discards the state (the state becomes nil); ToString's output, read by interpretCode from nil, is the
   state ToString was called on - colours and attributes exactly; the line background is not carried *)
Theorem to_string_read_back_proof : forall a l, sgr_ok a = true -> colored (enc_state a l None) = true ->
  interpret_code (state_to_string (enc_state a l None)) None = Ok (enc_state a (-1) None, false).
Proof.
  intros a l Hok Hcol. destruct (to_string_is_restore_proof a l Hok Hcol) as (dss & E & P & D).
  destruct (restore_from_reset_proof a sgr_reset Hok) as [W R].
  rewrite E. rewrite (sgr_eq_proof dss sgr_reset (-1) None None P); [|now rewrite D|right; repeat split; reflexivity].
  rewrite D. cbn [sgr_apply] in R. now rewrite R.
Qed.

Theorem pieces_are_the_stream_proof : forall pcs s,
  concat (piece_chars pcs s) = term_chars (concat pcs) s /\
  shown_chars (seq 0 (length pcs)) pcs s = term_chars (concat pcs) s.
Proof. intros pcs s. split; [apply piece_chars_concat_proof|apply shown_all_proof]. Qed.
