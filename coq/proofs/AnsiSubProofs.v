(* C11, second part of the SGR equality: omitted parameters and the ':' (sub-parameter) forms of the extended
   colours.  interpretCode = the reference reading [sgr_xapply] on the domain [sgr_xwf] (AnsiSpec.v). *)
From Fzf Require Import Prelude AnsiSpec AnsiModel AnsiProofs.
Open Scope Z_scope.

(* a sub-parameter as text: omitted, or a decimal number *)
Definition sub_ok (ds : str) : Prop := ds = [] \/ param_ok ds.
Definition no59 (s : str) : Prop := forall d, In d s -> d <> 59.

(* the numbers the loop of interpretCode sees in a ':' tail: omitted sub-parameters are passed over *)
Definition tail_nums (tl : list str) : list Z :=
  flat_map (fun ds => match ds with [] => [] | _ => [dec_val ds] end) tl.

Lemma sub_ok_no59 ds : sub_ok ds -> no59 ds.
Proof.
  intros [->|P] d Hin; [destruct Hin|]. destruct (param_ok_inv ds P) as (_ & _ & _ & Hs). now apply Hs.
Qed.

Lemma join58_cons2 (a b : str) (r : list str) : concat_map_sep 58 (a :: b :: r) = a ++ 58 :: concat_map_sep 58 (b :: r).
Proof. reflexivity. Qed.

Lemma join58_no59 : forall tl, Forall sub_ok tl -> no59 (concat_map_sep 58 tl).
Proof.
  induction tl as [|a r IH]; intros H d Hin; [destruct Hin|].
  inversion H as [|? ? Ha Hr]; subst.
  destruct r as [|b r].
  - cbn [concat_map_sep] in Hin. now apply (sub_ok_no59 a Ha).
  - rewrite join58_cons2 in Hin. apply in_app_or in Hin as [Hin|[<-|Hin]].
    + now apply (sub_ok_no59 a Ha).
    + lia.
    + now apply (IH Hr).
Qed.

Lemma no59_app a b : no59 a -> no59 b -> no59 (a ++ 58 :: b).
Proof. intros Ha Hb d Hin. apply in_app_or in Hin as [Hin|[<-|Hin]]; [now apply Ha|lia|now apply Hb]. Qed.

(* parseAnsiCode on "<number>:rest" when there is no ';' ahead *)
Lemma parse_colon ds rest : param_ok ds -> no59 rest -> parse_ansi_code (ds ++ 58 :: rest) = Ok (dec_val ds, rest).
Proof.
  intros P Hr. destruct (param_ok_inv ds P) as (Hn & Hd & Hv & Hs).
  unfold parse_ansi_code.
  rewrite (index_byte_none 59) by (apply no59_app; [intros d Hin; now apply Hs|exact Hr]).
  rewrite (index_byte_app 58) by (intros d Hin; apply Hs; exact Hin).
  assert (S1 : slice (ds ++ 58 :: rest) (S (0 + length ds)) (length (ds ++ 58 :: rest)) = Ok rest).
  { rewrite slice_ok by (rewrite app_length; cbn [length]; lia). f_equal.
    replace (skipn (S (0 + length ds)) (ds ++ 58 :: rest)) with rest
      by (change (ds ++ 58 :: rest) with (ds ++ [58] ++ rest); rewrite app_assoc, skipn_at; [reflexivity|rewrite app_length; cbn; lia]).
    apply firstn_all2. rewrite app_length. cbn [length]. lia. }
  assert (S2 : slice (ds ++ 58 :: rest) 0 (0 + length ds) = Ok ds).
  { rewrite slice_ok by (rewrite app_length; cbn [length]; lia). f_equal. cbn [skipn]. apply firstn_at. lia. }
  rewrite S1, S2. cbn [bind].
  destruct ds as [|d r]; [congruence|].
  rewrite atoi_ok; auto; try lia. rewrite <- dec_val_fold. lia.
Qed.

(* an omitted (sub-)parameter: parseAnsiCode answers -1 and the loop passes over it *)
Lemma parse_omitted sep rest : (sep = 59 \/ (sep = 58 /\ no59 rest)) -> parse_ansi_code (sep :: rest) = Ok (-1, rest).
Proof.
  intros H. unfold parse_ansi_code.
  assert (I : match index_byte 59 (sep :: rest) 0 with Some i => Some i | None => index_byte 58 (sep :: rest) 0 end = Some 0%nat).
  { destruct H as [->|(-> & Hr)]; [reflexivity|].
    rewrite (index_byte_none 59) by (intros d [<-|Hin]; [lia|now apply Hr]). reflexivity. }
  rewrite I.
  assert (S1 : slice (sep :: rest) 1 (length (sep :: rest)) = Ok rest).
  { rewrite slice_ok by (cbn [length]; lia). cbn [skipn length]. f_equal.
    apply firstn_all2. lia. }
  rewrite S1. reflexivity.
Qed.

(* the loop over a ':' tail (no ';' in it) *)
Lemma sgr_loop_tail : forall tl fuel st, Forall sub_ok tl ->
  (length (concat_map_sep 58 tl) < fuel)%nat ->
  sgr_loop fuel (concat_map_sep 58 tl) st = Ok (fold_left step_num (tail_nums tl) st).
Proof.
  induction tl as [|ds r IH]; intros fuel st Hok Hf.
  { destruct fuel; reflexivity. }
  inversion Hok as [|? ? P Pr]; subst.
  destruct fuel as [|fuel]; [lia|].
  destruct r as [|b r].
  - cbn [concat_map_sep tail_nums flat_map]. rewrite app_nil_r.
    destruct P as [->|P]; [reflexivity|].
    destruct (param_ok_inv ds P) as (Hn & _ & Hv & _).
    destruct ds as [|d0 ds']; [congruence|].
    cbn [sgr_loop]. rewrite parse_last by exact P. cbn [bind fold_left].
    replace (dec_val (d0 :: ds') =? -1) with false by (symmetry; apply Z.eqb_neq; lia).
    destruct fuel; reflexivity.
  - rewrite join58_cons2 in *.
    assert (N : no59 (concat_map_sep 58 (b :: r))) by (apply join58_no59; exact Pr).
    change (tail_nums (ds :: b :: r)) with ((match ds with [] => [] | _ => [dec_val ds] end) ++ tail_nums (b :: r)).
    destruct P as [->|P].
    + cbn [app sgr_loop]. rewrite parse_omitted by (right; auto). cbn [bind]. change (-1 =? -1) with true. cbv iota.
      apply IH; [exact Pr|]. cbn [app length] in Hf. lia.
    + destruct (param_ok_inv ds P) as (Hn & _ & Hv & _).
      destruct ds as [|d0 ds']; [congruence|].
      cbn [app sgr_loop]. change (d0 :: ds' ++ 58 :: concat_map_sep 58 (b :: r)) with ((d0 :: ds') ++ 58 :: concat_map_sep 58 (b :: r)).
      rewrite parse_colon by assumption. cbn [bind fold_left].
      replace (dec_val (d0 :: ds') =? -1) with false by (symmetry; apply Z.eqb_neq; lia).
      apply IH; [exact Pr|]. rewrite app_length in Hf. cbn [length] in Hf. lia.
Qed.

(* ';'-separated plain parameters, then ';' and something else *)
Lemma sgr_loop_join_then : forall dss (T : str) fuel st, dss <> [] -> Forall param_ok dss ->
  (length (concat_map_sep 59 dss ++ 59%Z :: T) < fuel)%nat ->
  exists fuel', (length T < fuel')%nat /\
    sgr_loop fuel (concat_map_sep 59 dss ++ 59 :: T) st = sgr_loop fuel' T (fold_left step_num (map dec_val dss) st).
Proof.
  induction dss as [|ds r IH]; intros T fuel st Hne Hok Hf; [congruence|].
  inversion Hok as [|? ? P Pr]; subst.
  destruct (param_ok_inv ds P) as (Hn & _ & Hv & _).
  destruct fuel as [|fuel]; [lia|].
  destruct ds as [|d0 ds']; [congruence|].
  destruct r as [|b r].
  - cbn [concat_map_sep map fold_left]. exists fuel. split.
    { rewrite app_length in Hf. cbn [length] in Hf. lia. }
    cbn [app sgr_loop]. change (d0 :: ds' ++ 59 :: T) with ((d0 :: ds') ++ 59 :: T).
    rewrite parse_sep by exact P. cbn [bind].
    replace (dec_val (d0 :: ds') =? -1) with false by (symmetry; apply Z.eqb_neq; lia). reflexivity.
  - rewrite join_cons2 in *. cbn [map fold_left].
    rewrite <- app_assoc in *. cbn [app] in Hf.
    cbn [app sgr_loop].
    change (d0 :: ds' ++ 59 :: concat_map_sep 59 (b :: r) ++ 59 :: T) with ((d0 :: ds') ++ 59 :: (concat_map_sep 59 (b :: r) ++ 59 :: T)).
    rewrite parse_sep by exact P. cbn [bind].
    replace (dec_val (d0 :: ds') =? -1) with false by (symmetry; apply Z.eqb_neq; lia).
    apply IH; [discriminate|exact Pr|]. cbn [length] in Hf. rewrite app_length in Hf. cbn [length] in Hf. lia.
Qed.

(* ---- the extended colour given by the tail ---- *)
Lemma xcol_wf_inv subs : xcol_wf subs = true ->
  exists p, (p = 38 \/ p = 48) /\
    ((exists n, subs = [Some p; Some 5; Some n] /\ 0 <= n <= 255) \/
     (exists r g b, (subs = [Some p; Some 2; Some r; Some g; Some b] \/ subs = [Some p; Some 2; None; Some r; Some g; Some b])
                    /\ 0 <= r <= 255 /\ 0 <= g <= 255 /\ 0 <= b <= 255)).
Proof.
  intro W.
  destruct subs as [|[p|] [|[m|] [|o3 [|o4 [|o5 [|o6 [|o7 subs]]]]]]]; try discriminate W.
  - (* three parts *)
    destruct o3 as [n|]; [|discriminate W]. cbn in W.
    apply andb_true_iff in W as [W Bn]. apply andb_true_iff in W as [Hp Hm].
    apply Z.eqb_eq in Hm. subst m. apply byte_val_rng in Bn.
    exists p. split; [apply orb_true_iff in Hp as [Hp|Hp]; apply Z.eqb_eq in Hp; auto|]. left. eauto.
  - destruct o3; destruct o4; discriminate W.
  - (* five parts *)
    destruct o3 as [r|]; [|destruct o4; destruct o5; discriminate W].
    destruct o4 as [g|]; [|discriminate W]. destruct o5 as [b|]; [|discriminate W]. cbn in W.
    apply andb_true_iff in W as [W Bb]. apply andb_true_iff in W as [W Bg]. apply andb_true_iff in W as [W Br].
    apply andb_true_iff in W as [Hp Hm]. apply Z.eqb_eq in Hm. subst m. apply byte_val_rng in Br, Bg, Bb.
    exists p. split; [apply orb_true_iff in Hp as [Hp|Hp]; apply Z.eqb_eq in Hp; auto|]. right. exists r, g, b. auto.
  - (* six parts *)
    destruct o3 as [cs|]; [destruct o4; destruct o5; destruct o6; discriminate W|].
    destruct o4 as [r|]; [|discriminate W]. destruct o5 as [g|]; [|discriminate W]. destruct o6 as [b|]; [|discriminate W].
    cbn in W.
    apply andb_true_iff in W as [W Bb]. apply andb_true_iff in W as [W Bg]. apply andb_true_iff in W as [W Br].
    apply andb_true_iff in W as [Hp Hm]. apply Z.eqb_eq in Hm. subst m. apply byte_val_rng in Br, Bg, Bb.
    exists p. split; [apply orb_true_iff in Hp as [Hp|Hp]; apply Z.eqb_eq in Hp; auto|]. right. exists r, g, b. auto.
  - destruct o3; destruct o4; destruct o5; destruct o6; discriminate W.
Qed.

Lemma tn_some ds v : sub_val ds = Some v -> (match ds with [] => [] | _ => [dec_val ds] end) = [v].
Proof. intro E. destruct ds; [discriminate|]. cbn in E. now inversion E. Qed.
Lemma tn_none ds : sub_val ds = None -> (match ds with [] => ([] : list Z) | _ => [dec_val ds] end) = [].
Proof. intro E. destruct ds; [reflexivity|discriminate]. Qed.

Lemma xcol_steps tl a pb n : xcol_wf (map sub_val tl) = true ->
  exists pb' n', fold_left step_num (tail_nums tl) (enc_i a 0 pb n) = enc_i (sgr_sub (map sub_val tl) a) 0 pb' (S n').
Proof.
  intros W. apply xcol_wf_inv in W as (p & Hp & [(v & E & Hv)|(r & g & b & E & Hr & Hg & Hb)]).
  - rewrite E.
    destruct tl as [|t1 [|t2 [|t3 [|t4 tl]]]]; try discriminate E. cbn [map] in E.
    injection E as E1 E2 E3.
    unfold tail_nums. cbn [flat_map]. rewrite (tn_some _ _ E1), (tn_some _ _ E2), (tn_some _ _ E3). cbn [app fold_left].
    unfold sgr_sub. change (5 =? 5) with true. cbv iota. unfold xcol_set.
    destruct Hp as [->| ->].
    + change (38 =? 38) with true. cbv iota. rewrite idx_fg by lia. eauto.
    + change (48 =? 38) with false. change (48 =? 48) with true. cbv iota. rewrite idx_bg by lia. eauto.
  - destruct E as [E|E]; rewrite E.
    + destruct tl as [|t1 [|t2 [|t3 [|t4 [|t5 [|t6 tl]]]]]]; try discriminate E. cbn [map] in E.
      injection E as E1 E2 E3 E4 E5.
      unfold tail_nums. cbn [flat_map].
      rewrite (tn_some _ _ E1), (tn_some _ _ E2), (tn_some _ _ E3), (tn_some _ _ E4), (tn_some _ _ E5). cbn [app fold_left].
      unfold sgr_sub. change (2 =? 2) with true. cbv iota. unfold xcol_set.
      destruct Hp as [->| ->].
      * change (38 =? 38) with true. cbv iota. rewrite rgb_fg by lia. eauto.
      * change (48 =? 38) with false. change (48 =? 48) with true. cbv iota. rewrite rgb_bg by lia. eauto.
    + destruct tl as [|t1 [|t2 [|t3 [|t4 [|t5 [|t6 [|t7 tl]]]]]]]; try discriminate E. cbn [map] in E.
      injection E as E1 E2 E3 E4 E5 E6.
      unfold tail_nums. cbn [flat_map].
      rewrite (tn_some _ _ E1), (tn_some _ _ E2), (tn_none _ E3), (tn_some _ _ E4), (tn_some _ _ E5), (tn_some _ _ E6). cbn [app fold_left].
      unfold sgr_sub. change (2 =? 2) with true. cbv iota. unfold xcol_set.
      destruct Hp as [->| ->].
      * change (38 =? 38) with true. cbv iota. rewrite rgb_fg by lia. eauto.
      * change (48 =? 38) with false. change (48 =? 48) with true. cbv iota. rewrite rgb_bg by lia. eauto.
Qed.

Lemma xcol_tail_nonempty tl : xcol_wf (map sub_val tl) = true -> (1 <= length (concat_map_sep 58 tl))%nat.
Proof.
  intro W. apply xcol_wf_inv in W as (p & _ & [(v & E & _)|(r & g & b & [E|E] & _)]);
    (destruct tl as [|t1 [|t2 tl]]; try discriminate E; rewrite join58_cons2, app_length; cbn [length]; lia).
Qed.

Lemma map_pnum_some ps : map pnum (map Some ps) = ps.
Proof. induction ps as [|p r IH]; [reflexivity|]. cbn [map pnum]. now rewrite IH. Qed.

(* ★ plain parameters of the documented domain followed by an extended colour written with ':' (38:5:n, 38:2:r:g:b,
   38:2::r:g:b; 48 likewise): interpretCode computes what a terminal does *)
Theorem sgr_sub_eq_proof : forall dss tl a l u prev,
  Forall param_ok dss -> sgr_wf (map dec_val dss) = true ->
  Forall sub_ok tl -> xcol_wf (map sub_val tl) = true ->
  (prev = Some (enc_state a l u) \/ (prev = None /\ a = sgr_reset /\ l = -1 /\ u = None)) ->
  interpret_code (render_sgr_x dss (Some tl)) prev
  = Ok (enc_state (sgr_xapply (mkX (map Some (map dec_val dss)) (Some (map sub_val tl))) a) l u, false).
Proof.
  intros dss tl a l u prev Hok Hwf Tok Twf Hprev.
  assert (St0 : match prev with None => mkA (-1) (-1) 0 (-1) None | Some p => p end = enc_state a l u).
  { destruct Hprev as [->|(-> & -> & -> & ->)]; reflexivity. }
  unfold interpret_code. rewrite St0. clear St0.
  unfold render_sgr_x.
  set (body := match dss with [] => [] | _ => concat_map_sep 59 dss ++ [59] end ++ concat_map_sep 58 tl).
  change (ESC :: 91 :: body ++ [109]) with ((ESC :: 91 :: body) ++ [109]).
  rewrite get_last. cbn [app get bind]. rewrite Z.eqb_refl. cbn [negb].
  change (91 =? 91) with true. cbn [negb]. change (109 =? 109) with true. cbn [negb bind].
  assert (Hb : (1 <= length body)%nat).
  { unfold body. rewrite app_length. pose proof (xcol_tail_nonempty tl Twf). lia. }
  change (ESC :: 91 :: body ++ [109]) with ((ESC :: 91 :: body) ++ [109]).
  rewrite app_length. cbn [length].
  replace (Nat.leb (S (S (length body)) + 1) 3) with false by (symmetry; apply Nat.leb_gt; lia).
  rewrite slice_ok by (rewrite app_length; cbn [length]; lia).
  replace (S (S (length body)) + 1 - 1 - 2)%nat with (length body) by lia.
  cbn [skipn app]. rewrite firstn_at by reflexivity. cbn [bind].
  change (mkI (fg (enc_state a l u)) (bg (enc_state a l u)) (attr (enc_state a l u)) 0 false 0) with (enc_i a 0 false 0).
  unfold sgr_xapply. cbn [x_ps x_last]. rewrite map_pnum_some, map_length.
  (* the plain part *)
  assert (Loop : exists pb n, sgr_loop (S (length body)) body (enc_i a 0 false 0)
                  = Ok (fold_left step_num (tail_nums tl) (enc_i (sgr_params (length dss) (map dec_val dss) a) 0 pb n))).
  { assert (HF : (length body < S (length body))%nat) by lia. revert HF. generalize (S (length body)) as F. intros F HF.
    destruct dss as [|d0 dss'].
    - unfold body in *. cbn [app] in *. rewrite sgr_loop_tail by assumption. cbn. eauto.
    - unfold body in *.
      replace ((concat_map_sep 59 (d0 :: dss') ++ [59]) ++ concat_map_sep 58 tl)
        with (concat_map_sep 59 (d0 :: dss') ++ 59 :: concat_map_sep 58 tl) in * by (rewrite <- app_assoc; reflexivity).
      destruct (sgr_loop_join_then (d0 :: dss') (concat_map_sep 58 tl) F (enc_i a 0 false 0))
        as (fuel' & Hf' & Eq); [discriminate|exact Hok|exact HF|].
      rewrite Eq. rewrite sgr_loop_tail by assumption.
      unfold sgr_wf in Hwf.
      destruct (steps_params (length (map dec_val (d0 :: dss'))) (map dec_val (d0 :: dss')) a false 0%nat Hwf (Nat.le_refl _)) as (pb' & Eq2).
      rewrite Eq2. rewrite map_length. eauto. }
  destruct Loop as (pb & n & Loop). rewrite Loop. cbn [bind].
  destruct (xcol_steps tl (sgr_params (length dss) (map dec_val dss) a) pb n Twf) as (pb' & n' & Eq3).
  rewrite Eq3. unfold enc_i. cbn [i_count i_256 i_fg i_bg i_attr Nat.eqb].
  change (0 <? 0) with false. cbv iota. reflexivity.
Qed.

(* ★ every parameter omitted (ESC[m, ESC[;m, ESC[;;m, ...): all of them have the default value 0: reset *)
Lemma sgr_loop_omitted : forall k fuel st, (k < fuel)%nat -> sgr_loop fuel (repeat 59 k) st = Ok st.
Proof.
  induction k as [|k IH]; intros fuel st Hf; [destruct fuel; reflexivity|].
  destruct fuel as [|fuel]; [lia|]. cbn [repeat sgr_loop].
  rewrite parse_omitted by (now left). cbn [bind]. change (-1 =? -1) with true. cbv iota. apply IH. lia.
Qed.

Lemma sgr_params_zeros : forall k fuel a, (1 <= k <= fuel)%nat -> sgr_params fuel (repeat 0 k) a = sgr_reset.
Proof.
  induction k as [|k IH]; intros fuel a H; [lia|].
  destruct fuel as [|fuel]; [lia|]. cbn [repeat sgr_params]. change ((0 =? 38) || (0 =? 48)) with false. cbv iota.
  change (sgr_one 0 a) with sgr_reset.
  destruct k as [|k]; [destruct fuel; reflexivity|]. apply IH. lia.
Qed.

Lemma concat_sep_omitted : forall k, concat_map_sep 59 (repeat [] (S k)) = repeat 59 k.
Proof.
  induction k as [|k IH]; [reflexivity|]. cbn [repeat] in *. rewrite join_cons2. cbn [app]. f_equal. exact IH.
Qed.

Theorem sgr_omitted_eq_proof : forall k a l u prev,
  (prev = Some (enc_state a l u) \/ (prev = None /\ a = sgr_reset /\ l = -1 /\ u = None)) ->
  interpret_code (render_sgr_x (repeat [] (S k)) None) prev
  = Ok (enc_state (sgr_xapply (mkX (repeat None (S k)) None) a) l u, false).
Proof.
  intros k a l u prev Hprev.
  assert (St0 : match prev with None => mkA (-1) (-1) 0 (-1) None | Some p => p end = enc_state a l u).
  { destruct Hprev as [->|(-> & -> & -> & ->)]; reflexivity. }
  assert (R : sgr_xapply (mkX (repeat None (S k)) None) a = sgr_reset).
  { unfold sgr_xapply. cbn [x_ps x_last].
    assert (M : map pnum (repeat None (S k)) = repeat 0 (S k)).
    { generalize (S k). induction n as [|n IHn]; [reflexivity|]. cbn [repeat map pnum]. now rewrite IHn. }
    rewrite M. unfold sgr_apply. cbn [repeat]. change (0 :: repeat 0 k) with (repeat 0 (S k)).
    rewrite repeat_length. apply sgr_params_zeros. lia. }
  rewrite R.
  unfold interpret_code. rewrite St0. clear St0.
  unfold render_sgr_x. rewrite concat_sep_omitted.
  set (body := repeat 59 k).
  change (ESC :: 91 :: body ++ [109]) with ((ESC :: 91 :: body) ++ [109]).
  rewrite get_last. cbn [app get bind]. rewrite Z.eqb_refl. cbn [negb].
  change (91 =? 91) with true. cbn [negb]. change (109 =? 109) with true. cbn [negb bind].
  change (ESC :: 91 :: body ++ [109]) with ((ESC :: 91 :: body) ++ [109]).
  rewrite app_length. cbn [length].
  destruct k as [|k].
  - reflexivity.
  - assert (Hb : length body = S k) by (unfold body; apply repeat_length).
    replace (Nat.leb (S (S (length body)) + 1) 3) with false by (symmetry; apply Nat.leb_gt; lia).
    rewrite slice_ok by (rewrite app_length; cbn [length]; lia).
    replace (S (S (length body)) + 1 - 1 - 2)%nat with (length body) by lia.
    cbn [skipn app]. rewrite firstn_at by reflexivity. cbn [bind].
    unfold body at 2. rewrite sgr_loop_omitted by lia. cbn [bind].
    reflexivity.
Qed.
