(* C04, configuration side: the model of options.go (CriteriaModel) installs exactly the criteria, scheme, sort and
   tac flags that the documented reading of the command line (CriteriaSpec.configured) asks for - for EVERY sequence of
   --scheme / --tiebreak / --sort / --no-sort / --tac / --no-tac options and every option value (valid or not). *)
From Fzf Require Import Prelude RankSpec CriteriaSpec CriteriaModel.
Open Scope Z_scope.

Definition mem (n : tbname) (l : list tbname) : bool := existsb (tbname_eqb n) l.

Lemma tbname_eqb_eq a b : tbname_eqb a b = true <-> a = b.
Proof. destruct a, b; cbn; split; intro H; try reflexivity; try discriminate. Qed.

Lemma mem_In n l : mem n l = true <-> In n l.
Proof.
  unfold mem. rewrite existsb_exists. split.
  - intros [x [Hin Heq]]. apply tbname_eqb_eq in Heq. now subst.
  - intro Hin. exists n. split; [exact Hin | now apply tbname_eqb_eq].
Qed.

Lemma mem_false n l : mem n l = false <-> ~ In n l.
Proof.
  split.
  - intros Hm Hin. apply mem_In in Hin. congruence.
  - intro Hn. destruct (mem n l) eqn:E; [|reflexivity]. apply mem_In in E. contradiction.
Qed.

Lemma nodupb_NoDup l : nodupb l = true <-> NoDup l.
Proof.
  induction l as [|x t IH]; cbn.
  - split; [constructor | reflexivity].
  - rewrite andb_true_iff, negb_true_iff, IH. fold (mem x t). rewrite mem_false. split.
    + intros [Hx Ht]. now constructor.
    + intro Hnd. inversion Hnd; subst. now split.
Qed.

Lemma index_only_last_iff l : index_only_last l = true <-> ~ In TIndex (removelast l).
Proof. unfold index_only_last. rewrite negb_true_iff. fold (mem TIndex (removelast l)). apply mem_false. Qed.

(* ---- the loop of parseTiebreak, forward reading ---- *)

(* what the Go loop accepts, given the set of names already seen *)
Fixpoint ok_from (seen : list tbname) (ns : list tbname) : bool :=
  match ns with
  | [] => true
  | n :: r => negb (mem n seen) && negb (mem TIndex seen) && ok_from (n :: seen) r
  end.

Lemma ok_from_iff : forall ns seen,
  ok_from seen ns = true <->
  (NoDup ns /\ (forall m, In m ns -> ~ In m seen) /\ ~ In TIndex (removelast ns) /\ (ns <> [] -> ~ In TIndex seen)).
Proof.
  induction ns as [|n r IH]; intro seen.
  - cbn. split; [|reflexivity]. intros _. repeat split.
    + constructor.
    + intros m [].
    + intros [].
    + intro Hne. now contradiction Hne.
  - cbn [ok_from]. rewrite !andb_true_iff, !negb_true_iff, !mem_false, IH. split.
    + intros [[Hn HI] [Hnd [Hdis [Hrl Hne]]]]. repeat split.
      * constructor; [|exact Hnd]. intro Hin. apply (Hdis n Hin). now left.
      * intros m [Hm|Hm]; [now subst|]. intro Hs. apply (Hdis m Hm). now right.
      * destruct r as [|n' r']; [intros []|].
        change (removelast (n :: n' :: r')) with (n :: removelast (n' :: r')).
        intros [Heq|Hin]; [|now apply Hrl].
        apply Hne; [discriminate|]. now left.
      * intros _. exact HI.
    + intros [Hnd [Hdis [Hrl Hne]]]. inversion Hnd as [|x l Hnr Hndr]; subst. repeat split.
      * apply Hdis. now left.
      * apply Hne. discriminate.
      * exact Hndr.
      * intros m Hm [Heq|Hs]; [subst; contradiction|]. apply (Hdis m); [now right|exact Hs].
      * destruct r as [|n' r']; [intros []|].
        change (removelast (n :: n' :: r')) with (n :: removelast (n' :: r')) in Hrl.
        intro Hin. apply Hrl. now right.
      * intros Hr [Heq|Hs].
        -- destruct r as [|n' r']; [now contradiction Hr|].
           change (removelast (n :: n' :: r')) with (n :: removelast (n' :: r')) in Hrl.
           apply Hrl. now left.
        -- apply Hne; [discriminate|exact Hs].
Qed.

Lemma ok_from_nil ns : ok_from [] ns = nodupb ns && index_only_last ns.
Proof.
  apply eq_true_iff_eq. rewrite andb_true_iff, ok_from_iff, nodupb_NoDup, index_only_last_iff. split.
  - intros [H1 [_ [H3 _]]]. now split.
  - intros [H1 H3]. repeat split; auto.
Qed.

Lemma tb_case_name w :
  tb_case w = match name_of w with
              | Some n => Ok (n, map crit_code (crit_of_name n))
              | None => Err BadInput
              end.
Proof.
  unfold tb_case, name_of.
  destruct (str_eqb w w_index); [reflexivity|].
  destruct (str_eqb w w_chunk); [reflexivity|].
  destruct (str_eqb w w_pathname); [reflexivity|].
  destruct (str_eqb w w_length); [reflexivity|].
  destruct (str_eqb w w_begin); [reflexivity|].
  destruct (str_eqb w w_end); reflexivity.
Qed.

Lemma flag_set m n f : flag_of m (set_flag n f) = tbname_eqb m n || flag_of m f.
Proof. destruct m, n; cbn; try reflexivity; now rewrite ?orb_false_r. Qed.

Lemma check_spec n f seen : (forall m, flag_of m f = mem m seen) ->
  check n f = if negb (mem n seen) && negb (mem TIndex seen) then Ok (set_flag n f) else Err BadInput.
Proof.
  intro Hinv. unfold check. rewrite (Hinv n). change (has_index f) with (flag_of TIndex f). rewrite (Hinv TIndex).
  destruct (mem n seen); [reflexivity|]. destruct (mem TIndex seen); reflexivity.
Qed.

Lemma tb_loop_bad : forall ws f criteria, all_some (map name_of ws) = None -> tb_loop ws f criteria = Err BadInput.
Proof.
  induction ws as [|w r IH]; intros f criteria Hall; [discriminate|].
  cbn [tb_loop]. rewrite tb_case_name. cbn [map all_some] in Hall.
  destruct (name_of w) as [n|]; [|reflexivity]. cbn [bind fst snd].
  destruct (all_some (map name_of r)) eqn:Er; [discriminate|].
  unfold check. destruct (flag_of n f); [reflexivity|]. destruct (has_index f); [reflexivity|].
  cbn [bind]. now apply IH.
Qed.

Lemma tb_loop_ok : forall ws ns seen f criteria,
  all_some (map name_of ws) = Some ns -> (forall m, flag_of m f = mem m seen) ->
  tb_loop ws f criteria =
    if ok_from seen ns then Ok (criteria ++ map crit_code (flat_map crit_of_name ns)) else Err BadInput.
Proof.
  induction ws as [|w r IH]; intros ns seen f criteria Hall Hinv.
  - cbn in Hall. inversion Hall; subst. cbn. now rewrite app_nil_r.
  - cbn [map all_some] in Hall. cbn [tb_loop]. rewrite tb_case_name.
    destruct (name_of w) as [n|]; [|discriminate].
    destruct (all_some (map name_of r)) as [ns'|] eqn:Er; [|discriminate].
    inversion Hall; subst ns. cbn [bind fst snd].
    rewrite (check_spec n f seen Hinv). cbn [ok_from].
    destruct (negb (mem n seen) && negb (mem TIndex seen)); [|reflexivity].
    cbn [bind andb].
    rewrite (IH ns' (n :: seen) (set_flag n f) _ eq_refl).
    + cbn [flat_map]. rewrite map_app, app_assoc. reflexivity.
    + intro m. rewrite flag_set, Hinv. reflexivity.
Qed.

Lemma no_flags_inv m : flag_of m no_flags = mem m [].
Proof. destruct m; reflexivity. Qed.

(* parseTiebreak accepts exactly the documented lists and returns the documented criteria *)
Theorem parse_tiebreak_spec : forall s,
  parse_tiebreak s = match tiebreak_criteria s with
                     | Some cs => Ok (map crit_code cs)
                     | None => Err BadInput
                     end.
Proof.
  intro s. unfold parse_tiebreak, tiebreak_criteria.
  destruct (all_some (map name_of (split_on 44 (map lower_ascii s)))) as [ns|] eqn:Hall.
  - rewrite (tb_loop_ok _ ns [] no_flags [0] Hall no_flags_inv).
    unfold names_ok. rewrite ok_from_nil.
    destruct (nodupb ns && index_only_last ns); [|reflexivity].
    cbn [bind andb app]. cbn [length]. rewrite map_length.
    set (k := length (flat_map crit_of_name ns)).
    destruct (k <=? 3)%nat eqn:Ek.
    + apply Nat.leb_le in Ek. replace (4 <? Z.of_nat (S k)) with false by (symmetry; apply Z.ltb_ge; lia). reflexivity.
    + apply Nat.leb_gt in Ek. replace (4 <? Z.of_nat (S k)) with true by (symmetry; apply Z.ltb_lt; lia). reflexivity.
  - rewrite (tb_loop_bad _ _ _ Hall). reflexivity.
Qed.

(* ---- parseScheme ---- *)

Definition scheme_name (s : scheme) : str :=
  match s with SDefault => w_default | SPath => w_path | SHistory => w_history end.

Theorem parse_scheme_spec : forall s,
  parse_scheme s = match scheme_of s with
                   | Some sc => Ok (scheme_name sc, map crit_code (scheme_criteria sc))
                   | None => Err BadInput
                   end.
Proof.
  intro s. unfold parse_scheme, scheme_of.
  destruct (str_eqb (map lower_ascii s) w_history) eqn:Eh.
  - apply str_eqb_eq in Eh. rewrite Eh. reflexivity.
  - destruct (str_eqb (map lower_ascii s) w_path) eqn:Ep.
    + apply str_eqb_eq in Ep. rewrite Ep. reflexivity.
    + destruct (str_eqb (map lower_ascii s) w_default) eqn:Ed.
      * apply str_eqb_eq in Ed. rewrite Ed. reflexivity.
      * reflexivity.
Qed.

(* ---- the pass over the options ---- *)

Definition pick {B} (o : option B) (d : B) : B := match o with Some b => b | None => d end.

Lemma last_some_cons {A B} (f : A -> option B) x t d :
  pick (last_some f (x :: t)) d = pick (last_some f t) (pick (f x) d).
Proof. cbn. destruct (last_some f t); [reflexivity|]. reflexivity. Qed.

Lemma parse_all_valid : forall os st, forallb opt_valid os = true ->
  exists st', parse_all os st = Ok st' /\
    o_scheme st' = pick (option_map scheme_name (last_some opt_scheme os)) (o_scheme st) /\
    o_criteria st' = pick (option_map (map crit_code) (last_some opt_criteria os)) (o_criteria st) /\
    (0 <? o_sort st') = pick (last_some opt_sort os) (0 <? o_sort st) /\
    o_tac st' = pick (last_some opt_tac os) (o_tac st).
Proof.
  induction os as [|o r IH]; intros st Hv.
  - exists st. cbn. repeat split; reflexivity.
  - cbn [forallb] in Hv. apply andb_true_iff in Hv as [Ho Hr].
    assert (Hstep : exists st1, apply_opt o st = Ok st1 /\
              o_scheme st1 = pick (option_map scheme_name (opt_scheme o)) (o_scheme st) /\
              o_criteria st1 = pick (option_map (map crit_code) (opt_criteria o)) (o_criteria st) /\
              (0 <? o_sort st1) = pick (opt_sort o) (0 <? o_sort st) /\
              o_tac st1 = pick (opt_tac o) (o_tac st)).
    { destruct o as [s|s|b|b]; cbn [apply_opt opt_valid opt_scheme opt_criteria opt_sort opt_tac] in *.
      - rewrite parse_scheme_spec. destruct (scheme_of s) as [sc|]; [|discriminate].
        eexists. split; [reflexivity|]. cbn. repeat split; reflexivity.
      - rewrite parse_tiebreak_spec. destruct (tiebreak_criteria s) as [cs|]; [|discriminate].
        eexists. split; [reflexivity|]. cbn. repeat split; reflexivity.
      - destruct b; eexists; (split; [reflexivity|]); cbn; repeat split; reflexivity.
      - eexists. split; [reflexivity|]. cbn. repeat split; reflexivity. }
    destruct Hstep as [st1 [Hap [H1 [H2 [H3 H4]]]]].
    destruct (IH st1 Hr) as [st' [Hpa [G1 [G2 [G3 G4]]]]].
    exists st'. cbn [parse_all]. rewrite Hap. cbn [bind]. split; [exact Hpa|].
    repeat split.
    + rewrite G1, H1. cbn [last_some]. destruct (last_some opt_scheme r); [reflexivity|]. reflexivity.
    + rewrite G2, H2. cbn [last_some]. destruct (last_some opt_criteria r); [reflexivity|]. reflexivity.
    + rewrite G3, H3. cbn [last_some]. destruct (last_some opt_sort r); [reflexivity|]. reflexivity.
    + rewrite G4, H4. cbn [last_some]. destruct (last_some opt_tac r); [reflexivity|]. reflexivity.
Qed.

Lemma parse_all_invalid : forall os st, forallb opt_valid os = false -> exists e, parse_all os st = Err e.
Proof.
  induction os as [|o r IH]; intros st Hv; [discriminate|].
  cbn [forallb] in Hv. cbn [parse_all].
  destruct (opt_valid o) eqn:Ho.
  - cbn [andb] in Hv. destruct (apply_opt o st) as [st1|e]; [|now exists e]. cbn [bind]. now apply IH.
  - exists BadInput. destruct o as [s|s|b|b]; cbn [apply_opt opt_valid] in *; try discriminate.
    + rewrite parse_scheme_spec. destruct (scheme_of s); [discriminate|reflexivity].
    + rewrite parse_tiebreak_spec. destruct (tiebreak_criteria s); [discriminate|reflexivity].
Qed.

(* a --scheme option also sets the criteria: when some scheme was given, some criteria were given *)
Lemma scheme_given_criteria_given : forall os s, last_some opt_scheme os = Some s ->
  exists c, last_some opt_criteria os = Some c.
Proof.
  induction os as [|o r IH]; intros s H; [discriminate|]. cbn [last_some] in *.
  destruct (last_some opt_scheme r) as [s'|] eqn:Er.
  - destruct (IH s' eq_refl) as [c Hc]. rewrite Hc. now exists c.
  - destruct (last_some opt_criteria r) as [c|]; [now exists c|].
    destruct o as [x|x|b|b]; cbn [opt_scheme opt_criteria] in *; try discriminate.
    rewrite H. cbn. eauto.
Qed.

(* criteria set by an option are never the empty list ("unknown"): score is always there *)
Lemma given_criteria_nonempty : forall os c, last_some opt_criteria os = Some c -> c <> [].
Proof.
  induction os as [|o r IH]; intros c H; [discriminate|]. cbn [last_some] in H.
  destruct (last_some opt_criteria r) as [c'|] eqn:Er.
  - inversion H; subst. now apply IH.
  - destruct o as [x|x|b|b]; cbn [opt_criteria] in H; try discriminate.
    + destruct (scheme_of x) as [[]|]; cbn in H; inversion H; discriminate.
    + unfold tiebreak_criteria in H.
      destruct (all_some (map name_of (split_on 44 (map lower_ascii x)))) as [ns|]; [|discriminate].
      destruct (names_ok ns); inversion H; discriminate.
Qed.

Lemma scheme_name_nonempty s : (length (scheme_name s) =? 0)%nat = false.
Proof. destruct s; reflexivity. Qed.

Definition installs (c : config) (st : opts) : Prop :=
  o_scheme st = scheme_name (cf_scheme c) /\
  o_criteria st = map crit_code (cf_criteria c) /\
  (0 <? o_sort st) = cf_sort c /\
  o_tac st = cf_tac c.

Ltac fin_flags H3 H4 :=
  repeat split; try assumption; try reflexivity;
  try (rewrite H3; try change (0 <? 1000) with true; destruct (last_some opt_sort _); reflexivity);
  try (rewrite H4; destruct (last_some opt_tac _); reflexivity).

Theorem configured_criteria_correct_proof : forall (walker : bool) (os : list copt),
  match configured walker os with
  | Some c => exists st, parse_options walker os = Ok st /\ installs c st
  | None => exists e, parse_options walker os = Err e
  end.
Proof.
  intros walker os. unfold configured.
  destruct (forallb opt_valid os) eqn:Hv.
  2:{ destruct (parse_all_invalid os default_options Hv) as [e He]. exists e. unfold parse_options. now rewrite He. }
  destruct (parse_all_valid os default_options Hv) as [st [Hpa [H1 [H2 [H3 H4]]]]].
  unfold parse_options. rewrite Hpa. cbn [bind].
  cbn [default_options o_scheme o_criteria o_sort o_tac] in H1, H2, H3, H4.
  destruct (last_some opt_scheme os) as [s|] eqn:Es.
  - (* a scheme was given *)
    cbn [option_map pick] in H1. rewrite H1, scheme_name_nonempty.
    destruct (scheme_given_criteria_given os s Es) as [c Hc]. rewrite Hc in *. cbn [option_map pick] in H2.
    exists st. split; [reflexivity|]. unfold installs. cbn [cf_scheme cf_criteria cf_sort cf_tac].
    fin_flags H3 H4.
  - cbn [option_map pick] in H1. rewrite H1. cbn [length Nat.eqb o_criteria o_sort o_tac].
    destruct (last_some opt_criteria os) as [c|] eqn:Ec.
    + (* criteria given by --tiebreak only *)
      cbn [option_map pick] in H2. rewrite H2.
      assert (Hne : c <> []) by (eapply given_criteria_nonempty; eassumption).
      destruct c as [|c0 cr]; [contradiction|]. cbn [map length Nat.eqb].
      eexists. split; [reflexivity|]. unfold installs. cbn [cf_scheme cf_criteria cf_sort cf_tac o_scheme o_criteria o_sort o_tac scheme_name].
      fin_flags H3 H4.
    + (* nothing given: the default of the chosen scheme *)
      cbn [option_map pick] in H2. rewrite H2. cbn [length Nat.eqb].
      destruct walker; cbn [o_scheme o_criteria o_sort o_tac].
      * change (parse_scheme w_path) with (@Ok (str * list Z) (w_path, [0; 5; 2])). cbn [bind snd].
        eexists. split; [reflexivity|]. unfold installs. cbn [cf_scheme cf_criteria cf_sort cf_tac o_scheme o_criteria o_sort o_tac scheme_name].
        fin_flags H3 H4.
      * change (parse_scheme w_default) with (@Ok (str * list Z) (w_default, [0; 2])). cbn [bind snd].
        eexists. split; [reflexivity|]. unfold installs. cbn [cf_scheme cf_criteria cf_sort cf_tac o_scheme o_criteria o_sort o_tac scheme_name].
        fin_flags H3 H4.
Qed.

(* The old "no tiebreak given" test is sound BECAUSE given criteria are never empty; with a default of [byScore]
   and the test `len == 1` the same pass loses --tiebreak=index (the defect class this file guards against). *)
Definition parse_options_len1 (walker : bool) (os : list copt) : res opts :=
  do st <- parse_all os (mkOpts [] [0] 1000 false);
  if (length (o_scheme st) =? 0)%nat then
    if (length (o_criteria st) =? 1)%nat then
      do r <- parse_scheme (if walker then w_path else w_default);
      Ok (mkOpts (if walker then w_path else w_default) (snd r) (o_sort st) (o_tac st))
    else Ok (mkOpts w_default (o_criteria st) (o_sort st) (o_tac st))
  else Ok st.

Theorem criteria_len1_refuted_proof :
  exists os c st, configured false os = Some c /\ parse_options_len1 false os = Ok st /\
                  o_criteria st <> map crit_code (cf_criteria c).
Proof.
  exists [OTiebreak w_index]. eexists. eexists. split; [reflexivity|]. split; [vm_compute; reflexivity|].
  vm_compute. discriminate.
Qed.
