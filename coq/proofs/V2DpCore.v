(* C03: the window DP ([win_rows], proofs/V2DpWin.v) computes the cells of the naive DP of the
   spec evaluated over the WHOLE text, on the columns of the window; and the best cell of the
   naive last row lies in the window.  Everything is stated for a window placed at offset [off]
   of [text], described by abstract facts (the ones phase 1/2 establish). *)
From Fzf Require Import Prelude AlgoSpec AlgoModel V2Facts V2DpWin V2DpNaive.
Open Scope Z_scope.

(* ---------- mstep ---------- *)

Lemma mstep_fb_irrel hd cd b fb fb' s2 :
  (1 < cd + 1 -> fb = fb') -> mstep hd cd b fb s2 = mstep hd cd b fb' s2.
Proof.
  intros H. unfold mstep. destruct (1 <? cd + 1) eqn:E; [|reflexivity].
  apply Z.ltb_lt in E. now rewrite (H E).
Qed.

Lemma mstep_bc_ge cd b fb :
  b <= fst (if 1 <? cd + 1 then
              if (bonusBoundary <=? b) && (fb <? b) then (b, 1)
              else (Z.max b (Z.max bonusConsecutive fb), cd + 1)
            else (b, cd + 1)).
Proof.
  destruct (1 <? cd + 1); [|cbn; lia].
  destruct ((bonusBoundary <=? b) && (fb <? b)); cbn [fst]; lia.
Qed.

Lemma mstep_first hd cd b fb : 0 <= hd -> 0 <= b ->
  mstep hd cd b fb (Some (0 + scoreGapStart)) = mstep hd cd b fb None.
Proof.
  intros Hh Hb. unfold mstep. pose proof (mstep_bc_ge cd b fb) as Hge.
  set (bc := if 1 <? cd + 1 then _ else _) in *.
  destruct (hd + scoreMatch + fst bc <? 0 + scoreGapStart) eqn:E; [|reflexivity].
  apply Z.ltb_lt in E. unfold scoreMatch, scoreGapStart in E. lia.
Qed.

Lemma mstep_fst_ge hd cd b fb s2 : 0 <= hd -> 0 <= b -> scoreMatch <= fst (mstep hd cd b fb s2).
Proof.
  intros Hh Hb. unfold mstep. pose proof (mstep_bc_ge cd b fb) as Hge.
  set (bc := if 1 <? cd + 1 then _ else _) in *.
  destruct s2 as [g|]; [destruct (hd + scoreMatch + fst bc <? g)|]; cbn [fst]; unfold scoreMatch; lia.
Qed.

Lemma mstep_snd hd cd b fb s2 :
  snd (mstep hd cd b fb s2) = 0 \/ snd (mstep hd cd b fb s2) = 1 \/ snd (mstep hd cd b fb s2) = cd + 1.
Proof.
  unfold mstep.
  assert (Hbc : forall bc : Z * Z, snd bc = 1 \/ snd bc = cd + 1 ->
     snd (match s2 with
          | Some g => if hd + scoreMatch + fst bc <? g then (hd + scoreMatch + b, 0) else (hd + scoreMatch + fst bc, snd bc)
          | None => (hd + scoreMatch + fst bc, snd bc) end) = 0 \/
     snd (match s2 with
          | Some g => if hd + scoreMatch + fst bc <? g then (hd + scoreMatch + b, 0) else (hd + scoreMatch + fst bc, snd bc)
          | None => (hd + scoreMatch + fst bc, snd bc) end) = 1 \/
     snd (match s2 with
          | Some g => if hd + scoreMatch + fst bc <? g then (hd + scoreMatch + b, 0) else (hd + scoreMatch + fst bc, snd bc)
          | None => (hd + scoreMatch + fst bc, snd bc) end) = cd + 1).
  { intros bc Hs. destruct s2 as [g|]; [destruct (_ <? g)|]; cbn [snd]; tauto. }
  apply Hbc. destruct (1 <? cd + 1); [|cbn; tauto].
  destruct ((bonusBoundary <=? b) && (fb <? b)); cbn [snd]; tauto.
Qed.

(* the window step written with mstep *)
Lemma wstep_mstep pchar T B col d hleft inGap :
  wstep pchar T B col d hleft inGap =
  let s2 := hleft + (if inGap then scoreGapExt else scoreGapStart) in
  let r := if pchar =? zn T col then
             mstep (w_h d) (w_c d) (zn B col) (zn B (Z.to_nat (Z.of_nat col - (w_c d + 1) + 1))) (Some s2)
           else (0, 0) in
  mkW (Z.max (Z.max (fst r) s2) 0) (snd r) (fst r <? s2).
Proof. reflexivity. Qed.

Definition cell_w (x : wcell) : cell := mkCell (Some (w_h x)) (w_c x) (w_g x).

Section Step.
Variable co : char_ops.
Variable sc : scheme.
Variables cs nm : bool.
Notation fold := (fold co cs nm).
Notation bonus_at := (bonus_at co sc).
Notation ncell := (ncell co sc cs nm).

Lemma ncell_none p c j full diag left :
  c_h left = None -> ((fold c =? p) = false \/ c_h diag = None) -> ncell p c j full diag left = none_cell.
Proof.
  intros Hl Hd. unfold ncell. rewrite Hl. cbn [opt_add].
  destruct (fold c =? p); [|reflexivity].
  destruct Hd as [Hd|Hd]; [discriminate|]. rewrite Hd. reflexivity.
Qed.

(* a column whose left neighbour is defined *)
Lemma ncell_some p c j full diag left T B col d wl :
  left = cell_w wl ->
  c_h diag = Some (w_h d) -> c_cons diag = w_c d ->
  (fold c =? p) = (p =? zn T col) ->
  bonus_at full j = zn B col ->
  (1 < w_c d + 1 -> bonus_at full (j + 1 - Z.to_nat (w_c d + 1))%nat = zn B (Z.to_nat (Z.of_nat col - (w_c d + 1) + 1))) ->
  ncell p c j full diag left = cell_w (wstep p T B col d (w_h wl) (w_g wl)).
Proof.
  intros Hl Hdh Hdc He Hb Hfb. rewrite wstep_mstep. unfold ncell. subst left.
  cbn [cell_w c_h c_gap opt_add]. rewrite He, Hdh, Hdc, Hb.
  set (s2 := w_h wl + (if w_g wl then scoreGapExt else scoreGapStart)).
  destruct (p =? zn T col).
  - rewrite (mstep_fb_irrel _ _ _ _ _ _ Hfb).
    destruct (mstep _ _ _ _ _) as [s1 cn]. reflexivity.
  - cbn [fst snd]. unfold cell_w. cbn [w_h w_c w_g]. f_equal. f_equal. lia.
Qed.

(* the first column of a row: left neighbour undefined in the naive DP, Hleft[0] = 0 in the code *)
Lemma ncell_first p c j full diag left T B col d :
  c_h left = None ->
  c_h diag = Some (w_h d) -> c_cons diag = w_c d -> 0 <= w_h d ->
  fold c = p -> p = zn T col ->
  bonus_at full j = zn B col -> 0 <= zn B col ->
  (1 < w_c d + 1 -> bonus_at full (j + 1 - Z.to_nat (w_c d + 1))%nat = zn B (Z.to_nat (Z.of_nat col - (w_c d + 1) + 1))) ->
  ncell p c j full diag left = cell_w (wstep p T B col d 0 false).
Proof.
  intros Hl Hdh Hdc Hh0 He HeT Hb Hb0 Hfb. rewrite wstep_mstep. unfold ncell.
  rewrite Hl. cbn [opt_add]. rewrite He, Z.eqb_refl, Hdh, Hdc, Hb.
  rewrite <- HeT, Z.eqb_refl. cbn zeta.
  rewrite (mstep_fb_irrel _ _ _ _ _ _ Hfb).
  rewrite mstep_first by assumption.
  pose proof (mstep_fst_ge (w_h d) (w_c d) (zn B col) (zn B (Z.to_nat (Z.of_nat col - (w_c d + 1) + 1))) None Hh0 Hb0) as Hge.
  destruct (mstep _ _ _ _ None) as [s1 cn]. cbn [fst snd] in *.
  unfold cell_w. cbn [w_h w_c w_g]. unfold scoreMatch, scoreGapStart in *.
  f_equal.
  - f_equal. lia.
  - symmetry. apply Z.ltb_ge. lia.
Qed.

End Step.

(* ---------- the window rows, pointwise ---------- *)

Lemma nth_map_in {A B} (f : A -> B) : forall l k d d', (k < length l)%nat ->
  nth k (map f l) d = f (nth k l d').
Proof.
  induction l as [|a l IH]; intros k d d' Hk; [cbn in Hk; lia|].
  destruct k; cbn [map nth]; [reflexivity|]. apply IH. cbn in Hk. lia.
Qed.

Lemma win_row_go_length pchar T B fprev prow : forall n col hl g,
  length (win_row_go pchar T B fprev prow n col hl g) = n.
Proof. induction n as [|n IH]; intros; cbn [win_row_go length]; [reflexivity|now rewrite IH]. Qed.

Lemma win_row_go_nth pchar T B fprev prow : forall n col hl g k, (k < n)%nat ->
  nth k (win_row_go pchar T B fprev prow n col hl g) wdflt =
  wstep pchar T B (col + k) (nth (col + k - 1 - fprev) prow wdflt)
        (match k with O => hl | S k' => w_h (nth k' (win_row_go pchar T B fprev prow n col hl g) wdflt) end)
        (match k with O => g | S k' => w_g (nth k' (win_row_go pchar T B fprev prow n col hl g) wdflt) end).
Proof.
  induction n as [|n IH]; intros col hl g k Hk; [lia|].
  cbn [win_row_go]. destruct k as [|k].
  - cbn [nth]. now rewrite Nat.add_0_r.
  - cbn [nth]. rewrite IH by lia. replace (S col + k)%nat with (col + S k)%nat by lia.
    destruct k; reflexivity.
Qed.

(* ---------- best cell of a row, by segments ---------- *)

Lemma nth_firstn_lt {A} (d : A) : forall a (l : list A) k, (k < a)%nat -> nth k (firstn a l) d = nth k l d.
Proof.
  induction a as [|a IH]; intros l k Hk; [lia|].
  destruct l as [|x l]; [reflexivity|]. destruct k; cbn [firstn nth]; [reflexivity|]. apply IH. lia.
Qed.

Lemma nth_skipn_add {A} (d : A) : forall a (l : list A) k, nth k (skipn a l) d = nth (a + k) l d.
Proof.
  induction a as [|a IH]; intros l k; [reflexivity|].
  destruct l as [|x l]; [cbn; now destruct k|]. cbn [skipn Nat.add nth]. apply IH.
Qed.

Lemma last_zn : forall (l : list Z), l <> [] -> last l 0 = zn l (length l - 1).
Proof.
  induction l as [|a l IH]; intros H; [congruence|].
  destruct l as [|b l]; [reflexivity|].
  change (last (a :: b :: l) 0) with (last (b :: l) 0). rewrite IH by discriminate.
  unfold zn. cbn [length]. replace (S (S (length l)) - 1)%nat with (S (S (length l) - 1)) by lia. reflexivity.
Qed.

Lemma best_cell_app fwd : forall l1 l2 j best,
  best_cell fwd (l1 ++ l2) j best = best_cell fwd l2 (j + length l1) (best_cell fwd l1 j best).
Proof.
  induction l1 as [|c l1 IH]; intros l2 j best.
  - cbn. now rewrite Nat.add_0_r.
  - cbn [app best_cell length]. rewrite IH. f_equal. lia.
Qed.

Lemma best_cell_none fwd : forall l j best,
  (forall k, (k < length l)%nat -> c_h (nth k l none_cell) = None) -> best_cell fwd l j best = best.
Proof.
  induction l as [|c l IH]; intros j best H; [reflexivity|].
  cbn [best_cell]. pose proof (H O ltac:(cbn; lia)) as H0. cbn [nth] in H0. rewrite H0.
  apply IH. intros k Hk. apply (H (S k)). cbn. lia.
Qed.

Lemma best_cell_post fwd : forall l j bh bp,
  (forall k, (k < length l)%nat -> exists h, c_h (nth k l none_cell) = Some h /\ h < bh) ->
  best_cell fwd l j (Some (bh, bp)) = Some (bh, bp).
Proof.
  induction l as [|c l IH]; intros j bh bp H; [reflexivity|].
  cbn [best_cell]. destruct (H O ltac:(cbn; lia)) as (h & H0 & Hlt). cbn [nth] in H0. rewrite H0.
  replace (if fwd then bh <? h else bh <=? h) with false.
  - apply IH. intros k Hk. apply (H (S k)). cbn. lia.
  - symmetry. destruct fwd; [apply Z.ltb_ge|apply Z.leb_gt]; lia.
Qed.

(* the running maximum of the code (from maxScore, maxPos) against the naive best cell *)
Definition brel (off : nat) (best : option (Z * nat)) (ms : Z) (mp : nat) : Prop :=
  ms = match best with Some (bh, _) => bh | None => 0 end /\
  (0 < ms -> best = Some (ms, S (off + mp))).

Lemma best_cell_win fwd off : forall l wl col best ms mp,
  length l = length wl ->
  (forall k, (k < length l)%nat ->
     c_h (nth k l none_cell) = Some (w_h (nth k wl wdflt)) /\ 0 <= w_h (nth k wl wdflt)) ->
  brel off best ms mp ->
  brel off (best_cell fwd l (off + col) best) (fst (win_best fwd wl col ms mp)) (snd (win_best fwd wl col ms mp)) /\
  ms <= fst (win_best fwd wl col ms mp) /\
  (forall k, (k < length wl)%nat -> w_h (nth k wl wdflt) <= fst (win_best fwd wl col ms mp)).
Proof.
  induction l as [|c l IH]; intros wl col best ms mp Hlen H Hrel.
  - destruct wl; [|discriminate]. cbn. split; [exact Hrel|]. split; [lia|]. intros k Hk. lia.
  - destruct wl as [|w wl]; [discriminate|].
    cbn [best_cell win_best].
    destruct (H O ltac:(cbn; lia)) as (H0 & H0n). cbn [nth] in H0, H0n. rewrite H0.
    set (better := if fwd then ms <? w_h w else ms <=? w_h w).
    assert (Hrel' : brel off
      (match best with
       | Some (bh, _) => if (if fwd then bh <? w_h w else bh <=? w_h w) then Some (w_h w, S (off + col)) else best
       | None => Some (w_h w, S (off + col))
       end) (if better then w_h w else ms) (if better then col else mp)).
    { destruct Hrel as [R1 R2]. unfold brel, better.
      destruct best as [[bh bp]|].
      - subst ms. destruct fwd.
        + destruct (bh <? w_h w) eqn:E; [split; [reflexivity|intros _; reflexivity]|split; [reflexivity|exact R2]].
        + destruct (bh <=? w_h w) eqn:E; [split; [reflexivity|intros _; reflexivity]|split; [reflexivity|exact R2]].
      - subst ms. destruct fwd.
        + destruct (0 <? w_h w) eqn:E; [split; [reflexivity|intros _; reflexivity]|].
          apply Z.ltb_ge in E. split; [lia|intros; lia].
        + destruct (0 <=? w_h w) eqn:E; [split; [reflexivity|intros _; reflexivity]|].
          apply Z.leb_gt in E. lia. }
    assert (Hlen' : length l = length wl) by (cbn in Hlen; lia).
    assert (H' : forall k, (k < length l)%nat ->
       c_h (nth k l none_cell) = Some (w_h (nth k wl wdflt)) /\ 0 <= w_h (nth k wl wdflt)).
    { intros k Hk. apply (H (S k)). cbn. lia. }
    replace (S (off + col)) with (off + S col)%nat in Hrel' |- * by lia.
    destruct (IH wl (S col) _ _ _ Hlen' H' Hrel') as (I1 & I2 & I3).
    replace (off + S col)%nat with (S (off + col)) in * by lia.
    split; [exact I1|].
    assert (Hms : ms <= (if better then w_h w else ms) /\ w_h w <= (if better then w_h w else ms)).
    { unfold better. destruct fwd.
      - destruct (ms <? w_h w) eqn:E; [apply Z.ltb_lt in E|apply Z.ltb_ge in E]; lia.
      - destruct (ms <=? w_h w) eqn:E; [apply Z.leb_le in E|apply Z.leb_gt in E]; lia. }
    split; [lia|].
    intros [|k] Hk; cbn [nth]; [lia|]. apply I3. cbn in Hk. lia.
Qed.

Section Core.
Variable co : char_ops.
Variable sc : scheme.
Variables cs nm : bool.
Notation fold := (fold co cs nm).
Notation bonus_at := (bonus_at co sc).

Variable text : list Z.        (* the whole line *)
Variable off : nat.            (* the window starts at text[off] *)
Variables T B H0 C0 : list Z.  (* arrays of phase 2 over the window *)
Variable F : list nat.
Variable pat : list Z.
Variable lastIdx : nat.

Notation M := (length pat).
Notation N := (N co sc cs nm text pat).

Fixpoint wrow (i : nat) : list wcell :=
  match i with
  | O => win_row0 H0 C0 (nn F 0) lastIdx
  | S i' => win_row (zn pat i) T B (nn F i') (wrow i') (nn F i) lastIdx
  end.

(* cell of row i at WINDOW column j *)
Definition W (i j : nat) : wcell := nth (j - nn F i) (wrow i) wdflt.

Lemma wrow_length i : length (wrow i) = (lastIdx + 1 - nn F i)%nat.
Proof.
  destruct i; cbn [wrow].
  - unfold win_row0. now rewrite map_length, seq_length.
  - unfold win_row. apply win_row_go_length.
Qed.

Lemma W_0 j : (nn F 0 <= j <= lastIdx)%nat -> W 0 j = mkW (zn H0 j) (zn C0 j) false.
Proof.
  intros Hj. unfold W. cbn [wrow]. unfold win_row0.
  rewrite (nth_map_in _ _ _ _ O) by (rewrite seq_length; lia).
  rewrite seq_nth by lia. f_equal; f_equal; lia.
Qed.

Lemma W_S i j : (nn F (S i) <= j <= lastIdx)%nat ->
  W (S i) j = wstep (zn pat (S i)) T B j (W i (j - 1))
                    (if Nat.eqb j (nn F (S i)) then 0 else w_h (W (S i) (j - 1)))
                    (if Nat.eqb j (nn F (S i)) then false else w_g (W (S i) (j - 1))).
Proof.
  intros Hj. unfold W at 1. cbn [wrow]. unfold win_row.
  rewrite win_row_go_nth by lia.
  replace (nn F (S i) + (j - nn F (S i)))%nat with j by lia.
  fold (W i (j - 1)). replace (j - 1 - nn F i)%nat with (j - 1 - nn F i)%nat by lia.
  destruct (Nat.eqb j (nn F (S i))) eqn:E.
  - apply Nat.eqb_eq in E. replace (j - nn F (S i))%nat with O by lia. reflexivity.
  - apply Nat.eqb_neq in E. destruct (j - nn F (S i))%nat as [|k] eqn:Ek; [lia|].
    unfold W. cbn [wrow]. unfold win_row.
    replace (j - 1 - nn F (S i))%nat with k by lia. reflexivity.
Qed.

(* ---------- hypotheses: what phases 1 and 2 establish ---------- *)

Hypothesis Hsc : 0 <= s_bw sc /\ 0 <= s_bd sc.
Hypothesis HM : (1 <= M)%nat.
Hypothesis Hoff : (off + length T <= length text)%nat.
Hypothesis Htext : forall j, (j < length T)%nat -> fold (zn text (off + j)) = zn T j.
Hypothesis Hpre : forall c, (c < off)%nat -> fold (zn text c) <> zn pat 0.
Hypothesis HF_hit : forall i, (i < M)%nat -> zn T (nn F i) = zn pat i.
Hypothesis HF_inc : forall i, (S i < M)%nat -> (nn F i < nn F (S i))%nat.
Hypothesis HF_first : forall i j, (i < M)%nat ->
  ((match i with O => O | S k => S (nn F k) end) <= j < nn F i)%nat -> zn T j <> zn pat i.
Hypothesis Hlast : (nn F (M - 1) <= lastIdx < length T)%nat.
Hypothesis HB : forall j, (nn F 0 <= j <= lastIdx)%nat -> zn B j = bonus_at text (off + j).
Hypothesis HC0 : forall j, (j <= lastIdx)%nat -> zn C0 j = if zn T j =? zn pat 0 then 1 else 0.
Hypothesis HH0m : forall j, (j <= lastIdx)%nat -> zn T j = zn pat 0 -> zn H0 j = scoreMatch + 2 * zn B j.
Hypothesis HH0g : forall j, (j <= lastIdx)%nat -> zn T j <> zn pat 0 ->
  zn H0 j = Z.max ((match j with O => 0 | S k => zn H0 k end) +
                   (if (match j with O => false | S k => negb (zn T k =? zn pat 0) end)
                    then scoreGapExt else scoreGapStart)) 0.

Lemma bonus_for_nonneg a b : 0 <= bonus_for sc a b.
Proof.
  unfold bonus_for, bonusBoundary, bonusCamel, bonusNonWord.
  repeat match goal with |- context [if ?c then _ else _] => destruct c end; lia.
Qed.

Lemma bonus_at_nonneg l j : 0 <= bonus_at l j.
Proof. unfold AlgoSpec.bonus_at. destruct (nth_error l j); [apply bonus_for_nonneg|lia]. Qed.

Lemma F_mono : forall k i, (i <= k)%nat -> (k < M)%nat -> (nn F i <= nn F k)%nat.
Proof.
  induction k as [|k IH]; intros i Hi Hk.
  - replace i with O by lia. lia.
  - destruct (Nat.eq_dec i (S k)) as [->|Hne]; [lia|].
    specialize (IH i ltac:(lia) ltac:(lia)). specialize (HF_inc k Hk). lia.
Qed.

Lemma F_le_last i : (i < M)%nat -> (nn F i <= lastIdx)%nat.
Proof. intros Hi. pose proof (F_mono (M - 1) i ltac:(lia) ltac:(lia)). lia. Qed.

Lemma B_nonneg j : (nn F 0 <= j <= lastIdx)%nat -> 0 <= zn B j.
Proof. intros Hj. rewrite HB by exact Hj. apply bonus_at_nonneg. Qed.

(* ---------- the invariant ---------- *)

Definition cell_ok (i j : nat) : Prop :=
  c_h (N i (off + j)) = Some (w_h (W i j)) /\ c_cons (N i (off + j)) = w_c (W i j) /\
  0 <= w_h (W i j) /\ 0 <= w_c (W i j) /\
  w_c (W i j) <= Z.of_nat j - Z.of_nat (nn F 0) + 1 /\ w_c (W i j) <= Z.of_nat i + 1.

Definition Inv (i : nat) : Prop :=
  (forall c, (c < off + nn F i)%nat -> c_h (N i c) = None) /\
  (forall j, (nn F i <= j <= lastIdx)%nat -> cell_ok i j).

Lemma col_in_text j : (j <= lastIdx)%nat -> (off + j < length text)%nat.
Proof. lia. Qed.

(* row 0 *)
Lemma row0_nomatch_before c : (c < off + nn F 0)%nat -> (fold (zn text c) =? zn pat 0) = false.
Proof.
  intros Hc. apply Z.eqb_neq. destruct (Nat.lt_ge_cases c off) as [Hlt|Hge].
  - apply Hpre. exact Hlt.
  - replace c with (off + (c - off))%nat by lia.
    pose proof (F_le_last 0 ltac:(lia)) as HF0.
    rewrite Htext by lia. apply (HF_first 0); lia.
Qed.

Lemma row0_gap c : (c < length text)%nat -> c_gap (N 0 c) = negb (fold (zn text c) =? zn pat 0).
Proof.
  intros Hc. rewrite N_0 by exact Hc. unfold ncell0.
  destruct (fold (zn text c) =? zn pat 0); reflexivity.
Qed.

Lemma inv_0 : Inv 0.
Proof.
  pose proof (F_le_last 0 ltac:(lia)) as HF0.
  assert (HA : forall c, (c < off + nn F 0)%nat -> c_h (N 0 c) = None).
  { induction c as [|c IH]; intros Hc; rewrite N_0 by lia; unfold ncell0;
      rewrite row0_nomatch_before by exact Hc; cbn [c_h].
    - reflexivity.
    - rewrite IH by lia. reflexivity. }
  split; [exact HA|].
  assert (HBk : forall k, (nn F 0 + k <= lastIdx)%nat -> cell_ok 0 (nn F 0 + k)).
  { induction k as [|k IH]; intros Hk.
    - (* the first column is a match *)
      rewrite Nat.add_0_r. unfold cell_ok. rewrite W_0 by lia. cbn [w_h w_c].
      rewrite N_0 by lia. unfold ncell0. rewrite Htext by lia.
      rewrite (HF_hit 0) by lia. rewrite Z.eqb_refl. cbn [c_h c_cons].
      rewrite HH0m by (try apply HF_hit; lia). rewrite HC0 by lia.
      rewrite (HF_hit 0) by lia. rewrite Z.eqb_refl.
      rewrite <- HB by lia. pose proof (B_nonneg (nn F 0) ltac:(lia)). unfold scoreMatch. 
      repeat split; try lia.
    - set (j := (nn F 0 + S k)%nat) in *.
      assert (Hj' : (nn F 0 + k)%nat = (j - 1)%nat) by lia.
      assert (Hjge : (nn F 0 < j)%nat) by lia.
      specialize (IH ltac:(lia)). rewrite Hj' in IH. clearbody j.
      destruct j as [|j0]; [lia|]. replace (S j0 - 1)%nat with j0 in * by lia.
      set (j := S j0) in *.
      destruct IH as (IHh & _ & IHh0 & _).
      rewrite W_0 in IHh, IHh0 by lia. cbn [w_h] in IHh, IHh0.
      unfold cell_ok. rewrite W_0 by lia. cbn [w_h w_c].
      rewrite N_0 by lia. unfold ncell0. rewrite Htext by lia.
      rewrite HC0 by lia.
      destruct (zn T j =? zn pat 0) eqn:E.
      + apply Z.eqb_eq in E. cbn [c_h c_cons]. rewrite HH0m by (try exact E; lia).
        rewrite <- HB by lia. pose proof (B_nonneg j ltac:(lia)). unfold scoreMatch.
        repeat split; try lia.
      + apply Z.eqb_neq in E. cbn [c_h c_cons].
        replace (off + j)%nat with (S (off + j0))%nat by lia.
        rewrite IHh. rewrite row0_gap by lia. rewrite Htext by lia.
        rewrite (HH0g j) by (try exact E; lia). subst j.
        repeat split; try lia. }
  intros j Hj. replace j with (nn F 0 + (j - nn F 0))%nat by lia. apply HBk. lia.
Qed.

(* rows 1 .. M-1 *)
Lemma wstep_h_nonneg pchar col d hl g : 0 <= w_h (wstep pchar T B col d hl g).
Proof. unfold wstep. cbn [w_h]. lia. Qed.

Lemma wstep_c_cases pchar col d hl g :
  w_c (wstep pchar T B col d hl g) = 0 \/ w_c (wstep pchar T B col d hl g) = 1 \/
  w_c (wstep pchar T B col d hl g) = w_c d + 1.
Proof.
  rewrite wstep_mstep. cbn zeta. cbn [w_c]. destruct (pchar =? zn T col); [apply mstep_snd|cbn; tauto].
Qed.

Lemma diag_facts i j : (S i < M)%nat -> Inv i -> (nn F (S i) <= j <= lastIdx)%nat ->
  let d := W i (j - 1) in
  c_h (N i (off + (j - 1))) = Some (w_h d) /\ c_cons (N i (off + (j - 1))) = w_c d /\
  0 <= w_h d /\ 0 <= w_c d /\ w_c d <= Z.of_nat j - Z.of_nat (nn F 0) /\ w_c d <= Z.of_nat i + 1 /\
  bonus_at text (off + j) = zn B j /\ 0 <= zn B j /\
  (1 < w_c d + 1 -> bonus_at text (off + j + 1 - Z.to_nat (w_c d + 1)) =
                    zn B (Z.to_nat (Z.of_nat j - (w_c d + 1) + 1))).
Proof.
  intros Hi [IA IB] Hj d.
  pose proof (HF_inc i Hi) as Hinc.
  pose proof (F_mono i 0 ltac:(lia) ltac:(lia)) as HF0i.
  destruct (IB (j - 1)%nat ltac:(lia)) as (D1 & D2 & D3 & D4 & D5 & D6). fold d in D1, D2, D3, D4, D5, D6.
  repeat split; try assumption; try lia.
  - symmetry. apply HB. lia.
  - apply B_nonneg. lia.
  - intros Hc. rewrite HB by lia. f_equal. lia.
Qed.

Lemma none_before_S i : (S i < M)%nat -> Inv i ->
  forall c, (c < off + nn F (S i))%nat -> c_h (N (S i) c) = None.
Proof.
  intros Hi HI. pose proof HI as [IA IB].
  pose proof (HF_inc i Hi) as Hinc.
  pose proof (F_le_last (S i) Hi) as HFl.
  induction c as [|c IH]; intros Hc; rewrite N_S by lia.
  - rewrite ncell_none; [reflexivity|reflexivity|right; reflexivity].
  - rewrite ncell_none; [reflexivity|apply IH; lia|].
    destruct (Nat.lt_ge_cases c (off + nn F i)) as [Hlt|Hge].
    + right. apply IA. exact Hlt.
    + left. apply Z.eqb_neq. replace (S c) with (off + (S c - off))%nat by lia.
      rewrite Htext by lia. apply (HF_first (S i)); lia.
Qed.

(* rows i >= 1: the naive cell IS the window cell, gap flag included *)
Lemma cells_eq_S i : (S i < M)%nat -> Inv i ->
  forall j, (nn F (S i) <= j <= lastIdx)%nat -> N (S i) (off + j) = cell_w (W (S i) j).
Proof.
  intros Hi HI.
  pose proof (none_before_S i Hi HI) as HA.
  pose proof (HF_inc i Hi) as Hinc.
  pose proof (F_le_last (S i) Hi) as HFl.
  assert (HE : forall k, (nn F (S i) + k <= lastIdx)%nat ->
            N (S i) (off + (nn F (S i) + k)) = cell_w (W (S i) (nn F (S i) + k))).
  { induction k as [|k IH]; intros Hk.
    - rewrite Nat.add_0_r.
      destruct (diag_facts i (nn F (S i)) Hi HI ltac:(lia)) as (D1 & D2 & D3 & D4 & D5 & D6 & D7 & D8 & D9).
      rewrite W_S by lia. rewrite Nat.eqb_refl.
      rewrite N_S_pos by lia.
      replace (off + nn F (S i) - 1)%nat with (off + (nn F (S i) - 1))%nat by lia.
      apply ncell_first; try assumption.
      + apply HA. lia.
      + rewrite Htext by lia. apply HF_hit. exact Hi.
      + symmetry. apply HF_hit. exact Hi.
    - set (j := (nn F (S i) + S k)%nat) in *.
      specialize (IH ltac:(lia)). replace (nn F (S i) + k)%nat with (j - 1)%nat in IH by lia.
      destruct (diag_facts i j Hi HI ltac:(lia)) as (D1 & D2 & D3 & D4 & D5 & D6 & D7 & D8 & D9).
      rewrite W_S by lia. replace (Nat.eqb j (nn F (S i))) with false by (symmetry; apply Nat.eqb_neq; lia).
      rewrite N_S_pos by lia.
      replace (off + j - 1)%nat with (off + (j - 1))%nat by lia.
      apply ncell_some; try assumption.
      rewrite Htext by lia. apply Z.eqb_sym. }
  intros j Hj.
  specialize (HE (j - nn F (S i))%nat ltac:(lia)).
  replace (nn F (S i) + (j - nn F (S i)))%nat with j in HE by lia. exact HE.
Qed.

Lemma inv_S i : (S i < M)%nat -> Inv i -> Inv (S i).
Proof.
  intros Hi HI.
  split; [exact (none_before_S i Hi HI)|].
  intros j Hj.
  pose proof (cells_eq_S i Hi HI j Hj) as HE.
  destruct (diag_facts i j Hi HI Hj) as (D1 & D2 & D3 & D4 & D5 & D6 & D7 & D8 & D9).
  unfold cell_ok. rewrite HE. cbn [cell_w c_h c_cons].
  rewrite W_S by exact Hj.
  pose proof (wstep_h_nonneg (zn pat (S i)) j (W i (j - 1))
                (if Nat.eqb j (nn F (S i)) then 0 else w_h (W (S i) (j - 1)))
                (if Nat.eqb j (nn F (S i)) then false else w_g (W (S i) (j - 1)))) as Hh.
  pose proof (wstep_c_cases (zn pat (S i)) j (W i (j - 1))
                (if Nat.eqb j (nn F (S i)) then 0 else w_h (W (S i) (j - 1)))
                (if Nat.eqb j (nn F (S i)) then false else w_g (W (S i) (j - 1)))) as Hc.
  pose proof (F_mono i 0 ltac:(lia) ltac:(lia)) as HF0i.
  pose proof (HF_inc i Hi) as Hinc.
  repeat split; try lia.
Qed.

Lemma inv_all : forall i, (i < M)%nat -> Inv i.
Proof.
  induction i as [|i IH]; intros Hi; [apply inv_0|]. apply inv_S; [exact Hi|]. apply IH. lia.
Qed.

(* ---------- the last row: the best cell lies in the window ---------- *)

Hypothesis HM2 : (2 <= M)%nat.
Hypothesis Hpost : forall c, (off + lastIdx < c < length text)%nat -> fold (zn text c) <> last pat 0.

(* the first cell of a row i >= 1 is a match on a defined diagonal: its score is at least 16 *)
Lemma first_cell_ge i : (S i < M)%nat -> scoreMatch <= w_h (W (S i) (nn F (S i))).
Proof.
  intros Hi. pose proof (inv_all i ltac:(lia)) as HI.
  pose proof (F_le_last (S i) Hi) as HFl.
  destruct (diag_facts i (nn F (S i)) Hi HI ltac:(lia)) as (D1 & D2 & D3 & D4 & D5 & D6 & D7 & D8 & D9).
  rewrite W_S by lia. rewrite Nat.eqb_refl. rewrite wstep_mstep. cbn zeta. cbn [w_h].
  rewrite (HF_hit (S i)) by exact Hi. rewrite Z.eqb_refl.
  pose proof (mstep_fst_ge (w_h (W i (nn F (S i) - 1))) (w_c (W i (nn F (S i) - 1))) (zn B (nn F (S i)))
     (zn B (Z.to_nat (Z.of_nat (nn F (S i)) - (w_c (W i (nn F (S i) - 1)) + 1) + 1)))
     (Some (0 + scoreGapStart)) D3 D8) as Hge.
  lia.
Qed.

(* cells of the last row after the window: defined, and strictly below max(h(lastIdx) - 1, 0) + 1 *)
Lemma post_cells i : S i = (M - 1)%nat ->
  forall k, (off + lastIdx + 1 + k < length text)%nat ->
  exists h, c_h (N (S i) (off + lastIdx + 1 + k)) = Some h /\ 0 <= h /\
            h <= Z.max (w_h (W (S i) lastIdx) - 1) 0.
Proof.
  intros Hi.
  assert (HiM : (S i < M)%nat) by lia.
  pose proof (inv_all (S i) HiM) as [IA IB].
  pose proof (F_le_last (S i) HiM) as HFl.
  assert (Hstep : forall c z, (off + lastIdx < S c < length text)%nat -> c_h (N (S i) c) = Some z ->
     exists h, c_h (N (S i) (S c)) = Some h /\ 0 <= h /\ h <= Z.max (z - 1) 0).
  { intros c z Hc Hz. rewrite N_S by lia. unfold ncell. rewrite Hz. cbn [opt_add].
    replace (fold (zn text (S c)) =? zn pat (S i)) with false.
    - eexists. split; [reflexivity|]. unfold scoreGapExt, scoreGapStart. destruct (c_gap (N (S i) c)); lia.
    - symmetry. apply Z.eqb_neq. rewrite Hi. rewrite <- last_zn by (destruct pat; [cbn in HM; lia|discriminate]).
      apply Hpost. lia. }
  induction k as [|k IH]; intros Hk.
  - destruct (IB lastIdx ltac:(lia)) as (C1 & _).
    destruct (Hstep (off + lastIdx)%nat _ ltac:(lia) C1) as (h & E1 & E2 & E3).
    exists h. replace (off + lastIdx + 1 + 0)%nat with (S (off + lastIdx)) by lia. auto.
  - destruct (IH ltac:(lia)) as (z & Z1 & Z2 & Z3).
    destruct (Hstep (off + lastIdx + 1 + k)%nat _ ltac:(lia) Z1) as (h & E1 & E2 & E3).
    exists h. replace (off + lastIdx + 1 + S k)%nat with (S (off + lastIdx + 1 + k)) by lia.
    split; [exact E1|]. lia.
Qed.

Theorem core_naive_dp fwd ms mp :
  win_best fwd (wrow (M - 1)) (nn F (M - 1)) 0 O = (ms, mp) ->
  naive_dp co sc cs nm fwd text pat = Some (ms, (off + mp + 1)%nat).
Proof.
  intros Hwin.
  assert (Hne : pat <> []) by (destruct pat; [cbn in HM; lia|discriminate]).
  unfold naive_dp. rewrite naive_last_row_nrow by exact Hne.
  assert (Hex : exists i, (M - 1)%nat = S i) by (exists (M - 2)%nat; lia).
  destruct Hex as [i Ei]. rewrite Ei in Hwin |- *.
  assert (HiM : (S i < M)%nat) by lia.
  pose proof (inv_all (S i) HiM) as [IA IB].
  pose proof (F_le_last (S i) HiM) as HFl.
  set (r := nrow co sc cs nm text pat (S i)).
  assert (Hr : length r = length text) by apply nrow_length.
  set (a := (off + nn F (S i))%nat).
  set (b := (lastIdx + 1 - nn F (S i))%nat).
  rewrite <- (firstn_skipn a r). rewrite <- (firstn_skipn b (skipn a r)).
  rewrite !best_cell_app.
  assert (La : length (firstn a r) = a) by (rewrite firstn_length; lia).
  assert (Lb : length (firstn b (skipn a r)) = b) by (rewrite firstn_length, skipn_length; lia).
  rewrite La, Lb.
  (* columns before the window *)
  rewrite (best_cell_none fwd (firstn a r)).
  2:{ intros k Hk. rewrite La in Hk. rewrite nth_firstn_lt by exact Hk. apply IA. exact Hk. }
  (* the window *)
  assert (Hw : forall k, (k < length (firstn b (skipn a r)))%nat ->
     c_h (nth k (firstn b (skipn a r)) none_cell) = Some (w_h (nth k (wrow (S i)) wdflt)) /\
     0 <= w_h (nth k (wrow (S i)) wdflt)).
  { intros k Hk. rewrite Lb in Hk. rewrite nth_firstn_lt by exact Hk. rewrite nth_skipn_add.
    destruct (IB (nn F (S i) + k)%nat ltac:(lia)) as (C1 & _ & C3 & _).
    unfold W in C1, C3. replace (nn F (S i) + k - nn F (S i))%nat with k in C1, C3 by lia.
    unfold N in C1. replace (off + (nn F (S i) + k))%nat with (a + k)%nat in C1 by lia.
    split; [exact C1|exact C3]. }
  assert (Hlw : length (firstn b (skipn a r)) = length (wrow (S i))) by (rewrite Lb, wrow_length; reflexivity).
  assert (Hrel0 : brel off None 0 O) by (split; [reflexivity|lia]).
  destruct (best_cell_win fwd off _ _ (nn F (S i)) None 0 O Hlw Hw Hrel0) as (R1 & R2 & R3).
  rewrite Hwin in R1, R2, R3. cbn [fst snd] in R1, R2, R3.
  replace (0 + a)%nat with (off + nn F (S i))%nat by lia.
  (* the maximum is at least 16 *)
  assert (Hms : scoreMatch <= ms).
  { pose proof (first_cell_ge i HiM) as Hf. unfold W in Hf. rewrite Nat.sub_diag in Hf.
    specialize (R3 O ltac:(rewrite wrow_length; lia)). lia. }
  destruct R1 as [_ R1]. rewrite (R1 ltac:(unfold scoreMatch in Hms; lia)).
  (* columns after the window *)
  rewrite best_cell_post; [f_equal; f_equal; lia|].
  intros k Hk. rewrite skipn_length, skipn_length in Hk. rewrite !nth_skipn_add.
  destruct (post_cells i ltac:(lia) k ltac:(lia)) as (h & P1 & P2 & P3).
  exists h. unfold N in P1. fold r in P1.
  replace (a + (b + k))%nat with (off + lastIdx + 1 + k)%nat by lia. split; [exact P1|].
  specialize (R3 (lastIdx - nn F (S i))%nat ltac:(rewrite wrow_length; lia)).
  unfold W in P3. unfold scoreMatch in Hms. lia.
Qed.

End Core.
