(* C03, FuzzyMatchV2 and int16.
   The Go code keeps H0, C0, B, H, C and every temporary of phases 2 and 3 in int16; the model
   (model/AlgoModel.v) computes with unbounded Z.  This file proves that in the regime where the code
   is used no value leaves the int16 range, so the two agree:

     bonuses in [0, bmax] (bmax = 10 for the three schemes), pattern of M characters
       every H cell, the running maximum and the score     in [0, 16*M + bmax*(M+1)]     (26*M + 10)
       every C cell                                         in [0, M]
       every temporary of the loop bodies                   in [-3, 16*M + bmax*(M+1)]
     hence int16-safe as soon as 16*M + bmax*(M+1) <= 32767   (bmax = 10:  M <= 1259)
     with a slab (cap(slab.I16) = 102400): N*M <= cap and M <= N give M <= 320: bound 8330.

   The bound is attained (pattern a^M at the start of a line: 36 + 26*(M-1)), so for M >= 1260 and no slab
   the int16 score of the code wraps (known finding K3); see [v2_int16_threshold]. *)
From Fzf Require Import Prelude AlgoSpec AlgoModel AlgoBasics V2Facts V2ScanBasics V2ScanPhase2 V2ScanProofs
  V2MatrixBase V2MatrixFill V2MatrixTrace V2MatrixProofs V2DpWin V2DpAssemble V2Refine V2Final V2Int16Win.
Open Scope Z_scope.

Definition i16 (z : Z) : Prop := -32768 <= z <= 32767.

(* ---------- phase 2: C0 cells are 0 or 1 (H0, B, maxScore: phase2_bounds) ---------- *)

Lemma phase2_C0_bounds co sc cs nm fwd m1 p0 plast : forall w off rest ph pc ig st,
  Forall (fun c => 0 <= c <= 1) (p2_C0 st) ->
  Forall (fun c => 0 <= c <= 1) (p2_C0 (phase2 co sc cs nm fwd m1 w off p0 rest plast ph pc ig st)).
Proof.
  induction w as [|c0 w IH]; intros off rest ph pc ig st HC; cbn [phase2]; [exact HC|].
  destruct (fold_v2 co sc cs nm c0) as [class c].
  destruct (c =? p0).
  - match goal with |- context [if ?b then mkP2 _ _ _ _ _ _ _ _ _ else _] => destruct b end.
    + cbn [p2_C0]. constructor; [lia|exact HC].
    + apply IH. cbn [p2_C0]. constructor; [lia|exact HC].
  - apply IH. cbn [p2_C0]. constructor; [lia|exact HC].
Qed.

(* every int16 value of phase 2: the arrays, the maximum, and the temporaries
   bonus*2, scoreMatch + bonus*2, prevH0 + gap penalty (prevH0 = 0 or an H0 cell) *)
Definition v2_p2_values (st : p2) : list Z :=
  p2H0 st ++ p2C0 st ++ p2B st ++ [p2_maxScore st] ++
  map (fun b => b * 2) (p2B st) ++ map (fun b => scoreMatch + b * 2) (p2B st) ++
  map (fun h => h + scoreGapStart) (0 :: p2H0 st) ++ map (fun h => h + scoreGapExt) (0 :: p2H0 st).

Lemma Forall_map_intro {A B} (f : A -> B) (P : A -> Prop) (Q : B -> Prop) l :
  (forall a, P a -> Q (f a)) -> Forall P l -> Forall Q (map f l).
Proof. intros H HP. induction HP; cbn [map]; constructor; auto. Qed.

Theorem v2_phase2_values_bounded_proof : forall co sc bmax cs nm fwd m1 w p0 rest plast,
  0 <= s_bw sc <= bmax -> 0 <= s_bd sc <= bmax -> 8 <= bmax ->
  let st := phase2 co sc cs nm fwd m1 w O p0 rest plast 0 (s_init sc) false (mkP2 [] [] [] [] [] O O 0 O) in
  Forall (fun v => -3 <= v <= scoreMatch + 2 * bmax) (v2_p2_values st) /\
  Forall (fun c => 0 <= c <= 1) (p2C0 st).
Proof.
  intros co sc bmax cs nm fwd m1 w p0 rest plast Hw Hd H8 st.
  destruct (no_overflow_gen_proof co sc bmax cs nm fwd m1 w p0 rest plast Hw Hd H8) as (HH & HB & HM).
  fold st in HH, HB, HM.
  assert (HC : Forall (fun c => 0 <= c <= 1) (p2C0 st)).
  { unfold p2C0. apply Forall_rev. unfold st. apply phase2_C0_bounds. constructor. }
  split; [|exact HC].
  assert (HH0 : Forall (fun h => 0 <= h <= scoreMatch + 2 * bmax) (0 :: p2H0 st)).
  { constructor; [unfold scoreMatch; lia|exact HH]. }
  unfold v2_p2_values. unfold scoreMatch, scoreGapStart, scoreGapExt in *.
  repeat (apply Forall_app; split).
  - eapply Forall_impl; [|exact HH]. cbn beta. intros; lia.
  - eapply Forall_impl; [|exact HC]. cbn beta. intros; lia.
  - eapply Forall_impl; [|exact HB]. cbn beta. intros; lia.
  - constructor; [lia|constructor].
  - eapply Forall_map_intro; [|exact HB]. cbn beta. intros; lia.
  - eapply Forall_map_intro; [|exact HB]. cbn beta. intros; lia.
  - eapply Forall_map_intro; [|exact HH0]. cbn beta. intros; lia.
  - eapply Forall_map_intro; [|exact HH0]. cbn beta. intros; lia.
Qed.

(* ---------- phase 3: every int16 value, read off the arrays of phase 2 ---------- *)

(* the (H, C) cells of all M rows, every temporary of rows 1 .. M-1, the final maximum *)
Definition v2_p3_values (fwd : bool) (pat : list Z) (st : p2) : list Z :=
  let rows := win_matrix (p2T st) (p2B st) (p2H0 st) (p2C0 st) (p2F st) pat (p2_lastIdx st) in
  map w_h (concat rows) ++ map w_c (concat rows) ++
  win_matrix_trace (p2T st) (p2B st) (p2H0 st) (p2C0 st) (p2F st) pat (p2_lastIdx st) ++
  [fst (win_result fwd (p2T st) (p2B st) (p2H0 st) (p2C0 st) (p2F st) pat (p2_lastIdx st))].

Lemma Forall_concat {A} (P : A -> Prop) (ll : list (list A)) : Forall (Forall P) ll -> Forall P (concat ll).
Proof. intros H. induction H; cbn [concat]; [constructor|]. apply Forall_app. split; assumption. Qed.

Theorem v2_phase3_values_bounded_proof : forall co sc bmax cs nm fwd m1 w p0 rest plast pat,
  0 <= s_bw sc <= bmax -> 0 <= s_bd sc <= bmax -> 8 <= bmax ->
  let st := phase2 co sc cs nm fwd m1 w O p0 rest plast 0 (s_init sc) false (mkP2 [] [] [] [] [] O O 0 O) in
  let M := length (p2F st) in
  Forall (fun v => -3 <= v <= 16 * Z.of_nat M + bmax * (Z.of_nat M + 1)) (v2_p3_values fwd pat st) /\
  Forall (fun c => 0 <= w_c c <= Z.of_nat M)
         (concat (win_matrix (p2T st) (p2B st) (p2H0 st) (p2C0 st) (p2F st) pat (p2_lastIdx st))).
Proof.
  intros co sc bmax cs nm fwd m1 w p0 rest plast pat Hw Hd H8 st M.
  destruct (no_overflow_gen_proof co sc bmax cs nm fwd m1 w p0 rest plast Hw Hd H8) as (HH & HB & _).
  destruct (v2_phase2_values_bounded_proof co sc bmax cs nm fwd m1 w p0 rest plast Hw Hd H8) as (_ & HC).
  fold st in HH, HB, HC.
  assert (Hc : bonusConsecutive <= bmax) by (unfold bonusConsecutive; lia).
  destruct (win_rows_bounded_proof bmax (p2T st) (p2B st) (p2H0 st) (p2C0 st) (p2F st) pat (p2_lastIdx st) fwd
              Hc HB (conj HH HC)) as (_ & Hall & Htr & Hres).
  fold M in Hall, Htr, Hres.
  apply Forall_concat in Hall.
  assert (HMM : Z.of_nat M <= 16 * Z.of_nat M + bmax * (Z.of_nat M + 1)) by nia.
  split.
  - unfold v2_p3_values. cbv zeta. repeat (apply Forall_app; split).
    + eapply Forall_map_intro; [|exact Hall]. cbn beta. intros c [A _]. lia.
    + eapply Forall_map_intro; [|exact Hall]. cbn beta. intros c [_ A]. lia.
    + exact Htr.
    + constructor; [lia|constructor].
  - eapply Forall_impl; [|exact Hall]. cbn beta. tauto.
Qed.

(* ---------- the control flow of a successful V2 proper run ---------- *)

(* no side conditions on the character operations or the text: the model checks the window itself *)
Lemma v2_match_shape co sc cs nm fwd ib text pat wp cap s e score pos :
  pat <> [] -> v2_fallback text pat cap = false ->
  fuzzy_v2 co sc cs nm fwd ib text pat wp cap = Ok (Match s e score pos) ->
  (length pat <= length text)%nat /\
  exists lo hi, ascii_fuzzy_index ib text pat cs = Ok (Some (lo, hi)) /\
    let w := firstn (hi - lo) (skipn lo text) in
    let st := phase2 co sc cs nm fwd (Nat.eqb (length pat) 1) w O (hd 0 pat) pat (last pat 0) 0 (s_init sc) false
                     (mkP2 [] [] [] [] [] O O 0 O) in
    p2_pidx st = length pat /\
    ((length pat = 1%nat /\ score = p2_maxScore st) \/
     ((2 <= length pat)%nat /\ v2_after_phase2 fwd wp lo pat st = Ok (Match s e score pos))).
Proof.
  intros Hne Hfb Hrun. rewrite fuzzy_v2_unfold in Hrun. cbv zeta in Hrun.
  destruct pat as [|p0 pat']; [congruence|]. set (pat := p0 :: pat') in *.
  destruct (Nat.ltb (length text) (length pat)) eqn:ELt; [discriminate|].
  apply Nat.ltb_ge in ELt. split; [exact ELt|].
  change (match cap with Some c => c <? Z.of_nat (length text) * Z.of_nat (length pat) | None => false end)
    with (v2_fallback text pat cap) in Hrun.
  rewrite Hfb in Hrun.
  destruct (ascii_fuzzy_index ib text pat cs) as [[[lo hi]|]|err]; cbn [bind] in Hrun; try discriminate.
  exists lo, hi. split; [reflexivity|]. cbv zeta. change (hd 0 pat) with p0.
  destruct (Nat.ltb hi lo || Nat.ltb (length text) hi); [discriminate|].
  destruct (Nat.eqb (p2_pidx _) (length pat)) eqn:Ep in Hrun; cbn [negb] in Hrun; [|discriminate].
  apply Nat.eqb_eq in Ep. split; [exact Ep|].
  destruct (Nat.eqb (length pat) 1) eqn:EM.
  - left. apply Nat.eqb_eq in EM. split; [exact EM|]. inversion Hrun. reflexivity.
  - right. apply Nat.eqb_neq in EM. split; [cbn [length pat] in *; lia|exact Hrun].
Qed.

(* M >= 2: the reported score is the running maximum of the pure matrix fill *)
Lemma v2_after_score co sc cs nm fwd wp lo w pat st s e score pos :
  0 <= s_bw sc -> 0 <= s_bd sc ->
  p2_ok co sc cs nm w pat st -> (2 <= length pat)%nat -> p2_maxScore st = 0 -> p2_maxPos st = O ->
  v2_after_phase2 fwd wp lo pat st = Ok (Match s e score pos) ->
  score = fst (win_result fwd (p2T st) (p2B st) (p2H0 st) (p2C0 st) (p2F st) pat (p2_lastIdx st)).
Proof.
  intros Hbw Hbd Hok HM2 Hms Hmp Hrun.
  pose proof (phase3_refines_proof co sc cs nm fwd w pat st Hbw Hbd Hok HM2 Hms Hmp) as HB.
  unfold v2_after_phase2 in Hrun. cbv zeta in Hrun.
  change (rev (p2_T st)) with (p2T st) in Hrun. change (rev (p2_B st)) with (p2B st) in Hrun.
  change (rev (p2_H0 st)) with (p2H0 st) in Hrun. change (rev (p2_C0 st)) with (p2C0 st) in Hrun.
  change (rev (p2_F st)) with (p2F st) in Hrun.
  destruct (get (p2F st) 0) as [f0n|] eqn:Ef0; cbn [bind] in Hrun; [|discriminate].
  destruct (Z.of_nat (p2_lastIdx st) - Z.of_nat f0n + 1 <=? 0) eqn:Ew; [discriminate|].
  apply Z.leb_gt in Ew.
  destruct (Nat.ltb (length (p2H0 st)) (Z.to_nat (Z.of_nat (p2_lastIdx st) + 1))); [discriminate|].
  match type of Hrun with (do H <- ?a; _) = _ => destruct a as [H|] eqn:EH end; cbn [bind] in Hrun; [|discriminate].
  match type of Hrun with (do C <- ?a; _) = _ => destruct a as [C|] eqn:EC end; cbn [bind] in Hrun; [|discriminate].
  match type of Hrun with (do r <- ?a; _) = _ => destruct a as [[[[H' C'] ms] mp]|] eqn:E3 end;
    cbn [bind] in Hrun; [|discriminate].
  destruct (HB f0n H C H' C' ms mp Ef0 Ew EH EC E3) as [_ Hwin].
  destruct (mp <? 0); [discriminate|].
  rewrite Hwin. cbn [fst].
  destruct wp.
  - match type of Hrun with (do pj <- ?a; _) = _ => destruct a as [pj|] end; cbn [bind] in Hrun; [|discriminate].
    inversion Hrun; subst. reflexivity.
  - inversion Hrun; subst. reflexivity.
Qed.

(* ---------- item 3: the score ---------- *)

Theorem v2_score_bounded_proof : forall co sc bmax cs nm fwd ib text pat wp cap s e score pos,
  0 <= s_bw sc <= bmax -> 0 <= s_bd sc <= bmax -> 8 <= bmax ->
  (1 <= length pat)%nat -> v2_fallback text pat cap = false ->
  fuzzy_v2 co sc cs nm fwd ib text pat wp cap = Ok (Match s e score pos) ->
  0 <= score <= 16 * Z.of_nat (length pat) + bmax * (Z.of_nat (length pat) + 1).
Proof.
  intros co sc bmax cs nm fwd ib text pat wp cap s e score pos Hw Hd H8 HM1 Hfb Hrun.
  assert (Hne : pat <> []) by (destruct pat; [cbn in HM1; lia|discriminate]).
  destruct (v2_match_shape co sc cs nm fwd ib text pat wp cap s e score pos Hne Hfb Hrun)
    as (_ & lo & hi & _ & Hp & [(HM & Hs)|(HM2 & Hafter)]).
  - (* M = 1 *)
    destruct (no_overflow_gen_proof co sc bmax cs nm fwd (Nat.eqb (length pat) 1) (firstn (hi - lo) (skipn lo text))
                (hd 0 pat) pat (last pat 0) Hw Hd H8) as (_ & _ & Hmax).
    rewrite <- Hs in Hmax. rewrite HM. unfold scoreMatch in Hmax. cbn [Z.of_nat]. lia.
  - assert (EM : Nat.eqb (length pat) 1 = false) by (apply Nat.eqb_neq; lia).
    rewrite EM in Hp, Hafter.
    destruct pat as [|p0 pat']; [congruence|]. cbn [hd] in Hp, Hafter. set (pat := p0 :: pat') in *.
    set (w := firstn (hi - lo) (skipn lo text)) in *.
    set (st := phase2 co sc cs nm fwd false w 0 p0 pat (last pat 0) 0 (s_init sc) false (mkP2 [] [] [] [] [] O O 0 O)) in *.
    pose proof (phase2_ok_proof co sc cs nm fwd w pat p0 pat' HM2 eq_refl Hp) as Hok. fold st in Hok.
    destruct (phase2_max_init_proof co sc cs nm fwd w pat p0) as [A1 A2]. fold st in A1, A2.
    rewrite (v2_after_score co sc cs nm fwd wp lo w pat st s e score pos ltac:(lia) ltac:(lia) Hok HM2 A1 A2 Hafter).
    destruct (v2_phase3_values_bounded_proof co sc bmax cs nm fwd false w p0 pat (last pat 0) pat Hw Hd H8) as [Hv _].
    fold st in Hv. rewrite (ok_lenF _ _ _ _ _ _ _ Hok) in Hv.
    destruct (no_overflow_gen_proof co sc bmax cs nm fwd false w p0 pat (last pat 0) Hw Hd H8) as (HH & HB & _).
    destruct (v2_phase2_values_bounded_proof co sc bmax cs nm fwd false w p0 pat (last pat 0) Hw Hd H8) as (_ & HC).
    fold st in HH, HB, HC.
    destruct (win_rows_bounded_proof bmax (p2T st) (p2B st) (p2H0 st) (p2C0 st) (p2F st) pat (p2_lastIdx st) fwd
                ltac:(unfold bonusConsecutive; lia) HB (conj HH HC)) as (_ & _ & _ & Hres).
    rewrite (ok_lenF _ _ _ _ _ _ _ Hok) in Hres. exact Hres.
Qed.

(* ---------- item 4: every value is an int16 ---------- *)

(* everything the run computes in int16: phase 2 always, phase 3 when M >= 2 *)
Definition v2_values (co : char_ops) (sc : scheme) (cs nm fwd : bool) (text pat : list Z) (lo hi : nat) : list Z :=
  let w := firstn (hi - lo) (skipn lo text) in
  let st := phase2 co sc cs nm fwd (Nat.eqb (length pat) 1) w O (hd 0 pat) pat (last pat 0) 0 (s_init sc) false
                   (mkP2 [] [] [] [] [] O O 0 O) in
  v2_p2_values st ++ (if Nat.leb 2 (length pat) then v2_p3_values fwd pat st else []).

Theorem v2_int16_safe_proof : forall co sc bmax cs nm fwd ib text pat wp cap s e score pos,
  0 <= s_bw sc <= bmax -> 0 <= s_bd sc <= bmax -> 8 <= bmax ->
  (1 <= length pat)%nat -> v2_fallback text pat cap = false ->
  16 * Z.of_nat (length pat) + bmax * (Z.of_nat (length pat) + 1) <= 32767 ->
  fuzzy_v2 co sc cs nm fwd ib text pat wp cap = Ok (Match s e score pos) ->
  i16 score /\
  exists lo hi, ascii_fuzzy_index ib text pat cs = Ok (Some (lo, hi)) /\
    Forall (fun v => -3 <= v <= 16 * Z.of_nat (length pat) + bmax * (Z.of_nat (length pat) + 1))
           (v2_values co sc cs nm fwd text pat lo hi) /\
    Forall i16 (v2_values co sc cs nm fwd text pat lo hi) /\
    ((2 <= length pat)%nat -> In score (v2_values co sc cs nm fwd text pat lo hi)).
Proof.
  intros co sc bmax cs nm fwd ib text pat wp cap s e score pos Hw Hd H8 HM1 Hfb Hguard Hrun.
  pose proof (v2_score_bounded_proof co sc bmax cs nm fwd ib text pat wp cap s e score pos Hw Hd H8 HM1 Hfb Hrun) as Hsc.
  split; [unfold i16; lia|].
  assert (Hne : pat <> []) by (destruct pat; [cbn in HM1; lia|discriminate]).
  destruct (v2_match_shape co sc cs nm fwd ib text pat wp cap s e score pos Hne Hfb Hrun)
    as (_ & lo & hi & Eafi & Hp & Hcase).
  exists lo, hi. split; [exact Eafi|].
  set (M := length pat) in *.
  assert (Hb : Forall (fun v => -3 <= v <= 16 * Z.of_nat M + bmax * (Z.of_nat M + 1))
                      (v2_values co sc cs nm fwd text pat lo hi) /\
               ((2 <= M)%nat -> In score (v2_values co sc cs nm fwd text pat lo hi))).
  { unfold v2_values. cbv zeta. fold M.
    set (w := firstn (hi - lo) (skipn lo text)) in *.
    set (st := phase2 co sc cs nm fwd (Nat.eqb M 1) w 0 (hd 0 pat) pat (last pat 0) 0 (s_init sc) false
                      (mkP2 [] [] [] [] [] O O 0 O)) in *.
    destruct (v2_phase2_values_bounded_proof co sc bmax cs nm fwd (Nat.eqb M 1) w (hd 0 pat) pat (last pat 0) Hw Hd H8) as [H2 _].
    fold st in H2.
    assert (H2' : Forall (fun v => -3 <= v <= 16 * Z.of_nat M + bmax * (Z.of_nat M + 1)) (v2_p2_values st)).
    { eapply Forall_impl; [|exact H2]. cbn beta. unfold scoreMatch. intros v Hv. nia. }
    destruct Hcase as [(HM & _)|(HM2 & Hafter)].
    - replace (Nat.leb 2 M) with false by (symmetry; apply Nat.leb_gt; lia).
      rewrite app_nil_r. split; [exact H2'|lia].
    - replace (Nat.leb 2 M) with true by (symmetry; apply Nat.leb_le; lia).
      assert (EM : Nat.eqb M 1 = false) by (apply Nat.eqb_neq; lia).
      destruct pat as [|p0 pat']; [congruence|]. cbn [hd] in *. set (pat := p0 :: pat') in *.
      assert (Est : st = phase2 co sc cs nm fwd false w 0 p0 pat (last pat 0) 0 (s_init sc) false (mkP2 [] [] [] [] [] O O 0 O))
        by (unfold st; rewrite EM; reflexivity).
      pose proof (phase2_ok_proof co sc cs nm fwd w pat p0 pat' HM2 eq_refl) as Hok. cbv zeta in Hok.
      rewrite <- Est in Hok. specialize (Hok Hp).
      destruct (phase2_max_init_proof co sc cs nm fwd w pat p0) as [A1 A2]. rewrite <- Est in A1, A2.
      destruct (v2_phase3_values_bounded_proof co sc bmax cs nm fwd false w p0 pat (last pat 0) pat Hw Hd H8) as [Hv _].
      rewrite <- Est in Hv. rewrite (ok_lenF _ _ _ _ _ _ _ Hok) in Hv. fold M in Hv.
      split; [apply Forall_app; split; assumption|].
      intros _. apply in_or_app. right. unfold v2_p3_values. cbv zeta.
      apply in_or_app. right. apply in_or_app. right. apply in_or_app. right. left.
      symmetry. exact (v2_after_score co sc cs nm fwd wp lo w pat st s e score pos ltac:(lia) ltac:(lia) Hok HM2 A1 A2 Hafter). }
  destruct Hb as [Hb1 Hb2]. split; [exact Hb1|]. split; [|exact Hb2].
  eapply Forall_impl; [|exact Hb1]. cbn beta. unfold i16. intros v Hv. lia.
Qed.

(* with a slab: cap(slab.I16) = 102400 (util.NewSlab(100*1024, 2048)); the code takes the V2 path only when
   N*M <= cap, and M <= N, so M <= 320 and the bound is 26*320 + 10 = 8330 *)
Definition slab16 : Z := 102400.

Theorem v2_int16_safe_with_slab_proof : forall co sc cs nm fwd ib text pat wp c s e score pos,
  0 <= s_bw sc <= 10 -> 0 <= s_bd sc <= 10 ->
  (1 <= length pat)%nat -> c <= slab16 -> v2_fallback text pat (Some c) = false ->
  fuzzy_v2 co sc cs nm fwd ib text pat wp (Some c) = Ok (Match s e score pos) ->
  (length pat <= 320)%nat /\ 0 <= score <= 8330 /\
  exists lo hi, ascii_fuzzy_index ib text pat cs = Ok (Some (lo, hi)) /\
    Forall (fun v => -3 <= v <= 8330) (v2_values co sc cs nm fwd text pat lo hi) /\
    Forall i16 (v2_values co sc cs nm fwd text pat lo hi).
Proof.
  intros co sc cs nm fwd ib text pat wp c s e score pos Hw Hd HM1 Hc Hfb Hrun.
  assert (Hne : pat <> []) by (destruct pat; [cbn in HM1; lia|discriminate]).
  destruct (v2_match_shape co sc cs nm fwd ib text pat wp (Some c) s e score pos Hne Hfb Hrun) as (HMN & _).
  assert (HM : (length pat <= 320)%nat).
  { unfold v2_fallback in Hfb. apply Z.ltb_ge in Hfb. unfold slab16 in Hc.
    assert (Z.of_nat (length pat) * Z.of_nat (length pat) <= 102400) by nia. nia. }
  assert (Hg : 16 * Z.of_nat (length pat) + 10 * (Z.of_nat (length pat) + 1) <= 8330) by lia.
  split; [exact HM|].
  pose proof (v2_score_bounded_proof co sc 10 cs nm fwd ib text pat wp (Some c) s e score pos Hw Hd ltac:(lia) HM1 Hfb Hrun) as Hs.
  split; [lia|].
  destruct (v2_int16_safe_proof co sc 10 cs nm fwd ib text pat wp (Some c) s e score pos Hw Hd ltac:(lia) HM1 Hfb ltac:(lia) Hrun)
    as (_ & lo & hi & Eafi & Hv & Hi & _).
  exists lo, hi. split; [exact Eafi|]. split; [|exact Hi].
  eapply Forall_impl; [|exact Hv]. cbn beta. intros v Hvv. lia.
Qed.

Print Assumptions v2_phase2_values_bounded_proof.
Print Assumptions v2_phase3_values_bounded_proof.
Print Assumptions v2_score_bounded_proof.
Print Assumptions v2_int16_safe_proof.
Print Assumptions v2_int16_safe_with_slab_proof.

(* ---------- item 5: the threshold ---------- *)

(* bmax = 10: the guard holds exactly for M <= 1259; at M = 1260 the (attained) bound 26*M + 10 is 32770 *)
Example v2_int16_threshold :
  (forall M, 16 * M + 10 * (M + 1) <= 32767 <-> M <= 1259) /\
  16 * 1259 + 10 * (1259 + 1) = 32744 /\ 16 * 1260 + 10 * (1260 + 1) = 32770 /\ ~ i16 32770.
Proof. unfold i16. repeat split; intros; lia. Qed.

(* ---------- non-vacuity ---------- *)

Definition co_i16 := mkOps (fun c => c) (fun _ => cNonWord) (fun c => c) (fun _ => false).

(* the bound is attained: "aaa" against "aaa" scores 36 + 26 + 26 = 88 = 26*3 + 10 *)
Example v2_score_bound_attained :
  fuzzy_v2 co_i16 scheme_default true false true true [97;97;97] [97;97;97] false None = Ok (Match 0 3 88 None) /\
  16 * Z.of_nat (length [97;97;97]) + 10 * (Z.of_nat (length [97;97;97]) + 1) = 88.
Proof. vm_compute. split; reflexivity. Qed.

Example v2_score_bounded_ex :
  let text := [102;111;111;45;66;97;114;32;98;97;122] in let pat := [111;98;97] in
  fuzzy_v2 co_i16 scheme_default false true true true text pat true None = Ok (Match 2 6 61 (Some [5%nat; 4%nat; 2%nat])) /\
  v2_fallback text pat None = false /\ 0 <= 61 <= 16 * 3 + 10 * (3 + 1).
Proof. vm_compute. repeat split; try reflexivity; discriminate. Qed.

(* all values of that run *)
Example v2_values_ex :
  let text := [102;111;111;45;66;97;114;32;98;97;122] in let pat := [111;98;97] in
  ascii_fuzzy_index true text pat false = Ok (Some (0%nat, 10%nat)) /\
  length (v2_values co_i16 scheme_default false true true text pat 0 10) = 202%nat /\
  existsb (Z.eqb 61) (v2_values co_i16 scheme_default false true true text pat 0 10) = true /\
  fold_right Z.max 0 (v2_values co_i16 scheme_default false true true text pat 0 10) = 61 /\
  fold_right Z.min 0 (v2_values co_i16 scheme_default false true true text pat 0 10) = -3.
Proof. vm_compute. repeat split; reflexivity. Qed.

Example v2_int16_safe_with_slab_ex :
  let text := [102;111;111;45;66;97;114;32;98;97;122] in let pat := [111;98;97] in
  fuzzy_v2 co_i16 scheme_default false true true true text pat false (Some slab16) = Ok (Match 1 6 61 None) /\
  v2_fallback text pat (Some slab16) = false.
Proof. vm_compute. split; reflexivity. Qed.
