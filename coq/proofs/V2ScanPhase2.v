(* FuzzyMatchV2 phase 2 (the scan of the window):
   - for M >= 2 (flag m1 = false) the scan computes exactly the list recursions of V2ScanBasics
   - hence the interface record p2_ok of V2Facts
   - for M = 1 (flag m1 = true, possible early break) what maxScore / maxPos / pidx are *)
From Fzf Require Import Prelude AlgoSpec AlgoModel V2Facts V2ScanBasics.
Open Scope Z_scope.

Section Phase2.
Variable co : char_ops.
Variable sc : scheme.
Variables cs nm : bool.

Notation f2 := (fun c => snd (fold_v2 co sc cs nm c)).
Notation cl := (fun c => fst (fold_v2 co sc cs nm c)).
Notation Bl := (Bl co sc cs nm).
Notation H0l := (H0l co sc cs nm).

(* ---------- M >= 2: closed form of the scan ---------- *)

Lemma phase2_spec fwd p0 plast w : forall off rest ph pc ig st,
  phase2 co sc cs nm fwd false w off p0 rest plast ph pc ig st =
  mkP2 (rev (map f2 w) ++ p2_T st) (rev (Bl pc w) ++ p2_B st)
       (rev (H0l p0 ph pc ig w) ++ p2_H0 st) (rev (C0l p0 (map f2 w)) ++ p2_C0 st)
       (rev (Fl off rest (map f2 w)) ++ p2_F st)
       (p2_pidx st + length (Fl off rest (map f2 w)))%nat
       (lastl off rest plast (map f2 w) (p2_lastIdx st))
       (p2_maxScore st) (p2_maxPos st).
Proof.
  induction w as [|c0 w IH]; intros off rest ph pc ig st.
  - cbn. destruct st; cbn. rewrite Nat.add_0_r. reflexivity.
  - cbn [phase2]. unfold C0l. cbn [map V2ScanBasics.Bl V2ScanBasics.H0l Fl lastl rev].
    destruct (fold_v2 co sc cs nm c0) as [class c] eqn:Ef. cbn [fst snd].
    unfold bonus_m. cbn [andb].
    destruct (c =? p0) eqn:E0.
    all: destruct rest as [|p r];
      [destruct (c =? plast) eqn:Eh|destruct (c =? p) eqn:Eh];
      rewrite IH; cbn [p2_T p2_B p2_H0 p2_C0 p2_F p2_pidx p2_lastIdx p2_maxScore p2_maxPos];
      rewrite ?Fl_nil_rest; unfold C0l; cbn [rev length]; rewrite <- ?app_assoc; cbn [app];
      first [reflexivity | f_equal; lia].
Qed.


(* ---------- the interface record ---------- *)

Definition p2_init : p2 := mkP2 [] [] [] [] [] O O 0 O.

Theorem phase2_ok_gen fwd w pat p0 pat' :
  pat = p0 :: pat' ->
  let st := phase2 co sc cs nm fwd false w O p0 pat (last pat 0) 0 (s_init sc) false p2_init in
  p2_pidx st = length pat -> p2_ok co sc cs nm w pat st.
Proof.
  intros Hpat st Hp. subst st. rewrite phase2_spec in Hp |- *.
  unfold p2_init in Hp |- *. cbn [p2_T p2_B p2_H0 p2_C0 p2_F p2_pidx p2_lastIdx p2_maxScore p2_maxPos] in Hp |- *.
  cbn [Nat.add] in Hp.
  set (T := map f2 w) in *.
  assert (LT : length T = length w) by (unfold T; apply map_length).
  assert (Hne : pat <> []) by (rewrite Hpat; discriminate).
  assert (Hz0 : nth O pat 0 = p0) by (rewrite Hpat; reflexivity).
  pose proof (fun i => Fl_props T [] pat i) as HF. cbn [app length] in HF. cbn zeta in HF.
  pose proof (lastl_props T [] pat O Hne Hp) as HL. cbn [app length] in HL. cbn zeta in HL.
  constructor; unfold p2T, p2B, p2H0, p2C0, p2F, zn, nn;
    cbn [p2_T p2_B p2_H0 p2_C0 p2_F p2_pidx p2_lastIdx p2_maxScore p2_maxPos];
    rewrite ?app_nil_r, ?rev_involutive.
  - reflexivity.
  - apply Bl_length.
  - apply H0l_length.
  - unfold C0l. rewrite map_length. exact LT.
  - intros j Hj. apply Bl_nth. exact Hj.
  - exact Hp.
  - exact Hp.
  - intros i Hi. rewrite <- Hp in Hi. destruct (HF i Hi) as (Hr & Hh & _). split; [lia|exact Hh].
  - intros i Hi. rewrite <- Hp in Hi. destruct (HF i ltac:(lia)) as (_ & _ & _ & Hinc). apply Hinc, Hi.
  - intros i j Hi Hj. rewrite <- Hp in Hi. destruct (HF i Hi) as (_ & _ & Hf & _). apply Hf, Hj.
  - destruct HL as (Hr & _). lia.
  - destruct HL as (_ & Hh & _). exact Hh.
  - destruct HL as (_ & _ & Hno). intros j Hj. apply Hno. lia.
  - intros j Hj. rewrite Hz0. apply C0l_nth. lia.
  - intros j Hj Hm. rewrite Hz0 in Hm. unfold T in Hm. rewrite (map_nth_lt f2) in Hm by exact Hj.
    apply H0l_nth_match; assumption.
  - intros j Hj Hm. rewrite Hz0 in Hm |- *. unfold T in Hm. rewrite (map_nth_lt f2) in Hm by exact Hj.
    rewrite H0l_nth_gap by assumption.
    destruct j as [|j]; [reflexivity|].
    unfold T. rewrite (map_nth_lt f2) by lia. reflexivity.
Qed.

(* for M >= 2 the scan leaves the running maximum untouched (phase 3 starts from 0 / 0) *)
Lemma phase2_max_init fwd w p0 rest plast ph pc ig st :
  let st' := phase2 co sc cs nm fwd false w O p0 rest plast ph pc ig st in
  p2_maxScore st' = p2_maxScore st /\ p2_maxPos st' = p2_maxPos st.
Proof. intros st'. subst st'. rewrite phase2_spec. cbn [p2_maxScore p2_maxPos]. auto. Qed.

Theorem phase2_pidx_plain fwd w pat p0 pat' :
  pat = p0 :: pat' ->
  let st := phase2 co sc cs nm fwd false w O p0 pat (last pat 0) 0 (s_init sc) false p2_init in
  p2_pidx st = length pat <-> subseq_plain (map f2 w) pat = true.
Proof.
  intros Hpat st. subst st. rewrite phase2_spec. unfold p2_init. cbn [p2_pidx Nat.add]. apply Fl_all_iff.
Qed.


(* ---------- M = 1: the scan with the running maximum (and the early break) ---------- *)

Lemma phase2_single fwd p w : scheme_nonneg sc -> forall off rest ph pc ig st,
  ((rest = [p] /\ p2_pidx st = O /\ p2_maxScore st = 0) \/
   (rest = [] /\ p2_pidx st = 1%nat /\ 0 < p2_maxScore st)) ->
  let st' := phase2 co sc cs nm fwd true w off p rest p ph pc ig st in
  (p2_pidx st' = 1%nat <-> (p2_pidx st = 1%nat \/ In p (map f2 w))) /\
  ((p2_maxPos st' = p2_maxPos st /\ p2_maxScore st' = p2_maxScore st /\ p2_pidx st' = p2_pidx st) \/
   (exists j, (j < length w)%nat /\ p2_maxPos st' = (off + j)%nat /\ f2 (nth j w 0) = p /\
              p2_maxScore st' = scoreMatch + 2 * nth j (Bl pc w) 0 /\ p2_pidx st' = 1%nat)).
Proof.
  intros Hsc. induction w as [|c0 w IH]; intros off rest ph pc ig st Pre st'; subst st'.
  - cbn [phase2 map In]. split; [tauto|left; auto].
  - cbn [phase2]. destruct (fold_v2 co sc cs nm c0) as [class c] eqn:Ef.
    unfold bonus_m.
    pose proof (bonus_for_nonneg sc pc class Hsc) as Hb.
    set (bonus := bonus_for sc pc class) in *.
    assert (Hscore : 0 < scoreMatch + bonus * 2) by (unfold scoreMatch; lia).
    assert (Hf2 : f2 c0 = c) by (cbn beta; rewrite Ef; reflexivity).
    assert (Hcl : cl c0 = class) by (cbn beta; rewrite Ef; reflexivity).
    (* shifting a witness found in the tail *)
    assert (Shift : forall (st1 : p2),
      (exists j, (j < length w)%nat /\ p2_maxPos st1 = (S off + j)%nat /\ f2 (nth j w 0) = p /\
                 p2_maxScore st1 = scoreMatch + 2 * nth j (Bl class w) 0 /\ p2_pidx st1 = 1%nat) ->
      (exists j, (j < length (c0 :: w))%nat /\ p2_maxPos st1 = (off + j)%nat /\ f2 (nth j (c0 :: w) 0) = p /\
                 p2_maxScore st1 = scoreMatch + 2 * nth j (Bl pc (c0 :: w)) 0 /\ p2_pidx st1 = 1%nat)).
    { intros st1 (j & H1 & H2 & H3 & H4 & H5). exists (S j).
      cbn [length nth V2ScanBasics.Bl]. rewrite Hcl. repeat split; try assumption; lia. }
    cbn [map In]. rewrite Hf2.
    destruct (Z.eqb_spec c p) as [E|E].
    + (* an occurrence of the pattern character *)
      assert (Here : forall st1 : p2, p2_maxPos st1 = off -> p2_maxScore st1 = scoreMatch + bonus * 2 -> p2_pidx st1 = 1%nat ->
        exists j, (j < length (c0 :: w))%nat /\ p2_maxPos st1 = (off + j)%nat /\ f2 (nth j (c0 :: w) 0) = p /\
                 p2_maxScore st1 = scoreMatch + 2 * nth j (Bl pc (c0 :: w)) 0 /\ p2_pidx st1 = 1%nat).
      { intros st1 H1 H2 H3. exists O. cbn [length nth V2ScanBasics.Bl]. rewrite Hcl, Hf2.
        repeat split; try assumption; try lia. }
      destruct Pre as [(Hr & Hp & Hm)|(Hr & Hp & Hm)]; subst rest.
      * (* first occurrence: always an improvement *)
        rewrite (proj2 (Z.eqb_eq c p) E).
        assert (Hbetter : (true && (if fwd then p2_maxScore st <? scoreMatch + bonus * 2
                                    else p2_maxScore st <=? scoreMatch + bonus * 2)) = true).
        { rewrite Hm. cbn [andb]. destruct fwd; [apply Z.ltb_lt|apply Z.leb_le]; lia. }
        rewrite Hbetter. cbn [andb].
        destruct (fwd && (bonusBoundary <=? bonus)).
        -- match goal with |- (p2_pidx ?s = _ <-> _) /\ _ => set (st1 := s) end.
           split; [split; [intros _; right; left; exact E|intros _; subst st1; cbn [p2_pidx]; lia]|].
           right. apply Here; subst st1; cbn [p2_pidx p2_maxPos p2_maxScore]; try reflexivity; lia.
        -- match goal with |- context [phase2 _ _ _ _ _ _ _ _ _ _ _ _ _ _ ?s] => set (st1 := s) end.
           destruct (IH (S off) [] (scoreMatch + bonus * 2) class false st1) as (Hiff & Hd).
           { right. subst st1. cbn [p2_pidx p2_maxScore]. repeat split; try lia. }
           split.
           ++ split; [intros _; right; left; exact E|intros _; apply Hiff; left; subst st1; cbn [p2_pidx]; lia].
           ++ right. destruct Hd as [(H1 & H2 & H3)|Hd].
              ** apply Here; [rewrite H1|rewrite H2|rewrite H3]; subst st1; cbn [p2_pidx p2_maxPos p2_maxScore]; try reflexivity; lia.
              ** apply Shift, Hd.
      * (* a later occurrence *)
        rewrite (proj2 (Z.eqb_eq c p) E).
        destruct (true && (if fwd then p2_maxScore st <? scoreMatch + bonus * 2
                           else p2_maxScore st <=? scoreMatch + bonus * 2)) eqn:Hbetter.
        -- cbn [andb]. destruct (fwd && (bonusBoundary <=? bonus)).
           ++ match goal with |- (p2_pidx ?s = _ <-> _) /\ _ => set (st1 := s) end.
              split; [split; [intros _; left; exact Hp|intros _; subst st1; cbn [p2_pidx]; exact Hp]|].
              right. apply Here; subst st1; cbn [p2_pidx p2_maxPos p2_maxScore]; try reflexivity; exact Hp.
           ++ match goal with |- context [phase2 _ _ _ _ _ _ _ _ _ _ _ _ _ _ ?s] => set (st1 := s) end.
              destruct (IH (S off) [] (scoreMatch + bonus * 2) class false st1) as (Hiff & Hd).
              { right. subst st1. cbn [p2_pidx p2_maxScore]. repeat split; try lia. }
              split.
              ** split; [intros _; left; exact Hp|intros _; apply Hiff; left; subst st1; cbn [p2_pidx]; exact Hp].
              ** right. destruct Hd as [(H1 & H2 & H3)|Hd].
                 --- apply Here; [rewrite H1|rewrite H2|rewrite H3]; subst st1; cbn [p2_pidx p2_maxPos p2_maxScore]; try reflexivity; exact Hp.
                 --- apply Shift, Hd.
        -- cbn [andb].
           match goal with |- context [phase2 _ _ _ _ _ _ _ _ _ _ _ _ _ _ ?s] => set (st1 := s) end.
           destruct (IH (S off) [] (scoreMatch + bonus * 2) class false st1) as (Hiff & Hd).
           { right. subst st1. cbn [p2_pidx p2_maxScore]. repeat split; try lia. }
           split.
           ++ split; [intros _; left; exact Hp|intros _; apply Hiff; left; subst st1; cbn [p2_pidx]; exact Hp].
           ++ destruct Hd as [(H1 & H2 & H3)|Hd].
              ** left. rewrite H1, H2, H3. subst st1. cbn [p2_pidx p2_maxPos p2_maxScore]. auto.
              ** right. apply Shift, Hd.
    + (* not an occurrence *)
      assert (Hhit : (c =? match rest with p1 :: _ => p1 | [] => p end) = false).
      { destruct Pre as [(Hr & _)|(Hr & _)]; subst rest; apply Z.eqb_neq; exact E. }
      rewrite Hhit. rewrite ?(proj2 (Z.eqb_neq c p) E).
      match goal with |- context [phase2 _ _ _ _ _ _ _ _ _ _ _ _ _ _ ?s] => set (st1 := s) end.
      match goal with |- context [phase2 _ _ _ _ _ _ _ _ _ _ _ ?h _ _ st1] => set (h1 := h) end.
      destruct (IH (S off) rest h1 class true st1) as (Hiff & Hd).
      { subst st1. cbn [p2_pidx p2_maxScore]. exact Pre. }
      split.
      * rewrite Hiff. subst st1. cbn [p2_pidx]. split; intros [H|H]; auto. destruct H as [H|H]; [contradiction|auto].
      * destruct Hd as [(H1 & H2 & H3)|Hd].
        -- left. rewrite H1, H2, H3. subst st1. cbn [p2_pidx p2_maxPos p2_maxScore]. auto.
        -- right. apply Shift, Hd.
Qed.


(* the pidx part alone needs no assumption on the scheme *)
Lemma phase2_single_pidx fwd p w : forall off rest ph pc ig st,
  ((rest = [p] /\ p2_pidx st = O) \/ (rest = [] /\ p2_pidx st = 1%nat)) ->
  p2_pidx (phase2 co sc cs nm fwd true w off p rest p ph pc ig st) = 1%nat <->
  (p2_pidx st = 1%nat \/ In p (map f2 w)).
Proof.
  induction w as [|c0 w IH]; intros off rest ph pc ig st Pre.
  - cbn [phase2 map In]. tauto.
  - cbn [phase2]. destruct (fold_v2 co sc cs nm c0) as [class c] eqn:Ef.
    assert (Hf2 : f2 c0 = c) by (cbn beta; rewrite Ef; reflexivity).
    cbn [map In]. rewrite Hf2.
    destruct (Z.eqb_spec c p) as [E|E].
    + assert (Hhit : (c =? match rest with p1 :: _ => p1 | [] => p end) = true).
      { destruct Pre as [(Hr & _)|(Hr & _)]; subst rest; apply Z.eqb_eq; exact E. }
      rewrite Hhit.
      match goal with |- context [if ?b then mkP2 _ _ _ _ _ _ _ _ _ else _] => destruct b end.
      * cbn [p2_pidx]. destruct Pre as [(Hr & Hp)|(Hr & Hp)]; subst rest; rewrite Hp; split; auto.
      * rewrite IH.
        -- cbn [p2_pidx]. destruct Pre as [(Hr & Hp)|(Hr & Hp)]; subst rest; rewrite Hp; split; auto.
        -- right. cbn [p2_pidx]. destruct Pre as [(Hr & Hp)|(Hr & Hp)]; subst rest; rewrite Hp; split; reflexivity.
    + assert (Hhit : (c =? match rest with p1 :: _ => p1 | [] => p end) = false).
      { destruct Pre as [(Hr & _)|(Hr & _)]; subst rest; apply Z.eqb_neq; exact E. }
      rewrite Hhit. rewrite IH.
      * cbn [p2_pidx]. split; intros [H|H]; auto. destruct H as [H|H]; [contradiction|auto].
      * cbn [p2_pidx]. exact Pre.
Qed.


(* ---------- M = 1: in which sense the reported occurrence is the best one ---------- *)

(* "strictly better" as the scan understands it: forward keeps the first maximum, backward the last *)
Definition LT (fwd : bool) (a b : Z) : Prop := if fwd then a < b else a <= b.
Definition LE (fwd : bool) (a b : Z) : Prop := if fwd then a <= b else a < b.

Definition best_claim (fwd : bool) (p : Z) (off : nat) (pc : Z) (w : list Z) (st' : p2) : Prop :=
  forall j, (j < length w)%nat -> f2 (nth j w 0) = p ->
    ((off + j < p2_maxPos st')%nat -> LT fwd (scoreMatch + 2 * nth j (Bl pc w) 0) (p2_maxScore st')) /\
    ((p2_maxPos st' < off + j)%nat ->
       LE fwd (scoreMatch + 2 * nth j (Bl pc w) 0) (p2_maxScore st') \/
       (fwd = true /\ scoreMatch + 2 * bonusBoundary <= p2_maxScore st')).

Lemma best_claim_cons fwd p off pc c0 class c w st' :
  fold_v2 co sc cs nm c0 = (class, c) ->
  best_claim fwd p (S off) class w st' ->
  (c = p ->
     ((off < p2_maxPos st')%nat -> LT fwd (scoreMatch + bonus_for sc pc class * 2) (p2_maxScore st')) /\
     ((p2_maxPos st' < off)%nat -> LE fwd (scoreMatch + bonus_for sc pc class * 2) (p2_maxScore st') \/
                                   (fwd = true /\ scoreMatch + 2 * bonusBoundary <= p2_maxScore st'))) ->
  best_claim fwd p off pc (c0 :: w) st'.
Proof.
  intros Ef HC H0 j Hj Hm. destruct j as [|j].
  - cbn [nth] in Hm. rewrite Ef in Hm. cbn [snd] in Hm. specialize (H0 Hm).
    cbn [nth V2ScanBasics.Bl]. rewrite Ef. cbn [fst]. rewrite Nat.add_0_r.
    replace (2 * bonus_for sc pc class) with (bonus_for sc pc class * 2) by lia. exact H0.
  - cbn [length] in Hj. cbn [nth] in Hm. cbn [nth V2ScanBasics.Bl]. rewrite Ef. cbn [fst].
    replace (off + S j)%nat with (S off + j)%nat by lia. apply HC; [lia|exact Hm].
Qed.

Lemma phase2_single_best fwd p w : scheme_nonneg sc -> forall off rest ph pc ig st,
  ((rest = [p] /\ p2_pidx st = O /\ p2_maxScore st = 0) \/
   (rest = [] /\ p2_pidx st = 1%nat /\ 0 < p2_maxScore st /\ (p2_maxPos st < off)%nat)) ->
  let st' := phase2 co sc cs nm fwd true w off p rest p ph pc ig st in
  (rest = [] -> (p2_maxPos st' = p2_maxPos st /\ p2_maxScore st' = p2_maxScore st) \/
                ((off <= p2_maxPos st')%nat /\ LT fwd (p2_maxScore st) (p2_maxScore st'))) /\
  best_claim fwd p off pc w st'.
Proof.
  intros Hsc. induction w as [|c0 w IH]; intros off rest ph pc ig st Pre st'; subst st'.
  - cbn [phase2]. split; [auto|]. intros j Hj. cbn in Hj. lia.
  - cbn [phase2]. destruct (fold_v2 co sc cs nm c0) as [class c] eqn:Ef.
    unfold bonus_m.
    pose proof (bonus_for_nonneg sc pc class Hsc) as Hb.
    set (bonus := bonus_for sc pc class) in *.
    assert (Hscore : 0 < scoreMatch + bonus * 2) by (unfold scoreMatch; lia).
    destruct (Z.eqb_spec c p) as [E|E].
    + assert (Hhit : (c =? match rest with p1 :: _ => p1 | [] => p end) = true).
      { destruct Pre as [(Hr & _)|(Hr & _)]; subst rest; apply Z.eqb_eq; exact E. }
      rewrite Hhit.
      destruct (true && (if fwd then p2_maxScore st <? scoreMatch + bonus * 2
                         else p2_maxScore st <=? scoreMatch + bonus * 2)) eqn:Hbetter; cbn [andb] in Hbetter |- *.
      * (* improvement: the maximum moves here *)
        assert (HLT : LT fwd (p2_maxScore st) (scoreMatch + bonus * 2)).
        { unfold LT. destruct fwd; [apply Z.ltb_lt|apply Z.leb_le]; exact Hbetter. }
        destruct (fwd && (bonusBoundary <=? bonus)) eqn:Hbrk.
        -- (* break *)
           apply andb_true_iff in Hbrk. destruct Hbrk as [Hfwd Hbb]. apply Z.leb_le in Hbb.
           match goal with |- (_ -> _ \/ (_ <= p2_maxPos ?s)%nat /\ _) /\ _ => set (st1 := s) end.
           split.
           ++ intros _. right. subst st1. cbn [p2_maxPos p2_maxScore]. split; [lia|exact HLT].
           ++ eapply best_claim_cons; [exact Ef| |].
              ** intros j Hj Hm. subst st1. cbn [p2_maxPos p2_maxScore]. split; [lia|].
                 intros _. right. split; [exact Hfwd|]. unfold bonusBoundary in *. lia.
              ** intros _. subst st1. cbn [p2_maxPos p2_maxScore]. split; lia.
        -- match goal with |- context [phase2 _ _ _ _ _ _ _ _ _ _ _ _ _ _ ?s] => set (st1 := s) end.
           destruct (IH (S off) (match rest with _ :: r => r | [] => [] end) (scoreMatch + bonus * 2) class false st1) as (Hd & HC).
           { right. subst st1. cbn [p2_pidx p2_maxScore p2_maxPos].
             destruct Pre as [(Hr & Hp & _)|(Hr & Hp & _)]; subst rest; rewrite Hp; repeat split; lia. }
           assert (Hrest' : match rest with _ :: r => r | [] => [] end = []).
           { destruct Pre as [(Hr & _)|(Hr & _)]; subst rest; reflexivity. }
           specialize (Hd Hrest'). subst st1. cbn [p2_maxPos p2_maxScore] in Hd.
           split.
           ++ intros _. right. destruct Hd as [(H1 & H2)|(H1 & H2)].
              ** rewrite H1, H2. split; [lia|exact HLT].
              ** split; [lia|]. unfold LT in *. destruct fwd; lia.
           ++ eapply best_claim_cons; [exact Ef|exact HC|].
              intros _. destruct Hd as [(H1 & H2)|(H1 & H2)].
              ** rewrite H1. split; lia.
              ** split; [intros _; exact H2|lia].
      * (* no improvement (so this is not the first occurrence) *)
        assert (HLE : LE fwd (scoreMatch + bonus * 2) (p2_maxScore st)).
        { unfold LE. destruct fwd; [apply Z.ltb_ge|apply Z.leb_gt]; exact Hbetter. }
        destruct Pre as [(Hr & Hp & Hm)|(Hr & Hp & Hm & Hpos)].
        { exfalso. unfold LE in HLE. rewrite Hm in HLE. destruct fwd; lia. }
        subst rest.
        match goal with |- context [phase2 _ _ _ _ _ _ _ _ _ _ _ _ _ _ ?s] => set (st1 := s) end.
        destruct (IH (S off) [] (scoreMatch + bonus * 2) class false st1) as (Hd & HC).
        { right. subst st1. cbn [p2_pidx p2_maxScore p2_maxPos]. repeat split; try assumption; lia. }
        specialize (Hd eq_refl). subst st1. cbn [p2_maxPos p2_maxScore] in Hd.
        split.
        -- intros _. destruct Hd as [(H1 & H2)|(H1 & H2)]; [left; auto|right; split; [lia|exact H2]].
        -- eapply best_claim_cons; [exact Ef|exact HC|].
           intros _. destruct Hd as [(H1 & H2)|(H1 & H2)].
           ++ rewrite H1, H2. split; [lia|]. intros _. left. exact HLE.
           ++ split; [|lia]. intros _. unfold LT, LE in *. destruct fwd; lia.
    + assert (Hhit : (c =? match rest with p1 :: _ => p1 | [] => p end) = false).
      { destruct Pre as [(Hr & _)|(Hr & _)]; subst rest; apply Z.eqb_neq; exact E. }
      rewrite Hhit.
      match goal with |- context [phase2 _ _ _ _ _ _ _ _ _ _ _ _ _ _ ?s] => set (st1 := s) end.
      match goal with |- context [phase2 _ _ _ _ _ _ _ _ _ _ _ ?h _ _ st1] => set (h1 := h) end.
      destruct (IH (S off) rest h1 class true st1) as (Hd & HC).
      { subst st1. cbn [p2_pidx p2_maxScore p2_maxPos].
        destruct Pre as [Pre|(Hr & Hp & Hm & Hpos)]; [left; exact Pre|right; repeat split; try assumption; lia]. }
      split.
      * intros Hr. specialize (Hd Hr). subst st1. cbn [p2_maxPos p2_maxScore] in Hd.
        destruct Hd as [Hd|(H1 & H2)]; [left; exact Hd|right; split; [lia|exact H2]].
      * eapply best_claim_cons; [exact Ef|exact HC|]. intros Ec. contradiction.
Qed.

(* ---------- value ranges (towards the int16 bound) ---------- *)

Lemma phase2_bounds bmax m1 fwd p0 plast w :
  0 <= s_bw sc <= bmax -> 0 <= s_bd sc <= bmax -> 8 <= bmax ->
  forall off rest ph pc ig st,
  0 <= ph <= scoreMatch + 2 * bmax ->
  Forall (fun h => 0 <= h <= scoreMatch + 2 * bmax) (p2_H0 st) ->
  Forall (fun b => 0 <= b <= bmax) (p2_B st) ->
  0 <= p2_maxScore st <= scoreMatch + 2 * bmax ->
  let st' := phase2 co sc cs nm fwd m1 w off p0 rest plast ph pc ig st in
  Forall (fun h => 0 <= h <= scoreMatch + 2 * bmax) (p2_H0 st') /\
  Forall (fun b => 0 <= b <= bmax) (p2_B st') /\
  0 <= p2_maxScore st' <= scoreMatch + 2 * bmax.
Proof.
  intros Hw Hd H8. induction w as [|c0 w IH]; intros off rest ph pc ig st Hph HH HB HM st'; subst st'.
  - cbn [phase2]. auto.
  - cbn [phase2]. destruct (fold_v2 co sc cs nm c0) as [class c] eqn:Ef. unfold bonus_m.
    assert (Hb : 0 <= bonus_for sc pc class <= bmax).
    { split; [apply bonus_for_nonneg; split; lia|apply bonus_for_le; lia]. }
    set (bonus := bonus_for sc pc class) in *.
    assert (Hs : 0 <= scoreMatch + bonus * 2 <= scoreMatch + 2 * bmax) by (unfold scoreMatch; lia).
    destruct (c =? p0).
    + match goal with |- context [if ?b then mkP2 _ _ _ _ _ _ _ _ _ else _] => destruct b end.
      * cbn [p2_H0 p2_B p2_maxScore]. repeat split; try (constructor; assumption);
          match goal with |- context [if ?b then _ else _] => destruct b end; lia.
      * apply IH; cbn [p2_H0 p2_B p2_maxScore]; try (constructor; assumption); try exact Hs.
        match goal with |- context [if ?b then _ else _] => destruct b end; lia.
    + assert (Hh : 0 <= Z.max (ph + (if ig then scoreGapExt else scoreGapStart)) 0 <= scoreMatch + 2 * bmax).
      { unfold scoreGapExt, scoreGapStart. destruct ig; lia. }
      apply IH; cbn [p2_H0 p2_B p2_maxScore]; try (constructor; assumption); assumption.
Qed.

End Phase2.
