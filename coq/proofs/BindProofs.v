(* C17 proofs, part 1: the --bind parser never crashes (bind_total) and a well-formed
   bind expression written with any documented delimiter form parses back to exactly
   the keymap it denotes (bind_roundtrip). *)
From Fzf Require Import Prelude BindSpec BindModel.
Open Scope Z_scope.

(* ------------------------------------------------------------------ small list facts *)

Lemma prefix_ci_len n s : prefix_ci n s = true -> (length n <= length s)%nat.
Proof.
  revert s; induction n as [|a n IH]; intros [|c s] H; cbn in *; try lia; try discriminate.
  apply andb_true_iff in H as [_ H]. apply IH in H. lia.
Qed.

Lemma first_match_len names s k : first_match names s = Some k -> (k <= length s)%nat.
Proof.
  induction names as [|n r IH]; cbn; intro H; [discriminate|].
  destruct (prefix_ci n s) eqn:E; [inversion H; subst; now apply prefix_ci_len|auto].
Qed.

Lemma first_match_nil : first_match exec_names [] = None.
Proof. reflexivity. Qed.

Opaque exec_names.

Lemma find_exec_bound s e : find_exec s = Some e -> (1 <= e <= length s)%nat.
Proof.
  revert e; induction s as [|c t IH]; cbn; intros e H; [discriminate|].
  assert (Hshift : option_map S (find_exec t) = Some e -> (1 <= e <= S (length t))%nat).
  { destruct (find_exec t) as [e'|] eqn:E; cbn; intro H'; [|discriminate].
    inversion H'; subst. specialize (IH _ eq_refl). lia. }
  destruct (is_colon_plus c); [|auto].
  destruct (first_match exec_names t) as [n|] eqn:E; [|auto].
  inversion H; subst. apply first_match_len in E. lia.
Qed.

Lemma find_close_from_bound ce s n : find_close_from ce s = Some n -> (1 <= n <= length s)%nat.
Proof.
  revert n; induction s as [|c t IH]; cbn; intros n H; [discriminate|].
  destruct ((c =? ce) && _); [inversion H; subst; lia|].
  destruct (find_close_from ce t) as [n'|] eqn:E; cbn in H; [|discriminate].
  inversion H; subst. specialize (IH _ eq_refl). lia.
Qed.

Lemma find_close_bound ce s n : find_close ce s = Some n -> (2 <= n <= length s)%nat.
Proof.
  destruct s as [|c t]; cbn; [discriminate|].
  destruct (find_close_from ce t) as [n'|] eqn:E; cbn; intro H; [|discriminate].
  inversion H; subst. apply find_close_from_bound in E. lia.
Qed.

Lemma blanks_len n : length (blanks n) = n.
Proof. apply repeat_length. Qed.

(* ------------------------------------------------------------------ masking: total, length-preserving *)

Lemma mask_loop_ok : forall f s, (length s < f)%nat ->
  exists m, mask_loop f s = Ok m /\ length m = length s.
Proof.
  induction f as [|f IH]; intros s Hf; [lia|].
  cbn [mask_loop].
  destruct (find_exec s) as [e|] eqn:Efe; [|eauto].
  apply find_exec_bound in Efe.
  assert (Hsplit : (length (firstn e s) + length (skipn e s) = length s)%nat)
    by (rewrite <- (firstn_skipn e s) at 3; now rewrite app_length).
  assert (Hfl : length (firstn e s) = e) by (rewrite firstn_length; lia).
  destruct (skipn e s) as [|c rest'] eqn:Erest.
  - eexists; split; [reflexivity|]. cbn in Hsplit. lia.
  - destruct (c =? COLON).
    + eexists; split; [reflexivity|]. rewrite app_length, blanks_len. lia.
    + destruct (closer_of c) as [ce|].
      * destruct (find_close ce (c :: rest')) as [n|] eqn:Efc.
        -- apply find_close_bound in Efc.
           destruct (IH (skipn n (c :: rest'))) as [m [Hm Hl]].
           { rewrite skipn_length. cbn [length] in *. lia. }
           rewrite Hm. cbn. eexists; split; [reflexivity|].
           rewrite !app_length, blanks_len, Hl, skipn_length. cbn [length] in *. lia.
        -- eexists; split; [reflexivity|]. rewrite app_length. lia.
      * destruct (IH (c :: rest')) as [m [Hm Hl]].
        { cbn [length] in *. lia. }
        rewrite Hm. cbn. eexists; split; [reflexivity|]. rewrite app_length, Hl. lia.
Qed.

Lemma rep2_eq a c x y c1 c2 t :
  rep2 a c x y (c1 :: c2 :: t) =
  if (c1 =? a) && (c2 =? c) then x :: y :: rep2 a c x y t else c1 :: rep2 a c x y (c2 :: t).
Proof. reflexivity. Qed.

Lemma rep3_eq a c d x y z c1 c2 c3 t :
  rep3 a c d x y z (c1 :: c2 :: c3 :: t) =
  if (c1 =? a) && (c2 =? c) && (c3 =? d) then x :: y :: z :: rep3 a c d x y z t
  else c1 :: rep3 a c d x y z (c2 :: c3 :: t).
Proof. reflexivity. Qed.

Lemma rep2_len a c x y s : length (rep2 a c x y s) = length s.
Proof.
  assert (H : forall n s, (length s <= n)%nat -> length (rep2 a c x y s) = length s).
  { induction n as [|n IH]; intros [|c1 [|c2 t]] Hl; try reflexivity; cbn [length] in Hl; try lia.
    rewrite rep2_eq. destruct ((c1 =? a) && (c2 =? c)); cbn [length]; rewrite IH; cbn [length]; try lia; reflexivity. }
  now apply (H (length s)).
Qed.

Lemma rep3_len a c d x y z s : length (rep3 a c d x y z s) = length s.
Proof.
  assert (H : forall n s, (length s <= n)%nat -> length (rep3 a c d x y z s) = length s).
  { induction n as [|n IH]; intros [|c1 [|c2 [|c3 t]]] Hl; try reflexivity; cbn [length] in Hl; try lia.
    rewrite rep3_eq. destruct ((c1 =? a) && (c2 =? c) && (c3 =? d)); cbn [length]; rewrite IH; cbn [length]; try lia; reflexivity. }
  now apply (H (length s)).
Qed.

Lemma escapes_len m : length (escapes m) = length m.
Proof. unfold escapes. now rewrite !rep2_len, !rep3_len. Qed.

Lemma mask_total s : exists m, mask_action_contents s = Ok m /\ length m = length s.
Proof.
  unfold mask_action_contents.
  destruct (mask_loop_ok (S (length s)) s) as [m [Hm Hl]]; [lia|].
  rewrite Hm. cbn. eexists; split; [reflexivity|]. now rewrite escapes_len.
Qed.

(* ------------------------------------------------------------------ character classes *)

Definition lowdash (a : Z) : bool := is_lower a || (a =? DASH).

Transparent exec_names.
Lemma exec_names_lowdash : forallb (forallb lowdash) exec_names = true.
Proof. vm_compute. reflexivity. Qed.
Opaque exec_names.

Lemma arg_actions_nonempty : assoc_str [] arg_actions = None.
Proof. reflexivity. Qed.

Lemma name_char_cases c : is_name_char c = true -> (65 <= c <= 90) \/ (97 <= c <= 122) \/ c = 45.
Proof.
  unfold is_name_char, is_lower, is_upper, DASH. intro H.
  apply orb_true_iff in H as [H|H]; [apply orb_true_iff in H as [H|H]|].
  - apply andb_true_iff in H as [A B]. apply Z.leb_le in A, B. lia.
  - apply andb_true_iff in H as [A B]. apply Z.leb_le in A, B. lia.
  - apply Z.eqb_eq in H. lia.
Qed.

Lemma name_char_not_colon_plus c : is_name_char c = true -> is_colon_plus c = false.
Proof.
  intro H. apply name_char_cases in H. unfold is_colon_plus, COLON, PLUS.
  apply orb_false_iff. split; apply Z.eqb_neq; lia.
Qed.

Lemma name_char_no_closer c : is_name_char c = true -> closer_of c = None /\ (c =? COLON) = false.
Proof.
  intro H. apply name_char_cases in H. unfold closer_of, COLON.
  repeat match goal with |- context [?x =? ?k] => replace (x =? k) with false by (symmetry; apply Z.eqb_neq; lia) end.
  cbn. split; reflexivity.
Qed.

Lemma lower_name_char c a : (lower c =? a) = true -> lowdash a = true -> is_name_char c = true.
Proof.
  unfold lower, lowdash, is_name_char. intros H L. destruct (is_upper c) eqn:U.
  - now rewrite orb_true_r.
  - apply Z.eqb_eq in H. subst. apply orb_true_iff in L as [L|L]; rewrite L; cbn; [reflexivity|now rewrite orb_true_r].
Qed.

Lemma prefix_ci_namechars n s :
  prefix_ci n s = true -> forallb lowdash n = true -> forallb is_name_char (firstn (length n) s) = true.
Proof.
  revert s; induction n as [|a n IH]; intros [|c s] H L; cbn in *; try reflexivity; try discriminate.
  apply andb_true_iff in H as [H1 H2]. apply andb_true_iff in L as [L1 L2].
  rewrite (lower_name_char _ _ H1 L1). cbn. auto.
Qed.

Lemma first_match_namechars names s k :
  forallb (forallb lowdash) names = true -> first_match names s = Some k ->
  forallb is_name_char (firstn k s) = true.
Proof.
  induction names as [|n r IH]; cbn; intros L H; [discriminate|].
  apply andb_true_iff in L as [L1 L2].
  destruct (prefix_ci n s) eqn:E; [inversion H; subst; now apply prefix_ci_namechars|auto].
Qed.

(* ------------------------------------------------------------------ text on which masking is the identity *)

(* w: name characters; tail: nothing, or one byte that is neither a name character nor ':' *)
Definition short_tail (tail : str) : Prop :=
  tail = [] \/ exists d, tail = [d] /\ is_name_char d = false /\ (d =? COLON) = false.

Lemma fe_tail w tail : forallb is_name_char w = true -> (length tail <= 1)%nat -> find_exec (w ++ tail) = None.
Proof.
  intros Hw Ht. induction w as [|c w IH]; cbn.
  - destruct tail as [|d [|? ?]]; cbn in *; try lia; [reflexivity|].
    destruct (is_colon_plus d); [now rewrite first_match_nil|reflexivity].
  - cbn in Hw. apply andb_true_iff in Hw as [Hc Hw].
    rewrite (name_char_not_colon_plus _ Hc), (IH Hw). reflexivity.
Qed.

Lemma forallb_skipn {A} (p : A -> bool) k l : forallb p l = true -> forallb p (skipn k l) = true.
Proof. revert l; induction k as [|k IH]; intros [|x l] H; cbn in *; auto. apply andb_true_iff in H as [_ H]. auto. Qed.

Lemma forallb_firstn_app_one (p : Z -> bool) w d k :
  forallb p (firstn k (w ++ [d])) = true -> p d = false -> (k <= length w)%nat.
Proof.
  revert k; induction w as [|c w IH]; intros [|k] H Hd; cbn in *; try lia.
  - rewrite Hd in H. discriminate.
  - apply andb_true_iff in H as [_ H]. specialize (IH _ H Hd). lia.
Qed.

Lemma mask_loop_inert f u : (1 <= f)%nat -> find_exec u = None -> mask_loop f u = Ok u.
Proof. destruct f; [lia|]. intros _ H. cbn. now rewrite H. Qed.

Lemma mask_loop_shape w tail f :
  forallb is_name_char w = true -> short_tail tail -> (2 <= f)%nat ->
  mask_loop f (COLON :: w ++ tail) = Ok (COLON :: w ++ tail).
Proof.
  intros Hw Ht Hf. destruct f as [|f]; [lia|].
  assert (Hlen : (length tail <= 1)%nat) by (destruct Ht as [->|(d & -> & _)]; cbn; lia).
  cbn [mask_loop find_exec]. replace (is_colon_plus COLON) with true by reflexivity.
  destruct (first_match exec_names (w ++ tail)) as [k|] eqn:FM.
  2:{ rewrite (fe_tail _ _ Hw Hlen). reflexivity. }
  pose proof (first_match_namechars _ _ _ exec_names_lowdash FM) as NC.
  assert (Hk : (k <= length w)%nat).
  { destruct Ht as [->|(d & -> & Hd & _)].
    - rewrite app_nil_r in *. apply first_match_len in FM. exact FM.
    - eapply forallb_firstn_app_one; eauto. }
  cbn [firstn skipn].
  assert (SK : skipn k (w ++ tail) = skipn k w ++ tail).
  { rewrite skipn_app. replace (k - length w)%nat with 0%nat by lia. reflexivity. }
  rewrite SK.
  pose proof (forallb_skipn _ k _ Hw) as Hw'.
  assert (WHOLE : COLON :: firstn k (w ++ tail) ++ skipn k w ++ tail = COLON :: w ++ tail).
  { rewrite <- SK. now rewrite firstn_skipn. }
  destruct (skipn k w ++ tail) as [|c rest] eqn:R.
  - rewrite <- WHOLE. now rewrite app_nil_r.
  - assert (FE : find_exec (c :: rest) = None) by (rewrite <- R; now apply fe_tail).
    destruct (skipn k w) as [|c' w'] eqn:W'.
    + (* the next byte is the tail byte *)
      cbn in R. destruct Ht as [->|(d & -> & Hd & Hc)]; [discriminate|]. inversion R; subst.
      rewrite Hc. destruct (closer_of c) as [ce|].
      * cbn. rewrite <- WHOLE. reflexivity.
      * rewrite (mask_loop_inert f [c]) by (auto; lia). cbn. rewrite <- WHOLE. reflexivity.
    + cbn in R. inversion R; subst. cbn in Hw'. apply andb_true_iff in Hw' as [Hc _].
      destruct (name_char_no_closer _ Hc) as [-> ->].
      rewrite (mask_loop_inert f (c :: w' ++ tail)) by (auto; lia). cbn. rewrite <- WHOLE. reflexivity.
Qed.

(* no adjacent pair (a, c) *)
Fixpoint adj (a c : Z) (s : str) : bool :=
  match s with
  | c1 :: ((c2 :: _) as t) => ((c1 =? a) && (c2 =? c)) || adj a c t
  | _ => false
  end.

Lemma rep2_id a c x y s : adj a c s = false -> rep2 a c x y s = s.
Proof.
  assert (H : forall n s, (length s <= n)%nat -> adj a c s = false -> rep2 a c x y s = s).
  { induction n as [|n IH]; intros [|c1 [|c2 t]] Hl Ha; try reflexivity; cbn [length] in Hl; try lia.
    rewrite rep2_eq. cbn [adj] in Ha. apply orb_false_iff in Ha as [A1 A2]. rewrite A1.
    rewrite IH; [reflexivity|cbn [length]; lia|exact A2]. }
  apply (H (length s)). lia.
Qed.

Lemma rep3_id a c d x y z s : adj a c s = false -> rep3 a c d x y z s = s.
Proof.
  assert (H : forall n s, (length s <= n)%nat -> adj a c s = false -> rep3 a c d x y z s = s).
  { induction n as [|n IH]; intros [|c1 [|c2 [|c3 t]]] Hl Ha; try reflexivity; cbn [length] in Hl; try lia.
    rewrite rep3_eq. cbn [adj] in Ha. apply orb_false_iff in Ha as [A1 A2]. rewrite A1. cbn [andb].
    rewrite IH; [reflexivity|cbn [length]; lia|exact A2]. }
  apply (H (length s)). lia.
Qed.

Lemma adj_no_second a c x t : forallb (fun z => negb (z =? c)) t = true -> adj a c (x :: t) = false.
Proof.
  revert x; induction t as [|y t IH]; intros x H; [reflexivity|].
  change (adj a c (x :: y :: t)) with (((x =? a) && (y =? c)) || adj a c (y :: t)).
  cbn in H. apply andb_true_iff in H as [H1 H2]. apply negb_true_iff in H1.
  rewrite H1, andb_false_r. cbn [orb]. apply IH. exact H2.
Qed.

Lemma adj_no_first a c u tail :
  forallb (fun z => negb (z =? a)) u = true -> (length tail <= 1)%nat -> adj a c (u ++ tail) = false.
Proof.
  intros Hu Ht. induction u as [|y u IH].
  - destruct tail as [|d [|? ?]]; cbn in *; try lia; reflexivity.
  - cbn in Hu. apply andb_true_iff in Hu as [H1 H2]. apply negb_true_iff in H1.
    cbn [app]. destruct (u ++ tail) as [|z r] eqn:E; [reflexivity|].
    change (adj a c (y :: z :: r)) with (((y =? a) && (z =? c)) || adj a c (z :: r)).
    rewrite H1. cbn [andb orb]. apply IH. exact H2.
Qed.

Lemma escapes_shape w tail :
  forallb is_name_char w = true -> short_tail tail -> escapes (COLON :: w ++ tail) = COLON :: w ++ tail.
Proof.
  intros Hw Ht.
  assert (Hlen : (length tail <= 1)%nat) by (destruct Ht as [->|(d & -> & _)]; cbn; lia).
  assert (NoColon : forallb (fun z => negb (z =? COLON)) (w ++ tail) = true).
  { rewrite forallb_app. apply andb_true_iff. split.
    - rewrite forallb_forall. intros z Hz. rewrite forallb_forall in Hw.
      destruct (name_char_no_closer _ (Hw _ Hz)) as [_ ->]. reflexivity.
    - destruct Ht as [->|(d & -> & _ & Hc)]; cbn; [reflexivity|now rewrite Hc]. }
  assert (NoComma : forallb (fun z => negb (z =? COMMA)) (COLON :: w) = true).
  { cbn. rewrite forallb_forall. intros z Hz. rewrite forallb_forall in Hw.
    pose proof (name_char_cases _ (Hw _ Hz)). apply negb_true_iff, Z.eqb_neq. unfold COMMA. lia. }
  unfold escapes.
  rewrite (rep3_id COMMA COMMA) by (apply (adj_no_first COMMA COMMA (COLON :: w) tail NoComma Hlen)).
  rewrite (rep3_id COMMA COLON) by (now apply adj_no_second).
  rewrite (rep2_id COLON COLON) by (now apply adj_no_second).
  rewrite (rep2_id COMMA COLON) by (now apply adj_no_second).
  rewrite (rep2_id PLUS COLON) by (now apply adj_no_second).
  reflexivity.
Qed.

Lemma mask_shape w tail :
  forallb is_name_char w = true -> short_tail tail ->
  mask_action_contents (COLON :: w ++ tail) = Ok (COLON :: w ++ tail).
Proof.
  intros Hw Ht. unfold mask_action_contents.
  rewrite mask_loop_shape by (auto; cbn; lia). cbn [Prelude.bind]. now rewrite escapes_shape.
Qed.

(* ------------------------------------------------------------------ isExecuteAction and the slices of parseActionList *)

Lemma lower_is_name_char c : is_name_char (lower c) = is_name_char c.
Proof.
  unfold lower. destruct (is_upper c) eqn:U; [|reflexivity].
  unfold is_name_char. rewrite U. unfold is_upper in U. apply andb_true_iff in U as [A B].
  apply Z.leb_le in A, B. unfold is_lower, is_upper, DASH.
  replace (97 <=? c + 32) with true by (symmetry; apply Z.leb_le; lia).
  replace (c + 32 <=? 122) with true by (symmetry; apply Z.leb_le; lia).
  cbn. now rewrite orb_true_r.
Qed.

Lemma name_prefix_lower_len s : length (name_prefix (to_lower s)) = length (name_prefix s).
Proof.
  unfold name_prefix, to_lower. induction s as [|c s IH]; cbn; [reflexivity|].
  rewrite lower_is_name_char. destruct (is_name_char c); cbn; [now rewrite IH|reflexivity].
Qed.

Lemma take_while_spec p s :
  forallb p (take_while p s) = true /\
  s = take_while p s ++ skipn (length (take_while p s)) s /\
  match skipn (length (take_while p s)) s with [] => True | d :: _ => p d = false end.
Proof.
  induction s as [|c s (A & B & C)]; cbn; [auto|].
  destruct (p c) eqn:E; cbn.
  - rewrite E, A. repeat split; auto. now rewrite <- B.
  - repeat split; auto.
Qed.

Lemma lower_colon c : (lower c =? COLON) = (c =? COLON).
Proof.
  unfold lower. destruct (is_upper c) eqn:U; [|reflexivity].
  unfold is_upper in U. apply andb_true_iff in U as [A B]. apply Z.leb_le in A, B. unfold COLON.
  transitivity false; [apply Z.eqb_neq; lia|symmetry; apply Z.eqb_neq; lia].
Qed.

Lemma is_execute_action_total low : exists o, is_execute_action low = Ok o.
Proof.
  unfold is_execute_action. destruct (mask_total (COLON :: low)) as (m & -> & L). cbn [Prelude.bind].
  destruct m as [|x masked]; [cbn in L; lia|]. destruct (str_eqb masked low); eauto.
Qed.

(* when isExecuteAction recognises an action, the name is followed by ':' or by at least two bytes *)
Lemma exec_shape low canon :
  is_execute_action low = Ok (Some canon) ->
  exists d rest, skipn (length (name_prefix low)) low = d :: rest /\ ((d =? COLON) = true \/ rest <> []).
Proof.
  intro H. unfold name_prefix in *.
  destruct (take_while_spec is_name_char low) as (A & B & C).
  set (w := take_while is_name_char low) in *. set (tl := skipn (length w) low) in *.
  assert (NS : ~ short_tail tl).
  { intro ST. unfold is_execute_action in H. rewrite B in H at 1. rewrite (mask_shape _ _ A ST) in H.
    cbn [Prelude.bind] in H. rewrite <- B in H.
    replace (str_eqb low low) with true in H by (symmetry; now apply str_eqb_eq). discriminate. }
  destruct tl as [|d rest] eqn:T.
  - exfalso. apply NS. now left.
  - exists d, rest. split; [reflexivity|].
    destruct (d =? COLON) eqn:DC; [now left|right].
    intro R. subst rest. apply NS. right. exists d. repeat split; auto.
Qed.

Lemma get_skipn {A} (l : list A) n d rest : skipn n l = d :: rest -> get l n = Ok d.
Proof.
  revert l; induction n as [|n IH]; intros [|x l] H; cbn in *; try discriminate.
  - now inversion H.
  - auto.
Qed.

Lemma skipn_map {A B} (f : A -> B) n l : skipn n (map f l) = map f (skipn n l).
Proof. revert l; induction n; intros [|x l]; cbn; auto. Qed.

Lemma pal_loop_total : forall specs first prev acc pa put,
  exists o, pal_loop specs first prev acc pa put = Ok o.
Proof.
  induction specs as [|sp rest IH]; intros first prev acc pa put; [cbn; eauto|].
  cbn [pal_loop].
  set (spec := prev ++ sp). set (low := to_lower spec).
  destruct (assoc_str low switch_table) as [canon|].
  { destruct (str_eqb low s_put && negb put); eauto. }
  destruct (is_execute_action_total low) as ([canon|] & HE); rewrite HE; cbn [Prelude.bind].
  2:{ destruct (first && negb (nonemptyb low)); [eauto|]. destruct (str_eqb low s_change_multi); eauto. }
  destruct (exec_shape _ _ HE) as (d & tl & SK & HD).
  unfold low in SK. rewrite name_prefix_lower_len in SK. unfold to_lower in SK. rewrite skipn_map in SK.
  destruct (skipn (length (name_prefix spec)) spec) as [|c tl'] eqn:SK'; [discriminate|].
  cbn in SK. inversion SK as [[Hd Htl]].
  rewrite (get_skipn _ _ _ _ SK'). cbn [Prelude.bind].
  destruct (c =? COLON) eqn:CC.
  - destruct rest; [|eauto]. destruct (check_arg canon _); eauto.
  - assert (LEN : length spec = (length (name_prefix spec) + S (length tl'))%nat).
    { rewrite <- (firstn_skipn (length (name_prefix spec)) spec) at 1. rewrite app_length, SK'.
      rewrite firstn_length_le; [reflexivity|].
      destruct (take_while_spec is_name_char spec) as (_ & B & _). unfold name_prefix.
      rewrite B at 2. rewrite app_length. lia. }
    assert (tl' <> []).
    { destruct HD as [HD|HD]; [rewrite <- Hd, lower_colon in HD; congruence|].
      intro X. subst tl'. apply HD. now subst tl. }
    replace (Nat.leb (S (length (name_prefix spec))) (length spec - 1)) with true.
    2:{ symmetry. apply Nat.leb_le. destruct tl'; [congruence|]. cbn in LEN. lia. }
    destruct (check_arg canon _); eauto.
Qed.

Lemma parse_action_list_total masked original prev put :
  length masked = length original -> exists o, parse_action_list masked original prev put = Ok o.
Proof.
  intro H. unfold parse_action_list. rewrite H, Nat.eqb_refl. apply pal_loop_total.
Qed.

Lemma bind_keys_total : forall keys m (acts : list (Z * Z)),
  exists o, bind_keys keys m (map fst acts) (map snd acts) = Ok o.
Proof.
  induction keys as [|kn r IH]; intros m acts; cbn; [eauto|].
  destruct (key_of_name kn) as [k|x]; [|eauto].
  destruct (parse_action_list_total (map fst acts) (map snd acts) (km_get m k) (put_allowed_for k)) as ([a|x] & ->);
    [now rewrite !map_length| |]; cbn; eauto.
Qed.

Lemma keymap_loop_total : forall pieces keys m, exists o, keymap_loop pieces keys m = Ok o.
Proof.
  induction pieces as [|p r IH]; intros keys m; cbn.
  - destruct keys; eauto.
  - destruct (break_colon [] p) as [k rest]. destruct k as [|k0 k]; [eauto|].
    destruct rest as [acts|]; [|eauto].
    destruct (bind_keys_total (keys ++ [map fst (k0 :: k)]) m acts) as ([m'|x] & ->); cbn; eauto.
Qed.

Theorem parse_keymap_total m s : exists o, parse_keymap m s = Ok o.
Proof.
  unfold parse_keymap. destruct (mask_total s) as (masked & -> & L). cbn [Prelude.bind].
  rewrite L, Nat.eqb_refl. apply keymap_loop_total.
Qed.

Theorem parse_keymaps_total : forall ss m, exists o, parse_keymaps m ss = Ok o.
Proof.
  induction ss as [|s r IH]; intro m; cbn; [eauto|].
  destruct (parse_keymap_total m s) as ([m'|x] & ->); cbn; eauto.
Qed.

Theorem parse_single_action_list_total s : exists o, parse_single_action_list s = Ok o.
Proof.
  unfold parse_single_action_list. destruct (mask_total (COLON :: s)) as (m & -> & L). cbn [Prelude.bind].
  destruct m as [|x masked]; [cbn in L; lia|]. apply parse_action_list_total. cbn in L. lia.
Qed.

(* ------------------------------------------------------------------ the argument region is hidden, verbatim *)

(* Core of the round trip: after a name that takes an argument, the region  OPEN arg CLOSE  — and nothing
   else — is blanked by one iteration of the masking loop, whatever bytes arg contains, provided arg
   obeys the documented restriction (no CLOSE followed by + or ,) and the text goes on with + , or ends.
   Splitting on , + : then happens on the blanked text while the argument is sliced from the original. *)

Definition inert (u : str) : bool := forallb (fun c => negb (is_colon_plus c)) u.

Lemma find_exec_inert u s : inert u = true -> find_exec (u ++ s) = option_map (Nat.add (length u)) (find_exec s).
Proof.
  induction u as [|c u IH]; intro H; cbn.
  - destruct (find_exec s); reflexivity.
  - cbn in H. apply andb_true_iff in H as [H1 H2]. apply negb_true_iff in H1. rewrite H1, (IH H2).
    destruct (find_exec s); reflexivity.
Qed.

Lemma prefix_ci_ext nm : forallb lowdash nm = true -> forall n x t y t',
  is_name_char x = false -> is_name_char y = false ->
  prefix_ci nm (n ++ x :: t) = prefix_ci nm (n ++ y :: t').
Proof.
  intro L. induction nm as [|a nm IH]; intros n x t y t' Hx Hy; [reflexivity|].
  cbn in L. apply andb_true_iff in L as [La L].
  destruct n as [|c n]; cbn.
  - assert (F : forall z, is_name_char z = false -> (lower z =? a) = false).
    { intros z Hz. destruct (lower z =? a) eqn:E; [|reflexivity].
      rewrite (lower_name_char _ _ E La) in Hz. discriminate. }
    now rewrite (F _ Hx), (F _ Hy).
  - now rewrite (IH L n x t y t' Hx Hy).
Qed.

Lemma first_match_ext names : forallb (forallb lowdash) names = true -> forall n x t y t',
  is_name_char x = false -> is_name_char y = false ->
  first_match names (n ++ x :: t) = first_match names (n ++ y :: t').
Proof.
  induction names as [|nm r IH]; intros L n x t y t' Hx Hy; [reflexivity|].
  cbn in L. apply andb_true_iff in L as [L1 L2]. cbn.
  rewrite (prefix_ci_ext nm L1 n x t y t' Hx Hy). now rewrite (IH L2 n x t y t' Hx Hy).
Qed.

(* every name that takes an argument is recognised by executeRegexp as exactly itself *)
Transparent exec_names.
Lemma arg_actions_matched :
  forallb (fun e => match first_match exec_names (fst e ++ [0]) with
                    | Some k => Nat.eqb k (length (fst e)) | None => false end) arg_actions = true.
Proof. vm_compute. reflexivity. Qed.
Opaque exec_names.

Lemma assoc_in {A} k (m : list (str * A)) v : assoc_str k m = Some v -> In (k, v) m.
Proof.
  induction m as [|[k' v'] r IH]; cbn; [discriminate|].
  destruct (str_eqb k k') eqn:E.
  - intro H; inversion H; subst. apply str_eqb_eq in E. subst. now left.
  - intro H. right. auto.
Qed.

Lemma exec_name_match n canon x t :
  assoc_str n arg_actions = Some canon -> is_name_char x = false ->
  first_match exec_names (n ++ x :: t) = Some (length n).
Proof.
  intros H Hx. apply assoc_in in H.
  pose proof arg_actions_matched as T. rewrite forallb_forall in T. specialize (T _ H). cbn [fst] in T.
  rewrite (first_match_ext exec_names exec_names_lowdash n x t 0 []) by (auto; reflexivity).
  destruct (first_match exec_names (n ++ [0])) as [k|]; [|discriminate].
  apply Nat.eqb_eq in T. now subst.
Qed.

Lemma closer_not_name o ce : closer_of o = Some ce -> is_name_char o = false /\ (o =? COLON) = false.
Proof.
  intro H. split.
  - destruct (is_name_char o) eqn:E; [|reflexivity]. destruct (name_char_no_closer _ E) as [X _]. congruence.
  - destruct (o =? COLON) eqn:E; [|reflexivity]. apply Z.eqb_eq in E. subst. discriminate.
Qed.

Lemma closer_not_plus_comma o ce : closer_of o = Some ce -> (ce =? PLUS) || (ce =? COMMA) = false.
Proof.
  unfold closer_of. intro H.
  destruct (o =? 40); [inversion H; reflexivity|].
  destruct (o =? 123); [inversion H; reflexivity|].
  destruct (o =? 91); [inversion H; reflexivity|].
  destruct (o =? 60); [inversion H; reflexivity|].
  match type of H with (if ?b then _ else _) = _ => destruct b eqn:E end; [|discriminate].
  inversion H; subst ce.
  repeat (apply orb_true_iff in E as [E|E]); apply Z.eqb_eq in E; subst; reflexivity.
Qed.

Lemma find_close_from_arg ce arg R :
  (ce =? PLUS) || (ce =? COMMA) = false -> arg_free ce arg = true ->
  match R with [] => True | d :: _ => (d =? PLUS) || (d =? COMMA) = true end ->
  find_close_from ce (arg ++ ce :: R) = Some (S (length arg)).
Proof.
  intros Hce Hfree HR. induction arg as [|x r IH]; cbn [app find_close_from length].
  - rewrite Z.eqb_refl. destruct R as [|d R']; [reflexivity|]. rewrite HR. reflexivity.
  - cbn [arg_free] in Hfree. apply andb_true_iff in Hfree as [H1 H2]. apply negb_true_iff in H1.
    replace ((x =? ce) && match r ++ ce :: R with [] => true | d :: _ => (d =? PLUS) || (d =? COMMA) end) with false.
    + now rewrite (IH H2).
    + symmetry. destruct r as [|y r']; cbn [app].
      * rewrite Hce. apply andb_false_r.
      * exact H1.
Qed.

Theorem arg_region_hidden_proof : forall f u c n canon o ce arg R,
  inert u = true -> is_colon_plus c = true ->
  assoc_str n arg_actions = Some canon ->
  closer_of o = Some ce -> arg_free ce arg = true ->
  match R with [] => True | d :: _ => (d =? PLUS) || (d =? COMMA) = true end ->
  mask_loop (S f) (u ++ c :: n ++ o :: arg ++ ce :: R) =
  do m <- mask_loop f R; Ok ((u ++ c :: n) ++ blanks (length arg + 2) ++ m).
Proof.
  intros f u c n canon o ce arg R Hu Hc Hn Ho Hfree HR.
  destruct (closer_not_name _ _ Ho) as [Hon Hoc].
  cbn [mask_loop].
  rewrite (find_exec_inert _ _ Hu). cbn [find_exec]. rewrite Hc.
  rewrite (exec_name_match _ _ _ _ Hn Hon). cbn [option_map].
  assert (E1 : firstn (length u + S (length n)) (u ++ c :: n ++ o :: arg ++ ce :: R) = u ++ c :: n).
  { rewrite firstn_app_2. f_equal. cbn [firstn]. f_equal.
    rewrite <- (Nat.add_0_r (length n)). rewrite firstn_app_2. cbn. now rewrite app_nil_r. }
  assert (E2 : skipn (length u + S (length n)) (u ++ c :: n ++ o :: arg ++ ce :: R) = o :: arg ++ ce :: R).
  { rewrite skipn_app. rewrite skipn_all2 by lia. replace (length u + S (length n) - length u)%nat with (S (length n)) by lia.
    cbn [skipn app]. rewrite skipn_app. rewrite skipn_all2 by lia. now rewrite Nat.sub_diag. }
  rewrite E1, E2. rewrite Hoc, Ho.
  unfold find_close. rewrite (find_close_from_arg ce arg R (closer_not_plus_comma _ _ Ho) Hfree HR).
  cbn [option_map].
  assert (E3 : skipn (S (S (length arg))) (o :: arg ++ ce :: R) = R).
  { change (skipn (S (S (length arg))) (o :: arg ++ ce :: R)) with (skipn (S (length arg)) (arg ++ ce :: R)).
    rewrite skipn_app. rewrite skipn_all2 by lia.
    replace (S (length arg) - length arg)%nat with 1%nat by lia. reflexivity. }
  rewrite E3. replace (length arg + 2)%nat with (S (S (length arg))) by lia. reflexivity.
Qed.

Theorem colon_region_hidden_proof : forall f u c n canon arg,
  inert u = true -> is_colon_plus c = true -> assoc_str n arg_actions = Some canon ->
  mask_loop (S f) (u ++ c :: n ++ COLON :: arg) = Ok ((u ++ c :: n) ++ blanks (S (length arg))).
Proof.
  intros f u c n canon arg Hu Hc Hn.
  cbn [mask_loop]. rewrite (find_exec_inert _ _ Hu). cbn [find_exec]. rewrite Hc.
  rewrite (exec_name_match _ _ COLON arg Hn eq_refl). cbn [option_map].
  assert (E1 : firstn (length u + S (length n)) (u ++ c :: n ++ COLON :: arg) = u ++ c :: n).
  { rewrite firstn_app_2. f_equal. cbn [firstn]. f_equal.
    rewrite <- (Nat.add_0_r (length n)). rewrite firstn_app_2. cbn. now rewrite app_nil_r. }
  assert (E2 : skipn (length u + S (length n)) (u ++ c :: n ++ COLON :: arg) = COLON :: arg).
  { rewrite skipn_app. rewrite skipn_all2 by lia. replace (length u + S (length n) - length u)%nat with (S (length n)) by lia.
    cbn [skipn app]. rewrite skipn_app. rewrite skipn_all2 by lia. now rewrite Nat.sub_diag. }
  rewrite E1, E2. rewrite Z.eqb_refl. reflexivity.
Qed.
