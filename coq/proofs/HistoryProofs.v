(* C18 proofs: history.go model refines the history spec. *)
From Fzf Require Import Prelude HistorySpec HistoryModel.
Open Scope Z_scope.

(* ---------- list utilities ---------- *)

Lemma last_n_all {A} n (l : list A) : (length l <= n)%nat -> last_n n l = l.
Proof. intros H. unfold last_n. replace (length l - n)%nat with 0%nat by lia. reflexivity. Qed.

Lemma last_n_app_one {A} n (l : list A) x : (1 <= n)%nat ->
  last_n n (l ++ [x]) = last_n (n - 1) l ++ [x].
Proof.
  intros Hn. unfold last_n. rewrite app_length. cbn [length].
  destruct (Nat.le_gt_cases (length l) (n - 1)) as [H|H].
  - replace (length l + 1 - n)%nat with 0%nat by lia.
    replace (length l - (n - 1))%nat with 0%nat by lia. reflexivity.
  - replace (length l + 1 - n)%nat with (length l - (n - 1))%nat by lia.
    rewrite skipn_app. replace (length l - (n - 1) - length l)%nat with 0%nat by lia. reflexivity.
Qed.

Lemma last_n_length {A} n (l : list A) : (length (last_n n l) <= n)%nat.
Proof. unfold last_n. rewrite skipn_length. lia. Qed.

Lemma skipn_skipn' {A} a b (l : list A) : skipn a (skipn b l) = skipn (b + a) l.
Proof. revert l; induction b as [|b IH]; intros l; [reflexivity|]. destruct l; cbn; [now destruct a|apply IH]. Qed.

Lemma last_n_last_n_pred {A} n (l : list A) :
  last_n (n - 1) (last_n n l) = last_n (n - 1) l.
Proof.
  unfold last_n. rewrite skipn_length, skipn_skipn'. f_equal. lia.
Qed.

Lemma get_app_last {A} (l : list A) x : get (l ++ [x]) (length l) = Ok x.
Proof. induction l; cbn; auto. Qed.

Lemma get_app_l {A} (l m : list A) i : (i < length l)%nat -> get (l ++ m) i = get l i.
Proof. revert i; induction l as [|a l IH]; intros [|i] H; cbn in *; try lia; auto. apply IH. lia. Qed.

Lemma get_lt {A} (l : list A) i : (i < length l)%nat -> exists x, get l i = Ok x.
Proof. revert i; induction l as [|a l IH]; intros [|i] H; cbn in *; try lia; eauto. apply IH. lia. Qed.

Lemma set_nth_app_last {A} (l : list A) x y : set_nth (l ++ [x]) (length l) y = Ok (l ++ [y]).
Proof. induction l as [|a l IH]; cbn; auto. rewrite IH. reflexivity. Qed.

Lemma removelast_app_one {A} (l : list A) x : removelast (l ++ [x]) = l.
Proof. apply removelast_last. Qed.

(* ---------- strings: split / trim / render ---------- *)

Definition nl_free (s : str) : Prop := Forall (fun c => c <> NL) s.

Lemma split_nl_aux_nonnil cur s : split_nl_aux cur s <> [].
Proof. revert cur; induction s as [|c s IH]; intros cur; cbn; [discriminate|]. destruct (c =? NL); [discriminate|apply IH]. Qed.

Lemma split_nl_aux_free cur s : nl_free s -> split_nl_aux cur s = [rev cur ++ s].
Proof.
  revert cur; induction s as [|c s IH]; intros cur H; cbn.
  - now rewrite app_nil_r.
  - inversion H as [|? ? Hc Hs]; subst. apply Z.eqb_neq in Hc. rewrite Hc. rewrite IH by assumption.
    cbn [rev]. now rewrite <- app_assoc.
Qed.

Lemma split_nl_aux_app cur a s : nl_free a ->
  split_nl_aux cur (a ++ NL :: s) = (rev cur ++ a) :: split_nl_aux [] s.
Proof.
  revert cur; induction a as [|c a IH]; intros cur H; cbn [app split_nl_aux].
  - change (NL =? NL) with true. cbn iota. now rewrite app_nil_r.
  - inversion H as [|? ? Hc Ha]; subst. apply Z.eqb_neq in Hc. rewrite Hc. rewrite IH by assumption.
    cbn [rev]. now rewrite <- app_assoc.
Qed.

Lemma split_nl_pieces_free cur s : nl_free (rev cur) -> Forall nl_free (split_nl_aux cur s).
Proof.
  revert cur; induction s as [|c s IH]; intros cur H; cbn.
  - constructor; [assumption|constructor].
  - destruct (c =? NL) eqn:E.
    + constructor; [assumption|]. apply IH. constructor.
    + apply IH. cbn [rev]. apply Forall_app. split; [assumption|]. constructor; [|constructor].
      now apply Z.eqb_neq.
Qed.

(* join of E ++ [""] is render E *)
Lemma join_cons2 sep a b r : concat_map_sep sep (a :: b :: r) = a ++ sep :: concat_map_sep sep (b :: r).
Proof. reflexivity. Qed.

Lemma join_render es : concat_map_sep NL (es ++ [[]]) = render es.
Proof.
  induction es as [|e es IH]; [reflexivity|].
  unfold render in *. cbn [map concat]. rewrite <- IH.
  destruct es as [|e2 es]; cbn [app].
  - cbn. now rewrite app_nil_r.
  - rewrite join_cons2. rewrite <- app_assoc. reflexivity.
Qed.

Lemma split_render_aux es : Forall nl_free es ->
  split_nl (render es) = es ++ [[]].
Proof.
  induction es as [|e es IH]; intros H; [reflexivity|].
  inversion H; subst. unfold render, split_nl in *. cbn [map concat].
  rewrite <- app_assoc. cbn [app]. rewrite split_nl_aux_app by assumption. cbn [rev app].
  now rewrite IH.
Qed.

Lemma drop_while_app_stop {A} (p : A -> bool) l x r : Forall (fun y => p y = true) l -> p x = false ->
  drop_while p (l ++ x :: r) = x :: r.
Proof. induction l as [|a l IH]; intros Hl Hx; cbn; [now rewrite Hx|]. inversion Hl; subst. rewrite H1. auto. Qed.

Lemma drop_while_nil_iff {A} (p : A -> bool) l : drop_while p l = [] <-> Forall (fun y => p y = true) l.
Proof.
  induction l as [|a l IH]; cbn; [split; auto|]. destruct (p a) eqn:E.
  - rewrite IH. split; intro H; [constructor; auto|now inversion H].
  - split; [discriminate|]. intro H; inversion H; congruence.
Qed.

Lemma drop_while_first {A} (p : A -> bool) l x r : drop_while p l = x :: r -> p x = false.
Proof. induction l as [|a l IH]; cbn; [discriminate|]. destruct (p a) eqn:E; auto. intros H; inversion H; subst; auto. Qed.

Lemma drop_while_decomp {A} (p : A -> bool) l :
  exists z, l = z ++ drop_while p l /\ Forall (fun y => p y = true) z.
Proof.
  induction l as [|a l [z [Hz Hf]]]; [exists []; split; auto|]. cbn. destruct (p a) eqn:E.
  - exists (a :: z). split; [cbn; f_equal; exact Hz|constructor; auto].
  - exists []. split; auto.
Qed.

Lemma split_render_app es t : Forall nl_free es -> nl_free t ->
  split_nl (render es ++ t) = es ++ [t].
Proof.
  induction es as [|e es IH]; intros H Ht.
  - cbn. unfold split_nl. now rewrite split_nl_aux_free.
  - inversion H; subst. unfold render, split_nl in *. cbn [map concat].
    rewrite <- !app_assoc. cbn [app]. rewrite split_nl_aux_app by assumption. cbn [rev app].
    now rewrite IH.
Qed.

Lemma render_app a b : render (a ++ b) = render a ++ render b.
Proof. unfold render. now rewrite map_app, concat_app. Qed.

Definition emptyb (e : str) : bool := negb (nonemptyb e).

Lemma render_empties z : Forall (fun e => emptyb e = true) z -> Forall (fun c => is_nl c = true) (render z).
Proof.
  induction z as [|e z IH]; intros H; [constructor|]. inversion H; subst.
  destruct e; [|discriminate]. cbn. constructor; [reflexivity|]. now apply IH.
Qed.

Lemma drop_while_all {A} (p : A -> bool) l r : Forall (fun y => p y = true) l -> drop_while p (l ++ r) = drop_while p r.
Proof. induction l as [|a l IH]; intros H; [reflexivity|]. inversion H; subst. cbn. rewrite H2. auto. Qed.

Lemma nl_free_not_nl c s : nl_free (c :: s) -> is_nl c = false.
Proof. intros H. inversion H; subst. unfold is_nl. now apply Z.eqb_neq. Qed.

Lemma strip_shape es q : emptyb q = false -> Forall nl_free es ->
  exists z B0, es ++ [q] = z ++ B0 ++ [q] /\ Forall (fun e => emptyb e = true) z /\
               drop_while emptyb (es ++ [q]) = B0 ++ [q] /\ Forall nl_free B0.
Proof.
  intros Hq. induction es as [|e es IH]; intros Hes.
  - exists [], []. cbn. rewrite Hq. repeat split; constructor.
  - inversion Hes; subst. destruct (emptyb e) eqn:E.
    + destruct (IH H2) as [z [B0 [H1' [H2' [H3' H4']]]]].
      exists (e :: z), B0. cbn. rewrite E. repeat split; auto. now rewrite H1'.
    + exists [], (e :: es). cbn. rewrite E. repeat split; auto.
Qed.

(* the entries of a file fzf wrote are what was rendered, minus leading blank entries *)
Lemma entries_render es q : Forall nl_free es -> nl_free q -> q <> [] ->
  entries (render (es ++ [q])) = strip_empty (es ++ [q]).
Proof.
  intros Hes Hq Hne.
  unfold strip_empty.
  change (drop_while _ (es ++ [q])) with (drop_while emptyb (es ++ [q])).
  assert (Hq' : emptyb q = false) by (destruct q; [congruence|reflexivity]).
  destruct (strip_shape es q Hq' Hes) as [z [B0 [Hz [Hzf [HB HB0]]]]].
  rewrite HB.
  assert (Hfirst : match B0 ++ [q] with [] => False | b :: _ => b <> [] end).
  { destruct (B0 ++ [q]) as [|b B'] eqn:EB; [destruct B0; discriminate|].
    apply drop_while_first in HB. destruct b; discriminate. }
  unfold entries, trim_nl.
  rewrite Hz, render_app. rewrite drop_while_all by (apply render_empties; exact Hzf).
  assert (Hlead : drop_while is_nl (render (B0 ++ [q])) = render (B0 ++ [q])).
  { destruct (B0 ++ [q]) as [|b B'] eqn:EB; [contradiction|]. destruct b as [|c b]; [congruence|].
    assert (nl_free (c :: b)).
    { destruct B0; cbn in EB; inversion EB; subst; [assumption|]. inversion HB0; subst; assumption. }
    cbn. rewrite (nl_free_not_nl c b) by assumption. reflexivity. }
  rewrite Hlead. rewrite render_app.
  change (render [q]) with ((q ++ [NL]) ++ []). rewrite app_nil_r.
  destruct (exists_last Hne) as [q0 [c Hqc]].
  assert (Hc : is_nl c = false).
  { rewrite Hqc in Hq. apply Forall_app in Hq as [_ Hq]. inversion Hq; subst. unfold is_nl. now apply Z.eqb_neq. }
  rewrite !rev_app_distr. cbn [rev app drop_while]. change (is_nl NL) with true. cbn iota.
  rewrite Hqc at 1. rewrite rev_app_distr. cbn [rev app drop_while]. rewrite Hc.
  replace (rev (c :: rev q0 ++ rev (render B0))) with (render B0 ++ q).
  2:{ cbn [rev]. rewrite rev_app_distr, !rev_involutive. rewrite <- app_assoc. now rewrite Hqc. }
  assert (E : render B0 ++ q <> []).
  { destruct (render B0); [cbn; congruence|discriminate]. }
  transitivity (split_nl (render B0 ++ q)).
  { destruct (render B0 ++ q); [congruence|reflexivity]. }
  apply split_render_app; assumption.
Qed.

(* ---------- NewHistory ---------- *)

Lemma last_str_app ps p : last_str (ps ++ [p]) = Ok p.
Proof.
  unfold last_str. destruct (ps ++ [p]) eqn:E; [destruct ps; discriminate|]. rewrite <- E.
  rewrite app_length. cbn [length]. replace (length ps + 1 - 1)%nat with (length ps) by lia.
  apply get_app_last.
Qed.

Lemma split_nl_aux_snoc cur s c : c <> NL ->
  exists ps p, split_nl_aux cur (s ++ [c]) = ps ++ [p ++ [c]] /\ split_nl_aux cur s = ps ++ [p].
Proof.
  intros Hc. revert cur; induction s as [|d s IH]; intros cur.
  - cbn. apply Z.eqb_neq in Hc. rewrite Hc. exists [], (rev cur). cbn. split; reflexivity.
  - cbn [app split_nl_aux]. destruct (d =? NL).
    + destruct (IH []) as [ps [p [H1 H2]]]. exists (rev cur :: ps), p. cbn. now rewrite H1, H2.
    + apply IH.
Qed.

Lemma trim_nl_last s : trim_nl s = [] \/ exists t c, trim_nl s = t ++ [c] /\ c <> NL.
Proof.
  unfold trim_nl. destruct (drop_while is_nl (rev (drop_while is_nl s))) as [|c r] eqn:E; [left; reflexivity|].
  right. exists (rev r), c. split; [reflexivity|]. apply drop_while_first in E. unfold is_nl in E. now apply Z.eqb_neq.
Qed.

Definition fs_data (f : fs) : str := match f with None => [] | Some d => d end.

Theorem load_exact_lemma file max :
  exists h, new_history file max = Ok (h, Some (fs_data file)) /\
            h_lines h = entries (fs_data file) ++ [[]] /\
            h_cursor h = length (entries (fs_data file)) /\ h_modified h = [] /\ h_max h = max.
Proof.
  unfold new_history, go_split_nl, go_trim_nl, entries. fold (fs_data file).
  destruct (trim_nl_last (fs_data file)) as [E|[t [c [E Hc]]]]; rewrite E.
  - cbn. eexists. repeat split.
  - unfold split_nl. destruct (split_nl_aux_snoc [] t c Hc) as [ps [p [H1 _]]].
    rewrite H1, last_str_app. cbn [bind].
    replace (nonemptyb (p ++ [c])) with true by (destruct p; reflexivity).
    eexists. split; [reflexivity|]. cbn [h_lines h_cursor h_modified h_max].
    assert (Em : match t ++ [c] with [] => [] | z :: l => split_nl_aux [] (z :: l) end = split_nl_aux [] (t ++ [c])).
    { destruct (t ++ [c]) eqn:Et; [destruct t; discriminate|reflexivity]. }
    rewrite Em. rewrite H1.
    repeat split. rewrite app_length. cbn. lia.
Qed.

(* ---------- append ---------- *)

Lemma append_lemma h file es scr q : h_lines h = es ++ [scr] -> q <> [] ->
  exists h', h_append h file q = Ok (h', Some (render (last_n (h_max h) (es ++ [q])))) /\
             h_lines h' = last_n (h_max h) (es ++ [q]) ++ [[]].
Proof.
  intros Hl Hq. unfold h_append. destruct q as [|c q]; [congruence|].
  rewrite Hl. destruct (es ++ [scr]) eqn:E; [destruct es; discriminate|]. rewrite <- E.
  rewrite removelast_app_one.
  assert (Hcut : forall ls : list str, (if Nat.ltb (h_max h) (length ls) then skipn (length ls - h_max h) ls else ls) = last_n (h_max h) ls).
  { intros ls. destruct (Nat.ltb_spec (h_max h) (length ls)); [reflexivity|]. now rewrite last_n_all by lia. }
  eexists. split.
  - rewrite Hcut, join_render. reflexivity.
  - reflexivity.
Qed.

Lemma append_empty h file : h_append h file [] = Ok (h, file).
Proof. reflexivity. Qed.

(* ---------- navigation: the stored entries are never touched ---------- *)

(* invariant of a session: lines = es ++ [scratch], cursor within [0, |es|], and everything newline-free *)
Record sess_inv (es : list str) (st : sess) : Prop := {
  inv_lines : exists scr, h_lines (s_hist st) = es ++ [scr] /\ nl_free scr;
  inv_cursor : (h_cursor (s_hist st) <= length es)%nat;
  inv_mod : Forall (fun kv => nl_free (snd kv)) (h_modified (s_hist st));
  inv_input : nl_free (s_input st)
}.

Definition op_nl_free (o : sop) : Prop := match o with Edit s => nl_free s | _ => True end.

Lemma assoc_free k m : Forall (fun kv : nat * str => nl_free (snd kv)) m -> forall s, assoc k m = Some s -> nl_free s.
Proof.
  induction m as [|[k' v] m IH]; intros H s; cbn; [discriminate|]. inversion H; subst.
  destruct (Nat.eqb k k'); [intros E; inversion E; subst; assumption|apply IH; assumption].
Qed.

Lemma current_ok es h : Forall nl_free es ->
  (exists scr, h_lines h = es ++ [scr] /\ nl_free scr) -> (h_cursor h <= length es)%nat ->
  Forall (fun kv => nl_free (snd kv)) (h_modified h) ->
  exists s, h_current h = Ok s /\ nl_free s.
Proof.
  intros Hes [scr [Hl Hscr]] Hc Hm. unfold h_current.
  destruct (assoc (h_cursor h) (h_modified h)) eqn:E.
  - eexists; split; [reflexivity|]. eapply assoc_free; eauto.
  - rewrite Hl. destruct (Nat.eq_dec (h_cursor h) (length es)) as [Eq|Ne].
    + rewrite Eq, get_app_last. eauto.
    + rewrite get_app_l by lia. destruct (get_lt es (h_cursor h)) as [x Hx]; [lia|].
      rewrite Hx. eexists; split; [reflexivity|].
      clear - Hx Hes. revert Hx. generalize (h_cursor h). induction es as [|e es IH]; intros [|n]; cbn; try discriminate.
      * intros E; inversion E; subst. now inversion Hes.
      * inversion Hes; subst. now apply IH.
Qed.

Lemma override_inv es st : Forall nl_free es -> sess_inv es st ->
  exists h, h_override (s_hist st) (s_input st) = Ok h /\
            sess_inv es (mkSess h (s_input st) (s_seen st)) /\ h_cursor h = h_cursor (s_hist st).
Proof.
  intros Hes [[scr [Hl Hscr]] Hc Hm Hi]. unfold h_override. rewrite Hl, app_length. cbn [length].
  replace (length es + 1 - 1)%nat with (length es) by lia.
  destruct (Nat.eqb_spec (h_cursor (s_hist st)) (length es)) as [E|E].
  - rewrite E, set_nth_app_last. cbn [bind]. eexists. split; [reflexivity|]. split; [|reflexivity].
    constructor; cbn; eauto; try lia.
  - destruct (Nat.ltb_spec (h_cursor (s_hist st)) (length es)); [|lia].
    eexists. split; [reflexivity|]. split; [|reflexivity]. constructor; cbn; eauto.
Qed.

Lemma sess_step_inv es st o : Forall nl_free es -> sess_inv es st -> op_nl_free o ->
  exists st', sess_step st o = Ok st' /\ sess_inv es st'.
Proof.
  intros Hes Hinv Ho. destruct o as [s| |]; cbn [sess_step].
  - eexists. split; [reflexivity|]. destruct Hinv. constructor; cbn; auto.
  - destruct (override_inv es st Hes Hinv) as [h [Ho' [Hinv' Hcur]]]. rewrite Ho'. cbn [bind].
    destruct Hinv' as [Hl' Hc' Hm' Hi']. cbn in *.
    unfold h_previous.
    set (h' := if Nat.ltb 0 (h_cursor h) then _ else h).
    assert (Hh' : h_lines h' = h_lines h /\ h_modified h' = h_modified h /\ (h_cursor h' <= length es)%nat).
    { unfold h'. destruct (Nat.ltb 0 (h_cursor h)); cbn; repeat split; auto; lia. }
    destruct Hh' as [E1 [E2 E3]].
    destruct (current_ok es h' Hes) as [s [Hs Hsf]]; try (rewrite ?E1, ?E2; assumption).
    rewrite Hs. cbn [bind fst snd]. eexists. split; [reflexivity|].
    constructor; cbn; rewrite ?E1, ?E2; auto.
  - destruct (override_inv es st Hes Hinv) as [h [Ho' [Hinv' Hcur]]]. rewrite Ho'. cbn [bind].
    destruct Hinv' as [Hl' Hc' Hm' Hi']. cbn in *.
    unfold h_next.
    set (h' := if Nat.ltb (h_cursor h) _ then _ else h).
    assert (Hh' : h_lines h' = h_lines h /\ h_modified h' = h_modified h /\ (h_cursor h' <= length es)%nat).
    { unfold h'. destruct Hl' as [scr [Hl' _]]. rewrite Hl', app_length. cbn [length].
      destruct (Nat.ltb_spec (h_cursor h) (length es + 1 - 1)); cbn; repeat split; auto; lia. }
    destruct Hh' as [E1 [E2 E3]].
    destruct (current_ok es h' Hes) as [s [Hs Hsf]]; try (rewrite ?E1, ?E2; assumption).
    rewrite Hs. cbn [bind fst snd]. eexists. split; [reflexivity|].
    constructor; cbn; rewrite ?E1, ?E2; auto.
Qed.

Lemma sess_steps_inv es ops : Forall nl_free es -> Forall op_nl_free ops -> forall st, sess_inv es st ->
  exists st', sess_steps st ops = Ok st' /\ sess_inv es st'.
Proof.
  intros Hes. induction ops as [|o ops IH]; intros Hops st Hinv; cbn [sess_steps]; [eauto|].
  inversion Hops; subst. destruct (sess_step_inv es st o Hes Hinv H1) as [st1 [E1 I1]].
  rewrite E1. cbn [bind]. apply IH; assumption.
Qed.

Lemma override_max h s h' : h_override h s = Ok h' -> h_max h' = h_max h.
Proof.
  unfold h_override. destruct (Nat.eqb _ _).
  - destruct (set_nth _ _ _); cbn; [|discriminate]. intros E; inversion E; reflexivity.
  - destruct (Nat.ltb _ _); intros E; inversion E; reflexivity.
Qed.

Lemma previous_max h h' s : h_previous h = Ok (h', s) -> h_max h' = h_max h.
Proof.
  unfold h_previous. set (hh := if Nat.ltb _ _ then _ else h).
  assert (Hh : h_max hh = h_max h) by (unfold hh; destruct (Nat.ltb _ _); reflexivity).
  destruct (h_current hh); cbn; [|discriminate]. intros E; inversion E; subst. exact Hh.
Qed.

Lemma next_max h h' s : h_next h = Ok (h', s) -> h_max h' = h_max h.
Proof.
  unfold h_next. set (hh := if Nat.ltb _ _ then _ else h).
  assert (Hh : h_max hh = h_max h) by (unfold hh; destruct (Nat.ltb _ _); reflexivity).
  destruct (h_current hh); cbn; [|discriminate]. intros E; inversion E; subst. exact Hh.
Qed.

Lemma sess_step_max st o st' : sess_step st o = Ok st' -> h_max (s_hist st') = h_max (s_hist st).
Proof.
  destruct o; cbn [sess_step].
  - intros E; inversion E; reflexivity.
  - destruct (h_override _ _) as [h1|] eqn:E1; [|discriminate]. cbn [bind].
    destruct (h_previous h1) as [[h2 s2]|] eqn:E2; [|discriminate]. cbn [bind fst snd].
    intros E; inversion E; subst; cbn. rewrite (previous_max _ _ _ E2). now apply override_max in E1.
  - destruct (h_override _ _) as [h1|] eqn:E1; [|discriminate]. cbn [bind].
    destruct (h_next h1) as [[h2 s2]|] eqn:E2; [|discriminate]. cbn [bind fst snd].
    intros E; inversion E; subst; cbn. rewrite (next_max _ _ _ E2). now apply override_max in E1.
Qed.

Lemma sess_steps_max ops : forall st st', sess_steps st ops = Ok st' -> h_max (s_hist st') = h_max (s_hist st).
Proof.
  induction ops as [|o ops IH]; intros st st' H; cbn in H; [inversion H; reflexivity|].
  destruct (sess_step st o) as [s1|] eqn:E; [|discriminate]. cbn in H.
  rewrite (IH _ _ H). now apply sess_step_max in E.
Qed.

(* ---------- one session ---------- *)

Lemma entries_free data : Forall nl_free (entries data).
Proof.
  unfold entries. destruct (trim_nl data); [constructor|]. apply split_nl_pieces_free. constructor.
Qed.

Definition fs_entries (f : fs) : list str := entries (fs_data f).

Lemma session_lemma max file s : Forall op_nl_free (ss_ops s) ->
  exists f' seen inp, run_session max file s = Ok (f', seen, inp) /\ nl_free inp /\
    (if ss_submit s && nonemptyb inp
     then f' = Some (render (last_n max (fs_entries file ++ [inp])))
     else f' = Some (fs_data file)).
Proof.
  intros Hops. unfold run_session.
  destruct (load_exact_lemma file max) as [h [Hnew [Hl [Hc [Hm Hmax]]]]]. rewrite Hnew. cbn [bind fst snd].
  pose proof (entries_free (fs_data file)) as Hes.
  assert (Hinv : sess_inv (entries (fs_data file)) (mkSess h [] [])).
  { constructor; cbn; [exists []; split; [exact Hl|constructor]|lia|rewrite Hm; constructor|constructor]. }
  destruct (sess_steps_inv _ _ Hes Hops _ Hinv) as [st [Hst Hinv']]. rewrite Hst. cbn [bind].
  destruct Hinv' as [[scr [Hl' _]] _ _ Hi'].
  destruct (ss_submit s); cbn [andb].
  - destruct (s_input st) as [|c q] eqn:Ein.
    + rewrite append_empty. cbn [bind fst snd nonemptyb]. do 3 eexists. split; [reflexivity|]. split; [constructor|reflexivity].
    + destruct (append_lemma (s_hist st) (Some (fs_data file)) _ scr (c :: q) Hl') as [h' [Ha _]]; [discriminate|].
      rewrite Ha. cbn [bind fst snd nonemptyb]. do 3 eexists. split; [reflexivity|]. split; [assumption|].
      (* h_max is preserved by the steps *)
      assert (Hmx : h_max (s_hist st) = max).
      { rewrite (sess_steps_max _ _ _ Hst). cbn. exact Hmax. }
      rewrite Hmx. reflexivity.
  - do 3 eexists. split; [reflexivity|]. split; [assumption|]. destruct (nonemptyb (s_input st)); reflexivity.
Qed.

(* ---------- any number of sessions ---------- *)

Definition step (n : nat) (E : list str) (q : str) : list str := strip_empty (last_n n (E ++ [q])).

Definition session_wf (s : session) : Prop := Forall op_nl_free (ss_ops s).

Lemma fs_entries_some d : fs_entries (Some d) = entries d. Proof. reflexivity. Qed.

Lemma last_n_free n (l : list str) : Forall nl_free l -> Forall nl_free (last_n n l).
Proof.
  unfold last_n. generalize (length l - n)%nat as k. intros k. revert l.
  induction k as [|k IH]; intros l H; [exact H|]. destruct l; [constructor|]. inversion H; subst. cbn. auto.
Qed.

Lemma sessions_fold max ss : (1 <= max)%nat -> Forall session_wf ss -> forall file,
  exists f' qs, run_sessions_log max file ss = Ok (f', qs) /\ Forall nl_free qs /\
    fs_entries f' = fold_left (step max) (submitted qs) (fs_entries file).
Proof.
  intros Hmax1. induction ss as [|s ss IH]; intros Hwf file; cbn [run_sessions_log].
  - do 2 eexists. split; [reflexivity|]. split; [constructor|reflexivity].
  - inversion Hwf; subst.
    destruct (session_lemma max file s H1) as [f1 [seen [inp [Hr [Hinp Hf1]]]]]. rewrite Hr. cbn [bind fst snd].
    destruct (IH H2 f1) as [f' [qs [Hrs [Hqs Hent]]]]. rewrite Hrs. cbn [bind fst snd].
    do 2 eexists. split; [reflexivity|]. split.
    { destruct (ss_submit s); cbn; [constructor|]; assumption. }
    rewrite Hent. destruct (ss_submit s); cbn [andb app] in *.
    + unfold submitted in *. cbn [filter]. destruct (nonemptyb inp) eqn:Ene.
      * cbn [fold_left]. f_equal. subst f1. rewrite fs_entries_some. unfold step.
        destruct inp; [discriminate|]. rewrite last_n_app_one by assumption.
        apply entries_render; [apply last_n_free, entries_free|assumption|discriminate].
      * subst f1. reflexivity.
    + subst f1. reflexivity.
Qed.

(* ---------- closed form: last n of (old entries ++ submitted) ---------- *)

Lemma last_n_app_ge {A} k (z b : list A) : (length b <= k)%nat ->
  last_n k (z ++ b) = last_n (k - length b) z ++ b.
Proof.
  intros H. unfold last_n. rewrite app_length, skipn_app.
  replace (length z + length b - k)%nat with (length z - (k - length b))%nat by lia.
  replace (length z - (k - length b) - length z)%nat with 0%nat by lia. reflexivity.
Qed.

Lemma last_n_app_le {A} k (z b : list A) : (k <= length b)%nat -> last_n k (z ++ b) = last_n k b.
Proof.
  intros H. unfold last_n. rewrite app_length, skipn_app.
  replace (length z + length b - k - length z)%nat with (length b - k)%nat by lia.
  rewrite skipn_all2 by lia. reflexivity.
Qed.

Lemma last_n_Forall {A} (P : A -> Prop) n l : Forall P l -> Forall P (last_n n l).
Proof.
  unfold last_n. generalize (length l - n)%nat as k. intros k. revert l.
  induction k as [|k IH]; intros l H; [exact H|]. destruct l; [constructor|]. inversion H; subst. cbn. auto.
Qed.

Lemma strip_empty_eq l : strip_empty l = drop_while emptyb l.
Proof. reflexivity. Qed.

Lemma strip_last_n_snoc k B q : emptyb q = false ->
  strip_empty (last_n k (strip_empty B) ++ [q]) = strip_empty (last_n k B ++ [q]).
Proof.
  intros Hq. change strip_empty with (drop_while emptyb).
  destruct (drop_while_decomp emptyb B) as [z [Hz Hzf]].
  set (B' := drop_while emptyb B) in *.
  destruct (Nat.le_gt_cases (length B') k) as [Hk|Hk].
  - rewrite (last_n_all k B') by assumption.
    rewrite Hz at 1. rewrite last_n_app_ge by assumption. rewrite <- app_assoc.
    rewrite (drop_while_all emptyb (last_n (k - length B') z)); [reflexivity|].
    apply last_n_Forall. exact Hzf.
  - rewrite Hz at 1. rewrite last_n_app_le by lia. reflexivity.
Qed.

Lemma step_absorb n A q : (1 <= n)%nat -> emptyb q = false ->
  step n (strip_empty (last_n n A)) q = strip_empty (last_n n (A ++ [q])).
Proof.
  intros Hn Hq. unfold step. rewrite !last_n_app_one by assumption.
  rewrite strip_last_n_snoc by assumption. rewrite last_n_last_n_pred. reflexivity.
Qed.

Lemma fold_step_closed n qs : (1 <= n)%nat -> Forall (fun q => emptyb q = false) qs -> qs <> [] ->
  forall E0, fold_left (step n) qs E0 = strip_empty (last_n n (E0 ++ qs)).
Proof.
  intros Hn. induction qs as [|q qs IH] using rev_ind; intros Hq Hne E0; [congruence|].
  apply Forall_app in Hq as [Hqs Hq]. inversion Hq; subst.
  rewrite fold_left_app. cbn [fold_left].
  destruct qs as [|q0 qs0].
  - cbn [fold_left]. reflexivity.
  - rewrite IH by (auto; discriminate). rewrite step_absorb by assumption. now rewrite app_assoc.
Qed.

Lemma submitted_nonempty qs : Forall (fun q => emptyb q = false) (submitted qs).
Proof.
  unfold submitted. induction qs as [|q qs IH]; cbn; [constructor|].
  destruct (nonemptyb q) eqn:E; [constructor; [unfold emptyb; now rewrite E|assumption]|assumption].
Qed.

(* ---------- the C18 theorems ---------- *)

Theorem sessions_keep_last_n_proof max file ss : (1 <= max)%nat -> Forall session_wf ss ->
  exists f' qs, run_sessions_log max file ss = Ok (f', qs) /\
    fs_entries f' = match submitted qs with
                    | [] => fs_entries file
                    | _ => stored_after max (fs_entries file) qs
                    end.
Proof.
  intros Hmax Hwf. destruct (sessions_fold max ss Hmax Hwf file) as [f' [qs [Hr [_ He]]]].
  exists f', qs. split; [exact Hr|]. rewrite He.
  destruct (submitted qs) eqn:E; [reflexivity|]. rewrite <- E.
  unfold stored_after. apply fold_step_closed; [assumption|apply submitted_nonempty|rewrite E; discriminate].
Qed.

(* a new session loads exactly the stored entries, cursor on the scratch line *)
Theorem load_exact_proof file max :
  exists h, new_history file max = Ok (h, Some (fs_data file)) /\
            h_lines h = fs_entries file ++ [[]] /\ h_cursor h = length (fs_entries file).
Proof. destruct (load_exact_lemma file max) as [h [H1 [H2 [H3 _]]]]. eauto. Qed.

(* previous/next never leave the stored range, never fail, never change the stored entries *)
Theorem nav_in_range_proof max file ops : Forall op_nl_free ops ->
  exists h st, new_history file max = Ok (h, Some (fs_data file)) /\
    sess_steps (mkSess h [] []) ops = Ok st /\
    (h_cursor (s_hist st) <= length (fs_entries file))%nat /\
    exists scr, h_lines (s_hist st) = fs_entries file ++ [scr].
Proof.
  intros Hops. destruct (load_exact_lemma file max) as [h [Hnew [Hl [Hc [Hm Hmax]]]]].
  pose proof (entries_free (fs_data file)) as Hes.
  assert (Hinv : sess_inv (entries (fs_data file)) (mkSess h [] [])).
  { constructor; cbn; [exists []; split; [exact Hl|constructor]|lia|rewrite Hm; constructor|constructor]. }
  destruct (sess_steps_inv _ _ Hes Hops _ Hinv) as [st [Hst [[scr [Hl' _]] Hc' _ _]]].
  exists h, st. repeat split; auto. exists scr. exact Hl'.
Qed.

(* a session that does not submit a non-empty query leaves the file bytes alone (a missing file is created empty) *)
Theorem edits_never_written_proof max file s : session_wf s ->
  exists f' seen inp, run_session max file s = Ok (f', seen, inp) /\
    (ss_submit s && nonemptyb inp = false -> f' = Some (fs_data file)) /\
    (ss_submit s && nonemptyb inp = true -> f' = Some (render (last_n max (fs_entries file ++ [inp])))).
Proof.
  intros Hwf. destruct (session_lemma max file s Hwf) as [f' [seen [inp [Hr [_ Hf]]]]].
  exists f', seen, inp. split; [exact Hr|]. destruct (ss_submit s && nonemptyb inp); split; intros; congruence.
Qed.

(* ---------- navigation refines the array-of-texts spec ---------- *)

Definition shown (h : hist) (i : nat) : str :=
  match assoc i (h_modified h) with Some s => s | None => nth i (h_lines h) [] end.

(* what the user would see at position i: the live input under the cursor, the remembered text elsewhere *)
Definition view (st : sess) (i : nat) : str :=
  if Nat.eqb i (h_cursor (s_hist st)) then s_input st else shown (s_hist st) i.

Definition abs_nav (st : sess) : nav := mkNav (view st) (h_cursor (s_hist st)) (length (h_lines (s_hist st)) - 1).

Definition nav_eq (a b : nav) : Prop :=
  nv_cur a = nv_cur b /\ nv_last a = nv_last b /\ forall i, (i <= nv_last a)%nat -> nv_text a i = nv_text b i.

Definition op_of (o : sop) : nav_op := match o with Edit s => NEdit s | Prev => NPrev | Next => NNext end.

(* extra invariant: modified entries exist only below the scratch line *)
Definition mod_below (st : sess) : Prop :=
  Forall (fun kv => (fst kv < length (h_lines (s_hist st)) - 1)%nat) (h_modified (s_hist st)).

Lemma assoc_none_below k m n : Forall (fun kv : nat * str => (fst kv < n)%nat) m -> (n <= k)%nat -> assoc k m = None.
Proof.
  induction m as [|[k' v] m IH]; intros H Hk; cbn; [reflexivity|]. inversion H; subst. cbn in *.
  destruct (Nat.eqb_spec k k'); [lia|auto].
Qed.

Lemma get_nth {A} (l : list A) i x d : get l i = Ok x -> nth i l d = x.
Proof. revert i; induction l as [|a l IH]; intros [|i]; cbn; try discriminate; [intros E; now inversion E|apply IH]. Qed.

Lemma set_nth_nth {A} (l l' : list A) i v d : set_nth l i v = Ok l' ->
  length l' = length l /\ forall j, nth j l' d = if Nat.eqb j i then v else nth j l d.
Proof.
  revert i l'; induction l as [|a l IH]; intros [|i] l'; cbn; try discriminate.
  - intros E; inversion E; subst. split; [reflexivity|]. intros [|j]; reflexivity.
  - destruct (set_nth l i v) as [t|] eqn:E; cbn; [|discriminate]. intros E'; inversion E'; subst.
    destruct (IH _ _ E) as [Hl Hn]. split; [cbn; now rewrite Hl|]. intros [|j]; cbn; [reflexivity|apply Hn].
Qed.

(* h.override(t) at the cursor: afterwards position cursor shows t, every other position is unchanged *)
Lemma override_shown h t h' : h_override h t = Ok h' ->
  Forall (fun kv => (fst kv < length (h_lines h) - 1)%nat) (h_modified h) ->
  (h_cursor h <= length (h_lines h) - 1)%nat -> (0 < length (h_lines h))%nat ->
  h_cursor h' = h_cursor h /\ length (h_lines h') = length (h_lines h) /\
  Forall (fun kv => (fst kv < length (h_lines h') - 1)%nat) (h_modified h') /\
  forall i, shown h' i = if Nat.eqb i (h_cursor h) then t else shown h i.
Proof.
  unfold h_override. intros E Hm Hc Hlen.
  destruct (Nat.eqb_spec (h_cursor h) (length (h_lines h) - 1)) as [Eq|Ne].
  - destruct (set_nth (h_lines h) (h_cursor h) t) as [ls|] eqn:Es; cbn in E; [|discriminate].
    inversion E; subst; cbn. destruct (set_nth_nth _ _ _ _ [] Es) as [Hl Hn].
    split; [reflexivity|]. split; [exact Hl|]. split. { eapply Forall_impl; [|exact Hm]. intros kv Hkv. cbn beta in *. unfold str in *. lia. }
    intros i. unfold shown; cbn.
    destruct (Nat.eqb_spec i (h_cursor h)) as [Ei|Ei].
    + subst i. rewrite (assoc_none_below _ _ _ Hm) by lia. rewrite Hn, Nat.eqb_refl. reflexivity.
    + destruct (assoc i (h_modified h)); [reflexivity|]. rewrite Hn.
      destruct (Nat.eqb_spec i (h_cursor h)); [contradiction|reflexivity].
  - destruct (Nat.ltb_spec (h_cursor h) (length (h_lines h) - 1)) as [Hlt|Hge]; [|lia].
    inversion E; subst; cbn. split; [reflexivity|]. split; [reflexivity|].
    split; [constructor; [cbn; lia|assumption]|].
    intros i. unfold shown; cbn. destruct (Nat.eqb i (h_cursor h)); reflexivity.
Qed.

Lemma current_shown h s : h_current h = Ok s -> shown h (h_cursor h) = s.
Proof.
  unfold h_current, shown. destruct (assoc _ _); [intros E; now inversion E|]. apply get_nth.
Qed.


Lemma view_after_move st h1 h2 s2 seen :
  (forall i, shown h1 i = if Nat.eqb i (h_cursor (s_hist st)) then s_input st else shown (s_hist st) i) ->
  (forall i, shown h2 i = shown h1 i) -> shown h2 (h_cursor h2) = s2 ->
  forall i, view (mkSess h2 s2 seen) i = view st i.
Proof.
  intros S1 S2 E2 i. unfold view; cbn.
  destruct (Nat.eqb_spec i (h_cursor h2)) as [Ei|Ei].
  - subst i. rewrite <- E2, S2, S1. reflexivity.
  - rewrite S2, S1. reflexivity.
Qed.

Theorem nav_step_refines_proof st o st' : sess_step st o = Ok st' -> mod_below st ->
  (h_cursor (s_hist st) <= length (h_lines (s_hist st)) - 1)%nat -> (0 < length (h_lines (s_hist st)))%nat ->
  nav_eq (abs_nav st') (nav_step (abs_nav st) (op_of o)) /\ mod_below st' /\
  (h_cursor (s_hist st') <= length (h_lines (s_hist st')) - 1)%nat /\ (0 < length (h_lines (s_hist st')))%nat /\
  (match o with Edit _ => True | _ => s_input st' = view st' (h_cursor (s_hist st')) /\ hd [] (s_seen st') = s_input st' end).
Proof.
  intros E Hm Hc Hl. destruct o as [s| |]; cbn [sess_step] in E.
  - inversion E; subst; clear E. unfold nav_eq, abs_nav, view, mod_below; cbn.
    repeat split; auto. intros i _. destruct (Nat.eqb i (h_cursor (s_hist st))); reflexivity.
  - destruct (h_override _ _) as [h1|] eqn:E1; [|discriminate]. cbn [bind] in E.
    destruct (override_shown _ _ _ E1 Hm Hc Hl) as [C1 [L1 [M1 S1]]].
    unfold h_previous in E.
    set (h2 := if Nat.ltb 0 (h_cursor h1) then _ else h1) in E.
    assert (P2 : h_lines h2 = h_lines h1 /\ h_modified h2 = h_modified h1 /\ h_cursor h2 = Nat.pred (h_cursor h1)).
    { unfold h2. destruct (Nat.ltb_spec 0 (h_cursor h1)); cbn; repeat split; auto; lia. }
    destruct P2 as [P2l [P2m P2c]].
    destruct (h_current h2) as [s2|] eqn:E2; [|discriminate]. cbn [bind fst snd] in E. inversion E; subst; clear E.
    apply current_shown in E2.
    assert (Sh2 : forall i, shown h2 i = shown h1 i) by (intros i; unfold shown; now rewrite P2l, P2m).
    pose proof (view_after_move st h1 h2 s2 (s2 :: s_seen st) S1 Sh2 E2) as V.
    split; [|split; [|split; [|split]]].
    + unfold nav_eq, abs_nav; cbn. rewrite P2l, P2c, L1, C1. repeat split; auto.
    + unfold mod_below; cbn. now rewrite P2l, P2m.
    + cbn. rewrite P2l, P2c, L1, C1. lia.
    + cbn. rewrite P2l, L1. assumption.
    + cbn. split; [|reflexivity]. unfold view; cbn. now rewrite Nat.eqb_refl.
  - destruct (h_override _ _) as [h1|] eqn:E1; [|discriminate]. cbn [bind] in E.
    destruct (override_shown _ _ _ E1 Hm Hc Hl) as [C1 [L1 [M1 S1]]].
    unfold h_next in E.
    set (h2 := if Nat.ltb (h_cursor h1) _ then _ else h1) in E.
    assert (P2 : h_lines h2 = h_lines h1 /\ h_modified h2 = h_modified h1 /\
                 h_cursor h2 = if Nat.ltb (h_cursor h1) (length (h_lines h1) - 1) then S (h_cursor h1) else h_cursor h1).
    { unfold h2. destruct (Nat.ltb (h_cursor h1) (length (h_lines h1) - 1)); cbn; repeat split; auto. }
    destruct P2 as [P2l [P2m P2c]].
    destruct (h_current h2) as [s2|] eqn:E2; [|discriminate]. cbn [bind fst snd] in E. inversion E; subst; clear E.
    apply current_shown in E2.
    assert (Sh2 : forall i, shown h2 i = shown h1 i) by (intros i; unfold shown; now rewrite P2l, P2m).
    pose proof (view_after_move st h1 h2 s2 (s2 :: s_seen st) S1 Sh2 E2) as V.
    split; [|split; [|split; [|split]]].
    + unfold nav_eq, abs_nav; cbn. rewrite P2l, P2c, L1, C1. repeat split; auto.
    + unfold mod_below; cbn. now rewrite P2l, P2m.
    + cbn. rewrite P2l, P2c, L1, C1. destruct (Nat.ltb_spec (h_cursor (s_hist st)) (length (h_lines (s_hist st)) - 1)); lia.
    + cbn. rewrite P2l, L1. assumption.
    + cbn. split; [|reflexivity]. unfold view; cbn. now rewrite Nat.eqb_refl.
Qed.

(* whole sessions: the abstraction of the final state is the spec fold of the operations *)
Fixpoint nav_steps (n : nav) (ops : list sop) : nav :=
  match ops with [] => n | o :: r => nav_steps (nav_step n (op_of o)) r end.

Lemma nav_step_eq a b o : nav_eq a b -> nav_eq (nav_step a o) (nav_step b o).
Proof.
  intros [Hc [Hl Ht]]. destruct o; unfold nav_eq; cbn; rewrite <- ?Hc, <- ?Hl; repeat split; auto.
  intros i Hi. destruct (Nat.eqb i (nv_cur a)); auto.
Qed.

Lemma nav_steps_eq ops : forall a b, nav_eq a b -> nav_eq (nav_steps a ops) (nav_steps b ops).
Proof. induction ops as [|o ops IH]; intros a b H; cbn; [exact H|]. apply IH. now apply nav_step_eq. Qed.

Lemma nav_eq_trans a b c : nav_eq a b -> nav_eq b c -> nav_eq a c.
Proof.
  intros [H1 [H2 H3]] [G1 [G2 G3]]. unfold nav_eq. repeat split; try congruence.
  intros i Hi. rewrite H3 by assumption. apply G3. now rewrite <- H2.
Qed.

Theorem nav_refines_spec_proof ops : forall st st', sess_steps st ops = Ok st' -> mod_below st ->
  (h_cursor (s_hist st) <= length (h_lines (s_hist st)) - 1)%nat -> (0 < length (h_lines (s_hist st)))%nat ->
  nav_eq (abs_nav st') (nav_steps (abs_nav st) ops).
Proof.
  induction ops as [|o ops IH]; intros st st' E Hm Hc Hl; cbn in E.
  - inversion E; subst. unfold nav_eq. repeat split; auto.
  - destruct (sess_step st o) as [s1|] eqn:E1; [|discriminate]. cbn in E.
    destruct (nav_step_refines_proof _ _ _ E1 Hm Hc Hl) as [R [Hm1 [Hc1 [Hl1 _]]]].
    cbn [nav_steps]. eapply nav_eq_trans; [apply (IH _ _ E Hm1 Hc1 Hl1)|]. now apply nav_steps_eq.
Qed.

Theorem nav_refines_loaded_proof max file ops h f st' :
  new_history file max = Ok (h, f) -> sess_steps (mkSess h [] []) ops = Ok st' ->
  nav_eq (abs_nav st') (nav_steps (abs_nav (mkSess h [] [])) ops) /\
  nv_cur (abs_nav (mkSess h [] [])) = length (fs_entries file) /\
  forall i, (i < length (fs_entries file))%nat -> nv_text (abs_nav (mkSess h [] [])) i = nth i (fs_entries file) [].
Proof.
  intros Hn Hs. destruct (load_exact_lemma file max) as [h0 [H0 [Hl [Hc [Hm _]]]]].
  rewrite Hn in H0. inversion H0; subst h0. clear H0.
  split.
  - apply nav_refines_spec_proof; auto; unfold mod_below; cbn.
    + rewrite Hm. constructor.
    + rewrite Hl, Hc, app_length. cbn. lia.
    + rewrite Hl, app_length. cbn. lia.
  - split; [cbn; exact Hc|]. intros i Hi. cbn. unfold view; cbn. rewrite Hc.
    unfold fs_entries in *. destruct (Nat.eqb i (length (entries (fs_data file)))) eqn:Ee; [apply Nat.eqb_eq in Ee; lia|].
    unfold shown. rewrite Hm. cbn. rewrite Hl. unfold fs_entries in *. rewrite app_nth1 by assumption. reflexivity.
Qed.
