(* C16 proofs: the model of handleHttpRequest (HttpModel) against the endpoint's spec (HttpSpec).
   Every theorem quantifies over ALL write sequences (arbitrary bytes, arbitrary segmentation,
   arbitrary point of closing), all keys, all oracle answers. *)
From Fzf Require Import Prelude HttpSpec HttpModel.
Open Scope Z_scope.

(* ------------------------------------------------------------------ *)
(* find_crlf / cut_line                                                 *)
(* ------------------------------------------------------------------ *)

Lemma find_crlf_cons2 c d t :
  find_crlf (c :: d :: t) = if (c =? 13) && (d =? 10) then Some O else option_map S (find_crlf (d :: t)).
Proof. reflexivity. Qed.

Lemma find_crlf_bound s i : find_crlf s = Some i -> (i + 2 <= length s)%nat.
Proof.
  revert i; induction s as [|c t IH]; intros i H; [discriminate|].
  destruct t as [|d t']; [discriminate|]. rewrite find_crlf_cons2 in H.
  destruct ((c =? 13) && (d =? 10)).
  - inversion H; subst. cbn. lia.
  - destruct (find_crlf (d :: t')) as [j|] eqn:E; [|discriminate].
    inversion H; subst. specialize (IH j eq_refl). cbn [length] in *. lia.
Qed.

Lemma find_crlf_app s x i : find_crlf s = Some i -> find_crlf (s ++ x) = Some i.
Proof.
  revert i; induction s as [|c t IH]; intros i H; [discriminate|].
  destruct t as [|d t']; [discriminate|]. rewrite find_crlf_cons2 in H.
  change ((c :: d :: t') ++ x) with (c :: d :: (t' ++ x)). rewrite find_crlf_cons2.
  destruct ((c =? 13) && (d =? 10)); [exact H|].
  destruct (find_crlf (d :: t')) as [j|] eqn:E; [|discriminate].
  change (d :: t' ++ x) with ((d :: t') ++ x). rewrite (IH j eq_refl). exact H.
Qed.

Lemma find_crlf_firstn s i : find_crlf s = Some i -> firstn (i + 2) s = firstn i s ++ CRLF.
Proof.
  revert i; induction s as [|c t IH]; intros i H; [discriminate|].
  destruct t as [|d t']; [discriminate|]. rewrite find_crlf_cons2 in H.
  destruct ((c =? 13) && (d =? 10)) eqn:E.
  - inversion H; subst. apply andb_true_iff in E as [E1 E2].
    apply Z.eqb_eq in E1, E2. subst. reflexivity.
  - destruct (find_crlf (d :: t')) as [j|] eqn:F; [|discriminate].
    inversion H; subst. change (S j + 2)%nat with (S (j + 2)).
    change (firstn (S (j + 2)) (c :: d :: t')) with (c :: firstn (j + 2) (d :: t')).
    change (firstn (S j) (c :: d :: t')) with (c :: firstn j (d :: t')).
    cbn [app]. f_equal. apply IH. reflexivity.
Qed.

Lemma cut_line_app data x i :
  find_crlf data = Some i ->
  cut_line (data ++ x) = Some (firstn i data, skipn (i + 2) data ++ x).
Proof.
  intro H. unfold cut_line. rewrite (find_crlf_app _ x _ H).
  pose proof (find_crlf_bound _ _ H) as B.
  rewrite firstn_app, skipn_app.
  replace (i - length data)%nat with O by lia.
  replace (i + 2 - length data)%nat with O by lia.
  cbn [firstn skipn]. now rewrite app_nil_r.
Qed.

(* ------------------------------------------------------------------ *)
(* totality: the fuel computed from the input always suffices           *)
(* ------------------------------------------------------------------ *)

Definition mu (s : scanner) : nat :=
  (2 * total_len (sc_rest s) + length (sc_data s) + length (sc_rest s) + (if sc_eof s then 0 else 1))%nat.

Lemma total_len_cons c r : total_len (c :: r) = (length c + total_len r)%nat.
Proof. unfold total_len. cbn [concat]. now rewrite app_length. Qed.

Lemma do_read_shape cap start data rest :
  exists s', do_read cap start data rest = SMore s' /\
    (mu s' < 2 * total_len rest + length data + length rest + 1)%nat /\
    sc_data s' ++ concat (sc_rest s') = data ++ concat rest.
Proof.
  unfold do_read. destruct rest as [|c r].
  - eexists; split; [reflexivity|]. unfold mu; cbn. split; [lia|reflexivity].
  - match goal with |- context [Z.min ?a ?b] => set (n := Z.min a b) end. destruct (n <=? 0) eqn:En.
    + destruct c as [|c0 c'].
      * eexists; split; [reflexivity|]. unfold mu; cbn [sc_rest sc_data sc_eof].
        rewrite total_len_cons. cbn [length concat app]. split; [lia|reflexivity].
      * eexists; split; [reflexivity|]. unfold mu; cbn [sc_rest sc_data sc_eof]. split; [lia|reflexivity].
    + apply Z.leb_gt in En.
      destruct (n =? Z.of_nat (length c)) eqn:Eq.
      * apply Z.eqb_eq in Eq. eexists; split; [reflexivity|]. unfold mu; cbn [sc_rest sc_data sc_eof].
        rewrite total_len_cons, app_length. cbn [length concat]. split; [lia|now rewrite app_assoc].
      * apply Z.eqb_neq in Eq. eexists; split; [reflexivity|]. unfold mu; cbn [sc_rest sc_data sc_eof].
        assert (Hn : (0 < Z.to_nat n < length c)%nat) by (subst n; lia).
        rewrite !total_len_cons, app_length, firstn_length, skipn_length. cbn [length concat].
        split; [lia|]. rewrite <- app_assoc. f_equal. rewrite app_assoc. now rewrite firstn_skipn.
Qed.

Lemma refill_shape s :
  refill s = SStop \/
  exists s', refill s = SMore s' /\ (mu s' < mu s)%nat /\
             sc_data s' ++ concat (sc_rest s') = sc_data s ++ concat (sc_rest s).
Proof.
  unfold refill. destruct (sc_eof s) eqn:Ee; [now left|].
  match goal with |- context [if ?c then 0 else sc_start s] => set (start := if c then 0 else sc_start s) end.
  destruct (start + Z.of_nat (length (sc_data s)) =? sc_cap s).
  - destruct (MAX_TOKEN <=? sc_cap s); [now left|]. right.
    destruct (do_read_shape (Z.min (if sc_cap s =? 0 then START_BUF else sc_cap s * 2) MAX_TOKEN) 0 (sc_data s) (sc_rest s))
      as (s' & H1 & H2 & H3).
    exists s'. split; [exact H1|]. unfold mu at 2. rewrite Ee. split; [lia|exact H3].
  - right. destruct (do_read_shape (sc_cap s) start (sc_data s) (sc_rest s)) as (s' & H1 & H2 & H3).
    exists s'. split; [exact H1|]. unfold mu at 2. rewrite Ee. split; [lia|exact H3].
Qed.

(* what one round of Scan() can do *)
Inductive step_spec (s : scanner) (blen : nat) (clen : Z) : sres -> Prop :=
| SS_stop : step_spec s blen clen SStop
| SS_more s' : (mu s' < mu s)%nat ->
    sc_data s' ++ concat (sc_rest s') = sc_data s ++ concat (sc_rest s) ->
    step_spec s blen clen (SMore s')
| SS_final : find_crlf (sc_data s) = None ->
    (sc_eof s = true \/ clen <= Z.of_nat (blen + length (sc_data s))) ->
    step_spec s blen clen (SFinal (sc_data s))
| SS_tok i s' : find_crlf (sc_data s) = Some i ->
    (mu s' < mu s)%nat ->
    sc_data s' = skipn (i + 2) (sc_data s) -> sc_rest s' = sc_rest s ->
    step_spec s blen clen (STok (firstn (i + 2) (sc_data s)) s').

Lemma scan_step_spec s blen clen : step_spec s blen clen (scan_step s blen clen).
Proof.
  unfold scan_step.
  assert (R : step_spec s blen clen (refill s)).
  { destruct (refill_shape s) as [H|(s' & H1 & H2 & H3)]; rewrite ?H, ?H1; now constructor. }
  destruct (nonemptyb (sc_data s) || sc_eof s); [|exact R].
  unfold split_fn. destruct (find_crlf (sc_data s)) as [i|] eqn:F.
  - apply SS_tok with (i := i); try reflexivity; [exact F|].
    pose proof (find_crlf_bound _ _ F). unfold mu; cbn [sc_rest sc_data sc_eof].
    rewrite skipn_length. lia.
  - destruct (sc_eof s || (clen <=? Z.of_nat (blen + length (sc_data s)))) eqn:E; [|exact R].
    apply SS_final; [exact F|]. apply orb_true_iff in E as [E|E]; [now left|right; now apply Z.leb_le].
Qed.

Lemma run_total fuel : forall s p, (mu s < fuel)%nat -> exists r e, run fuel s p = Ok (r, e).
Proof.
  induction fuel as [|f IH]; intros s p H; [lia|].
  cbn [run]. destruct (scan_step_spec s (length (p_body p)) (h_clen (p_h p))) as [|s' M _|_ _|i s' _ M _ _].
  - eauto.
  - apply IH. lia.
  - destruct (process p (sc_data s)); eauto.
  - destruct (process p _); eauto. apply IH. lia.
Qed.

Lemma scan_all_total chunks : exists r, scan_all chunks = Ok r.
Proof.
  unfold scan_all, scan_eof.
  destruct (run_total (fuel_of chunks) (sc_init chunks) p_init) as (r & e & ->).
  - unfold mu, fuel_of, sc_init; cbn [sc_rest sc_data sc_eof length]. lia.
  - cbn. eauto.
Qed.

Theorem total_proof : forall key state parse ready chunks,
  exists o, handle key state parse ready chunks = Ok o.
Proof.
  intros. unfold handle. destruct (scan_all_total chunks) as [r ->]. cbn [bind]. eauto.
Qed.

(* ------------------------------------------------------------------ *)
(* abstraction of the scanner: whatever the buffers and the segmentation do,
   the tokens are the successive CRLF-terminated lines of the stream, optionally
   followed by ONE last token that is a CRLF-free prefix of what remains; the
   loop may also just stop (end of input, ErrTooLong).                     *)
(* ------------------------------------------------------------------ *)

Definition after (p : pstate) (t : str) : pstate + str :=
  match process p t with PCont p' | PBreak p' => inl p' | PEarly m => inr m end.

Inductive runs : str -> pstate -> pstate + str -> Prop :=
| R_stop S p : runs S p (inl p)
| R_final S p t x : S = t ++ x -> find_crlf t = None -> runs S p (after p t)
| R_line_end S p l S' : cut_line S = Some (l, S') ->
    (forall p', process p (l ++ CRLF) <> PCont p') -> runs S p (after p (l ++ CRLF))
| R_line S p l S' p' r : cut_line S = Some (l, S') ->
    process p (l ++ CRLF) = PCont p' -> runs S' p' r -> runs S p r.

Definition unread (s : scanner) : str := sc_data s ++ concat (sc_rest s).

Lemma run_runs fuel : forall s p r e, run fuel s p = Ok (r, e) -> runs (unread s) p r.
Proof.
  induction fuel as [|f IH]; intros s p r e H; [discriminate|].
  cbn [run] in H.
  destruct (scan_step_spec s (length (p_body p)) (h_clen (p_h p))) as [|s' _ E|F _|i s' F _ E1 E2].
  - inversion H; subst. constructor.
  - unfold unread. rewrite <- E. eapply IH; eauto.
  - replace r with (after p (sc_data s)).
    + now apply R_final with (x := concat (sc_rest s)).
    + unfold after. destruct (process p (sc_data s)); now inversion H.
  - pose proof (cut_line_app _ (concat (sc_rest s)) _ F) as C.
    rewrite (find_crlf_firstn _ _ F) in H.
    destruct (process p (firstn i (sc_data s) ++ CRLF)) as [p'|p'|m] eqn:P.
    + eapply R_line; [exact C|exact P|]. apply IH in H. unfold unread in H. now rewrite E1, E2 in H.
    + replace r with (after p (firstn i (sc_data s) ++ CRLF)).
      * eapply R_line_end; [exact C|]. intros q Q. now rewrite Q in P.
      * unfold after. rewrite P. now inversion H.
    + replace r with (after p (firstn i (sc_data s) ++ CRLF)).
      * eapply R_line_end; [exact C|]. intros q Q. now rewrite Q in P.
      * unfold after. rewrite P. now inversion H.
Qed.

Lemma scan_all_runs chunks r : scan_all chunks = Ok r -> runs (concat chunks) p_init r.
Proof.
  unfold scan_all, scan_eof. destruct (run _ _ _) as [[r' e]|] eqn:H; [|discriminate].
  cbn. intro Q; inversion Q; subst. apply run_runs in H. exact H.
Qed.

(* ------------------------------------------------------------------ *)
(* accepted POST => the complete stream is a well-formed authorised POST *)
(* ------------------------------------------------------------------ *)

Lemma cut_line_eq S l S' : cut_line S = Some (l, S') -> S = l ++ CRLF ++ S' /\ (length S' + 2 <= length S)%nat.
Proof.
  unfold cut_line. destruct (find_crlf S) as [i|] eqn:F; [|discriminate].
  intro H; inversion H; subst. split.
  - rewrite app_assoc, <- (find_crlf_firstn _ _ F). symmetry. apply firstn_skipn.
  - pose proof (find_crlf_bound _ _ F). rewrite skipn_length. lia.
Qed.

Lemma spec_headers_fuel f : forall f' S h, (length S <= f)%nat -> (length S <= f')%nat ->
  spec_headers f S h = spec_headers f' S h.
Proof.
  induction f as [|f IH]; intros f' S h H1 H2.
  - destruct S; [|cbn in H1; lia]. destruct f'; reflexivity.
  - destruct f' as [|f'].
    + destruct S; [reflexivity|cbn in H2; lia].
    + cbn [spec_headers]. destruct (cut_line S) as [[l r]|] eqn:C; [|reflexivity].
      destruct (cut_line_eq _ _ _ C) as [_ L].
      destruct l; [reflexivity|].
      destruct (header_line h _); [|reflexivity]. apply IH; lia.
Qed.

Definition check (key : str) (h : hstate) (rest : str) : option str :=
  if key_ok key (h_key h) && (h_clen h <=? Z.of_nat (length rest))
  then Some (trim_crlf (firstn (Z.to_nat (h_clen h)) rest)) else None.

Definition K (key : str) (S : str) (p : pstate) : option str :=
  match p_section p with
  | O => spec_body key S
  | S O => match spec_headers (length S) S (p_h p) with
           | Some (h, rest) => check key h rest
           | None => None
           end
  | _ => check key (p_h p) (p_body p ++ S)
  end.

Definition pinv (p : pstate) : Prop :=
  match p_section p with
  | O => p = p_init
  | S O => p_body p = []
  | _ => p_get p = None
  end.

Lemma decide_parse_inv key p b : decide key (inl p) = DParse b ->
  key_ok key (h_key (p_h p)) = true /\ p_get p = None /\
  h_clen (p_h p) <= Z.of_nat (length (p_body p)) /\
  b = trim_crlf (firstn (Z.to_nat (h_clen (p_h p))) (p_body p)).
Proof.
  unfold decide. destruct (nonemptyb key && negb (str_eqb (h_key (p_h p)) key)) eqn:E; [discriminate|].
  destruct (p_get p); [discriminate|].
  destruct (Z.of_nat (length (p_body p)) <? h_clen (p_h p)) eqn:L; [discriminate|].
  intro H; inversion H; subst. apply Z.ltb_ge in L. repeat split; try assumption.
  unfold key_ok. destruct key; [reflexivity|]. cbn [nonemptyb andb] in E.
  now destruct (str_eqb (h_key (p_h p)) (z :: key)).
Qed.

Lemma decide_parse_nobody key p b : decide key (inl p) = DParse b -> p_body p = [] -> b = [].
Proof.
  intros H B. apply decide_parse_inv in H as (_ & _ & _ & ->). rewrite B.
  now destruct (Z.to_nat (h_clen (p_h p))).
Qed.

Lemma decide_parse_body key p b S : decide key (inl p) = DParse b ->
  check key (p_h p) (p_body p ++ S) = Some b.
Proof.
  intro H. apply decide_parse_inv in H as (Hk & _ & Hl & ->). unfold check. rewrite Hk.
  rewrite app_length.
  replace (h_clen (p_h p) <=? Z.of_nat (length (p_body p) + length S)) with true by (symmetry; apply Z.leb_le; lia).
  cbn [andb]. rewrite firstn_app.
  replace (Z.to_nat (h_clen (p_h p)) - length (p_body p))%nat with O by lia.
  cbn [firstn]. now rewrite app_nil_r.
Qed.

Lemma decide_get key p q b : p_get p = Some q -> decide key (inl p) <> DParse b.
Proof. intros G H. apply decide_parse_inv in H as (_ & G' & _). congruence. Qed.

(* once a GET, always a GET *)
Lemma process_get p q t : p_get p = Some q -> p_section p <> O ->
  match process p t with
  | PCont p' | PBreak p' => p_get p' = Some q /\ p_section p' <> O
  | PEarly _ => True
  end.
Proof.
  intros G Hs. unfold process. destruct (p_section p) as [|[|n]] eqn:E; [congruence| |].
  - destruct (str_eqb t CRLF).
    + rewrite G. split; [exact G|congruence].
    + destruct (header_line (p_h p) t); cbn; [split; [exact G|discriminate]|exact I].
  - cbn. split; [exact G|discriminate].
Qed.

Lemma runs_get key S p r : runs S p r -> forall q, p_get p = Some q -> p_section p <> O ->
  forall b, decide key r <> DParse b.
Proof.
  induction 1 as [S p|S p t x _ _|S p l S' _ _|S p l S' p' r _ P _ IH]; intros q G Hs b.
  - now apply decide_get with (q := q).
  - unfold after. pose proof (process_get p q t G Hs) as Hp.
    destruct (process p t) as [p'|p'|m]; try (apply decide_get with (q := q); tauto). discriminate.
  - unfold after. pose proof (process_get p q (l ++ CRLF) G Hs) as Hp.
    destruct (process p (l ++ CRLF)) as [p'|p'|m]; try (apply decide_get with (q := q); tauto). discriminate.
  - pose proof (process_get p q (l ++ CRLF) G Hs) as Hp. rewrite P in Hp. destruct Hp. eapply IH; eauto.
Qed.

Lemma prefixb_nocr p l : prefixb p (l ++ CRLF) = true ->
  forallb (fun c => negb (c =? 13)) p = true -> prefixb p l = true.
Proof.
  revert l; induction p as [|x p IH]; intros l H F; [reflexivity|].
  cbn [forallb] in F. apply andb_true_iff in F as [F1 F2].
  destruct l as [|y l].
  - cbn in H. apply andb_true_iff in H as [H _]. rewrite H in F1. discriminate.
  - cbn in H |- *. apply andb_true_iff in H as [H1 H2]. rewrite H1. cbn. now apply IH.
Qed.

Lemma str_eqb_crlf l : str_eqb (l ++ CRLF) CRLF = true <-> l = [].
Proof.
  split.
  - intro H. apply str_eqb_eq in H. change CRLF with ([] ++ CRLF) in H at 2. now apply app_inv_tail in H.
  - intros ->. reflexivity.
Qed.

Lemma runs_accept key S p r : runs S p r -> pinv p -> p_get p = None ->
  forall b, decide key r = DParse b -> b = [] \/ K key S p = Some b.
Proof.
  induction 1 as [S p|S p t x ES F|S p l S' C NP|S p l S' p' r C P R IH]; intros I G b D.
  - (* the loop stopped *)
    unfold pinv, K in *. destruct (p_section p) as [|[|n]].
    + subst p. left. now apply decide_parse_nobody in D.
    + left. now apply decide_parse_nobody in D.
    + right. now apply decide_parse_body.
  - (* last token without CRLF *)
    unfold after in D. unfold process in D. unfold pinv, K in *.
    destruct (p_section p) as [|[|n]] eqn:E.
    + subst p. cbn [p_h p_body p_init] in D.
      destruct (get_match t).
      * exfalso. now apply decide_get with (q := s) in D.
      * destruct (prefixb S_POST t); [|discriminate]. left. now apply decide_parse_nobody in D.
    + destruct (str_eqb t CRLF) eqn:Q.
      * apply str_eqb_eq in Q. subst t. discriminate.
      * destruct (header_line (p_h p) t); [|discriminate]. left. now apply decide_parse_nobody in D.
    + right. subst S. apply decide_parse_body with (S := x) in D. cbn [p_h p_body] in D.
      now rewrite <- app_assoc in D.
  - (* a line that ends the loop: break (GET only) or an early answer *)
    unfold after in D. destruct (process p (l ++ CRLF)) as [p'|p'|m] eqn:P.
    + exfalso. now apply (NP p').
    + exfalso. unfold process in P. destruct (p_section p) as [|[|n]].
      * destruct (get_match _); [discriminate|]. destruct (prefixb _ _); discriminate.
      * destruct (str_eqb _ _).
        -- rewrite G in P. destruct (h_clen (p_h p) =? 0); discriminate.
        -- destruct (header_line _ _); discriminate.
      * discriminate.
    + discriminate.
  - (* a line, and the loop goes on *)
    destruct (cut_line_eq _ _ _ C) as [ES LS].
    unfold process in P. unfold pinv in I. unfold K at 1.
    destruct (p_section p) as [|[|n]] eqn:E.
    + subst p. cbn [p_h p_body p_init] in P.
      destruct (get_match (l ++ CRLF)) as [q|].
      * inversion P; subst p'. exfalso. eapply (runs_get key _ _ _ R q); eauto. cbn. discriminate.
      * destruct (prefixb S_POST (l ++ CRLF)) eqn:Q; [|discriminate]. inversion P; subst p'.
        specialize (IH eq_refl eq_refl b D). destruct IH as [IH|IH]; [now left|right].
        unfold spec_body. rewrite C. rewrite (prefixb_nocr _ _ Q eq_refl).
        unfold K in IH. cbn [p_section p_h] in IH. unfold check in IH.
        destruct (spec_headers (length S') S' h0) as [[h rest]|]; exact IH.
    + destruct (str_eqb (l ++ CRLF) CRLF) eqn:Q.
      * apply str_eqb_crlf in Q. subst l. rewrite G in P.
        destruct (h_clen (p_h p) =? 0) eqn:Z0; [discriminate|]. inversion P; subst p'.
        specialize (IH eq_refl eq_refl b D). destruct IH as [IH|IH]; [now left|right].
        rewrite (spec_headers_fuel _ (Datatypes.S (length S)) S (p_h p)) by lia.
        cbn [spec_headers]. rewrite C, Z0.
        unfold K in IH. cbn [p_section p_h p_body] in IH. now rewrite I in IH.
      * destruct (header_line (p_h p) (l ++ CRLF)) as [h'|] eqn:HL; [|discriminate]. inversion P; subst p'.
        specialize (IH I G b D). destruct IH as [IH|IH]; [now left|right].
        rewrite (spec_headers_fuel _ (Datatypes.S (length S)) S (p_h p)) by lia.
        cbn [spec_headers]. rewrite C.
        destruct l as [|c l]; [discriminate|]. rewrite HL.
        unfold K in IH. cbn [p_section p_h] in IH.
        now rewrite (spec_headers_fuel _ (length S') S' h') by lia.
    + inversion P; subst p'. cbn [p_get] in IH. specialize (IH G G b D).
      destruct IH as [IH|IH]; [now left|right].
      unfold K in IH. cbn [p_section p_h p_body] in IH.
      rewrite ES. rewrite <- IH. f_equal. now rewrite <- !app_assoc.
Qed.

(* ------------------------------------------------------------------ *)
(* responses are well-formed                                            *)
(* ------------------------------------------------------------------ *)

Definition nocr (c : Z) : bool := negb (c =? 13).

Lemma find_crlf_nocr l r : forallb nocr l = true -> find_crlf (l ++ 13 :: 10 :: r) = Some (length l).
Proof.
  induction l as [|c l IH]; intro F; [reflexivity|].
  cbn [forallb] in F. apply andb_true_iff in F as [F1 F2].
  change ((c :: l) ++ 13 :: 10 :: r) with (c :: (l ++ 13 :: 10 :: r)).
  destruct (l ++ 13 :: 10 :: r) as [|d t] eqn:Et.
  - destruct l; discriminate.
  - rewrite find_crlf_cons2. unfold nocr in F1. destruct (c =? 13); [discriminate|].
    cbn [andb]. rewrite (IH F2). reflexivity.
Qed.

Lemma cut_line_nocr l r : forallb nocr l = true -> cut_line (l ++ CRLF ++ r) = Some (l, r).
Proof.
  intro F. unfold cut_line, CRLF. cbn [app]. rewrite (find_crlf_nocr _ _ F).
  rewrite firstn_app, Nat.sub_diag, firstn_all. cbn [firstn]. rewrite app_nil_r.
  rewrite skipn_app, skipn_all2 by lia.
  replace (length l + 2 - length l)%nat with 2%nat by lia. reflexivity.
Qed.

Lemma print_dec_aux_digits f : forall n acc, forallb digit acc = true -> forallb digit (print_dec_aux f n acc) = true.
Proof.
  induction f as [|f IH]; intros n acc F; [exact F|].
  cbn [print_dec_aux].
  assert (D : forallb digit ((48 + Z.of_nat (n mod 10)) :: acc) = true).
  { cbn [forallb]. rewrite F, andb_true_r. unfold digit.
    pose proof (Nat.mod_upper_bound n 10 ltac:(discriminate)).
    apply andb_true_iff; split; apply Z.leb_le; lia. }
  destruct (n <? 10)%nat; [exact D|]. now apply IH.
Qed.

Lemma digits_nocr l : forallb digit l = true -> forallb nocr l = true.
Proof.
  induction l as [|c l IH]; [reflexivity|]. cbn [forallb]. intro H.
  apply andb_true_iff in H as [H1 H2]. rewrite (IH H2), andb_true_r.
  unfold digit in H1. unfold nocr. apply andb_true_iff in H1 as [H1 _]. apply Z.leb_le in H1.
  destruct (c =? 13) eqn:E; [apply Z.eqb_eq in E; lia|reflexivity].
Qed.

Lemma print_dec_nocr n : forallb nocr (print_dec n) = true.
Proof. apply digits_nocr. now apply print_dec_aux_digits. Qed.

Lemma resp_headers_fuel f : forall f' s cl x, resp_headers f s cl = Some x -> (f <= f')%nat ->
  resp_headers f' s cl = Some x.
Proof.
  induction f as [|f IH]; intros f' s cl x H L; [discriminate|].
  destruct f' as [|f']; [lia|]. cbn [resp_headers] in *.
  destruct (cut_line s) as [[l r]|]; [|discriminate].
  destruct l as [|c l]; [exact H|].
  destruct (prefixb S_CLEN_HDR (c :: l)).
  - destruct cl; [discriminate|]. apply IH; [exact H|lia].
  - destruct (split_first 58 (c :: l)) as [[[|a n] v]|]; try discriminate. apply IH; [exact H|lia].
Qed.

Lemma resp_headers_clen dec body : forallb nocr dec = true ->
  resp_headers 2 (S_CLEN_HDR ++ dec ++ CRLF ++ CRLF ++ body) None = Some (Some dec, body).
Proof.
  intro F. cbn [resp_headers]. rewrite app_assoc.
  rewrite cut_line_nocr by (rewrite forallb_app, F; reflexivity).
  change (S_CLEN_HDR ++ dec) with (67 :: (tl S_CLEN_HDR ++ dec)). cbv iota.
  change (67 :: (tl S_CLEN_HDR ++ dec)) with (S_CLEN_HDR ++ dec).
  replace (prefixb S_CLEN_HDR (S_CLEN_HDR ++ dec)) with true by reflexivity.
  change (skipn 16 (S_CLEN_HDR ++ dec)) with dec.
  change (CRLF ++ body) with ([] ++ CRLF ++ body). rewrite cut_line_nocr by reflexivity. reflexivity.
Qed.

Definition S_CTYPE_LINE : str := [67;111;110;116;101;110;116;45;84;121;112;101;58;32;97;112;112;108;105;99;97;116;105;111;110;47;106;115;111;110].

Lemma resp_headers_ctype dec body : forallb nocr dec = true ->
  resp_headers 3 (S_CTYPE ++ S_CLEN_HDR ++ dec ++ CRLF ++ CRLF ++ body) None = Some (Some dec, body).
Proof.
  intro F. change S_CTYPE with (S_CTYPE_LINE ++ CRLF). rewrite <- app_assoc.
  change 3%nat with (S 2). cbn [resp_headers]. rewrite cut_line_nocr by reflexivity.
  change (match S_CTYPE_LINE with [] => ?a | _ :: _ => ?b end) with b.
  replace (prefixb S_CLEN_HDR S_CTYPE_LINE) with false by reflexivity.
  replace (split_first 58 S_CTYPE_LINE) with (Some (firstn 12 S_CTYPE_LINE, skipn 13 S_CTYPE_LINE)) by reflexivity.
  cbv iota beta. cbn [firstn S_CTYPE_LINE]. now apply resp_headers_clen.
Qed.

Definition status_text (code : Z) : str := S_HTTP11 ++ code_digits code ++ [32] ++ reason code.

Lemma status_line_split code : status_line code = status_text code ++ CRLF.
Proof. unfold status_line, status_text. now rewrite <- !app_assoc. Qed.

Definition known_code (code : Z) : Prop := code = 200 \/ code = 400 \/ code = 401 \/ code = 503.

Lemma status_text_ok code : known_code code ->
  forallb nocr (status_text code) = true /\ status_line_ok (status_text code) = Some code.
Proof. intros [-> | [-> | [-> | ->]]]; split; reflexivity. Qed.

Lemma wf_answer code extra msg : known_code code -> extra = [] \/ extra = S_CTYPE ->
  wf_response (answer code extra msg) = Some code.
Proof.
  intros Kc Ex. destruct (status_text_ok code Kc) as [N Ok1].
  unfold answer. rewrite status_line_split, <- app_assoc. unfold wf_response.
  rewrite cut_line_nocr by exact N. rewrite Ok1.
  set (dec := print_dec (length msg + 1)).
  assert (R : resp_headers (length (extra ++ S_CLEN_HDR ++ dec ++ CRLF ++ CRLF ++ msg ++ [10]))
                (extra ++ S_CLEN_HDR ++ dec ++ CRLF ++ CRLF ++ msg ++ [10]) None = Some (Some dec, msg ++ [10])).
  { destruct Ex as [Ex|Ex]; subst extra.
    - eapply resp_headers_fuel; [apply resp_headers_clen, print_dec_nocr|].
      cbn [app]. rewrite app_length. cbn. lia.
    - eapply resp_headers_fuel; [apply resp_headers_ctype, print_dec_nocr|].
      rewrite app_length. cbn. lia. }
  rewrite R. replace (length (msg ++ [10])) with (length msg + 1)%nat by (rewrite app_length; reflexivity).
  fold dec. replace (str_eqb dec dec) with true by (symmetry; now apply str_eqb_eq). reflexivity.
Qed.

Lemma wf_bare code : known_code code -> wf_response (status_line code ++ CRLF) = Some code.
Proof. intros [-> | [-> | [-> | ->]]]; reflexivity. Qed.

Lemma decide_out key r o : decide key r = DOut o ->
  (exists m, o = bad m) \/ o = unauthorized.
Proof.
  unfold decide. destruct r as [p|m].
  - destruct (nonemptyb key && negb (str_eqb (h_key (p_h p)) key)).
    + intro H; inversion H; now right.
    + destruct (p_get p); [discriminate|].
      destruct (_ <? _); [|discriminate]. intro H; inversion H; left; eauto.
  - intro H; inversion H; left; eauto.
Qed.

Theorem response_wf_proof : forall key state parse ready chunks o,
  handle key state parse ready chunks = Ok o ->
  wf_response (o_resp o) = Some (o_code o) /\ known_code (o_code o).
Proof.
  intros key state parse ready chunks o H. unfold handle in H.
  destruct (scan_all chunks) as [r|e]; [|discriminate]. cbn [bind] in H. inversion H; subst o; clear H.
  unfold finish. destruct (decide key r) as [o|q|b] eqn:D.
  - apply decide_out in D as [[m D]|D]; subst o; cbn [o_resp o_code bad unauthorized];
      (split; [apply wf_answer; unfold known_code; auto|unfold known_code; auto]).
  - destruct (nonemptyb state); cbn [o_resp o_code];
      (split; [apply wf_answer; unfold known_code; auto|unfold known_code; auto]).
  - destruct (parse b) as [| |m].
    + destruct ready; cbn [o_resp o_code];
        (split; [apply wf_bare; unfold known_code; auto|unfold known_code; auto]).
    + cbn [o_resp o_code bad]. split; [apply wf_answer; unfold known_code; auto|unfold known_code; auto].
    + cbn [o_resp o_code bad]. split; [apply wf_answer; unfold known_code; auto|unfold known_code; auto].
Qed.

(* ------------------------------------------------------------------ *)
(* what the outcome can be                                              *)
(* ------------------------------------------------------------------ *)

Lemma decide_out_fields key r o : decide key r = DOut o ->
  o_actions o = None /\ o_get o = None /\ (o_code o = 400 \/ o_code o = 401).
Proof. intro D. apply decide_out in D as [[m D]|D]; subst o; cbn; auto. Qed.

Lemma handle_inv key state parse ready chunks o : handle key state parse ready chunks = Ok o ->
  exists r, scan_all chunks = Ok r /\ o = finish state parse ready (decide key r).
Proof.
  unfold handle. destruct (scan_all chunks) as [r|e]; [|discriminate].
  cbn [bind]. intro H; inversion H. eauto.
Qed.

Lemma outcome_actions key state parse ready r b :
  o_actions (finish state parse ready (decide key r)) = Some b ->
  decide key r = DParse b /\ parse b = VAccept /\ ready = true.
Proof.
  destruct (decide key r) as [o|q|b'] eqn:D; cbn [finish].
  - apply decide_out_fields in D as (A & _). rewrite A. discriminate.
  - destruct (nonemptyb state); discriminate.
  - destruct (parse b') eqn:P; try discriminate. destruct ready; [|discriminate].
    cbn. intro H; inversion H; subst. auto.
Qed.

(* 200/503 are only ever answered to a GET that got through, or to an accepted action list *)
Lemma outcome_code key state parse ready r :
  let o := finish state parse ready (decide key r) in
  (o_code o = 400 \/ o_code o = 401) /\ o_actions o = None /\ o_get o = None \/
  (exists q, decide key r = DGet q /\ o_get o = Some (get_params q) /\ o_actions o = None) \/
  (exists b, decide key r = DParse b /\ parse b = VAccept /\ o_get o = None).
Proof.
  cbv zeta. destruct (decide key r) as [o|q|b] eqn:D; cbn [finish].
  - left. apply decide_out_fields in D. tauto.
  - right; left. exists q. destruct (nonemptyb state); cbn; auto.
  - destruct (parse b) eqn:P.
    + right; right. exists b. destruct ready; cbn; auto.
    + left. cbn. auto.
    + left. cbn. auto.
Qed.

Theorem accept_sound_proof : forall key state parse ready chunks o b,
  parse [] <> VAccept ->
  handle key state parse ready chunks = Ok o -> o_actions o = Some b ->
  spec_accepts key parse (concat chunks) = Some b.
Proof.
  intros key state parse ready chunks o b Hp H A.
  apply handle_inv in H as (r & Hr & ->).
  apply outcome_actions in A as (D & P & _).
  apply scan_all_runs in Hr.
  destruct (runs_accept key _ _ _ Hr eq_refl eq_refl b D) as [E|E].
  - subst b. contradiction.
  - unfold K in E. cbn [p_section p_init] in E. unfold spec_accepts. now rewrite E, P.
Qed.

Theorem malformed_rejected_proof : forall key state parse ready chunks o,
  parse [] <> VAccept ->
  handle key state parse ready chunks = Ok o ->
  spec_accepts key parse (concat chunks) = None -> o_get o = None ->
  (o_code o = 400 \/ o_code o = 401) /\ o_actions o = None.
Proof.
  intros key state parse ready chunks o Hp H Sp G.
  apply handle_inv in H as (r & Hr & ->).
  destruct (outcome_code key state parse ready r) as [(C & A & _)|[(q & _ & G' & _)|(b & D & P & _)]].
  - auto.
  - rewrite G in G'. discriminate.
  - exfalso. apply scan_all_runs in Hr.
    destruct (runs_accept key _ _ _ Hr eq_refl eq_refl b D) as [E|E].
    + subst b. contradiction.
    + unfold K in E. cbn [p_section p_init] in E. unfold spec_accepts in Sp. now rewrite E, P in Sp.
Qed.

(* GET never changes state *)
Theorem get_no_actions_proof : forall key state parse ready chunks o,
  handle key state parse ready chunks = Ok o ->
  (o_get o <> None -> o_actions o = None) /\
  (parse [] <> VAccept -> forall b, o_actions o = Some b -> prefixb S_POST (concat chunks) = true).
Proof.
  intros key state parse ready chunks o H. split.
  - apply handle_inv in H as (r & Hr & ->).
    destruct (outcome_code key state parse ready r) as [(_ & A & _)|[(q & _ & _ & A)|(b & _ & _ & G)]]; auto.
    intro N. now rewrite G in N.
  - intros Hp b A. pose proof (accept_sound_proof _ _ _ _ _ _ _ Hp H A) as Sp.
    unfold spec_accepts, spec_body in Sp.
    destruct (cut_line (concat chunks)) as [[l0 r0]|] eqn:C; [|discriminate].
    destruct (prefixb S_POST l0) eqn:Q; [|discriminate].
    destruct (cut_line_eq _ _ _ C) as [-> _].
    clear - Q. revert Q. generalize S_POST. intro p. revert l0.
    induction p as [|x p IH]; intros l0 Q; [reflexivity|].
    destruct l0 as [|y l0]; [discriminate|]. cbn in Q |- *.
    apply andb_true_iff in Q as [Q1 Q2]. rewrite Q1. cbn. now apply IH.
Qed.

(* ------------------------------------------------------------------ *)
(* authentication                                                       *)
(* ------------------------------------------------------------------ *)

(* the key the request presented: value of the last X-API-Key header that was scanned *)
Definition provided_key (chunks : list str) : res (option str) :=
  do r <- scan_all chunks;
  Ok (match r with inl p => Some (h_key (p_h p)) | inr _ => None end).

Theorem auth_proof : forall key state parse ready chunks o,
  key <> [] -> handle key state parse ready chunks = Ok o ->
  provided_key chunks <> Ok (Some key) ->
  o_actions o = None /\ o_get o = None /\
  match provided_key chunks with
  | Ok (Some _) => o = unauthorized            (* 401 "invalid api key" *)
  | _ => o_code o = 400                        (* rejected even before the key was looked at *)
  end.
Proof.
  intros key state parse ready chunks o Kn H Pk.
  apply handle_inv in H as (r & Hr & ->). unfold provided_key in *. rewrite Hr in *. cbn [bind] in *.
  destruct r as [p|m].
  - assert (E : str_eqb (h_key (p_h p)) key = false).
    { destruct (str_eqb (h_key (p_h p)) key) eqn:E; [|reflexivity].
      apply str_eqb_eq in E. rewrite E in Pk. contradiction. }
    unfold decide. rewrite E. destruct key; [contradiction|]. cbn. auto.
  - cbn. auto.
Qed.

(* -- stream level: without the key bytes in the stream nothing gets through -- *)

Lemma infix_refl s : infix s s.
Proof. exists [], []. now rewrite app_nil_r. Qed.

Lemma infix_trans a b c : infix a b -> infix b c -> infix a c.
Proof.
  intros (x & y & ->) (u & v & ->). exists (u ++ x), (y ++ v). now rewrite <- !app_assoc.
Qed.

Lemma split_first_eq sep s a b : split_first sep s = Some (a, b) -> s = a ++ sep :: b.
Proof.
  revert a b; induction s as [|c s IH]; intros a b H; [discriminate|]. cbn in H.
  destruct (c =? sep) eqn:E.
  - inversion H; subst. apply Z.eqb_eq in E. now subst.
  - destruct (split_first sep s) as [[a' b']|]; [|discriminate]. inversion H; subst.
    cbn. f_equal. now apply IH.
Qed.

Lemma frev_rev s : frev s = rev s.
Proof. unfold frev. now rewrite rev_append_rev, app_nil_r. Qed.

Lemma strip_any_suffix seqs s r : strip_any seqs s = Some r -> exists a, s = a ++ r.
Proof.
  induction seqs as [|q seqs IH]; [discriminate|]. cbn. destruct (prefixb q s).
  - intro H; inversion H. exists (firstn (length q) s). now rewrite firstn_skipn.
  - exact IH.
Qed.

Lemma trim_left_f_suffix seqs f : forall s, exists a, s = a ++ trim_left_f seqs f s.
Proof.
  induction f as [|f IH]; intro s; [now exists []|]. cbn [trim_left_f].
  destruct s as [|c t]; [now exists []|].
  destruct (ascii_space c).
  - destruct (IH t) as [a E]. exists (c :: a). cbn. now rewrite <- E.
  - destruct (strip_any seqs (c :: t)) as [r|] eqn:St; [|now exists []].
    destruct (strip_any_suffix _ _ _ St) as [a E]. destruct (IH r) as [a' E'].
    exists (a ++ a'). rewrite <- app_assoc, <- E'. exact E.
Qed.

Lemma trim_space_infix v : infix (trim_space v) v.
Proof.
  unfold trim_space, trim_right, trim_left.
  destruct (trim_left_f_suffix uspace_seqs (length v) v) as [a Ea].
  set (u := trim_left_f uspace_seqs (length v) v) in *.
  destruct (trim_left_f_suffix (map frev uspace_seqs) (length u) (frev u)) as [b Eb].
  set (w := trim_left_f (map frev uspace_seqs) (length u) (frev u)) in *.
  exists a, (rev b). rewrite Ea at 1. f_equal.
  rewrite frev_rev in *. rewrite <- rev_app_distr, <- Eb. now rewrite rev_involutive.
Qed.

Definition key_from (W : str) (h : hstate) : Prop := h_key h = [] \/ infix (h_key h) W.

Lemma header_line_key W h t h' : header_line h t = Some h' -> infix t W -> key_from W h -> key_from W h'.
Proof.
  unfold header_line. intros H It Kf.
  destruct (split_first 58 t) as [[n v]|] eqn:Sp; [|now inversion H; subst].
  destruct (str_eqb (lower_name n) S_CONTENT_LENGTH).
  - destruct (atoi (trim_space v)); [|discriminate].
    destruct ((1 <=? z) && (z <=? MAX_CONTENT_LENGTH)); [|discriminate]. now inversion H; subst.
  - destruct (str_eqb (lower_name n) S_X_API_KEY); [|now inversion H; subst].
    inversion H; subst. right. cbn [h_key].
    apply infix_trans with (b := v); [apply trim_space_infix|].
    apply infix_trans with (b := t); [|exact It].
    apply split_first_eq in Sp. exists (n ++ [58]), []. rewrite app_nil_r, <- app_assoc. exact Sp.
Qed.

Lemma process_key W p t : infix t W -> key_from W (p_h p) ->
  match process p t with
  | PCont p' | PBreak p' => key_from W (p_h p')
  | PEarly _ => True
  end.
Proof.
  intros It Kf. unfold process. destruct (p_section p) as [|[|n]].
  - destruct (get_match t); [exact Kf|]. destruct (prefixb S_POST t); [exact Kf|exact I].
  - destruct (str_eqb t CRLF).
    + destruct (p_get p); [exact Kf|]. destruct (h_clen (p_h p) =? 0); [exact I|exact Kf].
    + destruct (header_line (p_h p) t) as [h'|] eqn:HL; [|exact I].
      cbn [p_h]. eapply header_line_key; eauto.
  - exact Kf.
Qed.

Lemma runs_key W S p r : runs S p r -> (exists pre, W = pre ++ S) -> key_from W (p_h p) ->
  match r with inl p' => key_from W (p_h p') | inr _ => True end.
Proof.
  induction 1 as [S p|S p t x ES F|S p l S' C NP|S p l S' p' r C P R IH]; intros [pre EW] Kf.
  - exact Kf.
  - assert (It : infix t W) by (exists pre, x; now rewrite EW, ES).
    pose proof (process_key W p t It Kf) as Hp. unfold after. now destruct (process p t).
  - destruct (cut_line_eq _ _ _ C) as [ES _].
    assert (It : infix (l ++ CRLF) W) by (exists pre, S'; now rewrite EW, ES, <- app_assoc).
    pose proof (process_key W p _ It Kf) as Hp. unfold after. now destruct (process p (l ++ CRLF)).
  - destruct (cut_line_eq _ _ _ C) as [ES _].
    assert (It : infix (l ++ CRLF) W) by (exists pre, S'; now rewrite EW, ES, <- app_assoc).
    pose proof (process_key W p _ It Kf) as Hp. rewrite P in Hp.
    apply IH; [|exact Hp]. exists (pre ++ l ++ CRLF). now rewrite EW, ES, <- !app_assoc.
Qed.

Theorem auth_stream_proof : forall key state parse ready chunks o,
  key <> [] -> ~ infix key (concat chunks) ->
  handle key state parse ready chunks = Ok o ->
  o_actions o = None /\ o_get o = None /\ (o_code o = 400 \/ o_code o = 401).
Proof.
  intros key state parse ready chunks o Kn Ni H.
  apply handle_inv in H as (r & Hr & ->). apply scan_all_runs in Hr.
  assert (Kr := runs_key (concat chunks) _ _ _ Hr (ex_intro _ [] eq_refl) (or_introl eq_refl)).
  assert (D : exists o', decide key r = DOut o').
  { unfold decide. destruct r as [p|m]; [|eauto].
    destruct (str_eqb (h_key (p_h p)) key) eqn:E.
    - apply str_eqb_eq in E. destruct Kr as [Kr|Kr]; [congruence|]. rewrite E in Kr. contradiction.
    - destruct key; [contradiction|]. cbn. eauto. }
  destruct D as [o' D]. rewrite D. cbn [finish]. now apply decide_out_fields in D.
Qed.

(* ------------------------------------------------------------------ *)
(* who may listen                                                       *)
(* ------------------------------------------------------------------ *)

Theorem remote_needs_key_proof : forall a host port,
  parse_listen_address a = LOk host port -> is_local host = false ->
  start_decision a [] = StartRefusedNoKey /\
  (forall key h p, start_decision a key = StartListen h p -> key <> []).
Proof.
  intros a host port P L. unfold start_decision. rewrite P, L. cbn. split; [reflexivity|].
  intros key h p. destruct key; [discriminate|]. intros _. discriminate.
Qed.

(* ------------------------------------------------------------------ *)
(* segmentation DOES change the outcome (finding): the same bytes are   *)
(* executed when written at once and refused when cut inside the header *)
(* block, because the split closure treats any CRLF-free buffer as the  *)
(* final token while contentLength is still 0.                          *)
(* ------------------------------------------------------------------ *)

Definition seg_req_whole : list str :=
  [[80;79;83;84;32;47;32;72;84;84;80;47;49;46;49;13;10;67;111;110;116;101;110;116;45;76;101;110;103;116;104;58;32;50;13;10;13;10;117;112]].
Definition seg_req_cut : list str :=
  [[80;79;83;84;32;47;32;72;84];
   [84;80;47;49;46;49;13;10;67;111;110;116;101;110;116;45;76;101;110;103;116;104;58;32;50;13;10;13;10;117;112]].

Theorem segmentation_invariance_refuted_proof :
  exists key state parse ready c1 c2 o1 o2,
    concat c1 = concat c2 /\
    handle key state parse ready c1 = Ok o1 /\ handle key state parse ready c2 = Ok o2 /\
    o_actions o1 = Some [117;112] /\ o_code o1 = 200 /\ o_actions o2 = None /\ o_code o2 = 400.
Proof.
  exists [], [], (fun b => match b with [] => VEmpty | _ => VAccept end), true, seg_req_whole, seg_req_cut.
  eexists; eexists. split; [reflexivity|]. split; [vm_compute; reflexivity|]. split; [vm_compute; reflexivity|].
  cbn. auto.
Qed.

(* ------------------------------------------------------------------ *)
(* FINDING: a complete, acceptable POST whose body ends with CRLF is    *)
(* answered only after the client closes (or the 10 s deadline): the    *)
(* loop asks for one more token although the body is complete.          *)
(* ------------------------------------------------------------------ *)

Definition stall_req : list str :=   (* POST / HTTP/1.1 CRLF Content-Length: 4 CRLF CRLF up CRLF *)
  [[80;79;83;84;32;47;32;72;84;84;80;47;49;46;49;13;10;67;111;110;116;101;110;116;45;76;101;110;103;116;104;58;32;52;13;10;13;10;117;112;13;10]].

Theorem complete_request_answered_at_once_refuted_proof :
  exists chunks b, spec_body [] (concat chunks) = Some b /\ waits_for_close chunks = Ok true /\
                   waits_for_close seg_req_whole = Ok false.
Proof. exists stall_req, [117;112]. repeat split; vm_compute; reflexivity. Qed.
