(* calculateScore and FuzzyMatchV1: the model of algo.go refines the spec vocabulary of AlgoSpec
   (witness, subseq_b, align_score) for ALL inputs. *)
From Fzf Require Import Prelude AlgoSpec AlgoModel AlgoBasics PrefilterProofs.
Open Scope nat_scope.

Lemma get_nth_error {A} (l : list A) i a : nth_error l i = Some a -> get l i = Ok a.
Proof. revert i; induction l as [|x l IH]; intros [|i] H; cbn in *; try discriminate; [congruence|auto]. Qed.

Lemma get_ok_nth {A} (l : list A) i a : get l i = Ok a -> nth_error l i = Some a.
Proof. revert i; induction l as [|x l IH]; intros [|i] H; cbn in *; try discriminate; [congruence|auto]. Qed.

Section V1.
Variable co : char_ops.
Variable sc : scheme.
Variables cs nm : bool.

Notation M := (Mf co cs nm).

Lemma foldm_eq_fold c : foldm co cs nm c = fold co cs nm c.
Proof. reflexivity. Qed.

(* ================= C. calculateScore ================= *)

(* the positions it records are the greedy ones, whatever happens *)
Lemma calc_loop_pos : forall t idx pat pc score inGap cons fb first acc s ps,
  calc_loop co sc cs nm t idx pat pc score inGap cons fb first acc = Ok (s, ps) ->
  ps = rev acc ++ gpos M t idx pat.
Proof.
  induction t as [|c t IH]; intros idx pat pc score inGap cons fb first acc s ps H; cbn [calc_loop] in H.
  - inversion H; subst. now rewrite gpos_nil_l, app_nil_r.
  - destruct pat as [|p pat]; [discriminate|].
    change (foldm co cs nm c =? p)%Z with (M c p) in H. cbn [gpos].
    destruct (M c p) eqn:Em.
    + apply IH in H. rewrite H. cbn [rev]. now rewrite <- app_assoc.
    + apply IH in H. exact H.
Qed.

(* it fails only when the pattern is exhausted before the end of the slice *)
Lemma calc_loop_total : forall t idx pat pc score inGap cons fb first acc,
  gend M t pat = Some (length t) \/ gend M t pat = None ->
  exists r, calc_loop co sc cs nm t idx pat pc score inGap cons fb first acc = Ok r.
Proof.
  induction t as [|c t IH]; intros idx pat pc score inGap cons fb first acc H; cbn [calc_loop].
  - eauto.
  - destruct pat as [|p pat].
    + rewrite gend_nil_r in H. cbn in H. destruct H; discriminate.
    + change (foldm co cs nm c =? p)%Z with (M c p). cbn [gend length] in H.
      destruct (M c p); apply IH.
      * destruct (gend M t pat); cbn in H; destruct H as [H|H]; try discriminate; [left|right]; congruence.
      * destruct (gend M t (p :: pat)); cbn in H; destruct H as [H|H]; try discriminate; [left|right]; congruence.
Qed.

(* when the greedy match ends exactly at the end of the slice, the score is the documented
   alignment score of the greedy positions *)
Lemma calc_loop_align text : forall t i pat rest pc score inGap cons fb first acc,
  skipn i text = t ++ rest ->
  pc = class_before co sc text i ->
  gend M t pat = Some (length t) ->
  (first = true -> match t, pat with c :: _, p :: _ => M c p = true | _, _ => True end) ->
  calc_loop co sc cs nm t i pat pc score inGap cons fb first acc =
  Ok (align_walk co sc text i (length t) (gpos M t i pat) first inGap cons fb score,
      rev acc ++ gpos M t i pat).
Proof.
  induction t as [|c t IH]; intros i pat rest pc score inGap cons fb first acc Hs Hpc Hg Hfirst.
  - rewrite gpos_nil_l, app_nil_r. reflexivity.
  - destruct pat as [|p pat]; [rewrite gend_nil_r in Hg; discriminate|].
    cbn [app] in Hs. apply skipn_cons_nth in Hs as [Hn Hs].
    assert (Hcb : class_of co sc c = class_before co sc text (S i)).
    { cbn [class_before]. now rewrite Hn. }
    cbn [calc_loop length gpos]. change (foldm co cs nm c =? p)%Z with (M c p).
    cbn [gend length] in Hg.
    destruct (M c p) eqn:Em.
    + destruct (gend M t pat) as [k|] eqn:Eg; cbn in Hg; [|discriminate].
      assert (k = length t) by congruence. subst k.
      rewrite (IH (S i) pat rest _ _ false (S cons) _ false (i :: acc) Hs Hcb Eg) by discriminate.
      cbn [align_walk]. rewrite Nat.eqb_refl. unfold bonus_at. rewrite Hn. rewrite <- Hpc.
      unfold bonus_m. cbn [rev]. rewrite <- app_assoc. cbn [app].
      f_equal. f_equal. f_equal. destruct first; lia.
    + destruct (gend M t (p :: pat)) as [k|] eqn:Eg; cbn in Hg; [|discriminate].
      assert (k = length t) by congruence. subst k.
      assert (Hf : first = false).
      { destruct first; [|reflexivity]. specialize (Hfirst eq_refl). cbn in Hfirst. congruence. }
      subst first.
      destruct (gend_first _ _ _ _ _ Eg) as (a & c' & b & Ht & _ & _ & _ & Hgp).
      specialize (Hgp (S i)).
      rewrite (IH (S i) (p :: pat) rest _ _ true 0 0%Z false acc Hs Hcb Eg) by discriminate.
      cbn [align_walk]. rewrite Hgp.
      assert (Hne : Nat.eqb i (S i + length a) = false) by (apply Nat.eqb_neq; lia).
      rewrite Hne. reflexivity.
Qed.

Lemma prev_class_ok text sidx : sidx <= length text ->
  match sidx with O => Ok (s_init sc) | S j => do a <- get text j; Ok (class_of co sc a) end
  = Ok (class_before co sc text sidx).
Proof.
  intros H. destruct sidx as [|j]; [reflexivity|].
  destruct (nth_error text j) as [a|] eqn:E.
  - rewrite (get_nth_error _ _ _ E). cbn. now rewrite E.
  - apply nth_error_None in E. lia.
Qed.

Lemma prev_class_inv text sidx pc :
  match sidx with O => Ok (s_init sc) | S j => do a <- get text j; Ok (class_of co sc a) end = Ok pc ->
  pc = class_before co sc text sidx.
Proof.
  destruct sidx as [|j]; cbn; [congruence|].
  destruct (get text j) as [a|] eqn:E; cbn; [|discriminate]. apply get_ok_nth in E. rewrite E. congruence.
Qed.

Definition window (text : list Z) (sidx eidx : nat) : list Z := firstn (eidx - sidx) (skipn sidx text).

Lemma window_length text sidx eidx : eidx <= length text -> length (window text sidx eidx) = eidx - sidx.
Proof. intros H. unfold window. rewrite firstn_length, skipn_length. lia. Qed.

Lemma window_split text sidx eidx : exists rest, skipn sidx text = window text sidx eidx ++ rest.
Proof. exists (skipn (eidx - sidx) (skipn sidx text)). unfold window. now rewrite firstn_skipn. Qed.

(* C1. the recorded positions are the greedy match inside text[sidx:eidx] *)
Theorem calc_score_greedy_proof text pat sidx eidx score pos :
  calculate_score co sc cs nm text pat sidx eidx = Ok (score, pos) ->
  pos = gpos M (window text sidx eidx) sidx pat /\
  Forall (fun p => sidx <= p < eidx) pos /\
  (forall i j d, i < j < length pos -> nth i pos d < nth j pos d) /\
  (length pos = length pat -> witness co cs nm text pat pos = true).
Proof.
  intros H. unfold calculate_score in H.
  destruct (Nat.ltb (length text) eidx) eqn:El; [discriminate|]. apply Nat.ltb_ge in El.
  destruct (match sidx with O => Ok (s_init sc) | S j => do a <- get text j; Ok (class_of co sc a) end) as [pc|]; [|discriminate].
  cbn [bind] in H. apply calc_loop_pos in H. cbn [rev app] in H. fold (window text sidx eidx) in H.
  pose proof (gpos_range M (window text sidx eidx) sidx pat) as Hr. rewrite <- H in Hr.
  split; [assumption|]. split; [|split].
  - apply incr2_Forall in Hr. eapply Forall_impl; [|exact Hr]. cbn. intros p Hp.
    destruct (Nat.le_gt_cases sidx eidx) as [Hle|Hgt].
    + rewrite window_length in Hp by assumption. lia.
    + unfold window in Hp. replace (eidx - sidx) with 0 in Hp by lia. cbn in Hp. lia.
  - eapply incr2_nth; eauto.
  - intros Hlen. unfold witness. rewrite witness_from_gwit.
    assert (Hg : exists k, gend M (window text sidx eidx) pat = Some k).
    { rewrite H in Hlen. clear -Hlen. revert Hlen. generalize (window text sidx eidx) as t. generalize sidx as idx.
      intros idx t; revert idx pat. induction t as [|c t IH]; intros idx [|p pat] Hlen; cbn in *; eauto; try discriminate.
      destruct (M c p).
      - cbn in Hlen. injection Hlen as Hlen. destruct (IH _ _ Hlen) as [k Hk]. rewrite Hk. cbn. eauto.
      - destruct (IH _ (p :: pat) Hlen) as [k Hk]. rewrite Hk. cbn. eauto. }
    destruct Hg as [k Hk]. destruct (window_split text sidx eidx) as [rest Hrest].
    rewrite H. eapply gwit_lo_mono; [|eapply gpos_gwit; eauto]. lia.
Qed.

(* C2. totality *)
Theorem calc_total_proof text pat sidx eidx :
  sidx <= length text -> eidx <= length text ->
  (gend M (window text sidx eidx) pat = Some (length (window text sidx eidx)) \/
   gend M (window text sidx eidx) pat = None) ->
  exists r, calculate_score co sc cs nm text pat sidx eidx = Ok r.
Proof.
  intros Hs He Hg. unfold calculate_score.
  assert (El : Nat.ltb (length text) eidx = false) by (apply Nat.ltb_ge; lia). rewrite El.
  rewrite prev_class_ok by assumption. cbn [bind]. apply calc_loop_total. exact Hg.
Qed.

(* on a tight window everything is determined *)
Lemma calculate_score_tight text pat sidx eidx :
  sidx <= eidx -> eidx <= length text -> tight M (window text sidx eidx) pat ->
  exists ps, calculate_score co sc cs nm text pat sidx eidx = Ok (align_score co sc text ps, ps) /\
    ps = gpos M (window text sidx eidx) sidx pat /\
    witness co cs nm text pat ps = true /\
    Forall (fun p => sidx <= p < eidx) ps /\
    hd 0 ps = sidx /\ last ps 0 = eidx - 1 /\ sidx < eidx.
Proof.
  intros Hse He Ht. set (W := window text sidx eidx) in *.
  pose proof (tight_gend _ _ _ Ht) as Hg.
  destruct (tight_head _ _ _ Ht) as (c & w' & p & pat' & HW & Hpat & Hm).
  pose proof (window_length text sidx eidx He) as HlW. fold W in HlW.
  assert (Hlt : sidx < eidx). { rewrite HW in HlW. cbn in HlW. lia. }
  destruct (window_split text sidx eidx) as [rest Hrest]. fold W in Hrest.
  exists (gpos M W sidx pat).
  assert (Hne : pat <> []) by (rewrite Hpat; discriminate).
  pose proof (gpos_last M W sidx pat _ Hne Hg) as Hlast.
  assert (Hhd : hd 0 (gpos M W sidx pat) = sidx).
  { rewrite HW, Hpat. cbn [gpos]. now rewrite Hm. }
  split; [|split; [reflexivity|split; [|split; [|split; [assumption|split; [lia|assumption]]]]]].
  - unfold calculate_score.
    assert (El : Nat.ltb (length text) eidx = false) by (apply Nat.ltb_ge; lia). rewrite El.
    rewrite prev_class_ok by lia. cbn [bind]. fold (window text sidx eidx). fold W.
    rewrite (calc_loop_align text W sidx pat rest _ 0%Z false 0 0%Z true [] Hrest eq_refl Hg).
    + cbn [rev app]. f_equal. f_equal. unfold align_score.
      destruct (gpos M W sidx pat) as [|p0 ps] eqn:Egp.
      * rewrite HW, Hpat in Egp. cbn [gpos] in Egp. rewrite Hm in Egp. discriminate.
      * cbn [hd] in Hhd. subst p0. rewrite Hlast. rewrite HlW. f_equal. lia.
    + intros _. rewrite HW, Hpat. exact Hm.
  - unfold witness. rewrite witness_from_gwit. eapply gwit_lo_mono; [|eapply gpos_gwit; eauto]. lia.
  - pose proof (gpos_range M W sidx pat) as Hr. apply incr2_Forall in Hr.
    eapply Forall_impl; [|exact Hr]. cbn. intros q Hq. lia.
Qed.

(* C3. the score is the documented alignment score, provided the slice is exactly the span of
   the greedy match: first matched position sidx, last matched position eidx-1 *)
Theorem calc_score_is_align_proof text pat sidx eidx score pos :
  calculate_score co sc cs nm text pat sidx eidx = Ok (score, pos) ->
  pat <> [] -> length pos = length pat -> hd 0 pos = sidx -> last pos 0 = eidx - 1 ->
  score = align_score co sc text pos.
Proof.
  intros H Hne Hlen Hhd Hlast.
  destruct (calc_score_greedy_proof _ _ _ _ _ _ H) as (Hpos & Hrange & _ & _).
  unfold calculate_score in H.
  destruct (Nat.ltb (length text) eidx) eqn:El; [discriminate|]. apply Nat.ltb_ge in El.
  destruct (match sidx with O => Ok (s_init sc) | S j => do a <- get text j; Ok (class_of co sc a) end) as [pc|] eqn:Epc; [|discriminate].
  apply prev_class_inv in Epc. cbn [bind] in H. fold (window text sidx eidx) in H.
  set (W := window text sidx eidx) in *.
  destruct pat as [|p pat']; [congruence|].
  assert (Hlt : sidx < eidx).
  { destruct pos as [|q pos]; [discriminate|]. inversion Hrange as [|? ? Hq Hrest']. cbn [hd] in Hhd. lia. }
  pose proof (window_length text sidx eidx El) as HlW. fold W in HlW.
  (* the greedy match is complete ... *)
  assert (Hg : exists k, gend M W (p :: pat') = Some k).
  { destruct (gend M W (p :: pat')) as [k|] eqn:E; [eauto|exfalso].
    rewrite Hpos in Hlen. clear -Hlen E. revert Hlen E. generalize sidx as idx. generalize (p :: pat') as q.
    induction W as [|c t IH]; intros [|q0 q] idx Hlen E; cbn in *; try discriminate.
    destruct (M c q0).
    - cbn in Hlen. injection Hlen as Hlen. destruct (gend M t q) eqn:E'; [discriminate|]. eapply (IH q); eauto.
    - destruct (gend M t (q0 :: q)) eqn:E'; [discriminate|]. eapply (IH (q0 :: q)); eauto. }
  destruct Hg as [k Hk].
  (* ... ends at eidx-1 ... *)
  pose proof (gpos_last M W sidx _ _ Hne Hk) as Hl. rewrite <- Hpos, Hlast in Hl.
  pose proof (gend_pos _ _ _ _ Hne Hk) as Hk1.
  assert (k = length W) by lia. subst k.
  (* ... and starts at sidx *)
  destruct (gend_first _ _ _ _ _ Hk) as (a & c & b & HW & _ & Hc & _ & Hgp).
  rewrite (Hgp sidx) in Hpos. rewrite Hpos in Hhd. cbn [hd] in Hhd.
  assert (a = []) by (destruct a; [reflexivity|cbn in Hhd; lia]). subst a. cbn [app] in HW.
  destruct (window_split text sidx eidx) as [rest Hrest]. fold W in Hrest.
  rewrite (calc_loop_align text W sidx (p :: pat') rest pc 0%Z false 0 0%Z true [] Hrest Epc Hk) in H.
  - cbn [rev app] in H. injection H as Hs Hp. subst score.
    rewrite Hp. unfold align_score. destruct pos as [|q pos']; [discriminate|].
    rewrite Hlast. cbn [length] in Hpos. injection Hpos as Hq _.
    replace q with sidx by lia. f_equal. lia.
  - intros _. rewrite HW. exact Hc.
Qed.

(* ================= D. FuzzyMatchV1 ================= *)

Lemma v1_scan_spec : forall t index pat sidx, pat <> [] ->
  v1_scan co cs nm t index pat sidx =
  match gend M t pat with
  | None => None
  | Some k => Some (match sidx with Some s => s | None => hd 0 (gpos M t index pat) end, index + k)
  end.
Proof.
  induction t as [|c t IH]; intros index pat sidx Hne; destruct pat as [|p pat]; try congruence.
  - reflexivity.
  - cbn [v1_scan gend gpos]. change (foldm co cs nm c =? p)%Z with (M c p).
    destruct (M c p) eqn:Em.
    + destruct pat as [|q pat].
      * rewrite gend_nil_r. cbn [option_map]. rewrite Nat.add_1_r. destruct sidx; reflexivity.
      * rewrite IH by discriminate. destruct (gend M t (q :: pat)) as [k|]; cbn [option_map]; [|reflexivity].
        rewrite Nat.add_succ_r. destruct sidx; reflexivity.
    + rewrite IH by discriminate. destruct (gend M t (p :: pat)) as [k|]; cbn [option_map]; [|reflexivity].
      rewrite Nat.add_succ_r. reflexivity.
Qed.

Lemma v1_back_spec : forall rt index rp sidx, rp <> [] -> length rt <= S index ->
  v1_back co cs nm rt index rp sidx =
  match gend M rt rp with Some k => S index - k | None => sidx end.
Proof.
  induction rt as [|c rt IH]; intros index rp sidx Hne Hl; destruct rp as [|p rp]; try congruence.
  - reflexivity.
  - cbn [v1_back gend]. change (foldm co cs nm c =? p)%Z with (M c p). cbn [length] in Hl.
    destruct (M c p) eqn:Em.
    + destruct rp as [|q rp].
      * rewrite gend_nil_r. cbn [option_map]. lia.
      * assert (Hq : q :: rp <> []) by discriminate.
        rewrite IH by (auto; lia). destruct (gend M rt (q :: rp)) as [k|] eqn:E; cbn [option_map]; [|reflexivity].
        pose proof (gend_pos _ _ _ _ Hq E). destruct (gend_some _ _ _ _ E) as (Hk & _). lia.
    + rewrite IH by (auto; lia). destruct (gend M rt (p :: rp)) as [k|] eqn:E; cbn [option_map]; [|reflexivity].
      pose proof (gend_pos _ _ _ _ Hne E). destruct (gend_some _ _ _ _ E) as (Hk & _). lia.
Qed.

(* the part of FuzzyMatchV1 that follows the prefilter *)
Definition v1_tail (fwd : bool) (text pat : list Z) (withPos : bool) : res mres :=
  let n := length text in
  let t := if fwd then text else rev text in
  let p := if fwd then pat else rev pat in
  match v1_scan co cs nm t O p None with
  | None => Ok NoMatch
  | Some (sidx, eidx) =>
      let sidx := v1_back co cs nm (rev (firstn (eidx - sidx) (skipn sidx t))) (eidx - 1) (rev p) sidx in
      let '(sidx, eidx) := if fwd then (sidx, eidx) else ((n - eidx)%nat, (n - sidx)%nat) in
      do sp <- calculate_score co sc cs nm text pat sidx eidx;
      Ok (Match sidx eidx (fst sp) (if withPos then Some (snd sp) else None))
  end.

Lemma fuzzy_v1_unfold fwd ib text pat wp : pat <> [] ->
  fuzzy_v1 co sc cs nm fwd ib text pat wp =
  do afi <- ascii_fuzzy_index ib text pat cs;
  match afi with None => Ok NoMatch | Some _ => v1_tail fwd text pat wp end.
Proof. intros H. destruct pat; [congruence|reflexivity]. Qed.

Lemma rev_nonnil {A} (l : list A) : l <> [] -> rev l <> [].
Proof. intros H E. apply H. rewrite <- (rev_involutive l), E. reflexivity. Qed.

(* what the two scans compute: a tight window of [t] for [p] *)
Lemma v1_scans_tight t p : p <> [] ->
  match v1_scan co cs nm t O p None with
  | None => gsub M t p = false
  | Some (s, e) =>
      let s' := v1_back co cs nm (rev (firstn (e - s) (skipn s t))) (e - 1) (rev p) s in
      gsub M t p = true /\
      exists a w r, t = a ++ w ++ r /\ length a = s' /\ length a + length w = e /\ tight M w p
  end.
Proof.
  intros Hne. rewrite v1_scan_spec by assumption.
  destruct (gend M t p) as [e|] eqn:Eg; [|now apply gend_none].
  cbn zeta. rewrite Nat.add_0_l.
  destruct (scan_window_tight M t p e Hne Eg) as (k & Hk & Hk1 & Hkle & Hse & Hel & a & w & r & Ht & Hla & Hlw & Htight).
  cbn zeta in Hk. set (s := hd 0 (gpos M t 0 p)) in *.
  rewrite v1_back_spec.
  - rewrite Hk. split.
    + destruct (gend_some _ _ _ _ Eg) as (_ & Hs & _).
      rewrite <- (firstn_skipn e t). now apply gsub_app_r.
    + exists a, w, r. split; [assumption|]. split; [lia|]. split; [lia|assumption].
  - now apply rev_nonnil.
  - rewrite rev_length, firstn_length. lia.
Qed.

Lemma v1_tail_spec fwd text pat wp : pat <> [] ->
  (subseq_b co cs nm text pat = false /\ v1_tail fwd text pat wp = Ok NoMatch) \/
  (subseq_b co cs nm text pat = true /\
   exists s e ps,
     v1_tail fwd text pat wp = Ok (Match s e (align_score co sc text ps) (if wp then Some ps else None)) /\
     s < e /\ e <= length text /\
     witness co cs nm text pat ps = true /\
     Forall (fun p => s <= p < e) ps /\
     hd 0 ps = s /\ last ps 0 = e - 1 /\
     tight M (window text s e) pat /\ ps = gpos M (window text s e) s pat).
Proof.
  intros Hne. unfold v1_tail.
  set (t := if fwd then text else rev text). set (p := if fwd then pat else rev pat).
  assert (Hp : p <> []) by (unfold p; destruct fwd; [assumption|now apply rev_nonnil]).
  assert (Hsub : gsub M t p = subseq_b co cs nm text pat).
  { unfold t, p. rewrite subseq_b_gsub. destruct fwd; [reflexivity|apply gsub_rev]. }
  pose proof (v1_scans_tight t p Hp) as Hscan.
  destruct (v1_scan co cs nm t 0 p None) as [[s e]|].
  - right. cbn zeta in Hscan. destruct Hscan as (Hs & a & w & r & Ht & Hla & Hlw & Htight).
    set (s' := v1_back co cs nm (rev (firstn (e - s) (skipn s t))) (e - 1) (rev p) s) in *.
    split; [congruence|].
    assert (Hwin : exists sidx eidx,
               (if fwd then (s', e) else (length text - e, length text - s')) = (sidx, eidx) /\
               sidx <= eidx /\ eidx <= length text /\ tight M (window text sidx eidx) pat).
    { unfold t, p in *. destruct fwd.
      - exists s', e. split; [reflexivity|]. split; [lia|]. split.
        + rewrite Ht, !app_length. lia.
        + unfold window. rewrite Ht. rewrite (window_app a w r s' (e - s')) by lia. assumption.
      - exists (length text - e), (length text - s'). split; [reflexivity|].
        assert (Htext : text = rev r ++ rev w ++ rev a).
        { rewrite <- (rev_involutive text), Ht, !rev_app_distr. now rewrite <- app_assoc. }
        assert (Hlen : length text = length a + length w + length r).
        { rewrite <- (rev_length text), Ht, !app_length. lia. }
        split; [lia|]. split; [lia|].
        assert (Hw' : window text (length text - e) (length text - s') = rev w).
        { unfold window. rewrite Hlen. rewrite Htext. apply window_app; rewrite rev_length; lia. }
        rewrite Hw'.
        apply tight_rev in Htight. now rewrite rev_involutive in Htight. }
    destruct Hwin as (sidx & eidx & Heq & Hle & Hel & Htw). rewrite Heq.
    destruct (calculate_score_tight text pat sidx eidx Hle Hel Htw) as (ps & Hcalc & Hps & Hwit & Hrange & Hhd & Hlast & Hlt).
    exists sidx, eidx, ps. rewrite Hcalc. cbn [bind fst snd].
    split; [reflexivity|]. repeat (split; [assumption|]). assumption.
  - left. split; [congruence|reflexivity].
Qed.

End V1.

(* ---------- the property-level statements ---------- *)

Section Statements.
Variable co : char_ops.
Variable sc : scheme.

Definition H_ascii_text (ib : bool) (text : list Z) : Prop :=
  ib = true -> Forall (fun c => (0 <= c < 128)%Z) text.
Definition H_norm_ascii : Prop := forall c, (c < 192)%Z -> co_norm co c = c.

(* D1. a reported match is a real one, its positions are a witness inside [s, e), and its score is
   the documented alignment score of these positions *)
Theorem v1_sound_proof cs nm fwd ib text pat wp s e score pos :
  fuzzy_v1 co sc cs nm fwd ib text pat wp = Ok (Match s e score pos) -> pat <> [] ->
  (s <= e <= length text)%nat /\
  subseq_b co cs nm text pat = true /\
  (forall ps, pos = Some ps ->
     witness co cs nm text pat ps = true /\ Forall (fun p => (s <= p < e)%nat) ps /\
     score = align_score co sc text ps).
Proof.
  intros H Hne. rewrite fuzzy_v1_unfold in H by assumption.
  destruct (ascii_fuzzy_index ib text pat cs) as [[x|]|]; cbn [bind] in H; try discriminate.
  destruct (v1_tail_spec co sc cs nm fwd text pat wp Hne) as [[_ Hn]|(Hsub & s0 & e0 & ps0 & Ht & Hlt & Hel & Hwit & Hr & _)].
  - rewrite Hn in H. discriminate.
  - rewrite Ht in H. injection H as -> -> <- <-. split; [lia|]. split; [assumption|].
    intros ps Hps. destruct wp; [|discriminate]. injection Hps as <-. auto.
Qed.

(* the score and the span do not depend on the positions being requested, and the score is always
   the alignment score of the greedy witness of the reported span *)
Theorem v1_score_proof cs nm fwd ib text pat wp s e score pos :
  fuzzy_v1 co sc cs nm fwd ib text pat wp = Ok (Match s e score pos) -> pat <> [] ->
  exists ps, witness co cs nm text pat ps = true /\ Forall (fun p => (s <= p < e)%nat) ps /\
             hd 0 ps = s /\ last ps 0 = (e - 1)%nat /\ score = align_score co sc text ps /\
             pos = (if wp then Some ps else None).
Proof.
  intros H Hne. rewrite fuzzy_v1_unfold in H by assumption.
  destruct (ascii_fuzzy_index ib text pat cs) as [[x|]|]; cbn [bind] in H; try discriminate.
  destruct (v1_tail_spec co sc cs nm fwd text pat wp Hne) as [[_ Hn]|(Hsub & s0 & e0 & ps0 & Ht & Hlt & Hel & Hwit & Hr & Hhd & Hlast & _)].
  - rewrite Hn in H. discriminate.
  - rewrite Ht in H. injection H as -> -> <- <-. exists ps0. repeat split; auto.
Qed.

(* the reported span is minimal on both sides: the pattern matches inside text[s:e) but neither
   inside text[s+1:e) nor inside text[s:e-1) *)
Theorem v1_span_tight_proof cs nm fwd ib text pat wp s e score pos :
  fuzzy_v1 co sc cs nm fwd ib text pat wp = Ok (Match s e score pos) -> pat <> [] ->
  subseq_b co cs nm (window text s e) pat = true /\
  subseq_b co cs nm (tl (window text s e)) pat = false /\
  subseq_b co cs nm (removelast (window text s e)) pat = false.
Proof.
  intros H Hne. rewrite fuzzy_v1_unfold in H by assumption.
  destruct (ascii_fuzzy_index ib text pat cs) as [[x|]|]; cbn [bind] in H; try discriminate.
  destruct (v1_tail_spec co sc cs nm fwd text pat wp Hne) as [[_ Hn]|(Hsub & s0 & e0 & ps0 & Ht & _ & _ & _ & _ & _ & _ & Htight & _)].
  - rewrite Hn in H. discriminate.
  - rewrite Ht in H. injection H as -> -> <- <-. rewrite !subseq_b_gsub. exact Htight.
Qed.

(* D2. no match is missed *)
Theorem v1_complete_proof cs nm fwd ib text pat wp :
  H_ascii_text ib text -> H_norm_ascii ->
  fuzzy_v1 co sc cs nm fwd ib text pat wp = Ok NoMatch ->
  subseq_b co cs nm text pat = false.
Proof.
  intros Ha Hn H. destruct pat as [|p0 pat0] eqn:Epat; [discriminate|]. rewrite <- Epat in *.
  assert (Hne : pat <> []) by (rewrite Epat; discriminate).
  rewrite fuzzy_v1_unfold in H by assumption.
  destruct (ascii_fuzzy_index ib text pat cs) as [[x|]|] eqn:Eafi; cbn [bind] in H; try discriminate.
  - destruct (v1_tail_spec co sc cs nm fwd text pat wp Hne) as [[Hs _]|(_ & s0 & e0 & ps0 & Ht & _)]; [assumption|].
    rewrite Ht in H. discriminate.
  - eapply afi_none_sound; eauto.
Qed.

(* D3. it never fails, on any text and pattern (no hypothesis is needed) *)
Theorem v1_total_proof cs nm fwd ib text pat wp :
  exists r, fuzzy_v1 co sc cs nm fwd ib text pat wp = Ok r.
Proof.
  destruct pat as [|p0 pat0] eqn:Epat; [cbn; eauto|]. rewrite <- Epat in *.
  assert (Hne : pat <> []) by (rewrite Epat; discriminate).
  rewrite fuzzy_v1_unfold by assumption.
  destruct (afi_total ib text pat cs) as [[x|] ->]; cbn [bind]; [|eauto].
  destruct (v1_tail_spec co sc cs nm fwd text pat wp Hne) as [[_ Hn]|(_ & s0 & e0 & ps0 & Ht & _)]; eauto.
Qed.

(* D2 + D3: under the two hypotheses, a subsequence is always reported as a Match *)
Corollary v1_match_iff_proof cs nm fwd ib text pat wp :
  H_ascii_text ib text -> H_norm_ascii -> pat <> [] ->
  (subseq_b co cs nm text pat = true <->
   exists s e score pos, fuzzy_v1 co sc cs nm fwd ib text pat wp = Ok (Match s e score pos)).
Proof.
  intros Ha Hn Hne. split.
  - intros Hs. destruct (v1_total_proof cs nm fwd ib text pat wp) as [[|s e score pos] Hr]; [|eauto].
    apply (v1_complete_proof _ _ _ _ _ _ _ Ha Hn) in Hr. congruence.
  - intros (s & e & score & pos & H). now destruct (v1_sound_proof _ _ _ _ _ _ _ _ _ _ _ H Hne) as (_ & Hs & _).
Qed.

(* D4. asking for positions does not change anything else *)
Definition strip_pos (r : res mres) : res mres :=
  match r with Ok (Match s e score _) => Ok (Match s e score None) | x => x end.

Theorem v1_withpos_indep_proof cs nm fwd ib text pat :
  strip_pos (fuzzy_v1 co sc cs nm fwd ib text pat true) =
  strip_pos (fuzzy_v1 co sc cs nm fwd ib text pat false).
Proof.
  destruct pat as [|p0 pat0] eqn:Epat; [reflexivity|]. rewrite <- Epat in *.
  assert (Hne : pat <> []) by (rewrite Epat; discriminate).
  rewrite !fuzzy_v1_unfold by assumption.
  destruct (ascii_fuzzy_index ib text pat cs) as [[x|]|]; cbn [bind]; try reflexivity.
  unfold v1_tail. cbn zeta.
  destruct (v1_scan co cs nm _ 0 _ None) as [[s e]|]; [|reflexivity].
  destruct (if fwd then _ else _) as [sidx eidx].
  destruct (calculate_score co sc cs nm text pat sidx eidx); reflexivity.
Qed.

Corollary v1_withpos_indep_match cs nm fwd ib text pat s e score pos :
  fuzzy_v1 co sc cs nm fwd ib text pat true = Ok (Match s e score pos) ->
  fuzzy_v1 co sc cs nm fwd ib text pat false = Ok (Match s e score None).
Proof.
  intros H. pose proof (v1_withpos_indep_proof cs nm fwd ib text pat) as Hi. rewrite H in Hi. cbn in Hi.
  destruct (fuzzy_v1 co sc cs nm fwd ib text pat false) as [[|s' e' sc' [ps|]]|] eqn:E; cbn in Hi; try discriminate.
  - exfalso. clear Hi H.
    destruct pat as [|p0 pat0] eqn:Epat; [cbn in E; discriminate|]. rewrite <- Epat in *.
    assert (Hne : pat <> []) by (rewrite Epat; discriminate).
    destruct (v1_score_proof _ _ _ _ _ _ _ _ _ _ _ E Hne) as (ps' & _ & _ & _ & _ & _ & Hp). discriminate.
  - congruence.
Qed.

End Statements.

(* ---------- non-vacuity ---------- *)

Definition co_id : char_ops := mkOps (fun c => c) (fun _ => cNonWord) (fun c => c) (fun _ => false).

(* "fzf" in "foo_zFb f": forward and backward, with positions *)
Example v1_example_fwd :
  fuzzy_v1 co_id scheme_default false true true true [102;111;111;95;122;70;98;32;102]%Z [102;122;102]%Z true
  = Ok (Match 0 6 ((16 + 2 * 10) + (-3 - 1 - 1) + (16 + 8) + (16 + 8))%Z (Some [0; 4; 5])).
Proof. vm_compute. reflexivity. Qed.

(* "fzf" in "fzf fxzF": the backward variant picks the last occurrence *)
Example v1_example_bwd :
  fuzzy_v1 co_id scheme_default false true true true [102;122;102;32;102;120;122;70]%Z [102;122;102]%Z true
  = Ok (Match 0 3 88%Z (Some [0; 1; 2])) /\
  fuzzy_v1 co_id scheme_default false true false true [102;122;102;32;102;120;122;70]%Z [102;122;102]%Z true
  = Ok (Match 4 8 72%Z (Some [4; 6; 7])) /\
  align_score co_id scheme_default [102;122;102;32;102;120;122;70]%Z [4; 6; 7] = 72%Z /\
  H_ascii_text true [102;122;102;32;102;120;122;70]%Z /\ H_norm_ascii co_id.
Proof.
  split; [vm_compute; reflexivity|]. split; [vm_compute; reflexivity|]. split; [vm_compute; reflexivity|]. split.
  - intros _. repeat constructor; lia.
  - intros c _. reflexivity.
Qed.

Example calc_example :
  calculate_score co_id scheme_default false true [102;111;111;95;122;70;98;32;102]%Z [102;122;102]%Z 0 6
  = Ok (align_score co_id scheme_default [102;111;111;95;122;70;98;32;102]%Z [0; 4; 5], [0; 4; 5]).
Proof. vm_compute. reflexivity. Qed.

Example v1_example_nomatch :
  fuzzy_v1 co_id scheme_default false true true true [102;111;111]%Z [102;122]%Z true = Ok NoMatch.
Proof. vm_compute. reflexivity. Qed.

Print Assumptions calc_score_greedy_proof.
Print Assumptions calc_total_proof.
Print Assumptions calc_score_is_align_proof.
Print Assumptions v1_sound_proof.
Print Assumptions v1_score_proof.
Print Assumptions v1_complete_proof.
Print Assumptions v1_total_proof.
Print Assumptions v1_span_tight_proof.
Print Assumptions v1_match_iff_proof.
Print Assumptions v1_withpos_indep_proof.
Print Assumptions v1_withpos_indep_match.
