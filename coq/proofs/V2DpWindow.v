(* C03: the window chosen by asciiFuzzyIndex satisfies the hypotheses of v2_score_eq_naive_proof:
   the (folded) first pattern character occurs neither before the window nor at its first position
   (unless the window starts the line), and the (folded) last pattern character does not occur after
   the window.  Hence the final statement in terms of [ascii_fuzzy_index] itself. *)
From Fzf Require Import Prelude AlgoSpec AlgoModel V2Facts V2DpWin V2DpNaive V2DpCore.
Open Scope Z_scope.

(* what trySkip looks for: the byte b, or its upper-case form when matching case-insensitively *)
Definition lowerable (cs : bool) (b : Z) : bool := negb cs && (97 <=? b) && (b <=? 122).
Definition bytematch (cs : bool) (b c : Z) : bool := (c =? b) || (lowerable cs b && (c =? b - 32)).

Lemma index_byte_some : forall l b i, index_byte l b = Some i ->
  (i < length l)%nat /\ zn l i = b /\ forall k, (k < i)%nat -> zn l k <> b.
Proof.
  induction l as [|c l IH]; intros b i H; [discriminate|].
  cbn [index_byte] in H. destruct (c =? b) eqn:E.
  - inversion H; subst. apply Z.eqb_eq in E. cbn. repeat split; [lia|exact E|intros k Hk; lia].
  - destruct (index_byte l b) as [i'|] eqn:E'; [|discriminate]. inversion H; subst.
    destruct (IH b i' E') as (H1 & H2 & H3). apply Z.eqb_neq in E.
    repeat split; [cbn; lia|exact H2|].
    intros [|k] Hk; [exact E|]. apply H3. lia.
Qed.

Lemma index_byte_none : forall l b, index_byte l b = None -> forall k, (k < length l)%nat -> zn l k <> b.
Proof.
  induction l as [|c l IH]; intros b H k Hk; [cbn in Hk; lia|].
  cbn [index_byte] in H. destruct (c =? b) eqn:E; [discriminate|].
  destruct (index_byte l b) eqn:E'; [discriminate|]. apply Z.eqb_neq in E.
  destruct k as [|k]; [exact E|]. apply (IH b E' k). cbn in Hk. lia.
Qed.

Lemma skipn_skipn_add {A} a b (l : list A) : skipn a (skipn b l) = skipn (b + a) l.
Proof. revert l; induction b as [|b IH]; intros l; [reflexivity|]. destruct l; cbn; [now destruct a|apply IH]. Qed.

Lemma zn_skipn (l : list Z) a k : zn (skipn a l) k = zn l (a + k).
Proof. apply nth_skipn_add. Qed.

Lemma zn_firstn (l : list Z) a k : (k < a)%nat -> zn (firstn a l) k = zn l k.
Proof. apply nth_firstn_lt. Qed.

(* trySkip returns the first position at or after [from] holding b (or its upper-case form) *)
Lemma try_skip_spec text cs b from r : try_skip text cs b from = Ok (Some r) ->
  (from <= r < length text)%nat /\ forall k, (from <= k < r)%nat -> bytematch cs b (zn text k) = false.
Proof.
  unfold try_skip. destruct (Nat.ltb (length text) from) eqn:Ef; [discriminate|].
  apply Nat.ltb_ge in Ef. set (arr := skipn from text).
  assert (Hlen : length arr = (length text - from)%nat) by apply skipn_length.
  assert (Hno : forall i, (forall k, (k < i)%nat -> zn arr k <> b) ->
                (lowerable cs b = true -> forall k, (k < i)%nat -> zn arr k <> b - 32) ->
                forall k, (from <= k < from + i)%nat -> bytematch cs b (zn text k) = false).
  { intros i H1 H2 k Hk. replace k with (from + (k - from))%nat by lia. rewrite <- zn_skipn. fold arr.
    unfold bytematch. apply orb_false_iff. split; [apply Z.eqb_neq, H1; lia|].
    destruct (lowerable cs b) eqn:El; [|reflexivity]. cbn [andb]. apply Z.eqb_neq, H2; [reflexivity|lia]. }
  destruct (index_byte arr b) as [i|] eqn:Ei.
  - destruct (index_byte_some _ _ _ Ei) as (I1 & I2 & I3).
    destruct i as [|i].
    + intros H. inversion H; subst. split; [lia|]. intros k Hk. lia.
    + fold (lowerable cs b). destruct (lowerable cs b) eqn:El.
      * destruct (index_byte (firstn (S i) arr) (b - 32)) as [u|] eqn:Eu.
        -- destruct (index_byte_some _ _ _ Eu) as (U1 & U2 & U3).
           rewrite firstn_length in U1.
           intros H. inversion H; subst. split; [lia|].
           apply Hno.
           ++ intros k Hk. apply I3. lia.
           ++ intros _ k Hk. rewrite <- (zn_firstn arr (S i)) by lia. apply U3. exact Hk.
        -- pose proof (index_byte_none _ _ Eu) as U. rewrite firstn_length in U.
           intros H. inversion H; subst. split; [lia|].
           apply Hno.
           ++ exact I3.
           ++ intros _ k Hk. rewrite <- (zn_firstn arr (S i)) by lia. apply U. lia.
      * intros H. inversion H; subst. split; [lia|].
        apply Hno; [exact I3|intros Hf; discriminate].
  - pose proof (index_byte_none _ _ Ei) as I.
    fold (lowerable cs b). destruct (lowerable cs b) eqn:El.
    + destruct (index_byte arr (b - 32)) as [u|] eqn:Eu; [|discriminate].
      destruct (index_byte_some _ _ _ Eu) as (U1 & U2 & U3).
      intros H. inversion H; subst. split; [lia|].
      apply Hno.
      * intros k Hk. apply I. lia.
      * intros _ k Hk. apply U3. exact Hk.
    + discriminate.
Qed.

(* the pattern loop after its first iteration: firstIdx is kept; lastIdx / b end on the last character *)
Lemma afi_loop_rest text cs : forall pat idx fi li b fi' li' b',
  afi_loop text cs pat false idx fi li b = Ok (Some (fi', li', b')) ->
  fi' = fi /\
  match pat with
  | [] => li' = li /\ b' = b
  | _ :: _ => (idx <= li' < length text)%nat /\ b' = last pat 0
  end.
Proof.
  induction pat as [|p pat IH]; intros idx fi li b fi' li' b' H.
  - cbn in H. inversion H; subst. auto.
  - cbn [afi_loop] in H. destruct (try_skip text cs p idx) as [[i|]|] eqn:Et; cbn [bind] in H; try discriminate.
    destruct (try_skip_spec _ _ _ _ _ Et) as [Hr _].
    cbn [andb] in H. destruct (IH _ _ _ _ _ _ _ H) as [H1 H2]. split; [exact H1|].
    destruct pat as [|q pat].
    + destruct H2 as [-> ->]. split; [lia|reflexivity].
    + destruct H2 as [H2 H3]. split; [lia|]. rewrite H3. reflexivity.
Qed.

Lemma last_occ_mono b bu : forall scope off o0, (o0 <= off)%nat ->
  exists o, last_occ scope b bu off (Some o0) = Some o /\ (o0 <= o < off + length scope \/ o = o0)%nat.
Proof.
  induction scope as [|c scope IH]; intros off o0 H0.
  - exists o0. cbn. auto.
  - cbn [last_occ length].
    destruct (Nat.ltb 0 off && ((c =? b) || (c =? bu))).
    + destruct (IH (S off) off ltac:(lia)) as (o & E & Ho). exists o. split; [exact E|]. lia.
    + destruct (IH (S off) o0 ltac:(lia)) as (o & E & Ho). exists o. split; [exact E|]. lia.
Qed.

Lemma last_occ_bound b bu : forall scope off best o,
  last_occ scope b bu off best = Some o -> best = Some o \/ (off <= o < off + length scope)%nat.
Proof.
  induction scope as [|c scope IH]; intros off best o H.
  - cbn in H. auto.
  - cbn [last_occ] in H. cbn [length]. apply IH in H.
    destruct (Nat.ltb 0 off && ((c =? b) || (c =? bu))).
    + destruct H as [H|H]; [inversion H; subst; right; lia|right; lia].
    + destruct H as [H|H]; [left; exact H|right; lia].
Qed.

Lemma last_occ_covers b bu : forall scope off best k, (k < length scope)%nat -> (0 < off + k)%nat ->
  (zn scope k =? b) || (zn scope k =? bu) = true ->
  exists o, last_occ scope b bu off best = Some o /\ (off + k <= o)%nat.
Proof.
  induction scope as [|c scope IH]; intros off best k Hk Hpos Hm; [cbn in Hk; lia|].
  cbn [last_occ]. destruct k as [|k].
  - unfold zn in Hm. cbn [nth] in Hm. rewrite Hm.
    replace (Nat.ltb 0 off) with true by (symmetry; apply Nat.ltb_lt; lia). cbn [andb].
    destruct (last_occ_mono b bu scope (S off) off ltac:(lia)) as (o & E & Ho).
    exists o. split; [exact E|]. lia.
  - cbn [length] in Hk.
    destruct (IH (S off) (if Nat.ltb 0 off && ((c =? b) || (c =? bu)) then Some off else best) k
                ltac:(lia) ltac:(lia) Hm) as (o & E & Ho).
    exists o. split; [exact E|]. lia.
Qed.

Section Window.
Variable co : char_ops.
Variable sc : scheme.

(* folding of an ASCII character is trySkip's notion of a match *)
Lemma fold_bytematch cs nm b c : (forall c, c < 192 -> co_norm co c = c) -> 0 <= c < 128 ->
  fold co cs nm c = b -> bytematch cs b c = true.
Proof.
  intros Hn Hc Hf. unfold fold, lower1 in Hf. unfold bytematch, lowerable.
  replace (127 <? c) with false in Hf by (symmetry; apply Z.ltb_ge; lia).
  destruct cs.
  - assert (Hcb : c = b) by (destruct nm; [rewrite Hn in Hf by lia|]; exact Hf). rewrite Hcb, Z.eqb_refl. reflexivity.
  - destruct ((65 <=? c) && (c <=? 90)) eqn:E.
    + apply andb_true_iff in E as [E1 E2]. apply Z.leb_le in E1, E2.
      assert (Hcb : c + 32 = b) by (destruct nm; [rewrite Hn in Hf by lia|]; exact Hf). clear Hf. subst b.
      apply orb_true_iff. right. cbn [negb andb].
      replace (97 <=? c + 32) with true by (symmetry; apply Z.leb_le; lia).
      replace (c + 32 <=? 122) with true by (symmetry; apply Z.leb_le; lia).
      cbn [andb]. apply Z.eqb_eq. lia.
    + assert (Hcb : c = b) by (destruct nm; [rewrite Hn in Hf by lia|]; exact Hf). rewrite Hcb, Z.eqb_refl. reflexivity.
Qed.

Theorem afi_window_proof :
  forall (is_bytes cs nm : bool) (text pat : list Z) (minIdx maxIdx : nat),
  (is_bytes = true -> Forall (fun c => 0 <= c < 128) text) ->
  (forall c, c < 192 -> co_norm co c = c) ->
  pat <> [] ->
  ascii_fuzzy_index is_bytes text pat cs = Ok (Some (minIdx, maxIdx)) ->
  let pre := firstn minIdx text in
  let w := firstn (maxIdx - minIdx) (skipn minIdx text) in
  let post := skipn maxIdx text in
  (minIdx <= maxIdx <= length text)%nat /\
  text = pre ++ w ++ post /\
  (forall c, In c pre -> fold co cs nm c <> zn pat 0) /\
  (pre = [] \/ fold co cs nm (zn w 0) <> zn pat 0) /\
  (forall c, In c post -> fold co cs nm c <> last pat 0).
Proof.
  intros is_bytes cs nm text pat minIdx maxIdx Hascii Hn Hpat H. cbn zeta.
  assert (Hsplit : forall a b, (a <= b <= length text)%nat ->
            text = firstn a text ++ firstn (b - a) (skipn a text) ++ skipn b text).
  { intros a b Hab. rewrite <- (firstn_skipn a text) at 1. f_equal.
    rewrite <- (firstn_skipn (b - a) (skipn a text)) at 1. f_equal.
    rewrite skipn_skipn_add. f_equal. lia. }
  unfold ascii_fuzzy_index in H. destruct is_bytes; cbn [negb] in H.
  2:{ (* rune representation: the window is the whole line *)
      inversion H; subst.
      split; [lia|]. split; [apply (Hsplit O (length text)); lia|].
      rewrite skipn_all. cbn [firstn].
      split; [intros c []|]. split; [left; reflexivity|intros c []]. }
  specialize (Hascii eq_refl).
  assert (Hzn : forall k, (k < length text)%nat -> 0 <= zn text k < 128).
  { intros k Hk. rewrite Forall_forall in Hascii. apply Hascii. apply nth_In. exact Hk. }
  destruct (negb (is_ascii pat)); [discriminate|].
  destruct pat as [|p0 pat']; [congruence|].
  cbn [afi_loop] in H.
  destruct (try_skip text cs p0 0) as [[i0|]|] eqn:Et; cbn [bind] in H; try discriminate.
  destruct (try_skip_spec _ _ _ _ _ Et) as [Hi0 Hbefore].
  cbn [andb] in H.
  destruct (afi_loop text cs pat' false (S i0) (if Nat.ltb 0 i0 then (i0 - 1)%nat else O) i0 p0)
    as [[[[fi li] b]|]|] eqn:El; cbn [bind] in H; try discriminate.
  destruct (afi_loop_rest _ _ _ _ _ _ _ _ _ _ El) as [Hfi Hrest].
  assert (Hli : (i0 <= li < length text)%nat /\ b = last (p0 :: pat') 0).
  { destruct pat' as [|q pat'']; [destruct Hrest as [-> ->]; split; [lia|reflexivity]|].
    destruct Hrest as [Hr ->]. split; [lia|reflexivity]. }
  destruct Hli as [Hli Hb].
  set (bu := if negb cs && (97 <=? b) && (b <=? 122) then b - 32 else b) in H.
  assert (Hmin : (fi < i0 \/ (fi = O /\ i0 = O))%nat).
  { subst fi. destruct (Nat.ltb 0 i0) eqn:E0; [apply Nat.ltb_lt in E0; lia|apply Nat.ltb_ge in E0; lia]. }
  (* facts about maxIdx, whichever branch *)
  assert (Hmax : minIdx = fi /\ (li < maxIdx <= length text)%nat /\
                 forall k, (maxIdx <= k < length text)%nat ->
                   (zn text k =? b) || (zn text k =? bu) = false).
  { destruct (last_occ (skipn li text) b bu 0 None) as [o|] eqn:Eo.
    - inversion H; subst minIdx maxIdx.
      destruct (last_occ_bound _ _ _ _ _ _ Eo) as [Hc|Hc]; [discriminate|].
      rewrite skipn_length in Hc. split; [reflexivity|]. split; [lia|].
      intros k Hk. destruct ((zn text k =? b) || (zn text k =? bu)) eqn:Em; [|reflexivity]. exfalso.
      replace k with (li + (k - li))%nat in Em by lia. rewrite <- zn_skipn in Em.
      destruct (last_occ_covers b bu (skipn li text) 0 None (k - li)
                  ltac:(rewrite skipn_length; lia) ltac:(lia) Em) as (o' & E' & Ho').
      rewrite Eo in E'. inversion E'; subst. lia.
    - inversion H; subst minIdx maxIdx. split; [reflexivity|]. split; [lia|].
      intros k Hk. destruct ((zn text k =? b) || (zn text k =? bu)) eqn:Em; [|reflexivity]. exfalso.
      replace k with (li + (k - li))%nat in Em by lia. rewrite <- zn_skipn in Em.
      destruct (last_occ_covers b bu (skipn li text) 0 None (k - li)
                  ltac:(rewrite skipn_length; lia) ltac:(lia) Em) as (o' & E' & Ho').
      rewrite Eo in E'. discriminate. }
  destruct Hmax as (Hmin' & Hmaxr & Hafter). subst minIdx.
  assert (Hnomatch : forall k, (k < i0)%nat -> fold co cs nm (zn text k) <> zn (p0 :: pat') 0).
  { intros k Hk Hf. pose proof (fold_bytematch cs nm _ _ Hn (Hzn k ltac:(lia)) Hf) as Hbm.
    unfold zn in Hbm at 1. cbn [nth] in Hbm. rewrite Hbefore in Hbm by lia. discriminate. }
  split; [lia|]. split; [apply Hsplit; lia|].
  split; [|split].
  - intros c Hc. destruct (In_nth _ _ 0 Hc) as (k & Hk & <-).
    rewrite firstn_length in Hk. fold (zn (firstn fi text) k). rewrite zn_firstn by lia.
    apply Hnomatch. lia.
  - destruct Hmin as [Hlt|[-> _]]; [right|left; reflexivity].
    rewrite zn_firstn by lia. rewrite zn_skipn. apply Hnomatch. lia.
  - intros c Hc. destruct (In_nth _ _ 0 Hc) as (k & Hk & <-).
    rewrite skipn_length in Hk. fold (zn (skipn maxIdx text) k). rewrite zn_skipn.
    intros Hf. pose proof (fold_bytematch cs nm _ _ Hn (Hzn (maxIdx + k)%nat ltac:(lia)) Hf) as Hbm.
    rewrite <- Hb in Hbm. specialize (Hafter (maxIdx + k)%nat ltac:(lia)).
    unfold bytematch, lowerable in Hbm. unfold bu in Hafter.
    apply orb_false_iff in Hafter as [A1 A2]. rewrite A1 in Hbm.
    destruct (negb cs && (97 <=? b) && (b <=? 122)); cbn [andb orb] in Hbm; [congruence|discriminate].
Qed.

End Window.
