(* FuzzyMatchV2, phases 3-4: generic facts about the scratch matrices ([mat], [mget], [mset],
   [put_row]) and checked list access.  A matrix is viewed through [mc m z], the content of the
   flat cell [z] ([None] = out of range or not written in this call). *)
From Fzf Require Import Prelude AlgoSpec AlgoModel V2Facts.
Open Scope Z_scope.

(* ---------- checked access ---------- *)

Lemma get_nth_error {A} (l : list A) n x : nth_error l n = Some x -> get l n = Ok x.
Proof.
  revert n; induction l as [|a l IH]; intros [|n] H; cbn in *; try discriminate.
  - now inversion H.
  - now apply IH.
Qed.

Lemma get_nth {A} (l : list A) n d : (n < length l)%nat -> get l n = Ok (nth n l d).
Proof.
  intros H. apply get_nth_error. now apply nth_error_nth'.
Qed.

Lemma zget_zn (l : list Z) (i : Z) : 0 <= i < Z.of_nat (length l) -> zget l i = Ok (zn l (Z.to_nat i)).
Proof.
  intros H. unfold zget. destruct (Z.ltb_spec i 0) as [H0|H0]; [lia|].
  unfold zn. apply get_nth. lia.
Qed.

Lemma skipn_nth_cons {A} (l : list A) k d : (k < length l)%nat -> skipn k l = nth k l d :: skipn (S k) l.
Proof.
  revert k; induction l as [|a l IH]; intros [|k] H; cbn [length] in H; try lia.
  - reflexivity.
  - cbn [skipn nth]. rewrite (IH k) by lia. reflexivity.
Qed.

(* ---------- cells ---------- *)

Definition mc (m : mat) (z : Z) : option Z :=
  if z <? 0 then None else
  match nth_error m (Z.to_nat z) with Some (Some v) => Some v | _ => None end.

Lemma mget_mc m z v : mc m z = Some v -> mget m z = Ok v.
Proof.
  unfold mc, mget. destruct (z <? 0); [discriminate|].
  destruct (nth_error m (Z.to_nat z)) as [[x|]|] eqn:E; try discriminate.
  intros H; inversion H; subst. now rewrite (get_nth_error _ _ _ E).
Qed.

Lemma mc_range m z v : mc m z = Some v -> 0 <= z < Z.of_nat (length m).
Proof.
  unfold mc. destruct (Z.ltb_spec z 0) as [H0|H0]; [discriminate|].
  destruct (nth_error m (Z.to_nat z)) as [o|] eqn:E; [|discriminate].
  intros _. assert (Z.to_nat z < length m)%nat by (apply nth_error_Some; congruence). lia.
Qed.

Lemma set_nth_spec {A} (l : list A) n v : (n < length l)%nat ->
  exists l', set_nth l n v = Ok l' /\ length l' = length l /\
             forall k, nth_error l' k = if Nat.eqb k n then Some v else nth_error l k.
Proof.
  revert n; induction l as [|a l IH]; intros [|n] H; cbn [length] in H; try lia.
  - exists (v :: l). split; [reflexivity|]. split; [reflexivity|]. intros [|k]; reflexivity.
  - destruct (IH n) as (l' & E & HL & HN); [lia|].
    exists (a :: l'). cbn [set_nth]. rewrite E. cbn [bind]. split; [reflexivity|]. split.
    + cbn [length]. now rewrite HL.
    + intros [|k]; [reflexivity|]. cbn [nth_error]. rewrite HN. reflexivity.
Qed.

Lemma mset_spec m z v : 0 <= z < Z.of_nat (length m) ->
  exists m', mset m z v = Ok m' /\ length m' = length m /\
             forall z', mc m' z' = if z' =? z then Some v else mc m z'.
Proof.
  intros H. unfold mset. destruct (Z.ltb_spec z 0) as [H0|H0]; [lia|].
  destruct (set_nth_spec m (Z.to_nat z) (Some v)) as (m' & E & HL & HN); [lia|].
  exists m'. split; [exact E|]. split; [exact HL|].
  intros z'. unfold mc. destruct (Z.ltb_spec z' 0) as [H1|H1].
  - destruct (Z.eqb_spec z' z); [lia|reflexivity].
  - rewrite HN. destruct (Z.eqb_spec z' z) as [->|Hne].
    + now rewrite Nat.eqb_refl.
    + destruct (Nat.eqb_spec (Z.to_nat z') (Z.to_nat z)) as [E2|E2]; [lia|reflexivity].
Qed.

Lemma mc_repeat_None n z : mc (repeat None n) z = None.
Proof.
  unfold mc. destruct (z <? 0); [reflexivity|].
  destruct (nth_error (repeat None n) (Z.to_nat z)) as [[x|]|] eqn:E; try reflexivity.
  apply nth_error_In in E. apply repeat_spec in E. discriminate.
Qed.

(* put_row writes [vals] at off, off+1, ... and leaves the other cells alone *)
Lemma put_row_spec : forall vals m off, 0 <= off -> off + Z.of_nat (length vals) <= Z.of_nat (length m) ->
  exists m', put_row m off vals = Ok m' /\ length m' = length m /\
    forall z, mc m' z = if (off <=? z) && (z <? off + Z.of_nat (length vals))
                        then Some (zn vals (Z.to_nat (z - off))) else mc m z.
Proof.
  induction vals as [|v vals IH]; intros m off H0 H1.
  - exists m. split; [reflexivity|]. split; [reflexivity|]. intros z. cbn [length].
    destruct (Z.leb_spec off z); destruct (Z.ltb_spec z (off + Z.of_nat 0)); try reflexivity; lia.
  - cbn [length] in H1. cbn [put_row].
    destruct (mset_spec m off v) as (m1 & E1 & L1 & C1); [lia|]. rewrite E1. cbn [bind].
    destruct (IH m1 (off + 1)) as (m2 & E2 & L2 & C2); [lia|rewrite L1; lia|].
    exists m2. split; [exact E2|]. split; [congruence|].
    intros z. rewrite C2, C1. cbn [length].
    destruct (Z.leb_spec (off + 1) z) as [A|A]; destruct (Z.ltb_spec z (off + 1 + Z.of_nat (length vals))) as [B|B];
      destruct (Z.leb_spec off z) as [A'|A']; destruct (Z.ltb_spec z (off + Z.of_nat (S (length vals)))) as [B'|B'];
      cbn [andb]; try lia; destruct (Z.eqb_spec z off) as [E|E]; try lia; try reflexivity.
    + unfold zn. replace (Z.to_nat (z - off)) with (S (Z.to_nat (z - (off + 1)))) by lia. reflexivity.
    + subst z. replace (off - off) with 0 by lia. reflexivity.
Qed.
