(* C10, second part: what is printed / searched / substituted for the selected fields.
   StripLastDelimiter removes exactly ONE trailing delimiter occurrence (then trailing white space);
   --accept-nth, the templates of --with-nth / --accept-nth, the texts --nth searches and the {N}
   placeholders are the documented selections with exactly that removed.  For ALL lines, delimiters,
   expression lists, templates. *)
From Fzf Require Import Prelude FieldSpec TokenModel TokenProofs.
Open Scope Z_scope.

(* the model's delimiter as the spec sees it *)
Definition dspec_of (d : delimiter) : dspec :=
  match d with DAwk => DSAwk | DStr sep => DSLiteral sep | DRegex rx => DSRegexp rx end.

(* what a template holder means *)
Definition part_expr (p : nth_part) : tpart :=
  match p with PStr s => TLit s | PIndex => TIndex | PNth nth => TFields (map range_expr nth) end.

(* ------------------------------------------------------------------------- *)
(* literal delimiter: exactly one trailing occurrence                          *)
(* ------------------------------------------------------------------------- *)

Lemma str_eqb_refl s : str_eqb s s = true.
Proof. now apply str_eqb_eq. Qed.

Lemma without_suffix_eq sep s :
  without_suffix sep s =
  if str_eqb s sep then Some []
  else match s with
       | [] => None
       | c :: t => match without_suffix sep t with Some p => Some (c :: p) | None => None end
       end.
Proof. destruct s; reflexivity. Qed.

Lemma without_suffix_sound sep : forall s p, without_suffix sep s = Some p -> s = p ++ sep.
Proof.
  induction s as [|c t IH]; intros p H; rewrite without_suffix_eq in H.
  - destruct (str_eqb [] sep) eqn:E; [|discriminate]. inversion H; subst. now apply str_eqb_eq in E.
  - destruct (str_eqb (c :: t) sep) eqn:E.
    + inversion H; subst. now apply str_eqb_eq in E.
    + destruct (without_suffix sep t) as [p'|] eqn:Hw; [|discriminate].
      inversion H; subst. cbn [app]. f_equal. now apply IH.
Qed.

Lemma without_suffix_complete sep : forall p, without_suffix sep (p ++ sep) = Some p.
Proof.
  induction p as [|a p IH]; rewrite without_suffix_eq; cbn [app].
  - now rewrite str_eqb_refl.
  - destruct (str_eqb (a :: p ++ sep) sep) eqn:E.
    + apply str_eqb_eq in E. apply (f_equal (@length Z)) in E. cbn [length] in E.
      rewrite app_length in E. lia.
    + now rewrite IH.
Qed.

Lemma strip_literal_one_proof sep p : strip_literal sep (p ++ sep) = p.
Proof. unfold strip_literal. now rewrite without_suffix_complete. Qed.

Lemma strip_literal_other_proof sep s : (forall p, s <> p ++ sep) -> strip_literal sep s = s.
Proof.
  intro H. unfold strip_literal. destruct (without_suffix sep s) as [p|] eqn:E; [|reflexivity].
  apply without_suffix_sound in E. exfalso. exact (H p E).
Qed.

Lemma is_prefix_iff : forall p s, is_prefix p s = true <-> exists x, s = p ++ x.
Proof.
  induction p as [|a p IH]; intros s.
  - cbn. split; [intros _; now exists s|reflexivity].
  - destruct s as [|b s]; cbn [is_prefix app].
    + split; [discriminate|]. intros [x Hx]. discriminate.
    + rewrite Bool.andb_true_iff, Z.eqb_eq, IH. split.
      * intros [-> [x ->]]. now exists x.
      * intros [x Hx]. inversion Hx; subst. split; [reflexivity|now exists x].
Qed.

Lemma has_suffix_iff sep s : has_suffix sep s = true <-> exists p, s = p ++ sep.
Proof.
  unfold has_suffix. rewrite is_prefix_iff. split; intros [x H].
  - exists (rev x). apply (f_equal (@rev Z)) in H.
    rewrite rev_involutive, rev_app_distr, rev_involutive in H. exact H.
  - exists (rev x). subst s. apply rev_app_distr.
Qed.

(* strings.TrimSuffix, as the model restates it, IS the documented stripping *)
Lemma trim_suffix_strip s sep : trim_suffix s sep = strip_literal sep s.
Proof.
  unfold trim_suffix. destruct (has_suffix sep s) eqn:E.
  - apply has_suffix_iff in E. destruct E as [p ->]. rewrite strip_literal_one_proof.
    rewrite app_length, Nat.add_sub. apply firstn_app_exact.
  - symmetry. apply strip_literal_other_proof. intros p Hp.
    assert (Ht : has_suffix sep s = true) by (apply has_suffix_iff; now exists p). congruence.
Qed.

(* ------------------------------------------------------------------------- *)
(* regexp delimiter: the last occurrence, when it ends the text                *)
(* ------------------------------------------------------------------------- *)

Lemma rev_cons_last {A} (l : list A) x r d : rev l = x :: r -> last l d = x /\ l <> [].
Proof.
  intro H. assert (Hl : l = rev r ++ [x]).
  { rewrite <- (rev_involutive l), H. reflexivity. }
  subst l. split; [apply last_last|]. destruct (rev r); discriminate.
Qed.

Lemma strip_regex_model s locs : locs_wf 0 (length s) locs ->
  match rev locs with
  | (b, e) :: _ => if Nat.eqb e (length s) then slice s 0 b else Ok s
  | [] => Ok s
  end = Ok (strip_occurrence locs s).
Proof.
  intro Hwf. unfold strip_occurrence. destruct (rev locs) as [|[b e] r] eqn:Hrev.
  - assert (Hl : locs = []).
    { rewrite <- (rev_involutive locs), Hrev. reflexivity. }
    now subst.
  - destruct (rev_cons_last locs (b, e) r (0, 0)%nat Hrev) as [Hlast Hne].
    assert (Hin : In (b, e) locs) by (apply in_rev; rewrite Hrev; now left).
    destruct locs as [|l0 locs']; [congruence|]. rewrite Hlast.
    destruct (Nat.eqb e (length s)); [|reflexivity].
    destruct (locs_wf_in _ _ _ _ _ Hwf Hin) as [Hbe Hel].
    rewrite slice_ok by lia. rewrite Nat.sub_0_r. reflexivity.
Qed.

(* ------------------------------------------------------------------------- *)
(* StripLastDelimiter                                                          *)
(* ------------------------------------------------------------------------- *)

Theorem strip_last_delimiter_documented_proof : forall s d,
  delim_wf d -> strip_last_delimiter s d = Ok (output_text (dspec_of d) s).
Proof.
  intros s d Hwf. unfold strip_last_delimiter, output_text. destruct d as [|sep|rx]; cbn [dspec_of strip_delim].
  - reflexivity.
  - rewrite trim_suffix_strip. reflexivity.
  - cbn in Hwf.
    match goal with |- bind ?m _ = _ =>
      assert (Hm : m = Ok (strip_occurrence (rx s) s)) by (apply strip_regex_model; apply Hwf);
      rewrite Hm end.
    reflexivity.
Qed.

(* ------------------------------------------------------------------------- *)
(* Transform + JoinTokens = the text of the expression list                    *)
(* ------------------------------------------------------------------------- *)

Lemma transform_texts toks nth ts : transform toks nth = Ok ts ->
  map t_text ts = map (fun r => select_text (range_expr r) (map t_text toks)) nth.
Proof.
  intro H. destruct (transform_total toks nth) as [ts' [H1 H2]].
  rewrite H1 in H. inversion H; subst ts'; clear H H1.
  induction H2 as [|r tk rs ts Hone _ IH]; [reflexivity|].
  cbn [map]. f_equal; [|exact IH].
  destruct (transform_selects_proof toks r) as [tk' [Ha [Hb _]]].
  rewrite Hone in Ha. inversion Ha; subst tk'. exact Hb.
Qed.

Lemma transform_join toks nth :
  exists ts, transform toks nth = Ok ts /\
             join_tokens ts = fields_text (map range_expr nth) (map t_text toks).
Proof.
  destruct (transform_total toks nth) as [ts [H1 _]]. exists ts. split; [exact H1|].
  unfold join_tokens, fields_text. rewrite (transform_texts _ _ _ H1), map_map. reflexivity.
Qed.

Lemma tokenize_fields line d toks : delim_wf d -> tokenize line d = Ok toks ->
  map t_text toks = spec_fields d line.
Proof. intros Hwf H. exact (proj1 (tokens_partition_proof line d toks Hwf H)). Qed.

(* ------------------------------------------------------------------------- *)
(* --accept-nth (plain list)                                                   *)
(* ------------------------------------------------------------------------- *)

Theorem accept_nth_documented_proof : forall line nth d,
  delim_wf d ->
  accept_nth line nth d =
    Ok (output_text (dspec_of d) (fields_text (map range_expr nth) (spec_fields d line))).
Proof.
  intros line nth d Hwf. unfold accept_nth, nth_transformer.
  destruct (tokenize_total_proof line d Hwf) as [toks Htok]. rewrite Htok. cbn [bind].
  destruct (transform_join toks nth) as [ts [Htr Hj]]. rewrite Htr. cbn [bind].
  rewrite Hj, (tokenize_fields line d toks Hwf Htok).
  now apply strip_last_delimiter_documented_proof.
Qed.

(* ------------------------------------------------------------------------- *)
(* --nth: the searched texts                                                   *)
(* ------------------------------------------------------------------------- *)

Lemma map_last_strip d (Hwf : delim_wf d) : forall ts,
  map_last (fun t => do s <- strip_last_delimiter (t_text t) d; Ok (mkTok s (t_prefix t))) ts =
  Ok (map_last_pure (fun t => mkTok (output_text (dspec_of d) (t_text t)) (t_prefix t)) ts).
Proof.
  induction ts as [|x ts IH]; [reflexivity|]. destruct ts as [|y r].
  - cbn [map_last map_last_pure]. rewrite (strip_last_delimiter_documented_proof _ _ Hwf). reflexivity.
  - change (map_last ?f (x :: y :: r)) with (do r' <- map_last f (y :: r); Ok (x :: r')).
    rewrite IH. reflexivity.
Qed.

Lemma map_last_pure_texts (g : str -> str) : forall ts,
  map t_text (map_last_pure (fun t => mkTok (g (t_text t)) (t_prefix t)) ts) =
  map_last_pure g (map t_text ts).
Proof.
  induction ts as [|x ts IH]; [reflexivity|]. destruct ts as [|y r]; [reflexivity|].
  change (map_last_pure ?f (x :: y :: r)) with (x :: map_last_pure f (y :: r)).
  cbn [map]. cbn [map] in IH. rewrite IH. reflexivity.
Qed.

Theorem nth_searched_texts_proof : forall line nth d toks,
  delim_wf d -> transform_input line nth d = Ok toks ->
  map t_text toks = search_texts (dspec_of d) (map range_expr nth) (spec_fields d line).
Proof.
  intros line nth d toks Hwf H. unfold transform_input in H.
  destruct (tokenize_total_proof line d Hwf) as [toks0 Htok]. rewrite Htok in H. cbn [bind] in H.
  destruct (transform_total toks0 nth) as [ts [Htr _]]. rewrite Htr in H. cbn [bind] in H.
  pose proof (transform_texts _ _ _ Htr) as Ht.
  rewrite (tokenize_fields line d toks0 Hwf Htok) in Ht.
  unfold search_texts. rewrite map_map.
  destruct d as [|sep|rx]; cbn [is_awk dspec_of] in *.
  - inversion H; subst. exact Ht.
  - rewrite (map_last_strip (DStr sep) Hwf) in H. inversion H; subst.
    rewrite map_last_pure_texts, Ht. reflexivity.
  - rewrite (map_last_strip (DRegex rx) Hwf) in H. inversion H; subst.
    rewrite map_last_pure_texts, Ht. reflexivity.
Qed.

(* no match is reported iff the matcher rejects every documented searched text: nothing selected is left
   unsearched (completeness), nothing else is searched (confinement) *)
Theorem nth_complete_proof : forall (pfun : match_fn) line nth d,
  delim_wf d -> nth <> [] ->
  (nth_match pfun line nth d = Ok None <->
   Forall (fun t => pfun t = None) (search_texts (dspec_of d) (map range_expr nth) (spec_fields d line))).
Proof.
  intros pfun line nth d Hwf Hne.
  destruct (transform_input_spec line nth d Hwf) as [toks [Hti _]].
  destruct (nth_confines_proof pfun line nth d toks Hwf Hne Hti) as [_ Hiff].
  rewrite Hiff, <- (nth_searched_texts_proof line nth d toks Hwf Hti), Forall_map. reflexivity.
Qed.

(* ------------------------------------------------------------------------- *)
(* templates                                                                   *)
(* ------------------------------------------------------------------------- *)

Lemma nth_template_spec d toks index : delim_wf d -> forall parts,
  nth_template parts d toks index =
    Ok (render_template (dspec_of d) (map t_text toks) index (map part_expr parts)).
Proof.
  intros Hwf. induction parts as [|p parts IH]; [reflexivity|].
  cbn [nth_template]. rewrite IH. unfold render_template. cbn [map concat].
  destruct p as [s| |nth]; cbn [part_expr render_part bind].
  - reflexivity.
  - destruct (Z.leb_spec 0 index), (Z.ltb_spec index 0); try lia; reflexivity.
  - destruct (transform_join toks nth) as [ts [Htr Hj]]. rewrite Htr. cbn [bind].
    rewrite Hj, (strip_last_delimiter_documented_proof _ _ Hwf). reflexivity.
Qed.

Theorem with_nth_template_documented_proof : forall parts line d index,
  delim_wf d ->
  with_nth_template parts line d index =
    Ok (render_template (dspec_of d) (spec_fields d line) index (map part_expr parts)).
Proof.
  intros parts line d index Hwf. unfold with_nth_template.
  destruct (tokenize_total_proof line d Hwf) as [toks Htok]. rewrite Htok. cbn [bind].
  rewrite (nth_template_spec d toks index Hwf), (tokenize_fields line d toks Hwf Htok). reflexivity.
Qed.

Theorem accept_nth_template_documented_proof : forall parts line d index,
  delim_wf d ->
  accept_nth_template parts line d index =
    Ok (output_text (dspec_of d)
          (render_template (dspec_of d) (spec_fields d line) index (map part_expr parts))).
Proof.
  intros parts line d index Hwf. unfold accept_nth_template.
  destruct (tokenize_total_proof line d Hwf) as [toks Htok]. rewrite Htok. cbn [bind].
  rewrite (nth_template_spec d toks index Hwf), (tokenize_fields line d toks Hwf Htok). cbn [bind].
  now apply strip_last_delimiter_documented_proof.
Qed.

(* ------------------------------------------------------------------------- *)
(* {N} placeholders                                                            *)
(* ------------------------------------------------------------------------- *)

Theorem placeholder_documented_proof : forall line ranges d preserve,
  delim_wf d ->
  placeholder_fields line ranges d preserve =
    Ok (placeholder_text (dspec_of d) preserve (map range_expr ranges) (spec_fields d line)).
Proof.
  intros line ranges d preserve Hwf. unfold placeholder_fields, placeholder_text.
  destruct (tokenize_total_proof line d Hwf) as [toks Htok]. rewrite Htok. cbn [bind].
  destruct (transform_join toks ranges) as [ts [Htr Hj]]. rewrite Htr. cbn [bind].
  rewrite Hj, (tokenize_fields line d toks Hwf Htok).
  destruct d as [|sep|rx]; cbn [dspec_of strip_delim bind].
  - reflexivity.
  - rewrite trim_suffix_strip. reflexivity.
  - cbn in Hwf.
    match goal with |- bind ?m _ = _ =>
      assert (Hm : m = Ok (strip_occurrence (rx (fields_text (map range_expr ranges) (spec_fields (DRegex rx) line)))
                                            (fields_text (map range_expr ranges) (spec_fields (DRegex rx) line))))
        by (apply strip_regex_model; apply Hwf);
      rewrite Hm end.
    reflexivity.
Qed.
