(* C13's two assumptions about the matching function, discharged for fzf's own Pattern (C01's model of
   pattern.go + model/PatternKeyModel.v: cacheable, CacheKey):

     monotone        a cacheable pattern whose cache key is a proper prefix/suffix of the key of another pattern
                     matches every item the other one matches            (what ChunkCache.Search relies on)
     key_determines  two cacheable patterns with the same cache key match alike   (what ChunkCache.Lookup relies on)

   for ALL queries (a literal TAB included), all items, every option combination the pattern model covers
   (--exact, --algo, case mode, --literal, whole-line matching), under the extended-search mode.  Under
   --no-extended `key_determines` holds as well, `monotone` holds exactly when one more law about the
   normalisation table holds - and that law is FALSE of Go's table at U+0130: monotone_basic_refuted. *)
From Fzf Require Import Prelude AlgoSpec AlgoModel QuerySpec PatternModel PatternKeyModel PatternProofs PatternTokens.
From Fzf Require Import AlgoBasics OccursBasics PatternMonoBasics.
From Fzf Require Import SearchSpec ChunkStoreModel CacheModel MatcherModel CacheProofs MatcherProofs.
Open Scope Z_scope.

(* ====================================================================================== *)
(* Part 1: what a term owes to its token                                                     *)
(* ====================================================================================== *)

Lemma In_tl {A} (x : A) l : In x (tl l) -> In x l.
Proof. destruct l; cbn; auto. Qed.
Lemma In_removelast {A} (x : A) l : In x (removelast l) -> In x l.
Proof.
  induction l as [|a l IH]; cbn; [auto|]. destruct l as [|b l]; [intros []|].
  intros [H|H]; [now left|right; now apply IH].
Qed.

(* what ChunkCache.Search tries: a proper, non-empty prefix or suffix - an infix in particular *)
Lemma affix_infix (k' k : str) : affix k' k -> infix k' k.
Proof.
  intros [j [_ [_ [->| ->]]]].
  - exists [], (skipn (length k - j) k). cbn. now rewrite firstn_skipn.
  - exists (firstn j k), []. now rewrite app_nil_r, firstn_skipn.
Qed.

Definition plain_kind (o : qopts) : kind := if q_fuzzy o then KFuzzy else KExact.

Section Classify.
Variable co : char_ops.

Lemma fold_text (cs nm : bool) (tok : str) :
  (if nm then norm_str co (if cs then tok else lower_str co tok) else (if cs then tok else lower_str co tok))
  = map (fold co cs nm) tok.
Proof.
  unfold norm_str, lower_str, fold. destruct cs, nm; cbv zeta; rewrite ?map_map; try reflexivity.
  - now rewrite map_id.
Qed.

(* every character of a term's text is the folding of a character of its token *)
Lemma classify_chars o tok t : classify co o tok = Some t ->
  forall c, In c (t_text t) -> exists T, In T tok /\ c = fold co (t_cs t) (t_nm t) T.
Proof.
  unfold classify.
  set (cs := case_of co (q_case o) tok). set (nm := norm_of co (q_normalize o) tok).
  set (t0 := if cs then tok else lower_str co tok).
  match goal with |- context [let '(k, t3) := ?X in _] => destruct X as [k t3] eqn:EX end.
  assert (Hsub : forall c, In c t3 -> In c t0).
  { intros c Hc.
    repeat match type of EX with
           | (if ?b then _ else _) = _ => destruct b
           end; injection EX as _ <-;
    repeat (first [apply In_removelast in Hc | apply In_tl in Hc
                  | match type of Hc with In _ (if ?b then _ else _) => destruct b end]); exact Hc. }
  destruct t3 as [|x t3]; [discriminate|]. remember (x :: t3) as t3' eqn:E3. clear E3.
  intro H. injection H as <-. cbn [t_text t_cs t_nm].
  intros c Hc.
  assert (Hin : In c (map (fold co cs nm) tok)).
  { rewrite <- fold_text. fold t0. destruct nm; [|now apply Hsub].
    unfold norm_str in *. apply in_map_iff in Hc as [d [<- Hd]]. apply in_map. now apply Hsub. }
  apply in_map_iff in Hin as [T [<- HT]]. eauto.
Qed.

(* the term of a token without operators (what BuildPattern leaves cacheable) is the whole token, folded *)
Lemma classify_plain o tok t : classify co o tok = Some t -> t_inv t = false -> t_kind t = plain_kind o ->
  t_text t = map (fold co (t_cs t) (t_nm t)) tok.
Proof.
  unfold classify, plain_kind.
  set (cs := case_of co (q_case o) tok). set (nm := norm_of co (q_normalize o) tok).
  set (t0 := if cs then tok else lower_str co tok).
  match goal with |- context [let '(k, t3) := ?X in _] => destruct X as [k t3] eqn:EX end.
  destruct t3 as [|x t3]; [discriminate|]. remember (x :: t3) as t3' eqn:E3. clear E3.
  intro H. injection H as <-. cbn [t_text t_cs t_nm t_inv t_kind].
  intros Hinv Hk. rewrite Hinv in EX. cbn [negb andb orb] in EX.
  rewrite <- fold_text. fold t0.
  replace t3' with t0; [reflexivity|].
  repeat match type of EX with
         | (if ?b then _ else _) = _ => destruct b eqn:?
         end; injection EX as Ek E3; subst k;
  repeat match type of Hk with
         | context [if ?b then _ else _] => destruct b eqn:?
         end; try discriminate; exact E3.
Qed.

End Classify.

(* ====================================================================================== *)
(* Part 2: what `cacheable` means (BuildPattern's loop)                                      *)
(* ====================================================================================== *)

Fixpoint set_ok_from (fz : bool) (idx : nat) (ts : termSet) : bool :=
  match ts with
  | [] => true
  | t :: r => negb (term_bad fz idx t) && set_ok_from fz (S idx) r
  end.

Lemma flags_set_true fz : forall ts idx c s s' brk,
  flags_set fz ts idx c s = (true, s', brk) -> c = true /\ brk = false /\ set_ok_from fz idx ts = true.
Proof.
  induction ts as [|t r IH]; intros idx c s s' brk H; cbn [flags_set set_ok_from] in *.
  - injection H as -> _ <-. auto.
  - destruct (negb c || term_bad fz idx t) eqn:E.
    + destruct (if tm_inv t then s else true); [discriminate|].
      apply IH in H as [H _]. discriminate.
    + apply orb_false_iff in E as [E1 E2]. apply negb_false_iff in E1. subst c.
      apply IH in H as [_ [-> H]]. rewrite E2, H. auto.
Qed.

Lemma flags_loop_true fz : forall sets c s, fst (flags_loop fz sets c s) = true ->
  c = true /\ Forall (fun ts => set_ok_from fz 0 ts = true) sets.
Proof.
  induction sets as [|ts r IH]; intros c s H; cbn [flags_loop] in H.
  - cbn in H. auto.
  - destruct (flags_set fz ts 0 c s) as [[c' s'] brk] eqn:E. destruct brk.
    + cbn in H. subst c'. apply flags_set_true in E as [_ [E _]]. discriminate.
    + apply IH in H as [-> H]. apply flags_set_true in E as [-> [_ E]]. auto.
Qed.

(* conversely: the loop keeps `cacheable` when every set is a single plain positive term *)
Lemma flags_set_ok fz : forall ts idx s, set_ok_from fz idx ts = true ->
  exists s', flags_set fz ts idx true s = (true, s', false).
Proof.
  induction ts as [|t r IH]; intros idx s H; cbn [flags_set set_ok_from] in *; [eauto|].
  apply andb_true_iff in H as [H1 H2]. apply negb_true_iff in H1. rewrite H1. cbn [negb orb]. now apply IH.
Qed.
Lemma flags_loop_ok fz : forall sets s, Forall (fun ts => set_ok_from fz 0 ts = true) sets ->
  fst (flags_loop fz sets true s) = true.
Proof.
  induction sets as [|ts r IH]; intros s H; [reflexivity|]. inversion H; subst. cbn [flags_loop].
  destruct (flags_set_ok fz ts 0 s) as [s' ->]; auto.
Qed.

Lemma term_bad_S fz i t : term_bad fz (S i) t = true.
Proof. reflexivity. Qed.

Lemma set_ok_shape fz ts : set_ok_from fz 0 ts = true ->
  ts = [] \/ exists t, ts = [t] /\ term_bad fz 0 t = false.
Proof.
  destruct ts as [|t [|t2 r]]; cbn [set_ok_from]; intro H; [now left| |].
  - right. exists t. split; [reflexivity|]. apply andb_true_iff in H as [H _]. now apply negb_true_iff in H.
  - apply andb_true_iff in H as [_ H]. rewrite term_bad_S in H. discriminate.
Qed.

Lemma term_bad_of o (t : sterm) : term_bad (q_fuzzy o) 0 (term_of t) = false ->
  t_inv t = false /\ t_kind t = plain_kind o.
Proof.
  unfold term_bad, plain_kind. cbn [Nat.eqb negb orb term_of tm_inv tm_typ].
  destruct (t_inv t); [discriminate|]. cbn [orb]. split; [reflexivity|].
  destruct (q_fuzzy o), (t_kind t); cbn in H; try discriminate; reflexivity.
Qed.

(* groups are never empty *)
Lemma groups_aux_nonempty co o : forall toks cur join bar g,
  In g (groups_aux co o toks cur join bar) -> g <> [].
Proof.
  induction toks as [|t0 r IH]; intros cur join bar g Hg; cbn [groups_aux] in Hg.
  - destruct cur; cbn in Hg; [destruct Hg|]. destruct Hg as [<-|[]]. discriminate.
  - destruct (nonemptyb cur && negb bar && is_bar co o t0); [eapply IH; eauto|].
    destruct (classify co o t0) as [tm|]; [|eapply IH; eauto].
    destruct join; [eapply IH; eauto|].
    destruct cur; cbn [emit] in Hg; [eapply IH; eauto|].
    destruct Hg as [<-|Hg]; [discriminate|eapply IH; eauto].
Qed.

(* ====================================================================================== *)
(* Part 3: fzf's Pattern as an environment of the matcher model                              *)
(* ====================================================================================== *)

(* an item: its index and its text, a string of runes (non-negative) *)
Record fzitem := mkItem { it_idx : Z; it_text : str; it_ok : forallb (fun c => 0 <=? c) it_text = true }.
(* a pattern: the query it was built from and the cache generation it was built under; the search options
   are those of the session (they "do not change while the program is running", pattern.go) *)
Record fzpat := mkFzPat { fq : str; fgen : nat }.

Section Env.
Variable co : char_ops.
Variable sc : scheme.
Variable o : popts.          (* --exact, --algo, +x, case mode, --literal, --tiebreak end ... of the session *)
Variable cin : bool.         (* BuildPattern's `cacheable` argument: opts.Filter == nil *)
Variables (tac : bool) (parts : nat).

Definition fz_built (p : fzpat) : res pattern := build_pattern co o (fq p).
Definition fz_prop {A} (f : pattern -> A) (d : A) (p : fzpat) : A :=
  match fz_built p with Ok pt => f pt | Err _ => d end.
(* Pattern.MatchItem on the whole line: Some score when it matches *)
Definition fz_match (p : fzpat) (x : fzitem) : option Z :=
  match fz_built p with
  | Ok pt => match match_item co sc pt (it_text x) false with
             | Ok (Some (_, score, _)) => Some score
             | _ => None
             end
  | Err _ => None
  end.

Definition fz_env : penv fzitem fzpat :=
  mkEnv it_idx fz_match (fz_prop pat_text []) (fz_prop pat_cache_key []) fgen
        (fz_prop (pat_cacheable cin) false) (fz_prop (pat_sortable cin) true) (fz_prop pat_is_empty true)
        rules_fixed tac parts.

Definition gs_of (q : str) : list (list sterm) := groups co (qopts_of o) (mtokens (QuerySpec.trim q)).

Lemma item_line_ok x : line_ok (it_text x).
Proof. apply line_ok_b. apply it_ok. Qed.

Lemma fz_built_ext p : p_extended o = true ->
  fz_built p = Ok (mkPat o true (p_normalize o) (QuerySpec.trim (fq p)) (map (map term_of) (gs_of (fq p)))).
Proof. intro He. unfold fz_built. now rewrite build_pattern_ext_all. Qed.

Lemma fz_built_basic p : p_extended o = false ->
  fz_built p = Ok (mkPat o (case_of co (p_case o) (fq p)) (norm_of co (p_normalize o) (fq p))
                         (if case_of co (p_case o) (fq p) then fq p else lower_str co (fq p)) []).
Proof. intro He. unfold fz_built. now rewrite build_pattern_basic. Qed.

Lemma fz_match_ext p x : matchers_decide co sc -> p_extended o = true ->
  (fz_match p x <> None <-> sat_groups co sc (gs_of (fq p)) (it_text x) = true).
Proof.
  intros [H1 H2 H3 H4 H5 H6 H7 H8] He. unfold fz_match. rewrite fz_built_ext by assumption.
  destruct (match_item_ext co sc H1 H2 H3 H4 H5 H6 H7 o true (p_normalize o) (QuerySpec.trim (fq p)) (gs_of (fq p))
              (it_text x) false He (item_line_ok x)) as [m [Hm Hs]].
  { apply groups_wf. exact H8. }
  rewrite Hm. rewrite <- Hs. destruct m as [[[offs score] pos]|]; cbn; split; congruence.
Qed.

Lemma fz_match_basic p x : matchers_decide co sc -> p_extended o = false ->
  (fz_match p x <> None <->
   (if p_fuzzy o
    then subseq_b co (case_of co (p_case o) (fq p)) (norm_of co (p_normalize o) (fq p)) (it_text x)
                  (if case_of co (p_case o) (fq p) then fq p else lower_str co (fq p))
    else substr_b co (case_of co (p_case o) (fq p)) (norm_of co (p_normalize o) (fq p)) (it_text x)
                  (if case_of co (p_case o) (fq p) then fq p else lower_str co (fq p))) = true).
Proof.
  intros [H1 H2 H3 H4 H5 H6 H7 H8] He. unfold fz_match. rewrite fz_built_basic by assumption.
  destruct (match_item_basic co sc H1 H2 H3 o (case_of co (p_case o) (fq p)) (norm_of co (p_normalize o) (fq p))
              (if case_of co (p_case o) (fq p) then fq p else lower_str co (fq p))
              (it_text x) false He (item_line_ok x)) as [m [Hm Hs]].
  rewrite Hm. destruct (p_fuzzy o); destruct m as [[[offs score] pos]|]; cbn [is_some] in Hs;
    (split; [intro H; first [symmetry; exact Hs | now elim H]
            |intro H; first [discriminate | pose proof (eq_trans Hs H); discriminate]]).
Qed.

(* ---------------- extended mode ---------------- *)
Section Extended.
Hypothesis HL : fold_laws co.
Hypothesis He : p_extended o = true.

Lemma fold_tab cs nm T : fold co cs nm T = 9 -> T = 9.
Proof.
  unfold fold. cbv zeta. destruct cs, nm; intro H.
  - now apply (fl_norm_tab co HL).
  - exact H.
  - apply (fl_low_tab co HL). now apply (fl_norm_tab co HL).
  - now apply (fl_low_tab co HL).
Qed.

(* a term of a query that BuildPattern leaves cacheable *)
Definition good_term (q : str) (t : sterm) : Prop :=
  t_inv t = false /\ t_kind t = plain_kind (qopts_of o) /\
  exists tok, In tok (mtokens (QuerySpec.trim q)) /\ classify co (qopts_of o) tok = Some t.

Lemma good_term_text q t : good_term q t ->
  t_text t <> [] /\ no_tab (t_text t) /\
  exists tok, flags_of co (p_case o) (p_normalize o) tok (t_cs t) (t_nm t) /\
              t_text t = map (fold co (t_cs t) (t_nm t)) tok.
Proof.
  intros [Hi [Hk [tok [Htok Hcl]]]].
  destruct (classify_props co _ _ _ Hcl) as [Hne [Hcs [Hnm _]]].
  pose proof (classify_plain co _ _ _ Hcl Hi Hk) as Ht.
  split; [exact Hne|]. split.
  - rewrite Ht. destruct (mtokens_no_tab _ _ Htok) as [Hnt _].
    unfold no_tab in *. rewrite Forall_forall in *. intros c Hc. apply in_map_iff in Hc as [T [<- HT]].
    intro E. apply fold_tab in E. exact (Hnt T HT E).
  - exists tok. split; [split; [exact Hcs|exact Hnm]|exact Ht].
Qed.

Lemma map_term_of_single g tt : map term_of g = [tt] -> exists t, g = [t] /\ tt = term_of t.
Proof. destruct g as [|t [|t2 g]]; cbn; intro H; try discriminate. injection H as <-. eauto. Qed.

(* cacheable: every group is one good term *)
Lemma cacheable_shape p : fz_prop (pat_cacheable cin) false p = true ->
  cin = true /\ forall g, In g (gs_of (fq p)) -> exists t, g = [t] /\ good_term (fq p) t.
Proof.
  unfold fz_prop. rewrite fz_built_ext by assumption. unfold pat_cacheable. cbn [pat_opts pat_sets]. rewrite He.
  intro H. apply flags_loop_true in H as [Hc H]. split; [exact Hc|]. intros g Hg.
  rewrite Forall_forall in H. specialize (H (map term_of g) (in_map _ _ _ Hg)).
  apply set_ok_shape in H as [H|[tt [H Hb]]].
  - exfalso. destruct g; [|discriminate]. exact (groups_aux_nonempty _ _ _ _ _ _ _ Hg eq_refl).
  - apply map_term_of_single in H as [t [-> ->]]. exists t. split; [reflexivity|].
    change (p_fuzzy o) with (q_fuzzy (qopts_of o)) in Hb. apply term_bad_of in Hb as [Hi Hk].
    split; [exact Hi|]. split; [exact Hk|].
    destruct (term_of_its_token_proof co _ _ _ t Hg (or_introl eq_refl)) as [tok [H1 [H2 _]]]. eauto.
Qed.

Lemma key_term_good q t : good_term q t -> key_term (p_fuzzy o) (map term_of [t]) = [t_text t].
Proof.
  intros [Hi [Hk _]]. cbn [map key_term term_of tm_inv tm_typ tm_text]. rewrite Hi. cbn [negb andb].
  unfold plain_kind in Hk. cbn [qopts_of q_fuzzy] in Hk. destruct (p_fuzzy o); [reflexivity|]. rewrite Hk. reflexivity.
Qed.

(* what a piece of the cache key of ANY pattern is *)
Lemma key_terms_in q b : In b (key_terms (p_fuzzy o) (map (map term_of) (gs_of q))) ->
  exists t, In [t] (gs_of q) /\ t_inv t = false /\ (p_fuzzy o = true \/ t_kind t = KExact) /\ b = t_text t.
Proof.
  unfold key_terms. intro H. apply in_flat_map in H as [ts [Hts Hb]].
  apply in_map_iff in Hts as [g [<- Hg]].
  destruct g as [|t [|t2 g]]; cbn [map key_term] in Hb; try destruct Hb.
  cbn [term_of tm_inv tm_typ tm_text] in Hb.
  destruct (t_inv t) eqn:Ei; cbn [negb andb] in Hb; [destruct Hb|].
  destruct (p_fuzzy o || ttype_eqb (ttype_of (t_kind t)) termExact) eqn:Ec; [|destruct Hb].
  destruct Hb as [<-|[]]. exists t. split; [exact Hg|]. split; [exact Ei|]. split; [|reflexivity].
  destruct (p_fuzzy o); [now left|right]. cbn in Ec. destruct (t_kind t); try discriminate; reflexivity.
Qed.

Lemma In_join a A : In a A -> exists U V, join_tab A = U ++ a ++ V.
Proof.
  induction A as [|b A IH]; [intros []|intros [->|H]].
  - rewrite join_tab_cons. exists [], (match A with [] => [] | _ => 9 :: join_tab A end). reflexivity.
  - destruct (IH H) as [U [V E]]. rewrite join_tab_cons. destruct A as [|b2 A]; [destruct H|].
    rewrite E. exists (b ++ 9 :: U), V. now rewrite <- app_assoc.
Qed.

(* the term-level core: a good term whose text is an infix of the text of a key term of another query is
   satisfied wherever that one is *)
Lemma term_mono q t tok' t' line :
  good_term q t -> classify co (qopts_of o) tok' = Some t' ->
  (p_fuzzy o = true \/ t_kind t' = KExact) -> infix (t_text t) (t_text t') ->
  sat_term co sc t' line = true -> sat_term co sc t line = true.
Proof.
  intros Hg Hcl' Hk' Hinf Hsat.
  destruct (good_term_text q t Hg) as [_ [_ [tok [Hfl Ht]]]].
  destruct Hg as [_ [Hk _]].
  destruct (classify_props co _ _ _ Hcl') as [_ [Hcs' [Hnm' _]]].
  assert (Hfl' : flags_of co (p_case o) (p_normalize o) tok' (t_cs t') (t_nm t')) by (split; assumption).
  assert (Hsub : sub_chars co (t_cs t) (t_nm t) (t_cs t') (t_nm t') tok tok').
  { intros T HT. apply (classify_chars co _ _ _ Hcl'). eapply infix_In; [exact Hinf|]. rewrite Ht. now apply in_map. }
  assert (Hcoh : coh co (t_cs t) (t_nm t) (t_cs t') (t_nm t') (t_text t)).
  { intros p y Hp Hy. rewrite Ht in Hp. apply in_map_iff in Hp as [T [<- HT]].
    eapply fold_coherent_ext; eauto. }
  unfold sat_term at 1. rewrite Hk. unfold plain_kind. cbn [qopts_of q_fuzzy].
  destruct (p_fuzzy o) eqn:Ef.
  - eapply subseq_infix; [exact Hinf|exact Hcoh|]. eapply sat_term_subseq; eauto.
  - destruct Hk' as [Hk'|Hk']; [discriminate|]. unfold sat_term in Hsat. rewrite Hk' in Hsat.
    eapply substr_infix; eauto.
Qed.

Lemma sat_single t line : sat_groups co sc [[t]] line = true -> t_inv t = false -> sat_term co sc t line = true.
Proof.
  unfold sat_groups. cbn [forallb existsb]. intros H Hi. rewrite Hi in H.
  destruct (sat_term co sc t line); [reflexivity|discriminate H].
Qed.

Theorem monotone_ext : matchers_decide co sc -> monotone fz_env.
Proof.
  intros MD p' p x [_ [Hc Haff]] Hm. cbn [fz_env e_matchf e_cacheable e_ckey] in *.
  apply (fz_match_ext _ _ MD He). apply (fz_match_ext _ _ MD He) in Hm.
  apply cacheable_shape in Hc as [_ Hshape].
  unfold sat_groups. apply forallb_forall. intros g Hg.
  destruct (Hshape g Hg) as [t [-> Hgood']]. cbn [existsb]. rewrite orb_false_r.
  destruct Hgood' as [Hi Hrest]. rewrite Hi.
  assert (Hgood' : good_term (fq p) t) by (split; assumption).
  enough (Hsat : sat_term co sc t (it_text x) = true) by (now rewrite Hsat).
  (* the text of t is a piece of p's key ... *)
  apply affix_infix in Haff as [u [v Hkey]].
  unfold fz_prop in Hkey. rewrite !fz_built_ext in Hkey by assumption.
  unfold pat_cache_key in Hkey. cbn [pat_opts pat_sets] in Hkey. rewrite He in Hkey.
  assert (Hin : In (t_text t) (key_terms (p_fuzzy o) (map (map term_of) (gs_of (fq p))))).
  { unfold key_terms. apply in_flat_map. exists (map term_of [t]). split; [now apply in_map|].
    rewrite (key_term_good _ _ Hgood'). now left. }
  destruct (In_join _ _ Hin) as [U1 [V1 E1]]. rewrite E1 in Hkey.
  (* ... hence an infix of p''s key, hence of one of its pieces *)
  destruct (good_term_text _ _ Hgood') as [Hne [Hnt _]].
  assert (Hkey' : join_tab (key_terms (p_fuzzy o) (map (map term_of) (gs_of (fq p'))))
                  = (u ++ U1) ++ t_text t ++ (V1 ++ v)).
  { rewrite Hkey. now rewrite <- !app_assoc. }
  destruct (join_infix _ _ _ _ Hne Hnt Hkey') as [b [Hb Hinf]].
  apply key_terms_in in Hb as [t' [Hg' [Hi' [Hk' ->]]]].
  destruct (term_of_its_token_proof co _ _ _ t' Hg' (or_introl eq_refl)) as [tok' [_ [Hcl' _]]].
  eapply term_mono; eauto.
  apply sat_single; [|exact Hi'].
  unfold sat_groups in *. rewrite forallb_forall in Hm. cbn [forallb]. rewrite (Hm _ Hg'). reflexivity.
Qed.

(* two good terms with the same text are the same term *)
Lemma good_term_eq q1 q2 t1 t2 : good_term q1 t1 -> good_term q2 t2 -> t_text t1 = t_text t2 -> t1 = t2.
Proof.
  intros G1 G2 E.
  destruct (good_term_text _ _ G1) as [_ [_ [tok1 [F1 T1]]]].
  destruct (good_term_text _ _ G2) as [_ [_ [tok2 [F2 T2]]]].
  destruct G1 as [I1 [K1 _]]. destruct G2 as [I2 [K2 _]].
  destruct (ext_flags_eq co HL _ _ _ _ _ _ _ _ F1 F2) as [Ec En]; [congruence|].
  destruct t1, t2; cbn in *; congruence.
Qed.

Lemma key_terms_cons_good q t gs : good_term q t ->
  key_terms (p_fuzzy o) (map (map term_of) ([t] :: gs)) = t_text t :: key_terms (p_fuzzy o) (map (map term_of) gs).
Proof.
  intro G. change (key_terms (p_fuzzy o) (map (map term_of) ([t] :: gs)))
    with (key_term (p_fuzzy o) (map term_of [t]) ++ key_terms (p_fuzzy o) (map (map term_of) gs)).
  now rewrite (key_term_good _ _ G).
Qed.

Lemma good_groups_eq q1 q2 : forall gs1 gs2,
  (forall g, In g gs1 -> exists t, g = [t] /\ good_term q1 t) ->
  (forall g, In g gs2 -> exists t, g = [t] /\ good_term q2 t) ->
  key_terms (p_fuzzy o) (map (map term_of) gs1) = key_terms (p_fuzzy o) (map (map term_of) gs2) -> gs1 = gs2.
Proof.
  induction gs1 as [|g1 gs1 IH]; intros [|g2 gs2] H1 H2 E.
  - reflexivity.
  - exfalso. destruct (H2 g2 (or_introl eq_refl)) as [t [-> G]]. rewrite (key_terms_cons_good _ _ _ G) in E. discriminate.
  - exfalso. destruct (H1 g1 (or_introl eq_refl)) as [t [-> G]]. rewrite (key_terms_cons_good _ _ _ G) in E. discriminate.
  - destruct (H1 g1 (or_introl eq_refl)) as [t1 [-> G1]]. destruct (H2 g2 (or_introl eq_refl)) as [t2 [-> G2]].
    rewrite (key_terms_cons_good _ _ _ G1), (key_terms_cons_good _ _ _ G2) in E.
    injection E as E1 E2.
    rewrite (good_term_eq _ _ _ _ G1 G2 E1). f_equal.
    apply IH; [intros g Hg; apply H1; now right|intros g Hg; apply H2; now right|exact E2].
Qed.

Lemma good_key_pieces q gs : (forall g, In g gs -> exists t, g = [t] /\ good_term q t) ->
  Forall (fun a => a <> [] /\ no_tab a) (key_terms (p_fuzzy o) (map (map term_of) gs)).
Proof.
  induction gs as [|g gs IH]; intro H; [constructor|].
  destruct (H g (or_introl eq_refl)) as [t [-> G]]. rewrite (key_terms_cons_good _ _ _ G).
  constructor.
  - destruct (good_term_text _ _ G) as [H1 [H2 _]]. auto.
  - apply IH. intros g' Hg'. apply H. now right.
Qed.

Theorem key_determines_ext : key_determines fz_env.
Proof.
  intros p1 p2 x _ Hc1 Hc2 Hk. cbn [fz_env e_matchf e_cacheable e_ckey] in *.
  apply cacheable_shape in Hc1 as [_ S1]. apply cacheable_shape in Hc2 as [_ S2].
  unfold fz_prop in Hk. rewrite !fz_built_ext in Hk by assumption.
  unfold pat_cache_key in Hk. cbn [pat_opts pat_sets] in Hk. rewrite He in Hk.
  apply join_tab_inj in Hk; [|eapply good_key_pieces; eauto|eapply good_key_pieces; eauto].
  apply (good_groups_eq _ _ _ _ S1 S2) in Hk.
  unfold fz_match. rewrite !fz_built_ext by assumption. rewrite Hk.
  unfold match_item. cbn [pat_opts pat_sets]. rewrite He. reflexivity.
Qed.

End Extended.

(* ---------------- --no-extended: the whole query is one term, never normalised ---------------- *)
Section Basic.
Hypothesis HL : fold_laws co.
Hypothesis He : p_extended o = false.

Lemma basic_text_fold (cs : bool) (q : str) : (if cs then q else lower_str co q) = map (fold co cs false) q.
Proof. exact (fold_text co cs false q). Qed.

Theorem monotone_basic : basic_law co -> matchers_decide co sc -> monotone fz_env.
Proof.
  intros HB MD p' p x [_ [_ Haff]] Hm. cbn [fz_env e_matchf e_cacheable e_ckey] in *.
  apply (fz_match_basic _ _ MD He). apply (fz_match_basic _ _ MD He) in Hm.
  apply affix_infix in Haff.
  unfold fz_prop in Haff. rewrite !fz_built_basic in Haff by assumption. unfold pat_cache_key in Haff.
  cbn [pat_opts pat_text] in Haff. rewrite He in Haff.
  set (cs := case_of co (p_case o) (fq p)) in *. set (nm := norm_of co (p_normalize o) (fq p)) in *.
  set (cs' := case_of co (p_case o) (fq p')) in *. set (nm' := norm_of co (p_normalize o) (fq p')) in *.
  assert (F : flags_of co (p_case o) (p_normalize o) (fq p) cs nm) by (split; reflexivity).
  assert (F' : flags_of co (p_case o) (p_normalize o) (fq p') cs' nm') by (split; reflexivity).
  clearbody cs nm cs' nm'.
  rewrite !basic_text_fold in *.
  assert (Hsub : sub_chars co cs false cs' false (fq p) (fq p')).
  { intros T HT. apply (in_map (fold co cs false)) in HT. apply (infix_In _ _ _ Haff) in HT.
    apply in_map_iff in HT as [T' [H1 H2]]. eauto. }
  assert (Hcoh : coh co cs nm cs' nm' (map (fold co cs false) (fq p))).
  { intros c y Hc Hy. apply in_map_iff in Hc as [T [<- HT]]. eapply fold_coherent_basic; eauto. }
  destruct (p_fuzzy o).
  - eapply subseq_infix; eauto.
  - eapply substr_infix; eauto.
Qed.

Theorem key_determines_basic : key_determines fz_env.
Proof.
  intros p1 p2 x _ _ _ Hk. cbn [fz_env e_matchf e_cacheable e_ckey] in *.
  unfold fz_prop in Hk. rewrite !fz_built_basic in Hk by assumption. unfold pat_cache_key in Hk.
  cbn [pat_opts pat_text] in Hk. rewrite He in Hk.
  destruct (basic_flags_eq co (p_case o) (p_normalize o) _ _ Hk) as [Ec En].
  unfold fz_match. rewrite !fz_built_basic by assumption. rewrite Hk, Ec, En. reflexivity.
Qed.

End Basic.

(* ---------------- both modes ---------------- *)
Theorem monotone_fzf : fold_laws co -> matchers_decide co sc -> (p_extended o = true \/ basic_law co) ->
  monotone fz_env.
Proof.
  intros HL MD H. destruct (p_extended o) eqn:He.
  - now apply monotone_ext.
  - destruct H as [H|H]; [discriminate|]. now apply monotone_basic.
Qed.

Theorem key_determines_fzf : fold_laws co -> key_determines fz_env.
Proof.
  intros HL. destruct (p_extended o) eqn:He.
  - now apply key_determines_ext.
  - now apply key_determines_basic.
Qed.

(* `cacheable` of the model is exactly "BuildPattern's argument, and every group is one positive term of the
   session's plain kind" - the theorems above assume nothing narrower *)
Theorem cacheable_exact p : p_extended o = true ->
  (fz_prop (pat_cacheable cin) false p = true <->
   cin = true /\ forall g, In g (gs_of (fq p)) ->
                 exists t, g = [t] /\ t_inv t = false /\ t_kind t = plain_kind (qopts_of o)).
Proof.
  intro He. split.
  - intro H. apply cacheable_shape in H as [Hc H]; [|assumption]. split; [exact Hc|].
    intros g Hg. destruct (H g Hg) as [t [-> [Hi [Hk _]]]]. eauto.
  - intros [-> H]. unfold fz_prop. rewrite fz_built_ext by assumption. unfold pat_cacheable.
    cbn [pat_opts pat_sets]. rewrite He. apply flags_loop_ok. apply Forall_forall. intros ts Hts.
    apply in_map_iff in Hts as [g [<- Hg]]. destruct (H g Hg) as [t [-> [Hi Hk]]].
    cbn [map set_ok_from]. rewrite andb_true_r. apply negb_true_iff.
    unfold term_bad. cbn [Nat.eqb negb orb term_of tm_inv tm_typ]. rewrite Hi, Hk. unfold plain_kind.
    cbn [qopts_of q_fuzzy]. destruct (p_fuzzy o); reflexivity.
Qed.

End Env.
