(* C03: the score computed by FuzzyMatchV2's matrix fill equals the documented dynamic programme
   evaluated naively over the whole line ([naive_dp], spec/AlgoSpec.v).

   The matrix fill is taken in its pure list form [win_matrix] / [win_result] (proofs/V2DpWin.v),
   which restates p3_row / p3_rows cell by cell; the phase-2 arrays are described by [p2_ok]
   (proofs/V2Facts.v).  The window [w] sits anywhere in the line: text = pre ++ w ++ post.

   Property-level statements (all closed under the global context):
     foldm_eq_fold_proof            the model's folding is the spec's folding
     fold_v2_fold_proof             phase 2's folding is the spec's folding (normalizeRune = id below U+00C0)
     win_cells_eq_naive_proof       every cell of the window matrix is the naive cell (H, C; rows >= 1: gap flag too);
                                    naive cells left of F[i] are impossible
     cons_bound_proof               0 <= C[i][j] <= min (i+1) (j - F[0] + 1)   (no truncation in B[col - cn + 1])
     v2_score_eq_naive_proof        (maxScore, maxPos) of the window = naive_dp over the whole line
     v2_score_eq_naive_whole_proof  the same when the window is the whole line (rune representation)
     afi_window_facts_proof         the window chosen by asciiFuzzyIndex meets the window hypotheses
     v2_score_eq_naive_afi_proof    the same with the window given by [ascii_fuzzy_index] itself *)
From Fzf Require Import Prelude AlgoSpec AlgoModel V2Facts V2DpWin V2DpNaive V2DpCore V2DpWindow.
Open Scope Z_scope.

(* ---------- list utilities ---------- *)

Lemma last_nth_gen {A} (d : A) : forall l, last l d = nth (length l - 1) l d.
Proof.
  induction l as [|a l IH]; [reflexivity|].
  destruct l as [|b l]; [reflexivity|].
  change (last (a :: b :: l) d) with (last (b :: l) d). rewrite IH.
  cbn [length]. replace (S (S (length l)) - 1)%nat with (S (S (length l) - 1)) by lia. reflexivity.
Qed.

Lemma zn_app_mid (pre w post : list Z) j : (j < length w)%nat -> zn (pre ++ w ++ post) (length pre + j) = zn w j.
Proof.
  intros Hj. unfold zn. rewrite app_nth2 by lia. replace (length pre + j - length pre)%nat with j by lia.
  now rewrite app_nth1 by lia.
Qed.

Lemma nth_error_zn (l : list Z) j : (j < length l)%nat -> nth_error l j = Some (zn l j).
Proof. intros Hj. unfold zn. now apply nth_error_nth'. Qed.

(* ---------- the window matrix is the indexed family of rows [wrow] ---------- *)

Section Matrix.
Variables T B H0 C0 : list Z.
Variable F : list nat.
Variable pat : list Z.
Variable lastIdx : nat.
Notation wrow := (wrow T B H0 C0 F pat lastIdx).

Lemma win_rows_wrow : length F = length pat ->
  forall Fsub Psub k, Fsub = skipn (S k) F -> Psub = skipn (S k) pat ->
  win_rows T B lastIdx (nn F k) (wrow k) Fsub Psub = map wrow (seq (S k) (length Fsub)).
Proof.
  intros HlenF. induction Fsub as [|f Fsub IH]; intros Psub k HF HP; [reflexivity|].
  destruct Psub as [|p Psub].
  - exfalso. symmetry in HP. apply skipn_nil_len in HP.
    assert (HL : length (f :: Fsub) = length (skipn (S k) F)) by now rewrite HF.
    rewrite skipn_length in HL. cbn [length] in HL. lia.
  - symmetry in HF, HP.
    destruct (skipn_cons_nth O _ _ _ _ HF) as [Hf HF'].
    destruct (skipn_cons_nth 0 _ _ _ _ HP) as [Hp HP'].
    cbn [win_rows length seq map]. fold (nn F (S k)) in Hf. fold (zn pat (S k)) in Hp. subst f p.
    f_equal. rewrite <- (IH Psub (S k)) by (symmetry; assumption). reflexivity.
Qed.

Lemma win_matrix_wrow : length F = length pat -> (1 <= length pat)%nat ->
  win_matrix T B H0 C0 F pat lastIdx = map wrow (seq 0 (length pat)).
Proof.
  intros HlenF HM. unfold win_matrix. destruct F as [|f0 Fs] eqn:EF; [cbn in HlenF; lia|].
  rewrite <- EF in *.
  assert (H0' : win_row0 H0 C0 f0 lastIdx = wrow 0) by (cbn [V2DpCore.wrow]; rewrite EF; reflexivity).
  rewrite H0'. replace f0 with (nn F 0) by (rewrite EF; reflexivity).
  rewrite (win_rows_wrow HlenF Fs (tl pat) 0).
  - rewrite <- HlenF. rewrite EF. reflexivity.
  - rewrite EF. reflexivity.
  - destruct pat; reflexivity.
Qed.

Lemma win_matrix_row i : length F = length pat -> (i < length pat)%nat ->
  nth i (win_matrix T B H0 C0 F pat lastIdx) [] = wrow i.
Proof.
  intros HlenF Hi. rewrite win_matrix_wrow by (try assumption; lia).
  rewrite (nth_map_in _ _ _ _ O) by (rewrite seq_length; exact Hi). now rewrite seq_nth by exact Hi.
Qed.

Lemma win_result_wrow fwd : length F = length pat -> (1 <= length pat)%nat ->
  win_result fwd T B H0 C0 F pat lastIdx =
  win_best fwd (wrow (length pat - 1)) (nn F (length pat - 1)) 0 O.
Proof.
  intros HlenF HM. unfold win_result.
  rewrite (last_nth_gen O F). rewrite last_nth_gen.
  assert (HL : length (win_matrix T B H0 C0 F pat lastIdx) = length pat)
    by (rewrite win_matrix_wrow by assumption; now rewrite map_length, seq_length).
  rewrite HL. rewrite win_matrix_row by (try assumption; lia). rewrite HlenF. reflexivity.
Qed.

End Matrix.

(* ---------- folding ---------- *)

Section Proofs.
Variable co : char_ops.
Variable sc : scheme.

Lemma foldm_eq_fold_proof cs nm c : foldm co cs nm c = fold co cs nm c.
Proof. reflexivity. Qed.

Lemma fold_v2_class cs nm c : fst (fold_v2 co sc cs nm c) = class_of co sc c.
Proof. unfold fold_v2, class_of. destruct (c <=? 127); reflexivity. Qed.

Lemma ascii_class_upper c : (ascii_class sc c =? cUpper) = ((65 <=? c) && (c <=? 90)).
Proof.
  unfold ascii_class.
  destruct ((97 <=? c) && (c <=? 122)) eqn:E1.
  - apply andb_true_iff in E1 as [A1 A2]. apply Z.leb_le in A1.
    replace (c <=? 90) with false by (symmetry; apply Z.leb_gt; lia). now rewrite andb_false_r.
  - destruct ((65 <=? c) && (c <=? 90)) eqn:E2; [reflexivity|].
    destruct ((48 <=? c) && (c <=? 57)); [reflexivity|].
    destruct (ascii_white c); [reflexivity|]. destruct (mem c (s_delims sc)); reflexivity.
Qed.

(* H_norm_ascii: normalizeRune is the identity below U+00C0 *)
Theorem fold_v2_fold_proof : (forall c, c < 192 -> co_norm co c = c) ->
  forall cs nm c, snd (fold_v2 co sc cs nm c) = fold co cs nm c.
Proof.
  intros Hn cs nm c. unfold fold_v2, fold, lower1.
  destruct (c <=? 127) eqn:E; cbn [snd].
  - apply Z.leb_le in E. rewrite ascii_class_upper.
    replace (127 <? c) with false by (symmetry; apply Z.ltb_ge; lia).
    destruct cs; cbn [negb andb].
    + destruct nm; [rewrite Hn by lia|]; reflexivity.
    + destruct ((65 <=? c) && (c <=? 90)); (destruct nm; [rewrite Hn by lia|]; reflexivity).
  - apply Z.leb_gt in E.
    replace ((65 <=? c) && (c <=? 90)) with false
      by (symmetry; apply andb_false_iff; right; apply Z.leb_gt; lia).
    replace (127 <? c) with true by (symmetry; apply Z.ltb_lt; lia).
    destruct cs; reflexivity.
Qed.

(* ---------- from the phase-2 facts to the hypotheses of the core development ---------- *)

Section Window.
Variables cs nm : bool.
Variables pre w post pat : list Z.
Variable st : p2.

Hypothesis Hsc : 0 <= s_bw sc /\ 0 <= s_bd sc.
Hypothesis Hnorm : forall c, c < 192 -> co_norm co c = c.
Hypothesis HM : (1 <= length pat)%nat.
Hypothesis Hok : p2_ok co sc cs nm w pat st.
(* the first pattern character does not occur (folded) before the window ... *)
Hypothesis Hpre : forall c, In c pre -> fold co cs nm c <> zn pat 0.
(* ... nor at the first window position unless the window starts the line
   (asciiFuzzyIndex starts the window one character before the first occurrence) *)
Hypothesis Hw0 : pre = [] \/ fold co cs nm (zn w 0) <> zn pat 0.

Notation text := (pre ++ w ++ post).
Notation off := (length pre).
Notation T := (p2T st).
Notation B := (p2B st).
Notation H0 := (p2H0 st).
Notation C0 := (p2C0 st).
Notation F := (p2F st).
Notation lastIdx := (p2_lastIdx st).

Lemma L_lenT : length T = length w.
Proof. rewrite (ok_T _ _ _ _ _ _ _ Hok). apply map_length. Qed.

Lemma L_T j : (j < length w)%nat -> zn T j = fold co cs nm (zn w j).
Proof.
  intros Hj. unfold zn. rewrite (ok_T _ _ _ _ _ _ _ Hok).
  rewrite (nth_map_in _ _ _ _ 0) by exact Hj. now apply fold_v2_fold_proof.
Qed.

Lemma L_off : (off + length T <= length text)%nat.
Proof. rewrite L_lenT, !app_length. lia. Qed.

Lemma L_text j : (j < length T)%nat -> fold co cs nm (zn text (off + j)) = zn T j.
Proof. intros Hj. rewrite L_lenT in Hj. rewrite zn_app_mid by exact Hj. now rewrite L_T. Qed.

Lemma L_pre c : (c < off)%nat -> fold co cs nm (zn text c) <> zn pat 0.
Proof. intros Hc. unfold zn. rewrite app_nth1 by exact Hc. apply Hpre. now apply nth_In. Qed.

Lemma L_hit i : (i < length pat)%nat -> zn T (nn F i) = zn pat i.
Proof. intros Hi. apply (ok_F_hit _ _ _ _ _ _ _ Hok i Hi). Qed.

Lemma L_last : (nn F (length pat - 1) <= lastIdx < length T)%nat.
Proof. rewrite L_lenT. apply (ok_last_ge _ _ _ _ _ _ _ Hok). Qed.

Lemma L_F0_pos : pre <> [] -> (1 <= nn F 0)%nat.
Proof.
  intros Hne. destruct Hw0 as [H|H]; [contradiction|].
  destruct (nn F 0) eqn:E; [|lia]. exfalso. apply H.
  pose proof (L_hit 0 ltac:(lia)) as Hh. rewrite E in Hh. rewrite <- Hh.
  symmetry. apply L_T. pose proof (ok_F_hit _ _ _ _ _ _ _ Hok 0%nat ltac:(lia)) as [Hlt _]. lia.
Qed.

Lemma L_B j : (nn F 0 <= j <= lastIdx)%nat -> zn B j = bonus_at co sc text (off + j).
Proof.
  intros Hj. pose proof L_last as HL. rewrite L_lenT in HL.
  assert (Hjw : (j < length w)%nat) by lia.
  rewrite (ok_B _ _ _ _ _ _ _ Hok j Hjw). rewrite !fold_v2_class.
  unfold bonus_at.
  assert (Hn : forall k, (k < length w)%nat -> nth_error text (off + k) = Some (zn w k)).
  { intros k Hk. rewrite <- (zn_app_mid pre w post k Hk). apply nth_error_zn. rewrite !app_length. lia. }
  rewrite (Hn j Hjw). f_equal.
  destruct j as [|k].
  - destruct pre as [|x pre'] eqn:E; [reflexivity|].
    exfalso. assert (Hne : pre <> []) by (rewrite E; discriminate). rewrite <- E in *.
    pose proof (L_F0_pos Hne). lia.
  - replace (off + S k)%nat with (S (off + k)) by lia. unfold class_before.
    rewrite (Hn k) by lia. f_equal. rewrite fold_v2_class. reflexivity.
Qed.

Lemma L_C0 j : (j <= lastIdx)%nat -> zn C0 j = if zn T j =? zn pat 0 then 1 else 0.
Proof. intros Hj. pose proof L_last as HL. rewrite L_lenT in HL. apply (ok_C0 _ _ _ _ _ _ _ Hok). lia. Qed.

Lemma L_H0m j : (j <= lastIdx)%nat -> zn T j = zn pat 0 -> zn H0 j = scoreMatch + 2 * zn B j.
Proof. intros Hj. pose proof L_last as HL. rewrite L_lenT in HL. apply (ok_H0_match _ _ _ _ _ _ _ Hok). lia. Qed.

Lemma L_H0g j : (j <= lastIdx)%nat -> zn T j <> zn pat 0 ->
  zn H0 j = Z.max ((match j with O => 0 | S k => zn H0 k end) +
                   (if (match j with O => false | S k => negb (zn T k =? zn pat 0) end)
                    then scoreGapExt else scoreGapStart)) 0.
Proof. intros Hj. pose proof L_last as HL. rewrite L_lenT in HL. apply (ok_H0_gap _ _ _ _ _ _ _ Hok). lia. Qed.

Lemma L_post : (forall c, In c post -> fold co cs nm c <> last pat 0) ->
  forall c, (off + lastIdx < c < length text)%nat -> fold co cs nm (zn text c) <> last pat 0.
Proof.
  intros Hpost c Hc. pose proof L_last as HL. rewrite L_lenT in HL.
  destruct (Nat.lt_ge_cases c (off + length w)) as [Hlt|Hge].
  - replace c with (off + (c - off))%nat by lia. rewrite zn_app_mid by lia.
    rewrite <- L_T by lia. apply (ok_last_max _ _ _ _ _ _ _ Hok). lia.
  - unfold zn. rewrite app_nth2 by lia. rewrite app_nth2 by lia. apply Hpost. apply nth_In.
    rewrite !app_length in Hc. lia.
Qed.

Definition L_inv i (Hi : (i < length pat)%nat) :=
  inv_all co sc cs nm text off T B H0 C0 F pat lastIdx Hsc HM L_off L_text L_pre L_hit
          (ok_F_inc _ _ _ _ _ _ _ Hok) (ok_F_first _ _ _ _ _ _ _ Hok) L_last L_B L_C0 L_H0m L_H0g i Hi.

(* naive row i = last row of the naive DP for the pattern prefix pat[0..i] *)
Lemma nrow_firstn i : forall k, (k <= i)%nat ->
  nrow co sc cs nm text (firstn (S i) pat) k = nrow co sc cs nm text pat k.
Proof.
  assert (Hz : forall k, (k <= i)%nat -> zn (firstn (S i) pat) k = zn pat k)
    by (intros k Hk; unfold zn; apply nth_firstn_lt; lia).
  induction k as [|k IH]; intros Hk; cbn [nrow].
  - now rewrite Hz by lia.
  - rewrite IH by lia. now rewrite Hz by lia.
Qed.

Lemma naive_row_nrow i : (i < length pat)%nat ->
  naive_last_row co sc cs nm text (firstn (S i) pat) = nrow co sc cs nm text pat i.
Proof.
  intros Hi. assert (HL : length (firstn (S i) pat) = S i) by (rewrite firstn_length; lia).
  rewrite naive_last_row_nrow by (intros E; rewrite E in HL; discriminate).
  rewrite HL. replace (S i - 1)%nat with i by lia. apply nrow_firstn. lia.
Qed.

Notation wcell_at i j := (nth (j - nn F i) (nth i (win_matrix T B H0 C0 F pat lastIdx) []) wdflt).
Notation ncell_at i c := (nth c (naive_last_row co sc cs nm text (firstn (S i) pat)) none_cell).

Lemma S_cells i j : (i < length pat)%nat -> (nn F i <= j <= lastIdx)%nat ->
  c_h (ncell_at i (off + j)) = Some (w_h (wcell_at i j)) /\
  c_cons (ncell_at i (off + j)) = w_c (wcell_at i j) /\
  ((1 <= i)%nat -> c_gap (ncell_at i (off + j)) = w_g (wcell_at i j)) /\
  0 <= w_h (wcell_at i j) /\ 0 <= w_c (wcell_at i j) /\
  w_c (wcell_at i j) <= Z.of_nat i + 1 /\
  w_c (wcell_at i j) <= Z.of_nat j - Z.of_nat (nn F 0) + 1.
Proof.
  intros Hi Hj. rewrite naive_row_nrow by exact Hi.
  rewrite win_matrix_row by (try exact Hi; apply (ok_lenF _ _ _ _ _ _ _ Hok)).
  destruct (L_inv i Hi) as [IA IB].
  destruct (IB j Hj) as (C1 & C2 & C3 & C4 & C5 & C6).
  unfold V2DpCore.W, V2DpNaive.N in *.
  repeat split; try assumption.
  intros Hi1. destruct i as [|i]; [lia|].
  pose proof (cells_eq_S co sc cs nm text off T B H0 C0 F pat lastIdx Hsc HM L_off L_text L_hit
                (ok_F_inc _ _ _ _ _ _ _ Hok) (ok_F_first _ _ _ _ _ _ _ Hok) L_last L_B i Hi
                (L_inv i ltac:(lia)) j Hj) as HE.
  unfold V2DpCore.W, V2DpNaive.N in HE. rewrite HE. reflexivity.
Qed.

Lemma S_none i c : (i < length pat)%nat -> (c < off + nn F i)%nat -> c_h (ncell_at i c) = None.
Proof.
  intros Hi Hc. rewrite naive_row_nrow by exact Hi.
  destruct (L_inv i Hi) as [IA IB]. apply IA. exact Hc.
Qed.

Lemma S_main fwd ms mp : (2 <= length pat)%nat ->
  (forall c, In c post -> fold co cs nm c <> last pat 0) ->
  win_result fwd T B H0 C0 F pat lastIdx = (ms, mp) ->
  naive_dp co sc cs nm fwd text pat = Some (ms, (off + mp + 1)%nat).
Proof.
  intros HM2 Hpost Hwin.
  rewrite win_result_wrow in Hwin by (try exact HM; apply (ok_lenF _ _ _ _ _ _ _ Hok)).
  exact (core_naive_dp co sc cs nm text off T B H0 C0 F pat lastIdx Hsc HM L_off L_text L_pre L_hit
          (ok_F_inc _ _ _ _ _ _ _ Hok) (ok_F_first _ _ _ _ _ _ _ Hok) L_last L_B L_C0 L_H0m L_H0g
          HM2 (L_post Hpost) fwd ms mp Hwin).
Qed.

End Window.

(* ---------- property-level statements ---------- *)

(* Part 1: the window matrix holds the naive cells.  Row i of the naive DP is the last row of the
   naive DP for the pattern prefix pat[0..i]; window column j is column |pre| + j of the line. *)
Theorem win_cells_eq_naive_proof :
  forall (cs nm : bool) (pre w post pat : list Z) (st : p2),
  0 <= s_bw sc /\ 0 <= s_bd sc ->
  (forall c, c < 192 -> co_norm co c = c) ->
  (1 <= length pat)%nat ->
  p2_ok co sc cs nm w pat st ->
  (forall c, In c pre -> fold co cs nm c <> zn pat 0) ->
  (pre = [] \/ fold co cs nm (zn w 0) <> zn pat 0) ->
  forall i, (i < length pat)%nat ->
  let nrow_i := naive_last_row co sc cs nm (pre ++ w ++ post) (firstn (S i) pat) in
  let wrow_i := nth i (win_matrix (p2T st) (p2B st) (p2H0 st) (p2C0 st) (p2F st) pat (p2_lastIdx st)) [] in
  (forall c, (c < length pre + nn (p2F st) i)%nat -> c_h (nth c nrow_i none_cell) = None) /\
  (forall j, (nn (p2F st) i <= j <= p2_lastIdx st)%nat ->
     let nc := nth (length pre + j) nrow_i none_cell in
     let wc := nth (j - nn (p2F st) i) wrow_i wdflt in
     c_h nc = Some (w_h wc) /\ c_cons nc = w_c wc /\ ((1 <= i)%nat -> c_gap nc = w_g wc)).
Proof.
  intros cs nm pre w post pat st Hsc Hn HM Hok Hpre Hw0 i Hi. cbn zeta. split.
  - intros c Hc. exact (S_none cs nm pre w post pat st Hsc Hn HM Hok Hpre Hw0 i c Hi Hc).
  - intros j Hj.
    destruct (S_cells cs nm pre w post pat st Hsc Hn HM Hok Hpre Hw0 i j Hi Hj) as (C1 & C2 & C3 & _).
    auto.
Qed.

(* the consecutive-run counter never exceeds the row number + 1 nor the distance to F[0] + 1;
   H is never negative *)
Theorem cons_bound_proof :
  forall (cs nm : bool) (pre w post pat : list Z) (st : p2),
  0 <= s_bw sc /\ 0 <= s_bd sc ->
  (forall c, c < 192 -> co_norm co c = c) ->
  (1 <= length pat)%nat ->
  p2_ok co sc cs nm w pat st ->
  (forall c, In c pre -> fold co cs nm c <> zn pat 0) ->
  (pre = [] \/ fold co cs nm (zn w 0) <> zn pat 0) ->
  forall i j, (i < length pat)%nat -> (nn (p2F st) i <= j <= p2_lastIdx st)%nat ->
  let wc := nth (j - nn (p2F st) i)
                (nth i (win_matrix (p2T st) (p2B st) (p2H0 st) (p2C0 st) (p2F st) pat (p2_lastIdx st)) []) wdflt in
  0 <= w_h wc /\ 0 <= w_c wc /\ w_c wc <= Z.of_nat i + 1 /\
  w_c wc <= Z.of_nat j - Z.of_nat (nn (p2F st) 0) + 1.
Proof.
  intros cs nm pre w post pat st Hsc Hn HM Hok Hpre Hw0 i j Hi Hj. cbn zeta.
  destruct (S_cells cs nm pre w post pat st Hsc Hn HM Hok Hpre Hw0 i j Hi Hj) as (_ & _ & _ & C4 & C5 & C6 & C7).
  auto.
Qed.

(* Parts 2+3: the score and end position *)
Theorem v2_score_eq_naive_proof :
  forall (cs nm fwd : bool) (pre w post pat : list Z) (st : p2) (maxScore : Z) (maxPos : nat),
  (2 <= length pat)%nat ->
  0 <= s_bw sc /\ 0 <= s_bd sc ->
  (forall c, c < 192 -> co_norm co c = c) ->
  p2_ok co sc cs nm w pat st ->
  (forall c, In c pre -> fold co cs nm c <> zn pat 0) ->
  (pre = [] \/ fold co cs nm (zn w 0) <> zn pat 0) ->
  (forall c, In c post -> fold co cs nm c <> last pat 0) ->
  win_result fwd (p2T st) (p2B st) (p2H0 st) (p2C0 st) (p2F st) pat (p2_lastIdx st) = (maxScore, maxPos) ->
  naive_dp co sc cs nm fwd (pre ++ w ++ post) pat = Some (maxScore, (length pre + maxPos + 1)%nat).
Proof.
  intros cs nm fwd pre w post pat st ms mp HM2 Hsc Hn Hok Hpre Hw0 Hpost Hwin.
  exact (S_main cs nm pre w post pat st Hsc Hn ltac:(lia) Hok Hpre Hw0 fwd ms mp HM2 Hpost Hwin).
Qed.

(* the rune representation: the window is the whole line *)
Theorem v2_score_eq_naive_whole_proof :
  forall (cs nm fwd : bool) (text pat : list Z) (st : p2) (maxScore : Z) (maxPos : nat),
  (2 <= length pat)%nat ->
  0 <= s_bw sc /\ 0 <= s_bd sc ->
  (forall c, c < 192 -> co_norm co c = c) ->
  p2_ok co sc cs nm text pat st ->
  win_result fwd (p2T st) (p2B st) (p2H0 st) (p2C0 st) (p2F st) pat (p2_lastIdx st) = (maxScore, maxPos) ->
  naive_dp co sc cs nm fwd text pat = Some (maxScore, (maxPos + 1)%nat).
Proof.
  intros cs nm fwd text pat st ms mp HM2 Hsc Hn Hok Hwin.
  pose proof (v2_score_eq_naive_proof cs nm fwd [] text [] pat st ms mp HM2 Hsc Hn Hok
                ltac:(intros c []) ltac:(left; reflexivity) ltac:(intros c []) Hwin) as H.
  cbn [app length Nat.add] in H. rewrite app_nil_r in H. exact H.
Qed.

(* the window of asciiFuzzyIndex (H_ascii_text: the byte representation is only used for ASCII text) *)
Theorem afi_window_facts_proof :
  forall (is_bytes cs nm : bool) (text pat : list Z) (minIdx maxIdx : nat),
  (is_bytes = true -> Forall (fun c => 0 <= c < 128) text) ->
  (forall c, c < 192 -> co_norm co c = c) ->
  pat <> [] ->
  ascii_fuzzy_index is_bytes text pat cs = Ok (Some (minIdx, maxIdx)) ->
  let pre := firstn minIdx text in
  let w := firstn (maxIdx - minIdx) (skipn minIdx text) in
  let post := skipn maxIdx text in
  (minIdx <= maxIdx <= length text)%nat /\
  text = pre ++ w ++ post /\
  (forall c, In c pre -> fold co cs nm c <> zn pat 0) /\
  (pre = [] \/ fold co cs nm (zn w 0) <> zn pat 0) /\
  (forall c, In c post -> fold co cs nm c <> last pat 0).
Proof. exact (afi_window_proof co). Qed.

Theorem v2_score_eq_naive_afi_proof :
  forall (is_bytes cs nm fwd : bool) (text pat : list Z) (minIdx maxIdx : nat) (st : p2)
         (maxScore : Z) (maxPos : nat),
  (2 <= length pat)%nat ->
  0 <= s_bw sc /\ 0 <= s_bd sc ->
  (is_bytes = true -> Forall (fun c => 0 <= c < 128) text) ->
  (forall c, c < 192 -> co_norm co c = c) ->
  ascii_fuzzy_index is_bytes text pat cs = Ok (Some (minIdx, maxIdx)) ->
  p2_ok co sc cs nm (firstn (maxIdx - minIdx) (skipn minIdx text)) pat st ->
  win_result fwd (p2T st) (p2B st) (p2H0 st) (p2C0 st) (p2F st) pat (p2_lastIdx st) = (maxScore, maxPos) ->
  naive_dp co sc cs nm fwd text pat = Some (maxScore, (minIdx + maxPos + 1)%nat).
Proof.
  intros is_bytes cs nm fwd text pat minIdx maxIdx st ms mp HM2 Hsc Hascii Hn Hafi Hok Hwin.
  assert (Hne : pat <> []) by (destruct pat; [cbn in HM2; lia|discriminate]).
  destruct (afi_window_proof co is_bytes cs nm text pat minIdx maxIdx Hascii Hn Hne Hafi)
    as (Hr & Hsplit & Hpre & Hw0 & Hpost).
  pose proof (v2_score_eq_naive_proof cs nm fwd _ _ _ pat st ms mp HM2 Hsc Hn Hok Hpre Hw0 Hpost Hwin) as R.
  rewrite <- Hsplit in R. rewrite firstn_length in R.
  replace (Nat.min minIdx (length text)) with minIdx in R by lia. exact R.
Qed.

End Proofs.

Print Assumptions foldm_eq_fold_proof.
Print Assumptions fold_v2_fold_proof.
Print Assumptions win_cells_eq_naive_proof.
Print Assumptions cons_bound_proof.
Print Assumptions v2_score_eq_naive_proof.
Print Assumptions v2_score_eq_naive_whole_proof.
Print Assumptions afi_window_facts_proof.
Print Assumptions v2_score_eq_naive_afi_proof.

(* ---------- non-vacuity: text "x" ++ "xa_b ab" ++ "yy", pattern "ab", default scheme ----------
   (the window asciiFuzzyIndex chooses for this line is exactly [1, 8): see the last conjuncts) *)
Definition ex_co := mkOps (fun c => c) (fun _ => cNonWord) (fun c => c) (fun _ => false).
Definition ex_pre : list Z := [120].                           (* "x"        *)
Definition ex_w : list Z := [120; 97; 95; 98; 32; 97; 98].     (* "xa_b ab"  *)
Definition ex_post : list Z := [121; 121].                     (* "yy"       *)
Definition ex_pat : list Z := [97; 98].                        (* "ab"       *)
Definition ex_st : p2 :=
  phase2 ex_co scheme_default false false true false ex_w O 97 ex_pat 98 0 (s_init scheme_default) false
         (mkP2 [] [] [] [] [] O O 0 O).

(* bounded quantifiers over the 7 window positions / 2 pattern positions *)
Ltac ex_fin :=
  vm_compute;
  first [ reflexivity | discriminate | lia
        | split; [lia|reflexivity]
        | (let H := fresh in intro H;
           first [ reflexivity | discriminate H | (exfalso; apply H; reflexivity) | (exfalso; vm_compute in H; lia) ]) ].
Ltac ex_upto j Hj :=
  do 8 (try (destruct j as [|j]; [try ex_fin|])); try (exfalso; vm_compute in Hj; lia).

Lemma ex_p2_ok : p2_ok ex_co scheme_default false false ex_w ex_pat ex_st.
Proof.
  constructor.
  - vm_compute. reflexivity.
  - reflexivity.
  - reflexivity.
  - reflexivity.
  - intros j Hj. ex_upto j Hj.
  - reflexivity.
  - reflexivity.
  - intros i Hi. ex_upto i Hi.
  - intros i Hi. ex_upto i Hi.
  - intros i j Hi Hj. destruct i as [|[|i]]; [| |exfalso; vm_compute in Hi; lia].
    + ex_upto j Hj.
    + ex_upto j Hj.
  - vm_compute. lia.
  - reflexivity.
  - intros j Hj. ex_upto j Hj.
  - intros j Hj. ex_upto j Hj.
  - intros j Hj. ex_upto j Hj.
  - intros j Hj. ex_upto j Hj.
Qed.

Example v2_score_eq_naive_nonvacuous :
  let text := ex_pre ++ ex_w ++ ex_post in
  (* the hypotheses of v2_score_eq_naive_proof hold ... *)
  (2 <= length ex_pat)%nat /\
  (0 <= s_bw scheme_default /\ 0 <= s_bd scheme_default) /\
  (forall c, c < 192 -> co_norm ex_co c = c) /\
  p2_ok ex_co scheme_default false false ex_w ex_pat ex_st /\
  (forall c, In c ex_pre -> fold ex_co false false c <> zn ex_pat 0) /\
  (ex_pre = [] \/ fold ex_co false false (zn ex_w 0) <> zn ex_pat 0) /\
  (forall c, In c ex_post -> fold ex_co false false c <> last ex_pat 0) /\
  win_result true (p2T ex_st) (p2B ex_st) (p2H0 ex_st) (p2C0 ex_st) (p2F ex_st) ex_pat (p2_lastIdx ex_st) = (62, 6%nat) /\
  (* ... so its conclusion does, and this is what the model of FuzzyMatchV2 returns on that line *)
  naive_dp ex_co scheme_default false false true text ex_pat = Some (62, 8%nat) /\
  ascii_fuzzy_index true text ex_pat false = Ok (Some (1%nat, 8%nat)) /\
  fuzzy_v2 ex_co scheme_default false false true true text ex_pat false None = Ok (Match 2 8 62 None).
Proof.
  assert (H1 : (2 <= length ex_pat)%nat) by (cbn; lia).
  assert (H2 : 0 <= s_bw scheme_default /\ 0 <= s_bd scheme_default) by (cbn; lia).
  assert (H3 : forall c, c < 192 -> co_norm ex_co c = c) by reflexivity.
  assert (H5 : forall c, In c ex_pre -> fold ex_co false false c <> zn ex_pat 0)
    by (intros c [<-|[]]; vm_compute; discriminate).
  assert (H6 : ex_pre = [] \/ fold ex_co false false (zn ex_w 0) <> zn ex_pat 0)
    by (right; vm_compute; discriminate).
  assert (H7 : forall c, In c ex_post -> fold ex_co false false c <> last ex_pat 0)
    by (intros c [<-|[<-|[]]]; vm_compute; discriminate).
  assert (H8 : win_result true (p2T ex_st) (p2B ex_st) (p2H0 ex_st) (p2C0 ex_st) (p2F ex_st) ex_pat
                 (p2_lastIdx ex_st) = (62, 6%nat)) by (vm_compute; reflexivity).
  pose proof (v2_score_eq_naive_proof ex_co scheme_default false false true ex_pre ex_w ex_post ex_pat ex_st
                62 6%nat H1 H2 H3 ex_p2_ok H5 H6 H7 H8) as H9.
  cbn zeta.
  refine (conj H1 (conj H2 (conj H3 (conj ex_p2_ok (conj H5 (conj H6 (conj H7 (conj H8 (conj H9 (conj _ _)))))))))).
  - vm_compute. reflexivity.
  - vm_compute. reflexivity.
Qed.

(* the cell theorem at the winning cell: row 1, window column 6 holds H = 62, C = 2 *)
Example win_cells_eq_naive_nonvacuous :
  let nrow_1 := naive_last_row ex_co scheme_default false false (ex_pre ++ ex_w ++ ex_post) (firstn 2 ex_pat) in
  let wrow_1 := nth 1 (win_matrix (p2T ex_st) (p2B ex_st) (p2H0 ex_st) (p2C0 ex_st) (p2F ex_st) ex_pat (p2_lastIdx ex_st)) [] in
  nth (6 - nn (p2F ex_st) 1) wrow_1 wdflt = mkW 62 2 false /\
  c_h (nth (length ex_pre + 6) nrow_1 none_cell) = Some 62 /\
  c_cons (nth (length ex_pre + 6) nrow_1 none_cell) = 2.
Proof.
  cbn zeta. split; [vm_compute; reflexivity|].
  destruct (win_cells_eq_naive_proof ex_co scheme_default false false ex_pre ex_w ex_post ex_pat ex_st
              ltac:(cbn; lia) ltac:(reflexivity) ltac:(cbn; lia) ex_p2_ok
              ltac:(intros c [<-|[]]; vm_compute; discriminate)
              ltac:(right; vm_compute; discriminate) 1%nat ltac:(cbn; lia)) as [_ Hc].
  destruct (Hc 6%nat ltac:(vm_compute; lia)) as (C1 & C2 & _).
  rewrite C1, C2. split; vm_compute; reflexivity.
Qed.

(* the same line through v2_score_eq_naive_afi_proof: byte representation, window from asciiFuzzyIndex *)
Example v2_score_eq_naive_afi_nonvacuous :
  let text := ex_pre ++ ex_w ++ ex_post in
  Forall (fun c => 0 <= c < 128) text /\
  ascii_fuzzy_index true text ex_pat false = Ok (Some (1%nat, 8%nat)) /\
  firstn (8 - 1) (skipn 1 text) = ex_w /\
  naive_dp ex_co scheme_default false false true text ex_pat = Some (62, 8%nat).
Proof.
  cbn zeta.
  assert (Ha : Forall (fun c => 0 <= c < 128) (ex_pre ++ ex_w ++ ex_post))
    by (repeat constructor; cbn; lia).
  assert (Hi : ascii_fuzzy_index true (ex_pre ++ ex_w ++ ex_post) ex_pat false = Ok (Some (1%nat, 8%nat)))
    by (vm_compute; reflexivity).
  refine (conj Ha (conj Hi (conj eq_refl _))).
  exact (v2_score_eq_naive_afi_proof ex_co scheme_default true false false true _ ex_pat 1%nat 8%nat ex_st
           62 6%nat ltac:(cbn; lia) ltac:(cbn; lia) (fun _ => Ha) ltac:(reflexivity) Hi ex_p2_ok
           ltac:(vm_compute; reflexivity)).
Qed.
