(* Concrete instances for PatternMonotone.v: a small char_ops that behaves like Go's tables on
   É (U+00C9), é (U+00E9) and İ (U+0130: ToLower = 'i', normalizeRune = 'I'); the laws hold for it; non-vacuity
   of the two theorems; the refutation of `monotone` under --no-extended. *)
From Fzf Require Import Prelude AlgoSpec AlgoModel QuerySpec PatternModel PatternKeyModel PatternProofs PatternTokens.
From Fzf Require Import PatternInst PatternFinal PatternMonoBasics PatternMonotone.
From Fzf Require Import SearchSpec ChunkStoreModel CacheModel MatcherModel CacheProofs MatcherProofs.
Open Scope Z_scope.

Definition mono_co : char_ops :=
  mkOps (fun c => if c =? 304 then 105 else if c =? 201 then 233 else c) (fun _ => cLetter)
        (fun c => if c =? 304 then 73 else if c =? 233 then 101 else if c =? 201 then 69 else c) (fun _ => false).

Lemma mono_N_other d : d <> 304 -> d <> 233 -> d <> 201 -> co_norm mono_co d = d.
Proof.
  intros H1 H2 H3. cbn. apply Z.eqb_neq in H1, H2, H3. now rewrite H1, H2, H3.
Qed.

Lemma mono_L_tab d : lower1 mono_co d = 9 -> d = 9.
Proof.
  unfold lower1. cbn [mono_co co_lower].
  destruct ((65 <=? d) && (d <=? 90)) eqn:E.
  - apply andb_true_iff in E as [E1 E2]. apply Z.leb_le in E1. lia.
  - destruct (127 <? d) eqn:E2; [|auto]. apply Z.ltb_lt in E2.
    destruct (Z.eqb_spec d 304); [discriminate|]. destruct (Z.eqb_spec d 201); [discriminate|auto].
Qed.

Ltac three_cases c :=
  destruct (Z.eq_dec c 304) as [->|?]; [|destruct (Z.eq_dec c 233) as [->|?]; [|destruct (Z.eq_dec c 201) as [->|?]]].

Lemma mono_co_laws : fold_laws mono_co.
Proof.
  constructor; intro c.
  - three_cases c; try reflexivity. now rewrite !(mono_N_other c) by assumption.
  - three_cases c; try (vm_compute; congruence). rewrite !(mono_N_other c) by assumption. intro H. rewrite H. now apply mono_N_other.
  - three_cases c; try (vm_compute; congruence). now rewrite !(mono_N_other c) by assumption.
  - three_cases c; try (vm_compute; congruence). now rewrite !(mono_N_other c) by assumption.
  - apply mono_L_tab.
  - three_cases c; try (vm_compute; congruence). now rewrite (mono_N_other c) by assumption.
Qed.

Lemma mono_co_norm_ascii : forall c, c < 192 -> co_norm mono_co c = c.
Proof. intros c H. apply mono_N_other; lia. Qed.

(* the law that --no-extended needs fails at İ, as it does for Go's tables *)
Lemma mono_co_not_basic : ~ basic_law mono_co.
Proof. intro H. specialize (H 304). vm_compute in H. specialize (H eq_refl). discriminate. Qed.

Lemma mono_md : matchers_decide mono_co scheme_default.
Proof.
  apply matchers_decide_closed.
  - apply mono_co_norm_ascii.
  - apply (fl_idem _ mono_co_laws).
  - vm_compute. discriminate.
  - vm_compute. discriminate.
  - intro c. vm_compute. discriminate.
Qed.

(* default options (smart case, accent folding, fuzzy V2), extended and not *)
Definition mono_o (ext : bool) : popts := mkP true true ext CaseSmart true true (Some 102400).

Definition mk_item (i : Z) (s : str) (H : forallb (fun c => 0 <=? c) s = true) : fzitem := mkItem i s H.

(* ---- non-vacuity: "ab" is cacheable, its key is a proper prefix of the key of "abc", "'abc" and "ab c$" ---- *)
Lemma mono_nonvacuous_proof :
  let E := fz_env mono_co scheme_default (mono_o true) true false 8 in
  let p := mkFzPat [97; 98] 0 in                            (* ab *)
  let p1 := mkFzPat [97; 98; 99] 0 in                       (* abc *)
  let p2 := mkFzPat [39; 97; 98; 67] 0 in                   (* 'abC : an exact, case-sensitive term *)
  let x := mk_item 7 [120; 97; 98; 67; 120] eq_refl in      (* xabCx *)
  fold_laws mono_co /\ matchers_decide mono_co scheme_default /\
  sub_query E p1 p /\ sub_query E p2 p /\
  e_cacheable E p2 = false /\ e_ckey E p2 = [97; 98; 67] /\
  e_matchf E p2 x <> None /\ e_matchf E p1 x <> None /\ e_matchf E p x <> None.
Proof.
  cbv zeta. split; [exact mono_co_laws|]. split; [exact mono_md|].
  split; [|split].
  - split; [reflexivity|]. split; [vm_compute; reflexivity|]. exists 1%nat. vm_compute. split; [lia|]. split; [lia|]. now left.
  - split; [reflexivity|]. split; [vm_compute; reflexivity|]. exists 1%nat. vm_compute. split; [lia|]. split; [lia|]. now left.
  - split; [vm_compute; reflexivity|]. split; [vm_compute; reflexivity|].
    split; [vm_compute; discriminate|]. split; vm_compute; discriminate.
Qed.

Lemma keydet_nonvacuous_proof :
  let E := fz_env mono_co scheme_default (mono_o true) true false 8 in
  let p1 := mkFzPat [97; 98; 32; 99] 0 in                   (* "ab c" *)
  let p2 := mkFzPat [32; 97; 98; 32; 32; 99; 32] 0 in       (* " ab  c " *)
  let x := mk_item 7 [99; 97; 120; 98] eq_refl in           (* caxb *)
  e_pgen E p1 = e_pgen E p2 /\ e_cacheable E p1 = true /\ e_cacheable E p2 = true /\
  e_ckey E p1 = [97; 98; 9; 99] /\ e_ckey E p2 = [97; 98; 9; 99] /\
  e_pkey E p1 <> e_pkey E p2 /\ e_matchf E p1 x = e_matchf E p2 x /\ e_matchf E p1 x <> None.
Proof.
  cbv zeta. repeat split; try (vm_compute; reflexivity); vm_compute; discriminate.
Qed.

(* ---- --no-extended: monotone is FALSE.  Options: +x, everything else default.
   "İ" is case-sensitive (smart case) and accent-folding (its lower-casing "i" carries no accent), but its text is
   NOT normalised (only extended-mode terms are): every İ of an item is folded to I before it is compared with
   the pattern's İ, so "İ" matches nothing.  "İé" carries an accent, is compared literally, and matches "İé".
   The key "İ" is a proper prefix of the key "İé". ---- *)
Lemma monotone_basic_refuted_proof :
  let E := fz_env mono_co scheme_default (mono_o false) true false 8 in
  let p := mkFzPat [304] 0 in
  let p' := mkFzPat [304; 233] 0 in
  let x := mk_item 0 [304; 233] eq_refl in
  fold_laws mono_co /\ matchers_decide mono_co scheme_default /\
  sub_query E p' p /\ e_matchf E p' x <> None /\ e_matchf E p x = None /\ ~ monotone E.
Proof.
  cbv zeta. split; [exact mono_co_laws|]. split; [exact mono_md|].
  assert (HS : sub_query (fz_env mono_co scheme_default (mono_o false) true false 8) (mkFzPat [304; 233] 0) (mkFzPat [304] 0)).
  { split; [reflexivity|]. split; [vm_compute; reflexivity|]. exists 1%nat. vm_compute. split; [lia|]. split; [lia|]. now left. }
  split; [exact HS|]. split; [vm_compute; discriminate|]. split; [vm_compute; reflexivity|].
  intro H. specialize (H _ _ (mk_item 0 [304; 233] eq_refl) HS). apply H; vm_compute; [discriminate|reflexivity].
Qed.
