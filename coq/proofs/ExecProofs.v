(* C12 proofs, second part: the executor's dialect is the one of the shell that runs the command; the export lines of
   the re-launch script hand every exportable environment entry on unchanged. *)
From Fzf Require Import Prelude ShellSpec ExecSpec PlaceholderModel PlaceholderProofs ExecModel.
Open Scope Z_scope.

(* ---------- NewExecutor ---------- *)

Lemma drop_while_head {A} (p : A -> bool) : forall l c r, drop_while p l = c :: r -> p c = false.
Proof.
  induction l as [|x l IH]; intros c r H; [discriminate|].
  cbn [drop_while] in H. destruct (p x) eqn:E; [exact (IH _ _ H)|]. inversion H; subst. exact E.
Qed.

Lemma go_space_blank c : go_space c = is_blank c.
Proof. reflexivity. Qed.

Lemma field_word_take : forall s, field_word s = take_word s.
Proof. induction s as [|c r IH]; [reflexivity|]. cbn [field_word take_word]. rewrite go_space_blank, IH. reflexivity. Qed.

Lemma drop_while_ext {A} (p q : A -> bool) : (forall x, p x = q x) -> forall l, drop_while p l = drop_while q l.
Proof. intros E. induction l as [|x l IH]; [reflexivity|]. cbn [drop_while]. rewrite E, IH. reflexivity. Qed.

(* strings.Fields: no word at all, or the first word followed by the others *)
Lemma fields_first s :
  match fields s with
  | [] => first_word s = []
  | a :: _ => a = first_word s /\ a <> []
  end.
Proof.
  unfold fields, first_word. cbn [fields_fuel].
  rewrite (drop_while_ext go_space is_blank go_space_blank).
  destruct (drop_while is_blank s) as [|c r] eqn:E; [reflexivity|].
  rewrite field_word_take. split; [reflexivity|].
  apply drop_while_head in E. cbn [take_word]. rewrite E. discriminate.
Qed.

Lemma split_on_nonempty sep : forall s cur, split_on sep s cur <> [].
Proof. induction s as [|c r IH]; intros cur; cbn [split_on]; [discriminate|]. destruct (c =? sep); [discriminate|apply IH]. Qed.

Lemma get_last_cons {A} (x : A) (l : list A) : l <> [] -> get (x :: l) (length (x :: l) - 1) = get l (length l - 1).
Proof.
  intros H. destruct l as [|y l]; [congruence|]. cbn [length]. rewrite !Nat.sub_succ, !Nat.sub_0_r. reflexivity.
Qed.

(* tokens[len(tokens)-1] of strings.Split(shell, "/") is the file name of the path *)
Lemma split_last : forall s cur,
  get (split_on 47 s cur) (length (split_on 47 s cur) - 1) = Ok (base_name_go s cur).
Proof.
  induction s as [|c r IH]; intros cur; cbn [split_on base_name_go]; [reflexivity|].
  unfold c_slash. destruct (c =? 47); [|apply IH].
  rewrite get_last_cons by apply split_on_nonempty. apply IH.
Qed.

Theorem new_executor_dialect_proof : forall env_shell with_shell,
  exists x, new_executor env_shell with_shell = Ok x /\
            x_shell x = running_shell env_shell with_shell /\
            x_fish x = runs_fish env_shell with_shell.
Proof.
  intros e w. unfold new_executor, running_shell, runs_fish, running_shell, base_name.
  pose proof (fields_first w) as F. destruct (fields w) as [|a r].
  - rewrite F. rewrite split_last. cbn [bind]. eexists. split; [reflexivity|]. cbn [x_shell x_fish]. split; reflexivity.
  - destruct F as [F1 F2]. rewrite <- F1. destruct a as [|c a']; [congruence|].
    rewrite split_last. cbn [bind]. eexists. split; [reflexivity|]. cbn [x_shell x_fish]. split; reflexivity.
Qed.

(* QuoteEntry of the executor, read by the shell that runs the command *)
Theorem executor_quote_roundtrip_proof : forall env_shell with_shell (ws : list str),
  exists x, new_executor env_shell with_shell = Ok x /\
            shell_reads env_shell with_shell (join_sp (map (quote_entry (x_fish x)) ws)) = Some ws.
Proof.
  intros e w ws. destruct (new_executor_dialect_proof e w) as [x [H1 [_ H3]]].
  exists x. split; [exact H1|]. unfold shell_reads. rewrite H3.
  destruct (runs_fish e w); [apply quote_roundtrip_fish_proof|apply quote_roundtrip_proof].
Qed.

(* ---------- runProxy ---------- *)

Lemma re_identifier_valid s : re_identifier s = valid_identifier s.
Proof. reflexivity. Qed.

Lemma shell_name_valid s : shell_name s = valid_identifier s.
Proof. reflexivity. Qed.

Lemma re_identifier_all s : re_identifier s = true -> forall c, In c s -> re_char c = true.
Proof.
  destruct s as [|a r]; [discriminate|]. cbn [re_identifier]. intros H c [<-|Hc].
  - apply andb_prop in H as [H _]. unfold re_char. rewrite H. reflexivity.
  - apply andb_prop in H as [_ H]. rewrite forallb_forall in H. apply H. exact Hc.
Qed.

(* strings.SplitN(e, "=", 2): the name before the first '=', and the value after it when there is one *)
Lemma split_n2_entry : forall s cur,
  split_n2 s cur = match entry_value s with
                   | Some v => [rev cur ++ entry_name s; v]
                   | None => [rev cur ++ entry_name s]
                   end.
Proof.
  induction s as [|c r IH]; intros cur; cbn [split_n2 entry_value entry_name]; [rewrite app_nil_r; reflexivity|].
  unfold c_eq. destruct (c =? 61); [rewrite app_nil_r; reflexivity|].
  rewrite IH. cbn [rev]. destruct (entry_value r); rewrite <- app_assoc; reflexivity.
Qed.

Lemma entry_join : forall e v, entry_value e = Some v -> entry_name e ++ 61 :: v = e.
Proof.
  induction e as [|c r IH]; intros v H; [discriminate|].
  cbn [entry_value entry_name] in *. unfold c_eq in *. destruct (Z.eqb_spec c 61) as [->|N].
  - inversion H; subst. reflexivity.
  - cbn [app]. rewrite (IH _ H). reflexivity.
Qed.

Lemma proxy_entry_exportable e : exportable e = true ->
  exists v, entry_value e = Some v /\ proxy_entry e = Ok ([export_line (entry_name e) v], false).
Proof.
  unfold exportable. destruct (entry_value e) as [v|] eqn:Ev; [|discriminate]. intros H.
  exists v. split; [reflexivity|]. unfold proxy_entry. rewrite split_n2_entry, Ev. cbn [rev app get bind].
  rewrite re_identifier_valid, <- shell_name_valid. change m_tmux_pane with s_tmux_pane. rewrite H. reflexivity.
Qed.

Lemma export_effect_line name v : valid_identifier name = true ->
  export_effect (export_line name v) = Some [name ++ 61 :: v].
Proof.
  intros H. unfold export_effect. rewrite (env_export_roundtrip_proof name v H). reflexivity.
Qed.

Lemma proxy_go_keeps : forall environ exports nb lines nb',
  proxy_exports_go environ exports nb = Ok (lines, nb') ->
  (forall l, In l exports -> In l lines) /\ (nb = true -> nb' = true) /\
  forall e x, In e environ -> proxy_entry e = Ok x -> (forall l, In l (fst x) -> In l lines) /\ (snd x = true -> nb' = true).
Proof.
  induction environ as [|e0 r IH]; intros exports nb lines nb' H; cbn [proxy_exports_go] in H.
  - inversion H; subst. repeat split; auto; intros; contradiction.
  - destruct (proxy_entry e0) as [x0|] eqn:E0; [|discriminate]. cbn [bind] in H.
    destruct (IH _ _ _ _ H) as [K1 [K2 K3]]. repeat split.
    + intros l Hl. apply K1, in_or_app. left. exact Hl.
    + intros ->. apply K2. reflexivity.
    + destruct H0 as [<-|Hin].
      * rewrite E0 in H1. inversion H1; subst. intros l Hl. apply K1, in_or_app. right. exact Hl.
      * exact (proj1 (K3 _ _ Hin H1)).
    + destruct H0 as [<-|Hin].
      * rewrite E0 in H1. inversion H1; subst. intros Hs. apply K2. rewrite Hs. apply orb_true_r.
      * exact (proj2 (K3 _ _ Hin H1)).
Qed.

(* every exportable entry NAME=value of the environment has its line in the script, and the shell reads that line as
   `export` followed by exactly the original entry: the value is cut nowhere, whatever it holds *)
Theorem relaunch_env_roundtrip_proof : forall environ lines nb,
  proxy_exports environ = Ok (lines, nb) ->
  forall e, In e environ -> exportable e = true ->
  exists l, In l lines /\ export_effect l = Some [e].
Proof.
  intros environ lines nb H e Hin Hx. unfold proxy_exports in H.
  destruct (proxy_entry_exportable e Hx) as [v [Ev Ep]].
  destruct (proxy_go_keeps _ _ _ _ _ H) as [_ [_ K3]]. destruct (K3 _ _ Hin Ep) as [K _].
  exists (export_line (entry_name e) v). split; [apply K; left; reflexivity|].
  unfold exportable in Hx. rewrite Ev in Hx. apply andb_prop in Hx as [Hn _]. rewrite shell_name_valid in Hn.
  rewrite (export_effect_line _ v Hn), (entry_join e v Ev). reflexivity.
Qed.

(* the three FZF_DEFAULT_* variables are emptied first, whatever the environment holds *)
Theorem relaunch_header_proof : forall environ lines nb,
  proxy_exports environ = Ok (lines, nb) -> forall l, In l proxy_header -> In l lines.
Proof. intros environ lines nb H. exact (proj1 (proxy_go_keeps _ _ _ _ _ H)). Qed.

Lemma strip_prefix_app : forall p s, strip_prefix p (p ++ s) = Some s.
Proof. induction p as [|a p IH]; intros s; [reflexivity|]. cbn [app strip_prefix]. rewrite Z.eqb_refl. apply IH. Qed.

(* an exported bash function BASH_FUNC_name%%=body becomes the definition `name body` followed by `export -f name`,
   and the script is given to bash *)
Theorem relaunch_bash_function_proof : forall environ lines nb name body,
  proxy_exports environ = Ok (lines, nb) ->
  (forall c, In c name -> c <> 61) ->
  In (m_bash_func ++ name ++ m_pct2 ++ 61 :: body) environ ->
  In (name ++ body) lines /\ In (m_export_f ++ name) lines /\ nb = true.
Proof.
  intros environ lines nb name body H Hname Hin. unfold proxy_exports in H.
  set (e := m_bash_func ++ name ++ m_pct2 ++ 61 :: body) in *.
  set (p0 := m_bash_func ++ name ++ m_pct2).
  assert (En : forall n r, (forall c, In c n -> c <> 61) -> entry_name (n ++ 61 :: r) = n /\ entry_value (n ++ 61 :: r) = Some r).
  { induction n as [|c n IHn]; intros r Hc; cbn [app entry_name entry_value]; unfold c_eq.
    - rewrite Z.eqb_refl. split; reflexivity.
    - destruct (Z.eqb_spec c 61) as [->|N]; [exfalso; apply (Hc 61); [left; reflexivity|reflexivity]|].
      destruct (IHn r) as [A B]; [intros c' Hc'; apply Hc; right; exact Hc'|]. rewrite A, B. split; reflexivity. }
  assert (Hp0 : forall c, In c p0 -> c <> 61).
  { intros c Hc. unfold p0 in Hc. apply in_app_or in Hc as [Hc|Hc].
    - unfold m_bash_func in Hc. cbn [In] in Hc. intros ->. repeat (destruct Hc as [Hc|Hc]; [discriminate|]). exact Hc.
    - apply in_app_or in Hc as [Hc|Hc]; [apply Hname; exact Hc|].
      unfold m_pct2 in Hc. cbn [In] in Hc. intros ->. repeat (destruct Hc as [Hc|Hc]; [discriminate|]). exact Hc. }
  assert (Ee : e = p0 ++ 61 :: body) by (unfold e, p0; rewrite <- !app_assoc; reflexivity).
  destruct (En p0 body Hp0) as [A B].
  assert (Ep : proxy_entry e = Ok ([name ++ body; m_export_f ++ name], true)).
  { unfold proxy_entry. rewrite split_n2_entry, Ee, A, B. cbn [rev app get bind].
    assert (R : re_identifier p0 = false).
    { destruct (re_identifier p0) eqn:R; [|reflexivity]. exfalso.
      assert (I : In 37 p0) by (unfold p0; apply in_or_app; right; apply in_or_app; right; left; reflexivity).
      pose proof (re_identifier_all _ R 37 I) as C. vm_compute in C. discriminate. }
    rewrite R. cbn [andb].
    assert (P : has_prefix m_bash_func p0 = true) by (unfold has_prefix, p0; rewrite strip_prefix_app; reflexivity).
    assert (S : has_suffix m_pct2 p0 = true).
    { unfold has_suffix, has_prefix, p0. rewrite !rev_app_distr, <- app_assoc, strip_prefix_app. reflexivity. }
    rewrite P, S. cbn [andb].
    assert (Sl : slice p0 10 (length p0 - 2) = Ok name).
    { unfold slice, p0. rewrite !app_length. change (length m_bash_func) with 10%nat. change (length m_pct2) with 2%nat.
      replace (10 + (length name + 2) - 2)%nat with (10 + length name)%nat by lia.
      replace (Nat.leb 10 (10 + length name)) with true by (symmetry; apply Nat.leb_le; lia).
      replace (Nat.leb (10 + length name) (10 + (length name + 2))) with true by (symmetry; apply Nat.leb_le; lia).
      cbn [andb]. replace (10 + length name - 10)%nat with (length name) by lia.
      change 10%nat with (length m_bash_func) at 1. rewrite skipn_app, skipn_all, Nat.sub_diag. cbn [skipn app].
      rewrite firstn_app, firstn_all, Nat.sub_diag. cbn [firstn]. rewrite app_nil_r. reflexivity. }
    rewrite Sl. reflexivity. }
  destruct (proxy_go_keeps _ _ _ _ _ H) as [_ [_ K3]]. destruct (K3 _ _ Hin Ep) as [K Kb]. cbn [fst snd] in *.
  repeat split; [apply K; left; reflexivity|apply K; right; left; reflexivity|apply Kb; reflexivity].
Qed.

Lemma strip_prefix_some : forall p s t, strip_prefix p s = Some t -> s = p ++ t.
Proof.
  induction p as [|a p IH]; intros s t H; cbn [strip_prefix] in H; [inversion H; reflexivity|].
  destruct s as [|b s]; [discriminate|]. destruct (Z.eqb_spec a b) as [->|N]; [|discriminate].
  cbn [app]. rewrite (IH _ _ H). reflexivity.
Qed.

(* pair[0][10 : len(pair[0])-2] is in range whenever pair[0] starts with BASH_FUNC_ and ends with %% *)
Lemma slice_bash_ok s : has_prefix m_bash_func s = true -> has_suffix m_pct2 s = true ->
  exists n, slice s 10 (length s - 2) = Ok n.
Proof.
  unfold has_prefix. destruct (strip_prefix m_bash_func s) as [t|] eqn:E; [|discriminate]. intros _.
  apply strip_prefix_some in E. subst s. destruct t as [|a [|b t]].
  - intros H. vm_compute in H. discriminate.
  - unfold has_suffix, has_prefix, m_pct2, m_bash_func. cbn [app rev strip_prefix].
    destruct (37 =? a); cbn; intros H; discriminate.
  - intros _. unfold slice. rewrite app_length. change (length m_bash_func) with 10%nat. cbn [length].
    replace (Nat.leb 10 (10 + S (S (length t)) - 2)) with true by (symmetry; apply Nat.leb_le; lia).
    replace (Nat.leb (10 + S (S (length t)) - 2) (10 + S (S (length t)))) with true by (symmetry; apply Nat.leb_le; lia).
    cbn [andb]. eexists. reflexivity.
Qed.

(* the loop never fails on an environment made of NAME=value entries ... *)
Theorem relaunch_total_proof : forall environ,
  (forall e, In e environ -> entry_value e <> None) -> exists r, proxy_exports environ = Ok r.
Proof.
  intros environ. unfold proxy_exports. generalize proxy_header, false.
  induction environ as [|e r IH]; intros exports nb Hall; cbn [proxy_exports_go]; [eexists; reflexivity|].
  assert (He : exists x, proxy_entry e = Ok x).
  { specialize (Hall e (or_introl eq_refl)). destruct (entry_value e) as [v|] eqn:Ev; [|congruence].
    unfold proxy_entry. rewrite split_n2_entry, Ev. cbn [rev app get bind].
    destruct (re_identifier (entry_name e) && negb (str_eqb (entry_name e) m_tmux_pane)); [eexists; reflexivity|].
    destruct (has_prefix m_bash_func (entry_name e)) eqn:P; [|eexists; reflexivity].
    destruct (has_suffix m_pct2 (entry_name e)) eqn:S; [|eexists; reflexivity]. cbn [andb].
    destruct (slice_bash_ok _ P S) as [n Hn]. rewrite Hn. cbn [bind]. eexists. reflexivity. }
  destruct He as [x Hx]. rewrite Hx. cbn [bind]. apply IH. intros e' He'. apply Hall. right. exact He'.
Qed.
