(* C10 proofs: the tokenizer model refines the field spec, for ALL lines, delimiters,
   ranges and matchers.  Stdlib only, no axioms. *)
From Fzf Require Import Prelude FieldSpec TokenModel.
Open Scope Z_scope.

(* ------------------------------------------------------------------------- *)
(* generic list facts                                                          *)
(* ------------------------------------------------------------------------- *)

Lemma span_app {A} (p : A -> bool) l : fst (span p l) ++ snd (span p l) = l.
Proof.
  induction l as [|x t IH]; cbn; [reflexivity|].
  destruct (p x); [|reflexivity].
  destruct (span p t) as [a b]; cbn in *. now rewrite IH.
Qed.

Lemma span_length {A} (p : A -> bool) l :
  (length (fst (span p l)) + length (snd (span p l)) = length l)%nat.
Proof. rewrite <- (span_app p l) at 3. now rewrite app_length. Qed.

Lemma span_cons_true {A} (p : A -> bool) x t :
  p x = true -> span p (x :: t) = (x :: fst (span p t), snd (span p t)).
Proof. intro H; cbn; rewrite H. now destruct (span p t). Qed.

Lemma span_cons_false {A} (p : A -> bool) x t : p x = false -> span p (x :: t) = ([], x :: t).
Proof. intro H; cbn; now rewrite H. Qed.

Lemma get_ok {A} (l : list A) i : (i < length l)%nat -> exists x, get l i = Ok x.
Proof.
  revert i; induction l as [|a l IH]; intros i H; cbn in H; [lia|].
  destruct i; cbn; [eauto|]. apply IH; lia.
Qed.

Lemma get_err {A} (l : list A) i : (length l <= i)%nat -> get l i = Err OutOfRange.
Proof.
  revert i; induction l as [|a l IH]; intros i H; cbn in *; [now destruct i|].
  destruct i; [lia|]. apply IH; lia.
Qed.

Lemma get_skipn {A} (l : list A) i x : get l i = Ok x -> skipn i l = x :: skipn (S i) l.
Proof.
  revert i; induction l as [|a l IH]; intros i H; [destruct i; discriminate|].
  destruct i; cbn in *; [now inversion H|]. now apply IH.
Qed.

Lemma get_lt {A} (l : list A) i x : get l i = Ok x -> (i < length l)%nat.
Proof.
  revert i; induction l as [|a l IH]; intros i H; [destruct i; discriminate|].
  destruct i; cbn in *; [lia|]. apply IH in H; lia.
Qed.

Lemma get_map {A B} (f : A -> B) l i x : get l i = Ok x -> get (map f l) i = Ok (f x).
Proof.
  revert i; induction l as [|a l IH]; intros i H; [destruct i; discriminate|].
  destruct i; cbn in *; [now inversion H|]. now apply IH.
Qed.

Lemma get_firstn_skipn {A} (l : list A) i x :
  get l i = Ok x -> l = firstn i l ++ x :: skipn (S i) l.
Proof. intro H. rewrite <- (get_skipn _ _ _ H). symmetry; apply firstn_skipn. Qed.

Lemma skipn_add {A} (l : list A) : forall a b, skipn a (skipn b l) = skipn (a + b) l.
Proof.
  induction l as [|x l IH]; intros a b.
  - now rewrite !skipn_nil.
  - destruct b; [now rewrite Nat.add_0_r|].
    rewrite Nat.add_succ_r. cbn [skipn]. apply IH.
Qed.

(* ------------------------------------------------------------------------- *)
(* withPrefixLengths                                                           *)
(* ------------------------------------------------------------------------- *)

Lemma wpl_text ts b : map t_text (with_prefix_lengths ts b) = ts.
Proof. revert b; induction ts as [|t r IH]; intro b; cbn; [reflexivity|]. now rewrite IH. Qed.

Lemma wpl_prefix ts n :
  map t_prefix (with_prefix_lengths ts (Z.of_nat n)) = map Z.of_nat (offsets n ts).
Proof.
  revert n; induction ts as [|t r IH]; intro n; cbn; [reflexivity|].
  f_equal. rewrite <- Nat2Z.inj_add. apply IH.
Qed.

Lemma wpl_length ts b : length (with_prefix_lengths ts b) = length ts.
Proof. rewrite <- (wpl_text ts b) at 2. now rewrite map_length. Qed.

(* the prefix length of token k is the length of everything before field k *)
Lemma wpl_get ts n k t :
  get (with_prefix_lengths ts (Z.of_nat n)) k = Ok t ->
  t_prefix t = Z.of_nat (n + length (concat (firstn k ts))).
Proof.
  revert n k; induction ts as [|x r IH]; intros n k H; [destruct k; discriminate|].
  destruct k; cbn in H.
  - inversion H; subst; cbn. f_equal; lia.
  - rewrite <- Nat2Z.inj_add in H. apply IH in H. rewrite H. cbn [firstn concat].
    rewrite app_length. f_equal; lia.
Qed.

(* ------------------------------------------------------------------------- *)
(* AWK tokenizer = awk_fields                                                  *)
(* ------------------------------------------------------------------------- *)

Definition awk_rest (s : str) : list str := awk_fields_from (length s) s.

Lemma awk_step_shrinks c t :
  (length (snd (span is_blank (snd (span non_blank (c :: t))))) < length (c :: t))%nat.
Proof.
  destruct (non_blank c) eqn:Hc.
  - rewrite (span_cons_true _ _ _ Hc); cbn [snd].
    pose proof (span_length is_blank (snd (span non_blank t))).
    pose proof (span_length non_blank t). cbn [length]. lia.
  - rewrite (span_cons_false _ _ _ Hc); cbn [snd].
    assert (Hb : is_blank c = true) by (unfold non_blank in Hc; now destruct (is_blank c)).
    rewrite (span_cons_true _ _ _ Hb); cbn [snd].
    pose proof (span_length is_blank t). cbn [length]. lia.
Qed.

Lemma awk_fields_from_enough f1 : forall f2 s,
  (length s <= f1)%nat -> (length s <= f2)%nat -> awk_fields_from f1 s = awk_fields_from f2 s.
Proof.
  induction f1 as [|k1 IH]; intros f2 s H1 H2.
  - destruct s; [|cbn in H1; lia]. now destruct f2.
  - destruct s as [|c t]; [now destruct f2|].
    destruct f2 as [|k2]; [cbn in H2; lia|].
    cbn [awk_fields_from].
    pose proof (awk_step_shrinks c t) as Hs.
    destruct (span non_blank (c :: t)) as [w r1]; cbn [snd] in Hs.
    destruct (span is_blank r1) as [b r2]; cbn [snd] in Hs.
    f_equal. apply IH; cbn [length] in *; lia.
Qed.

Lemma awk_rest_cons c t :
  awk_rest (c :: t) =
  (fst (span non_blank (c :: t)) ++ fst (span is_blank (snd (span non_blank (c :: t)))))
    :: awk_rest (snd (span is_blank (snd (span non_blank (c :: t))))).
Proof.
  unfold awk_rest at 1. cbn [length awk_fields_from].
  pose proof (awk_step_shrinks c t) as Hs.
  destruct (span non_blank (c :: t)) as [w r1]; cbn [fst snd] in *.
  destruct (span is_blank r1) as [b r2]; cbn [fst snd] in *.
  f_equal. apply awk_fields_from_enough; cbn [length] in *; lia.
Qed.

Lemma awk_loop_black_white : forall s cur ret pl,
  awk_loop AwkBlack cur ret pl s =
    (rev ret ++ (rev cur ++ fst (span non_blank s) ++ fst (span is_blank (snd (span non_blank s))))
       :: awk_rest (snd (span is_blank (snd (span non_blank s)))), pl)
  /\
  awk_loop AwkWhite cur ret pl s =
    (rev ret ++ (rev cur ++ fst (span is_blank s)) :: awk_rest (snd (span is_blank s)), pl).
Proof.
  induction s as [|r t IH]; intros cur ret pl.
  - cbn. rewrite !app_nil_r. split; reflexivity.
  - destruct (IH (r :: cur) ret pl) as [IHB IHW].
    destruct (is_blank r) eqn:Hr.
    + assert (Hn : non_blank r = false) by (unfold non_blank; now rewrite Hr).
      split.
      * cbn [awk_loop]. rewrite Hr, IHW.
        rewrite (span_cons_false _ _ _ Hn); cbn [fst snd].
        rewrite (span_cons_true _ _ _ Hr); cbn [fst snd].
        cbn [rev]. now rewrite <- !app_assoc.
      * cbn [awk_loop]. rewrite Hr, IHW.
        rewrite (span_cons_true _ _ _ Hr); cbn [fst snd].
        cbn [rev]. now rewrite <- !app_assoc.
    + assert (Hn : non_blank r = true) by (unfold non_blank; now rewrite Hr).
      split.
      * cbn [awk_loop]. rewrite Hr, IHB.
        rewrite (span_cons_true _ _ _ Hn); cbn [fst snd].
        cbn [rev]. now rewrite <- !app_assoc.
      * cbn [awk_loop]. rewrite Hr.
        destruct (IH [r] (rev cur :: ret) pl) as [IHB' _]. rewrite IHB'.
        rewrite (span_cons_false _ _ _ Hr); cbn [fst snd].
        rewrite awk_rest_cons.
        rewrite (span_cons_true _ _ _ Hn); cbn [fst snd].
        cbn [rev]. rewrite app_nil_r. rewrite <- !app_assoc. reflexivity.
Qed.

Lemma awk_loop_nil : forall s pl,
  awk_loop AwkNil [] [] pl s =
    (awk_rest (snd (span is_blank s)), pl + Z.of_nat (length (fst (span is_blank s)))).
Proof.
  induction s as [|r t IH]; intro pl.
  - cbn. f_equal. lia.
  - destruct (is_blank r) eqn:Hr.
    + cbn [awk_loop]. rewrite Hr, IH.
      rewrite (span_cons_true _ _ _ Hr); cbn [fst snd length]. f_equal. lia.
    + assert (Hn : non_blank r = true) by (unfold non_blank; now rewrite Hr).
      cbn [awk_loop]. rewrite Hr.
      destruct (awk_loop_black_white t [r] [] pl) as [HB _]. rewrite HB.
      rewrite (span_cons_false _ _ _ Hr); cbn [fst snd length].
      rewrite awk_rest_cons.
      rewrite (span_cons_true _ _ _ Hn); cbn [fst snd].
      cbn. f_equal. lia.
Qed.

(* the 3-state machine computes exactly the documented AWK fields *)
Lemma awk_tokenizer_spec line :
  awk_tokenizer line = (awk_fields line, Z.of_nat (length (awk_lead line))).
Proof. unfold awk_tokenizer. rewrite awk_loop_nil. reflexivity. Qed.

Lemma awk_fields_from_concat fuel : forall s, (length s <= fuel)%nat -> concat (awk_fields_from fuel s) = s.
Proof.
  induction fuel as [|k IH]; intros s H.
  - destruct s; [reflexivity|cbn in H; lia].
  - destruct s as [|c t]; [reflexivity|].
    cbn [awk_fields_from].
    pose proof (awk_step_shrinks c t) as Hs.
    pose proof (span_app non_blank (c :: t)) as H1.
    destruct (span non_blank (c :: t)) as [w r1]; cbn [fst snd] in *.
    pose proof (span_app is_blank r1) as H2.
    destruct (span is_blank r1) as [b r2]; cbn [fst snd] in *.
    cbn [concat]. rewrite IH by (cbn [length] in *; lia).
    rewrite <- app_assoc, H2. exact H1.
Qed.

Lemma awk_partition line : awk_lead line ++ concat (awk_fields line) = line.
Proof.
  unfold awk_lead, awk_fields. rewrite awk_fields_from_concat by lia. apply span_app.
Qed.

(* ------------------------------------------------------------------------- *)
(* literal delimiter                                                           *)
(* ------------------------------------------------------------------------- *)

Lemma split_after_go_concat sep : forall s skip cur,
  concat (split_after_go sep skip cur s) = rev cur ++ s.
Proof.
  induction s as [|c t IH]; intros skip cur.
  - cbn. rewrite ?app_nil_r. reflexivity.
  - cbn [split_after_go].
    assert (Hemit : concat (rev (c :: cur) :: split_after_go sep 0 [] t) = rev cur ++ c :: t).
    { cbn [concat]. rewrite IH. cbn. now rewrite <- app_assoc. }
    assert (Hkeep : forall k, concat (split_after_go sep k (c :: cur) t) = rev cur ++ c :: t).
    { intro k. rewrite IH. cbn. now rewrite <- app_assoc. }
    destruct skip as [|[|k]].
    + destruct (is_prefix sep (c :: t)).
      * destruct (length sep) as [|[|n]]; [apply Hkeep|exact Hemit|apply Hkeep].
      * apply Hkeep.
    + exact Hemit.
    + apply Hkeep.
Qed.

Lemma split_after_concat sep line : concat (split_after sep line) = line.
Proof.
  unfold split_after. destruct sep.
  - induction line as [|c t IH]; cbn; [reflexivity|]. now rewrite IH.
  - now rewrite split_after_go_concat.
Qed.

(* ------------------------------------------------------------------------- *)
(* regular-expression delimiter (locations are an input)                       *)
(* ------------------------------------------------------------------------- *)

Lemma slice_ok s b e : (b <= e)%nat -> (e <= length s)%nat -> slice s b e = Ok (firstn (e - b) (skipn b s)).
Proof.
  intros H1 H2. unfold slice.
  destruct (Nat.leb_spec b e); [|lia]. destruct (Nat.leb_spec e (length s)); [|lia]. reflexivity.
Qed.

Lemma regex_tokens_spec text : forall locs begin,
  locs_wf begin (length text) locs ->
  regex_tokens text begin locs = Ok (split_by_from begin locs text) /\
  concat (split_by_from begin locs text) = skipn begin text.
Proof.
  induction locs as [|[s e] r IH]; intros begin Hwf.
  - cbn [regex_tokens]. destruct (Nat.ltb_spec begin (length text)) as [Hlt|Hge].
    + rewrite slice_ok by lia. cbn [bind concat split_by_from].
      rewrite firstn_all2 by (rewrite skipn_length; lia).
      destruct (Nat.ltb_spec begin (length text)); [|lia].
      cbn [concat]. rewrite app_nil_r. split; reflexivity.
    + cbn [split_by_from]. destruct (Nat.ltb_spec begin (length text)); [lia|].
      cbn. rewrite skipn_all2 by lia. split; reflexivity.
  - cbn in Hwf. destruct Hwf as [[H1 [H2 H3]] Hr].
    destruct (IH e Hr) as [IH1 IH2].
    cbn [regex_tokens split_by_from]. rewrite slice_ok by lia. cbn [bind]. rewrite IH1. cbn [bind].
    split; [reflexivity|].
    cbn [concat]. rewrite IH2.
    replace e with ((e - begin) + begin)%nat at 2 by lia.
    rewrite <- skipn_add. apply firstn_skipn.
Qed.

(* ------------------------------------------------------------------------- *)
(* Tokenize                                                                    *)
(* ------------------------------------------------------------------------- *)

(* what Go's regexp engine guarantees about FindAllStringIndex *)
Definition delim_wf (d : delimiter) : Prop :=
  match d with
  | DRegex rx => forall s, locs_wf 0 (length s) (rx s)
  | _ => True
  end.

(* the documented fields of a line, per delimiter kind *)
Definition spec_lead (d : delimiter) (line : str) : str :=
  match d with DAwk => awk_lead line | _ => [] end.
Definition spec_fields (d : delimiter) (line : str) : list str :=
  match d with
  | DAwk => awk_fields line
  | DStr sep => split_after sep line
  | DRegex rx => split_by (rx line) line
  end.

Lemma tokenize_spec line d : delim_wf d ->
  tokenize line d =
    Ok (with_prefix_lengths (spec_fields d line) (Z.of_nat (length (spec_lead d line)))).
Proof.
  intro Hwf. destruct d as [|sep|rx]; cbn [tokenize spec_fields spec_lead].
  - rewrite awk_tokenizer_spec. reflexivity.
  - reflexivity.
  - destruct (regex_tokens_spec line (rx line) 0%nat (Hwf line)) as [H _].
    rewrite H. reflexivity.
Qed.

Lemma spec_partition line d : delim_wf d ->
  spec_lead d line ++ concat (spec_fields d line) = line.
Proof.
  intro Hwf. destruct d as [|sep|rx]; cbn [spec_fields spec_lead].
  - apply awk_partition.
  - apply split_after_concat.
  - destruct (regex_tokens_spec line (rx line) 0%nat (Hwf line)) as [_ H]. exact H.
Qed.

Theorem tokens_partition_proof : forall line d toks,
  delim_wf d -> tokenize line d = Ok toks ->
  map t_text toks = spec_fields d line /\
  spec_lead d line ++ concat (map t_text toks) = line /\
  map t_prefix toks = map Z.of_nat (offsets (length (spec_lead d line)) (map t_text toks)).
Proof.
  intros line d toks Hwf H. rewrite (tokenize_spec line d Hwf) in H. inversion H; subst; clear H.
  rewrite wpl_text. split; [reflexivity|]. split.
  - now apply spec_partition.
  - apply wpl_prefix.
Qed.

Theorem tokenize_total_proof : forall line d, delim_wf d -> exists toks, tokenize line d = Ok toks.
Proof. intros line d Hwf. rewrite (tokenize_spec line d Hwf). eauto. Qed.

(* the boolean form evaluated by the harness on the implementation's output *)
Lemma nat_list_eqb_refl l : nat_list_eqb l l = true.
Proof. induction l; cbn; [reflexivity|]. now rewrite Nat.eqb_refl. Qed.

Theorem partition_ok_proof : forall line d toks,
  delim_wf d -> tokenize line d = Ok toks ->
  partition_ok line (spec_lead d line) (map t_text toks) (map Z.to_nat (map t_prefix toks)) = true.
Proof.
  intros line d toks Hwf H. destruct (tokens_partition_proof line d toks Hwf H) as [_ [H2 H3]].
  unfold partition_ok. rewrite H2, H3.
  assert (Hs : str_eqb line line = true) by now apply str_eqb_eq. rewrite Hs. cbn [andb].
  rewrite map_map. rewrite (map_ext _ (fun x => x)) by (intro; apply Nat2Z.id). rewrite map_id.
  apply nat_list_eqb_refl.
Qed.

(* ------------------------------------------------------------------------- *)
(* Transform = select_fields                                                   *)
(* ------------------------------------------------------------------------- *)

(* what a Go Range{begin,end} (0 = ellipsis) means as a field index expression *)
Definition range_expr (r : range) : fexpr :=
  let (b, e) := r in
  if b =? e then (if b =? 0 then FRange None None else FIdx b)
  else FRange (if b =? 0 then None else Some b) (if e =? 0 then None else Some e).

Definition pick_prefix (toks : list token) (k : nat) : Z :=
  match get toks k with Ok t0 => t_prefix t0 | Err _ => 0 end.

Lemma collect_spec toks e : forall fuel idx, fuel = Z.to_nat (e - idx + 1) ->
  collect toks (Z.of_nat (length toks)) fuel idx e =
  Ok (map t_text (firstn (Z.to_nat (Z.min (Z.of_nat (length toks)) e + 1 - Z.max 1 idx))
                         (skipn (Z.to_nat (Z.max 1 idx - 1)) toks))).
Proof.
  set (n := Z.of_nat (length toks)).
  induction fuel as [|k IH]; intros idx Hf; cbn [collect].
  - destruct (Z.leb_spec idx e); [lia|].
    replace (Z.to_nat (Z.min n e + 1 - Z.max 1 idx)) with 0%nat by lia. reflexivity.
  - destruct (Z.leb_spec idx e); [|lia].
    destruct ((1 <=? idx) && (idx <=? n)) eqn:Hin.
    + apply andb_true_iff in Hin as [H1 H2]. apply Z.leb_le in H1. apply Z.leb_le in H2.
      destruct (get_ok toks (Z.to_nat (idx - 1))) as [t Ht]; [unfold n in *; lia|].
      rewrite Ht. cbn [bind]. rewrite IH by lia. cbn [bind]. f_equal.
      replace (Z.max 1 idx) with idx by lia. replace (Z.max 1 (idx + 1)) with (idx + 1) by lia.
      rewrite (get_skipn _ _ _ Ht).
      replace (Z.to_nat (idx + 1 - 1)) with (S (Z.to_nat (idx - 1))) by lia.
      replace (Z.to_nat (Z.min n e + 1 - idx)) with (S (Z.to_nat (Z.min n e + 1 - (idx + 1)))) by lia.
      reflexivity.
    + rewrite IH by lia. f_equal. f_equal.
      apply andb_false_iff in Hin. destruct Hin as [H1|H1]; apply Z.leb_gt in H1.
      * replace (Z.max 1 (idx + 1)) with 1 by lia. replace (Z.max 1 idx) with 1 by lia. reflexivity.
      * replace (Z.to_nat (Z.min n e + 1 - Z.max 1 (idx + 1))) with 0%nat by lia.
        replace (Z.to_nat (Z.min n e + 1 - Z.max 1 idx)) with 0%nat by lia. reflexivity.
Qed.

Lemma transform_finish toks parts min_idx lo hi :
  concat parts = join_tokens (firstn (Z.to_nat (hi + 1 - lo)) (skipn (Z.to_nat (lo - 1)) toks)) ->
  0 <= min_idx -> Z.to_nat min_idx = Z.to_nat (lo - 1) ->
  (do pl <- (if min_idx <? Z.of_nat (length toks)
             then do t <- get toks (Z.to_nat min_idx); Ok (t_prefix t) else Ok 0);
   Ok (mkTok (concat parts) pl)) =
  Ok (mkTok (join_tokens (firstn (Z.to_nat (hi + 1 - lo)) (skipn (Z.to_nat (lo - 1)) toks)))
            (pick_prefix toks (Z.to_nat (lo - 1)))).
Proof.
  intros Hp H0 Hm. rewrite Hp. unfold pick_prefix. rewrite <- Hm.
  destruct (Z.ltb_spec min_idx (Z.of_nat (length toks))) as [Hlt|Hge].
  - destruct (get_ok toks (Z.to_nat min_idx)) as [t Ht]; [lia|]. rewrite Ht. reflexivity.
  - rewrite get_err by lia. reflexivity.
Qed.

Lemma transform_one_spec toks r :
  transform_one toks r =
  Ok (mkTok (join_tokens (select_fields (range_expr r) toks))
            (pick_prefix toks (select_first (range_expr r) (length toks)))).
Proof.
  destruct r as [rb re]. unfold transform_one, select_fields, select_first, range_expr.
  set (n := Z.of_nat (length toks)).
  destruct (Z.eqb_spec rb re) as [Heq|Hne].
  - subst re. destruct (Z.eqb_spec rb 0) as [Hz|Hnz].
    + (* .. : everything *)
      cbn [bind sel_bounds fst].
      replace (Z.max 1 1) with 1 by lia. replace (Z.min n n) with n by lia.
      apply (transform_finish toks [join_tokens toks] 0 1 n); [|lia|reflexivity].
      replace (Z.to_nat (n + 1 - 1)) with (length toks) by (unfold n; lia).
      change (Z.to_nat (1 - 1)) with 0%nat. cbn [skipn concat].
      rewrite firstn_all. apply app_nil_r.
    + (* N / -N : one field *)
      cbn [sel_bounds]. unfold resolve, adj.
      set (k := if rb <? 0 then rb + n + 1 else rb).
      destruct ((1 <=? k) && (k <=? n)) eqn:Hin.
      * apply andb_true_iff in Hin as [H1 H2]. apply Z.leb_le in H1. apply Z.leb_le in H2.
        destruct (get_ok toks (Z.to_nat (k - 1))) as [t Ht]; [unfold n in *; lia|].
        rewrite Ht. cbn [bind fst].
        apply (transform_finish toks [t_text t] (k - 1) k k); [|lia|reflexivity].
        rewrite (get_skipn _ _ _ Ht). replace (Z.to_nat (k + 1 - k)) with 1%nat by lia.
        reflexivity.
      * cbn [bind fst].
        apply (transform_finish toks [] 0 1 0); [|lia|reflexivity].
        reflexivity.
  - (* ranges *)
    assert (Hc : forall b e, 
      (do pm <- (do parts <- collect toks n (Z.to_nat (e - b + 1)) b e; Ok (parts, Z.max 0 (b - 1)));
       let '(parts, min_idx) := pm in
       do pl <- (if min_idx <? n then do t <- get toks (Z.to_nat min_idx); Ok (t_prefix t) else Ok 0);
       Ok (mkTok (concat parts) pl)) =
      Ok (mkTok (join_tokens (firstn (Z.to_nat (Z.min n e + 1 - Z.max 1 b)) (skipn (Z.to_nat (Z.max 1 b - 1)) toks)))
                (pick_prefix toks (Z.to_nat (Z.max 1 b - 1))))).
    { intros b e. unfold n. rewrite collect_spec by reflexivity. cbn [bind].
      apply transform_finish; [reflexivity|lia|lia]. }
    unfold resolve, adj in *.
    destruct (Z.eqb_spec rb 0) as [Hb|Hb]; [|destruct (Z.eqb_spec re 0) as [He|He]].
    + (* ..B *)
      destruct (Z.eqb_spec re 0) as [He|He]; [lia|].
      cbn [sel_bounds fst]. rewrite Hc. reflexivity.
    + (* A.. *)
      cbn [sel_bounds fst]. rewrite Hc. reflexivity.
    + (* A..B *)
      cbn [sel_bounds fst]. rewrite Hc. reflexivity.
Qed.

Lemma select_fields_map {A B} (f : A -> B) e l :
  select_fields e (map f l) = map f (select_fields e l).
Proof.
  unfold select_fields. rewrite map_length. destruct (sel_bounds e (Z.of_nat (length l))) as [lo hi].
  now rewrite skipn_map, firstn_map.
Qed.

Lemma select_first_lt {A} e (l : list A) :
  select_fields e l <> [] -> (select_first e (length l) < length l)%nat.
Proof.
  unfold select_fields, select_first. destruct (sel_bounds e (Z.of_nat (length l))) as [lo hi]. cbn [fst].
  intro H. destruct (Nat.lt_ge_cases (Z.to_nat (lo - 1)) (length l)) as [|Hge]; [assumption|].
  rewrite (skipn_all2 l Hge) in H. rewrite firstn_nil in H. congruence.
Qed.

(* Transform on ANY token list: never fails; the text is the concatenation of the
   selected tokens; prefixLength is that of the first selected token *)
Theorem transform_selects_proof : forall toks r,
  exists tk, transform_one toks r = Ok tk /\
    t_text tk = select_text (range_expr r) (map t_text toks) /\
    (select_fields (range_expr r) toks <> [] ->
     exists t0, get toks (select_first (range_expr r) (length toks)) = Ok t0 /\ t_prefix tk = t_prefix t0).
Proof.
  intros toks r. rewrite transform_one_spec. eexists; split; [reflexivity|]. cbn [t_text t_prefix]. split.
  - unfold select_text, join_tokens. now rewrite select_fields_map.
  - intro Hne. destruct (get_ok toks _ (select_first_lt _ _ Hne)) as [t0 Ht0].
    exists t0. split; [exact Ht0|]. unfold pick_prefix. now rewrite Ht0.
Qed.

(* ... and on the tokens of a line: the selected text of the documented fields, starting at the
   offset of the first selected field in the line *)
Theorem transform_selects_line_proof : forall line d toks r,
  delim_wf d -> tokenize line d = Ok toks ->
  exists tk, transform_one toks r = Ok tk /\
    t_text tk = select_text (range_expr r) (spec_fields d line) /\
    (select_fields (range_expr r) (spec_fields d line) <> [] ->
     t_prefix tk = Z.of_nat (select_start (range_expr r) (length (spec_lead d line)) (spec_fields d line))).
Proof.
  intros line d toks r Hwf Htok.
  rewrite (tokenize_spec line d Hwf) in Htok. inversion Htok; subst toks; clear Htok.
  destruct (transform_selects_proof (with_prefix_lengths (spec_fields d line) (Z.of_nat (length (spec_lead d line)))) r)
    as [tk [H1 [H2 H3]]].
  exists tk. split; [exact H1|]. rewrite wpl_text in H2. split; [exact H2|].
  intro Hne.
  assert (Hne' : select_fields (range_expr r)
            (with_prefix_lengths (spec_fields d line) (Z.of_nat (length (spec_lead d line)))) <> []).
  { intro Hc. apply Hne. rewrite <- (wpl_text (spec_fields d line) (Z.of_nat (length (spec_lead d line)))).
    rewrite select_fields_map, Hc. reflexivity. }
  destruct (H3 Hne') as [t0 [Hg Hp]]. rewrite Hp. rewrite wpl_length in Hg.
  rewrite (wpl_get _ _ _ _ Hg). reflexivity.
Qed.

Lemma transform_total toks : forall rs,
  exists ts, transform toks rs = Ok ts /\ Forall2 (fun r tk => transform_one toks r = Ok tk) rs ts.
Proof.
  induction rs as [|r rs [ts [IH1 IH2]]]; cbn [transform].
  - exists []. split; [reflexivity|constructor].
  - destruct (transform_selects_proof toks r) as [tk [H1 _]]. rewrite H1, IH1. cbn [bind].
    exists (tk :: ts). split; [reflexivity|]. now constructor.
Qed.

(* ------------------------------------------------------------------------- *)
(* a token is a substring of the line at its prefix length                     *)
(* ------------------------------------------------------------------------- *)

Definition tok_sub (line : str) (tk : token) : Prop :=
  0 <= t_prefix tk /\
  firstn (length (t_text tk)) (skipn (Z.to_nat (t_prefix tk)) line) = t_text tk.

Lemma firstn_app_exact {A} (a b : list A) : firstn (length a) (a ++ b) = a.
Proof. induction a; cbn; [reflexivity|]. now f_equal. Qed.
Lemma skipn_app_exact {A} (a b : list A) : skipn (length a) (a ++ b) = b.
Proof. induction a; cbn; [reflexivity|]. assumption. Qed.

Lemma firstn_prefix {A} n (l a b : list A) : firstn n l = a ++ b -> firstn (length a) l = a.
Proof.
  intro H. assert (Hl : (length a <= n)%nat).
  { pose proof (firstn_le_length n l) as Hle. rewrite H, app_length in Hle. lia. }
  rewrite <- (Nat.min_l _ _ Hl), <- firstn_firstn, H. apply firstn_app_exact.
Qed.

Lemma tok_sub_prefix line text text' x p :
  tok_sub line (mkTok text p) -> text = text' ++ x -> tok_sub line (mkTok text' p).
Proof.
  intros [H0 H1] Hx. cbn [t_text t_prefix] in *. split; [exact H0|].
  rewrite Hx in H1. exact (firstn_prefix _ _ _ _ H1).
Qed.

Lemma nth_error_skipn {A} (l : list A) : forall p i, nth_error (skipn p l) i = nth_error l (p + i).
Proof.
  induction l as [|x l IH]; intros p i.
  - rewrite skipn_nil. now destruct i, p.
  - destruct p; [reflexivity|]. cbn. apply IH.
Qed.

Lemma nth_error_firstn_lt {A} (l : list A) : forall n i, (i < n)%nat -> nth_error (firstn n l) i = nth_error l i.
Proof.
  induction l as [|x l IH]; intros n i H.
  - now rewrite firstn_nil.
  - destruct n; [lia|]. destruct i; [reflexivity|]. cbn. apply IH. lia.
Qed.

Lemma tok_sub_nth_error line tk : tok_sub line tk ->
  forall i, (i < length (t_text tk))%nat ->
  nth_error line (Z.to_nat (t_prefix tk) + i) = nth_error (t_text tk) i.
Proof.
  intros [_ H] i Hi.
  transitivity (nth_error (firstn (length (t_text tk)) (skipn (Z.to_nat (t_prefix tk)) line)) i);
    [|now rewrite H].
  rewrite nth_error_firstn_lt by exact Hi. now rewrite nth_error_skipn.
Qed.

Lemma sub_at_select (lead : str) (fields : list str) k m :
  firstn (length (concat (firstn m (skipn k fields))))
         (skipn (length lead + length (concat (firstn k fields))) (lead ++ concat fields))
  = concat (firstn m (skipn k fields)).
Proof.
  assert (H : concat fields = concat (firstn k fields) ++ concat (firstn m (skipn k fields)) ++
                              concat (skipn m (skipn k fields))).
  { rewrite <- !concat_app. f_equal. rewrite firstn_skipn. symmetry; apply firstn_skipn. }
  rewrite H.
  generalize (concat (firstn k fields)) (concat (firstn m (skipn k fields))) (concat (skipn m (skipn k fields))).
  intros a s r. rewrite app_assoc, <- app_length. rewrite skipn_app_exact. apply firstn_app_exact.
Qed.

(* the token Transform builds from the tokens of a line lies in the line at its prefixLength *)
Lemma transform_tok_sub line d toks r tk :
  delim_wf d -> tokenize line d = Ok toks -> transform_one toks r = Ok tk -> tok_sub line tk.
Proof.
  intros Hwf Htok Htr.
  destruct (transform_selects_line_proof line d toks r Hwf Htok) as [tk' [H1 [H2 H3]]].
  rewrite Htr in H1. inversion H1; subst tk'; clear H1.
  pose proof (spec_partition line d Hwf) as Hpart.
  set (e := range_expr r) in *. set (fields := spec_fields d line) in *. set (lead := spec_lead d line) in *.
  destruct (select_fields e fields) as [|f0 fs] eqn:Hsel.
  - (* nothing selected: empty text *)
    assert (Ht : t_text tk = []) by (rewrite H2; unfold select_text; now rewrite Hsel).
    split.
    + rewrite (tokenize_spec line d Hwf) in Htok. inversion Htok; subst toks; clear Htok.
      rewrite transform_one_spec in Htr. inversion Htr; subst tk; clear Htr. cbn [t_prefix].
      unfold pick_prefix. destruct (get _ _) as [t0|] eqn:Hg; [|lia].
      rewrite (wpl_get _ _ _ _ Hg). lia.
    + rewrite Ht. reflexivity.
  - assert (Hne : f0 :: fs <> []) by discriminate.
    specialize (H3 Hne). split; [rewrite H3; lia|].
    rewrite H3, Nat2Z.id, H2. unfold select_start, select_text.
    rewrite <- Hpart. unfold select_fields, select_first.
    destruct (sel_bounds e (Z.of_nat (length fields))) as [lo hi]. cbn [fst].
    apply sub_at_select.
Qed.

(* ------------------------------------------------------------------------- *)
(* StripLastDelimiter keeps a prefix and never fails                           *)
(* ------------------------------------------------------------------------- *)

Lemma drop_while_suffix {A} (p : A -> bool) l : exists a, l = a ++ drop_while p l.
Proof.
  induction l as [|x l [a IH]]; cbn; [now exists []|].
  destruct (p x); [|now exists []]. exists (x :: a). cbn. now f_equal.
Qed.

Lemma trim_right_prefix p s : exists x, s = trim_right p s ++ x.
Proof.
  unfold trim_right. destruct (drop_while_suffix p (rev s)) as [a Ha].
  exists (rev a). rewrite <- rev_app_distr, <- Ha. symmetry; apply rev_involutive.
Qed.

Lemma trim_suffix_prefix s suf : exists x, s = trim_suffix s suf ++ x.
Proof.
  unfold trim_suffix. destruct (has_suffix suf s).
  - eexists. symmetry; apply firstn_skipn.
  - exists []. now rewrite app_nil_r.
Qed.

Lemma locs_wf_in len : forall locs begin b e,
  locs_wf begin len locs -> In (b, e) locs -> (b <= e /\ e <= len)%nat.
Proof.
  induction locs as [|[s0 e0] r IH]; intros begin b e Hwf Hin; [contradiction|].
  cbn in Hwf. destruct Hwf as [[H1 [H2 H3]] Hr]. destruct Hin as [Heq|Hin].
  - inversion Heq; subst. lia.
  - eapply IH; eassumption.
Qed.

Lemma strip_last_delimiter_spec s d : delim_wf d ->
  exists s', strip_last_delimiter s d = Ok s' /\ exists x, s = s' ++ x.
Proof.
  intro Hwf. unfold strip_last_delimiter.
  assert (Hfin : forall s1 x1, s = s1 ++ x1 ->
            exists s', (do s1' <- Ok s1; Ok (trim_right is_space s1')) = Ok s' /\ exists x, s = s' ++ x).
  { intros s1 x1 H1. cbn [bind]. eexists; split; [reflexivity|].
    destruct (trim_right_prefix is_space s1) as [x2 H2]. exists (x2 ++ x1).
    rewrite app_assoc, <- H2. exact H1. }
  destruct d as [|sep|rx].
  - apply (Hfin s []). now rewrite app_nil_r.
  - destruct (trim_suffix_prefix s sep) as [x Hx]. exact (Hfin _ _ Hx).
  - cbn in Hwf. destruct (rev (rx s)) as [|[b e] rest] eqn:Hrev.
    + apply (Hfin s []). now rewrite app_nil_r.
    + destruct (Nat.eqb_spec e (length s)) as [He|He].
      * assert (Hin : In (b, e) (rx s)) by (apply in_rev; rewrite Hrev; now left).
        destruct (locs_wf_in _ _ _ _ _ (Hwf s) Hin) as [Hbe Hel].
        rewrite slice_ok by lia. rewrite Nat.sub_0_r. cbn [skipn].
        apply (Hfin (firstn b s) (skipn b s)). symmetry; apply firstn_skipn.
      * apply (Hfin s []). now rewrite app_nil_r.
Qed.

(* ------------------------------------------------------------------------- *)
(* transformInput                                                              *)
(* ------------------------------------------------------------------------- *)

Lemma map_last_forall2 {A B} (R : B -> A -> Prop) (f : A -> res A) :
  (forall r x, R r x -> exists y, f x = Ok y /\ R r y) ->
  forall rs l, Forall2 R rs l -> exists l', map_last f l = Ok l' /\ Forall2 R rs l'.
Proof.
  intros Hf rs l H. induction H as [|r x rs l Hrx Hrest [l' [IH1 IH2]]].
  - exists []. split; [reflexivity|constructor].
  - destruct l as [|x2 l2].
    + inversion Hrest; subst. destruct (Hf r x Hrx) as [y [Hy HR]].
      exists [y]. cbn. rewrite Hy. cbn. split; [reflexivity|]. constructor; [exact HR|constructor].
    + exists (x :: l'). split.
      * change (map_last f (x :: x2 :: l2)) with (do r' <- map_last f (x2 :: l2); Ok (x :: r')).
        rewrite IH1. reflexivity.
      * constructor; assumption.
Qed.

(* what the property says about one token that --nth searches in, for range r *)
Definition nth_token (line : str) (d : delimiter) (r : range) (tk : token) : Prop :=
  tok_sub line tk /\
  (exists x, select_text (range_expr r) (spec_fields d line) = t_text tk ++ x) /\
  (t_text tk <> [] ->
   t_prefix tk = Z.of_nat (select_start (range_expr r) (length (spec_lead d line)) (spec_fields d line))).

Lemma transform_input_spec line nth d : delim_wf d ->
  exists toks, transform_input line nth d = Ok toks /\ Forall2 (nth_token line d) nth toks.
Proof.
  intro Hwf. unfold transform_input.
  destruct (tokenize_total_proof line d Hwf) as [toks0 Htok]. rewrite Htok. cbn [bind].
  destruct (transform_total toks0 nth) as [ts [Htr Hall]]. rewrite Htr. cbn [bind].
  assert (Hnt : Forall2 (nth_token line d) nth ts).
  { clear Htr. induction Hall as [|r tk rs ts Hone Hrest IH]; constructor; [|exact IH].
    pose proof (transform_tok_sub line d toks0 r tk Hwf Htok Hone) as Hsub.
    destruct (transform_selects_line_proof line d toks0 r Hwf Htok) as [tk' [H1 [H2 H3]]].
    rewrite Hone in H1. inversion H1; subst tk'; clear H1.
    split; [exact Hsub|]. split.
    - exists []. now rewrite app_nil_r.
    - intro Hne. apply H3. intro Hc. apply Hne. rewrite H2. unfold select_text. now rewrite Hc. }
  destruct (is_awk d); [eauto|].
  apply map_last_forall2; [|exact Hnt].
  intros r tk [Hsub [[x Hx] Hp]].
  destruct (strip_last_delimiter_spec (t_text tk) d Hwf) as [s' [Hs' [y Hy]]].
  rewrite Hs'. cbn [bind]. eexists; split; [reflexivity|].
  split; [|split]; cbn [t_text t_prefix].
  - destruct tk as [text p]. cbn [t_text t_prefix] in *. eapply tok_sub_prefix; eassumption.
  - exists (y ++ x). rewrite app_assoc, <- Hy. exact Hx.
  - intro Hne. apply Hp. intro Hc. rewrite Hc in Hy. destruct s'; [congruence|discriminate].
Qed.

(* ------------------------------------------------------------------------- *)
(* iter: positions refer to the line                                           *)
(* ------------------------------------------------------------------------- *)

Lemma iter_some pfun : forall toks s e pos,
  iter pfun toks = Some (s, e, pos) ->
  exists tk s0 e0 pos0, In tk toks /\ pfun (t_text tk) = Some (s0, e0, pos0) /\
    s = Z.of_nat s0 + t_prefix tk /\ e = Z.of_nat e0 + t_prefix tk /\
    pos = map (fun p => Z.of_nat p + t_prefix tk) pos0.
Proof.
  induction toks as [|part rest IH]; intros s e pos H; cbn in H; [discriminate|].
  destruct (pfun (t_text part)) as [[[s0 e0] pos0]|] eqn:Hp.
  - inversion H; subst. exists part, s0, e0, pos0. repeat split; try reflexivity; [now left|exact Hp].
  - destruct (IH _ _ _ H) as [tk [s0 [e0 [pos0 [Hin Hrest]]]]].
    exists tk, s0, e0, pos0. split; [now right|exact Hrest].
Qed.

(* a match is found only if some token matches (a term can only match inside the selected fields) *)
Lemma iter_none pfun : forall toks,
  iter pfun toks = None <-> Forall (fun tk => pfun (t_text tk) = None) toks.
Proof.
  induction toks as [|part rest IH]; cbn; [split; [constructor|reflexivity]|].
  destruct (pfun (t_text part)) as [[[s0 e0] pos0]|] eqn:Hp.
  - split; [discriminate|]. intro H. inversion H; subst. congruence.
  - rewrite IH. split; intro H; [now constructor|now inversion H].
Qed.

Lemma forall2_in_r {A B} (R : A -> B -> Prop) l l' y :
  Forall2 R l l' -> In y l' -> exists x, In x l /\ R x y.
Proof.
  intro H. induction H as [|a b l l' Hab _ IH]; intro Hin; [contradiction|].
  destruct Hin as [->|Hin]; [exists a; split; [now left|exact Hab]|].
  destruct (IH Hin) as [x [Hx HR]]. exists x. split; [now right|exact HR].
Qed.

Theorem nth_positions_refer_to_line_proof :
  forall (pfun : match_fn) line nth d s e pos,
  delim_wf d -> nth_match pfun line nth d = Ok (Some (s, e, pos)) ->
  exists text p s0 e0 pos0,
    (* the matcher matched one searched text ... *)
    pfun text = Some (s0, e0, pos0) /\
    (* ... the reported offsets and positions are its own shifted by p ... *)
    s = Z.of_nat (p + s0) /\ e = Z.of_nat (p + e0) /\ pos = map (fun i => Z.of_nat (p + i)) pos0 /\
    (* ... and character i of the searched text IS character p + i of the full line *)
    (forall i, (i < length text)%nat -> nth_error line (p + i) = nth_error text i) /\
    (* with --nth the searched text lies inside the fields selected by one of the expressions *)
    (nth <> [] -> exists r x, In r nth /\
        select_text (range_expr r) (spec_fields d line) = text ++ x /\
        (text <> [] -> p = select_start (range_expr r) (length (spec_lead d line)) (spec_fields d line))).
Proof.
  intros pfun line nth d s e pos Hwf H. unfold nth_match in H.
  destruct nth as [|r0 nth'].
  - assert (Hi : iter pfun [mkTok line 0] = Some (s, e, pos)) by congruence.
    clear H. apply iter_some in Hi.
    destruct Hi as [tk [s0 [e0 [pos0 [Hin [Hp [Hs [He Hpos]]]]]]]].
    destruct Hin as [<-|[]]. cbn [t_text t_prefix] in *.
    exists line, 0%nat, s0, e0, pos0. repeat split; try assumption; try (subst; f_equal; lia).
    + subst pos. apply map_ext. intro; lia.
    + intro Hc; congruence.
  - destruct (transform_input_spec line (r0 :: nth') d Hwf) as [toks [Hti Hall]].
    rewrite Hti in H. cbn [bind] in H.
    assert (Hi : iter pfun toks = Some (s, e, pos)) by congruence.
    clear H. apply iter_some in Hi.
    destruct Hi as [tk [s0 [e0 [pos0 [Hin [Hp [Hs [He Hpos]]]]]]]].
    destruct (forall2_in_r _ _ _ _ Hall Hin) as [r [Hr [Hsub [[x Hx] Hpre]]]].
    pose proof Hsub as [H0 _].
    exists (t_text tk), (Z.to_nat (t_prefix tk)), s0, e0, pos0.
    split; [exact Hp|]. split; [lia|]. split; [lia|]. split.
    { subst pos. apply map_ext. intro; lia. }
    split; [exact (tok_sub_nth_error line tk Hsub)|].
    intros _. exists r, x. split; [exact Hr|]. split; [exact Hx|].
    intro Hne. rewrite (Hpre Hne). apply Nat2Z.id.
Qed.

(* nothing in the pipeline can fail: Tokenize, Transform, StripLastDelimiter, iter *)
Theorem nth_match_total_proof : forall (pfun : match_fn) line nth d,
  delim_wf d -> exists m, nth_match pfun line nth d = Ok m.
Proof.
  intros pfun line nth d Hwf. unfold nth_match. destruct nth as [|r0 nth']; [eauto|].
  destruct (transform_input_spec line (r0 :: nth') d Hwf) as [toks [Hti _]]. rewrite Hti. cbn. eauto.
Qed.

(* no match anywhere in the selected texts -> no match (with --nth a term cannot match elsewhere) *)
Theorem nth_confines_proof : forall (pfun : match_fn) line nth d toks,
  delim_wf d -> nth <> [] -> transform_input line nth d = Ok toks ->
  Forall2 (nth_token line d) nth toks /\
  (nth_match pfun line nth d = Ok None <-> Forall (fun tk => pfun (t_text tk) = None) toks).
Proof.
  intros pfun line nth d toks Hwf Hne Hti.
  destruct (transform_input_spec line nth d Hwf) as [toks' [Hti' Hall]].
  rewrite Hti in Hti'. inversion Hti'; subst toks'. split; [exact Hall|].
  unfold nth_match. destruct nth; [congruence|]. rewrite Hti. cbn [bind].
  rewrite <- iter_none. split; intro H; [now inversion H|now rewrite H].
Qed.

Theorem accept_nth_total_proof : forall line nth d, delim_wf d ->
  exists s, accept_nth line nth d = Ok s.
Proof.
  intros line nth d Hwf. unfold accept_nth, nth_transformer.
  destruct (tokenize_total_proof line d Hwf) as [toks Htok]. rewrite Htok. cbn [bind].
  destruct (transform_total toks nth) as [ts [Htr _]]. rewrite Htr. cbn [bind].
  destruct (strip_last_delimiter_spec (join_tokens ts) d Hwf) as [s' [Hs' _]]. eauto.
Qed.
