(* Basic facts shared by AnchoredProofs.v and ExactProofs.v: checked access, occurrences,
   cmp_at, count_while, exists_upto, and calculate_score on an exact occurrence. *)
From Fzf Require Import Prelude AlgoSpec AlgoModel.
Open Scope Z_scope.

(* ---------- checked access ---------- *)

Lemma get_nth_error {A} (l : list A) i :
  get l i = match nth_error l i with Some x => Ok x | None => Err OutOfRange end.
Proof. revert i; induction l as [|a l IH]; intros [|i]; cbn; auto. Qed.

Lemma get_nth {A} (l : list A) i d : (i < length l)%nat -> get l i = Ok (nth i l d).
Proof. revert i; induction l as [|a l IH]; intros [|i] H; cbn in *; try lia; auto. apply IH; lia. Qed.

Lemma nth_error_nth' {A} (l : list A) i d : (i < length l)%nat -> nth_error l i = Some (nth i l d).
Proof. revert i; induction l as [|a l IH]; intros [|i] H; cbn in *; try lia; auto. apply IH; lia. Qed.

Lemma nth_error_ge {A} (l : list A) i : (length l <= i)%nat -> nth_error l i = None.
Proof. intros H. now apply nth_error_None. Qed.

Lemma skipn_nth_cons {A} (l : list A) i d : (i < length l)%nat -> skipn i l = nth i l d :: skipn (S i) l.
Proof. revert i; induction l as [|a l IH]; intros [|i] H; cbn in *; try lia; auto. apply IH; lia. Qed.

Lemma nth_skipn {A} (l : list A) i k d : nth k (skipn i l) d = nth (i + k) l d.
Proof. revert i; induction l as [|a l IH]; intros [|i]; cbn; auto. now destruct k. Qed.

Lemma last_seq s m d : last (seq s (S m)) d = (s + m)%nat.
Proof.
  revert s; induction m as [|m IH]; intros s; [cbn; lia|].
  change (seq s (S (S m))) with (s :: seq (S s) (S m)).
  change (last (s :: seq (S s) (S m)) d) with (last (seq (S s) (S m)) d).
  rewrite IH. lia.
Qed.

(* ---------- exists_upto ---------- *)

Lemma exists_upto_false f n : exists_upto f n = false <-> (forall i, (i <= n)%nat -> f i = false).
Proof.
  induction n as [|n IH]; cbn.
  - split; [intros H i Hi; now replace i with 0%nat by lia|intros H; apply H; lia].
  - rewrite orb_false_iff, IH. split.
    + intros [H1 H2] i Hi. destruct (Nat.eq_dec i (S n)) as [->|Hne]; [assumption|apply H2; lia].
    + intros H; split; [apply H; lia|intros i Hi; apply H; lia].
Qed.

Lemma exists_upto_true f n : exists_upto f n = true <-> (exists i, (i <= n)%nat /\ f i = true).
Proof.
  induction n as [|n IH]; cbn.
  - split; [intros H; exists 0%nat; split; [lia|assumption]|intros [i [Hi H]]; now replace i with 0%nat in H by lia].
  - rewrite orb_true_iff, IH. split.
    + intros [H|[i [Hi H]]]; [exists (S n); split; [lia|assumption]|exists i; split; [lia|assumption]].
    + intros [i [Hi H]]. destruct (Nat.eq_dec i (S n)) as [->|Hne]; [now left|right; exists i; split; [lia|assumption]].
Qed.

(* ---------- count_while ---------- *)

Lemma count_while_le p l : (count_while p l <= length l)%nat.
Proof. induction l as [|c l IH]; cbn; [lia|]. destruct (p c); cbn; lia. Qed.

Section Basics.
Variable co : char_ops.
Variable sc : scheme.

Lemma foldm_eq_fold cs nm c : foldm co cs nm c = fold co cs nm c.
Proof. reflexivity. Qed.

Lemma leading_ws_eq text : leading_ws co text = lead_ws co text.
Proof. reflexivity. Qed.

Lemma trailing_ws_eq text : trailing_ws co text = trail_ws co text.
Proof. reflexivity. Qed.

(* ---------- occurrences ---------- *)

Lemma prefix_b_spec cs nm t pat :
  prefix_b co cs nm t pat = true <->
  ((length pat <= length t)%nat /\
   forall k, (k < length pat)%nat -> fold co cs nm (nth k t 0) = nth k pat 0).
Proof.
  revert t; induction pat as [|p pat IH]; intros t.
  - split; [intros _; cbn; split; [lia|intros k Hk; lia]|intros _; destruct t; reflexivity].
  - destruct t as [|c t].
    + cbn. split; [discriminate|intros [H _]; lia].
    + change (prefix_b co cs nm (c :: t) (p :: pat))
        with ((fold co cs nm c =? p) && prefix_b co cs nm t pat).
      rewrite andb_true_iff, Z.eqb_eq, IH. cbn [length]. split.
      * intros [H1 [H2 H3]]. split; [lia|]. intros [|k] Hk; cbn; [assumption|apply H3; lia].
      * intros [H1 H2]. split; [apply (H2 0%nat); lia|]. split; [lia|].
        intros k Hk. apply (H2 (S k)). lia.
Qed.

Lemma occurs_at_spec cs nm text pat s : pat <> [] ->
  occurs_at co cs nm text pat s = true <->
  ((s + length pat <= length text)%nat /\
   forall k, (k < length pat)%nat -> fold co cs nm (nth (s + k) text 0) = nth k pat 0).
Proof.
  intros Hne. unfold occurs_at. rewrite prefix_b_spec, skipn_length.
  assert (Hm : (0 < length pat)%nat) by (destruct pat; [congruence|cbn; lia]).
  split; intros [H1 H2]; (split; [lia|]); intros k Hk; specialize (H2 k Hk);
    rewrite nth_skipn in *; assumption.
Qed.

Lemma occurs_at_short cs nm text pat s : pat <> [] ->
  (length text < s + length pat)%nat -> occurs_at co cs nm text pat s = false.
Proof.
  intros Hne Hlt. destruct (occurs_at co cs nm text pat s) eqn:E; [|reflexivity].
  apply occurs_at_spec in E; [lia|assumption].
Qed.

Lemma cmp_at_spec cs nm text pat off : (off + length pat <= length text)%nat ->
  cmp_at co cs nm text off pat = Ok (occurs_at co cs nm text pat off).
Proof.
  revert off; induction pat as [|p pat IH]; intros off H.
  - unfold occurs_at. destruct (skipn off text); reflexivity.
  - cbn [length] in H. cbn [cmp_at]. rewrite (get_nth text off 0) by lia. cbn [bind].
    unfold occurs_at. rewrite (skipn_nth_cons text off 0) by lia.
    change (prefix_b co cs nm (nth off text 0 :: skipn (S off) text) (p :: pat))
      with ((fold co cs nm (nth off text 0) =? p) && prefix_b co cs nm (skipn (S off) text) pat).
    rewrite foldm_eq_fold. destruct (fold co cs nm (nth off text 0) =? p); [|reflexivity].
    rewrite IH by lia. reflexivity.
Qed.

(* ---------- calculate_score on an exact occurrence ---------- *)

Lemma calc_loop_occ cs nm text : forall pat idx score cons fb first pos,
  (idx + length pat <= length text)%nat ->
  prefix_b co cs nm (skipn idx text) pat = true ->
  exists ps,
    calc_loop co sc cs nm (firstn (length pat) (skipn idx text)) idx pat (class_before co sc text idx)
              score false cons fb first pos =
    Ok (align_walk co sc text idx (length pat) (seq idx (length pat)) first false cons fb score, ps).
Proof.
  induction pat as [|p pat IH]; intros idx score cons fb first pos Hlen Hocc.
  - cbn. eauto.
  - cbn [length] in *. rewrite (skipn_nth_cons text idx 0) in * by lia.
    set (c := nth idx text 0) in *.
    change (prefix_b co cs nm (c :: skipn (S idx) text) (p :: pat))
      with ((fold co cs nm c =? p) && prefix_b co cs nm (skipn (S idx) text) pat) in Hocc.
    apply andb_true_iff in Hocc as [Hc Hocc].
    cbn [firstn calc_loop seq align_walk]. rewrite foldm_eq_fold, Hc, Nat.eqb_refl.
    unfold bonus_at. rewrite (nth_error_nth' text idx 0) by lia. fold c. unfold bonus_m.
    assert (Hcb : class_before co sc text (S idx) = class_of co sc c).
    { cbn [class_before]. rewrite (nth_error_nth' text idx 0) by lia. reflexivity. }
    rewrite <- Hcb.
    set (b := bonus_for sc (class_before co sc text idx) (class_before co sc text (S idx))).
    set (fb' := if Nat.eqb cons 0 then b else if (bonusBoundary <=? b) && (fb <? b) then b else fb).
    set (b' := if Nat.eqb cons 0 then b else Z.max (Z.max b fb') bonusConsecutive).
    replace (if first then b' * 2 else b') with (if first then 2 * b' else b') by (destruct first; lia).
    apply IH; [lia|assumption].
Qed.

Lemma calc_on_occurrence cs nm text pat s : pat <> [] ->
  occurs_at co cs nm text pat s = true ->
  exists ps, calculate_score co sc cs nm text pat s (s + length pat) =
             Ok (align_score co sc text (seq s (length pat)), ps).
Proof.
  intros Hne Hocc. pose proof Hocc as Hsp. apply occurs_at_spec in Hsp as [Hlen _]; [|assumption].
  unfold calculate_score.
  assert (Hlt : Nat.ltb (length text) (s + length pat) = false) by (apply Nat.ltb_ge; lia).
  rewrite Hlt.
  replace (s + length pat - s)%nat with (length pat) by lia.
  assert (Hpc : (match s with O => Ok (s_init sc) | S j => do a <- get text j; Ok (class_of co sc a) end)
                = Ok (class_before co sc text s)).
  { destruct s as [|j]; [reflexivity|]. destruct pat as [|p pat]; [congruence|]. cbn [length] in Hlen.
    rewrite (get_nth text j 0) by lia. cbn [bind class_before].
    rewrite (nth_error_nth' text j 0) by lia. reflexivity. }
  rewrite Hpc. cbn [bind].
  destruct (calc_loop_occ cs nm text pat s 0 0%nat 0 true [] Hlen Hocc) as [ps Hps].
  exists ps. rewrite Hps. f_equal. f_equal.
  destruct pat as [|p pat]; [congruence|]. cbn [length].
  unfold align_score. rewrite last_seq. cbn [seq].
  replace (S (s + length pat) - s)%nat with (S (length pat)) by lia.
  reflexivity.
Qed.

End Basics.
