(* C02/C03, anchored kinds: PrefixMatch / SuffixMatch / EqualMatch (model) agree with
   prefix_spec / suffix_spec / equal_spec and the documented score, for all inputs. *)
From Fzf Require Import Prelude AlgoSpec AlgoModel OccursBasics.
Open Scope Z_scope.

Section Anchored.
Variable co : char_ops.
Variable sc : scheme.

Lemma rev_nonnil {A} (l : list A) : l <> [] -> rev l <> [].
Proof. intros H E. apply H. rewrite <- (rev_involutive l), E. reflexivity. Qed.

Lemma keep_eq_last_space pat :
  (match rev pat with [] => false | pl :: _ => is_space_m co pl end) = last_space co pat.
Proof. unfold last_space, head_space, is_space_m. reflexivity. Qed.

(* ---------- PrefixMatch ---------- *)

(* closed form of the model in terms of the spec *)
Lemma prefix_match_eq cs nm text pat : pat <> [] ->
  prefix_match co sc cs nm text pat =
  Ok (match prefix_spec co cs nm text pat with
      | Some s => Match s (s + length pat) (align_score co sc text (seq s (length pat))) None
      | None => NoMatch
      end).
Proof.
  intros Hne. destruct pat as [|p0 pat']; [congruence|].
  unfold prefix_match, prefix_spec.
  change (head_space co (p0 :: pat')) with (is_space co p0).
  remember (p0 :: pat') as pat eqn:Epat.
  change (is_space_m co p0) with (is_space co p0).
  change (leading_ws co text) with (lead_ws co text).
  set (s := if is_space co p0 then 0%nat else lead_ws co text).
  assert (Hs : (s <= length text)%nat).
  { subst s. destruct (is_space co p0); [lia|apply count_while_le]. }
  destruct (Nat.ltb (length text - s) (length pat)) eqn:Hlt.
  - apply Nat.ltb_lt in Hlt. rewrite (occurs_at_short co cs nm text pat s Hne); [reflexivity|].
    assert (0 < length pat)%nat by (subst pat; cbn; lia). lia.
  - apply Nat.ltb_ge in Hlt. rewrite cmp_at_spec by lia. cbn [bind].
    destruct (occurs_at co cs nm text pat s) eqn:Hocc; [|reflexivity].
    destruct (calc_on_occurrence co sc cs nm text pat s Hne Hocc) as [ps Hps].
    rewrite Hps. reflexivity.
Qed.

Theorem prefix_total_proof : forall cs nm text pat,
  exists r, prefix_match co sc cs nm text pat = Ok r.
Proof.
  intros cs nm text pat. destruct pat as [|p0 pat'] eqn:E.
  - cbn. eauto.
  - rewrite prefix_match_eq by discriminate. eauto.
Qed.

Theorem prefix_sound_complete_proof : forall cs nm text pat r,
  pat <> [] -> prefix_match co sc cs nm text pat = Ok r ->
  match r with
  | Match s e score _ =>
      prefix_spec co cs nm text pat = Some s /\ e = (s + length pat)%nat /\
      score = align_score co sc text (seq s (length pat))
  | NoMatch => prefix_spec co cs nm text pat = None
  end.
Proof.
  intros cs nm text pat r Hne H. rewrite prefix_match_eq in H by assumption.
  injection H as <-. destruct (prefix_spec co cs nm text pat); auto.
Qed.

(* ---------- SuffixMatch ---------- *)

Lemma suffix_match_eq cs nm text pat : pat <> [] ->
  suffix_match co sc cs nm text pat =
  Ok (match suffix_spec co cs nm text pat with
      | Some s => Match s (s + length pat) (align_score co sc text (seq s (length pat))) None
      | None => NoMatch
      end).
Proof.
  intros Hne. unfold suffix_match, suffix_spec. rewrite keep_eq_last_space.
  change (trailing_ws co text) with (trail_ws co text).
  set (e := if last_space co pat then length text else (length text - trail_ws co text)%nat).
  assert (He : (e <= length text)%nat) by (subst e; destruct (last_space co pat); lia).
  destruct pat as [|p0 pat']; [congruence|]. remember (p0 :: pat') as pat eqn:Epat.
  destruct (Nat.ltb e (length pat)) eqn:Hlt.
  - apply Nat.ltb_lt in Hlt. assert (Hle : Nat.leb (length pat) e = false) by (apply Nat.leb_gt; lia).
    rewrite Hle. reflexivity.
  - apply Nat.ltb_ge in Hlt. assert (Hle : Nat.leb (length pat) e = true) by (apply Nat.leb_le; lia).
    rewrite Hle. cbn [andb]. rewrite cmp_at_spec by lia. cbn [bind].
    destruct (occurs_at co cs nm text pat (e - length pat)) eqn:Hocc; [|reflexivity].
    destruct (calc_on_occurrence co sc cs nm text pat (e - length pat)%nat Hne Hocc) as [ps Hps].
    replace (e - length pat + length pat)%nat with e in * by lia.
    rewrite Hps. reflexivity.
Qed.

Theorem suffix_total_proof : forall cs nm text pat,
  exists r, suffix_match co sc cs nm text pat = Ok r.
Proof.
  intros cs nm text pat. destruct pat as [|p0 pat'] eqn:E.
  - cbn. eauto.
  - rewrite suffix_match_eq by discriminate. eauto.
Qed.

Theorem suffix_sound_complete_proof : forall cs nm text pat r,
  pat <> [] -> suffix_match co sc cs nm text pat = Ok r ->
  match r with
  | Match s e score _ =>
      suffix_spec co cs nm text pat = Some s /\ e = (s + length pat)%nat /\
      score = align_score co sc text (seq s (length pat))
  | NoMatch => suffix_spec co cs nm text pat = None
  end.
Proof.
  intros cs nm text pat r Hne H. rewrite suffix_match_eq in H by assumption.
  injection H as <-. destruct (suffix_spec co cs nm text pat); auto.
Qed.

(* ---------- EqualMatch ---------- *)

(* the normalising comparison equals the spec's occurrence test when the pattern is already normalised *)
Lemma eq_norm_spec cs text : forall pat off,
  Forall (fun p => co_norm co p = p) pat -> (off + length pat <= length text)%nat ->
  eq_norm co cs text off pat = Ok (occurs_at co cs true text pat off).
Proof.
  induction pat as [|p pat IH]; intros off Hn H.
  - unfold occurs_at. destruct (skipn off text); reflexivity.
  - cbn [length] in H. inversion Hn as [|? ? Hp Hn']; subst.
    cbn [eq_norm]. rewrite (get_nth text off 0) by lia. cbn [bind].
    unfold occurs_at. rewrite (skipn_nth_cons text off 0) by lia.
    change (prefix_b co cs true (nth off text 0 :: skipn (S off) text) (p :: pat))
      with ((fold co cs true (nth off text 0) =? p) && prefix_b co cs true (skipn (S off) text) pat).
    rewrite Hp. unfold fold. rewrite (Z.eqb_sym p).
    destruct (co_norm co (if cs then nth off text 0 else lower1 co (nth off text 0)) =? p); [|reflexivity].
    rewrite IH by (assumption || lia). reflexivity.
Qed.

Lemma equal_match_eq cs nm text pat : pat <> [] ->
  (nm = true -> Forall (fun p => co_norm co p = p) pat) ->
  equal_match co sc cs nm text pat =
  Ok (match equal_spec co cs nm text pat with
      | Some s => Match s (s + length pat) (equal_score sc (length pat)) None
      | None => NoMatch
      end).
Proof.
  intros Hne Hnorm. pose proof (keep_eq_last_space pat) as Hkeep.
  pose proof (rev_nonnil pat Hne) as Hrev.
  destruct pat as [|p0 pat']; [congruence|].
  unfold equal_match, equal_spec.
  change (head_space co (p0 :: pat')) with (is_space co p0).
  remember (p0 :: pat') as pat eqn:Epat.
  change (is_space_m co p0) with (is_space co p0).
  change (leading_ws co text) with (lead_ws co text).
  change (trailing_ws co text) with (trail_ws co text).
  set (s := if is_space co p0 then 0%nat else lead_ws co text).
  assert (Hte : (match rev pat with [] => 0%nat | pl :: _ => if is_space_m co pl then 0%nat else trail_ws co text end)
                = (if last_space co pat then 0%nat else trail_ws co text)).
  { rewrite <- Hkeep. destruct (rev pat); [congruence|reflexivity]. }
  rewrite Hte. set (te := if last_space co pat then 0%nat else trail_ws co text).
  assert (Hcond : (Z.of_nat (length text) - Z.of_nat s - Z.of_nat te =? Z.of_nat (length pat))
                  = Nat.eqb (s + length pat + te) (length text)).
  { destruct (Z.eqb_spec (Z.of_nat (length text) - Z.of_nat s - Z.of_nat te) (Z.of_nat (length pat)));
      destruct (Nat.eqb_spec (s + length pat + te) (length text)); try reflexivity; lia. }
  rewrite Hcond.
  destruct (Nat.eqb_spec (s + length pat + te) (length text)) as [Heq|Hneq]; [|reflexivity].
  cbn [negb andb].
  assert (Hcmp : (if nm then eq_norm co cs text s pat else cmp_at co cs false text s pat)
                 = Ok (occurs_at co cs nm text pat s)).
  { destruct nm; [apply eq_norm_spec; [auto|lia]|apply cmp_at_spec; lia]. }
  rewrite Hcmp. cbn [bind].
  destruct (occurs_at co cs nm text pat s); reflexivity.
Qed.

Theorem equal_total_proof : forall cs nm text pat,
  exists r, equal_match co sc cs nm text pat = Ok r.
Proof.
  (* totality holds without the normalisation hypothesis: every access is below tl + m <= n *)
  intros cs nm text pat. destruct pat as [|p0 pat']; [cbn; eauto|].
  unfold equal_match. remember (p0 :: pat') as pat eqn:Epat.
  set (tl := if is_space_m co p0 then 0%nat else leading_ws co text).
  set (te := match rev pat with [] => 0%nat | pl :: _ => if is_space_m co pl then 0%nat else trailing_ws co text end).
  destruct (Z.eqb_spec (Z.of_nat (length text) - Z.of_nat tl - Z.of_nat te) (Z.of_nat (length pat))) as [Heq|Hneq];
    cbn [negb]; [|eauto].
  assert (Hlen : (tl + length pat <= length text)%nat) by lia.
  assert (Hex : exists b, (if nm then eq_norm co cs text tl pat else cmp_at co cs false text tl pat) = Ok b).
  { destruct nm; [|rewrite cmp_at_spec by lia; eauto].
    clear Heq. revert Hlen. generalize tl. generalize pat. clear.
    induction pat as [|p pat IH]; intros off H; [cbn; eauto|].
    cbn [length] in H. cbn [eq_norm]. rewrite (get_nth text off 0) by lia. cbn [bind].
    match goal with |- context [if ?c then _ else _] => destruct c end; [apply IH; lia|eauto]. }
  destruct Hex as [b Hb]. rewrite Hb. cbn [bind]. destruct b; eauto.
Qed.

Theorem equal_sound_complete_proof : forall cs nm text pat r,
  pat <> [] -> (nm = true -> Forall (fun p => co_norm co p = p) pat) ->
  equal_match co sc cs nm text pat = Ok r ->
  match r with
  | Match s e score _ =>
      equal_spec co cs nm text pat = Some s /\ e = (s + length pat)%nat /\
      score = equal_score sc (length pat)
  | NoMatch => equal_spec co cs nm text pat = None
  end.
Proof.
  intros cs nm text pat r Hne Hnorm H. rewrite equal_match_eq in H by assumption.
  injection H as <-. destruct (equal_spec co cs nm text pat); auto.
Qed.

End Anchored.

Print Assumptions prefix_total_proof.
Print Assumptions prefix_sound_complete_proof.
Print Assumptions suffix_total_proof.
Print Assumptions suffix_sound_complete_proof.
Print Assumptions equal_total_proof.
Print Assumptions equal_sound_complete_proof.

(* ---------- non-vacuity ---------- *)

Definition ex_co := mkOps (fun c => c) (fun _ => cNonWord) (fun c => c) (fun _ => false).

(* "  Foo bar " with prefix "foo", suffix "bar", and "  foo  " equal to "foo" (case-insensitive) *)
Example prefix_nonvacuous :
  prefix_match ex_co scheme_default false true [32;32;70;111;111;32;98;97;114;32] [102;111;111]
  = Ok (Match 2 5 (align_score ex_co scheme_default [32;32;70;111;111;32;98;97;114;32] (seq 2 3)) None)
  /\ prefix_spec ex_co false true [32;32;70;111;111;32;98;97;114;32] [102;111;111] = Some 2%nat.
Proof. split; vm_compute; reflexivity. Qed.

Example suffix_nonvacuous :
  suffix_match ex_co scheme_default false true [32;32;70;111;111;32;98;97;114;32] [98;97;114]
  = Ok (Match 6 9 (align_score ex_co scheme_default [32;32;70;111;111;32;98;97;114;32] (seq 6 3)) None)
  /\ suffix_spec ex_co false true [32;32;70;111;111;32;98;97;114;32] [98;97;114] = Some 6%nat.
Proof. split; vm_compute; reflexivity. Qed.

Example equal_nonvacuous :
  equal_match ex_co scheme_default false true [32;32;70;111;111;32;32] [102;111;111]
  = Ok (Match 2 5 (equal_score scheme_default 3) None)
  /\ equal_spec ex_co false true [32;32;70;111;111;32;32] [102;111;111] = Some 2%nat
  /\ Forall (fun p => co_norm ex_co p = p) [102;111;111].
Proof. split; [|split]; [vm_compute; reflexivity|vm_compute; reflexivity|repeat constructor]. Qed.

(* corner cases: whitespace-only text, pattern longer than text, pattern starting/ending with a blank *)
Example anchored_corner_cases :
  prefix_match ex_co scheme_default false true [32;32;32] [97] = Ok NoMatch /\
  suffix_match ex_co scheme_default false true [32;32;32] [97] = Ok NoMatch /\
  equal_match ex_co scheme_default false true [32;32;32] [97] = Ok NoMatch /\
  prefix_match ex_co scheme_default false true [97] [97;98] = Ok NoMatch /\
  suffix_match ex_co scheme_default false true [97] [97;98] = Ok NoMatch /\
  (exists sc', prefix_match ex_co scheme_default false true [32;97;32] [32;97] = Ok (Match 0 2 sc' None)) /\
  (exists sc', suffix_match ex_co scheme_default false true [32;97;32] [97;32] = Ok (Match 1 3 sc' None)) /\
  (exists sc', equal_match ex_co scheme_default false true [32;97;32] [32;97;32] = Ok (Match 0 3 sc' None)).
Proof. repeat split; try (vm_compute; reflexivity); eexists; vm_compute; reflexivity. Qed.
