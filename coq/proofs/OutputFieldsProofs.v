(* C07, fields: the tokenizer with a literal delimiter, Transform, StripLastDelimiter, strconv.Itoa and the
   --accept-nth closures of OutputModel.v compute what OutputSpec.v says about field index expressions and
   templates (accept_text).  Stdlib only; no axioms. *)
From Fzf Require Import Prelude OutputSpec OutputModel OutputProofs.
Open Scope Z_scope.

(* ================================================================== strings.SplitAfter = the delimiter-cut fields *)
Lemma strip_prefix_some' : forall p s rest, strip_prefix p s = Some rest -> s = p ++ rest.
Proof.
  induction p as [|x p IH]; intros s rest H; cbn in H; [now inversion H|].
  destruct s as [|y s]; [discriminate|]. destruct (x =? y) eqn:E; [|discriminate].
  apply Z.eqb_eq in E. subst y. cbn. f_equal. now apply IH.
Qed.

Lemma is_prefix_strip : forall p s, is_prefix p s = true -> exists rest, strip_prefix p s = Some rest.
Proof.
  induction p as [|x p IH]; intros s H; [now exists s|].
  destruct s as [|y s]; [discriminate|]. cbn in H. apply andb_true_iff in H as [H1 H2].
  cbn. rewrite H1. now apply IH.
Qed.

Lemma is_prefix_strip_none : forall p s, is_prefix p s = false -> strip_prefix p s = None.
Proof.
  induction p as [|x p IH]; intros s H; [discriminate|].
  destruct s as [|y s]; [reflexivity|]. cbn in H. cbn. destruct (x =? y); [|reflexivity].
  cbn in H. now apply IH.
Qed.

Lemma split_copy sep : forall p k cur rest, length p = S k ->
  split_after_go sep (S k) cur (p ++ rest) = (rev cur ++ p) :: split_after_go sep O [] rest.
Proof.
  induction p as [|c p IH]; intros k cur rest Hl; [discriminate|].
  cbn [app split_after_go]. destruct k as [|k].
  - destruct p; [|discriminate]. cbn [app rev]. reflexivity.
  - cbn in Hl. injection Hl as Hl. rewrite (IH k (c :: cur) rest Hl). cbn [rev]. now rewrite <- app_assoc.
Qed.

Lemma split_fields_fuel sep (Hsep : sep <> []) : forall fuel s cur, (length s < fuel)%nat ->
  split_after_go sep O cur s = str_fields_fuel fuel sep (rev cur) s.
Proof.
  induction fuel as [|f IH]; intros s cur Hl; [lia|].
  destruct s as [|c t].
  - cbn [split_after_go str_fields_fuel]. destruct sep; [congruence|]. reflexivity.
  - destruct (is_prefix sep (c :: t)) eqn:E.
    + destruct (is_prefix_strip _ _ E) as [rest Hr]. pose proof (strip_prefix_some' _ _ _ Hr) as Hs.
      cbn [str_fields_fuel]. rewrite Hr.
      assert (Hk : exists k, length sep = S k) by (destruct sep; [congruence|eexists; reflexivity]).
      destruct Hk as [k Hk].
      assert (Hstep : split_after_go sep O cur (c :: t) = split_after_go sep (S k) cur (c :: t)).
      { cbn [split_after_go]. rewrite E, Hk. reflexivity. }
      rewrite Hstep, Hs, (split_copy sep sep k cur rest Hk). f_equal.
      rewrite (IH rest []); [reflexivity|].
      assert (length (c :: t) = length sep + length rest)%nat by (rewrite Hs; apply app_length). lia.
    + cbn [split_after_go]. rewrite E. cbn [str_fields_fuel]. rewrite (is_prefix_strip_none _ _ E).
      rewrite (IH t (c :: cur)); [reflexivity|]. cbn in Hl. lia.
Qed.

Theorem split_after_fields_proof : forall sep s, sep <> [] -> split_after sep s = str_fields sep s.
Proof.
  intros sep s H. unfold split_after, str_fields. destruct sep as [|x sep]; [congruence|].
  apply (split_fields_fuel (x :: sep) H (S (length s)) s []). lia.
Qed.

(* the delimiter-cut fields are a partition of the record: nothing is lost, nothing is added *)
Lemma str_fields_fuel_concat sep : forall fuel cur s, concat (str_fields_fuel fuel sep cur s) = cur ++ s.
Proof.
  induction fuel as [|f IH]; intros cur s; [cbn; now rewrite app_nil_r|].
  cbn [str_fields_fuel]. destruct (strip_prefix sep s) as [rest|] eqn:E.
  - apply strip_prefix_some' in E. cbn [concat]. rewrite IH, E, <- app_assoc. reflexivity.
  - destruct s as [|c t]; [cbn; now rewrite app_nil_r|]. rewrite IH, <- app_assoc. reflexivity.
Qed.
Theorem str_fields_partition_proof : forall sep s, concat (str_fields sep s) = s.
Proof.
  intros sep s. unfold str_fields. destruct sep; [cbn; now rewrite app_nil_r|]. apply str_fields_fuel_concat.
Qed.

(* ================================================================== Transform = the selected fields *)
(* the fields number lo .. hi that exist *)
Definition zslice (l : list str) (lo hi : Z) : list str :=
  let n := Z.of_nat (length l) in
  let lo' := Z.max 1 lo in
  let hi' := Z.min n hi in
  firstn (Z.to_nat (hi' - lo' + 1)) (skipn (Z.to_nat (lo' - 1)) l).

Lemma get_skipn {A} : forall (l : list A) k x, get l k = Ok x -> skipn k l = x :: skipn (S k) l.
Proof.
  induction l as [|a l IH]; intros k x H; [destruct k; discriminate|].
  destruct k; cbn in H; [inversion H; reflexivity|]. cbn [skipn]. rewrite (IH k x H). reflexivity.
Qed.

Lemma get_in_range {A} : forall (l : list A) k, (k < length l)%nat -> exists x, get l k = Ok x.
Proof.
  induction l as [|a l IH]; intros k H; [cbn in H; lia|].
  destruct k; [now exists a|]. cbn. apply IH. cbn in H. lia.
Qed.

Lemma zslice_empty l lo hi : Z.min (Z.of_nat (length l)) hi < Z.max 1 lo -> zslice l lo hi = [].
Proof. intro H. unfold zslice. replace (Z.to_nat _) with O by lia. reflexivity. Qed.

Lemma collect_range_slice tokens : forall fuel idx,
  collect_range fuel idx tokens = Ok (zslice tokens idx (idx + Z.of_nat fuel - 1)).
Proof.
  induction fuel as [|f IH]; intro idx.
  - cbn [collect_range]. rewrite zslice_empty; [reflexivity|lia].
  - cbn [collect_range]. rewrite IH. cbn [bind].
    set (n := Z.of_nat (length tokens)).
    replace (idx + 1 + Z.of_nat f - 1) with (idx + Z.of_nat (S f) - 1) by lia.
    set (hi := idx + Z.of_nat (S f) - 1).
    destruct ((1 <=? idx) && (idx <=? n)) eqn:E.
    + apply andb_true_iff in E as [E1 E2]. apply Z.leb_le in E1, E2.
      destruct (get_in_range tokens (Z.to_nat (idx - 1))) as [x Hx]; [subst n; lia|].
      rewrite Hx. cbn [bind]. f_equal. unfold zslice. fold n.
      replace (Z.max 1 idx) with idx by lia. replace (Z.max 1 (idx + 1)) with (idx + 1) by lia.
      rewrite (get_skipn _ _ _ Hx).
      replace (Z.to_nat (Z.min n hi - idx + 1)) with (S (Z.to_nat (Z.min n hi - (idx + 1) + 1))) by (subst hi; lia).
      cbn [firstn]. replace (Z.to_nat (idx + 1 - 1)) with (S (Z.to_nat (idx - 1))) by lia. reflexivity.
    + f_equal. apply andb_false_iff in E. destruct E as [E|E].
      * apply Z.leb_gt in E. unfold zslice. fold n. replace (Z.max 1 (idx + 1)) with (Z.max 1 idx) by lia. reflexivity.
      * apply Z.leb_gt in E. rewrite !zslice_empty; [reflexivity| |]; fold n; lia.
Qed.

Lemma zslice_all l : zslice l 1 (Z.of_nat (length l)) = l.
Proof.
  unfold zslice. replace (Z.max 1 1 - 1) with 0 by lia. cbn [Z.to_nat skipn].
  replace (Z.to_nat _) with (length l) by lia. apply firstn_all.
Qed.

Lemma zslice_one l idx x : 1 <= idx <= Z.of_nat (length l) -> get l (Z.to_nat (idx - 1)) = Ok x -> zslice l idx idx = [x].
Proof.
  intros H Hx. unfold zslice. replace (Z.max 1 idx) with idx by lia.
  rewrite (get_skipn _ _ _ Hx). replace (Z.to_nat _) with 1%nat by lia. reflexivity.
Qed.

Lemma select_fields_zslice l b e :
  select_fields l (b, e) =
  zslice l (if b =? 0 then 1 else if b <? 0 then Z.of_nat (length l) + 1 + b else b)
           (if e =? 0 then Z.of_nat (length l) else if e <? 0 then Z.of_nat (length l) + 1 + e else e).
Proof. reflexivity. Qed.

(* Transform on one Range = the concatenation of the fields the expression selects *)
Lemma transform_one_select tokens b e :
  transform_one tokens (new_range b e) = Ok (concat (select_fields tokens (b, e))).
Proof.
  rewrite select_fields_zslice. unfold transform_one, new_range. cbn [r_begin r_end]. cbv zeta.
  set (n := Z.of_nat (length tokens)).
  set (b' := if (b =? 1) && negb (e =? 1) then 0 else b).
  set (e' := if e =? -1 then 0 else e).
  set (LO := if b =? 0 then 1 else if b <? 0 then n + 1 + b else b).
  set (HI := if e =? 0 then n else if e <? 0 then n + 1 + e else e).
  assert (Hb' : (b = 1 /\ e <> 1 /\ b' = 0) \/ (b' = b /\ (b <> 1 \/ e = 1))).
  { subst b'. destruct (Z.eqb_spec b 1) as [B|B]; destruct (Z.eqb_spec e 1) as [E|E]; cbn [andb negb]; lia. }
  assert (He' : (e = -1 /\ e' = 0) \/ (e <> -1 /\ e' = e)).
  { subst e'. destruct (Z.eqb_spec e (-1)) as [E|E]; lia. }
  assert (HLO : (b = 0 /\ LO = 1) \/ (b < 0 /\ LO = n + 1 + b) \/ (0 < b /\ LO = b)).
  { subst LO. destruct (Z.eqb_spec b 0) as [B|B]; [lia|]. destruct (Z.ltb_spec b 0); lia. }
  assert (HHI : (e = 0 /\ HI = n) \/ (e < 0 /\ HI = n + 1 + e) \/ (0 < e /\ HI = e)).
  { subst HI. destruct (Z.eqb_spec e 0) as [B|B]; [lia|]. destruct (Z.ltb_spec e 0); lia. }
  clearbody b' e' LO HI.
  destruct (Z.eqb_spec b' e') as [Ebe|Ebe].
  - destruct (Z.eqb_spec b' 0) as [E0|E0].
    + f_equal. f_equal. replace LO with 1 by lia. replace HI with n by lia. symmetry. apply zslice_all.
    + assert (b' = b /\ e' = e /\ b = e) as (-> & -> & <-) by lia.
      set (idx := if b <? 0 then b + n + 1 else b).
      assert (Hidx : idx = LO /\ idx = HI) by (subst idx; destruct (Z.ltb_spec b 0); lia).
      destruct Hidx as [H1 H2]. rewrite <- H1, <- H2. clear H1 H2 HLO HHI.
      destruct ((1 <=? idx) && (idx <=? n)) eqn:E.
      * apply andb_true_iff in E as [E1 E2]. apply Z.leb_le in E1, E2.
        destruct (get_in_range tokens (Z.to_nat (idx - 1))) as [x Hx]; [subst n; lia|].
        rewrite Hx. rewrite (zslice_one tokens idx x); [cbn; now rewrite app_nil_r|fold n; lia|exact Hx].
      * rewrite zslice_empty; [reflexivity|]. fold n.
        apply andb_false_iff in E. destruct E as [E|E]; apply Z.leb_gt in E; lia.
  - assert (Hadj' : forall i, (i < 0 /\ (if i <? 0 then i + n + 1 else i) = i + n + 1) \/
                             (0 <= i /\ (if i <? 0 then i + n + 1 else i) = i))
      by (intro i; destruct (Z.ltb_spec i 0); lia).
    match goal with |- bind (collect_range (Z.to_nat (snd ?X - fst ?X + 1)) (fst ?X) tokens) _ = _ => set (be := X) end.
    rewrite collect_range_slice. cbn [bind]. do 2 f_equal.
    assert (Hfst : Z.max 1 (fst be) = Z.max 1 LO).
    { subst be. destruct (Z.eqb_spec b' 0) as [B|B]; [cbn [fst]; lia|].
      assert (b' = b) as -> by lia.
      destruct (Hadj' b) as [[? Ha]|[? Ha]]; destruct (Z.eqb_spec e' 0); cbn [fst]; rewrite Ha; lia. }
    assert (Hsnd : snd be = HI).
    { subst be. destruct (Z.eqb_spec b' 0) as [B|B]; [cbn [snd]|destruct (Z.eqb_spec e' 0) as [E|E]; cbn [snd]].
      - destruct (Hadj' e') as [[? Ha]|[? Ha]]; rewrite Ha; lia.
      - lia.
      - destruct (Hadj' e') as [[? Ha]|[? Ha]]; rewrite Ha; lia. }
    clearbody be. unfold zslice. fold n. rewrite <- Hfst, <- Hsnd.
    destruct (Z_lt_le_dec (snd be) (fst be)) as [Hlt|Hge].
    + replace (Z.to_nat (Z.min n (fst be + Z.of_nat (Z.to_nat (snd be - fst be + 1)) - 1) - Z.max 1 (fst be) + 1)) with O by lia.
      replace (Z.to_nat (Z.min n (snd be) - Z.max 1 (fst be) + 1)) with O by lia.
      reflexivity.
    + replace (fst be + Z.of_nat (Z.to_nat (snd be - fst be + 1)) - 1) with (snd be) by lia. reflexivity.
Qed.

(* ================================================================== StripLastDelimiter, Itoa, the closures *)
(* ---- strings.TrimSuffix removes the suffix exactly when the text ends with it ---- *)
Lemma strip_suffix_rev_some : forall a b r, strip_suffix_rev a b = Some r -> b = a ++ r.
Proof.
  induction a as [|x a IH]; intros b r H; cbn in H; [now inversion H|].
  destruct b as [|y b]; [discriminate|]. destruct (Z.eqb_spec x y) as [->|]; [|discriminate].
  cbn. f_equal. now apply IH.
Qed.
Lemma strip_suffix_rev_app : forall a r, strip_suffix_rev a (a ++ r) = Some r.
Proof. induction a as [|x a IH]; intro r; [reflexivity|]. cbn. rewrite Z.eqb_refl. apply IH. Qed.

Lemma ends_with_true suf s : ends_with suf s = true -> s = firstn (length s - length suf) s ++ suf.
Proof.
  unfold ends_with. intro H. apply andb_true_iff in H as [_ H]. apply str_eqb_eq in H.
  pose proof (firstn_skipn (length s - length suf) s) as F. rewrite H in F. symmetry. exact F.
Qed.
Lemma ends_with_app w suf : ends_with suf (w ++ suf) = true.
Proof.
  unfold ends_with. rewrite app_length. apply andb_true_iff. split; [apply Nat.leb_le; lia|].
  apply str_eqb_eq. replace (length w + length suf - length suf)%nat with (length w + 0)%nat by lia.
  rewrite skipn_app, skipn_all2 by lia. replace (length w + 0 - length w)%nat with O by lia. reflexivity.
Qed.

Lemma trim_suffix_spec s suf :
  trim_suffix s suf = if ends_with suf s then firstn (length s - length suf) s else s.
Proof.
  unfold trim_suffix. destruct (ends_with suf s) eqn:E.
  - pose proof (ends_with_true _ _ E) as Hs. rewrite Hs at 1. rewrite rev_app_distr, strip_suffix_rev_app.
    apply rev_involutive.
  - destruct (strip_suffix_rev (rev suf) (rev s)) as [r|] eqn:R; [|reflexivity].
    apply strip_suffix_rev_some in R. assert (Hs : s = rev r ++ suf).
    { rewrite <- (rev_involutive s), R, rev_app_distr, rev_involutive. reflexivity. }
    rewrite Hs, ends_with_app in E. discriminate.
Qed.

(* ---- strconv.Itoa writes the decimal notation ---- *)
Lemma itoa_fuel_decimal : forall f g n acc, (1 <= f)%nat -> Z.of_nat n < 10 ^ Z.of_nat f -> (n < g)%nat ->
  itoa_fuel f (Z.of_nat n) acc = decimal_fuel g n ++ acc.
Proof.
  induction f as [|f IH]; intros g n acc Hf Hn Hg; [lia|].
  destruct g as [|g]; [lia|]. cbn [itoa_fuel decimal_fuel].
  assert (Hdiv : Z.of_nat n / 10 = Z.of_nat (n / 10)) by (rewrite Nat2Z.inj_div; reflexivity).
  assert (Hmod : Z.of_nat n mod 10 = Z.of_nat (n mod 10)) by (rewrite Nat2Z.inj_mod; reflexivity).
  destruct (Nat.ltb_spec n 10) as [L|L].
  - replace (Z.of_nat n / 10 =? 0) with true by (symmetry; apply Z.eqb_eq; apply Z.div_small; lia).
    rewrite Z.mod_small by lia. reflexivity.
  - assert (Hq : 1 <= Z.of_nat n / 10) by (apply Z.div_le_lower_bound; lia).
    replace (Z.of_nat n / 10 =? 0) with false by (symmetry; apply Z.eqb_neq; lia).
    rewrite Hdiv, Hmod.
    assert (Hf' : (1 <= f)%nat).
    { destruct f; [|lia]. exfalso. change (10 ^ Z.of_nat 1) with 10 in Hn. lia. }
    rewrite (IH g (n / 10)%nat); [now rewrite <- app_assoc|exact Hf'| |].
    + rewrite <- Hdiv. apply Z.div_lt_upper_bound; [lia|].
      replace (Z.of_nat (S f)) with (Z.succ (Z.of_nat f)) in Hn by lia. rewrite Z.pow_succ_r in Hn by lia. exact Hn.
    + assert (n / 10 < n)%nat by (apply Nat.div_lt; lia). lia.
Qed.

Lemma itoa_decimal n : Z.of_nat n < 2 ^ 31 -> itoa (Z.of_nat n) = decimal n.
Proof.
  intro H. unfold itoa, decimal. rewrite (itoa_fuel_decimal 20 (S n) n []); [apply app_nil_r|lia| |lia].
  assert (2 ^ 31 < 10 ^ Z.of_nat 20) by (vm_compute; reflexivity). lia.
Qed.

(* ---- the bridge between the user's field expressions and the parsed Range values ---- *)
Definition model_ranges (xs : list fexpr) : list range := map (fun x => new_range (fst x) (snd x)) xs.
Definition model_part (p : tpart) : nth_part :=
  match p with TLit l => PStr l | TIndex => PIndex | TFields xs => PNth (model_ranges xs) end.
Definition model_nth (a : accept_expr) : nth_fn :=
  match a with AFields xs => NthRanges (model_ranges xs) | ATemplate ps => NthTemplate (map model_part ps) end.
Definition spec_delim (d : delim) : field_delim := match d with DAwk => FAwk | DStr sep => FStr sep end.
Definition delim_ok (d : delim) : Prop := match d with DAwk => True | DStr sep => sep <> [] end.

Lemma tokenize_fields d s : delim_ok d -> tokenize d s = fields_of (spec_delim d) s.
Proof.
  destruct d as [|sep]; intro H; cbn [tokenize spec_delim fields_of].
  - apply awk_tokenizer_fields_proof.
  - apply split_after_fields_proof. exact H.
Qed.

Lemma strip_last_delimiter_spec d s : strip_last_delimiter d s = strip_last_delim (spec_delim d) s.
Proof.
  destruct d as [|sep]; unfold strip_last_delimiter, strip_last_delim; cbn [spec_delim]; [reflexivity|].
  rewrite trim_suffix_spec. reflexivity.
Qed.

Lemma join_transform_select tokens xs : join_transform tokens (model_ranges xs) = Ok (exprs_text tokens xs).
Proof.
  unfold join_transform, exprs_text.
  assert (H : map_res (transform_one tokens) (model_ranges xs) = Ok (map (fun x => concat (select_fields tokens x)) xs)).
  { induction xs as [|[b e] xs IH]; [reflexivity|]. cbn [model_ranges map map_res fst snd].
    rewrite transform_one_select. cbn [bind]. fold (model_ranges xs). rewrite IH. reflexivity. }
  rewrite H. reflexivity.
Qed.

Definition spec_part (d : field_delim) (fields : list str) (index : nat) (p : tpart) : str :=
  match p with
  | TLit l => l
  | TIndex => decimal index
  | TFields xs => strip_last_delim d (exprs_text fields xs)
  end.

Lemma template_loop_spec d tokens index : Z.of_nat index < 2 ^ 31 -> forall ps acc,
  template_loop d tokens (Z.of_nat index) (map model_part ps) acc =
  Ok (acc ++ concat (map (spec_part (spec_delim d) tokens index) ps)).
Proof.
  intro Hi. induction ps as [|p ps IH]; intro acc; [cbn; now rewrite app_nil_r|].
  destruct p as [l| |xs]; cbn [map model_part template_loop spec_part concat].
  - rewrite IH, app_assoc. reflexivity.
  - replace (0 <=? Z.of_nat index) with true by (symmetry; apply Z.leb_le; lia).
    rewrite IH, itoa_decimal, app_assoc by exact Hi. reflexivity.
  - rewrite join_transform_select. cbn [bind]. rewrite IH, strip_last_delimiter_spec, app_assoc. reflexivity.
Qed.

Section AcceptFields.
  Variable strip : str -> str.
  Variable rt : str -> str.

  (* ★ accept_nth_fields at full strength for AWK-style and literal delimiters: for every field index
     expression list and every template, --accept-nth prints accept_text of the record's output form *)
  Theorem accept_nth_fields_proof : forall o a it,
    delim_ok (to_delim o) -> Z.of_nat (it_index it) < 2 ^ 31 ->
    accept_nth strip rt o (model_nth a) it =
    Ok (accept_text (spec_delim (to_delim o)) a (it_index it) (as_string strip rt (to_ansi o) it)).
  Proof.
    intros o a it Hd Hi. unfold accept_nth, accept_text. rewrite (tokenize_fields _ _ Hd).
    set (fields := fields_of _ _).
    destruct a as [xs|ps]; cbn [model_nth apply_nth].
    - rewrite join_transform_select. cbn [bind]. rewrite strip_last_delimiter_spec. reflexivity.
    - rewrite (template_loop_spec _ _ _ Hi). cbn [bind app]. rewrite strip_last_delimiter_spec. reflexivity.
  Qed.

  (* what is printed for an item, in the user's terms *)
  Definition present_item (o : topts) (a : option accept_expr) (it : item) : str :=
    match a with
    | Some a => accept_text (spec_delim (to_delim o)) a (it_index it) (as_string strip rt (to_ansi o) it)
    | None => as_string strip rt (to_ansi o) it
    end.

  Theorem out_transform_fields_proof : forall o a its,
    delim_ok (to_delim o) -> to_accept_nth o = option_map model_nth a ->
    Forall (fun it => Z.of_nat (it_index it) < 2 ^ 31) its ->
    map_res (out_transform strip rt o) its = Ok (map (present_item o a) its).
  Proof.
    intros o a its Hd Ha Hi. induction Hi as [|it its H1 _ IH]; [reflexivity|].
    cbn [map_res map]. rewrite IH. unfold out_transform at 1. rewrite Ha.
    destruct a as [a|]; cbn [option_map present_item bind]; [rewrite (accept_nth_fields_proof _ _ _ Hd H1)|]; reflexivity.
  Qed.
End AcceptFields.
