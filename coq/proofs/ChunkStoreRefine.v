(* C13: the chunk store REFINES the flat list of SearchSpec (live / trim).
   What the list and every snapshot dereference to is exactly what the list-level specification says: Push appends,
   a rejected Push and the copies made by Snapshot change nothing, Snapshot(tail) keeps the last `tail` items
   (both loops of the --tail trim), and a snapshot keeps reading the same items whatever happens afterwards.
   Main theorem: chunklist_refines_live_proof. *)
From Fzf Require Import Prelude SearchSpec LoaderSpec ChunkStoreModel ChunkStoreProofs.
Local Open Scope nat_scope.

Section ListFacts2.
  Context {A : Type}.

  Lemma last_n_app_short (n : nat) (x c : list A) : n <= length c -> last_n n (x ++ c) = last_n n c.
  Proof.
    intro H. unfold last_n. rewrite app_length.
    replace (length x + length c - n) with (length x + (length c - n)) by lia.
    rewrite skipn_app, skipn_all2 by lia. cbn.
    replace (length x + (length c - n) - length x) with (length c - n) by lia. reflexivity.
  Qed.

  Lemma last_n_app_long (n : nat) (x c : list A) : length c <= n -> last_n n (x ++ c) = last_n (n - length c) x ++ c.
  Proof.
    intro H. unfold last_n. rewrite app_length.
    replace (length x + length c - n) with (length x - (n - length c)) by lia.
    rewrite skipn_app.
    replace (length x - (n - length c) - length x) with 0 by lia. reflexivity.
  Qed.

  Lemma last_n_all (n : nat) (l : list A) : length l <= n -> last_n n l = l.
  Proof. intro H. unfold last_n. replace (length l - n) with 0 by lia. reflexivity. Qed.

  Lemma last_n_0 (l : list A) : last_n 0 l = [].
  Proof. unfold last_n. rewrite Nat.sub_0_r. apply skipn_all. Qed.
End ListFacts2.

Section Refine.
  Variable item : Type.
  Notation clist := (clist item).
  Notation cop := (cop item).
  Notation cell_at := (cell_at item).
  Notation lensof := (lensof item).
  Notation inv := (inv item).
  Notation shape := (shape item).
  Notation frozen := (frozen item).
  Notation extends := (extends item).

  Definition contents_of (s : store item) (ids : list nat) : list item := concat (map (cell_at s) ids).
  Definition contents (cl : clist) : list item := contents_of (cl_store cl) (cl_chunks cl).

  Lemma contents_of_app s a b : contents_of s (a ++ b) = contents_of s a ++ contents_of s b.
  Proof. unfold contents_of. now rewrite map_app, concat_app. Qed.

  Lemma contents_of_one s i : contents_of s [i] = cell_at s i.
  Proof. unfold contents_of. cbn. apply app_nil_r. Qed.

  Lemma contents_of_same s s' ids : (forall i, In i ids -> cell_at s' i = cell_at s i) ->
    contents_of s' ids = contents_of s ids.
  Proof. intro H. unfold contents_of. f_equal. apply map_ext_in. exact H. Qed.

  Lemma contents_of_extends s s' ids : extends s s' -> Forall (fun i => i < length s) ids ->
    contents_of s' ids = contents_of s ids.
  Proof.
    intros He Hv. apply contents_of_same. intros i Hi. rewrite Forall_forall in Hv.
    apply (cell_at_extends item); auto.
  Qed.

  Lemma contents_of_length s ids : length (contents_of s ids) = list_sum (lensof s ids).
  Proof. unfold contents_of, lensof. rewrite (length_concat item), map_map. reflexivity. Qed.

  Lemma contents_of_deref s ids cells : deref_all s ids = Ok cells -> concat cells = contents_of s ids.
  Proof. intro H. rewrite (deref_all_cells item _ _ _ H). reflexivity. Qed.

  Lemma extends_snoc (s : store item) c : extends s (s ++ [c]).
  Proof. exists [c]. reflexivity. Qed.

  (* ---------- Push ---------- *)
  Lemma push_gen_contents cl x cl' : inv cl -> push_gen cl x = Ok cl' ->
    contents cl' = contents cl ++ match x with Some v => [v] | None => [] end.
  Proof.
    intros [Hv Hnd] H. unfold push_gen in H. unfold contents.
    set (add := fun c : cell item => match x with Some v => c ++ [v] | None => c end) in *.
    assert (Hadd : forall c, add c = c ++ match x with Some v => [v] | None => [] end).
    { intro c. unfold add. destruct x; [reflexivity | now rewrite app_nil_r]. }
    assert (Hfresh : forall cl2, (let (s', id) := alloc (cl_store cl) (add []) in Ok (mkCL s' (cl_chunks cl ++ [id]))) = Ok cl2 ->
      contents_of (cl_store cl2) (cl_chunks cl2) =
      contents_of (cl_store cl) (cl_chunks cl) ++ match x with Some v => [v] | None => [] end).
    { intros cl2 H2. cbn in H2. inversion H2; subst; clear H2. cbn [cl_store cl_chunks].
      rewrite contents_of_app, contents_of_one, (cell_at_new item), Hadd. cbn [app]. f_equal.
      apply contents_of_extends; [apply extends_snoc | exact Hv]. }
    destruct (last_opt (cl_chunks cl)) as [lid|] eqn:Hlast; [|now apply Hfresh].
    bind_inv H. destruct (Nat.eqb (length a) chunk_size) eqn:Hfull; [now apply Hfresh|].
    bind_inv H. inversion H; subst; clear H. cbn [cl_store cl_chunks].
    destruct (last_opt_split _ _ Hlast) as [front Hf]. rewrite Hf in *.
    rewrite !contents_of_app, !contents_of_one.
    change (match x with Some v => a ++ [v] | None => a end) with (add a) in Hget0.
    rewrite (cell_at_set item _ _ _ _ lid Hget0), Nat.eqb_refl, Hadd, (get_cell_at item _ _ _ Hget).
    rewrite app_assoc. f_equal. f_equal.
    apply contents_of_same. intros i Hi. rewrite (cell_at_set item _ _ _ _ i Hget0).
    destruct (Nat.eqb_spec i lid) as [->|Hne]; [|reflexivity].
    exfalso. apply NoDup_remove_2 in Hnd. apply Hnd. rewrite app_nil_r. exact Hi.
  Qed.

  (* ---------- the --tail trim ---------- *)
  (* both loops together: of the chunks (last one first) keep as many as hold `left` items, cut the first kept one *)
  Lemma trim_rev_contents rids : forall (s : store item) left s' rids' ret,
    Forall (fun i => i < length s) rids ->
    trim_rev s left (firstn (num_keep left (lensof s rids)) rids) = Ok (s', rids', ret) ->
    contents_of s' (rev rids') = last_n left (contents_of s (rev rids)).
  Proof.
    induction rids as [|id r IH]; intros s left s' rids' ret Hv H.
    - destruct left; cbn in H; inversion H; subst; cbn; unfold last_n; rewrite ?skipn_nil; reflexivity.
    - destruct left as [|l].
      + rewrite num_keep_0 in H. cbn in H. inversion H; subst. cbn [rev]. now rewrite last_n_0.
      + inversion Hv as [|? ? Hid Hr]; subst.
        cbn [ChunkStoreProofs.lensof map num_keep firstn] in H. cbn [trim_rev] in H. bind_inv H.
        rewrite (get_cell_at item _ _ _ Hget) in H.
        cbn [rev]. rewrite contents_of_app, contents_of_one, (get_cell_at item _ _ _ Hget).
        destruct (Nat.ltb (S l) (length a)) eqn:Hlt.
        * apply Nat.ltb_lt in Hlt. replace (S l - length a) with 0 in H by lia.
          rewrite num_keep_0 in H. cbn [firstn] in H. unfold alloc in H. inversion H; subst. clear H.
          cbn [rev app]. rewrite contents_of_one, (cell_at_new item).
          rewrite last_n_app_short by lia. reflexivity.
        * apply Nat.ltb_ge in Hlt. bind_inv H. destruct a0 as [[s1 r1] ret1]. inversion H; subst; clear H.
          pose proof (IH _ _ _ _ _ Hr Hget0) as IH1.
          destruct (trim_rev_spec item _ _ _ _ _ _ Hget0) as (He & _).
          cbn [rev]. rewrite contents_of_app, contents_of_one, IH1.
          rewrite (cell_at_extends item _ _ _ He Hid), (get_cell_at item _ _ _ Hget).
          rewrite last_n_app_long by lia. reflexivity.
  Qed.

  Lemma snap_trim_contents cl tail cl1 changed retired : inv cl -> shape cl ->
    snap_trim cl tail = Ok (cl1, changed, retired) -> contents cl1 = trim tail (contents cl).
  Proof.
    intros [Hv Hnd] Hs H. unfold snap_trim in H. bind_inv H. rename a into cells.
    assert (Hcnt : count_items (map (length (A:=item)) cells) = length (contents cl)).
    { unfold contents. rewrite contents_of_length, (lens_of_cells item _ _ _ Hget). apply count_items_sum. exact Hs. }
    rewrite Hcnt in H. unfold trim.
    destruct (Nat.ltb 0 tail && Nat.ltb tail (length (contents cl)))%bool; [|inversion H; subst; reflexivity].
    bind_inv H. destruct a as [[s' rkept] ret]. inversion H; subst; clear H.
    rewrite (lens_of_cells item _ _ _ Hget) in Hget0.
    assert (Hrl : rev (lensof (cl_store cl) (cl_chunks cl)) = lensof (cl_store cl) (rev (cl_chunks cl)))
      by (unfold ChunkStoreProofs.lensof; now rewrite map_rev).
    rewrite Hrl, <- firstn_rev in Hget0.
    unfold contents. cbn [cl_store cl_chunks].
    rewrite (trim_rev_contents _ _ _ _ _ _ (Forall_rev Hv) Hget0), rev_involutive. reflexivity.
  Qed.

  (* ---------- Snapshot ---------- *)
  Lemma snapshot_contents cl tail r : inv cl -> shape cl -> snapshot cl tail = Ok r ->
    contents (sn_cl r) = trim tail (contents cl) /\
    contents_of (cl_store (sn_cl r)) (sn_ids r) = trim tail (contents cl).
  Proof.
    intros Hinv Hs H. unfold snapshot in H.
    bind_inv H. destruct a as [[cl1 changed] retired].
    pose proof (snap_trim_contents _ _ _ _ _ Hinv Hs Hget) as Hc1.
    destruct (snap_trim_spec item _ _ _ _ _ Hinv Hget) as ((Hv1 & Hnd1) & _ & _).
    bind_inv H. destruct a as [s1 ids1]. bind_inv H. destruct a as [s2 ids2].
    bind_inv H. inversion H; subst; clear H. cbn [fst snd] in *. cbn [sn_cl sn_ids cl_store cl_chunks].
    pose proof (snap_dup_first_spec item _ _ _ _ _ Hget0) as H1.
    pose proof (snap_dup_last_spec item _ _ _ _ Hget1) as H2.
    assert (He12 : extends (cl_store cl1) s1).
    { destruct H1 as [[-> _]|(f & rs & c & _ & _ & _ & -> & _)]; [apply extends_refl | exists [c]; reflexivity]. }
    assert (He23 : extends s1 s2).
    { destruct H2 as [(_ & _ & ->)|(l & rf & c & _ & _ & -> & _)]; [apply extends_refl | exists [c]; reflexivity]. }
    pose proof (extends_len item _ _ He12) as L2.
    assert (Hv1' : Forall (fun i => i < length s1) (cl_chunks cl1)) by (eapply Forall_lt_mono; [|exact Hv1]; lia).
    assert (S1 : contents_of s1 ids1 = contents_of s1 (cl_chunks cl1) /\ Forall (fun i => i < length s1) ids1).
    { destruct H1 as [[-> ->]|(first & rest & c & Hids & _ & Hc & -> & ->)]; [split; [reflexivity | exact Hv1]|].
      rewrite Hids in *. unfold contents_of. cbn [map concat]. rewrite (cell_at_new item). split.
      - f_equal. inversion Hv1; subst.
        rewrite (cell_at_extends item (cl_store cl1)) by (auto; eexists; reflexivity).
        now rewrite (get_cell_at item _ _ _ Hc).
      - inversion Hv1'; subst. constructor; [rewrite app_length; cbn; lia | assumption]. }
    destruct S1 as [S1 Hvi].
    assert (He13 : extends (cl_store cl1) s2) by (eapply extends_trans; eauto).
    split.
    - unfold contents at 1. cbn [cl_store cl_chunks]. rewrite (contents_of_extends (cl_store cl1)); auto.
    - assert (S2 : contents_of s2 ids2 = contents_of s2 ids1).
      { destruct H2 as [(-> & -> & ->)|(lastid & rfront & c & Hrev & Hc & -> & ->)]; [reflexivity|].
        rewrite (rev_cons_last _ _ _ Hrev) in *. rewrite !contents_of_app, !contents_of_one, (cell_at_new item).
        apply Forall_app in Hvi as [_ Hl]. inversion Hl; subst.
        rewrite (cell_at_extends item s1 (s1 ++ [c]) lastid) by (auto; eexists; reflexivity).
        now rewrite (get_cell_at item _ _ _ Hc). }
      rewrite S2, (contents_of_extends s1 s2 ids1 He23 Hvi), S1.
      rewrite (contents_of_extends (cl_store cl1) s1); auto.
  Qed.

  (* ---------- one step of crun ---------- *)
  Definition lop_of (o : cop) : lop item :=
    match o with CPush x => LPush x | CReject => LReject | CClear => LClear | CSnap t => LSnap t end.

  Definition ids_frozen (cl : clist) (snaps : list (snap_result item)) : Prop :=
    forall r id, In r snaps -> In id (sn_ids r) -> frozen cl id.

  Lemma frozen_cell_at cl cl' id : frozen cl id -> get (cl_store cl') id = get (cl_store cl) id ->
    cell_at (cl_store cl') id = cell_at (cl_store cl) id.
  Proof. intros _ H. now rewrite !(cell_at_get item), H. Qed.

  Lemma cstep_refines cl snaps o cl' snaps' : inv cl -> shape cl -> ids_frozen cl snaps ->
    cstep (cl, snaps) o = Ok (cl', snaps') ->
    inv cl' /\ shape cl' /\ ids_frozen cl' snaps' /\
    contents cl' = live_end (contents cl) [lop_of o] /\
    (forall r, In r snaps -> contents_of (cl_store cl') (sn_ids r) = contents_of (cl_store cl) (sn_ids r)) /\
    exists new, snaps' = new ++ snaps /\
                map (fun r => contents_of (cl_store cl') (sn_ids r)) (rev new) = live (contents cl) [lop_of o].
  Proof.
    intros Hinv Hs Hfr H.
    assert (H1 : cstep1 cl o = Ok cl').
    { unfold cstep1. destruct o as [x| | |t]; cbn in *.
      - bind_inv H. inversion H; subst. now rewrite Hget.
      - bind_inv H. inversion H; subst. now rewrite Hget.
      - now inversion H.
      - bind_inv H. inversion H; subst. now rewrite Hget. }
    destruct (cstep1_spec item _ _ _ Hinv H1) as (Hi' & _ & Hf & _).
    pose proof (cstep1_shape item _ _ _ Hinv Hs H1) as Hs'.
    assert (Hold : forall r, In r snaps -> contents_of (cl_store cl') (sn_ids r) = contents_of (cl_store cl) (sn_ids r)).
    { intros r Hr. apply contents_of_same. intros i Hi. destruct (Hf i (Hfr r i Hr Hi)) as [Hfz Hg].
      eapply frozen_cell_at; eauto. }
    assert (Hfr1 : ids_frozen cl' snaps).
    { intros r id Hr Hi. now destruct (Hf id (Hfr r id Hr Hi)). }
    split; [exact Hi'|]. split; [exact Hs'|].
    destruct o as [x| | |t]; cbn [cstep] in H.
    - bind_inv H. inversion H; subst; clear H. split; [exact Hfr1|]. split.
      + cbn. apply (push_gen_contents cl (Some x)); auto.
      + split; [exact Hold|]. exists []. split; reflexivity.
    - bind_inv H. inversion H; subst; clear H. split; [exact Hfr1|]. split.
      + cbn. rewrite (push_gen_contents cl None _ Hinv Hget). apply app_nil_r.
      + split; [exact Hold|]. exists []. split; reflexivity.
    - inversion H; subst; clear H. split; [exact Hfr1|]. split; [reflexivity|].
      split; [exact Hold|]. exists []. split; reflexivity.
    - bind_inv H. inversion H; subst; clear H.
      destruct (snapshot_contents _ _ _ Hinv Hs Hget) as [Hc Hsn].
      destruct (snapshot_spec item _ _ _ Hinv Hget) as (_ & _ & _ & Hnew).
      split.
      + intros r id [<-|Hr] Hi; [now apply Hnew | now apply (Hfr1 r id)].
      + split; [exact Hc|]. split; [exact Hold|]. exists [a]. split; [reflexivity|]. cbn. now rewrite Hsn.
  Qed.

  Lemma live_app (cur : list item) a b : live cur (a ++ b) = live cur a ++ live (live_end cur a) b.
  Proof.
    revert cur; induction a as [|o a IH]; intro cur; [reflexivity|].
    destruct o; cbn; rewrite ?IH; reflexivity.
  Qed.

  Lemma live_end_app (cur : list item) a b : live_end cur (a ++ b) = live_end (live_end cur a) b.
  Proof. revert cur; induction a as [|o a IH]; intro cur; [reflexivity|]. destruct o; cbn; apply IH. Qed.

  Lemma crun_refines ops : forall cl snaps cl' snaps', inv cl -> shape cl -> ids_frozen cl snaps ->
    crun (cl, snaps) ops = Ok (cl', snaps') ->
    inv cl' /\ shape cl' /\ ids_frozen cl' snaps' /\
    contents cl' = live_end (contents cl) (map lop_of ops) /\
    (forall r, In r snaps -> contents_of (cl_store cl') (sn_ids r) = contents_of (cl_store cl) (sn_ids r)) /\
    exists new, snaps' = new ++ snaps /\
                map (fun r => contents_of (cl_store cl') (sn_ids r)) (rev new) = live (contents cl) (map lop_of ops).
  Proof.
    induction ops as [|o r IH]; intros cl snaps cl' snaps' Hinv Hs Hfr H; cbn [crun] in H.
    - inversion H; subst. split; [exact Hinv|]. split; [exact Hs|]. split; [exact Hfr|]. split; [reflexivity|].
      split; [reflexivity|]. exists []. split; reflexivity.
    - bind_inv H. destruct a as [cl1 snaps1].
      destruct (cstep_refines _ _ _ _ _ Hinv Hs Hfr Hget) as (Hi1 & Hs1 & Hfr1 & Hc1 & Hold1 & new1 & Hn1 & Hl1).
      destruct (IH _ _ _ _ Hi1 Hs1 Hfr1 H) as (Hi2 & Hs2 & Hfr2 & Hc2 & Hold2 & new2 & Hn2 & Hl2).
      split; [exact Hi2|]. split; [exact Hs2|]. split; [exact Hfr2|]. split.
      + cbn [map]. change (lop_of o :: map lop_of r) with ([lop_of o] ++ map lop_of r).
        rewrite live_end_app, <- Hc1. exact Hc2.
      + split.
        * intros x Hx. rewrite Hold2; [now apply Hold1|]. rewrite Hn1. apply in_or_app. now right.
        * exists (new2 ++ new1). split; [now rewrite Hn2, Hn1, app_assoc|].
          cbn [map]. change (lop_of o :: map lop_of r) with ([lop_of o] ++ map lop_of r).
          rewrite live_app, rev_app_distr, map_app, <- Hc1, Hl2. f_equal.
          rewrite <- Hl1. apply map_ext_in. intros x Hx. apply in_rev in Hx.
          apply Hold2. rewrite Hn1. apply in_or_app. now left.
  Qed.

  Lemma shape_empty : shape cl_empty.
  Proof. constructor. Qed.

  (* THEOREM chunklist_refines_live *)
  Theorem chunklist_refines_live_proof : forall (ops : list cop) (cl : clist) (snaps : list (snap_result item)),
    crun (cl_empty, []) ops = Ok (cl, snaps) ->
    map (fun r => contents_of (cl_store cl) (sn_ids r)) (rev snaps) = live [] (map lop_of ops) /\
    contents cl = live_end [] (map lop_of ops).
  Proof.
    intros ops cl snaps H.
    destruct (crun_refines ops cl_empty [] cl snaps (inv_empty item) shape_empty) as (_ & _ & _ & Hc & _ & new & Hn & Hl); auto.
    { intros r id []. }
    rewrite app_nil_r in Hn. subst new. split; [exact Hl | exact Hc].
  Qed.
End Refine.

Arguments contents_of {item} s ids.
Arguments contents {item} cl.
Arguments lop_of {item} o.
