(* C17 proofs, part 3: --tmux against --height.  The implementation decides between the tmux popup and the inline
   window by comparing the POSITIONS at which the two options were read, numbered across the three sources
   (parseOptions(index *int, ...): startIndex, index := i + startIndex, *index += len(allArgs); core.go Run:
   Tmux != nil && Tmux.index >= Height.index).  The documented rule (OptionSpec: "whichever is given later
   decides", no positions) is a fold over the occurrences.  The two agree for every options file, environment
   and command line. *)
From Coq Require Import String.
From Fzf Require Import Prelude Val BindSpec BindModel BindProofs OptionSpec OptionModel OptionProofs.
Open Scope Z_scope.

(* ------------------------------------------------------------------ what a list of assignments does to one field *)

Fixpoint assigned (f : field) (ws : list (field * val)) : option val :=
  match ws with
  | [] => None
  | (g, v) :: r => match assigned f r with
                   | Some x => Some x
                   | None => if Nat.eqb f g then Some v else None
                   end
  end.

Lemma fv_setfs ws : forall c f, fv (setfs ws c) f = match assigned f ws with Some v => v | None => fv c f end.
Proof.
  induction ws as [|[g v] r IH]; intros c f; [reflexivity|].
  rewrite setfs_cons, IH. cbn [assigned]. destruct (assigned f r); [reflexivity|].
  rewrite fv_setf. destruct (Nat.eqb f g); reflexivity.
Qed.

(* ------------------------------------------------------------------ the options that touch the display mode *)

Definition mode_fields : list field := [F_TMUX; F_TMUXIDX; F_HEIGHTIDX; F_HAFTER].
Definition is_mode_field (f : field) : bool := existsb (Nat.eqb f) mode_fields.
Definition disjointb (l : list field) : bool := forallb (fun x => negb (is_mode_field x)) l.

Definition flag_class (ws : list (field * val)) : bool :=
  disjointb (map fst ws)
  || (match assigned F_TMUX ws with Some v => negb (is_some v) | None => false end                       (* --no-tmux *)
      && match assigned F_HEIGHTIDX ws, assigned F_HAFTER ws with None, None => true | _, _ => false end)
  || (match assigned F_TMUX ws, assigned F_TMUXIDX ws with None, None => true | _, _ => false end         (* --no-height *)
      && match assigned F_HEIGHTIDX ws with Some (VI 0) => true | _ => false end
      && match assigned F_HAFTER ws with Some v => negb (as_bool v) | None => false end).

Definition mode_class (k : okind) : bool :=
  match k with
  | KTmux => true
  | KFlag ws => flag_class ws
  | KReq fs PHeight => match fs with [f1; f2] => Nat.eqb f1 F_HEIGHT && Nat.eqb f2 F_HAFTER | _ => false end
  | _ => disjointb (kind_writes k)
  end.

Transparent opt_table.
Lemma table_mode_class : forallb (fun e => mode_class (snd e)) opt_table = true.
Proof. vm_compute. reflexivity. Qed.

Definition s_tmux : str := Eval vm_compute in b "--tmux".
Definition s_tmux_eq : str := Eval vm_compute in b "--tmux=".
Lemma tmux_in_table : assoc_str s_tmux opt_table = Some KTmux.
Proof. vm_compute. reflexivity. Qed.
Opaque opt_table.

Lemma attached_mode_class name k v : attached name = Some (k, v) -> mode_class k = true.
Proof.
  unfold attached.
  repeat match goal with |- context [if ?b then _ else _] => destruct b end;
    intro H; inversion H; subst; reflexivity.
Qed.

Lemma resolve_mode_class a k v : resolve a = Some (k, v) -> mode_class k = true.
Proof.
  unfold resolve. destruct (split_arg a) as [name v0].
  destruct (assoc_str name opt_table) as [k0|] eqn:E.
  - intro H. inversion H; subst. apply assoc_in in E.
    pose proof table_mode_class as T. rewrite forallb_forall in T. exact (T _ E).
  - destruct (attached name) as [[k1 [x|]]|] eqn:A; intro H; inversion H; subst; eapply attached_mode_class; eauto.
Qed.

(* ------------------------------------------------------------------ the invariant of the loop *)

Definition zf (c : cfg) (f : field) : Z := as_int (fv c f).

(* before the word at position pos is read: the recorded positions are positions of words already read; the spec's
   boolean says whether the recorded --height lies after the recorded --tmux *)
Definition mode_inv (pos : nat) (c : cfg) : Prop :=
  0 <= zf c F_HEIGHTIDX <= Z.of_nat pos /\
  (is_some (fv c F_TMUX) = true ->
   0 <= zf c F_TMUXIDX < Z.of_nat pos /\ (as_bool (fv c F_HAFTER) = true <-> zf c F_TMUXIDX < zf c F_HEIGHTIDX)).

Lemma mode_inv_mono p p' c : (p <= p')%nat -> mode_inv p c -> mode_inv p' c.
Proof. unfold mode_inv. intros L (A & B). split; [lia|]. intro S. destruct (B S) as (B1 & B2). split; [lia|exact B2]. Qed.

Lemma mode_inv_same p c c' : (forall f, is_mode_field f = true -> fv c' f = fv c f) -> mode_inv p c -> mode_inv p c'.
Proof.
  intros E. unfold mode_inv, zf.
  rewrite (E F_TMUX eq_refl), (E F_TMUXIDX eq_refl), (E F_HEIGHTIDX eq_refl), (E F_HAFTER eq_refl). auto.
Qed.

Lemma mode_inv_popup p c : mode_inv p c -> popup_impl c = popup_spec (fv c).
Proof.
  unfold mode_inv, popup_impl, popup_spec, zf. intros (A & B).
  destruct (is_some (fv c F_TMUX)); [|reflexivity]. cbn [andb].
  destruct (B eq_refl) as (B1 & B2).
  destruct (as_bool (fv c F_HAFTER)); cbn [negb].
  - apply Z.leb_gt. now apply B2.
  - apply Z.leb_le. destruct (Z_lt_le_dec (as_int (fv c F_TMUXIDX)) (as_int (fv c F_HEIGHTIDX))) as [L|L]; [|exact L].
    apply B2 in L. discriminate.
Qed.

Lemma as_int_vnat n : as_int (vnat n) = Z.of_nat n.
Proof. reflexivity. Qed.

Lemma tmux_ws_inv t pos c : mode_inv pos c -> mode_inv (S pos) (setfs (tmux_ws t pos) c).
Proof.
  unfold mode_inv, zf. intros (A & _). rewrite Nat2Z.inj_succ, !fv_setfs. cbn.
  split; [lia|]. intros _. split; [lia|]. split; [discriminate|lia].
Qed.

Lemma disjoint_assigned ws f : disjointb (map fst ws) = true -> is_mode_field f = true -> assigned f ws = None.
Proof.
  induction ws as [|[g v] r IH]; intros D M; [reflexivity|].
  unfold disjointb in D, IH. cbn [map fst forallb] in D. apply andb_true_iff in D as [D1 D2]. cbn [assigned]. rewrite (IH D2 M).
  destruct (Nat.eqb f g) eqn:E; [|reflexivity]. apply Nat.eqb_eq in E. subst. rewrite M in D1. discriminate.
Qed.

Lemma flag_inv ws pos c : flag_class ws = true -> mode_inv pos c -> mode_inv (S pos) (setfs ws c).
Proof.
  intros FC I. apply (mode_inv_mono pos (S pos)) in I; [|lia].
  unfold flag_class in FC. apply orb_true_iff in FC as [FC|FC]; [apply orb_true_iff in FC as [FC|FC]|].
  - eapply mode_inv_same; [|exact I]. intros f M. rewrite fv_setfs. now rewrite (disjoint_assigned _ _ FC M).
  - apply andb_true_iff in FC as [T1 T2].
    destruct (assigned F_TMUX ws) as [tv|] eqn:ET; [|discriminate].
    destruct (assigned F_HEIGHTIDX ws) eqn:EH; [discriminate|]. destruct (assigned F_HAFTER ws) eqn:EA; [discriminate|].
    unfold mode_inv, zf in *. rewrite !fv_setfs, ET, EH. destruct I as (A & _). split; [exact A|].
    apply negb_true_iff in T1. intro X. rewrite T1 in X. discriminate.
  - apply andb_true_iff in FC as [FC T3]. apply andb_true_iff in FC as [T1 T2].
    destruct (assigned F_TMUX ws) eqn:ET; [discriminate|]. destruct (assigned F_TMUXIDX ws) eqn:EI; [discriminate|].
    destruct (assigned F_HEIGHTIDX ws) as [[[| |]|]|] eqn:EH; try discriminate.
    destruct (assigned F_HAFTER ws) as [av|] eqn:EA; [|discriminate]. apply negb_true_iff in T3.
    unfold mode_inv, zf in *. rewrite !fv_setfs, ET, EI, EH, EA. destruct I as (A & B). cbn [as_int].
    split; [lia|]. intro X. destruct (B X) as (B1 & _). split; [exact B1|]. rewrite T3. split; [discriminate|lia].
Qed.

Lemma height_inv fs s vals pos c :
  (match fs with [f1; f2] => Nat.eqb f1 F_HEIGHT && Nat.eqb f2 F_HAFTER | _ => false end) = true ->
  run_parser PHeight s = Some vals -> mode_inv pos c ->
  mode_inv (S pos) (stamp_req PHeight pos (setfs (combine fs vals) c)).
Proof.
  intros F R I. destruct fs as [|f1 [|f2 [|]]]; try discriminate.
  apply andb_true_iff in F as [F1 F2]. apply Nat.eqb_eq in F1, F2. subst.
  cbn in R. destruct (parse_height s) as [hv|]; [|discriminate]. inversion R; subst. clear R.
  unfold mode_inv, zf in *. cbn [stamp_req combine]. rewrite !fv_setf. cbn [Nat.eqb F_HEIGHTIDX F_TMUX F_TMUXIDX F_HAFTER].
  rewrite Nat2Z.inj_succ, !fv_setfs. cbn. destruct I as (A & B).
  split; [lia|]. intro X. destruct (B X) as (B1 & _). split; [lia|]. split; [lia|reflexivity].
Qed.

Lemma disjoint_not_in l f : disjointb l = true -> is_mode_field f = true -> ~ In f l.
Proof.
  intros D M X. unfold disjointb in D. rewrite forallb_forall in D. specialize (D _ X). rewrite M in D. discriminate.
Qed.

Lemma exec_mode e pos k v c rest c' n :
  mode_class k = true -> exec e pos k v c rest = Ok (Good (c', n)) -> mode_inv pos c -> mode_inv (S pos) c'.
Proof.
  intros MC H I.
  assert (U : disjointb (kind_writes k) = true -> mode_inv (S pos) c').
  { intro D. apply (mode_inv_mono pos (S pos)) in I; [|lia]. eapply mode_inv_same; [|exact I].
    intros f M. eapply exec_untouched; [exact H|]. now apply disjoint_not_in. }
  destruct k; try (apply U; exact MC).
  - cbn in H. inversion H; subst. now apply flag_inv.
  - destruct p; try (apply U; exact MC).
    cbn [exec] in H. destruct (next_string v rest) as [[s m]|]; [|discriminate].
    destruct (run_parser PHeight s) as [vals|] eqn:R; [|discriminate]. inversion H; subst.
    eapply height_inv; eauto.
  - cbn [exec] in H. destruct v as [x|].
    + destruct (parse_tmux x); inversion H; subst. now apply tmux_ws_inv.
    + destruct rest as [|a r]; [inversion H; subst; now apply tmux_ws_inv|].
      destruct (starts_with DASH a || starts_with PLUS a); [inversion H; subst; now apply tmux_ws_inv|].
      destruct (parse_tmux a); inversion H; subst. now apply tmux_ws_inv.
Qed.

Lemma step_mode e pos c a rest c' n : step e pos c a rest = Ok (Good (c', n)) -> mode_inv pos c -> mode_inv (S pos) c'.
Proof.
  intros H I. apply step_good in H as (k & v & R & X). eapply exec_mode; eauto. eapply resolve_mode_class; eauto.
Qed.

Lemma go_mode e : forall args c pos k cz,
  go e c pos k args = Ok (Good cz) -> mode_inv pos c -> mode_inv (pos + length args) cz.
Proof.
  induction args as [|a r IH]; intros c pos k cz H I; cbn [go length] in *.
  - inversion H; subst. now rewrite Nat.add_0_r.
  - rewrite <- Nat.add_succ_comm. destruct k as [|k].
    + destruct (step e pos c a r) as [[[c2 n]|x]|] eqn:E; cbn in H; try discriminate.
      eapply IH; [exact H|]. eapply step_mode; eauto.
    + eapply IH; [exact H|]. eapply mode_inv_mono; [|exact I]. lia.
Qed.

Lemma layers_mode e : forall ls start c cf,
  parse_layers e start c ls = Ok (Good cf) -> mode_inv start c -> exists p, mode_inv p cf.
Proof.
  induction ls as [|l r IH]; intros start c cf H I.
  - cbn in H. inversion H; subst. eauto.
  - cbn [parse_layers] in H. unfold parse_layer in H.
    destruct (go e (layer_init c) start 0 l) as [[c2|x]|] eqn:G; cbn in H; try discriminate.
    destruct (end_validate c2) as [c2v|x] eqn:EV; cbn in H; try discriminate.
    pose proof (end_validate_id _ _ EV) as ->.
    eapply IH; [exact H|]. eapply go_mode; [exact G|].
    eapply mode_inv_same; [|exact I]. intros f M. unfold layer_init. rewrite fv_setf.
    destruct (Nat.eqb f F_HMAXLOCAL) eqn:E; [|reflexivity]. apply Nat.eqb_eq in E. subst. discriminate.
Qed.

Lemma default_mode : mode_inv 0 default_cfg.
Proof. unfold mode_inv, zf. vm_compute. split; [split; discriminate|discriminate]. Qed.

Lemma finalize_mode e c f : is_mode_field f = true -> fv (finalize e c) f = fv c f.
Proof.
  intro M. unfold finalize.
  destruct (fv c F_SCHEME) as [z|[|x l]]; try reflexivity.
  destruct (fv c F_CRITERIA) as [z|[|x l]].
  - rewrite fv_setf. destruct (Nat.eqb f F_SCHEME) eqn:E; [|reflexivity]. apply Nat.eqb_eq in E. subst. discriminate.
  - rewrite fv_setfs. cbn [assigned].
    destruct (Nat.eqb f F_CRITERIA) eqn:E1; [apply Nat.eqb_eq in E1; subst; discriminate|].
    destruct (Nat.eqb f F_SCHEME) eqn:E2; [apply Nat.eqb_eq in E2; subst; discriminate|reflexivity].
  - rewrite fv_setf. destruct (Nat.eqb f F_SCHEME) eqn:E; [|reflexivity]. apply Nat.eqb_eq in E. subst. discriminate.
Qed.

(* For every options file, $FZF_DEFAULT_OPTS and command line that fzf accepts, the comparison of recorded positions
   decides for the popup exactly when the documented rule does: the later of --tmux / --height wins, and the command
   line is later than the environment, which is later than the options file. *)
Theorem display_mode_proof : forall e file envw argv cfg,
  parse_all e file envw argv = Ok (Good cfg) -> popup_impl cfg = popup_spec (fv cfg).
Proof.
  intros e file envw argv cfg H. unfold parse_all in H.
  destruct (parse_layers e 0 default_cfg (filter nonemptyb [file; envw] ++ [argv])) as [[c|x]|] eqn:P; cbn in H; try discriminate.
  inversion H; subst. destruct (layers_mode _ _ _ _ _ P default_mode) as (p & I).
  eapply mode_inv_popup. eapply mode_inv_same; [|exact I]. intros f M. now apply finalize_mode.
Qed.

(* ------------------------------------------------------------------ the last --tmux decides *)

Lemma resolve_tmux_eq v : resolve (s_tmux_eq ++ v) = Some (KTmux, Some v).
Proof. unfold resolve. cbn [s_tmux_eq app split_arg has_prefix]. cbn. fold s_tmux. now rewrite tmux_in_table. Qed.

(* "--tmux=V" after which nothing names an option that writes the popup's value or the --height side of the rule:
   the popup is configured by V and it is the popup that starts (popup_spec), whatever came before — an earlier
   --tmux, --height, --no-tmux, in the same source or in an earlier one. *)
Theorem tmux_last_wins_proof : forall e c p0 xs v t zs c1 cz,
  parse_tmux v = Some t ->
  go e c p0 0 xs = Ok (Good c1) ->
  isdir e (s_tmux_eq ++ v) = false ->
  (forall a f, In a zs -> In f [F_TMUX; F_HAFTER] -> ~ In f (writes a)) ->
  go e c p0 0 (xs ++ (s_tmux_eq ++ v) :: zs) = Ok (Good cz) ->
  fv cz F_TMUX = vsome t /\ fv cz F_HAFTER = Fv /\ popup_spec (fv cz) = true.
Proof.
  intros e c p0 xs v t zs c1 cz HP HX HD HZ HG.
  assert (S : safe_head e ((s_tmux_eq ++ v) :: zs)) by (cbn; split; [reflexivity|exact HD]).
  rewrite (go_app e _ S xs c p0 0%nat c1 ltac:(lia) HX) in HG.
  cbn [go] in HG. unfold step in HG. rewrite resolve_tmux_eq in HG.
  cbn [exec] in HG. rewrite HP in HG. cbn in HG.
  assert (A : fv cz F_TMUX = vsome t).
  { erewrite go_untouched; [|intros a Ha; apply (HZ a F_TMUX Ha); cbn; tauto|exact HG]. rewrite fv_setfs. reflexivity. }
  assert (B : fv cz F_HAFTER = Fv).
  { erewrite go_untouched; [|intros a Ha; apply (HZ a F_HAFTER Ha); cbn; tauto|exact HG]. rewrite fv_setfs. reflexivity. }
  split; [exact A|split; [exact B|]]. unfold popup_spec. rewrite A, B. reflexivity.
Qed.
