(* C08: the invariant holds along EVERY schedule; coordinator_quiescent and never_stale without side conditions;
   the no-lost-wake-up half of progress. *)
From Fzf Require Import Prelude CoordSpec CoordModel CoordFlat CoordProofs CoordMore CoordInvRead CoordInvSearchB CoordInvUi.
Open Scope Z_scope.

Lemma inv_step s l : Inv s -> Inv (step s l).
Proof.
  intro H. destruct l.
  - now apply inv_push. - now apply inv_poll. - now apply inv_fin. - now apply inv_ui.
  - now apply inv_coordread. - now apply inv_coordsearch. - now apply inv_coordfin.
  - now apply inv_take. - now apply inv_publish. - now apply inv_cancel.
Qed.

Lemma inv_run_from s sched : Inv s -> Inv (run s sched).
Proof.
  unfold run, run_r. revert s. induction sched as [|l r IH]; cbn; intros s H; [exact H|].
  apply IH. now apply inv_step.
Qed.

Lemma inv_run q so n sched : Inv (run (init q so n) sched).
Proof. apply inv_run_from, inv_init. Qed.

Lemma coordinator_quiescent_proof filt q so n sched :
  let s := run (init q so n) sched in
  quiescent s = true ->
  shown filt s = filter_model filt (cur_cfg s) (cl s) /\ t_count s = length (cl s) /\ r_final (t_merger s) = true.
Proof. intros s Q. apply quiescent_from_inv; [apply inv_run | exact Q]. Qed.

(* along any schedule the sequence number and the major revision on display never decrease *)
Lemma never_stale_run q so n sched l :
  let s := run (init q so n) sched in rle (t_merger s) (t_merger (step s l)).
Proof. intro s. apply never_stale_step, inv_run. Qed.

Lemma run_app s a b : run s (a ++ b) = run (run s a) b.
Proof. unfold run, run_r. apply fold_left_app. Qed.

Lemma rle_trans a b c : rle a b -> rle b c -> rle a c.
Proof. unfold rle. intros [? ?] [? ?]. split; lia. Qed.

Lemma never_stale_runs s sched : Inv s -> rle (t_merger s) (t_merger (run s sched)).
Proof.
  revert s. induction sched as [|l r IH]; intros s H.
  - unfold run, run_r, rle. simpl. split; lia.
  - change (run s (l :: r)) with (run (step s l) r).
    eapply rle_trans; [apply never_stale_step, H | apply IH, inv_step, H].
Qed.

(* ---- progress, first half: nothing is ever waiting without an enabled internal label (no lost wake-up) ---- *)
Definition enabled (s : st) (l : label) : bool :=
  match l with
  | LCoordRead => e_new s || e_fin s
  | LCoordSearch => match e_search s with Some _ => true | None => false end
  | LCoordFin => match e_sfin s with Some _ => true | None => false end
  | LTake => match m_running s, m_pending s with None, Some _ => true | _, _ => false end
  | LPublish => match m_running s with Some _ => true | None => false end
  | LCancel => match m_running s, m_pending s with Some _, Some _ => true | _, _ => false end
  | LFin => rd_alive s
  | LPoll => rd_alive s && rd_dirty s
  | LPush _ => rd_alive s
  | LUi _ => true
  end.

Definition internal_labels : list label := [LFin; LCoordRead; LCoordSearch; LCoordFin; LTake; LPublish].

(* a label that is not enabled does nothing *)
Lemma disabled_noop s l : enabled s l = false -> step s l = s.
Proof.
  destruct l; unfold enabled, step, step_r; intro E; try discriminate.
  - now rewrite E. - now rewrite E. - now rewrite E.
  - unfold coord_read. now rewrite E.
  - unfold coord_search. destruct (e_search s); [discriminate|reflexivity].
  - unfold coord_sfin. destruct (e_sfin s); [discriminate|reflexivity].
  - destruct (m_running s), (m_pending s); try reflexivity; discriminate.
  - destruct (m_running s); [discriminate|reflexivity].
  - destruct (m_running s), (m_pending s); try reflexivity; discriminate.
Qed.

(* if none of the internal labels (reader end, coordinator rounds, matcher) is enabled, the state is quiescent:
   every pending piece of work - an event in the box, a running command, a request in the mailbox, a running
   scan - enables a label; the coordinator's sleep is not a state *)
Lemma no_lost_wakeup_proof s :
  forallb (fun l => negb (enabled s l)) internal_labels = true -> quiescent s = true.
Proof.
  unfold internal_labels, quiescent, enabled. cbn [forallb].
  destruct (rd_alive s), (e_new s), (e_fin s), (e_search s), (e_sfin s), (m_running s), (m_pending s); cbn; intro H;
    try discriminate; reflexivity.
Qed.

(* hence, at every state of every schedule where no internal label is enabled, the list shown is the fresh filter *)
Lemma stuck_means_converged_proof filt q so n sched :
  let s := run (init q so n) sched in
  forallb (fun l => negb (enabled s l)) internal_labels = true ->
  shown filt s = filter_model filt (cur_cfg s) (cl s) /\ t_count s = length (cl s).
Proof.
  intros s E. destruct (coordinator_quiescent_proof filt q so n sched (no_lost_wakeup_proof _ E)) as (A & B & _).
  split; assumption.
Qed.
